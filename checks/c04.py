"""C04 — invalid input is diagnosed: non-zero exit, message, no output, no crash (DESIGN.md §5.4, docs/C04.md)."""
import json, os
from vlib import core

THEOREMS = ["Props.C04." + t for t in [
    "pipeline_order", "code_facts", "check_order_complete", "type_categories", "anywhere_in_graph",
    "anywhere_in_graph_resolve", "dup_global_rejected", "dup_symbol_rejected", "dup_field_name_rejected",
    "dup_field_id_rejected", "dup_function_rejected", "dup_argument_rejected", "throws_reuses_success_rejected", "dup_enum_value_name_rejected",
    "dup_enum_number_rejected", "enum_out_of_int32_rejected", "oneway_nonvoid_rejected", "oneway_throws_rejected",
    "union_second_default_rejected", "union_check_never_fires", "undefined_type_rejected",
    "undefined_qualified_type_rejected", "nontype_symbol_as_type_rejected", "unknown_base_service_rejected",
    "typedef_cycle_rejected", "undefined_const_rejected", "undefined_or_ambiguous_const_rejected",
    "include_cycle_rejected", "abstract_stage_rejected", "reject_writes_nothing", "no_crash",
    "no_exit0_without_output_partial", "no_exit0_without_output", "union_second_default_regression",
    "typedef_cycle_ident_regression", "dup_argument_regression", "argument_default_regression", "ambiguous_dotted_include_regression", "throws_reuses_success_regression"]]

PARTIAL = [
    "all rule theorems are full on the model; what stays partial is the model's reach:",
    "syntax errors, missing includes, command-line errors and backend constant typing are abstract predicates "
    "(abstract_stage_rejected); they are tied by the oracle on the binary only",
    "no_exit0_without_output_partial / no_exit0_without_output: panics of the parser and of the backend are predicates of Env, "
    "not modelled code; full only through the regenerated fact handlePanicExits=true (035596c)",
    "union_second_default_rejected, dup_argument_rejected, no_crash, undefined_const_rejected at argument defaults: full since "
    "the repairs 69b2ce1, 0b3502e, 58e7614, 4fd3a1e (obligation code_facts re-checks that they are still in the source)",
]


def run(ctx):
    exe = ctx.go_build("c04")
    ctx.partial = PARTIAL
    ctx.trusted += [
        "translator harness/cmd/c04 extract (go/ast over semantic/checker.go, semantic/semantic.go, main.go, sdk/invoke.go)",
        "harness/cmd/c04: encoding of parser.Thrift into the model's Program (encode.go), classification of process observations",
        "OS process semantics (exit status, files under the working directory); 'hang' = no exit within 20 s and, run again, within 60 s",
    ]
    ctx.assumptions += [
        "syntax (PEG + walker), include search, flag parsing, backend selection/options and backend constant typing are "
        "predicates of Env: the model takes the implementation's word for them; only the oracle on the binary speaks about them",
        "parseFileRecursively hands over one AST per path and parsed References (WF), re-checked on every generated case by the driver",
        "no user definition is called like a base or container type (getEnum on a typedef of such a type ends the search)",
        "filepath.Base / filepath.Ext on include paths as modelled by idlPrefix (no trailing slash, no empty path)",
    ]
    if exe:
        if ctx.replay:
            doc = json.load(open(ctx.replay))
            if doc.get("kind") == "failing-input":
                rc, out = core.sh([exe, "replay", "-repo", core.REPO, "-dir", ctx.work, "-file", ctx.replay], timeout=1200)
                if rc != 0:
                    raise core.MachineryError("c04 replay failed: " + out[-2000:])
                for f in json.loads(out.strip().split("\n")[-1]):
                    ctx.add_violation(f["key"], f["what"], f["input"], f["expected"], f["observed"])
                ctx.cov["evaluations"] = 1
                return ctx.finish(rule="replay of one program + command line on the thriftgo binary")
        rc, gen = core.sh([exe, "extract", "-repo", core.REPO])
        if rc != 0:
            ctx.obligation("translator:c04-extract", False, gen[-2000:])
        else:
            ctx.obligation("translator:c04-extract", True)
            ctx.write_generated("C04", gen)
    built = ctx.lake_build(["ThriftVerif.Props.C04"], "lake-build:Props.C04")
    drv = ctx.lake_build(["tv_c04"], "lake-build:tv_c04")
    if built:
        ctx.audit("C04", THEOREMS)
        if ctx.tier == "thorough":
            ctx.leanchecker(["ThriftVerif.Props.C04"])
    if exe:
        rc, out = core.sh([exe, "run", "-repo", core.REPO, "-dir", ctx.work, "-seed", str(ctx.seed), "-tier", ctx.tier], timeout=3000)
        if rc != 0:
            raise core.MachineryError("c04 run failed: " + out[-2000:])
        st = json.load(open(os.path.join(ctx.work, "stats.json")))
        dist = st["distribution"]
        ctx.cov.update(evaluations=st["evaluations"], distinct_nontrivial=st["distinct_nontrivial"], samples=st["samples"],
                       distribution=dist, programs=dist.get("base:minimal", 0) + dist.get("base:random", 0),
                       process_runs=dist.get("binary_runs", 0))
        for f in (st.get("oracle_failures") or []):
            ctx.add_violation(f["key"], f["what"], f["input"], f["expected"], f["observed"])
        if drv:
            model = ctx.run_model("tv_c04", os.path.join(ctx.work, "ops.txt"))
            ctx.diff_lines("c04", os.path.join(ctx.work, "ops.txt"), os.path.join(ctx.work, "impl.txt"), model)
    return ctx.finish(rule="one per (rule, variant, position class): every catalogue edit at main / included / transitively "
                           "included file of a fixed three-file program (exhaustive), a seeded sample on random valid programs "
                           "(3..5 files, diamonds, sub-directory), invalid command lines; each case is (a) parsed by the real "
                           "parser and run through CircleDetect / the five checks per file / ResolveSymbols in a child process "
                           "(`S` lines: stage and failing file compared with the model), (b) run through the thriftgo binary "
                           "built from the tree for go and fastgo (`R` lines: outcome class and 'anything written'); the "
                           "oracle is the statement itself on the binary")
