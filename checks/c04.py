"""C04 — not built yet."""
def run(ctx):
    print("C04: no check built yet")
    return 2
