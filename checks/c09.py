"""C09 — schema evolution: unknown fields are tolerated, and preserved when asked (DESIGN.md §5.9)."""
import json, os
from vlib import core

THEOREMS = ["Props.C09." + t for t in [
    "old_reads_new", "new_reads_old",
    "tables_match", "unknown_append_write", "append_agrees_with_skip", "depth_limit",
    "ku_no_unknown_is_std", "ku_reads_like_std", "carrying_iff", "keep_roundtrip", "chain",
    "union_unknown_member_rewritten"]]

def run(ctx):
    exe = ctx.go_build("c09")
    ctx.trusted += ["translator harness/cmd/c09 extract (type codes, maxNestingDepth, keep_unknown_fields hooks of templates/struct.go)",
                    "correspondence (a): generator/golang/extension/unknown of the tree under test driven in a scratch module from apache TBinaryProtocol vs tv_c09",
                    "correspondence (b): old/new program pairs × {plain, keep_unknown_fields} compiled in one batch (harness/internal/batch), bytes moved along chains, vs tv_c09",
                    "oracle: strict byte walker (a); harness/internal/refcodec under the NEW schema, projection, byte identity of unknown fields (b)"]
    ctx.assumptions += ["apache/thrift v0.13.0 TBinaryProtocol over TMemoryBuffer as modelled in Gen.Unknown (reads incl. the 64-byte scratch buffer; every primitive exercised by tie (a))",
                        "protocol Skip modelled as strict untyped decode to depth 64 (Gen.Std.skipW); tie (b) feeds well-formed bytes only",
                        "Go reflect in the batch driver"]
    ctx.partial += ["keep_roundtrip / chain / carrying_iff / ku_no_unknown_is_std are one-struct-level statements: fields added INSIDE nested structs are covered by correspondence (b) only",
                    "union_unknown_member_rewritten is a computed regression witness (before the fix of the union Write check keep_roundtrip was false for unions)"]
    if exe:
        rc, gen = core.sh([exe, "extract", "-repo", core.REPO])
        ctx.obligation("translator:c09-extract", rc == 0, gen[-2000:] if rc else "")
        if rc == 0:
            ctx.write_generated("C09", gen)
    built = ctx.lake_build(["ThriftVerif.Props.C09"], "lake-build:Props.C09")
    drv = ctx.lake_build(["tv_c09"], "lake-build:tv_c09")
    if built:
        ctx.audit("C09", THEOREMS)
        if ctx.tier == "thorough":
            ctx.leanchecker(["ThriftVerif.Props.C09"])
    if exe:
        seed = ctx.seed
        want_key = None
        if ctx.replay:
            doc = json.load(open(ctx.replay))
            seed = doc.get("seed", seed)
            want_key = doc.get("key")
        cmd = [exe, "run", "-repo", core.REPO, "-dir", ctx.work, "-seed", str(seed), "-tier", ctx.tier]
        if want_key:
            # a replay re-examines one input: run only the tie it belongs to (the catalogue inputs are the first
            # cases of either tie whatever the sizes; random ones need the generator state of a full run of that tie)
            tie_a = want_key.startswith(("UA ", "UW ", "unknown.read-drops"))
            cmd += ["-only", "a" if tie_a else "b"]
            if want_key.startswith("unknown.read-drops"):
                cmd += ["-cases", "20"]
            elif want_key.startswith("keep_unknown_fields: union carrying"):
                cmd += ["-pairs", "1"]
        rc, out = core.sh(cmd, timeout=3400)
        if rc not in (0, 1) or not os.path.exists(os.path.join(ctx.work, "stats.json")):
            raise core.MachineryError("c09 run failed: " + out[-3000:])
        st = json.load(open(os.path.join(ctx.work, "stats.json")))
        dist = st["distribution"]
        ctx.cov.update(evaluations=st["evaluations"], distinct_nontrivial=st["distinct_nontrivial"], samples=st["samples"] or [],
                       distribution=dist, programs=4 * dist.get("b.pair.usable", 0))
        for f in (st.get("oracle_failures") or []):
            if want_key and f["key"] != want_key:
                continue
            ctx.add_violation(f["key"], f["what"], f["input"], f["expected"], f["observed"])
        if drv:
            ops = os.path.join(ctx.work, "ops.txt")
            model = ctx.run_model("tv_c09", ops)
            ctx.diff_lines("c09:Gen.Unknown-vs-unknown-package-and-generated-code", ops, os.path.join(ctx.work, "impl.txt"), model)
            if not ctx.cov.get("samples"):
                ctx.cov["samples"] = [l[:400] for l in open(ops).read().split("\n") if l.startswith(("UA ", "H "))][:6]
    return ctx.finish(rule="(a) one stream of field encodings per case (well-formed / deep / malformed by class), (b) one op per (pair, role, struct, value, hop); "
                           "an op is non-trivial unless it is a schema line; distinct by sha256 of the op line")
