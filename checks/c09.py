"""C09 — not built yet."""
def run(ctx):
    print("C09: no check built yet")
    return 2
