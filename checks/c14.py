"""C14 — field-mask library: queries and JSON transport agree with path semantics (DESIGN.md §5.14)."""
import json, os
from vlib import core

THEOREMS = ["Props.C14." + t for t in [
    "queries_match_paths", "order_independent", "error_iff", "json_roundtrip",
    "no_panic_partial", "no_panic_repaired", "getpath_terminates_partial", "getpath_terminates_repaired"]]

DOCUMENTED = {
    "panic:head-negative-index", "panic:atoi-overflow", "panic:int32-overflow", "panic:err-token", "panic:str-slice-oob",
    "panic:getpath-star-nil-field", "panic:field-nil-fdmask", "panic:foreach-nil-fdmask", "panic:foreach-invalid-type",
    "hang:getpath-backslash-under-all", "sel:black-terminal-star", "pim:black-terminal-star", "pim:typedef-not-unwrapped",
    "pim:struct-star-takes-first-field-type", "json:star-key-becomes-wildcard", "json:quote-not-json", "json:empty-mask-rejected",
    "json:non-utf8-key-replaced",
}

PARTIAL = [
    "no_panic: the full statement is false on the tree as found (9 panic sites; witnesses decided in Props/C14.lean and replayed by "
    "seeded cases); proved as no_panic_partial (decidable hypotheses idsNonneg / tokSafe / no negative query id / no negative JSON id, "
    "for every Sites configuration) and as no_panic_repaired (every proposed repair applied: no panic at all)",
    "queries_match_paths: black-list masks need NoTerminalStar (a final '*' does not reject anything; witness decided); paths must be in "
    "the regular fragment accepted by `shadow` ([,] / [1,*] / re-typing '$' / union-typed fields excluded) and struct field ids unique",
    "error_iff: only 'regular and conflict-free => accepted' (and its contrapositive); 'conflict => rejected' is false on the code "
    "(order dependent; witness decided)",
    "json_roundtrip: needs JsonSafe (no string key \"*\", ids in range) and a non-empty path set; keys whose strconv.Quote form is not "
    "JSON are outside the tree model (oracle finding json:quote-not-json); text stability is an oracle check, not a theorem",
    "getpath_terminates_partial: GetPath loops forever on a bare backslash under an 'all' node; proved under progressB (decidable)",
]


def run(ctx):
    exe = ctx.go_build("c14")
    ctx.partial += PARTIAL
    ctx.trusted += [
        "translator harness/cmd/c14 extract (probes each panic site of the real package; writes Generated/C14.lean `sites`)",
        "correspondence harness harness/cmd/c14 run vs tv_c14 (descriptors via thrift_reflection.RegisterAST; every exported fieldmask API call under recover)",
        "schema sent to the model = structs/typedefs/enums of the registered FileDescriptor (single file, no includes)",
    ]
    ctx.assumptions += [
        "encoding/json: the harness decodes each document with a mirror of fieldMaskTransfer and hands the model the tree plus, per path, "
        "bytes.Equal with \"$\"/\"*\" and the int32/int/string decodings; strconv.Itoa/Quote rendering is checked through the T op on every JSON-valid text",
        "strconv.Unquote and utf8 decoding as modelled by FieldMask.unquote (checked by correspondence on raw byte strings)",
        "thrift_reflection lookups as modelled by Schema.structOf/typedefOf/isEnum (first match by name; dotted names resolve to nothing)",
        "typedef chains are acyclic (a cycle makes unwrapDesc loop; outcome `crash` in the model, never generated)",
        "non-termination is observed as a 1 s CPU-time limit on a child process",
    ]
    if exe:
        if ctx.replay:
            rc, out = core.sh([exe, "replay", "-file", ctx.replay])
            fails = json.loads(out.strip().split("\n")[-1]) if rc == 0 else []
            if rc != 0:
                raise core.MachineryError("c14 replay failed: " + out[-2000:])
            for f in fails:
                ctx.add_violation(f["key"], f["what"], f["input"], f["expected"], f["observed"])
            ctx.cov["evaluations"] = 1
            return ctx.finish(rule="replay of one field-mask case")
        rc, gen = core.sh([exe, "extract"])
        if rc != 0 or "def sites" not in gen:
            ctx.obligation("translator:c14-extract", False, gen[-2000:])
        else:
            ctx.obligation("translator:c14-extract", True)
            ctx.write_generated("C14", gen)
            ctx.notes.append("panic-site table (true = panics on this tree): " + gen.split("{", 1)[1].split("}", 1)[0].strip())
    built = ctx.lake_build(["ThriftVerif.Props.C14"], "lake-build:Props.C14")
    drv = ctx.lake_build(["tv_c14"], "lake-build:tv_c14")
    if built:
        ctx.audit("C14", THEOREMS)
        if ctx.tier == "thorough":
            ctx.leanchecker(["ThriftVerif.Props.C14"])
    if exe:
        rc, out = core.sh([exe, "run", "-dir", ctx.work, "-seed", str(ctx.seed), "-tier", ctx.tier], timeout=3000)
        if rc != 0:
            raise core.MachineryError("c14 run failed: " + out[-2000:])
        st = json.load(open(os.path.join(ctx.work, "stats.json")))
        ctx.cov.update(evaluations=st["evaluations"], distinct_nontrivial=st["distinct_nontrivial"], samples=st["samples"],
                       distribution=st["distribution"], exhaustive=False)
        # findings already described in docs/C14.md go last, so that a NEW failing input always gets one of the
        # (at most 8) replay files
        fails = sorted(st.get("oracle_failures") or [], key=lambda f: f["key"] in DOCUMENTED)
        for f in fails:
            ctx.add_violation(f["key"], f["what"], f["input"], f["expected"], f["observed"])
        if drv:
            model = ctx.run_model("tv_c14", os.path.join(ctx.work, "ops.txt"))
            ctx.diff_lines("c14", os.path.join(ctx.work, "ops.txt"), os.path.join(ctx.work, "impl.txt"), model)
    return ctx.finish(rule="scenarios = generated IDL (fixed + seeded random; negative and >63 ids, typedef chains, all map-key kinds) x root "
                           "descriptor x white/black x path list (README grammar | byte-mutated | raw bytes) x ops N/Q/P/J/T/U; a case is "
                           "non-trivial when a mask was built or a document accepted; distinct by sha256 of the VL line; oracle = path-set "
                           "semantics Sel on paths known by construction, no panic, no hang, JSON round trip")
