"""C14 — not built yet."""
def run(ctx):
    print("C14: no check built yet")
    return 2
