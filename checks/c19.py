"""C19 — not built yet."""
def run(ctx):
    print("C19: no check built yet")
    return 2
