"""C19 — concurrent persist: all files written or an error, under every schedule (DESIGN.md §5.19)."""
import json, os, subprocess
from vlib import core

THEOREMS = ["Props.C19." + t for t in [
    "facts_match", "inv", "no_panic", "no_deadlock", "termination", "terminates_within", "return_means_quiescent",
    "success_means_all_written", "success_written_perm", "failure_reported", "returned_error_genuine",
    "no_double_write", "written_own_content", "semaphore_bound"]]


def _merge(total, st):
    total["evaluations"] += st["evaluations"]
    total["distinct_nontrivial"] += st["distinct_nontrivial"]
    for k, v in st["distribution"].items():
        total["distribution"][k] = total["distribution"].get(k, 0) + v
    if len(total["samples"]) < 6:
        total["samples"] += (st.get("samples") or [])[:2]
    for f in (st.get("oracle_failures") or []):
        total["oracle_failures"].append(f)


def run(ctx):
    exe = ctx.go_build("c19")
    ctx.trusted += ["translator harness/cmd/c19 extract (go/ast over asyncPostProcess.OnFinished -> Generated/C19.lean)",
                    "verif trace points in generator/generator.go (build tag verif) and the schedule controller in harness/cmd/c19",
                    "trace replay / LTS exploration in lean/Driver/C19.lean (the LTS itself is the proved model, instantiated with the generated facts)"]
    ctx.assumptions += ["Go channels, sync.WaitGroup and goroutine creation behave as the LTS's primitive transitions (buffered FIFO channel, counter, blocking Wait); "
                        "interleavings below trace-point granularity are sequentially consistent",
                        "a job is identified by its index; PostProcess and the write callback fail exactly as the injected oracle says; "
                        "a failing write callback is treated as having written nothing",
                        "no trace point separates wg.Done() from <-processing: schedules split there only in free-running runs"]
    if exe and ctx.replay:
        rc, out = core.sh([exe, "replay", "-repo", core.REPO, "-file", ctx.replay], timeout=600)
        fails = json.loads(out.strip().split("\n")[-1]) if rc == 0 else []
        if rc != 0:
            raise core.MachineryError("c19 replay failed: " + out[-2000:])
        for f in fails:
            ctx.add_violation(f["key"], f["what"], f["input"], f["expected"], f["observed"])
        ctx.cov["evaluations"] = 1
        return ctx.finish(rule="replay of one configuration and schedule")
    if exe:
        rc, gen = core.sh([exe, "extract", "-repo", core.REPO])
        if rc != 0:
            ctx.obligation("translator:c19-extract", False, gen[-2000:])
        else:
            ctx.obligation("translator:c19-extract", True)
            ctx.write_generated("C19", gen)
    drv = ctx.lake_build(["tv_c19"], "lake-build:tv_c19")
    built = ctx.lake_build(["ThriftVerif.Props.C19"], "lake-build:Props.C19")
    if built:
        ctx.audit("C19", THEOREMS)
        if ctx.tier == "thorough":
            ctx.leanchecker(["ThriftVerif.Props.C19"])
    if not exe:
        return ctx.finish(rule="harness did not build")
    thorough = ctx.tier == "thorough"
    paths = os.path.join(ctx.work, "paths.txt")
    explore_note = None
    states = transitions = 0
    with open(paths, "w") as pf:
        if drv:
            d = ctx.driver_path("tv_c19")
            rc, facts = core.sh([d, "facts"])
            changed = "facts=expected" not in facts
            # bounded exploration of the LTS instantiated with the facts of THIS tree (sanity on the unchanged tree,
            # search for a violating schedule when the skeleton changed)
            rc, ex = core.sh([d, "explore", "4" if (thorough or changed) else "3", "3" if (thorough or changed) else "2"], timeout=1200)
            if rc != 0:
                raise core.MachineryError("tv_c19 explore failed: " + ex[-2000:])
            viol = [l for l in ex.split("\n") if l.startswith("X ")]
            for l in ex.split("\n"):
                if l.startswith("S "):
                    kv = dict(x.split("=") for x in l.split()[1:])
                    states, transitions = int(kv["states"]), int(kv["transitions"])
            ctx.obligation("lts-exploration(generated facts): no reachable state violates a statement", not viol,
                           "; ".join(l.split(" | ")[0] for l in viol)[:1500])
            for l in viol:
                pf.write(l + "\n")
            if changed:
                explore_note = "skeleton facts differ from the proved ones:\n" + facts
            n_paths = 40000 if thorough else 400
            rc, gp = core.sh([d, "gen", str(ctx.seed), str(n_paths), "12" if thorough else "6", "16" if thorough else "4"], timeout=1200)
            if rc != 0:
                raise core.MachineryError("tv_c19 gen failed: " + gp[-2000:])
            pf.write(gp)
            if thorough:
                rc, cp = core.sh([d, "cover", "3", "2"], timeout=1200)
                if rc != 0:
                    raise core.MachineryError("tv_c19 cover failed: " + cp[-2000:])
                pf.write(cp)
    if explore_note:
        ctx.notes.append(explore_note)
    nbatch = 12 if thorough else 1
    procs = []
    for b in range(nbatch):
        bd = os.path.join(ctx.work, "b%d" % b)
        os.makedirs(bd)
        env = dict(os.environ)
        env.update(core.GOENV)
        procs.append((bd, subprocess.Popen([exe, "run", "-repo", core.REPO, "-dir", bd, "-seed", str(ctx.seed), "-tier", ctx.tier,
                                            "-paths", paths, "-batch", str(b), "-nbatch", str(nbatch)],
                                           stdout=subprocess.PIPE, stderr=subprocess.STDOUT, text=True, env=env)))
    total = dict(evaluations=0, distinct_nontrivial=0, distribution={}, samples=[], oracle_failures=[])
    crashed = []
    for bd, p in procs:
        try:
            out, _ = p.communicate(timeout=2400)
        except subprocess.TimeoutExpired:
            p.kill()
            out, _ = p.communicate()
            crashed.append("timeout: " + out[-1500:])
            continue
        if p.returncode != 0:
            crashed.append(out[-3000:])
            continue
        _merge(total, json.load(open(os.path.join(bd, "stats.json"))))
    if crashed:
        # a Go runtime crash of the harness process (e.g. "sync: negative WaitGroup counter" in a worker goroutine)
        # is the implementation panicking, not the machinery
        if any("panic:" in c or "fatal error:" in c for c in crashed):
            ctx.obligation("harness-run: implementation did not crash the process", False, crashed[0][-1500:])
        else:
            raise core.MachineryError("c19 run failed: " + crashed[0])
    traces = 0
    if drv:
        for bd, _ in procs:
            ops = os.path.join(bd, "ops.txt")
            if not os.path.exists(ops):
                continue
            model = ctx.run_model("tv_c19", ops, out_path=os.path.join(bd, "model.txt"))
            ctx.diff_lines("c19-" + os.path.basename(bd), ops, os.path.join(bd, "impl.txt"), model)
            traces += sum(1 for l in open(ops) if l.startswith("T "))
            for f in ("ops.txt", "impl.txt", "model.txt"):
                os.remove(os.path.join(bd, f))
    dist = total["distribution"]
    forced_bad = {k: v for k, v in dist.items() if k.startswith("forced:stuck") or k.startswith("forced:diverged")}
    ctx.obligation("model-paths-forced-on-implementation: every forced step was followed (select races excepted)", not forced_bad, json.dumps(forced_bad))
    ctx.cov.update(evaluations=total["evaluations"], distinct_nontrivial=total["distinct_nontrivial"], samples=total["samples"],
                   distribution=dist, exhaustive=False, traces_validated_against_impl=traces, states=states, transitions=transitions,
                   exhaustive_parts="LTS with the generated facts explored exhaustively for N<=%s, K<=%s, every failure oracle in {ok,pp,write}^N; "
                                    "thorough: every transition of the LTS for N<=3, K<=2 forced on the implementation" % (("4", "3") if thorough else ("3", "2")))
    for f in total["oracle_failures"]:
        ctx.add_violation(f["key"], f["what"], f["input"], f["expected"], f["observed"])
    return ctx.finish(rule="schedules of the real OnFinished chosen by a controller at trace-point granularity: seeded strategies (uniform, dispatcher-first, "
                           "workers-first, failing-first, random priorities, hold-exits, round-robin, postprocess-all-before-writes), post-processor = harness mock, none, or the real golang.GoBackend.PostProcess on recognisable Go sources (controlled runs on one P; expected bytes = PostProcess of that one file computed sequentially), model paths generated by the LTS driver and forced on the "
                           "implementation, free-running runs checked against the LTS's reachable finals (N<=4), Persist end to end with real files (fresh directory, or one holding a longer/shorter/equal previous generation written directly or by an earlier Persist call; SDK global working directory set/unset x absolute/relative names x nested directories, all roots scanned for stray files); "
                           "configurations: N jobs, concurrency (incl. <=0 and >N), failure pattern none/all/first/last/random per stage, with/without post-processor; "
                           "distinct by sha256 of configuration+event trace, non-trivial = at least one job")
