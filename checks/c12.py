"""C12 — output assembly loses nothing: insertion points and file-name conflicts (DESIGN.md §5.12, docs/C12.md)."""
import json, os
from vlib import core

THEOREMS = ["Props.C12." + t for t in [
    "marker_cfg_facts", "first_content_kept", "first_content_kept_history", "patches_only_appended", "dup_dropped", "conflict_renamed", "siblings_are_family", "sib_injective", "patch_goes_to_last", "unnamed_first_is_error", "feed_error_iff", "feed_never_panics_or_hangs", "nothing_lost", "names_unique", "old_witness_repaired", "scan_lossless", "patches_in_order", "markers_removed", "text_preserved", "replacer_order_irrelevant", "literal_keys_rendered", "patch_applied_at_literal_marker", "replacer_order_irrelevant_literal", "backend_emits_file_then_nameless_patch", "backend_pair_targets_own_file"]]

PARTIAL = [
           dict(theorem="Props.C12.patches_in_order / markers_removed / text_preserved",
                hypothesis="WordPoints cfg ps  -- every patch point of the file lies in the marker alphabet",
                why="stated on the regexp scan; for points with any other bytes the general forms literal_keys_rendered / patch_applied_at_literal_marker / replacer_order_irrelevant_literal hold (the last two for prefix-free key sets: with ')' in a point one key can extend another and the output depends on Go map order, docs/C12.md)")]


def merge_stats(acc, st):
    if acc is None:
        return st
    for k in ("evaluations", "distinct", "distinct_nontrivial"):
        acc[k] += st[k]
    for k, v in st["distribution"].items():
        acc["distribution"][k] = acc["distribution"].get(k, 0) + v
    acc["samples"] = (acc["samples"] or []) + (st["samples"] or [])
    keys = {f["key"] for f in (acc.get("oracle_failures") or [])}
    for f in (st.get("oracle_failures") or []):
        if f["key"] not in keys:
            acc["oracle_failures"] = (acc.get("oracle_failures") or []) + [f]
            keys.add(f["key"])
    return acc


def run(ctx):
    exe = ctx.go_build("c12")
    ctx.partial = PARTIAL
    ctx.trusted += ["translator harness/cmd/c12 extract (go/ast over generator/file_manager.go: insertReg literal; regexp/syntax shape check; plugin.InsertionPointFormat of the linked tree; go/ast over generator/golang/backend.go renderByTemplate: fields of the plugin.Generated literals)",
                    "correspondence harness harness/cmd/c12 run vs tv_c12 (in-process FileManager.Feed*/BuildResponse on seeded Feed histories and on the item streams of the real Go backend)",
                    "end-to-end stream (harness/cmd/c12/e2e.go): parser, semantic, GoBackend, Generator.Generate, Persist in process on IDL sets with colliding output names; go/parser as judge of the written files"]
    ctx.assumptions += ["regexp.FindAllString for <literal><ASCII class>*<byte not in class>: left-to-right scan, maximal class run (model: FileManager.scan/markerLen)",
                        "strings.NewReplacer(...).Replace with non-empty keys: at each position the first pair in argument order whose key is a prefix (model: FileManager.replace/lookupPrefix)",
                        "Go map range order is arbitrary; the model ranges in insertion order; Props.C12.replacer_order_irrelevant covers prefix-free key sets, the generator discards the others (point names containing ')')",
                        "filepath.Ext on Unix, strings.TrimSuffix, fmt %d as modelled by FileManager.sib/dec",
                        "each *plugin.Generated is submitted once (Feed renames by writing f.Name of the submitted object)"]
    if exe:
        rc, gen = core.sh([exe, "extract", "-repo", core.REPO])
        if rc != 0:
            ctx.obligation("translator:c12-extract", False, gen[-2000:])
        else:
            ctx.obligation("translator:c12-extract", True)
            ctx.write_generated("C12", gen)
    built = ctx.lake_build(["ThriftVerif.Props.C12"], "lake-build:Props.C12")
    drv = ctx.lake_build(["tv_c12"], "lake-build:tv_c12")
    if built:
        ctx.audit("C12", THEOREMS)
        if ctx.tier == "thorough":
            ctx.leanchecker(["ThriftVerif.Props.C12"])
    if exe:
        parts = 1 if ctx.replay else (5 if ctx.tier == "thorough" else 1)
        acc = None
        for part in range(parts):
            d = os.path.join(ctx.work, "part%d" % part)
            os.makedirs(d, exist_ok=True)
            if ctx.replay:
                rc, out = core.sh([exe, "replay", "-repo", core.REPO, "-dir", d, "-file", ctx.replay], timeout=3000)
            else:
                rc, out = core.sh([exe, "run", "-repo", core.REPO, "-dir", d, "-seed", str(ctx.seed), "-tier", ctx.tier,
                                   "-part", str(part), "-parts", str(parts), "-corpus", os.path.join(core.VERIF, "replays")], timeout=3000)
            if rc != 0:
                raise core.MachineryError("c12 run failed: " + out[-2000:])
            acc = merge_stats(acc, json.load(open(os.path.join(d, "stats.json"))))
            if drv:
                model = ctx.run_model("tv_c12", os.path.join(d, "ops.txt"), out_path=os.path.join(d, "model.txt"))
                ctx.diff_lines("c12-part%d" % part, os.path.join(d, "ops.txt"), os.path.join(d, "impl.txt"), model)
            for fn in ("ops.txt", "impl.txt", "model.txt"):
                try:
                    os.remove(os.path.join(d, fn))
                except OSError:
                    pass
        ctx.cov.update(evaluations=acc["evaluations"], distinct_nontrivial=acc["distinct_nontrivial"], samples=acc["samples"],
                       distribution=acc["distribution"], exhaustive=False)
        if not ctx.replay:
            w = [k for k in acc["distribution"] if k.startswith("witness-names:")]
            ok = w == ["witness-names:a.go,a_1.go,a_2.go"]
            ctx.obligation("regression:old-witness-answers-distinct-names-on-implementation(Props.C12.old_witness_repaired)", ok,
                           "" if ok else "implementation answered %s for Feed[a.go:X, a_1.go:X, a.go:Y], expected a.go,a_1.go,a_2.go "
                           "(the defect repaired by /repo 54c21d0 is back)" % w)
        for f in (acc.get("oracle_failures") or []):
            ctx.add_violation(f["key"], f["what"], f["input"], f["expected"], f["observed"])
    if ctx.replay:
        return ctx.finish(rule="replay of one recorded Feed history (full proof obligations re-checked; the history is run on the implementation, the model and the oracle)")
    return ctx.finish(rule="Feed histories: the corpus of past failures (replays/C12-*.json) first, 17 fixed cases (the repo's pinned tests, the witnesses of the defect repaired by 54c21d0, marker corner cases), renaming chains "
                           
                           "of length 2..14, then seeded random histories (1-4 calls, quick: <=12 items, thorough: <=40) over small per-history pools of "
                           "names (incl. <base>_<k><ext> shapes), contents (0..n markers, marker-like text) and points (in and outside the marker alphabet); "
                           "non-trivial = has a patch or a repeated name; distinct by sha256 of the VL line. "
                           "End-to-end stream: 1 fixed + 60 (thorough 600) seeded IDL sets of 2-3 files rendering to the same output name (with/without foreign "
                           "imports, services, identical twins, a control file), generated and persisted by the real generator; the backend's item stream of each also runs through the correspondence")
