"""C12 — not built yet."""
def run(ctx):
    print("C12: no check built yet")
    return 2
