"""C17 — not built yet."""
def run(ctx):
    print("C17: no check built yet")
    return 2
