"""C17 — dumping an AST to IDL text and parsing it back gives the same IDL (DESIGN.md §5.17)."""
import json, os
from vlib import core

THEOREMS = ["Props.C17." + t for t in [
    "generated_cfg_is_std", "writer_plain", "type_annotation_escaped_once", "literal_roundtrip", "literal_roundtrip_parsed",
    "literal_roundtrip_iff_safe_witnesses", "annotation_roundtrip", "annotation_text_roundtrip", "numeric_roundtrip_int",
    "numeric_roundtrip_double", "constvalue_roundtrip", "dump_parse_partial", "dump_accepted_partial", "tree_dump_exactly_once", "tree_dump_break_witness"]]

PARTIAL = [
    "dump_parse_partial: composed by theorem for constant values (all six kinds, nested), annotation lists, literals and numbers; "
    "headers, typedef/const/enum/struct-like/service layouts are tied by whole-file byte correspondence and judged by the oracle only",
    "dump_accepted_partial: acceptance by the reader model of the dumped fragments; acceptance by the semantic checker is judged by the oracle only",
    "numeric_roundtrip_double: FormatFloat/ParseFloat are parameters with the assumed shortest-round-trip and shape properties",
]


def run(ctx):
    exe = ctx.go_build("c17")
    ctx.partial += PARTIAL
    ctx.trusted += ["translator harness/cmd/c17 extract (go/ast over tool/trimmer/dump/dump.go: writeString and the tail of DumpIDL are plain, constants of quoteLiteral; "
                    "parser/thrift.peg rules Literal/EscapeLiteralChar/IntConstant/DoubleConstant/Annotation(s)/ConstValue/Identifier compared with the text the reader model follows)",
                    "correspondence harness harness/cmd/c17 run vs tv_c17 (whole-file byte equality of dump.DumpIDL and Dump.dump; parser vs reader model on literals, numbers, annotation lists)",
                    "oracle harness/cmd/c17 (AST comparison after parser.ParseString(dump.DumpIDL(ast)); semantic.CheckAll/ResolveSymbols before and after; tool/trimmer binary with -r)"]
    ctx.assumptions += [
        "strconv.FormatFloat(x,'f',-1,64) has the shape -?digits(.digits)? and strconv.ParseFloat of it returns x (parameters ff/pf of the model; instances supplied by the harness per case)",
        "the parser's []rune buffer is modelled byte-wise: valid UTF-8 only (bytes >= 0x80 are never quote, backslash, digit or letter)",
        "strings.TrimSpace emptiness in printComment modelled for ASCII white space",
        "a double re-read as an integer literal counts as equal when it converts to the same float64 (sign of zero ignored)",
        "comments (ReservedComments) are written and byte-compared in the correspondence but not part of the AST equality of the oracle",
    ]
    if exe:
        if ctx.replay:
            cmd = [exe, "replay", "-repo", core.REPO, "-file", ctx.replay]
            if '"src"' not in open(ctx.replay).read():
                cmd += ["-trimmer", ctx.go_build_repo("./tool/trimmer", "trimmer")]
            rc, out = core.sh(cmd)
            fails = json.loads(out.strip().split("\n")[-1]) if rc == 0 else []
            for f in fails:
                ctx.add_violation(f["key"], f["what"], f["input"], f["expected"], f["observed"])
            ctx.cov["evaluations"] = 1
            return ctx.finish(rule="replay of one IDL source")
        rc, gen = core.sh([exe, "extract", "-repo", core.REPO])
        if rc != 0:
            ctx.obligation("translator:c17-extract", False, gen[-2000:])
        else:
            ctx.obligation("translator:c17-extract", True)
            ctx.write_generated("C17", gen)
    built = ctx.lake_build(["ThriftVerif.Props.C17"], "lake-build:Props.C17")
    drv = ctx.lake_build(["tv_c17"], "lake-build:tv_c17")
    if built:
        ctx.audit("C17", THEOREMS)
        if ctx.tier == "thorough":
            ctx.leanchecker(["ThriftVerif.Props.C17"])
    if exe:
        trimmer = None
        try:
            trimmer = ctx.go_build_repo("./tool/trimmer", "trimmer")
        except core.MachineryError as e:
            ctx.obligation("build:tool/trimmer", False, str(e)[-1500:])
        cmd = [exe, "run", "-repo", core.REPO, "-dir", ctx.work, "-seed", str(ctx.seed), "-tier", ctx.tier]
        if trimmer:
            cmd += ["-trimmer", trimmer]
        rc, out = core.sh(cmd, timeout=3000)
        if rc != 0:
            raise core.MachineryError("c17 run failed: " + out[-2000:])
        st = json.load(open(os.path.join(ctx.work, "stats.json")))
        ctx.cov.update(evaluations=st["evaluations"], distinct_nontrivial=st["distinct_nontrivial"], samples=st["samples"],
                       distribution=st["distribution"], exhaustive=False)
        for f in (st.get("oracle_failures") or []):
            ctx.add_violation(f["key"], f["what"], f["input"], f["expected"], f["observed"])
        if drv:
            model = ctx.run_model("tv_c17", os.path.join(ctx.work, "ops.txt"))
            ctx.diff_lines("c17", os.path.join(ctx.work, "ops.txt"), os.path.join(ctx.work, "impl.txt"), model)
    return ctx.finish(rule="F ops: generated IDL programs parsed by the real parser (plus hand-built ASTs outside the parser's range), whole dumped file compared byte for byte; "
                           "T ops: include graph of the dumped ASTs vs the set of files written by `trimmer -r` (fixed shapes with a shared include before a new one, random include DAGs with sub-directories, with and without anything to trim) against the traversal model; "
                           "R/N/V/P/A ops: literal, number, constant-value and annotation-list texts read by the real parser vs the reader model "
                           "(V in source layout and, where the round trip holds, in the dumper's own layout); "
                           "non-trivial: F always, R/N/V/P when the text is accepted, A with >= 2 pairs; distinct by sha256 of the op line")
