"""C11 — not built yet."""
def run(ctx):
    print("C11: no check built yet")
    return 2
