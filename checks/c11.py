"""C11 — plugins see the compiler's AST and options, and their answers are honoured (DESIGN.md §5.11)."""
import json, os
from vlib import core

THEOREMS = ["Props.C11." + t for t in [
    "schema_ok", "codec_roundtrip", "request_roundtrip", "response_roundtrip", "marshal_total", "write_ends_with_stop",
    "compress_decompress", "trailer_detected", "trailer_absent", "trailer_ignored_by_reader",
    "version_gate", "params_order", "fault_fails", "answer_honoured", "warnings_shown_on_failure", "each_generate_runs_own_plugins", "plugin_params_own", "plugin_sees_compiler_ast", "gate_constants_match_source"]]


def run(ctx):
    exe = ctx.go_build("c11")
    plug = ctx.go_build("c11plugin")
    # the recording plugin built three more times with a thriftgo version in its build info (what Execute's
    # gate reads): alternative go.mod files `require github.com/cloudwego/thriftgo vX` + the same replace
    variants = {}
    if plug:
        import re
        gm = open(os.path.join(ctx.harness, "go.mod")).read()
        for v in ("v0.4.1", "v0.4.2", "v0.4.3"):
            alt = os.path.join(ctx.harness, "go.%s.mod" % v)
            open(alt, "w").write(re.sub(r"(?m)^(\s*(?:require\s+)?github.com/cloudwego/thriftgo )v\S+", lambda m: m.group(1) + v, gm, count=1))
            core.sh(["cp", os.path.join(ctx.harness, "go.sum"), alt[:-4] + ".sum"])
            out = os.path.join(ctx.work, "c11plugin-" + v)
            rc, log = core.sh(["go", "build", "-modfile=" + alt, "-tags", "verif", "-o", out, "./cmd/c11plugin"], cwd=ctx.harness, timeout=900)
            if rc == 0:
                variants[v] = out
            else:
                ctx.obligation("harness-build:c11plugin@" + v, False, log[-2000:])
    vflag = ",".join("%s=%s" % kv for kv in sorted(variants.items()))
    thriftgo = None
    try:
        thriftgo = ctx.go_build_repo(".", "thriftgo-c11")
    except core.MachineryError as e:
        ctx.obligation("build:thriftgo", False, str(e)[-2000:])
    ctx.trusted += [
        "translator harness/cmd/c11 extract (AST.thrift + protocol.thrift parsed and resolved by the repository's own parser; "
        "typedefs dereferenced with semantic.Deref; fields ordered by id; union members optional)",
        "correspondence harness harness/cmd/c11 run vs tv_c11 (reflection bridge c11lib between the repository's Go types and VL values)",
        "recording plugin harness/cmd/c11plugin and the thriftgo binary built from the repository (process level, runtime-observed)",
        "OS process creation, pipes, exec.CommandContext's kill on timeout (observed, not modelled)"]
    ctx.assumptions += [
        "the fast codec of k-AST.go/k-protocol.go computes what Gen.Std.write/read compute on the regenerated schema "
        "(checked on every generated request, both directions, bytes up to Go map iteration order)",
        "pointer graphs of includes are modelled by their unfolding; the Go memo map of pointers by a key set plus the pointees' final contents",
        "include compression is reached through the verif export hooks in-process, and through the real Execute path at process level "
        "(the recording plugin is rebuilt with `require github.com/cloudwego/thriftgo v0.4.1|v0.4.2|v0.4.3` + replace, so its build info reports that version)",
        "cloudwego/gopkg BinaryProtocol (ReadFieldBegin, Skip, Append*) as modelled by Core.Wire",
        "process level is runtime-observed: exit status, stderr, output tree, request digest recorded by the plugin, /proc/<pid> after the time limit"]
    ctx.partial += ["process faults (exit code, timeout kill, pipes) are observed at run time, the theorem fault_fails covers the decision logic only",
                    "decompress with the compressor's own map (the deferred revert in Execute) is proved; it runs only in the gate-on process scenarios (observed through the next plugin's digest)",
                    "request_roundtrip states byte-equality of re-encoding (decoded object writes the same bytes), not Go-level DeepEqual: nil and empty containers are identified"]
    if exe and ctx.replay:
        cmd = [exe, "replay", "-repo", core.REPO, "-file", ctx.replay]
        if thriftgo and plug:
            cmd += ["-thriftgo", thriftgo, "-plugin", plug, "-plugins", vflag]
        rc, out = core.sh(cmd, timeout=600)
        fails = []
        if rc == 0:
            try:
                fails = json.loads(out.strip().split("\n")[-1])
            except Exception:
                raise core.MachineryError("c11 replay: unparsable output: " + out[-1000:])
        else:
            raise core.MachineryError("c11 replay failed: " + out[-2000:])
        for f in fails:
            ctx.add_violation(f["key"], f["what"], f["input"], f["expected"], f["observed"])
        ctx.cov["evaluations"] = 1
        return ctx.finish(rule="replay of one recorded input")
    if exe:
        rc, gen = core.sh([exe, "extract", "-repo", core.REPO])
        if rc != 0:
            ctx.obligation("translator:c11-extract", False, gen[-2000:])
        else:
            ctx.obligation("translator:c11-extract", True)
            ctx.write_generated("C11Schema", gen)
    built = ctx.lake_build(["ThriftVerif.Props.C11"], "lake-build:Props.C11 (includes SchemaOK of the regenerated schema by decide)")
    drv = ctx.lake_build(["tv_c11"], "lake-build:tv_c11")
    if built:
        ctx.audit("C11", THEOREMS)
        if ctx.tier == "thorough":
            ctx.leanchecker(["ThriftVerif.Props.C11"])
    if exe:
        cmd = [exe, "run", "-repo", core.REPO, "-dir", ctx.work, "-seed", str(ctx.seed), "-tier", ctx.tier]
        if thriftgo and plug:
            cmd += ["-thriftgo", thriftgo, "-plugin", plug, "-plugins", vflag]
        rc, out = core.sh(cmd, timeout=3000)
        if rc != 0:
            raise core.MachineryError("c11 run failed: " + out[-2000:])
        st = json.load(open(os.path.join(ctx.work, "stats.json")))
        ctx.cov.update(evaluations=st["evaluations"], distinct_nontrivial=st["distinct_nontrivial"], samples=st["samples"],
                       distribution=st["distribution"], exhaustive=False,
                       process_level="runtime-observed: %d plugin executions through the thriftgo binary" % st["distribution"].get("process:plugin-executions", 0))
        rej = st["distribution"].get("program:rejected", 0)
        acc = st["distribution"].get("program:accepted", 0)
        ctx.obligation("generator:programs-accepted", acc > 0 and rej * 10 <= acc + rej,
                       "%d accepted, %d rejected by the front end" % (acc, rej))
        for f in (st.get("oracle_failures") or []):
            ctx.add_violation(f["key"], f["what"], f["input"], f["expected"], f["observed"])
        if drv:
            model = ctx.run_model("tv_c11", os.path.join(ctx.work, "ops.txt"))
            ctx.diff_lines("c11", os.path.join(ctx.work, "ops.txt"), os.path.join(ctx.work, "impl.txt"), model)
    return ctx.finish(rule="requests over ASTs of generated multi-file IDL programs (every node kind, resolved and unresolved, optional members toggled, "
                           "diamond includes shared by pointer) and type-directed synthetic Request/Response values; each through Marshal (model write, bytes "
                           "compared up to map order), Unmarshal (model read, canonical dumps compared), with and without include compression; include trees "
                           "(consistent shared/unshared, inconsistent, marker names); trailer, version and option strings; process scenarios through the thriftgo "
                           "binary with a recording plugin. Non-trivial: request with at least one definition or include, tree with more than two nodes, "
                           "non-empty strings; distinct by sha256 of the op line")
