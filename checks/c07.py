"""C07 — not built yet."""
def run(ctx):
    print("C07: no check built yet")
    return 2
