"""C07 — code generation is deterministic (DESIGN.md §5.7).

Proof side: per-class permutation-invariance theorems over Lib/Determinism.lean and the regenerated
inventory of map-iteration sites (Generated/C07Sites.lean, go/types over the packages reachable from
the compiler's entry points), every site classified in Props/C07.lean (`site_inventory_covered`).
Tie: in-process correspondence of the repository's FileManager.BuildResponse, meta.Marshal of a
FileDescriptor and pkg/namespace against the compiled model (tv_c07).
Oracle (implementation only): the thriftgo binary built from the repository is run repeatedly with
one command line (GOMAXPROCS 1,2,7,16; different and re-used output directories; a recording
plugin) and sha256 of every output file / of the plugin's stdin is compared across runs.
"""
import json, os
from vlib import core

THEOREMS = ["Props.C07." + t for t in [
    "perm_into_map", "perm_into_map_needs_distinct_keys", "ns_add_comm", "std_imports_distinct",
    "perm_then_sort", "perm_then_sort_strings", "service_throws_sorts_by_dedup_key", "service_throws_perm",
    "service_throws_bare_name_insufficient", "sorted_fields_sorts_by_id", "perm_any", "perm_filter", "perm_sum", "feed_rename_order_sensitive", "render_loops_range_over_the_dfs_sequence", "replacer_perm",
    "insertion_keys_prefix_free", "insertion_replace_perm", "insertion_replace_needs_key_alphabet",
    "descriptor_bytes_perm", "file_descriptor_perm", "const_map_bytes_perm", "plugin_request_perm", "fastgo_imports_perm",
    "descriptor_bytes_key_only_sort_insufficient",
    "descriptor_bytes_needs_sort", "descriptor_bytes_unsorted_order_sensitive", "file_descriptor_unsorted_order_sensitive",
    "plugin_request_unsorted_order_sensitive", "fastgo_imports_unsorted_order_sensitive",
    "site_inventory_covered", "emit_in_order_sites"]]

RULE = ("in-process cases (T: the template function ServiceThrows on scopes built from same-named exceptions of 2..4 packages, 16 calls per service; V: ConstValueDescriptor maps with 0..8 string entries, keys of equal content allowed, one case per distinct byte string in 8 calls; R: Feed histories with insertion points and patches; D: FileDescriptors with 0..4 includes and 0..6 "
        "namespaces, one case per distinct byte string meta.Marshal produced in 8 calls; N: namespace.Add sequences, for "
        "pairwise-distinct names/ids also 3 random permutations) are distinct by sha256 of the op line and non-trivial when they "
        "have >=1 insertion point and >=1 patch / a map of >=2 entries / >=2 entries; dynamic cases are (generated multi-file IDL "
        "program x option set) combos, each executed runs_per_combo times with GOMAXPROCS cycling 1,2,7,16, relative and absolute "
        "output directories and once into a directory holding a stale previous output; before them a regression corpus: the 3 minimal "
        "witnesses of the three repaired defects (32 executions each), a map constant/default with struct keys of equal content (24) and "
        "3 wide variants with 8-entry maps (6 each at quick, 16 at thorough), and aimed programs on every seed: the same names (exceptions, "
        "struct, enum, typedef, consts, service) defined in 4 includes whose Go packages pairwise share their last element, used side by side, "
        "under -r with the default, slim and raw_struct templates, slim with helper options, reflection+field masks and fastgo:no_fmt (8 each), "
        "a plugin that patches the generated file with nested insertion points (12), and 3 resp. 2 IDLs in different directories that map to one "
        "output file (same base name, same go namespace, each reached by its own include chain) under -r go and -r fastgo (12 each); one hash expected; a combo counts as distinct non-trivial when "
        "thriftgo accepted it and it produced >=1 output file or plugin request; evaluations = in-process cases + thriftgo executions")


def run(ctx):
    exe = ctx.go_build("c07")
    plug = ctx.go_build("c07plugin")
    tg = ctx.go_build_repo(".", "thriftgo", tags="")
    ctx.trusted += [
        "translator harness/cmd/c07 extract: go list -deps + go/types over the packages reachable from the thriftgo command, sdk and "
        "tool/trimmer (package-level reachability; build tags off); the table `std` of importManager.init read from its map literal",
        "hand classification of each site in Props/C07.lean (reading the code at the site and its callers)",
        "correspondence harness harness/cmd/c07 run vs tv_c07 (BuildResponse, meta.Marshal(FileDescriptor), namespace.Add)",
        "the recording plugin harness/cmd/c07plugin and sha256 comparison of output trees",
    ]
    ctx.assumptions += [
        "Go map iteration is modelled as an arbitrary permutation of the entries; the runtime's seed cannot be set from outside, "
        "repetition (and re-randomisation per range statement in-process) is the only lever",
        "strings.NewReplacer (generic algorithm, earlier pairs win at one position, no rescanning), regexp leftmost matching of "
        "insertReg, sort.Slice, text/template's sorted map range and go/format's import sorting as modelled / as documented",
        "concurrent writing of output files cannot change content: covered by C19 (files_written), not here",
        "source of non-determinism other than map iteration and scheduling (time, pid, environment) are observed only by the dynamic oracle",
    ]
    ctx.partial += [
        "ns_add_comm / perm_into_map need pairwise-distinct keys; insertion_replace_perm needs patch point names inside the "
        "insertion-point alphabet (insertion_replace_needs_key_alphabet shows the hypothesis is necessary)",
        "descriptor_bytes_perm / plugin_request_perm / fastgo_imports_perm are about the sorted writers (the code after the C07 repairs); "
        "on a tree without the repairs the D correspondence and the regression corpus fail (…_unsorted_order_sensitive say why)",
    ]
    tools = ["-thriftgo", tg, "-plugin", plug or ""]
    if exe and ctx.replay:
        doc = json.load(open(ctx.replay))
        if doc.get("kind") != "broken-obligation":
            rc, out = core.sh([exe, "replay", "-repo", core.REPO, "-file", ctx.replay, "-dir", ctx.work] + tools, timeout=1200)
            if rc != 0:
                raise core.MachineryError("c07 replay failed: " + out[-2000:])
            for f in json.loads(out.strip().split("\n")[-1]):
                ctx.add_violation(f["key"], f["what"], f["input"], f["expected"], f["observed"])
            ctx.obligation("replay-executed", True)
            ctx.cov.update(evaluations=max(40, int((doc.get("input") or {}).get("runs", 40))), distinct_nontrivial=1,
                           samples=[dict(replayed=doc.get("key"), cmdline=(doc.get("input") or {}).get("cmdline"))])
            return ctx.finish(rule="replay of one (IDL, command line): up to 40 executions compared")
    if exe:
        rc, gen = core.sh([exe, "extract", "-repo", core.REPO], timeout=600)
        if rc != 0:
            ctx.obligation("translator:c07-extract", False, gen[-2000:])
        else:
            ctx.obligation("translator:c07-extract", True)
            ctx.write_generated("C07Sites", gen)
            ctx.cov["sites"] = gen.count("⟩")
    built = ctx.lake_build(["ThriftVerif.Props.C07"], "lake-build:Props.C07")
    drv = ctx.lake_build(["tv_c07"], "lake-build:tv_c07")
    if built:
        ctx.audit("C07", THEOREMS)
        if ctx.tier == "thorough":
            ctx.leanchecker(["ThriftVerif.Props.C07"])
    if exe:
        rc, out = core.sh([exe, "run", "-repo", core.REPO, "-dir", ctx.work, "-seed", str(ctx.seed), "-tier", ctx.tier] + tools,
                          timeout=3000)
        if rc != 0:
            raise core.MachineryError("c07 run failed: " + out[-2000:])
        st = json.load(open(os.path.join(ctx.work, "stats.json")))
        dyn = json.load(open(os.path.join(ctx.work, "dyn.json")))
        if not plug:
            ctx.notes.append("recording plugin did not build: plugin requests not compared")
        dist = dict(st["distribution"])
        dist.update({"dyn:optset=" + k: v for k, v in (dyn.get("per_optset") or {}).items()})
        dist.update({"dyn:shape:" + k: v for k, v in (dyn.get("program_shape_totals") or {}).items()})
        dist.update({"dyn:differing:" + k: v for k, v in (dyn.get("differing_by_signature") or {}).items()})
        ctx.cov.update(evaluations=st["evaluations"] + dyn["executions"],
                       distinct_nontrivial=st["distinct_nontrivial"] + dyn["distinct_accepted_combos"] + dyn.get("regression_items", 0)
                       - len(dyn.get("regression_items_failed") or []),
                       samples=(st["samples"] or [])[:6] + (dyn.get("samples") or [])[:4],
                       distribution=dist, exhaustive=False,
                       in_process_cases=st["evaluations"], thriftgo_executions=dyn["executions"],
                       combos=dyn["combos"], combos_accepted=dyn["combos_accepted"], combos_differing=dyn["combos_differing"],
                       combos_rejected=dyn.get("combos_rejected") or [], runs_per_combo=dyn["runs_per_combo"],
                       files_compared=dyn["files_compared"], plugin_requests_compared=dyn["plugin_requests_compared"],
                       shrink_tests=dyn["shrink_tests"])
        multi = st["distribution"].get("D:of_those_marshalled_in_2+_orders_within_8_calls", 0)
        ctx.cov["descriptor_marshalling"] = ("%d of %d descriptors with a >=2-entry map were marshalled to more than one byte string within 8 calls "
                                             "(0 expected: meta.write sorts the entries)" % (
                                                 multi, st["distribution"].get("D:descriptors_with_a_map_of_2+_entries", 0)))
        ctx.cov["const_map_marshalling"] = "%d of %d const maps with keys of equal content were marshalled to more than one byte string within 8 calls (0 expected)" % (
            st["distribution"].get("V:of_those_marshalled_to_2+_byte_strings_within_8_calls", 0), st["distribution"].get("V:maps_with_keys_of_equal_content", 0))
        ctx.cov["regression_items"] = dyn.get("regression_items", 0)
        ctx.cov["regression_items_failed"] = dyn.get("regression_items_failed") or []
        if dyn["combos"] and dyn["combos_accepted"] * 2 < dyn["combos"]:
            raise core.MachineryError("generator problem: thriftgo rejected most generated programs: %s" % (dyn.get("combos_rejected") or [])[:3])
        for f in (st.get("oracle_failures") or []):
            ctx.add_violation(f["key"], f["what"], f["input"], f["expected"], f["observed"])
        if drv:
            model = ctx.run_model("tv_c07", os.path.join(ctx.work, "ops.txt"))
            ctx.diff_lines("c07", os.path.join(ctx.work, "ops.txt"), os.path.join(ctx.work, "impl.txt"), model)
    return ctx.finish(rule=RULE)
