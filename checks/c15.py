"""C15 — reflection descriptors describe the IDL exactly (DESIGN.md §5.15, docs/C15.md)."""
import json, os
from vlib import core

THEOREMS = ["Props.C15." + t for t in [
    "schema_agrees", "schema_ok", "const_value_type_numbering", "requiredness_strings", "uuid_key_agrees",
    "describe_faithful_partial", "describe_loses_include", "describe_keeps_first_namespace", "annotations_keep_all_values",
    "const_value_faithful", "type_expr_faithful",
    "welltyped_check_sound", "descriptor_roundtrip",
    "register_closed", "lookup_finds_partial", "typedesc_and_method_lookup_finds", "lookup_collision_witness", "field_lookup_finds",
    "const_type_registered", "gotype_bijection_partial", "gotype_alias_witness"]]


def run(ctx):
    exe = ctx.go_build("c15")
    ctx.trusted += ["translator harness/cmd/c15 extract (descriptor.thrift by the real parser; cross-checked against the StructMeta "
                    "bytes embedded in descriptor.go, decoded by meta.Unmarshal, and the Go struct tags/field order by reflect)",
                    "correspondence harness harness/cmd/c15 run vs tv_c15 (GetFileDescriptor, Marshal/Unmarshal, RegisterAST + lookup API)",
                    "gzip (compress/gzip) around the descriptor bytes; Go reflect.Type as registry key"]
    ctx.assumptions += ["the include structure is the finite tree of inc.Reference pointers (the parser rejects include cycles); "
                        "files are identified by Filename (same Filename => same AST)",
                        "Go map iteration order is represented by the order of the model's association lists; both sides are compared "
                        "after sorting map entries (byte order on the wire, text order in dumps)",
                        "meta.Marshal/Unmarshal behave as the shared schema-driven codec Gen.Std at the regenerated schema "
                        "(checked by the M/U correspondence ops on every descriptor produced)"]
    ctx.partial += ["describe_faithful_partial: needs pairwise distinct include base names and annotation keys "
                    "(the latter guaranteed by the parser, proved as annotations_keep_all_values); negative witness replayed",
                    "lookup_finds_partial: needs distinct include base names in the looking file, non-empty filenames and a registered "
                    "uuid; lookups with filepath \"\" (Go map iteration, nondeterministic) are outside",
                    "gotype_bijection_partial: registry model only; reflect.Type identity of generated Go types is outside Lean "
                    "(typedef aliases share their target's reflect.Type: gotype_alias_witness)"]
    if exe:
        if ctx.replay:
            rc, out = core.sh([exe, "replay", "-repo", core.REPO, "-file", ctx.replay])
            fails = json.loads(out.strip().split("\n")[-1]) if rc == 0 else []
            for f in fails:
                ctx.add_violation(f["key"], f["what"], f["input"], f["expected"], f["observed"])
            ctx.cov["evaluations"] = 1
            return ctx.finish(rule="replay of one IDL program")
        rc, gen = core.sh([exe, "extract", "-repo", core.REPO])
        if rc != 0:
            ctx.obligation("translator:c15-extract (descriptor.thrift = registered StructMeta = Go struct tags)", False, gen[-2000:])
        else:
            ctx.obligation("translator:c15-extract (descriptor.thrift = registered StructMeta = Go struct tags)", True)
            ctx.write_generated("C15Schema", gen)
    built = ctx.lake_build(["ThriftVerif.Props.C15"], "lake-build:Props.C15")
    drv = ctx.lake_build(["tv_c15"], "lake-build:tv_c15")
    if built:
        ctx.audit("C15", THEOREMS)
        if ctx.tier == "thorough":
            ctx.leanchecker(["ThriftVerif.Props.C15"])
    if exe:
        rc, out = core.sh([exe, "run", "-repo", core.REPO, "-dir", ctx.work, "-seed", str(ctx.seed), "-tier", ctx.tier], timeout=3000)
        if rc != 0:
            raise core.MachineryError("c15 run failed: " + out[-3000:])
        st = json.load(open(os.path.join(ctx.work, "stats.json")))
        dist = dict(st["distribution"])
        ctx.cov.update(evaluations=st["evaluations"], distinct_nontrivial=st["distinct_nontrivial"], samples=st["samples"],
                       exhaustive=False)
        for f in (st.get("oracle_failures") or []):
            ctx.add_violation(f["key"], f["what"], f["input"], f["expected"], f["observed"])
        if drv:
            model = ctx.run_model("tv_c15", os.path.join(ctx.work, "ops.txt"))
            ctx.diff_lines("c15-inprocess", os.path.join(ctx.work, "ops.txt"), os.path.join(ctx.work, "impl.txt"), model)
        # compiled part: quick = one small batch (3 programs whose main file has structs, a union, an exception,
        # enums and typedefs), thorough = 16 programs
        if True:
            cdir = os.path.join(ctx.work, "compiled")
            os.makedirs(cdir, exist_ok=True)
            rc, out = core.sh([exe, "compiled", "-repo", core.REPO, "-dir", cdir, "-seed", str(ctx.seed), "-tier", ctx.tier], timeout=3000)
            if rc != 0:
                raise core.MachineryError("c15 compiled failed: " + out[-3000:])
            cs = json.load(open(os.path.join(cdir, "stats.json")))
            ctx.cov["evaluations"] += cs["evaluations"]
            ctx.cov["distinct_nontrivial"] += cs["distinct_nontrivial"]
            for k, v in cs["distribution"].items():
                dist["compiled:" + k] = v
            for f in (cs.get("oracle_failures") or []):
                ctx.add_violation(f["key"], f["what"], f["input"], f["expected"], f["observed"])
            if drv:
                model = ctx.run_model("tv_c15", os.path.join(cdir, "ops.txt"), out_path=os.path.join(cdir, "model.txt"))
                ctx.diff_lines("c15-compiled", os.path.join(cdir, "ops.txt"), os.path.join(cdir, "impl.txt"), model)
        ctx.cov["distribution"] = dist
    return ctx.finish(rule="multi-file IDL programs (1-5 files, include DAGs, equal base names in different directories, every definition "
                           "kind, annotations with repeated keys, comments, constants of every syntactic shape, typedef chains across files) "
                           "generated from the seed; per file: describe / marshal / unmarshal ops; per program: RegisterAST, registry dumps, "
                           "lookups by name/id/type descriptor incl. misses and malformed names; every op is non-trivial except the "
                           "state-building P/A lines; distinct by sha256 of the op line")
