"""C15 — not built yet."""
def run(ctx):
    print("C15: no check built yet")
    return 2
