"""C08 — not built yet."""
def run(ctx):
    print("C08: no check built yet")
    return 2
