"""C08 — generated client and processor carry a call end to end (DESIGN.md §5.8, docs/C08.md)."""
import json, os
from vlib import core

THEOREMS = ["Props.C08." + t for t in [
    "template_constants_sound", "msg_roundtrip", "extends_dispatch", "extends_dispatch_step", "call_roundtrip",
    "handler_sees_args", "unknown_method", "wire_shape_request", "wire_shape_reply", "call_sequence", "answer_sufficient", "streaming_removed"]]


def run(ctx):
    exe = ctx.go_build("c08")
    ctx.trusted += ["translator harness/cmd/c08 extract (application-exception kinds and message expressions, reply message types, client Call shapes, "
                    "buildSynthesized names and the success field; regular expressions over templates/processor.go, templates/client.go, scope.go)",
                    "correspondence: generated services compiled in one batch (harness/internal/batch); interfaces / clients / processors found by go/parser "
                    "(harness/cmd/c08/scan.go), recording handlers synthesised from the generated interfaces, Client -> TMemoryBuffer <-> Processor in-process "
                    "(harness/cmd/c08/drvsrc.go.txt) vs tv_c08",
                    "oracle: harness/internal/refcodec (reference codec) + the harness' own envelope parser (cmd/c08/main.go splitMsg), independent of the model"]
    ctx.assumptions += ["apache/thrift v0.13.0: TStandardClient (seqid++ per Call, CALL for every request, Recv checks name / seqid / message type), "
                        "TBinaryProtocol message framing (strict write, non-strict read), tApplicationException.Read/Write, TMemoryBuffer as a byte queue — modelled "
                        "from their source, validated by the correspondence only",
                        "protocol Skip modelled as strict untyped decode to depth 64 (as C02)",
                        "Go type switch on the handler's error picks the throws entry with that dynamic type (thrown types of one function are pairwise distinct, else the code does not compile: BATCH-notes D10)",
                        "a failing Write (union with ≠ 1 member, duplicate set element, nil union) leaves a truncated message on the queue: outside the theorems, never generated",
                        "Go reflect + unsafe (seqid start value) in the driver"]
    ctx.partial += ["call_roundtrip / handler_sees_args state equality of values up to wire normal form (WireEq: same Go value or same encoding): a nil slice inside a struct comes back empty, as for C02",
                    "AnswerOK (the result object built from the handler's answer is well typed and Write accepts it) and writability of the arguments are hypotheses; "
                    "the request is always sent as CALL (TStandardClient never uses ONEWAY), which is what wire_shape_request states"]
    if exe:
        rc, gen = core.sh([exe, "extract", "-repo", core.REPO])
        ctx.obligation("translator:c08-extract", rc == 0, gen[-2000:] if rc else "")
        if rc == 0:
            ctx.write_generated("C08", gen)
    built = ctx.lake_build(["ThriftVerif.Props.C08"], "lake-build:Props.C08")
    drv = ctx.lake_build(["tv_c08"], "lake-build:tv_c08")
    if built:
        ctx.audit("C08", THEOREMS)
        if ctx.tier == "thorough":
            ctx.leanchecker(["ThriftVerif.Props.C08"])
    if exe:
        seed, tier, only = ctx.seed, ctx.tier, None
        cmd_extra = []
        if ctx.replay:
            doc = json.load(open(ctx.replay))
            seed, tier, only = doc.get("seed", seed), doc.get("tier", tier), doc.get("key")
            cmd_extra = ["-only", ctx.replay]
        rc, out = core.sh([exe, "run", "-repo", core.REPO, "-dir", ctx.work, "-seed", str(seed), "-tier", tier] + cmd_extra, timeout=3400)
        if rc not in (0, 1) or not os.path.exists(os.path.join(ctx.work, "stats.json")):
            raise core.MachineryError("c08 run failed: " + out[-3000:])
        st = json.load(open(os.path.join(ctx.work, "stats.json")))
        dist = st["distribution"]
        ctx.cov.update(evaluations=st["evaluations"], distinct_nontrivial=st["distinct_nontrivial"], samples=st["samples"] or [],
                       distribution=dist, programs=sum(v for k, v in dist.items() if k.startswith("unit.options.")))
        for f in (st.get("oracle_failures") or []):
            if only and f["key"] != only and not f["key"].startswith(("units-unusable", "service-shape")):
                continue
            ctx.add_violation(f["key"], f["what"], f["input"], f["expected"], f["observed"])
        if drv:
            ops = os.path.join(ctx.work, "ops.txt")
            model = ctx.run_model("tv_c08", ops)
            ctx.diff_lines("c08:Gen.Rpc-vs-generated-code", ops, os.path.join(ctx.work, "impl.txt"), model)
            if not ctx.cov.get("samples"):
                ctx.cov["samples"] = [l[:400] for l in open(ops).read().split("\n") if l.startswith(("CALL ", "INJ ", "RECV "))][:5]
    return ctx.finish(rule="(program, option set, service, method, arguments, scripted handler answer | injected request | canned reply) cases; CALL lines carry "
                           "1..20 calls on one connection; every op except schema (P/S) and service-table (V) lines is non-trivial; distinct by sha256 of the op line")
