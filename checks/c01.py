"""C01 — not built yet."""
def run(ctx):
    print("C01: no check built yet")
    return 2
