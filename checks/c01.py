"""C01 — every accepted IDL yields Go code that compiles (DESIGN.md §5.1, docs/C01.md)."""
import json, os
from vlib import core

THEOREMS = ["Props.C01." + t for t in ["ns_add_fresh", "ns_inj", "ns_names_distinct", "scope_globals_nodup", "struct_members_nodup",
            "func_params_safe", "keywords_cover", "imports_exact", "scope_globals_complete_partial", "mint_clash_witness",
            "struct_members_complete_partial"]]


def first_diff(a, b):
    """first item in which two `kind x,y;z` answer lines differ (for the report only)"""
    xs = a.replace(";", ",").split(",")
    ys = b.replace(";", ",").split(",")
    only_a = [x for x in xs if x not in ys][:3]
    only_b = [y for y in ys if y not in xs][:3]
    return "generated code only: %s | model only: %s" % (only_a, only_b)


def tie_violations(ctx, mism, ops_path):
    """A disagreement between Names (model) and the declarations of the generated file is reported with the unit's
    IDL and command line as the concrete input; one violation per query kind."""
    if not mism:
        return
    up = os.path.join(ctx.work, "units.json")
    units = json.load(open(up)) if os.path.exists(up) else {}
    # per query kind the disagreement on the SMALLEST unit (the fixed tiny units come out first)
    best = {}
    for m in mism:
        toks = m["op"].split(" ")
        if len(toks) < 2 or toks[1] not in units:
            continue
        size = len(units[toks[1]]["idl"])
        if toks[0] not in best or size < best[toks[0]][0]:
            best[toks[0]] = (size, m)
    for q in sorted(best):
        m = best[q][1]
        toks = m["op"].split(" ")
        u = units[toks[1]]
        what = {"QO": "outcome (accepted / refused by MustReserve)", "QG": "package-level identifiers", "QT": "struct members",
                "QP": "method parameter names", "QI": "import table"}.get(toks[0], toks[0])
        ctx.add_violation("tie:" + toks[0], "the %s of the generated file differ from the model Lib/Names.lean" % what,
                          dict(idl=u["idl"], files=u["files"], main=u["main"], cmd=u["cmd"], backend=u["backend"], options=u["options"],
                               recurse=u["recurse"], query=m["op"], head="tie:" + toks[0]),
                          "model: " + m["model"][:1500], "generated code: " + m["impl"][:1500] + " || " + first_diff(m["impl"], m["model"]))


def run(ctx):
    exe = ctx.go_build("c01")
    ctx.trusted += ["translator harness/cmd/c01 extract (isKeywords of types.go, go/token keywords, std table of imports.go, and three flags read off "
                    "scope_internal.go / backend.go that say which reserved-name / import repairs the tree carries) -> Generated/C01.lean",
                    "ORACLE = the Go toolchain: thriftgo binary built from the repo, go/parser on every written file, `go build` of all generated "
                    "packages (+ `go vet` type-check lines on a sample); go/types in process only steers the shrinker, every reported input is "
                    "re-established with the binary and go build",
                    "correspondence: thriftgo's own parser+semantic passes (in process) feed the model, real CodeUtils.Identify supplies the naming "
                    "table, go/parser reads the generated declarations; tv_c01 (Lib/Names.lean) must print the same names",
                    "shared harness packages idlgen / batch (harness/internal)"]
    ctx.assumptions += ["that the template TEXT around the identifiers is well-typed Go is NOT proved: it is observed by compiling (oracle)",
                        "thrift identifiers are ASCII (LowerFirstRune / Unexport modelled on bytes)",
                        "UseStdLibrary calls are not modelled: the package qualifiers used in the generated body are handed to the model as observed; "
                        "imports added late by Scope.includeIDL (types reached through a third file) are handed over as observed",
                        "units with template=slim/raw_struct, no_default_serdes, code_ref*, trim_idl, use_option, thrift_streaming … are compiled "
                        "(oracle) but not compared with the model (their identifier sets are not the default templates')"]
    ctx.partial += ["scope_globals_complete_partial / struct_members_complete_partial: the templates mint identifiers outside every namespace; the "
                    "full 'no identifier declared twice' is FALSE (mint_clash_witness, replayed as known unit X1) and is proved under the decidable "
                    "hypotheses noMintClash / noMemberMintClash",
                    "scope_globals_nodup needs pairwise distinct binding ids: two services of one file with a function of the same name share the id "
                    "`<fn>_args` (buildStructLike binds the synthesized struct under v.Name); such files are covered by the correspondence only"]
    if exe and ctx.replay:
        doc = json.load(open(ctx.replay))
        # a `tie:` replay (model vs generated declarations) needs the model: it is re-examined by a full run
        if doc.get("kind") == "failing-input" and isinstance(doc.get("input"), dict) and doc["input"].get("files") \
                and not str(doc["input"].get("head", "")).startswith("tie:"):
            rc, out = core.sh([exe, "replay", "-repo", core.REPO, "-dir", ctx.work, "-file", ctx.replay], timeout=1800)
            rp = os.path.join(ctx.work, "replay-result.json")
            if rc not in (0, 1) or not os.path.exists(rp):
                raise core.MachineryError("c01 replay failed: " + out[-3000:])
            res = json.load(open(rp))
            print(out[-3000:])
            ctx.cov["evaluations"] = 1
            if res["violation"]:
                ctx.add_violation(doc["key"] if res["same"] else res["head"], doc.get("what", ""), doc["input"], doc.get("expected"), out[-1500:])
            return ctx.finish(rule="replay of one minimised (IDL program, command line)")
    if exe:
        rc, gen = core.sh([exe, "extract", "-repo", core.REPO])
        ctx.obligation("translator:c01-extract", rc == 0, gen[-2000:] if rc else "")
        if rc == 0:
            ctx.write_generated("C01", gen)
    built = ctx.lake_build(["ThriftVerif.Props.C01"], "lake-build:Props.C01")
    drv = ctx.lake_build(["tv_c01"], "lake-build:tv_c01")
    if built:
        ctx.audit("C01", THEOREMS)
        if ctx.tier == "thorough":
            ctx.leanchecker(["ThriftVerif.Props.C01"])
    if exe:
        rc, out = core.sh([exe, "run", "-repo", core.REPO, "-dir", ctx.work, "-seed", str(ctx.seed), "-tier", ctx.tier], timeout=3400)
        if rc not in (0, 1) or not os.path.exists(os.path.join(ctx.work, "stats.json")):
            raise core.MachineryError("c01 run failed: " + out[-3000:])
        print("\n".join(l for l in out.split("\n") if l.startswith(("batch:", "c01:"))))
        st = json.load(open(os.path.join(ctx.work, "stats.json")))
        dist = st["distribution"]
        ctx.cov.update(evaluations=st["evaluations"], distinct_nontrivial=st["distinct_nontrivial"], samples=st["samples"] or [],
                       distribution=dist,
                       programs=sum(v for k, v in dist.items() if k.startswith("unit.options.")),
                       units_compared_with_model=dist.get("tie.units", 0),
                       units_failing=dist.get("unit.failing", 0))
        for f in (st.get("oracle_failures") or []):
            ctx.add_violation(f["key"], f["what"], f["input"], f["expected"], f["observed"])
        ctx.cov["violation_keys"] = [f["key"] for f in (st.get("oracle_failures") or [])]
        if drv:
            ops = os.path.join(ctx.work, "ops.txt")
            model = ctx.run_model("tv_c01", ops)
            mism = ctx.diff_lines("c01:Names-vs-generated-declarations", ops, os.path.join(ctx.work, "impl.txt"), model, limit=100000)
            tie_violations(ctx, mism, ops)
    return ctx.finish(rule="(IDL program, backend, option set) units: seeded idlgen programs with the stress name pool x every documented option alone "
                           "(rotating) and random combinations, -r on/off, fastgo; dedicated known-defect units; switch stream. A correspondence line "
                           "is non-trivial when it is a query (outcome / globals / members / params / imports of one generated file); distinct by "
                           "sha256 of the op line")
