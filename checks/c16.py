"""C16 — not built yet."""
def run(ctx):
    print("C16: no check built yet")
    return 2
