"""C16 — trimming keeps exactly what kept services need; meaning is unchanged (DESIGN.md §5.16)."""
import json, os
from vlib import core

THEOREMS = ["Props.C16." + t for t in [
    "fuel_suffices", "mark_sound", "mark_exact", "always_kept", "consts_typedefs_reachable", "kept_bodies_unchanged",
    "kept_refs_kept", "services_nofilter", "method_filter", "trim_resolves_partial",
    "base_service_kept_regression", "repaired_witnesses", "not_idempotent_with_methods", "fuel_independent", "bindings_preserved"]]

PARTIAL = [
    "trim_resolves: type references (kept_refs_kept, bindings_preserved: same definitions as before) and, without -m, cross-file bases and same-file bases of root services (trim_resolves_partial) are proved; the full statement is false for a base service declared in the same included file as its heir - Props.C16.base_service_dropped is the decide-checked counterexample, reproduced on TrimAST by the oracle class trim-error",
    "trim_idempotent: false with -m (Props.C16.not_idempotent_with_methods, oracle class not-idempotent); without -m it is not proved (oracle-checked on every generated case)",
    "method_filter: only the direction 'every kept function matches a pattern under some father name' is proved; 'a named method of a root service remains' is oracle-only; regexp2 is the parameter Cfg.rx",
    "wire_unchanged is stated at model level only (kept_bodies_unchanged: a kept struct-like is literally an original one)",
]


def run(ctx):
    exe = ctx.go_build("c16")
    ctx.trusted += ["correspondence harness harness/cmd/c16 (generator of multi-file programs, description->VL, AST->VL cross-check, canonical rendering) vs tv_c16",
                    "implementation-only oracle in harness/cmd/c16: Reach over the description, re-parse of the dumped result, second trim"]
    ctx.assumptions += ["regexp2.MatchString is the parameter Cfg.rx (the harness sends the match table of every pattern against every <service>.<function>)",
                        "names are unique per file and kind (CheckGlobals/CheckFunctions/RegisterNames run before TrimAST at every call site)",
                        "Reference.Index values are in range (set by ResolveSymbols from a loop index)",
                        "no cyclic `extends` (the Go code does not terminate on them with -m); include graph acyclic (CircleDetect)",
                        "MatchGoName and PreservedFiles are not exercised (nil/empty)"]
    ctx.partial += PARTIAL
    if exe and ctx.replay:
        rc, out = core.sh([exe, "replay", "-repo", core.REPO, "-file", ctx.replay])
        if rc != 0:
            raise core.MachineryError("c16 replay failed: " + out[-2000:])
        fails = json.loads(out.strip().split("\n")[-1])
        for f in fails:
            ctx.add_violation(f["key"], f["what"], f["input"], f["expected"], f["observed"])
        ctx.cov["evaluations"] = 1
        return ctx.finish(rule="replay of one (program, configuration)")
    # nothing is regenerated for C16: the tie is the correspondence below
    built = ctx.lake_build(["ThriftVerif.Props.C16"], "lake-build:Props.C16")
    drv = ctx.lake_build(["tv_c16"], "lake-build:tv_c16")
    if built:
        ctx.audit("C16", THEOREMS)
        if ctx.tier == "thorough":
            ctx.leanchecker(["ThriftVerif.Props.C16"])
    if exe:
        cmd = [exe, "run", "-repo", core.REPO, "-dir", ctx.work, "-seed", str(ctx.seed), "-tier", ctx.tier]
        if ctx.tier == "thorough":
            # binary level: `trimmer -r` and `thriftgo -g go:trim_idl` on 40 programs written to disk
            try:
                trimmer = ctx.go_build_repo("./tool/trimmer", "trimmer-bin")
                thriftgo = ctx.go_build_repo(".", "thriftgo-bin")
                cmd += ["-trimmer", trimmer, "-thriftgo", thriftgo]
            except core.MachineryError as e:
                ctx.obligation("build:trimmer+thriftgo", False, str(e)[-1500:])
        rc, out = core.sh(cmd, timeout=3000)
        if rc != 0:
            raise core.MachineryError("c16 run failed: " + out[-2000:])
        st = json.load(open(os.path.join(ctx.work, "stats.json")))
        ctx.cov.update(evaluations=st["evaluations"], distinct_nontrivial=st["distinct_nontrivial"], samples=st["samples"],
                       distribution=st["distribution"], exhaustive=False)
        for f in (st.get("oracle_failures") or []):
            ctx.add_violation(f["key"], f["what"], f["input"], f["expected"], f["observed"])
        if drv:
            model = ctx.run_model("tv_c16", os.path.join(ctx.work, "ops.txt"))
            ctx.diff_lines("c16", os.path.join(ctx.work, "ops.txt"), os.path.join(ctx.work, "impl.txt"), model)
    return ctx.finish(rule="seeded multi-file programs (1-6 files, include DAG with diamonds, equal names across files, references through "
                           "typedefs/containers/includes/base services) x 4 configurations each (plain, preserve=false, -m, preserved list/mixed); "
                           "a case is non-trivial when the program has more than one file or at least one service function; distinct by sha256 of the VL line")
