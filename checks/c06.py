"""C06 — not built yet."""
def run(ctx):
    print("C06: no check built yet")
    return 2
