"""C06 — constants and default values in Go equal the values written in the IDL (DESIGN.md §5.6)."""
import json, os
from vlib import core

THEOREMS = ["Props.C06." + t for t in ["const_value", "const_value_named", "regression_escaped_quote", "regression_foreign_struct_literal", "regression_optional_enum_member", "const_value_fails_struct_member_by_ident", "const_reject_iff", "kind_mismatch_rejected", "container_tolerance", "string_literal_emission", "quoteBody_clauses", "string_literal_value", "string_literal_plain", "string_literal_regressions", "newX_defaults", "initDefault_zero_eq_newX", "getter_default", "getter_set", "isset_optional_default", "isset_pointer", "predicate_tables_sound"]]

def run(ctx):
    exe = ctx.go_build("c06")
    ctx.trusted += ["translator harness/cmd/c06 extract",
                    "correspondence: generated code compiled in one batch (harness/internal/batch), constants dumped through a generated accessor file, vs tv_c06",
                    "input of the model: thriftgo's own front end (parser + semantic) run in process on the generated IDL",
                    "oracle: the value the IDL generator (harness/internal/idlgen) means by every initializer it writes"]
    ctx.assumptions += ["fmt.Sprint(float64) followed by the Go compiler's constant conversion gives back the float64 (text passed through, value checked by the compiled batch)",
                        "Go's interpreted string literals as modelled by Gen.Defaults.goUnquote (tied to strconv.Unquote by the literal suite)",
                        "Go identifiers resolve to the declaration they were generated for (naming is C05's subject)",
                        "Go reflect in the driver"]
    if exe:
        rc, gen = core.sh([exe, "extract", "-repo", core.REPO])
        ctx.obligation("translator:c06-extract", rc == 0, gen[-2000:] if rc else "")
        if rc == 0:
            ctx.write_generated("C06", gen)
    built = ctx.lake_build(["ThriftVerif.Props.C06"], "lake-build:Props.C06")
    drv = ctx.lake_build(["tv_c06"], "lake-build:tv_c06")
    if built:
        ctx.audit("C06", THEOREMS)
        if ctx.tier == "thorough":
            ctx.leanchecker(["ThriftVerif.Props.C06"])
    if exe:
        seed, only, extra = ctx.seed, None, []
        if ctx.replay:
            doc = json.load(open(ctx.replay))
            seed, only = doc.get("seed", seed), doc.get("key")
            if only and only.startswith("defect:"):
                extra = ["-programs", "-1", "-wild", "0"]      # the catalogue and the literal defects are seed independent
        args = [exe, "run", "-repo", core.REPO, "-dir", ctx.work, "-seed", str(seed), "-tier", ctx.tier] + extra
        rc, out = core.sh(args, timeout=3400)
        print(out[-3000:])
        if rc not in (0, 1) or not os.path.exists(os.path.join(ctx.work, "stats.json")):
            raise core.MachineryError("c06 run failed: " + out[-3000:])
        st = json.load(open(os.path.join(ctx.work, "stats.json")))
        ctx.cov.update(evaluations=st["evaluations"], distinct_nontrivial=st["distinct_nontrivial"], samples=st["samples"] or [],
                       distribution=st["distribution"], programs=sum(v for k, v in st["distribution"].items() if k.startswith("unit.options.")))
        for f in (st.get("oracle_failures") or []):
            if only and f["key"] != only:
                continue
            ctx.add_violation(f["key"], f["what"], f["input"], f["expected"], f["observed"])
        if drv:
            ops = os.path.join(ctx.work, "ops.txt")
            model = ctx.run_model("tv_c06", ops)
            ctx.diff_lines("c06:Gen.Defaults-vs-thriftgo", ops, os.path.join(ctx.work, "impl.txt"), model)
            if not ctx.cov.get("samples"):
                ctx.cov["samples"] = [l for l in open(ops).read().split("\n") if l.startswith(("K ", "KT ", "G "))][:6]
    return ctx.finish(rule="(program, option set, constant | struct | object | initialiser text | literal) cases from the seeded generators; "
                           "schema/environment lines are trivial, every op line is non-trivial; distinct by sha256 of the op line")
