"""C02 — not built yet."""
def run(ctx):
    print("C02: no check built yet")
    return 2
