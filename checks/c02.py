"""C02 — generated Read/Write implement the Thrift wire format of the IDL (DESIGN.md §5.2)."""
import json, os
from vlib import core

THEOREMS = ["Props.C02." + t for t in ["typeid_table_sound", "wire_roundtrip", "write_wellformed", "read_write_roundtrip",
            "read_skips_unknown", "read_retag_skips", "read_skips_unknown_anywhere", "read_required_missing",
            "union_write_refuses", "presentation_options_irrelevant"]]

def run(ctx):
    exe = ctx.go_build("c02")
    ctx.trusted += ["translator harness/cmd/c02 extract (golang.GetTypeIDConstant per category)",
                    "correspondence: generated code compiled in one batch (harness/internal/batch) and driven by reflection vs tv_c02",
                    "oracle: harness/internal/refcodec (independent schema-driven reference codec, Go)"]
    ctx.assumptions += ["apache/thrift v0.13.0 TBinaryProtocol = Core.Wire primitives (every primitive exercised by the correspondence)",
                        "protocol Skip modelled as strict untyped decode to depth 64 (apache's Skip ignores some errors on malformed input; such inputs are not generated)",
                        "Go reflect in the driver"]
    ctx.partial += ["read_retag_skips / read_required_missing are per-loop-step statements (any state = any position); "
                    "read_skips_unknown_anywhere is the composed statement for unknown ids"]
    if exe:
        rc, gen = core.sh([exe, "extract", "-repo", core.REPO])
        ctx.obligation("translator:c02-extract", rc == 0, gen[-2000:] if rc else "")
        if rc == 0:
            ctx.write_generated("C02", gen)
    built = ctx.lake_build(["ThriftVerif.Props.C02"], "lake-build:Props.C02")
    drv = ctx.lake_build(["tv_c02"], "lake-build:tv_c02")
    if built:
        ctx.audit("C02", THEOREMS)
        if ctx.tier == "thorough":
            ctx.leanchecker(["ThriftVerif.Props.C02"])
    if exe:
        seed = ctx.seed
        if ctx.replay:
            doc = json.load(open(ctx.replay))
            seed = doc.get("seed", seed)
        rc, out = core.sh([exe, "run", "-repo", core.REPO, "-dir", ctx.work, "-seed", str(seed), "-tier", ctx.tier], timeout=3400)
        if rc not in (0, 1) or not os.path.exists(os.path.join(ctx.work, "stats.json")):
            raise core.MachineryError("c02 run failed: " + out[-3000:])
        st = json.load(open(os.path.join(ctx.work, "stats.json")))
        ctx.cov.update(evaluations=st["evaluations"], distinct_nontrivial=st["distinct_nontrivial"], samples=st["samples"] or [],
                       distribution=st["distribution"], programs=sum(v for k, v in st["distribution"].items() if k.startswith("unit.options.")))
        for f in (st.get("oracle_failures") or []):
            if ctx.replay and f["key"] != json.load(open(ctx.replay)).get("key"):
                continue
            ctx.add_violation(f["key"], f["what"], f["input"], f["expected"], f["observed"])
        if drv:
            ops = os.path.join(ctx.work, "ops.txt")
            model = ctx.run_model("tv_c02", ops)
            ctx.diff_lines("c02:Gen.Std-vs-generated-code", ops, os.path.join(ctx.work, "impl.txt"), model)
            if not ctx.cov.get("samples"):
                ctx.cov["samples"] = [l for l in open(ops).read().split("\n") if l.startswith(("W ", "R "))][:5]
    return ctx.finish(rule="(program, option set, struct, value, perturbation) cases from the seeded type-directed generators; an op is "
                           "non-trivial unless it is a schema line or N; distinct by sha256 of the op line")
