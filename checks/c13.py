"""C13 — not built yet."""
def run(ctx):
    print("C13: no check built yet")
    return 2
