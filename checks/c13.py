"""C13 — field-mask filtered serialization emits exactly the selected data (DESIGN.md §5.13)."""
import json, os
from vlib import core

THEOREMS = ["Props.C13." + t for t in [
    "key_dispatch_table_sound", "zero_writer_table_sound",
    "precount_map", "precount_list_repaired", "precount_list_partial", "masked_write_wellformed_partial",
    "masked_write_restrict", "masked_read_restrict", "nil_mask_is_std_write", "nil_mask_is_std_read",
    "required_still_written", "nonrequired_filtered_absent_partial", "halfway"]]

DOCUMENTED = {
    "precount-list-header-mismatch", "precount-set-header-mismatch", "black-all-container-header-mismatch",
    "zero-required-writes-nonrequired", "zero-required-rejects-union-field", "required-black-submask-applied",
    "union-field-white-unselectable", "union-field-black-unfilterable",
    "read:union-field-white-unselectable", "read:union-field-black-unfilterable", "union-element-paths-rejected",
    "black:prefix-after-deeper-path-ignored", "black:prefix-after-deeper-path-ignored:read",
    "white:prefix-after-star-path-ignored", "white:prefix-after-star-path-ignored:read", "zero-required-rejects-typedef-container-field",
}

PARTIAL = [
    "precount_list: FALSE as coded (the list/set pre-count loop mutates its own bound: n=3, selected {0} => 2; n=2, nothing selected => 1; "
    "witnesses decided in Props/C13.lean and replayed by the directed unit); proved for the map variant (precount_map), for the repaired "
    "loop (precount_list_repaired); for the loop as coded only: never announces fewer than are written, exact when nothing is filtered "
    "(precount_list_partial)",
    "masked_write_wellformed: false today for lists/sets (witness decided and replayed); proved as masked_write_wellformed_partial for the "
    "repaired pre-count loop, masks whose All() is honest on every reachable sub-mask (Good: holds for white-list masks; fails for a "
    "black-list mask at the end of a complete path, finding black-all-container-header-mismatch) and schemas whose maps have integer/string keys",
    "masked_write_restrict / masked_read_restrict: per-level characterisations (the element/entry loops write exactly the selected elements under "
    "their sub-masks; a rejected element/field is skipped consuming the same bytes, a passed one is read under its sub-mask; masked list read "
    "for base-typed elements). The end-to-end statement 'a strict reader of the bytes finds restrict(mask, value)' is NOT a Lean theorem: it is "
    "the implementation-only oracle (restrict computed from the path set in Go) plus the correspondence",
    "nonrequired_filtered_absent: false under field_mask_zero_required (the else-branch is emitted for every field; witness decided and replayed); "
    "proved when the option is off or the template emits the branch for required fields only",
    "the relation between a path set and the answers of Field/Int/Str/All is property C14's theorem (queries_match_paths); C13's theorems are "
    "stated over the answers, for every mask value",
]


def run(ctx):
    exe = ctx.go_build("c13")
    exe14 = ctx.go_build("c14")
    ctx.partial += PARTIAL
    ctx.trusted += [
        "translator harness/cmd/c13 extract (shape of templates.FieldWriteList/FieldWriteSet pre-count loop and of the zero-value else-branch of "
        "templates.StructLikeWriteField, read from the template texts of the tree under test) -> Generated/C13.lean",
        "translator harness/cmd/c14 extract (panic-site / repair table of the fieldmask library, probed) -> Generated/C14.lean",
        "correspondence: generated code (with_reflection,with_field_mask x {default, field_mask_halfway, field_mask_zero_required}) compiled in one "
        "batch and driven by reflection; masks built by the real fieldmask.NewFieldMask from GetTypeDescriptor(); bytes canonicalised by a recording "
        "TProtocol (structure from Begin/End calls, map entries sorted) vs tv_c13 (C14 mask model + Gen.Mask)",
        "oracle: refcodec (strict reference decoder) and `restrict` computed from the abstract path set (harness/cmd/c13/oracle.go)",
    ]
    ctx.assumptions += [
        "apache/thrift v0.13.0 TBinaryProtocol = Core.Wire primitives; protocol Skip = strict untyped decode to depth 64",
        "thrift_reflection lookups (GetTypeDescriptor, field by name/id, typedef unwrapping) as modelled by the C14 schema sent on the D line "
        "(typedef-free, one name per struct-like; unions and exceptions are not structs for the library)",
        "Go map iteration order does not matter (entries sorted on both sides before comparison)",
        "a generated object is written once (Write stores the masks of children in the children: a second Write under field_mask_halfway would see them)",
    ]
    if exe:
        rc, gen = core.sh([exe, "extract", "-repo", core.REPO])
        ok = rc == 0 and "def tpl" in gen
        ctx.obligation("translator:c13-extract", ok, "" if ok else gen[-2000:])
        if ok:
            ctx.write_generated("C13", gen)
            ctx.notes.append("template shape: " + gen.split("{", 1)[1].split("}", 1)[0].strip())
    if exe14:
        rc, gen = core.sh([exe14, "extract"])
        ok = rc == 0 and "def sites" in gen
        ctx.obligation("translator:c14-extract(sites)", ok, "" if ok else gen[-2000:])
        if ok:
            ctx.write_generated("C14", gen)
    built = ctx.lake_build(["ThriftVerif.Props.C13"], "lake-build:Props.C13")
    drv = ctx.lake_build(["tv_c13"], "lake-build:tv_c13")
    if built:
        ctx.audit("C13", THEOREMS)
        if ctx.tier == "thorough":
            ctx.leanchecker(["ThriftVerif.Props.C13"])
    if exe:
        seed = ctx.seed
        want = None
        if ctx.replay:
            doc = json.load(open(ctx.replay))
            seed, want = doc.get("seed", seed), doc.get("key")
        rc, out = core.sh([exe, "run", "-repo", core.REPO, "-dir", ctx.work, "-seed", str(seed), "-tier", ctx.tier], timeout=3400)
        if rc not in (0, 1) or not os.path.exists(os.path.join(ctx.work, "stats.json")):
            raise core.MachineryError("c13 run failed: " + out[-3000:])
        st = json.load(open(os.path.join(ctx.work, "stats.json")))
        ctx.cov.update(evaluations=st["evaluations"], distinct_nontrivial=st["distinct_nontrivial"], samples=st["samples"] or [],
                       distribution=st["distribution"], programs=sum(v for k, v in st["distribution"].items() if k.startswith("unit.options.")))
        fails = sorted(st.get("oracle_failures") or [], key=lambda f: f["key"] in DOCUMENTED)
        for f in fails:
            if want and f["key"] != want:
                continue
            ctx.add_violation(f["key"], f["what"], f["input"], f["expected"], f["observed"])
        print("C13 oracle failure classes: " + (", ".join(sorted(f["key"][:80] for f in fails)) or "none"))
        new = [f["key"][:200] for f in fails if f["key"] not in DOCUMENTED]
        if new:
            print("C13 failure classes NOT described in docs/C13.md: " + "; ".join(new))
        if drv:
            ops = os.path.join(ctx.work, "ops.txt")
            model = ctx.run_model("tv_c13", ops)
            ctx.diff_lines("c13:Gen.Mask-vs-generated-code", ops, os.path.join(ctx.work, "impl.txt"), model)
            if not ctx.cov.get("samples"):
                ctx.cov["samples"] = [l[:400] for l in open(ops).read().split("\n") if l.startswith(("MW ", "MR "))][:6]
    return ctx.finish(rule="(program, option set, struct, value, mask) cases: idlgen programs + 2 directed programs x {default, field_mask_halfway, "
                           "field_mask_zero_required}; values from valgen (lists grown to >= 4); masks = abstract path-set trees guided by the value "
                           "(fields by name/id, indices in/out of range in prefix/suffix/singleton/alternating shapes, present/absent keys, '*', nested), "
                           "white and black, nil mask, masks pre-set on children; ops MW (Set_FieldMask+Write) and MR (Set_FieldMask+Read); every op line "
                           "is non-trivial except schema lines; distinct by sha256 of the op line")
