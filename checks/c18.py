"""C18 — generated DeepEqual is structural equality; validate_set rejects exactly the sets with two equal elements (DESIGN.md §5.18)."""
import json, os
from vlib import core

THEOREMS = ["Props.C18." + t for t in [
    "facts_current", "deep_equal_iff_partial", "deep_equal_iff_repaired", "deep_equal_no_false_negative", "deep_equal_refl", "spec_symmetric", "deep_equal_symm_partial", "deep_equal_identical", "deep_equal_nil_safe",
    "validate_set_iff", "validate_set_write", "write_eq_std",
    "deep_equal_iff_fails_missing_key", "deep_equal_iff_fails_struct_key", "deep_equal_iff_fails_optional_binary",
    "deep_equal_not_symmetric", "validate_set_rejects_distinct"]]


def run(ctx):
    exe = ctx.go_build("c18")
    ctx.trusted += ["translator harness/cmd/c18 extract (skeleton facts lenTest / commaOk of templates.FieldDeepEqualContainer, by regular expression on the template text)",
                    "correspondence: generated code (gen_deep_equal and not) compiled in one batch (harness/internal/batch) and driven by reflection vs tv_c18",
                    "oracle: structural equality valEq computed in Go by harness/cmd/c18/spec.go, tied line by line (op V) to the Lean specification Gen.DeepEq.valEq"]
    ctx.assumptions += ["the two objects compared are disjoint object graphs (built independently); identity x.DeepEqual(x) and a shallow copy are modelled separately (ops EI / EA)",
                        "maps whose KEY type is a struct without fields are emptied before use (counted as avoided.map-with-zero-size-struct-key): Go leaves equality of pointers to distinct zero-size objects unspecified, so whether the key of a deep copy is found is the runtime's choice",
                        "Go map iteration order does not matter (every comparison is pure; proved panic-free)",
                        "reflect.DeepEqual (validate_set without gen_deep_equal) = Gen.goEq; set elements holding non-empty struct-keyed maps are not duplicated in those units",
                        "apache/thrift v0.13.0 TBinaryProtocol = Core.Wire primitives (as C02); Go reflect in the driver"]
    ctx.partial += ["deep_equal_iff is FALSE on the current tree (three defect classes, each with a `decide`d witness replayed on the generated code); "
                    "deep_equal_iff_partial holds for pairs whose maps, met in lockstep, have equal key sets of base type and that do not pit an unset optional binary against an empty one",
                    "deep_equal_iff_repaired: for the template AFTER the planned repair (Facts.commaOk) the statement holds on every well-shaped pair (no key-set hypothesis); it still excludes non-empty struct-keyed maps and the optional-binary clash",
                    "deep_equal_symm_partial / deep_equal_refl carry the same kind of hypothesis; deep_equal_not_symmetric is the residue",
                    "validate_set_iff is exact for the comparison the template uses; 'two equal elements' in the sense of valEq only under deep_equal_iff_partial's hypothesis (validate_set_rejects_distinct is the witness)"]
    if exe:
        rc, gen = core.sh([exe, "extract", "-repo", core.REPO])
        ctx.obligation("translator:c18-extract", rc == 0, gen[-2000:] if rc else "")
        if rc == 0:
            ctx.write_generated("C18", gen)
    built = ctx.lake_build(["ThriftVerif.Props.C18"], "lake-build:Props.C18")
    drv = ctx.lake_build(["tv_c18"], "lake-build:tv_c18")
    if built:
        ctx.audit("C18", THEOREMS)
        if ctx.tier == "thorough":
            ctx.leanchecker(["ThriftVerif.Props.C18"])
    if exe:
        seed = ctx.seed
        only = None
        if ctx.replay:
            doc = json.load(open(ctx.replay))
            seed = doc.get("seed", seed)
            only = doc.get("key")
        rc, out = core.sh([exe, "run", "-repo", core.REPO, "-dir", ctx.work, "-seed", str(seed), "-tier", ctx.tier], timeout=3400)
        if rc not in (0, 1) or not os.path.exists(os.path.join(ctx.work, "stats.json")):
            raise core.MachineryError("c18 run failed: " + out[-3000:])
        st = json.load(open(os.path.join(ctx.work, "stats.json")))
        dist = st["distribution"]
        ctx.cov.update(evaluations=st["evaluations"], distinct_nontrivial=st["distinct_nontrivial"], samples=st["samples"] or [],
                       distribution=dist, programs=sum(v for k, v in dist.items() if k.startswith("unit.options.")))
        for f in (st.get("oracle_failures") or []):
            if only and f["key"] != only:
                continue
            ctx.add_violation(f["key"], f["what"], f["input"], f["expected"], f["observed"])
        if drv:
            ops = os.path.join(ctx.work, "ops.txt")
            model = ctx.run_model("tv_c18", ops)
            ctx.diff_lines("c18:Gen.DeepEq-vs-generated-code", ops, os.path.join(ctx.work, "impl.txt"), model)
    return ctx.finish(rule="(program, option set, struct, value pair | value) cases: directed minimal witnesses plus seeded type-directed values with one mutation "
                           "(leaf / nil-vs-empty / presence / map size / map key / list length), deep copies, independent pairs, nil receivers, identity, shallow copy, "
                           "Write with and without a repeated set element; every op except schema lines is non-trivial; distinct by sha256 of the op line")
