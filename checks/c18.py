"""C18 — not built yet."""
def run(ctx):
    print("C18: no check built yet")
    return 2
