"""C10 — not built yet."""
def run(ctx):
    print("C10: no check built yet")
    return 2
