"""C20 — every documented backend option switches exactly its own feature (DESIGN.md §5.20)."""
import json, os
from vlib import core

THEOREMS = ["Props.C20." + t for t in ["prefix_safe_lookup", "table_prefix_safe", "documented_accepted", "table_wellformed",
            "sets_exactly_own", "documented_name_resolves", "slim_disables_deep_equal", "reject_iff",
            "step_reject_local", "naming_style_keeps_initialisms", "cmdline_transparent",
            "cmdline_sets_exactly_own", "cmdline_outcome_is_handle", "cmdline_adds_nothing_unless_nested", "cmdline_value_keeps_equals", "nested_forces_slim"]]

def run(ctx):
    exe = ctx.go_build("c20")
    ctx.trusted += ["translator harness/cmd/c20 extract (Options(), reflect over Features tags/defaults, README table regexp, literals of args.checkOptions)",
                    "correspondence harness harness/cmd/c20 run vs tvdriver c20 (exhaustive singles and ordered pairs, random lists)"]
    ctx.assumptions += ["Go's strings.SplitN/Split/HasPrefix as modelled by splitEq/splitComma/isPrefix on bytes; flag.Parse hands the -g value over unchanged",
                        "naming-style singletons are reset before each case; effective initialisms observed through Identify(\"user_url\")"]
    if exe:
        if ctx.replay:
            rc, out = core.sh([exe, "replay", "-repo", core.REPO, "-file", ctx.replay])
            fails = json.loads(out.strip().split("\n")[-1]) if rc == 0 else []
            for f in fails:
                ctx.add_violation(f["key"], f["what"], f["input"], f["expected"], f["observed"])
            ctx.cov["evaluations"] = 1
            return ctx.finish(rule="replay of one option list")
        rc, gen = core.sh([exe, "extract", "-repo", core.REPO])
        if rc != 0:
            ctx.obligation("translator:c20-extract", False, gen[-2000:])
        else:
            ctx.obligation("translator:c20-extract", True)
            ctx.write_generated("C20", gen)
    built = ctx.lake_build(["ThriftVerif.Props.C20"], "lake-build:Props.C20")
    drv = ctx.lake_build(["tv_c20"], "lake-build:tv_c20")
    if built:
        ctx.audit("C20", THEOREMS)
        if ctx.tier == "thorough":
            ctx.leanchecker(["ThriftVerif.Props.C20"])
    if exe:
        rc, out = core.sh([exe, "run", "-repo", core.REPO, "-dir", ctx.work, "-seed", str(ctx.seed), "-tier", ctx.tier], timeout=3000)
        if rc != 0:
            raise core.MachineryError("c20 run failed: " + out[-2000:])
        st = json.load(open(os.path.join(ctx.work, "stats.json")))
        ctx.cov.update(evaluations=st["evaluations"], distinct_nontrivial=st["distinct_nontrivial"], samples=st["samples"],
                       distribution=st["distribution"], exhaustive=False,
                       exhaustive_parts="empty list, every option x every spelling (bare,=true,=false,=garbage,=), every ordered pair x 3 spellings each; every list both in-process (H) and through the command-line path -g go:... (A)")
        for f in (st.get("oracle_failures") or []):
            ctx.add_violation(f["key"], f["what"], f["input"], f["expected"], f["observed"])
        if drv:
            model = ctx.run_model("tv_c20", os.path.join(ctx.work, "ops.txt"))
            mism = ctx.diff_lines("c20", os.path.join(ctx.work, "ops.txt"), os.path.join(ctx.work, "impl.txt"), model)
    return ctx.finish(rule="option lists: exhaustive singles/pairs over the regenerated table plus seeded random lists (len<=12) with "
                           "prefixes/extensions of names and malformed spellings; every case is non-trivial; distinct by sha256 of the VL line")
