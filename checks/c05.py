"""C05 — not built yet."""
def run(ctx):
    print("C05: no check built yet")
    return 2
