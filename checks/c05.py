"""C05 — symbol resolution binds every reference to the definition the IDL names (DESIGN.md §5.5, docs/C05.md)."""
import json, os
from vlib import core

THEOREMS = ["Props.C05." + t for t in [
    "tables_match_spec", "typedef_fixpoint_complete", "resolve_category", "resolve_const_binding",
    "getEnum_fuel_unreachable", "used_iff_referenced", "deref_total", "order_independent",
]]

RULE = ("seeded multi-file IDL programs (include DAGs with diamonds, equal base names in different directories, dotted "
        "prefixes, names that are also prefixes, typedef chains crossing files, constants naming constants / enum values / "
        "qualified ones / typedef'd enums, services with base services) plus single-fault erroneous programs, each under "
        "the reversal and random permutations of its definitions; a program is non-trivial when it has >= 2 files and a "
        "cross-file typedef or base service; distinct by sha256 of the VL line")


def run(ctx):
    exe = ctx.go_build("c05")
    ctx.trusted += [
        "translator harness/cmd/c05 extract (parser.Category numbering; go/ast over semantic.go: categoryMap, the case lists of "
        "ResolveType's switch, the bounds of the category range tests of ResolveType and Deref)",
        "correspondence harness harness/cmd/c05 (generator, IDL renderer, VL encoder, canonical dump of the resolved AST, "
        "error classification by message pattern) vs lean driver tv_c05",
        "the real parser (parser.ParseBatchString) turns the rendered IDL text into the AST the program description denotes",
    ]
    ctx.assumptions += [
        "include graphs are acyclic (parser.CircleDetect runs before resolution); the model's include recursion reports "
        "includeCycle instead of mirroring resolution against a half-initialised AST",
        "Go map Name2Category is modelled as an association list read through lookup only",
        "unbounded Go recursion of Deref is modelled with fuel (exhaustion = fatal crash); getEnum carries Go's visited set, "
        "its fuel (2*typedefs+files+2) is a structural device (theorem getEnum_fuel_unreachable)",
        "resolution errors are compared by class derived from the error text (patterns in harness/cmd/c05/worker.go)",
    ]
    if exe:
        if ctx.replay:
            return replay(ctx, exe)
        rc, gen = core.sh([exe, "extract", "-repo", core.REPO])
        if rc != 0:
            ctx.obligation("translator:c05-extract", False, gen[-2000:])
        else:
            ctx.obligation("translator:c05-extract", True)
            ctx.write_generated("C05", gen)
    built = ctx.lake_build(["ThriftVerif.Props.C05"], "lake-build:Props.C05")
    drv = ctx.lake_build(["tv_c05"], "lake-build:tv_c05")
    if built:
        ctx.audit("C05", THEOREMS)
        if ctx.tier == "thorough":
            ctx.leanchecker(["ThriftVerif.Props.C05"])
    if exe:
        rc, out = core.sh([exe, "run", "-repo", core.REPO, "-dir", ctx.work, "-seed", str(ctx.seed), "-tier", ctx.tier], timeout=3000)
        if rc != 0:
            raise core.MachineryError("c05 run failed: " + out[-3000:])
        st = json.load(open(os.path.join(ctx.work, "stats.json")))
        ctx.cov.update(evaluations=st["evaluations"], distinct_nontrivial=st["distinct_nontrivial"], samples=st["samples"],
                       distribution=st["distribution"], exhaustive=False)
        for f in (st.get("oracle_failures") or []):
            ctx.add_violation(f["key"], f["what"], f["input"], f["expected"], f["observed"])
        for k, n in st["distribution"].items():
            if k.startswith("observed:"):
                line = "OBSERVED (outside the hypotheses, not a verdict): " + k[len("observed:"):]
                ctx.notes.append(line)
                print(line)
        if drv:
            model = ctx.run_model("tv_c05", os.path.join(ctx.work, "ops.txt"))
            ctx.diff_lines("c05", os.path.join(ctx.work, "ops.txt"), os.path.join(ctx.work, "impl.txt"), model)
    return ctx.finish(rule=RULE)


def replay(ctx, exe):
    rc, out = core.sh([exe, "replay", "-repo", core.REPO, "-file", ctx.replay], timeout=600)
    if rc != 0:
        raise core.MachineryError("c05 replay failed: " + out[-2000:])
    doc = json.loads(out.strip().split("\n")[-1])
    for f in doc.get("fails") or []:
        ctx.add_violation(f["key"], f["what"], f["input"], f["expected"], f["observed"])
    ops = os.path.join(ctx.work, "ops.txt")
    impl = os.path.join(ctx.work, "impl.txt")
    open(ops, "w").write(doc.get("ops", ""))
    open(impl, "w").write(doc.get("impl", ""))
    ctx.cov["evaluations"] = len([l for l in doc.get("ops", "").split("\n") if l])
    if ctx.lake_build(["tv_c05"], "lake-build:tv_c05") and ctx.cov["evaluations"]:
        model = ctx.run_model("tv_c05", ops)
        ctx.diff_lines("c05-replay", ops, impl, model)
    return ctx.finish(rule="replay of one program (and, for order failures, its second order)")
