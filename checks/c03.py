"""C03 — the parser is total and the AST is faithful to the source text (DESIGN.md §5.3, docs/C03.md)."""
import json, os
from vlib import core

THEOREMS = ["Props.C03." + t for t in [
    "grammar_wf", "peg_total", "parse_total", "grammar_captures", "tree_conforms", "tree_in_bounds", "walker_no_panic",
    "field_ids", "field_ids_written", "enum_values",
    "annotations_append", "annotations_keys_first_occurrence",
    "literal_unescape", "double_text", "quote_kind_independent", "skip_absorbs_ws", "skip_absorbs", "list_separator_ignored", "skip_nodes_ignored",
]]

PARTIAL = [
    "layout_independent: proved per token rule only (skip_absorbs: Skip absorbs every whitespace/comment string of the three "
    "styles; list_separator_ignored; skip_nodes_ignored; quote_kind_independent); Indent* after tokens, SkipLine and the "
    "composition over whole documents are covered by the oracle only",
    "literal_unescape: stated for contents without a backslash before the quote character or a backslash and not ending in a "
    "backslash (Plain); the excluded shapes have negative witnesses",
]


def run(ctx):
    exe = ctx.go_build("c03")
    ctx.trusted += ["translator harness/cmd/c03 extract (reader of the pointlander/peg source syntax used by parser/thrift.peg)",
                    "correspondence harness harness/cmd/c03 run vs tv_c03: token list and node tree of the generated parser (thrift.peg.go) and the AST of parser.ParseString, field by field",
                    "Go's []rune(string) / string([]rune) as modelled by Utf8.decode / Utf8.encode; strconv.ParseInt as modelled by GoStrconv.parseInt; strconv.ParseFloat is a parameter (model outputs its argument text, the real strconv evaluates it)"]
    ctx.assumptions += ["thrift.peg.go implements PEG semantics of thrift.peg (tie (b): token-for-token agreement on every generated input)",
                        "tokens32.AST() drops exactly the empty tokens and nests by range (model: Peg.prune), tied by comparing (depth, rule, begin, end) of every node"]
    ctx.partial += PARTIAL
    if exe:
        replay_input = ctx.replay
        if replay_input:
            try:
                if json.load(open(replay_input)).get("kind") != "failing-input":
                    replay_input = None      # a broken obligation is replayed by running the whole check again
            except Exception:
                pass
        if replay_input:
            rc, out = core.sh([exe, "replay", "-repo", core.REPO, "-file", ctx.replay])
            if rc != 0:
                raise core.MachineryError("c03 replay failed: " + out[-2000:])
            for f in json.loads(out.strip().split("\n")[-1]):
                ctx.add_violation(f["key"], f["what"], f["input"], f["expected"], f["observed"])
            ctx.cov["evaluations"] = 1
            return ctx.finish(rule="replay of one input")
        rc, gen = core.sh([exe, "extract", "-repo", core.REPO])
        if rc != 0:
            ctx.obligation("translator:c03-extract(thrift.peg)", False, gen[-2000:])
        else:
            ctx.obligation("translator:c03-extract(thrift.peg)", True)
            ctx.write_generated("C03Grammar", gen)
    built = ctx.lake_build(["ThriftVerif.Props.C03"], "lake-build:Props.C03")
    drv = ctx.lake_build(["tv_c03"], "lake-build:tv_c03")
    if built:
        ctx.audit("C03", THEOREMS)
        if ctx.tier == "thorough":
            ctx.leanchecker(["ThriftVerif.Props.C03"])
    if exe:
        rc, out = core.sh([exe, "run", "-repo", core.REPO, "-dir", ctx.work, "-seed", str(ctx.seed), "-tier", ctx.tier], timeout=3000)
        if rc != 0:
            raise core.MachineryError("c03 run failed: " + out[-2000:])
        st = json.load(open(os.path.join(ctx.work, "stats.json")))
        ctx.cov.update(evaluations=st["evaluations"], distinct_nontrivial=st["distinct_nontrivial"], samples=st["samples"],
                       distribution=st["distribution"], exhaustive=False)
        for f in (st.get("oracle_failures") or []):
            ctx.add_violation(f["key"], f["what"], f["input"], f["expected"], f["observed"])
        if drv:
            ops = os.path.join(ctx.work, "ops.txt")
            raw = ctx.run_model("tv_c03", ops)
            fixed = os.path.join(ctx.work, "model-fixed.txt")
            with open(raw) as fi, open(fixed, "w") as fo:
                import subprocess
                p = subprocess.run([exe, "fixfloat"], stdin=fi, stdout=fo, stderr=subprocess.PIPE, text=True, timeout=600)
            if p.returncode != 0:
                raise core.MachineryError("c03 fixfloat failed: " + p.stderr[-2000:])
            ctx.diff_lines("c03(tokens,tree,AST)", ops, os.path.join(ctx.work, "impl.txt"), fixed)
    return ctx.finish(rule="a rendered document with >= 3 definition kinds counts as non-trivial; raw strings, mutations and the corpus do not; "
                           "distinct by sha256 of the VL line (the input bytes)")
