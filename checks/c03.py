"""C03 — not built yet."""
def run(ctx):
    print("C03: no check built yet")
    return 2
