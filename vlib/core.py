"""Shared machinery of /verif/bin/check: build, regenerate, lake, audit, diff, verdict, evidence.

Exit protocol (DESIGN.md App. A): 0 = property held on everything explored (KNOWN-FINDING lines
allowed), 1 = at least one `VIOLATION property=<id> replay=<path>` line, 2 = the machinery itself
failed (never a verdict).
"""
import atexit, fcntl, hashlib, json, os, re, shutil, subprocess, sys, tempfile, time

VERIF = os.path.dirname(os.path.dirname(os.path.abspath(__file__)))
REPO = os.environ.get("VERIF_REPO", "/repo")
LEAN_SRC = os.path.join(VERIF, "lean")
HARNESS_SRC = os.path.join(VERIF, "harness")
WORKROOT = os.environ.get("VERIF_WORKROOT", os.path.join(VERIF, ".work"))
# Against a scratch worktree (VERIF_REPO != /repo: mutation trials) nothing shared is touched:
# the Lean tree (with its build output) is copied into the run's work dir, evidence/replays go there too.
SCRATCH = os.path.realpath(REPO) != "/repo"
ALLOWED_AXIOMS = {"propext", "Classical.choice", "Quot.sound"}
FORBIDDEN = re.compile(r"\b(sorry|admit|native_decide|bv_decide|implemented_by)\b|^\s*axiom\s|\bunsafe\s|maxHeartbeats\s+0\b")

GOENV = dict(GOFLAGS="-mod=mod", GOPROXY="off", GOSUMDB="off", GOTOOLCHAIN="local", CGO_ENABLED="0")


class MachineryError(Exception):
    pass


def sh(cmd, cwd=None, env=None, timeout=None, input=None, check=False):
    e = dict(os.environ)
    e.update(GOENV)
    if env:
        e.update(env)
    p = subprocess.run(cmd, cwd=cwd, env=e, timeout=timeout, input=input,
                       stdout=subprocess.PIPE, stderr=subprocess.STDOUT, text=True,
                       shell=isinstance(cmd, str))
    if check and p.returncode != 0:
        raise MachineryError("command failed (%s): %s\n%s" % (p.returncode, cmd, p.stdout[-4000:]))
    return p.returncode, p.stdout


def sha(s):
    return hashlib.sha256(s.encode() if isinstance(s, str) else s).hexdigest()


class Ctx:
    def __init__(self, prop, tier="quick", seed=None, replay=None):
        self.prop = prop
        self.tier = tier
        self.seed = int(seed if seed is not None else os.environ.get("VERIF_SEED", "1") or 1)
        self.replay = replay
        self.t0 = time.time()
        os.makedirs(WORKROOT, exist_ok=True)
        self.work = tempfile.mkdtemp(prefix="%s-" % prop, dir=WORKROOT)
        if not os.environ.get("VERIF_KEEP_WORK"):
            atexit.register(lambda: shutil.rmtree(self.work, ignore_errors=True))
        self.lean = LEAN_SRC
        self.outdir = VERIF
        if SCRATCH:
            self.lean = os.path.join(self.work, "lean")
            os.makedirs(WORKROOT, exist_ok=True)
            with open(os.path.join(WORKROOT, "lake.lock"), "w") as lk:   # do not copy a tree lake is writing
                fcntl.flock(lk, fcntl.LOCK_EX)
                sh(["cp", "-a", LEAN_SRC, self.lean], check=True)
            self.outdir = os.environ.get("VERIF_OUT", self.work)
        self.harness = os.path.join(self.work, "harness")
        self._harness_ready = False
        self.obligations = []          # (name, ok, detail)
        self.violations = []           # dict(kind, key, what, input, expected, observed, obligation)
        self.known_hits = []
        self.cov = dict(evaluations=0, distinct_nontrivial=0, samples=[], disagreements_checked=0)
        self.assumptions = []
        self.trusted = ["Lean 4.33.0 kernel (lake build; thorough tier: leanchecker)",
                        "axioms allowed: propext, Classical.choice, Quot.sound"]
        self.checker_cmds = []
        self.partial = []
        self.notes = []

    # ---------------------------------------------------------------- go
    def go_prepare(self):
        """Private copy of the harness module whose go.mod points at the repo under test."""
        if self._harness_ready:
            return
        shutil.copytree(HARNESS_SRC, self.harness, ignore=shutil.ignore_patterns("go.sum"))
        gm = open(os.path.join(HARNESS_SRC, "go.mod")).read()
        gm = re.sub(r"(replace github.com/cloudwego/thriftgo => )\S+", lambda m: m.group(1) + os.path.realpath(REPO), gm)
        open(os.path.join(self.harness, "go.mod"), "w").write(gm)
        shutil.copyfile(os.path.join(REPO, "go.sum"), os.path.join(self.harness, "go.sum"))
        extra = os.path.join(HARNESS_SRC, "go.sum.extra")
        if os.path.exists(extra):
            with open(os.path.join(self.harness, "go.sum"), "a") as f:
                f.write(open(extra).read())
        self._harness_ready = True

    def go_build(self, name, tags="verif"):
        """Build harness/cmd/<name> against /repo's working tree. Returns path or None (tie broken)."""
        self.go_prepare()
        out = os.path.join(self.work, name)
        rc, log = sh(["go", "build", "-tags", tags, "-o", out, "./cmd/" + name], cwd=self.harness, timeout=900)
        if rc != 0:
            self.obligation("harness-build:" + name, False, log[-3000:])
            return None
        return out

    def go_build_repo(self, pkg, name, tags="verif"):
        out = os.path.join(self.work, name)
        rc, log = sh(["go", "build", "-tags", tags, "-o", out, pkg], cwd=REPO, timeout=900)
        if rc != 0:
            raise MachineryError("cannot build %s from /repo: %s" % (pkg, log[-3000:]))
        return out

    # ---------------------------------------------------------------- lean
    def lake_lock(self):
        if SCRATCH:
            return open(os.path.join(self.work, "lake.lock"), "w")
        f = open(os.path.join(WORKROOT, "lake.lock"), "w")
        fcntl.flock(f, fcntl.LOCK_EX)
        return f

    def write_generated(self, name, text):
        p = os.path.join(self.lean, "ThriftVerif", "Generated", name + ".lean")
        old = open(p).read() if os.path.exists(p) else None
        if old != text:
            with open(p, "w") as f:
                f.write(text)
        return p

    def lake_build(self, targets, what=None):
        """Build targets; record one obligation named `what`. Returns ok."""
        lk = self.lake_lock()
        try:
            cmd = ["lake", "build"] + list(targets)
            self.checker_cmds.append("cd lean && " + " ".join(cmd))
            rc, log = sh(cmd, cwd=self.lean, timeout=3000)
        finally:
            lk.close()
        ok = rc == 0
        if what:
            self.obligation(what, ok, "" if ok else log[-3000:])
        self.last_lake_log = log
        return ok

    def audit(self, audit_module, expected_theorems=None):
        """Run the Audit file (#print axioms), check allow-list; grep sources for forbidden tokens.
        Each theorem becomes one obligation."""
        path = os.path.join("ThriftVerif", "Audit", audit_module + ".lean")
        lk = self.lake_lock()
        try:
            cmd = ["lake", "env", "lean", path]
            self.checker_cmds.append("cd lean && " + " ".join(cmd))
            rc, out = sh(cmd, cwd=self.lean, timeout=1800)
        finally:
            lk.close()
        thms = {}
        if rc != 0:
            self.obligation("audit:" + audit_module, False, out[-3000:])
            return thms
        for m in re.finditer(r"'([^']+)' depends on axioms: \[([^\]]*)\]", out, re.S):
            thms[m.group(1)] = set(a.strip() for a in m.group(2).replace("\n", " ").split(",") if a.strip())
        for m in re.finditer(r"'([^']+)' does not depend on any axioms", out):
            thms[m.group(1)] = set()
        for t, ax in sorted(thms.items()):
            bad = ax - ALLOWED_AXIOMS
            self.obligation("theorem:" + t, not bad, "axioms outside allow-list: %s" % sorted(bad) if bad else "axioms: %s" % sorted(ax))
        if expected_theorems:
            for t in expected_theorems:
                if t not in thms:
                    self.obligation("theorem:" + t, False, "missing from audit output")
        # source audit
        bad = []
        for root, _, files in os.walk(os.path.join(self.lean, "ThriftVerif")):
            for fn in files:
                if fn.endswith(".lean"):
                    bad += forbidden_in(os.path.join(root, fn))
        for root, _, files in os.walk(os.path.join(self.lean, "Driver")):
            for fn in files:
                if fn.endswith(".lean"):
                    bad += forbidden_in(os.path.join(root, fn))
        self.obligation("source-audit(no sorry/admit/axiom/native_decide/bv_decide/implemented_by/unsafe/maxHeartbeats 0)", not bad, "; ".join(bad[:10]))
        return thms

    def leanchecker(self, modules):
        lk = self.lake_lock()
        try:
            cmd = ["lake", "env", "leanchecker"] + list(modules)
            self.checker_cmds.append("cd lean && " + " ".join(cmd))
            rc, out = sh(cmd, cwd=self.lean, timeout=3000)
        finally:
            lk.close()
        self.obligation("leanchecker:" + ",".join(modules), rc == 0, out[-2000:] if rc else "")
        return rc == 0

    def driver_path(self, exe):
        return os.path.join(self.lean, ".lake", "build", "bin", exe)

    def run_model(self, exe, ops_path, out_path=None, extra_args=()):
        """Pipe ops to the compiled model driver `exe` (a lean_exe target, e.g. tv_c20)."""
        suite = exe + ("-" + "-".join(extra_args) if extra_args else "")
        out_path = out_path or os.path.join(self.work, "model-%s.txt" % suite)
        with open(ops_path) as fi, open(out_path, "w") as fo:
            p = subprocess.run([self.driver_path(exe)] + list(extra_args), stdin=fi, stdout=fo, stderr=subprocess.PIPE, text=True, timeout=3000)
        if p.returncode != 0:
            raise MachineryError("%s failed: %s" % (suite, p.stderr[-2000:]))
        return out_path

    # ---------------------------------------------------------------- verdict pieces
    def obligation(self, name, ok, detail=""):
        self.obligations.append((name, bool(ok), detail))

    def broken(self):
        return [(n, d) for (n, ok, d) in self.obligations if not ok]

    def diff_lines(self, suite, ops_path, impl_path, model_path, limit=50):
        """Line-aligned comparison. Records an obligation `correspondence:<suite>`. Returns mismatches."""
        ops = open(ops_path).read().split("\n")
        a = open(impl_path).read().split("\n")
        b = open(model_path).read().split("\n")
        while ops and ops[-1] == "": ops.pop()
        while a and a[-1] == "": a.pop()
        while b and b[-1] == "": b.pop()
        mism = []
        if not (len(ops) == len(a) == len(b)):
            mism.append(dict(line=-1, op="", impl="%d lines" % len(a), model="%d lines (ops %d)" % (len(b), len(ops))))
        for i in range(min(len(ops), len(a), len(b))):
            if a[i] != b[i]:
                mism.append(dict(line=i, op=ops[i][:2000], impl=a[i][:2000], model=b[i][:2000]))
                if len(mism) >= limit:
                    break
        self.cov["disagreements_checked"] = self.cov.get("disagreements_checked", 0) + len(ops)
        self.obligation("correspondence:" + suite, not mism,
                        "" if not mism else json.dumps(mism[:5]))
        return mism

    def add_violation(self, key, what, input=None, expected=None, observed=None, kind="failing-input", obligation=None):
        self.violations.append(dict(kind=kind, key=key, what=what, input=input, expected=expected,
                                    observed=observed, obligation=obligation))

    # ---------------------------------------------------------------- finish
    def load_known(self):
        p = os.path.join(VERIF, "known_findings.json")
        if not os.path.exists(p):
            return []
        return [f for f in json.load(open(p)).get("findings", []) if f.get("property") == self.prop]

    def finish(self, level="proof", rule="", extra_cov=None):
        known = self.load_known()
        known_keys = {f["key"]: f for f in known}
        out_lines = []
        nviol = 0
        seen = set()
        # 1. concrete failing inputs
        for v in self.violations:
            if v["key"] in seen:
                continue
            seen.add(v["key"])
            if v["kind"] == "failing-input" and v["key"] in known_keys:
                out_lines.append("KNOWN-FINDING: property=%s %s" % (self.prop, known_keys[v["key"]].get("what", v["what"])))
                self.known_hits.append(v["key"])
                continue
            nviol += 1
            if nviol <= 20:
                path = self.write_replay(v)
                out_lines.append("VIOLATION property=%s replay=%s" % (self.prop, path))
        if nviol > 20:
            self.notes.append("%d further distinct failing inputs not written as replays" % (nviol - 20))
        # 2. broken obligations with no concrete failing input
        broken = self.broken()
        concrete = any(v["kind"] == "failing-input" and v["key"] not in known_keys for v in self.violations)
        if broken and not concrete:
            nviol += 1
            v = dict(kind="broken-obligation", key="broken:" + ";".join(n for n, _ in broken),
                     what="proof obligation or correspondence no longer checks",
                     obligation=[dict(name=n, detail=d) for n, d in broken], input=None, expected=None, observed=None)
            path = self.write_replay(v)
            out_lines.append("VIOLATION property=%s replay=%s no-failing-input-found" % (self.prop, path))
        elif broken:
            self.notes.append("broken obligations (failing input reported above): " + "; ".join(n for n, _ in broken))
        if not self.replay:   # a replay re-examines one input; it is not a coverage run
            self.write_evidence(level, rule, nviol, extra_cov)
        for l in out_lines:
            print(l)
        for n, d in broken:
            print("BROKEN-OBLIGATION %s: %s" % (n, d[:1500].replace("\n", "\n    ")))
        ok = sum(1 for (_, o, _) in self.obligations if o)
        print("%s tier=%s seed=%d obligations=%d/%d evaluations=%d violations=%d known=%d wall=%.1fs" % (
            self.prop, self.tier, self.seed, ok, len(self.obligations), self.cov.get("evaluations", 0), nviol,
            len(self.known_hits), time.time() - self.t0))
        sys.stdout.flush()
        return 1 if nviol else 0

    def write_replay(self, v):
        os.makedirs(os.path.join(self.outdir, "replays"), exist_ok=True)
        h = sha(json.dumps(v, sort_keys=True, default=str))[:12]
        path = os.path.join(self.outdir, "replays", "%s-%s.json" % (self.prop, h))
        doc = dict(property=self.prop, seed=self.seed, tier=self.tier)
        doc.update(v)
        with open(path, "w") as f:
            json.dump(doc, f, indent=1, default=str)
        return path

    def write_evidence(self, level, rule, nviol, extra_cov=None):
        cov = dict(self.cov)
        cov["obligations"] = len(self.obligations)
        cov["discharged"] = sum(1 for (_, o, _) in self.obligations if o)
        cov["obligation_list"] = [dict(name=n, ok=o, detail=(d[:300] if d else "")) for (n, o, d) in self.obligations]
        cov["checker_cmd"] = " && ".join(dict.fromkeys(self.checker_cmds)) or "none"
        cov["trusted_base"] = self.trusted
        cov["rule"] = rule
        cov["partial_theorems"] = self.partial
        cov["known_findings_reproduced"] = self.known_hits
        if self.notes:
            cov["notes"] = self.notes
        if extra_cov:
            cov.update(extra_cov)
        if not cov.get("samples"):
            cov["samples"] = ["(no case generated by this run)"]
        cov["samples"] = cov["samples"][:12]
        ev = dict(property_id=self.prop, tier=self.tier if self.tier in ("quick", "thorough") else "quick",
                  seed=self.seed, level=level, coverage=cov, assumptions=self.assumptions,
                  wall_s=round(time.time() - self.t0, 2), violations=nviol)
        os.makedirs(os.path.join(self.outdir, "evidence"), exist_ok=True)
        tmp = os.path.join(self.outdir, "evidence", ".%s.json.tmp" % self.prop)
        with open(tmp, "w") as f:
            json.dump(ev, f, indent=1, default=str)
        os.replace(tmp, os.path.join(self.outdir, "evidence", "%s.json" % self.prop))


def forbidden_in(path):
    """Forbidden tokens outside comments and string literals."""
    src = open(path).read()
    # strip block comments (nested not handled beyond one level of /- -/ pairs, good enough: we never nest)
    src = re.sub(r"/-.*?-/", lambda m: "\n" * m.group(0).count("\n"), src, flags=re.S)
    bad = []
    for i, line in enumerate(src.split("\n"), 1):
        line = re.sub(r"--.*$", "", line)
        line = re.sub(r'"(\\.|[^"\\])*"', '""', line)
        if FORBIDDEN.search(line):
            bad.append("%s:%d: %s" % (path, i, line.strip()[:80]))
    return bad


def read_jsonl(path):
    out = []
    if os.path.exists(path):
        for l in open(path):
            l = l.strip()
            if l:
                out.append(json.loads(l))
    return out
