// Package refcodec is the independent, schema-driven reference codec for the Thrift binary protocol
// (docs/BATCH.md §3): the ORACLE for wire properties. It is written from the protocol specification
// (thrift-binary-protocol.md), not from thriftgo's templates, and shares no code with the generator.
package refcodec

import (
	"bytes"
	"encoding/binary"
	"errors"
	"fmt"
	"math"
	"sort"

	"verifharness/internal/idlgen"
	"verifharness/internal/values"
)

// Wire type codes of the binary protocol.
const (
	TStop   = 0
	TBool   = 2
	TByte   = 3
	TDouble = 4
	TI16    = 6
	TI32    = 8
	TI64    = 10
	TString = 11
	TStruct = 12
	TMap    = 13
	TSet    = 14
	TList   = 15
)

var (
	ErrRequired   = errors.New("refcodec: required field missing")
	ErrUnionCount = errors.New("refcodec: union without exactly one member set")
	ErrNilUnion   = errors.New("refcodec: nil union in a non-optional position")
	ErrMalformed  = errors.New("refcodec: malformed input")
	ErrTrailing   = errors.New("refcodec: trailing bytes")
	ErrShape      = errors.New("refcodec: value does not fit the schema")
	ErrRange      = errors.New("refcodec: integer out of range for its wire type")
)

// WireType is the wire type code of a resolved type (enum → i32, binary → string).
func WireType(t *idlgen.RType) byte {
	switch t.Kind {
	case idlgen.RBool:
		return TBool
	case idlgen.RByte:
		return TByte
	case idlgen.RI16:
		return TI16
	case idlgen.RI32, idlgen.REnum:
		return TI32
	case idlgen.RI64:
		return TI64
	case idlgen.RDouble:
		return TDouble
	case idlgen.RString, idlgen.RBinary:
		return TString
	case idlgen.RList:
		return TList
	case idlgen.RSet:
		return TSet
	case idlgen.RMap:
		return TMap
	case idlgen.RStruct:
		return TStruct
	}
	panic("refcodec: bad kind")
}

// IsSet: is the optional field considered set in the Go object described by v?  A field whose Go shape
// cannot be nil (optional base type with a default) is set iff it differs from the default; every other
// optional field is set iff it is not nil.
func IsSet(f *idlgen.SField, v *values.Value) bool {
	if !f.Nillable() || (f.Default != nil && f.Type.Kind == idlgen.RBinary) {
		if f.Default == nil {
			return true
		}
		if f.Type.Kind == idlgen.RBinary {
			var a, b []byte
			if !v.IsNil() {
				a = v.X
			}
			if !f.Default.IsNil() {
				b = f.Default.X
			}
			return !bytes.Equal(a, b)
		}
		if f.Type.Kind == idlgen.RDouble && v.K == values.KDouble && f.Default.K == values.KDouble {
			// the generated IsSet is Go's `!=` between float64s: -0 == +0 (a field holding the other zero is unset and
			// reads back as the declared default), NaN != NaN (a NaN field is always set)
			return math.Float64frombits(v.D) != math.Float64frombits(f.Default.D)
		}
		return !values.Equal(v, f.Default)
	}
	return !v.IsNil()
}

// Options of the encoder.
type EncOptions struct {
	// StrictRange rejects integers that do not fit their wire type (default: truncate like a Go conversion,
	// which is what any Go implementation does with an int64-backed enum).
	StrictRange bool
}

// Encode is the reference encoder: optional fields present iff set; required/default fields always present;
// nil non-optional struct = empty struct; nil container = empty container; nil binary = empty; enum as i32;
// fields in schema order. A union must have exactly one member set (ErrUnionCount).
func Encode(s *idlgen.Schema, sidx int, v *values.Value) ([]byte, error) {
	var buf bytes.Buffer
	if err := encStruct(&buf, s, sidx, v, true); err != nil {
		return nil, err
	}
	return buf.Bytes(), nil
}

func encStruct(w *bytes.Buffer, s *idlgen.Schema, sidx int, v *values.Value, nonOptional bool) error {
	st := s.Structs[sidx]
	if v.IsNil() {
		if st.Kind == 'u' {
			return ErrNilUnion
		}
		w.WriteByte(TStop)
		return nil
	}
	if v.K != values.KRecord || len(v.E) != len(st.Fields) {
		return ErrShape
	}
	if st.Kind == 'u' {
		n := 0
		for i, f := range st.Fields {
			if IsSet(f, v.E[i]) {
				n++
			}
		}
		if n != 1 {
			return ErrUnionCount
		}
	}
	for i, f := range st.Fields {
		fv := v.E[i]
		if f.Req == idlgen.Optional && !IsSet(f, fv) {
			continue
		}
		w.WriteByte(WireType(f.Type))
		var id [2]byte
		binary.BigEndian.PutUint16(id[:], uint16(f.ID))
		w.Write(id[:])
		if err := encValue(w, s, f.Type, fv); err != nil {
			return err
		}
	}
	w.WriteByte(TStop)
	return nil
}

func putI32(w *bytes.Buffer, n int32) {
	var b [4]byte
	binary.BigEndian.PutUint32(b[:], uint32(n))
	w.Write(b[:])
}

func encValue(w *bytes.Buffer, s *idlgen.Schema, t *idlgen.RType, v *values.Value) error {
	switch t.Kind {
	case idlgen.RBool:
		if v.IsNil() {
			w.WriteByte(0)
			return nil
		}
		if v.K != values.KBool {
			return ErrShape
		}
		if v.B {
			w.WriteByte(1)
		} else {
			w.WriteByte(0)
		}
	case idlgen.RByte, idlgen.RI16, idlgen.RI32, idlgen.RI64, idlgen.REnum:
		var x int64
		if !v.IsNil() {
			if v.K != values.KInt {
				return ErrShape
			}
			x = v.I
		}
		switch WireType(t) {
		case TByte:
			w.WriteByte(byte(x))
		case TI16:
			var b [2]byte
			binary.BigEndian.PutUint16(b[:], uint16(x))
			w.Write(b[:])
		case TI32:
			putI32(w, int32(x))
		case TI64:
			var b [8]byte
			binary.BigEndian.PutUint64(b[:], uint64(x))
			w.Write(b[:])
		}
	case idlgen.RDouble:
		var d uint64
		if !v.IsNil() {
			if v.K != values.KDouble {
				return ErrShape
			}
			d = v.D
		}
		var b [8]byte
		binary.BigEndian.PutUint64(b[:], d)
		w.Write(b[:])
	case idlgen.RString, idlgen.RBinary:
		var x []byte
		if !v.IsNil() {
			if v.K != values.KBytes {
				return ErrShape
			}
			x = v.X
		}
		putI32(w, int32(len(x)))
		w.Write(x)
	case idlgen.RList, idlgen.RSet:
		w.WriteByte(WireType(t.Elem))
		if v.IsNil() {
			putI32(w, 0)
			return nil
		}
		if v.K != values.KList && v.K != values.KSet {
			return ErrShape
		}
		putI32(w, int32(len(v.E)))
		for _, e := range v.E {
			if err := encValue(w, s, t.Elem, e); err != nil {
				return err
			}
		}
	case idlgen.RMap:
		w.WriteByte(WireType(t.Key))
		w.WriteByte(WireType(t.Elem))
		if v.IsNil() {
			putI32(w, 0)
			return nil
		}
		if v.K != values.KMap || len(v.E)%2 != 0 {
			return ErrShape
		}
		putI32(w, int32(len(v.E)/2))
		for i := 0; i < len(v.E); i += 2 {
			if err := encValue(w, s, t.Key, v.E[i]); err != nil {
				return err
			}
			if err := encValue(w, s, t.Elem, v.E[i+1]); err != nil {
				return err
			}
		}
	case idlgen.RStruct:
		return encStruct(w, s, t.Sidx, v, true)
	}
	return nil
}

// ---------------------------------------------------------------- decode

type reader struct {
	b   []byte
	off int
}

func (r *reader) need(n int) error {
	if n < 0 || len(r.b)-r.off < n {
		return ErrMalformed
	}
	return nil
}
func (r *reader) u8() (byte, error) {
	if err := r.need(1); err != nil {
		return 0, err
	}
	r.off++
	return r.b[r.off-1], nil
}
func (r *reader) i16() (int16, error) {
	if err := r.need(2); err != nil {
		return 0, err
	}
	r.off += 2
	return int16(binary.BigEndian.Uint16(r.b[r.off-2:])), nil
}
func (r *reader) i32() (int32, error) {
	if err := r.need(4); err != nil {
		return 0, err
	}
	r.off += 4
	return int32(binary.BigEndian.Uint32(r.b[r.off-4:])), nil
}
func (r *reader) u64() (uint64, error) {
	if err := r.need(8); err != nil {
		return 0, err
	}
	r.off += 8
	return binary.BigEndian.Uint64(r.b[r.off-8:]), nil
}
func (r *reader) bytes() ([]byte, error) {
	n, err := r.i32()
	if err != nil {
		return nil, err
	}
	if err := r.need(int(n)); err != nil {
		return nil, err
	}
	r.off += int(n)
	return r.b[r.off-int(n) : r.off], nil
}

func validType(t byte) bool {
	switch t {
	case TBool, TByte, TDouble, TI16, TI32, TI64, TString, TStruct, TMap, TSet, TList:
		return true
	}
	return false
}

// skip consumes one well-formed value of wire type t.
func (r *reader) skip(t byte, depth int) error {
	if depth > 256 {
		return ErrMalformed
	}
	switch t {
	case TBool, TByte:
		_, err := r.u8()
		return err
	case TI16:
		_, err := r.i16()
		return err
	case TI32:
		_, err := r.i32()
		return err
	case TI64, TDouble:
		_, err := r.u64()
		return err
	case TString:
		_, err := r.bytes()
		return err
	case TStruct:
		for {
			ft, err := r.u8()
			if err != nil {
				return err
			}
			if ft == TStop {
				return nil
			}
			if !validType(ft) {
				return ErrMalformed
			}
			if _, err := r.i16(); err != nil {
				return err
			}
			if err := r.skip(ft, depth+1); err != nil {
				return err
			}
		}
	case TList, TSet:
		et, err := r.u8()
		if err != nil {
			return err
		}
		n, err := r.i32()
		if err != nil {
			return err
		}
		if n < 0 || (n > 0 && !validType(et)) {
			return ErrMalformed
		}
		for i := int32(0); i < n; i++ {
			if err := r.skip(et, depth+1); err != nil {
				return err
			}
		}
		return nil
	case TMap:
		kt, err := r.u8()
		if err != nil {
			return err
		}
		vt, err := r.u8()
		if err != nil {
			return err
		}
		n, err := r.i32()
		if err != nil {
			return err
		}
		if n < 0 || (n > 0 && (!validType(kt) || !validType(vt))) {
			return ErrMalformed
		}
		for i := int32(0); i < n; i++ {
			if err := r.skip(kt, depth+1); err != nil {
				return err
			}
			if err := r.skip(vt, depth+1); err != nil {
				return err
			}
		}
		return nil
	}
	return ErrMalformed
}

// Decode is the strict reference decoder. It produces the normal form Value: what a generated Read is
// expected to leave in a fresh object (NewX()): absent fields keep their initial value (declared default,
// else unset/zero), unknown field ids and fields whose wire type differs from the schema are skipped, a
// missing required field is ErrRequired (checked after the whole struct was consumed), container headers
// must carry the schema's element wire types, trailing bytes are an error.
func Decode(s *idlgen.Schema, sidx int, b []byte) (*values.Value, error) {
	r := &reader{b: b}
	v, err := decStruct(r, s, sidx, 0)
	if err != nil {
		return nil, err
	}
	if r.off != len(b) {
		return nil, ErrTrailing
	}
	return v, nil
}

func decStruct(r *reader, s *idlgen.Schema, sidx int, depth int) (*values.Value, error) {
	if depth > 256 {
		return nil, ErrMalformed
	}
	st := s.Structs[sidx]
	rec := st.Initial()
	seen := make([]bool, len(st.Fields))
	for {
		ft, err := r.u8()
		if err != nil {
			return nil, err
		}
		if ft == TStop {
			break
		}
		if !validType(ft) {
			return nil, ErrMalformed
		}
		id, err := r.i16()
		if err != nil {
			return nil, err
		}
		i := st.FieldByID(id)
		if i < 0 || WireType(st.Fields[i].Type) != ft {
			if err := r.skip(ft, depth+1); err != nil {
				return nil, err
			}
			continue
		}
		v, err := decValue(r, s, st.Fields[i].Type, depth+1)
		if err != nil {
			return nil, err
		}
		rec.E[i] = v
		seen[i] = true
	}
	for i, f := range st.Fields {
		if f.Req == idlgen.Required && !seen[i] {
			return nil, ErrRequired
		}
	}
	return rec, nil
}

func decValue(r *reader, s *idlgen.Schema, t *idlgen.RType, depth int) (*values.Value, error) {
	switch t.Kind {
	case idlgen.RBool:
		b, err := r.u8()
		if err != nil {
			return nil, err
		}
		if b > 1 {
			return nil, ErrMalformed
		}
		return values.Bool(b == 1), nil
	case idlgen.RByte:
		b, err := r.u8()
		return values.Int(int64(int8(b))), err
	case idlgen.RI16:
		x, err := r.i16()
		return values.Int(int64(x)), err
	case idlgen.RI32, idlgen.REnum:
		x, err := r.i32()
		return values.Int(int64(x)), err
	case idlgen.RI64:
		x, err := r.u64()
		return values.Int(int64(x)), err
	case idlgen.RDouble:
		x, err := r.u64()
		return values.Double(x), err
	case idlgen.RString, idlgen.RBinary:
		x, err := r.bytes()
		if err != nil {
			return nil, err
		}
		return values.Bytes(x), nil
	case idlgen.RList, idlgen.RSet:
		et, err := r.u8()
		if err != nil {
			return nil, err
		}
		n, err := r.i32()
		if err != nil {
			return nil, err
		}
		if n < 0 || int(n) > len(r.b)-r.off {
			return nil, ErrMalformed
		}
		if et != WireType(t.Elem) {
			return nil, fmt.Errorf("%w: element type %d in header, schema says %d", ErrMalformed, et, WireType(t.Elem))
		}
		k := byte(values.KList)
		if t.Kind == idlgen.RSet {
			k = values.KSet
		}
		out := &values.Value{K: k, E: make([]*values.Value, 0, n)}
		for i := int32(0); i < n; i++ {
			e, err := decValue(r, s, t.Elem, depth+1)
			if err != nil {
				return nil, err
			}
			out.E = append(out.E, e)
		}
		return out, nil
	case idlgen.RMap:
		kt, err := r.u8()
		if err != nil {
			return nil, err
		}
		vt, err := r.u8()
		if err != nil {
			return nil, err
		}
		n, err := r.i32()
		if err != nil {
			return nil, err
		}
		if n < 0 || int(n) > len(r.b)-r.off {
			return nil, ErrMalformed
		}
		if kt != WireType(t.Key) || vt != WireType(t.Elem) {
			return nil, fmt.Errorf("%w: map types %d/%d in header, schema says %d/%d", ErrMalformed, kt, vt, WireType(t.Key), WireType(t.Elem))
		}
		out := &values.Value{K: values.KMap, E: make([]*values.Value, 0, 2*n)}
		for i := int32(0); i < n; i++ {
			k, err := decValue(r, s, t.Key, depth+1)
			if err != nil {
				return nil, err
			}
			v, err := decValue(r, s, t.Elem, depth+1)
			if err != nil {
				return nil, err
			}
			out.E = append(out.E, k, v)
		}
		return out, nil
	case idlgen.RStruct:
		return decStruct(r, s, t.Sidx, depth)
	}
	return nil, ErrShape
}

// Normal is the normal form of a Go object description: Decode(Encode(v)) -- what a write/read round trip
// of a correct implementation yields (nil non-optional containers become empty, nil structs become NewX(),
// optional fields holding their default stay at the default, …).
func Normal(s *idlgen.Schema, sidx int, v *values.Value) (*values.Value, error) {
	b, err := Encode(s, sidx, v)
	if err != nil {
		return nil, err
	}
	return Decode(s, sidx, b)
}

// Equal compares two values up to the order of map entries.
func Equal(a, b *values.Value) bool { return values.EqualCanon(a, b) }

// ---------------------------------------------------------------- Canon (untyped)

// Canon parses b as ONE struct without a schema (strictly: well-formed, nothing trailing) and re-encodes
// it with the entries of every map sorted by their encoded (canonical) key bytes; entries with equal keys
// keep their order. Everything else is reproduced byte for byte.
func Canon(b []byte) ([]byte, error) {
	r := &reader{b: b}
	out, err := canon(r, TStruct, 0)
	if err != nil {
		return nil, err
	}
	if r.off != len(b) {
		return nil, ErrTrailing
	}
	return out, nil
}

func canon(r *reader, t byte, depth int) ([]byte, error) {
	if depth > 256 {
		return nil, ErrMalformed
	}
	start := r.off
	switch t {
	case TStruct:
		var out []byte
		for {
			ft, err := r.u8()
			if err != nil {
				return nil, err
			}
			out = append(out, ft)
			if ft == TStop {
				return out, nil
			}
			if !validType(ft) {
				return nil, ErrMalformed
			}
			if err := r.need(2); err != nil {
				return nil, err
			}
			out = append(out, r.b[r.off], r.b[r.off+1])
			r.off += 2
			v, err := canon(r, ft, depth+1)
			if err != nil {
				return nil, err
			}
			out = append(out, v...)
		}
	case TList, TSet:
		et, err := r.u8()
		if err != nil {
			return nil, err
		}
		n, err := r.i32()
		if err != nil {
			return nil, err
		}
		if n < 0 || (n > 0 && !validType(et)) || int(n) > len(r.b)-r.off {
			return nil, ErrMalformed
		}
		out := append([]byte{}, r.b[start:r.off]...)
		for i := int32(0); i < n; i++ {
			v, err := canon(r, et, depth+1)
			if err != nil {
				return nil, err
			}
			out = append(out, v...)
		}
		return out, nil
	case TMap:
		kt, err := r.u8()
		if err != nil {
			return nil, err
		}
		vt, err := r.u8()
		if err != nil {
			return nil, err
		}
		n, err := r.i32()
		if err != nil {
			return nil, err
		}
		if n < 0 || (n > 0 && (!validType(kt) || !validType(vt))) || int(n) > len(r.b)-r.off {
			return nil, ErrMalformed
		}
		out := append([]byte{}, r.b[start:r.off]...)
		type pair struct{ k, v []byte }
		ps := make([]pair, 0, n)
		for i := int32(0); i < n; i++ {
			k, err := canon(r, kt, depth+1)
			if err != nil {
				return nil, err
			}
			v, err := canon(r, vt, depth+1)
			if err != nil {
				return nil, err
			}
			ps = append(ps, pair{k, v})
		}
		sort.SliceStable(ps, func(i, j int) bool { return bytes.Compare(ps[i].k, ps[j].k) < 0 })
		for _, p := range ps {
			out = append(out, p.k...)
			out = append(out, p.v...)
		}
		return out, nil
	default:
		if err := r.skip(t, depth); err != nil {
			return nil, err
		}
		return append([]byte{}, r.b[start:r.off]...), nil
	}
}
