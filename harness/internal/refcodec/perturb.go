package refcodec

import (
	"encoding/binary"

	"verifharness/internal/vl"
)

// RawField is one top-level field of an encoded struct.
type RawField struct {
	Type  byte
	ID    int16
	Value []byte // the encoded value (without the 3 header bytes)
}

// Split cuts an encoded struct into its top-level fields (strict: nothing may follow the STOP byte).
func Split(b []byte) ([]RawField, error) {
	r := &reader{b: b}
	var out []RawField
	for {
		ft, err := r.u8()
		if err != nil {
			return nil, err
		}
		if ft == TStop {
			break
		}
		if !validType(ft) {
			return nil, ErrMalformed
		}
		id, err := r.i16()
		if err != nil {
			return nil, err
		}
		start := r.off
		if err := r.skip(ft, 0); err != nil {
			return nil, err
		}
		out = append(out, RawField{ft, id, append([]byte{}, b[start:r.off]...)})
	}
	if r.off != len(b) {
		return nil, ErrTrailing
	}
	return out, nil
}

// Join is the inverse of Split.
func Join(fs []RawField) []byte {
	var out []byte
	for _, f := range fs {
		var id [2]byte
		binary.BigEndian.PutUint16(id[:], uint16(f.ID))
		out = append(out, f.Type, id[0], id[1])
		out = append(out, f.Value...)
	}
	return append(out, TStop)
}

// AllTypes lists the wire types a field can have.
var AllTypes = []byte{TBool, TByte, TDouble, TI16, TI32, TI64, TString, TStruct, TMap, TSet, TList}

// Sample returns a small well-formed encoded value of wire type t (used for inserted unknown fields and
// for retagging).
func Sample(r *vl.Rng, t byte, depth int) []byte {
	switch t {
	case TBool:
		return []byte{byte(r.Intn(2))}
	case TByte:
		return []byte{byte(r.U64())}
	case TI16:
		return []byte{byte(r.U64()), byte(r.U64())}
	case TI32:
		return []byte{byte(r.U64()), byte(r.U64()), byte(r.U64()), byte(r.U64())}
	case TI64, TDouble:
		b := make([]byte, 8)
		binary.BigEndian.PutUint64(b, r.U64())
		return b
	case TString:
		n := r.Intn(6)
		b := []byte{0, 0, 0, byte(n)}
		for i := 0; i < n; i++ {
			b = append(b, byte(r.U64()))
		}
		return b
	case TStruct:
		var fs []RawField
		if depth < 2 {
			for i, n := 0, r.Intn(3); i < n; i++ {
				ft := AllTypes[r.Intn(len(AllTypes))]
				fs = append(fs, RawField{ft, int16(r.Intn(40)) - 5, Sample(r, ft, depth+1)})
			}
		}
		return Join(fs)
	case TList, TSet:
		et := AllTypes[r.Intn(len(AllTypes))]
		n := r.Intn(3)
		if depth >= 2 {
			n = 0
		}
		b := []byte{et, 0, 0, 0, byte(n)}
		for i := 0; i < n; i++ {
			b = append(b, Sample(r, et, depth+1)...)
		}
		return b
	case TMap:
		kt, vt := AllTypes[r.Intn(len(AllTypes))], AllTypes[r.Intn(len(AllTypes))]
		n := r.Intn(3)
		if depth >= 2 {
			n = 0
		}
		b := []byte{kt, vt, 0, 0, 0, byte(n)}
		for i := 0; i < n; i++ {
			b = append(b, Sample(r, kt, depth+1)...)
			b = append(b, Sample(r, vt, depth+1)...)
		}
		return b
	}
	panic("refcodec: bad wire type")
}
