package refcodec_test

import (
	"bytes"
	"testing"

	"verifharness/internal/idlgen"
	"verifharness/internal/refcodec"
	"verifharness/internal/values"
	"verifharness/internal/values/valgen"
	"verifharness/internal/vl"
)

// Internal consistency of the shared pieces (no thriftgo involved): VL text round trip, Normal is idempotent,
// Canon is idempotent and preserves the decoded value, Split/Join are inverse.
func TestInvariants(t *testing.T) {
	r := vl.NewRng(vl.NewRng(7).U64())
	n := 0
	for p := 0; p < 60; p++ {
		prog := idlgen.Generate(r, idlgen.DefaultConfig())
		for path, text := range prog.Render() {
			if len(text) == 0 {
				t.Fatalf("empty render of %s", path)
			}
		}
		s := prog.Schema()
		for sidx := range s.Structs {
			for k := 0; k < 5; k++ {
				v := valgen.Gen(r, s, sidx, 1+r.Intn(6), valgen.Config{NilElems: true, DupSets: k == 0})
				back, err := values.Parse(v.String())
				if err != nil || !values.Equal(back, v) {
					t.Fatalf("VL round trip: %v\n%s", err, v)
				}
				enc, err := refcodec.Encode(s, sidx, v)
				if err != nil {
					continue
				}
				n++
				fs, err := refcodec.Split(enc)
				if err != nil || !bytes.Equal(refcodec.Join(fs), enc) {
					t.Fatalf("Split/Join: %v", err)
				}
				c1, err := refcodec.Canon(enc)
				if err != nil {
					t.Fatalf("Canon of own encoding: %v\n%s", err, v)
				}
				c2, _ := refcodec.Canon(c1)
				if !bytes.Equal(c1, c2) || len(c1) != len(enc) {
					t.Fatalf("Canon not idempotent / length changed")
				}
				norm, err := refcodec.Decode(s, sidx, enc)
				if err != nil {
					if err == refcodec.ErrRequired {
						continue
					}
					t.Fatalf("Decode of own encoding: %v\n%s", err, v)
				}
				nc, err := refcodec.Decode(s, sidx, c1)
				if err != nil || !refcodec.Equal(nc, norm) {
					t.Fatalf("Canon changed the value: %v", err)
				}
				// NB Normal is NOT idempotent: a struct-literal default leaves nil containers in the object, which come
				// back empty one round trip later (one nesting level per trip).
				if _, err := refcodec.Normal(s, sidx, norm); err != nil && err != refcodec.ErrNilUnion && err != refcodec.ErrUnionCount && err != refcodec.ErrRequired {
					t.Fatalf("Normal of a normal form: %v", err)
				}
			}
		}
	}
	if n < 500 {
		t.Fatalf("only %d encodable values", n)
	}
}
