package idlgen

import (
	"fmt"
	"strings"

	"verifharness/internal/values"
)

// RKind is the kind of a resolved (typedef-free) type.
type RKind int

const (
	RBool RKind = iota
	RByte
	RI16
	RI32
	RI64
	RDouble
	RString
	RBinary
	REnum
	RList
	RSet
	RMap
	RStruct
)

// EnumInfo is the value table of an enum (for value generation).
type EnumInfo struct {
	File   int
	Name   string
	Names  []string
	Values []int64
}

// RType is a type with typedefs dereferenced, struct refs replaced by the global index, enums by REnum.
type RType struct {
	Kind      RKind
	Elem, Key *RType
	Sidx      int       // RStruct
	Enum      *EnumInfo // REnum
}

type SField struct {
	ID      int16
	Name    string
	Req     Req // after thriftgo's normalisation: union members and throws optional, optional args default
	Type    *RType
	Default *values.Value // nil = no default
}

type SStruct struct {
	File    int
	Name    string // IDL name; synthesized: "<fn>_args" / "<fn>_result"
	Kind    byte   // 's' 'u' 'e'
	Fields  []*SField
	Synth   bool   // synthesized from a service function
	Service string // for synthesized ones
	Func    string
}

// Schema lists all struct-likes of a program with their global index (order: file by file, definition
// order; synthesized args/result structs appended after all declared ones when asked for).
type Schema struct {
	Structs []*SStruct
	NFiles  int
}

// Schema resolves the program. Synthesized <fn>_args/<fn>_result structs are appended with withSynth.
func (p *Program) Schema() *Schema { return p.SchemaWith(true) }

func (p *Program) SchemaWith(withSynth bool) *Schema {
	s := &Schema{NFiles: len(p.Files)}
	idx := map[NamedRef]int{}
	for fi, f := range p.Files {
		for _, st := range f.Structs {
			idx[NamedRef{fi, st.Name}] = len(s.Structs)
			s.Structs = append(s.Structs, &SStruct{File: fi, Name: st.Name, Kind: byte(st.Kind)})
		}
	}
	r := &resolver{p: p, idx: idx, enums: map[NamedRef]*EnumInfo{}}
	n := 0
	for fi, f := range p.Files {
		for _, st := range f.Structs {
			ss := s.Structs[n]
			n++
			for _, fd := range st.Fields {
				req := fd.Req
				if st.Kind == 'u' {
					req = Optional
				}
				ss.Fields = append(ss.Fields, r.field(fi, fd, req))
			}
		}
	}
	if withSynth {
		for fi, f := range p.Files {
			for _, sv := range f.Services {
				for _, fn := range sv.Functions {
					a := &SStruct{File: fi, Name: fn.Name + "_args", Kind: 's', Synth: true, Service: sv.Name, Func: fn.Name}
					for _, fd := range fn.Args {
						req := fd.Req
						if req == Optional {
							req = Default
						}
						a.Fields = append(a.Fields, r.field(fi, fd, req))
					}
					s.Structs = append(s.Structs, a)
					if fn.Oneway {
						continue
					}
					res := &SStruct{File: fi, Name: fn.Name + "_result", Kind: 's', Synth: true, Service: sv.Name, Func: fn.Name}
					if fn.Ret != nil {
						res.Fields = append(res.Fields, &SField{ID: 0, Name: "success", Req: Optional, Type: r.resolve(fn.Ret)})
					}
					for _, fd := range fn.Throws {
						res.Fields = append(res.Fields, r.field(fi, fd, Optional))
					}
					s.Structs = append(s.Structs, res)
				}
			}
		}
	}
	return s
}

type resolver struct {
	p     *Program
	idx   map[NamedRef]int
	enums map[NamedRef]*EnumInfo
}

func (r *resolver) field(fi int, fd *Field, req Req) *SField {
	sf := &SField{ID: fd.ID, Name: fd.Name, Req: req, Type: r.resolve(fd.Type)}
	if fd.Default != nil {
		sf.Default = fd.Default.Val.Clone()
	}
	return sf
}

func (r *resolver) resolve(t *Type) *RType {
	switch t.Kind {
	case List:
		return &RType{Kind: RList, Elem: r.resolve(t.Elem)}
	case Set:
		return &RType{Kind: RSet, Elem: r.resolve(t.Elem)}
	case Map:
		return &RType{Kind: RMap, Key: r.resolve(t.Key), Elem: r.resolve(t.Elem)}
	case Named:
		f := r.p.Files[t.Named.File]
		if td := f.typedef(t.Named.Name); td != nil {
			return r.resolve(td.Type)
		}
		if e := f.enum(t.Named.Name); e != nil {
			ei := r.enums[*t.Named]
			if ei == nil {
				ei = &EnumInfo{File: t.Named.File, Name: e.Name}
				for _, v := range e.Values {
					ei.Names = append(ei.Names, v.Name)
					ei.Values = append(ei.Values, v.Value)
				}
				r.enums[*t.Named] = ei
			}
			return &RType{Kind: REnum, Enum: ei}
		}
		if i, ok := r.idx[*t.Named]; ok {
			return &RType{Kind: RStruct, Sidx: i}
		}
		panic(fmt.Sprintf("idlgen: unresolved name %d:%s", t.Named.File, t.Named.Name))
	default:
		return &RType{Kind: RKind(t.Kind)}
	}
}

// Resolve resolves one type of the program against this schema's indexes (used for constants).
func (p *Program) Resolve(t *Type) *RType {
	idx := map[NamedRef]int{}
	n := 0
	for fi, f := range p.Files {
		for _, st := range f.Structs {
			idx[NamedRef{fi, st.Name}] = n
			n++
		}
	}
	return (&resolver{p: p, idx: idx, enums: map[NamedRef]*EnumInfo{}}).resolve(t)
}

// String prints the type in the prefix grammar of BATCH.md §5.
func (t *RType) String() string {
	switch t.Kind {
	case RBool:
		return "b"
	case RByte:
		return "y"
	case RI16:
		return "h"
	case RI32:
		return "i"
	case RI64:
		return "l"
	case RDouble:
		return "d"
	case RString:
		return "s"
	case RBinary:
		return "B"
	case REnum:
		return "e"
	case RList:
		return "L " + t.Elem.String()
	case RSet:
		return "T " + t.Elem.String()
	case RMap:
		return "M " + t.Key.String() + " " + t.Elem.String()
	case RStruct:
		return fmt.Sprintf("S %d", t.Sidx)
	}
	panic("idlgen: bad RKind")
}

func (t *RType) IsBase() bool      { return t.Kind <= REnum }
func (t *RType) IsContainer() bool { return t.Kind == RList || t.Kind == RSet || t.Kind == RMap }

// Nillable tells whether the Go field generated for f can hold nil ('n'): struct-likes (pointers),
// containers, binary ([]byte), and optional base fields without default (pointers).
func (f *SField) Nillable() bool {
	switch {
	case f.Type.Kind == RStruct, f.Type.IsContainer(), f.Type.Kind == RBinary:
		return true
	}
	return f.Req == Optional && f.Default == nil
}

// ZeroOf is the Go zero value of a non-pointer slot of type t (element of a container, non-optional field).
func ZeroOf(t *RType) *values.Value {
	switch t.Kind {
	case RBool:
		return values.Bool(false)
	case RByte, RI16, RI32, RI64, REnum:
		return values.Int(0)
	case RDouble:
		return values.Double(0)
	case RString:
		return values.Str("")
	}
	return values.Nil() // binary, containers, struct pointers
}

// Zero is what the field holds in `var x X` (the Go zero value of the generated field).
func (f *SField) Zero() *values.Value {
	if f.Nillable() {
		return values.Nil()
	}
	return ZeroOf(f.Type)
}

// Initial is what the field holds in NewX(): the declared default, else the Go zero value.
func (f *SField) Initial() *values.Value {
	if f.Default != nil {
		return f.Default.Clone()
	}
	return f.Zero()
}

// Initial is the record NewX() returns.
func (s *SStruct) Initial() *values.Value {
	r := &values.Value{K: values.KRecord, E: make([]*values.Value, len(s.Fields))}
	for i, f := range s.Fields {
		r.E[i] = f.Initial()
	}
	return r
}

// Zero is the record of `var x X`.
func (s *SStruct) Zero() *values.Value {
	r := &values.Value{K: values.KRecord, E: make([]*values.Value, len(s.Fields))}
	for i, f := range s.Fields {
		r.E[i] = f.Zero()
	}
	return r
}

// FieldByID finds a field index by id (-1 if absent).
func (s *SStruct) FieldByID(id int16) int {
	for i, f := range s.Fields {
		if f.ID == id {
			return i
		}
	}
	return -1
}

// Lines prints the schema in the line protocol of BATCH.md §5 for unit key u ("u3"):
//
//	P u<i> <nstructs> <opt>…
//	S u<i> <sidx> <s|u|e> <nfields>  then per field:  <id> <r|o|d> <type> <default|->
func (s *Schema) Lines(u string, opts []string) []string {
	out := []string{strings.TrimRight(fmt.Sprintf("P %s %d %s", u, len(s.Structs), strings.Join(opts, " ")), " ")}
	for i, st := range s.Structs {
		var sb strings.Builder
		fmt.Fprintf(&sb, "S %s %d %c %d", u, i, st.Kind, len(st.Fields))
		for _, f := range st.Fields {
			d := "-"
			if f.Default != nil {
				d = f.Default.String()
			}
			fmt.Fprintf(&sb, " %d %s %s %s", f.ID, f.Req.Letter(), f.Type.String(), d)
		}
		out = append(out, sb.String())
	}
	return out
}

// HasRequired reports whether the struct has a required field.
func (s *SStruct) HasRequired() bool {
	for _, f := range s.Fields {
		if f.Req == Required {
			return true
		}
	}
	return false
}
