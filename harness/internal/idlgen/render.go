package idlgen

import (
	"fmt"
	"strconv"
	"strings"
)

// Render prints every file: path → IDL text.
func (p *Program) Render() map[string]string {
	out := map[string]string{}
	for i, f := range p.Files {
		out[f.Path] = p.renderFile(i)
	}
	return out
}

func (p *Program) typeStr(fi int, t *Type) string {
	switch t.Kind {
	case List:
		return "list<" + p.typeStr(fi, t.Elem) + ">"
	case Set:
		return "set<" + p.typeStr(fi, t.Elem) + ">"
	case Map:
		return "map<" + p.typeStr(fi, t.Key) + ", " + p.typeStr(fi, t.Elem) + ">"
	case Named:
		if t.Named.File == fi {
			return t.Named.Name
		}
		return p.Files[t.Named.File].Prefix() + "." + t.Named.Name
	}
	return baseNames[t.Kind]
}

func (c *Const) String() string {
	switch c.Kind {
	case CInt, CDouble, CIdent:
		return c.Text
	case CString:
		q := string(c.Quote)
		return q + c.Text + q
	case CList:
		var sb strings.Builder
		sb.WriteByte('[')
		for i, it := range c.Items {
			if i > 0 {
				if c.Sep == "" {
					sb.WriteByte(' ')
				} else {
					sb.WriteString(c.Sep + " ")
				}
			}
			sb.WriteString(it.String())
		}
		sb.WriteByte(']')
		return sb.String()
	case CMap:
		var sb strings.Builder
		sb.WriteByte('{')
		for i := 0; i+1 < len(c.Items); i += 2 {
			if i > 0 {
				if c.Sep == "" {
					sb.WriteByte(' ')
				} else {
					sb.WriteString(c.Sep + " ")
				}
			}
			sb.WriteString(c.Items[i].String() + ": " + c.Items[i+1].String())
		}
		sb.WriteByte('}')
		return sb.String()
	}
	panic("idlgen: bad const kind")
}

// idTextDenotes: does the written id text denote id under thriftgo's rule (base 10 first, then Go's prefixed forms)?
// Anything that rewrites ID afterwards (shrinkers, edits) simply falls back to the decimal rendering.
func idTextDenotes(text string, id int16) bool {
	v, err := strconv.ParseInt(text, 10, 32)
	if err != nil {
		v, err = strconv.ParseInt(text, 0, 32)
	}
	return err == nil && v == int64(id)
}

func (p *Program) fieldStr(fi int, f *Field, sepSeed int) string {
	var sb strings.Builder
	if f.HasID {
		if f.IDText != "" && idTextDenotes(f.IDText, f.ID) {
			sb.WriteString(f.IDText + ": ")
		} else {
			fmt.Fprintf(&sb, "%d: ", f.ID)
		}
	}
	switch f.Req {
	case Required:
		sb.WriteString("required ")
	case Optional:
		sb.WriteString("optional ")
	}
	sb.WriteString(p.typeStr(fi, f.Type) + " " + f.Name)
	if f.Default != nil {
		sb.WriteString(" = " + f.Default.String())
	}
	if len(f.Annotations) > 0 {
		sb.WriteString(" (")
		for i, a := range f.Annotations {
			if i > 0 {
				sb.WriteString(", ")
			}
			fmt.Fprintf(&sb, "%s = \"%s\"", a.Key, a.Value)
		}
		sb.WriteString(")")
	}
	sb.WriteString([]string{",", ";", ""}[(sepSeed+len(f.Name))%3])
	return sb.String()
}

func (p *Program) renderFile(fi int) string {
	f := p.Files[fi]
	var sb strings.Builder
	if f.GoNS != "" {
		fmt.Fprintf(&sb, "namespace go %s\n", f.GoNS)
	}
	// thriftgo looks an include path up relative to the working directory FIRST, then relative to the
	// including file: paths are written relative to the program root (= directory of Files[0]) and thriftgo
	// must run with that directory as its working directory (batch does).
	for _, k := range f.Includes {
		fmt.Fprintf(&sb, "include \"%s\"\n", p.Files[k].Path)
	}
	sb.WriteByte('\n')
	order := f.Order
	if len(order) == 0 {
		for i := range f.Typedefs {
			order = append(order, DefRef{'t', i})
		}
		for i := range f.Enums {
			order = append(order, DefRef{'e', i})
		}
		for i := range f.Structs {
			order = append(order, DefRef{'s', i})
		}
		for i := range f.Consts {
			order = append(order, DefRef{'c', i})
		}
		for i := range f.Services {
			order = append(order, DefRef{'v', i})
		}
	}
	for _, d := range order {
		switch d.Kind {
		case 't':
			t := f.Typedefs[d.Idx]
			fmt.Fprintf(&sb, "typedef %s %s\n\n", p.typeStr(fi, t.Type), t.Name)
		case 'e':
			e := f.Enums[d.Idx]
			fmt.Fprintf(&sb, "enum %s {\n", e.Name)
			for i, v := range e.Values {
				sb.WriteString("  " + v.Name)
				if v.HasValue {
					fmt.Fprintf(&sb, " = %d", v.Value)
				}
				sb.WriteString([]string{",", ";", ""}[(i+len(e.Name))%3] + "\n")
			}
			sb.WriteString("}\n\n")
		case 's':
			s := f.Structs[d.Idx]
			kw := map[StructKind]string{'s': "struct", 'u': "union", 'e': "exception"}[s.Kind]
			fmt.Fprintf(&sb, "%s %s {\n", kw, s.Name)
			for i, fd := range s.Fields {
				sb.WriteString("  " + p.fieldStr(fi, fd, i) + "\n")
			}
			sb.WriteString("}\n\n")
		case 'c':
			c := f.Consts[d.Idx]
			fmt.Fprintf(&sb, "const %s %s = %s\n\n", p.typeStr(fi, c.Type), c.Name, c.Value.String())
		case 'v':
			sv := f.Services[d.Idx]
			fmt.Fprintf(&sb, "service %s", sv.Name)
			if sv.Extends != nil {
				if sv.Extends.File == fi {
					sb.WriteString(" extends " + sv.Extends.Name)
				} else {
					sb.WriteString(" extends " + p.Files[sv.Extends.File].Prefix() + "." + sv.Extends.Name)
				}
			}
			sb.WriteString(" {\n")
			for _, fn := range sv.Functions {
				sb.WriteString("  ")
				if fn.Oneway {
					sb.WriteString("oneway ")
				}
				if fn.Ret == nil {
					sb.WriteString("void")
				} else {
					sb.WriteString(p.typeStr(fi, fn.Ret))
				}
				sb.WriteString(" " + fn.Name + "(")
				for i, a := range fn.Args {
					if i > 0 {
						sb.WriteByte(' ')
					}
					sb.WriteString(p.fieldStr(fi, a, 0))
				}
				sb.WriteString(")")
				if len(fn.Throws) > 0 {
					sb.WriteString(" throws (")
					for i, a := range fn.Throws {
						if i > 0 {
							sb.WriteByte(' ')
						}
						sb.WriteString(p.fieldStr(fi, a, 0))
					}
					sb.WriteString(")")
				}
				sb.WriteString("\n")
			}
			sb.WriteString("}\n\n")
		}
	}
	return sb.String()
}

// Stats reports the distribution of the program through count (vl.Out.Count).
func (p *Program) Stats(count func(string)) {
	count(fmt.Sprintf("idl.files.%d", len(p.Files)))
	for _, f := range p.Files {
		for range f.Typedefs {
			count("idl.def.typedef")
		}
		for range f.Enums {
			count("idl.def.enum")
		}
		for range f.Consts {
			count("idl.def.const")
		}
		for _, sv := range f.Services {
			count("idl.def.service")
			if sv.Extends != nil {
				count("idl.service.extends")
			}
			for _, fn := range sv.Functions {
				count("idl.def.function")
				if fn.Oneway {
					count("idl.function.oneway")
				}
			}
		}
		if f.GoNS == "" {
			count("idl.file.no_namespace")
		}
		for _, s := range f.Structs {
			count("idl.def." + map[StructKind]string{'s': "struct", 'u': "union", 'e': "exception"}[s.Kind])
			for _, fd := range s.Fields {
				count("idl.field.req." + fd.Req.Letter())
				switch {
				case !fd.HasID:
					count("idl.field.id.implicit")
				case fd.ID < 0:
					count("idl.field.id.negative")
				case fd.ID == 0:
					count("idl.field.id.zero")
				default:
					count("idl.field.id.positive")
				}
				if fd.Default != nil {
					count("idl.field.default")
				}
				count(fmt.Sprintf("idl.field.typedepth.%d", typeDepth(fd.Type)))
				count("idl.field.cat." + string(p.catOf(fd.Type)))
			}
		}
	}
}

func typeDepth(t *Type) int {
	switch t.Kind {
	case List, Set:
		return 1 + typeDepth(t.Elem)
	case Map:
		a, b := typeDepth(t.Key), typeDepth(t.Elem)
		if b > a {
			a = b
		}
		return 1 + a
	}
	return 0
}
