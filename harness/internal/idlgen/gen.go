package idlgen

import (
	"fmt"
	"math"
	"strconv"
	"strings"

	"verifharness/internal/values"
	"verifharness/internal/vl"
)

// Config switches generator features. Start from DefaultConfig() (everything that thriftgo's unchanged
// tree digests is on) and turn single features off/on. The switches in the last block are OFF by default:
// they produce IDL that is (believed) valid but that the unchanged thriftgo rejects or turns into Go code
// that does not compile -- candidate defects for C01, see docs/BATCH-notes.md.
type Config struct {
	SafeNames bool // plain S0/f1/E0 names; false = names from the stress pool

	MaxFiles    int // 1..MaxFiles files
	MaxStructs  int // struct-likes per file (at least 1 in the main file)
	MaxFields   int
	MaxEnums    int
	MaxTypedefs int
	MaxConsts   int
	MaxServices int
	MaxNest     int // container nesting depth (≤ 4)

	Enums, Typedefs, Unions, Exceptions, Services, Consts bool
	Defaults                                              bool // field defaults
	TypedefChains                                         bool // typedef of typedef, also across files
	CrossFile                                             bool // references into included files
	Recursive                                             bool // recursive types (self / mutual), through optional and default fields and containers
	NegativeIDs                                           bool
	ImplicitIDs                                           bool
	SparseIDs                                             bool
	ExtremeIDs                                            bool // 0, 32767, -32768
	StructMapKeys                                         bool // map<Struct, …>
	BinaryMapKeys                                         bool // map<binary, …> (Go key type string); fastgo's FastRead does not compile for it
	StructLiterals                                        bool // struct-typed defaults / constants
	ContainerConst                                        bool // list/set/map literals
	ConstIdents                                           bool // defaults referring to constants by (qualified) identifier
	EnumByNumber                                          bool
	IntForDouble                                          bool
	BoolAsInt                                             bool
	Annotations                                           bool
	EqualBaseNames                                        bool // files with equal base names in different directories
	SharedGoNS                                            bool // two files with the same `namespace go`
	NoGoNS                                                bool // files without `namespace go`
	ForwardRefs                                           bool // fields referring to struct-likes defined later in the file
	Namespaces                                            bool // dotted go namespaces

	// ---- OFF by default: shapes the unchanged tree does not digest (candidate defects) ----
	ContainerMapKeys             bool // map<list<i32>, …>: Go has no slice/map keys
	TypedefContainerFast         bool // (kept on for go; a fastgo unit must use a program generated with NoTypedefContainers)
	NoTypedefContainers          bool // do not generate typedefs of container types (needed by fastgo units)
	BinaryDefaults               bool // defaults for binary fields
	StringEscapes                bool // quotes / backslashes in string literals
	SamePrefixIncludes           bool // one file including two files with equal base names
	SetOfContainers              bool // set<list<…>> with defaults etc.
	KeywordNames                 bool // Go keywords in the stress name pool
	TypedefContainerConst        bool // constant/default whose type is a typedef of a container: thriftgo panics (nil deref in resolveConst)
	StructLiteralInContainer     bool // struct literals inside list/set/map literals: do not compile under value_type_in_container
	CrossFileLiteralIdents       bool // identifiers (constants, enum members) inside a literal of a struct that is defined in ANOTHER file: resolved in the wrong scope, index out of range in getIDValue
	ExponentDoubles              bool // 1.5e-3: the parser takes the exponent for the value (DESIGN §7, C03)
	CrossFileLiteralForeignTypes bool // literal of a struct from another file that sets a member whose type lives in a third file: unused import
	StructConstByIdent           bool // struct-typed constant/default given by the identifier of another constant: the type's package is imported but unused
	BinaryConstIdents            bool // binary constant referenced by identifier where Go wants a string (map key): []byte vs string
	CrossFileScalarConstType     bool // `const b.T C = 1` with b.T an enum / typedef of a base type of another file: Go constant is untyped, import unused
	OptionalEnumInLiteral        bool // struct literal that sets an optional enum member: `&EnumConst` (address of a constant) does not compile
	ShortPackageNames            bool // files without go namespace whose base name is a single letter: package c/b/p/… is shadowed by locals of the templates
	CollidingNames               bool // stress names known to collide with generated methods (init_default, …)
	DupThrows                    bool // the same exception type twice in one throws list (duplicate case in the processor's type switch)
}

// DefaultConfig has every digestible feature on.
func DefaultConfig() Config {
	return Config{
		SafeNames: true,
		MaxFiles:  3, MaxStructs: 4, MaxFields: 7, MaxEnums: 2, MaxTypedefs: 4, MaxConsts: 3, MaxServices: 2, MaxNest: 4,
		Enums: true, Typedefs: true, Unions: true, Exceptions: true, Services: true, Consts: true,
		Defaults: true, TypedefChains: true, CrossFile: true, Recursive: true,
		NegativeIDs: true, ImplicitIDs: true, SparseIDs: true, ExtremeIDs: true,
		StructMapKeys: true, BinaryMapKeys: true, StructLiterals: true, ContainerConst: true, ConstIdents: true,
		EnumByNumber: true, IntForDouble: true, BoolAsInt: true, Annotations: true,
		EqualBaseNames: true, SharedGoNS: true, NoGoNS: true, ForwardRefs: true, Namespaces: true,
		BinaryDefaults: true, KeywordNames: true,
	}
}

// visible definition of some file, usable from the file being generated
type defn struct {
	ref  NamedRef
	kind byte // 't' typedef 'e' enum 's' struct-like
	sk   StructKind
}

type constInfo struct {
	file int
	name string
	key  string // canonical resolved type
	val  *values.Value
}

type gen struct {
	r       *vl.Rng
	cfg     Config
	p       *Program
	names   map[string]bool // used global names (whole program)
	nsUsed  map[string]bool
	consts  []constInfo
	ctr     map[string]int
	done    []bool          // file fully generated
	cur     int             // file being generated
	nsNames map[string]int  // normalised name within a go namespace -> file that declared it
	noIdent int             // > 0: inside a literal in which identifiers must not be used
	will    map[*Field]bool // fields that are going to get a default (decided before any literal is built)
}

// Generate builds a random program. All choices come from r.
func Generate(r *vl.Rng, cfg Config) *Program {
	if cfg.MaxFiles < 1 {
		cfg.MaxFiles = 1
	}
	if cfg.MaxNest > 4 {
		cfg.MaxNest = 4
	}
	g := &gen{r: r, cfg: cfg, p: &Program{}, names: map[string]bool{}, nsUsed: map[string]bool{}, ctr: map[string]int{}, will: map[*Field]bool{}, nsNames: map[string]int{}}
	g.layout()
	g.done = make([]bool, len(g.p.Files))
	for i := len(g.p.Files) - 1; i >= 0; i-- {
		g.file(i)
		g.done[i] = true
	}
	return g.p
}

// ---------------------------------------------------------------- layout

func (g *gen) layout() {
	n := 1 + g.r.Intn(g.cfg.MaxFiles)
	bases := []string{"a", "b", "c", "base", "util"}
	dirs := []string{"", "sub/", "sub/deep/", "other/"}
	usedPath := map[string]bool{}
	for i := 0; i < n; i++ {
		var path string
		for {
			b := bases[i%len(bases)]
			d := ""
			if i > 0 && g.r.Chance(40) {
				d = dirs[g.r.Intn(len(dirs))]
			}
			if i > 0 && g.cfg.EqualBaseNames && g.r.Chance(25) {
				b = bases[g.r.Intn(i)]
				if d == "" {
					d = dirs[1+g.r.Intn(len(dirs)-1)]
				}
			}
			path = d + b + ".thrift"
			if !usedPath[path] {
				break
			}
		}
		usedPath[path] = true
		f := &File{Path: path}
		g.p.Files = append(g.p.Files, f)
	}
	// namespaces: distinct unless SharedGoNS strikes; a file without namespace gets package = base name, so
	// only one file per base name may go without.
	noNS := map[string]bool{}
	for i, f := range g.p.Files {
		switch {
		case g.cfg.NoGoNS && g.r.Chance(25) && !noNS[f.Prefix()] && !g.nsLast(f.Prefix()) && (g.cfg.ShortPackageNames || len(f.Prefix()) > 1):
			noNS[f.Prefix()] = true
			g.nsUsed[f.Prefix()] = true
		case g.cfg.SharedGoNS && i > 0 && g.r.Chance(12) && g.p.Files[i-1].GoNS != "":
			f.GoNS = g.p.Files[i-1].GoNS
		default:
			for {
				ns := fmt.Sprintf("p%s%d", f.Prefix(), g.r.Intn(50))
				if g.cfg.Namespaces && g.r.Chance(40) {
					ns = []string{"x.", "x.y.", "org.demo."}[g.r.Intn(3)] + ns
				}
				if !g.nsUsed[ns] && !g.nsLast(lastDot(ns)) {
					g.nsUsed[ns] = true
					g.nsUsed["last:"+lastDot(ns)] = true
					f.GoNS = ns
					break
				}
			}
		}
	}
	// includes: every file j > 0 is included by some i < j; extra edges make diamonds.
	for j := 1; j < n; j++ {
		i := g.r.Intn(j)
		ok := g.include(i, j)
		for k := 0; k < j; k++ {
			if k != i && (g.r.Chance(35) || !ok) {
				if g.include(k, j) {
					ok = true
				}
			}
		}
		if !ok {
			// no file may include j under its current base name: give it a unique one
			fj := g.p.Files[j]
			fj.Path = strings.TrimSuffix(fj.Path, ".thrift") + fmt.Sprint(j) + ".thrift"
			if fj.GoNS == "" {
				fj.GoNS = fmt.Sprintf("pq%d", j)
			}
			g.include(i, j)
		}
	}
}

func lastDot(s string) string {
	if i := strings.LastIndexByte(s, '.'); i >= 0 {
		return s[i+1:]
	}
	return s
}

func (g *gen) nsLast(last string) bool { return g.nsUsed["last:"+last] || g.nsUsed[last] }

// include adds the edge i -> j if allowed; reports whether j is now included by i.
func (g *gen) include(i, j int) bool {
	fi, fj := g.p.Files[i], g.p.Files[j]
	for _, x := range fi.Includes {
		if x == j {
			return true
		}
	}
	if !g.cfg.SamePrefixIncludes && (fi.Prefix() == fj.Prefix() || !g.canInclude(i, j)) {
		return false
	}
	fi.Includes = append(fi.Includes, j)
	return true
}

func (g *gen) canInclude(i, j int) bool {
	for _, x := range g.p.Files[i].Includes {
		if x == j {
			return false
		}
		if !g.cfg.SamePrefixIncludes && g.p.Files[x].Prefix() == g.p.Files[j].Prefix() {
			return false
		}
	}
	return true
}

// ---------------------------------------------------------------- names

var stressTypeNames = []string{
	"NewFoo", "FooArgs", "FooResult", "foo_bar", "fooBar", "FooBar_", "url_id", "URLId", "UrlID", "http_api", "HTTPApi",
	"a_b", "aB", "A_B", "New", "Args", "Result", "NewFooArgs", "item_", "Item", "item", "ITEM", "xml2json",
	"user_id_list", "UserIDList", "Client", "Processor", "Error", "String_", "my_uuid", "MyUuid", "ip_addr", "Base",
}
var stressFieldNames = []string{
	"id", "ID", "Id", "url", "user_id", "userId", "UserID", "new_name", "a_b", "aB", "A_B", "args", "result", "success",
	"read", "write", "string", "String", "Read", "Write", "get_x", "x", "set_x", "is_set_x", "field_1", "p", "err", "_x", "x_",
	"http_url", "HTTPUrl", "json", "Error", "count_set_fields", "deep_equal", "value", "key", "size", "v", "ctx",
}

// names known to produce Go that does not compile on the unchanged tree (Config.CollidingNames puts them back)
var collidingTypeNames = []string{
	"_item", // Go name _Item is not exported: cross-package references do not compile
}
var collidingFieldNames = []string{
	"init_default", // field InitDefault vs method InitDefault (not reserved in buildStructLike)
}

var goKeywords = []string{
	"type", "func", "range", "select", "chan", "go", "var", "package", "import", "interface", "default", "switch", "case",
	"return", "break", "continue", "for", "if", "else", "goto", "defer", "fallthrough",
}
var stressFuncNames = []string{"get", "Get_", "get_item", "ping", "new_client", "process", "call", "Send", "recv", "a_b", "close", "String"}

// function names that identify to the same Go method name as another pool member: the service interface
// then declares the method twice (duplicate method AB) -- only with Config.CollidingNames
var collidingFuncNames = []string{"aB", "Get", "getItem"}

func (g *gen) fresh(prefix string) string {
	for {
		n := g.ctr[prefix]
		g.ctr[prefix]++
		s := prefix + strconv.Itoa(n)
		if !g.names[strings.ToLower(s)] {
			g.names[strings.ToLower(s)] = true
			return s
		}
	}
}

// globalName picks a program-wide unique (case- and underscore-insensitively, so that Go names of one
// package never clash by construction unless StressNames wants them to) definition name.
func (g *gen) globalName(prefix string, pool []string) string {
	if g.cfg.SafeNames || g.r.Chance(35) {
		return g.fresh(prefix)
	}
	for try := 0; try < 20; try++ {
		s := pool[g.r.Intn(len(pool))]
		if g.cfg.CollidingNames && g.r.Chance(5) {
			s = collidingTypeNames[g.r.Intn(len(collidingTypeNames))]
		}
		if g.r.Chance(30) {
			s += strconv.Itoa(g.r.Intn(9))
		}
		// two files that share a go namespace (= one Go package) must not declare names that identify alike
		norm := "ns:" + g.p.Files[g.cur].GoNS + ":" + strings.ToLower(strings.ReplaceAll(s, "_", ""))
		if owner, taken := g.nsNames[norm]; taken && owner != g.cur {
			continue
		}
		// thriftgo reserves New<X> for every struct-like/service client X: `X` and `NewX` together are rejected
		if g.names["New"+s] || (strings.HasPrefix(s, "New") && g.names[strings.TrimPrefix(s, "New")]) {
			continue
		}
		if !g.names[s] {
			g.names[s] = true
			g.nsNames[norm] = g.cur
			return s
		}
	}
	return g.fresh(prefix)
}

func (g *gen) localName(used map[string]bool, prefix string, pool []string) string {
	if !g.cfg.SafeNames && g.r.Chance(65) {
		for try := 0; try < 20; try++ {
			var s string
			if g.cfg.KeywordNames && g.r.Chance(12) {
				s = goKeywords[g.r.Intn(len(goKeywords))]
			} else if g.cfg.CollidingNames && g.r.Chance(10) {
				s = collidingFieldNames[g.r.Intn(len(collidingFieldNames))]
			} else {
				s = pool[g.r.Intn(len(pool))]
			}
			if !used[s] {
				used[s] = true
				return s
			}
		}
	}
	for i := 1; ; i++ {
		s := prefix + strconv.Itoa(i)
		if !used[s] {
			used[s] = true
			return s
		}
	}
}

// ---------------------------------------------------------------- one file

func (g *gen) visible(fi int) []defn {
	var out []defn
	add := func(k int) {
		f := g.p.Files[k]
		for _, t := range f.Typedefs {
			out = append(out, defn{NamedRef{k, t.Name}, 't', 0})
		}
		for _, e := range f.Enums {
			out = append(out, defn{NamedRef{k, e.Name}, 'e', 0})
		}
		for _, s := range f.Structs {
			out = append(out, defn{NamedRef{k, s.Name}, 's', s.Kind})
		}
	}
	add(fi)
	if g.cfg.CrossFile {
		for _, k := range g.p.Files[fi].Includes {
			add(k)
		}
	}
	return out
}

func (g *gen) file(fi int) {
	g.cur = fi
	f := g.p.Files[fi]
	c := g.cfg
	push := func(k byte, i int) { f.Order = append(f.Order, DefRef{k, i}) }

	if c.Enums {
		for i, n := 0, g.r.Intn(c.MaxEnums+1); i < n; i++ {
			f.Enums = append(f.Enums, g.enum())
			push('e', len(f.Enums)-1)
		}
	}
	nStructs := g.r.Intn(c.MaxStructs + 1)
	if nStructs == 0 && (fi == 0 || g.r.Chance(70)) {
		nStructs = 1
	}
	nTypedefs := 0
	if c.Typedefs {
		nTypedefs = g.r.Intn(c.MaxTypedefs + 1)
	}
	// pre-declare struct names so that forward references are possible
	var pre []*Struct
	for i := 0; i < nStructs; i++ {
		k := StructKind('s')
		switch {
		case c.Unions && g.r.Chance(18):
			k = 'u'
		case c.Exceptions && g.r.Chance(15):
			k = 'e'
		}
		pre = append(pre, &Struct{Kind: k, Name: g.globalName("S", stressTypeNames)})
	}
	// interleave typedefs and structs
	ti, si := 0, 0
	for ti < nTypedefs || si < nStructs {
		if ti < nTypedefs && (si >= nStructs || g.r.Bool()) {
			if td := g.typedef(fi); td != nil {
				f.Typedefs = append(f.Typedefs, td)
				push('t', len(f.Typedefs)-1)
			}
			ti++
			continue
		}
		st := pre[si]
		si++
		f.Structs = append(f.Structs, st)
		push('s', len(f.Structs)-1)
		g.fields(fi, st, pre[si:])
	}
	// recursion: add self / backward-to-forward references
	if c.Recursive && len(f.Structs) > 0 && g.r.Chance(50) {
		g.recursive(fi)
	}
	// phase B: decide which fields get defaults (this fixes the Go shape of every field), then constants,
	// then the default expressions (struct field lists are final now)
	if c.Defaults {
		for _, st := range f.Structs {
			g.markDefaults(fi, st)
		}
	}
	if c.Consts {
		for i, n := 0, g.r.Intn(c.MaxConsts+1); i < n; i++ {
			if cd := g.constDef(fi); cd != nil {
				f.Consts = append(f.Consts, cd)
				push('c', len(f.Consts)-1)
			}
		}
	}
	if c.Defaults {
		for _, st := range f.Structs {
			g.defaults(fi, st)
		}
	}
	if c.Services {
		for i, n := 0, g.r.Intn(c.MaxServices+1); i < n; i++ {
			f.Services = append(f.Services, g.service(fi))
			push('v', len(f.Services)-1)
		}
	}
	// shuffle consts forward sometimes (a constant may be used before it is defined): move one const to front
	if len(f.Consts) > 0 && g.r.Chance(30) {
		for i, d := range f.Order {
			if d.Kind == 'c' {
				copy(f.Order[1:i+1], f.Order[:i])
				f.Order[0] = d
				break
			}
		}
	}
}

func (g *gen) enum() *Enum {
	e := &Enum{Name: g.globalName("E", stressTypeNames)}
	n := 1 + g.r.Intn(5)
	used := map[string]bool{}
	usedV := map[int64]bool{}
	cur := int64(-1)
	for i := 0; i < n; i++ {
		var name string
		if g.cfg.SafeNames {
			name = fmt.Sprintf("%s_V%d", strings.ToUpper(e.Name), i)
		} else {
			name = g.localName(used, "V", []string{"RED", "red", "Red", "A", "a_b", "aB", "UNKNOWN", "Unknown", "ok", "OK", "NewVal", "val_1"})
		}
		used[name] = true
		v := EnumValue{Name: name}
		if g.r.Chance(55) {
			v.HasValue = true
			for {
				switch g.r.Intn(8) {
				case 0:
					v.Value = -1 - int64(g.r.Intn(5))
				case 1:
					v.Value = []int64{math.MaxInt32, math.MinInt32, 0x7f, 0x8000}[g.r.Intn(4)]
				default:
					v.Value = cur + 1 + int64(g.r.Intn(4))
				}
				if v.Value > math.MaxInt32 {
					v.Value = int64(g.r.Intn(1000))
				}
				if !usedV[v.Value] {
					break
				}
			}
		} else {
			v.Value = cur + 1
			if usedV[v.Value] || v.Value > math.MaxInt32 {
				v.HasValue = true
				for usedV[v.Value] || v.Value > math.MaxInt32 {
					v.Value = int64(g.r.Intn(1000))
				}
			}
		}
		usedV[v.Value] = true
		cur = v.Value
		e.Values = append(e.Values, v)
	}
	return e
}

// deref follows typedefs.
func (p *Program) deref(t *Type) *Type {
	for t.Kind == Named {
		td := p.Files[t.Named.File].typedef(t.Named.Name)
		if td == nil {
			return t
		}
		t = td.Type
	}
	return t
}

// catOf: 'b' base, 'e' enum, 's' struct-like, 'c' container
func (p *Program) catOf(t *Type) byte {
	t = p.deref(t)
	switch t.Kind {
	case List, Set, Map:
		return 'c'
	case Named:
		if p.Files[t.Named.File].enum(t.Named.Name) != nil {
			return 'e'
		}
		return 's'
	}
	return 'b'
}

type typeCtx struct {
	fi       int
	forward  []*Struct // struct-likes of this file declared later (names only)
	noStruct bool
}

func (g *gen) baseType() *Type {
	return &Type{Kind: Kind(g.r.Intn(8))}
}

func (g *gen) namedType(ctx typeCtx, want string) *Type {
	vis := g.visible(ctx.fi)
	if g.cfg.ForwardRefs {
		for _, s := range ctx.forward {
			vis = append(vis, defn{NamedRef{ctx.fi, s.Name}, 's', s.Kind})
		}
	}
	var cand []defn
	for _, d := range vis {
		if strings.IndexByte(want, d.kind) < 0 {
			continue
		}
		if d.kind == 't' {
			t := &Type{Kind: Named, Named: &NamedRef{d.ref.File, d.ref.Name}}
			if ctx.noStruct && g.p.catOf(t) == 's' {
				continue
			}
			if !g.cfg.TypedefChains && strings.IndexByte(want, 'T') >= 0 {
				continue
			}
		}
		if d.kind == 's' && ctx.noStruct {
			continue
		}
		cand = append(cand, d)
	}
	if len(cand) == 0 {
		return nil
	}
	d := cand[g.r.Intn(len(cand))]
	return &Type{Kind: Named, Named: &NamedRef{d.ref.File, d.ref.Name}}
}

func (g *gen) keyOK(t *Type) bool {
	if !g.cfg.BinaryMapKeys && g.p.deref(t).Kind == Binary {
		return false
	}
	switch g.p.catOf(t) {
	case 'c':
		return g.cfg.ContainerMapKeys
	case 's':
		return g.cfg.StructMapKeys
	}
	return true
}

func (g *gen) genType(ctx typeCtx, depth int) *Type {
	x := g.r.Intn(100)
	switch {
	case x < 50:
		return g.baseType()
	case x < 75 && depth < g.cfg.MaxNest:
		switch g.r.Intn(3) {
		case 0:
			return &Type{Kind: List, Elem: g.genType(ctx, depth+1)}
		case 1:
			var e *Type
			for try := 0; ; try++ {
				e = g.genType(ctx, depth+1)
				if g.cfg.SetOfContainers || g.p.catOf(e) != 'c' || try > 8 {
					break
				}
			}
			if !g.cfg.SetOfContainers && g.p.catOf(e) == 'c' {
				e = g.baseType()
			}
			return &Type{Kind: Set, Elem: e}
		default:
			var k *Type
			for try := 0; try < 10; try++ {
				k = g.genType(ctx, g.cfg.MaxNest) // keys: no nested containers by construction
				if g.keyOK(k) {
					break
				}
				k = nil
			}
			if k == nil {
				k = &Type{Kind: []Kind{I32, String, I64, Byte}[g.r.Intn(4)]}
			}
			return &Type{Kind: Map, Key: k, Elem: g.genType(ctx, depth+1)}
		}
	default:
		if t := g.namedType(ctx, "tes"); t != nil {
			if depth >= g.cfg.MaxNest && g.p.catOf(t) == 'c' {
				return g.baseType()
			}
			return t
		}
		return g.baseType()
	}
}

func (g *gen) typedef(fi int) *Typedef {
	ctx := typeCtx{fi: fi}
	var t *Type
	switch x := g.r.Intn(100); {
	case x < 30:
		t = g.baseType()
	case x < 55 && !g.cfg.NoTypedefContainers:
		t = g.genType(ctx, 2)
	case x < 80 && g.cfg.TypedefChains:
		t = g.namedType(ctx, "tesT")
	default:
		t = g.namedType(ctx, "es")
	}
	if t == nil {
		t = g.baseType()
	}
	if g.cfg.NoTypedefContainers && g.p.catOf(t) == 'c' {
		t = g.baseType()
	}
	return &Typedef{Name: g.globalName("T", stressTypeNames), Type: t}
}

// ---------------------------------------------------------------- fields

func (g *gen) fieldIDs(fs []*Field) {
	used := map[int16]bool{}
	var prev int16
	pick := func() int16 {
		for {
			var id int16
			switch x := g.r.Intn(100); {
			case x < 6 && g.cfg.NegativeIDs:
				id = -1 - int16(g.r.Intn(12))
			case x < 8 && g.cfg.ExtremeIDs:
				id = []int16{0, 32767, -32768, 255, 256}[g.r.Intn(5)]
			case x < 30 && g.cfg.SparseIDs:
				id = prev + 1 + int16(g.r.Intn(40))
			case x < 40 && g.cfg.SparseIDs:
				id = 1 + int16(g.r.Intn(60)) // out of order
			default:
				id = prev + 1
			}
			if id < prev && prev > 32000 {
				id = int16(1 + g.r.Intn(100))
			}
			if !used[id] {
				return id
			}
			prev++
			if prev > 32000 {
				prev = int16(g.r.Intn(1000))
			}
		}
	}
	for i, f := range fs {
		implicit := g.cfg.ImplicitIDs && g.r.Chance(12)
		if implicit {
			id := prev + 1
			if i == 0 {
				id = 1
			}
			if used[id] || (i > 0 && prev == 32767) {
				implicit = false
			} else {
				f.ID, f.HasID = id, false
			}
		}
		if !implicit {
			f.ID, f.HasID = pick(), true
		}
		used[f.ID] = true
		prev = f.ID
		// some explicit ids are written zero-padded or in hex: `010` is ten, not eight. Chosen from data already
		// drawn, so the random stream is unchanged.
		if f.HasID && f.ID >= 8 {
			switch (int(f.ID) + len(f.Name) + i) % 7 {
			case 0:
				f.IDText = fmt.Sprintf("0%d", f.ID)
			case 1:
				f.IDText = fmt.Sprintf("0x%x", f.ID)
			}
		}
	}
}

func (g *gen) fields(fi int, st *Struct, forward []*Struct) {
	n := g.r.Intn(g.cfg.MaxFields + 1)
	if st.Kind == 'u' && n == 0 {
		n = 1
	}
	used := map[string]bool{}
	ctx := typeCtx{fi: fi, forward: forward}
	for i := 0; i < n; i++ {
		f := &Field{Name: g.localName(used, "f", stressFieldNames), Type: g.genType(ctx, 1)}
		if st.Kind != 'u' {
			switch x := g.r.Intn(100); {
			case x < 25:
				f.Req = Required
			case x < 60:
				f.Req = Optional
			}
		} else if g.r.Chance(30) {
			f.Req = Optional
		}
		if g.cfg.Annotations && g.r.Chance(10) {
			f.Annotations = append(f.Annotations, Annotation{"k.a", "v1"})
			if g.r.Bool() {
				f.Annotations = append(f.Annotations, Annotation{"k.a", "v2"}, Annotation{"other", ""})
			}
		}
		st.Fields = append(st.Fields, f)
	}
	g.fieldIDs(st.Fields)
}

func (g *gen) recursive(fi int) {
	f := g.p.Files[fi]
	st := f.Structs[g.r.Intn(len(f.Structs))]
	tgt := f.Structs[g.r.Intn(len(f.Structs))] // self or mutual
	used := map[string]bool{}
	usedID := map[int16]bool{}
	var maxID int16
	for _, x := range st.Fields {
		used[x.Name] = true
		usedID[x.ID] = true
		if x.ID > maxID {
			maxID = x.ID
		}
	}
	if maxID > 32000 {
		return
	}
	t := &Type{Kind: Named, Named: &NamedRef{fi, tgt.Name}}
	switch g.r.Intn(5) {
	case 0:
		t = &Type{Kind: List, Elem: t}
	case 1:
		t = &Type{Kind: Map, Key: &Type{Kind: String}, Elem: t}
	}
	fd := &Field{Name: g.localName(used, "rec", []string{"next", "parent", "children", "self"}), Type: t, ID: maxID + 1, HasID: true, Req: Optional}
	if st.Kind != 'u' && g.r.Chance(30) {
		fd.Req = Default
	}
	st.Fields = append(st.Fields, fd)
}

// ---------------------------------------------------------------- services

func (g *gen) service(fi int) *Service {
	f := g.p.Files[fi]
	sv := &Service{Name: g.globalName("Svc", []string{"FooService", "foo_service", "Client", "NewClient", "api", "API", "Handler"})}
	// extends
	var bases []NamedRef
	for _, o := range f.Services {
		bases = append(bases, NamedRef{fi, o.Name})
	}
	if g.cfg.CrossFile {
		for _, k := range f.Includes {
			for _, o := range g.p.Files[k].Services {
				bases = append(bases, NamedRef{k, o.Name})
			}
		}
	}
	if len(bases) > 0 && g.r.Chance(40) {
		b := bases[g.r.Intn(len(bases))]
		sv.Extends = &b
	}
	inherited := map[string]bool{}
	for b := sv.Extends; b != nil; {
		bs := g.p.Files[b.File].service(b.Name)
		for _, fn := range bs.Functions {
			inherited[fn.Name] = true
		}
		b = bs.Extends
	}
	var exc []NamedRef
	for _, d := range g.visible(fi) {
		if d.kind == 's' && d.sk == 'e' {
			exc = append(exc, d.ref)
		}
	}
	used := map[string]bool{}
	for k := range inherited {
		used[k] = true
	}
	ctx := typeCtx{fi: fi}
	for i, n := 0, g.r.Intn(4); i < n; i++ {
		pool := stressFuncNames
		if g.cfg.CollidingNames {
			pool = append(append([]string{}, pool...), collidingFuncNames...)
		}
		fn := &Function{Name: g.localName(used, "fn", pool)}
		switch x := g.r.Intn(100); {
		case x < 15:
			fn.Oneway = true
		case x < 40:
		default:
			fn.Ret = g.genType(ctx, 2)
		}
		au := map[string]bool{}
		for j, m := 0, g.r.Intn(4); j < m; j++ {
			a := &Field{Name: g.localName(au, "a", stressFieldNames), Type: g.genType(ctx, 2)}
			if g.r.Chance(15) {
				a.Req = Optional
			} else if g.r.Chance(10) {
				a.Req = Required
			}
			fn.Args = append(fn.Args, a)
		}
		g.fieldIDs(fn.Args)
		if !fn.Oneway && len(exc) > 0 {
			tu := map[string]bool{"success": true}
			thrown := map[NamedRef]bool{}
			for j, m := 0, g.r.Intn(3); j < m; j++ {
				e := exc[g.r.Intn(len(exc))]
				if thrown[e] && !g.cfg.DupThrows {
					continue
				}
				thrown[e] = true
				fn.Throws = append(fn.Throws, &Field{Name: g.localName(tu, "e", []string{"err", "e", "ex", "error_", "exc"}),
					Type: &Type{Kind: Named, Named: &NamedRef{e.File, e.Name}}})
			}
			save := g.cfg
			g.cfg.ExtremeIDs = false // id 0 is `success`
			g.fieldIDs(fn.Throws)
			for ti, t := range fn.Throws {
				if t.ID == 0 {
					t.ID, t.HasID = 77, true
				}
				// a requiredness keyword in a throws list is accepted (with a warning) and ignored: the member of the
				// synthesized result stays optional. Chosen from data already drawn, so the random stream is unchanged.
				switch (int(t.ID) + len(fn.Args) + ti + len(sv.Functions)) % 3 {
				case 0:
					t.Req = Required
				case 1:
					t.Req = Optional
				}
			}
			g.cfg = save
		}
		sv.Functions = append(sv.Functions, fn)
	}
	return sv
}

func (f *File) service(n string) *Service {
	for _, s := range f.Services {
		if s.Name == n {
			return s
		}
	}
	return nil
}

// ---------------------------------------------------------------- constants and defaults

func (g *gen) typeKey(t *Type) string {
	rt := g.p.Resolve(t)
	return rtKey(rt)
}

func rtKey(rt *RType) string {
	switch rt.Kind {
	case REnum:
		return fmt.Sprintf("e%d:%s", rt.Enum.File, rt.Enum.Name)
	case RList:
		return "L " + rtKey(rt.Elem)
	case RSet:
		return "T " + rtKey(rt.Elem)
	case RMap:
		return "M " + rtKey(rt.Key) + " " + rtKey(rt.Elem)
	}
	return rt.String()
}

func (g *gen) constDef(fi int) *ConstDef {
	ctx := typeCtx{fi: fi}
	var t *Type
	for try := 0; try < 10; try++ {
		t = g.genType(ctx, 2)
		if t.Kind == Named && t.Named.File != fi && g.p.catOf(t) != 's' && g.p.catOf(t) != 'c' && !g.cfg.CrossFileScalarConstType {
			t = nil
			continue
		}
		if g.constable(t, 0, false) {
			break
		}
		t = nil
	}
	if t == nil {
		t = g.baseType()
		if t.Kind == Binary && !g.cfg.BinaryDefaults {
			t.Kind = String
		}
	}
	c := g.constOf(fi, t, 0, false)
	cd := &ConstDef{Name: g.globalName("C", []string{"MAX_SIZE", "max_size", "maxSize", "DefaultName", "default_name", "PI", "Version", "a_b", "aB"}), Type: t, Value: c}
	g.consts = append(g.consts, constInfo{fi, cd.Name, g.typeKey(t), c.Val})
	return cd
}

// constable: can a literal of this type be written (and digested by thriftgo)?
func (g *gen) constable(t *Type, depth int, inCont bool) bool {
	if t.Kind == Named && g.p.catOf(t) == 'c' && !g.cfg.TypedefContainerConst {
		return false
	}
	if inCont && g.p.catOf(t) == 's' && !g.cfg.StructLiteralInContainer {
		return false
	}
	d := g.p.deref(t)
	switch d.Kind {
	case Binary:
		return g.cfg.BinaryDefaults
	case List, Set:
		return g.cfg.ContainerConst && depth < 3 && g.constable(d.Elem, depth+1, true)
	case Map:
		if g.p.catOf(d.Key) == 's' || g.p.catOf(d.Key) == 'c' {
			return false
		}
		return g.cfg.ContainerConst && depth < 3 && g.constable(d.Key, depth+1, true) && g.constable(d.Elem, depth+1, true)
	case Named:
		if g.p.catOf(d) == 'e' {
			return true
		}
		if !g.cfg.StructLiterals || depth >= 2 {
			return false
		}
		st := g.p.Files[d.Named.File].strct(d.Named.Name)
		return st != nil
	}
	return true
}

func (g *gen) markDefaults(fi int, st *Struct) {
	hasDefault := false
	for _, f := range st.Fields {
		if !g.r.Chance(30) {
			continue
		}
		if st.Kind == 'u' && (hasDefault || !g.r.Chance(20)) {
			continue
		}
		if !g.constable(f.Type, 0, false) {
			continue
		}
		// no defaults on fields that take part in a recursion through this file's structs
		if g.p.catOf(f.Type) == 's' && g.reaches(f.Type, fi, st.Name, 0) {
			continue
		}
		g.will[f] = true
		hasDefault = true
	}
}

func (g *gen) defaults(fi int, st *Struct) {
	for _, f := range st.Fields {
		if g.will[f] {
			f.Default = g.constOf(fi, f.Type, 0, true)
		}
	}
}

// reaches: does type t (transitively through fields) contain struct (fi,name)?
func (g *gen) reaches(t *Type, fi int, name string, depth int) bool {
	if depth > 12 {
		return true
	}
	d := g.p.deref(t)
	switch d.Kind {
	case List, Set:
		return g.reaches(d.Elem, fi, name, depth+1)
	case Map:
		return g.reaches(d.Key, fi, name, depth+1) || g.reaches(d.Elem, fi, name, depth+1)
	case Named:
		st := g.p.Files[d.Named.File].strct(d.Named.Name)
		if st == nil {
			return false
		}
		if d.Named.File == fi && st.Name == name {
			return true
		}
		for _, f := range st.Fields {
			if g.reaches(f.Type, fi, name, depth+1) {
				return true
			}
		}
	}
	return false
}

func (g *gen) qualify(fi int, ref NamedRef) string {
	if ref.File == fi {
		return ref.Name
	}
	return g.p.Files[ref.File].Prefix() + "." + ref.Name
}

var niceDoubles = []string{"0.0", "1.0", "-1.0", "2.5", "-0.125", "3.14159", "100.25", ".5", "-.25", "+7.0", "123456.789", "0.1",
	"0.123456789012", "2.718281828459045", "16777217.0", "1.0000000000000002", "-1234567.890123"}
var expDoubles = []string{"1e10", "1.5e-3", "6.02E23", "-2.0e0", "1E+2"}
var niceStrings = []string{"", "a", "hello", "Hello World", "x_y", "0", "true", "a/b", "#tag", "αβ", "tab\there", "%d%s", "/* c */", "// c", "{}", "[1,2]"}

// constOf generates a constant expression of type t as seen from file fi. top: the expression is a field
// default or constant body (identifiers allowed).
func (g *gen) constOf(fi int, t *Type, depth int, top bool) *Const {
	// by identifier of a matching constant
	if g.cfg.ConstIdents && g.noIdent == 0 && g.r.Chance(20) &&
		(g.cfg.StructConstByIdent || g.p.catOf(t) != 's') && (g.cfg.BinaryConstIdents || g.p.deref(t).Kind != Binary) {
		key := g.typeKey(t)
		var cand []constInfo
		for _, c := range g.consts {
			if c.key == key && (c.file == fi || g.includes(fi, c.file)) {
				cand = append(cand, c)
			}
		}
		if len(cand) > 0 {
			c := cand[g.r.Intn(len(cand))]
			return &Const{Kind: CIdent, Text: g.qualify(fi, NamedRef{c.file, c.name}), Val: c.val.Clone()}
		}
	}
	d := g.p.deref(t)
	sep := []string{",", ",", ";", ""}[g.r.Intn(4)]
	switch d.Kind {
	case Bool:
		b := g.r.Bool()
		var txt string
		if g.cfg.BoolAsInt && g.r.Chance(35) {
			txt = map[bool]string{true: "1", false: "0"}[b]
			return &Const{Kind: CInt, Text: txt, Val: values.Bool(b)}
		}
		return &Const{Kind: CIdent, Text: map[bool]string{true: "true", false: "false"}[b], Val: values.Bool(b)}
	case Byte, I16, I32, I64:
		bits := map[Kind]uint{Byte: 8, I16: 16, I32: 32, I64: 64}[d.Kind]
		var v int64
		switch g.r.Intn(6) {
		case 0:
			v = 0
		case 1:
			v = int64(1)<<(bits-1) - 1
		case 2:
			v = -(int64(1) << (bits - 1))
			if bits == 64 {
				v++ // "-9223372036854775808" does not survive sign handling in every parser; keep -MaxInt64
			}
		case 3:
			v = -int64(g.r.Intn(100))
		default:
			v = int64(g.r.Intn(120))
		}
		txt := strconv.FormatInt(v, 10)
		if v >= 0 && g.r.Chance(15) {
			txt = "0x" + strconv.FormatInt(v, 16)
		}
		return &Const{Kind: CInt, Text: txt, Val: values.Int(v)}
	case Double:
		if g.cfg.IntForDouble && g.r.Chance(30) {
			v := int64(g.r.Intn(50)) - 10
			return &Const{Kind: CInt, Text: strconv.FormatInt(v, 10), Val: values.Double(math.Float64bits(float64(v)))}
		}
		txt := niceDoubles[g.r.Intn(len(niceDoubles))]
		if g.cfg.ExponentDoubles && g.r.Chance(30) {
			txt = expDoubles[g.r.Intn(len(expDoubles))]
		}
		fv, err := strconv.ParseFloat(txt, 64)
		if err != nil {
			panic(err)
		}
		return &Const{Kind: CDouble, Text: txt, Val: values.Double(math.Float64bits(fv))}
	case String, Binary:
		s := niceStrings[g.r.Intn(len(niceStrings))]
		q := byte('"')
		if g.r.Chance(30) {
			q = '\''
		}
		if g.cfg.StringEscapes && g.r.Chance(30) {
			s += []string{`\"`, `\'`, `\\`, `\n`, `'`, `"`}[g.r.Intn(6)]
		}
		return &Const{Kind: CString, Text: s, Quote: q, Val: values.Str(unescape(s, q))}
	case List, Set:
		n := g.r.Intn(4)
		c := &Const{Kind: CList, Sep: sep, Val: &values.Value{K: values.KList, E: []*values.Value{}}}
		if d.Kind == Set {
			c.Val.K = values.KSet
		}
		seen := map[string]bool{}
		for i := 0; i < n; i++ {
			e := g.constOf(fi, d.Elem, depth+1, false)
			if d.Kind == Set {
				if seen[e.Val.String()] {
					continue
				}
				seen[e.Val.String()] = true
			}
			c.Items = append(c.Items, e)
			c.Val.E = append(c.Val.E, e.Val)
		}
		return c
	case Map:
		n := g.r.Intn(4)
		c := &Const{Kind: CMap, Sep: sep, Val: &values.Value{K: values.KMap, E: []*values.Value{}}}
		seen := map[string]bool{}
		for i := 0; i < n; i++ {
			k := g.constOf(fi, d.Key, depth+1, false)
			ks := goKeyString(k.Val)
			if seen[ks] {
				continue
			}
			seen[ks] = true
			v := g.constOf(fi, d.Elem, depth+1, false)
			c.Items = append(c.Items, k, v)
			c.Val.E = append(c.Val.E, k.Val, v.Val)
		}
		return c
	case Named:
		f := g.p.Files[d.Named.File]
		if e := f.enum(d.Named.Name); e != nil {
			ev := e.Values[g.r.Intn(len(e.Values))]
			reachable := d.Named.File == fi || g.includes(fi, d.Named.File)
			if !reachable || g.noIdent > 0 || g.cfg.EnumByNumber && g.r.Chance(25) {
				return &Const{Kind: CInt, Text: strconv.FormatInt(ev.Value, 10), Val: values.Int(ev.Value)}
			}
			return &Const{Kind: CIdent, Text: g.qualify(fi, *d.Named) + "." + ev.Name, Val: values.Int(ev.Value)}
		}
		st := f.strct(d.Named.Name)
		c := &Const{Kind: CMap, Sep: sep, Val: &values.Value{K: values.KRecord}}
		if d.Named.File != fi && !g.cfg.CrossFileLiteralIdents {
			g.noIdent++
			defer func() { g.noIdent-- }()
		}
		set1 := false
		for _, fd := range st.Fields {
			z := g.zeroOfField(st, fd)
			take := g.r.Chance(50) && g.constable(fd.Type, depth+1, false) && !(st.Kind == 'u' && set1)
			if take && g.p.catOf(fd.Type) == 's' && g.reaches(fd.Type, d.Named.File, st.Name, 0) {
				take = false
			}
			if take && !g.cfg.OptionalEnumInLiteral && g.p.catOf(fd.Type) == 'e' && (fd.Req == Optional || st.Kind == 'u') && fd.Default == nil && !g.will[fd] {
				take = false
			}
			if take && !g.cfg.CrossFileLiteralForeignTypes && d.Named.File != fi && mentionsOtherFile(fd.Type, d.Named.File) {
				take = false
			}
			if !take {
				c.Val.E = append(c.Val.E, z)
				continue
			}
			set1 = true
			v := g.constOf(fi, fd.Type, depth+1, false)
			c.Items = append(c.Items, &Const{Kind: CString, Text: fd.Name, Quote: '"'}, v)
			c.Val.E = append(c.Val.E, v.Val)
		}
		return c
	}
	panic("idlgen: constOf")
}

func mentionsOtherFile(t *Type, file int) bool {
	switch t.Kind {
	case List, Set:
		return mentionsOtherFile(t.Elem, file)
	case Map:
		return mentionsOtherFile(t.Key, file) || mentionsOtherFile(t.Elem, file)
	case Named:
		return t.Named.File != file
	}
	return false
}

func (g *gen) includes(fi, k int) bool {
	for _, x := range g.p.Files[fi].Includes {
		if x == k {
			return true
		}
	}
	return false
}

// goKeyString: two map keys that Go considers equal must not both appear (0.0 and -0.0).
func goKeyString(v *values.Value) string {
	if v.K == values.KDouble && v.D == 1<<63 {
		return values.Double(0).String()
	}
	return v.String()
}

func unescape(s string, q byte) string {
	// thriftgo's Literal rule only knows \" and \' (kept verbatim by the parser; the Go backend decides what
	// to do with them). Without StringEscapes no backslash or quote is generated, so this is the identity.
	return s
}

func (g *gen) zeroOfField(st *Struct, fd *Field) *values.Value {
	rt := g.p.Resolve(fd.Type)
	req := fd.Req
	if st.Kind == 'u' {
		req = Optional
	}
	sf := &SField{Req: req, Type: rt}
	if fd.Default != nil || g.will[fd] {
		sf.Default = values.Nil() // only its presence matters for the Go shape
	}
	return sf.Zero()
}
