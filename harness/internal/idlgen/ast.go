// Package idlgen is the seeded, type-directed generator of abstract multi-file Thrift IDL programs
// (docs/BATCH.md §1): AST, Generate, Render (IDL text accepted by thriftgo) and Schema (the resolved,
// typedef-free view used by the codecs, the value generator and the Lean side).
package idlgen

import "verifharness/internal/values"

// Kind of an (unresolved) IDL type.
type Kind int

const (
	Bool Kind = iota
	Byte
	I16
	I32
	I64
	Double
	String
	Binary
	List
	Set
	Map
	Named
)

var baseNames = [...]string{"bool", "byte", "i16", "i32", "i64", "double", "string", "binary"}

// Type is an IDL type expression.
type Type struct {
	Kind      Kind
	Elem, Key *Type     // List/Set: Elem; Map: Key, Elem
	Named     *NamedRef // Kind == Named
}

// NamedRef refers to a Typedef, Enum or Struct of Program.Files[File].
type NamedRef struct {
	File int
	Name string
}

// Req is the requiredness written in the IDL.
type Req int

const (
	Default Req = iota
	Required
	Optional
)

func (r Req) Letter() string { return [...]string{"d", "r", "o"}[r] }

type Annotation struct{ Key, Value string }

type Field struct {
	ID          int16  // effective id (for implicit ids: what thriftgo's parser assigns, previous id + 1, first = 1)
	HasID       bool   // false = the id is not written in the IDL
	IDText      string // when non-empty and HasID: the id as written in the IDL (zero-padded decimal, hex); denotes ID
	Name        string
	Req         Req
	Type        *Type
	Default     *Const // may be nil
	Annotations []Annotation
}

type Typedef struct {
	Name string
	Type *Type
}

type EnumValue struct {
	Name     string
	Value    int64 // effective value
	HasValue bool  // false = implicit (previous + 1, first = 0)
}

type Enum struct {
	Name   string
	Values []EnumValue
}

// StructKind: 's' struct, 'u' union, 'e' exception.
type StructKind byte

type Struct struct {
	Kind   StructKind
	Name   string
	Fields []*Field
}

// ConstKind is the syntactic form of a constant expression.
type ConstKind int

const (
	CInt    ConstKind = iota // Text holds the literal (decimal or 0x…)
	CDouble                  // Text holds the literal
	CString                  // Text holds the raw content, Quote the quote character
	CIdent                   // Text holds the (possibly qualified) identifier
	CList                    // Items
	CMap                     // Items = k0 v0 k1 v1 …   (also struct literals: keys are CString field names)
)

// Const is a constant expression together with the value the generator means by it.
type Const struct {
	Kind  ConstKind
	Text  string
	Quote byte
	Sep   string // separator used between items when rendering ("," ";" or "")
	Items []*Const
	// Val is the Go-object value denoted by the expression in its context (type-directed); a struct literal
	// holds ALL fields of the struct, the ones not mentioned at their Go zero value ('n' or 0/""/false),
	// which is what thriftgo's `&T{…}` rendering gives.
	Val *values.Value
}

type ConstDef struct {
	Name  string
	Type  *Type
	Value *Const
}

type Function struct {
	Name   string
	Oneway bool
	Ret    *Type // nil = void
	Args   []*Field
	Throws []*Field
}

type Service struct {
	Name      string
	Extends   *NamedRef // may be nil
	Functions []*Function
}

type File struct {
	Path     string // relative, e.g. "a.thrift", "sub/base.thrift"
	GoNS     string // `namespace go x.y` ("" = none)
	Includes []int  // indexes into Program.Files
	Typedefs []*Typedef
	Enums    []*Enum
	Structs  []*Struct
	Consts   []*ConstDef
	Services []*Service
	// Order lists the definitions in the order they are rendered: pairs (kind, index) with kind one of
	// 't' 'e' 's' 'c' 'v'(service). Empty = typedefs, enums, structs, consts, services.
	Order []DefRef
}

type DefRef struct {
	Kind byte
	Idx  int
}

// Program is a set of IDL files; Files[0] is the main file, includes form a DAG.
type Program struct{ Files []*File }

// Prefix is the name by which an including file refers to f (base name without extension).
func (f *File) Prefix() string {
	p := f.Path
	for i := len(p) - 1; i >= 0; i-- {
		if p[i] == '/' {
			p = p[i+1:]
			break
		}
	}
	for i := len(p) - 1; i >= 0; i-- {
		if p[i] == '.' {
			return p[:i]
		}
	}
	return p
}

func (f *File) typedef(n string) *Typedef {
	for _, t := range f.Typedefs {
		if t.Name == n {
			return t
		}
	}
	return nil
}
func (f *File) enum(n string) *Enum {
	for _, t := range f.Enums {
		if t.Name == n {
			return t
		}
	}
	return nil
}
func (f *File) strct(n string) *Struct {
	for _, t := range f.Structs {
		if t.Name == n {
			return t
		}
	}
	return nil
}

// FieldByName finds a field.
func (s *Struct) FieldByName(n string) (int, *Field) {
	for i, f := range s.Fields {
		if f.Name == n {
			return i, f
		}
	}
	return -1, nil
}
