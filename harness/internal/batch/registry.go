package batch

import (
	"fmt"
	"go/ast"
	"go/parser"
	"go/token"
	"path"
	"path/filepath"
	"reflect"
	"sort"
	"strconv"
	"strings"

	"verifharness/internal/idlgen"
)

// goType is one struct type found in the generated code.
type goType struct {
	pkg, file, name string
	order           int    // position in the unit (file order, declaration order)
	ctor            string // New<name>
	literal         string // the "…" of WriteStructBegin("…") inside (*T).Write; "" if there is no Write
	hasWrite        bool
	fields          []goField
	methods         map[string]*ast.FuncDecl
	used            bool
}

type goField struct {
	goName string
	id     int16
	name   string
	req    string
}

// scan parses the generated files of a unit and lists its struct types.
func scanUnit(mod string, files []string) ([]*goType, error) {
	fset := token.NewFileSet()
	var out []*goType
	byKey := map[string]*goType{}
	type pending struct {
		key string
		fd  *ast.FuncDecl
	}
	var meths []pending
	ctors := map[string]string{} // pkg.Type -> ctor name
	for _, f := range files {
		if !strings.HasSuffix(f, ".go") {
			continue
		}
		af, err := parser.ParseFile(fset, filepath.Join(mod, f), nil, parser.SkipObjectResolution)
		if err != nil {
			return nil, err
		}
		pkg := "batch/" + path.Dir(f)
		for _, d := range af.Decls {
			switch d := d.(type) {
			case *ast.GenDecl:
				if d.Tok != token.TYPE {
					continue
				}
				for _, sp := range d.Specs {
					ts := sp.(*ast.TypeSpec)
					st, ok := ts.Type.(*ast.StructType)
					if !ok {
						continue
					}
					gt := &goType{pkg: pkg, file: f, name: ts.Name.Name, order: len(out), methods: map[string]*ast.FuncDecl{}}
					for _, fl := range st.Fields.List {
						if fl.Tag == nil || len(fl.Names) == 0 {
							continue
						}
						tag, err := strconv.Unquote(fl.Tag.Value)
						if err != nil {
							continue
						}
						tv, ok := reflect.StructTag(tag).Lookup("thrift")
						if !ok {
							continue
						}
						parts := strings.Split(tv, ",")
						if len(parts) < 2 {
							continue
						}
						id, err := strconv.Atoi(parts[1])
						if err != nil {
							continue
						}
						gf := goField{goName: fl.Names[0].Name, id: int16(id), name: parts[0]}
						if len(parts) > 2 {
							gf.req = parts[2]
						}
						gt.fields = append(gt.fields, gf)
					}
					out = append(out, gt)
					byKey[pkg+"."+gt.name] = gt
				}
			case *ast.FuncDecl:
				if d.Recv == nil {
					// func NewX() *X
					if d.Type.Params.NumFields() == 0 && d.Type.Results.NumFields() == 1 {
						if se, ok := d.Type.Results.List[0].Type.(*ast.StarExpr); ok {
							if id, ok := se.X.(*ast.Ident); ok && strings.HasPrefix(d.Name.Name, "New") {
								ctors[pkg+"."+id.Name] = d.Name.Name
							}
						}
					}
					continue
				}
				if len(d.Recv.List) != 1 {
					continue
				}
				se, ok := d.Recv.List[0].Type.(*ast.StarExpr)
				if !ok {
					continue
				}
				id, ok := se.X.(*ast.Ident)
				if !ok {
					continue
				}
				meths = append(meths, pending{pkg + "." + id.Name, d})
			}
		}
	}
	for _, m := range meths {
		if gt := byKey[m.key]; gt != nil {
			gt.methods[m.fd.Name.Name] = m.fd
		}
	}
	for k, c := range ctors {
		if gt := byKey[k]; gt != nil {
			gt.ctor = c
		}
	}
	for _, gt := range out {
		if w := gt.methods["Write"]; w != nil && w.Body != nil {
			gt.hasWrite = true
			ast.Inspect(w.Body, func(n ast.Node) bool {
				ce, ok := n.(*ast.CallExpr)
				if !ok {
					return true
				}
				if se, ok := ce.Fun.(*ast.SelectorExpr); ok && se.Sel.Name == "WriteStructBegin" && len(ce.Args) == 1 {
					if bl, ok := ce.Args[0].(*ast.BasicLit); ok && bl.Kind == token.STRING {
						if s, err := strconv.Unquote(bl.Value); err == nil {
							gt.literal = s
						}
					}
				}
				return true
			})
		}
	}
	return out, nil
}

// recvField reports whether the expression is `p.F` or `*p.F` for the receiver p; returns F.
func recvField(e ast.Expr, recv string) string {
	if st, ok := e.(*ast.StarExpr); ok {
		e = st.X
	}
	if pe, ok := e.(*ast.ParenExpr); ok {
		e = pe.X
	}
	se, ok := e.(*ast.SelectorExpr)
	if !ok {
		return ""
	}
	if id, ok := se.X.(*ast.Ident); ok && id.Name == recv {
		return se.Sel.Name
	}
	return ""
}

func recvName(fd *ast.FuncDecl) string {
	if len(fd.Recv.List[0].Names) == 0 {
		return ""
	}
	return fd.Recv.List[0].Names[0].Name
}

// accessor finds, for Go field F of type gt, the getter (a method without parameters with one result that
// returns p.F or *p.F) and the IsSet method (prefix IsSet, result bool, mentions p.F).
func (gt *goType) accessors(goField string) (getter, isset string) {
	names := make([]string, 0, len(gt.methods))
	for n := range gt.methods {
		names = append(names, n)
	}
	sort.Strings(names)
	for _, n := range names {
		fd := gt.methods[n]
		if fd.Body == nil || fd.Type.Params.NumFields() != 0 || fd.Type.Results.NumFields() != 1 {
			continue
		}
		recv := recvName(fd)
		if strings.HasPrefix(n, "IsSet") {
			hit := false
			ast.Inspect(fd.Body, func(x ast.Node) bool {
				if e, ok := x.(ast.Expr); ok && recvField(e, recv) == goField {
					hit = true
				}
				return !hit
			})
			if hit && isset == "" {
				isset = n
			}
			continue
		}
		if !strings.HasPrefix(n, "Get") {
			continue
		}
		hit := false
		ast.Inspect(fd.Body, func(x ast.Node) bool {
			if rs, ok := x.(*ast.ReturnStmt); ok && len(rs.Results) == 1 && recvField(rs.Results[0], recv) == goField {
				hit = true
			}
			return !hit
		})
		if hit && getter == "" {
			getter = n
		}
	}
	return
}

// predictedDir is where thriftgo puts the package of IDL file f (used only to prefer one candidate when
// several generated types carry the same IDL name and field ids).
func predictedDir(unitKey string, f *idlgen.File) string {
	if f.GoNS != "" {
		return unitKey + "/" + strings.ReplaceAll(f.GoNS, ".", "/")
	}
	return unitKey + "/" + f.Prefix()
}

func idsEqual(gt *goType, st *idlgen.SStruct) bool {
	if len(gt.fields) != len(st.Fields) {
		return false
	}
	have := map[int16]string{}
	for _, f := range gt.fields {
		have[f.id] = f.name
	}
	for _, f := range st.Fields {
		if n, ok := have[f.ID]; !ok || n != f.Name {
			return false
		}
	}
	return true
}

// discover fills u.Registry.
func (u *UnitInfo) discover(mod string, prog *idlgen.Program) {
	types, err := scanUnit(mod, u.Files)
	if err != nil {
		// files that do not parse are reported in ParseErrors already
		for i := range u.Schema.Structs {
			u.Registry = append(u.Registry, RegEntry{Sidx: i, Note: "scan: " + err.Error()})
		}
		return
	}
	for i, st := range u.Schema.Structs {
		e := RegEntry{Sidx: i}
		dir := predictedDir(u.Key, prog.Files[st.File])
		base := prog.Files[st.File].Prefix()
		var best *goType
		bestScore := -1
		n := 0
		for _, gt := range types {
			if gt.used || !gt.hasWrite || gt.literal != st.Name || gt.ctor == "" {
				continue
			}
			score := 0
			if idsEqual(gt, st) {
				score += 4
			}
			if path.Dir(gt.file) == dir {
				score += 2
			}
			if strings.TrimSuffix(path.Base(gt.file), ".go") == base {
				score++
			}
			n++
			if score > bestScore {
				best, bestScore = gt, score
			}
		}
		if best == nil {
			e.Note = fmt.Sprintf("no generated type with WriteStructBegin(%q)", st.Name)
			u.Registry = append(u.Registry, e)
			continue
		}
		if bestScore < 4 {
			e.Note = fmt.Sprintf("type %s.%s has WriteStructBegin(%q) but its thrift tags do not match the schema ids/names", best.pkg, best.name, st.Name)
		}
		best.used = true
		e.Found = true
		e.Pkg, e.File, e.GoType, e.Ctor = best.pkg, best.file, best.name, best.ctor
		e.Getter, e.IsSet, e.GoField, e.Tags = map[int16]string{}, map[int16]string{}, map[int16]string{}, map[int16][2]string{}
		for _, sf := range st.Fields {
			want := map[idlgen.Req][]string{idlgen.Required: {"required"}, idlgen.Optional: {"optional"}, idlgen.Default: {"", "default"}}[sf.Req]
			found := false
			for _, f := range best.fields {
				if f.id != sf.ID {
					continue
				}
				found = true
				if f.name != sf.Name {
					e.TagErrors = append(e.TagErrors, fmt.Sprintf("field %d: tag name %q, IDL name %q", sf.ID, f.name, sf.Name))
				}
				if f.req != want[0] && f.req != want[len(want)-1] {
					e.TagErrors = append(e.TagErrors, fmt.Sprintf("field %d: tag requiredness %q, schema %s", sf.ID, f.req, sf.Req.Letter()))
				}
			}
			if !found {
				e.TagErrors = append(e.TagErrors, fmt.Sprintf("field %d (%s): no Go field carries this id in its thrift tag", sf.ID, sf.Name))
			}
		}
		for _, f := range best.fields {
			e.GoField[f.id] = f.goName
			e.Tags[f.id] = [2]string{f.name, f.req}
			e.Getter[f.id], e.IsSet[f.id] = best.accessors(f.goName)
		}
		u.Registry = append(u.Registry, e)
	}
}
