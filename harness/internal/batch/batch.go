// Package batch generates Go code for many (IDL program, option set) units with the thriftgo built from the
// repo under test, compiles all of it plus one generic reflection driver in ONE go build, and runs op files
// through the driver (docs/BATCH.md §4).
package batch

import (
	"bufio"
	"bytes"
	_ "embed"
	"fmt"
	"go/parser"
	"go/token"
	"io"
	"os"
	"os/exec"
	"path/filepath"
	"regexp"
	"runtime"
	"sort"
	"strings"
	"sync"
	"time"

	"verifharness/internal/idlgen"
)

//go:embed drvsrc/main.go.txt
var driverSource string

// DriverSource returns the Go text of the generic driver (package main).
func DriverSource() string { return driverSource }

// Unit is one (program, backend, option set).
type Unit struct {
	Prog    *idlgen.Program
	Backend string   // "go" (default) | "fastgo"
	Options []string // e.g. "keep_unknown_fields", "naming_style=golint"
	Recurse bool     // pass -r
	Tag     string   // free text carried into UnitInfo
	NoSynth bool     // do not put the synthesized <fn>_args/<fn>_result structs into the schema
}

// RegEntry ties one schema struct to the Go type generated for it.
type RegEntry struct {
	Sidx      int
	Found     bool
	Pkg       string // import path, e.g. batch/u3/x/y/pa
	File      string // generated file, relative to the module root
	GoType    string
	Ctor      string              // "NewX"
	Getter    map[int16]string    // field id -> getter method name ("" if not found)
	IsSet     map[int16]string    // field id -> IsSet method name
	GoField   map[int16]string    // field id -> Go field name
	Tags      map[int16][2]string // field id -> {name, requiredness word in the thrift tag}
	Note      string              // why not found / ambiguity
	TagErrors []string            // disagreements between the thrift struct tags and the schema (name, requiredness)
}

// UnitInfo is what happened to one unit.
type UnitInfo struct {
	Index       int
	Key         string // "u<i>"
	Tag         string
	Backend     string
	Options     []string
	Schema      *idlgen.Schema
	IDLDir      string
	Cmd         []string
	Exit        int // thriftgo exit status (-1: could not run)
	Stderr      string
	Files       []string // generated files relative to the module root
	ParseErrors []string // go/parser failures, "file: message"
	BuildErrors []string // go build output lines attributed to this unit
	Registry    []RegEntry
	Linked      bool // the unit's packages are part of the driver binary
}

// OK: thriftgo accepted the unit, its output parses and compiles and every schema struct was found.
func (u *UnitInfo) OK() bool {
	if u.Exit != 0 || len(u.ParseErrors) > 0 || len(u.BuildErrors) > 0 || !u.Linked {
		return false
	}
	for _, e := range u.Registry {
		if !e.Found {
			return false
		}
	}
	return true
}

// PLineOptions are the option tokens of the P line: every option as k=v (bare options get =1).
func (u *UnitInfo) PLineOptions() []string {
	var out []string
	if u.Backend != "" && u.Backend != "go" {
		out = append(out, "backend="+u.Backend)
	}
	for _, o := range u.Options {
		if o == "" {
			continue
		}
		if !strings.Contains(o, "=") {
			o += "=1"
		} else if strings.HasSuffix(o, "=true") {
			o = strings.TrimSuffix(o, "true") + "1"
		} else if strings.HasSuffix(o, "=false") {
			o = strings.TrimSuffix(o, "false") + "0"
		}
		out = append(out, o)
	}
	return out
}

// SchemaLines are the P/S lines of the unit (BATCH.md §5).
func (u *UnitInfo) SchemaLines() []string { return u.Schema.Lines(u.Key, u.PLineOptions()) }

// Built is a compiled batch.
type Built struct {
	Dir          string // work dir
	Bin          string // driver binary ("" if the build failed)
	Thriftgo     string
	Units        []UnitInfo
	BuildOutput  string   // output of the last go build
	Unattributed []string // build output lines that belong to no unit (driver itself, module problems)
	Timing       map[string]time.Duration
	Rounds       int // number of go build invocations (failing units are dropped and the rest rebuilt)
}

var goEnv = []string{"GOFLAGS=-mod=mod", "GOPROXY=off", "GOSUMDB=off", "GOTOOLCHAIN=local"}

func command(dir string, name string, args ...string) *exec.Cmd {
	c := exec.Command(name, args...)
	c.Dir = dir
	c.Env = append(os.Environ(), goEnv...)
	return c
}

// BuildThriftgo builds the thriftgo binary of repo into work/thriftgo.
func BuildThriftgo(work, repo string) (string, error) {
	bin := filepath.Join(work, "thriftgo")
	c := command(repo, "go", "build", "-o", bin, ".")
	if out, err := c.CombinedOutput(); err != nil {
		return "", fmt.Errorf("go build thriftgo in %s: %v\n%s", repo, err, out)
	}
	return bin, nil
}

// Build generates and compiles the batch. extraDriverFiles (name → Go source of package main) are added to
// the driver; they may register ops in `extraOps`. A unit that thriftgo rejects, whose output does not parse
// or does not compile is recorded in its UnitInfo and left out of the driver; Build only fails when nothing
// can be built at all (environment problems).
func Build(work, repo string, units []Unit, extraDriverFiles map[string]string) (*Built, error) {
	b := &Built{Dir: work, Timing: map[string]time.Duration{}}
	if err := os.MkdirAll(work, 0o755); err != nil {
		return nil, err
	}
	repo, err := filepath.Abs(repo)
	if err != nil {
		return nil, err
	}
	t0 := time.Now()
	tg, err := BuildThriftgo(work, repo)
	if err != nil {
		return nil, err
	}
	b.Thriftgo = tg
	b.Timing["thriftgo_build"] = time.Since(t0)

	mod := filepath.Join(work, "mod")
	if err := os.MkdirAll(filepath.Join(mod, "driver"), 0o755); err != nil {
		return nil, err
	}
	gomod := "module batch\n\ngo 1.20\n\nrequire github.com/apache/thrift v0.13.0\nrequire github.com/cloudwego/gopkg v0.2.0\nrequire github.com/cloudwego/thriftgo v0.0.0\n\nreplace github.com/cloudwego/thriftgo => " + repo + "\n"
	if err := os.WriteFile(filepath.Join(mod, "go.mod"), []byte(gomod), 0o644); err != nil {
		return nil, err
	}
	if sum, err := os.ReadFile(filepath.Join(repo, "go.sum")); err == nil {
		os.WriteFile(filepath.Join(mod, "go.sum"), sum, 0o644)
	}

	// ---- generate (parallel)
	t0 = time.Now()
	b.Units = make([]UnitInfo, len(units))
	var wg sync.WaitGroup
	sem := make(chan struct{}, runtime.NumCPU())
	for i := range units {
		wg.Add(1)
		go func(i int) {
			defer wg.Done()
			sem <- struct{}{}
			defer func() { <-sem }()
			b.generate(i, &units[i])
		}(i)
	}
	wg.Wait()
	b.Timing["generate"] = time.Since(t0)

	// ---- registry
	t0 = time.Now()
	for i := range b.Units {
		u := &b.Units[i]
		if u.Exit == 0 {
			u.discover(mod, units[i].Prog)
		}
	}
	b.Timing["registry"] = time.Since(t0)

	// ---- driver + one go build (failing units dropped, then rebuilt)
	if err := os.WriteFile(filepath.Join(mod, "driver", "main.go"), []byte(driverSource), 0o644); err != nil {
		return nil, err
	}
	for name, src := range extraDriverFiles {
		if err := os.WriteFile(filepath.Join(mod, "driver", name), []byte(src), 0o644); err != nil {
			return nil, err
		}
	}
	t0 = time.Now()
	include := map[int]bool{}
	for i := range b.Units {
		u := &b.Units[i]
		if u.Exit == 0 && len(u.ParseErrors) == 0 {
			include[i] = true
		}
	}
	bin := filepath.Join(work, "driver.bin")
	for round := 0; round < 6; round++ {
		b.Rounds++
		if err := os.WriteFile(filepath.Join(mod, "driver", "registry.go"), []byte(b.registrySource(include)), 0o644); err != nil {
			return nil, err
		}
		c := command(mod, "go", "build", "-o", bin, "./driver")
		out, err := c.CombinedOutput()
		b.BuildOutput = string(out)
		if err == nil {
			b.Bin = bin
			break
		}
		dropped := false
		b.Unattributed = nil
		re := regexp.MustCompile(`(?:^|[\s/])u(\d+)/`)
		for _, ln := range strings.Split(string(out), "\n") {
			if strings.TrimSpace(ln) == "" || strings.HasPrefix(ln, "#") {
				continue
			}
			m := re.FindStringSubmatch(ln)
			if m == nil {
				b.Unattributed = append(b.Unattributed, ln)
				continue
			}
			var k int
			fmt.Sscan(m[1], &k)
			if k < len(b.Units) {
				b.Units[k].BuildErrors = append(b.Units[k].BuildErrors, ln)
				if include[k] {
					delete(include, k)
					dropped = true
				}
			}
		}
		if !dropped {
			return b, fmt.Errorf("go build of the driver failed and no unit is to blame:\n%s", out)
		}
	}
	b.Timing["go_build"] = time.Since(t0)
	if b.Bin != "" {
		for i := range include {
			b.Units[i].Linked = true
		}
	}
	return b, nil
}

func (b *Built) generate(i int, u *Unit) {
	info := &b.Units[i]
	info.Index, info.Key, info.Tag = i, fmt.Sprintf("u%d", i), u.Tag
	info.Backend = u.Backend
	if info.Backend == "" {
		info.Backend = "go"
	}
	info.Options = append([]string{}, u.Options...)
	info.Schema = u.Prog.SchemaWith(!u.NoSynth)
	info.IDLDir = filepath.Join(b.Dir, "idl", info.Key)
	info.Exit = -1
	for path, text := range u.Prog.Render() {
		full := filepath.Join(info.IDLDir, filepath.FromSlash(path))
		if err := os.MkdirAll(filepath.Dir(full), 0o755); err != nil {
			info.Stderr = err.Error()
			return
		}
		if err := os.WriteFile(full, []byte(text), 0o644); err != nil {
			info.Stderr = err.Error()
			return
		}
	}
	opts := append(append([]string{}, u.Options...), "package_prefix=batch/"+info.Key)
	out := filepath.Join(b.Dir, "mod", info.Key)
	args := []string{}
	if u.Recurse {
		args = append(args, "-r")
	}
	args = append(args, "-g", info.Backend+":"+strings.Join(opts, ","), "-o", out, u.Prog.Files[0].Path)
	info.Cmd = append([]string{"thriftgo"}, args...)
	c := exec.Command(b.Thriftgo, args...)
	c.Dir = info.IDLDir
	var stderr bytes.Buffer
	c.Stderr = &stderr
	c.Stdout = &stderr
	err := c.Run()
	info.Stderr = stderr.String()
	switch e := err.(type) {
	case nil:
		info.Exit = 0
	case *exec.ExitError:
		info.Exit = e.ExitCode()
	default:
		info.Stderr += "\n" + err.Error()
		return
	}
	mod := filepath.Join(b.Dir, "mod")
	filepath.Walk(out, func(p string, fi os.FileInfo, err error) error {
		if err == nil && !fi.IsDir() {
			rel, _ := filepath.Rel(mod, p)
			info.Files = append(info.Files, filepath.ToSlash(rel))
		}
		return nil
	})
	sort.Strings(info.Files)
	if info.Exit != 0 {
		return
	}
	fset := token.NewFileSet()
	for _, f := range info.Files {
		if !strings.HasSuffix(f, ".go") {
			continue
		}
		if _, err := parser.ParseFile(fset, filepath.Join(mod, f), nil, parser.SkipObjectResolution); err != nil {
			info.ParseErrors = append(info.ParseErrors, f+": "+err.Error())
		}
	}
}

// registrySource prints driver/registry.go for the included units.
func (b *Built) registrySource(include map[int]bool) string {
	var imp, body strings.Builder
	alias := map[string]string{}
	for i := range b.Units {
		u := &b.Units[i]
		if !include[i] {
			continue
		}
		lines := u.Schema.Lines(u.Key, nil)
		fmt.Fprintf(&body, "\tregSchema(%q, %q)\n", u.Key, strings.Join(lines[1:], "\n"))
		for _, e := range u.Registry {
			if !e.Found {
				continue
			}
			a, ok := alias[e.Pkg]
			if !ok {
				a = fmt.Sprintf("p%d", len(alias))
				alias[e.Pkg] = a
				fmt.Fprintf(&imp, "\t%s %q\n", a, e.Pkg)
			}
			fmt.Fprintf(&body, "\treg(%q, %d, func() interface{} { return %s.%s() }, map[int16]accessors{", u.Key, e.Sidx, a, e.Ctor)
			ids := make([]int, 0, len(e.Getter))
			for id := range e.GoField {
				ids = append(ids, int(id))
			}
			sort.Ints(ids)
			for _, id := range ids {
				fmt.Fprintf(&body, "%d: {%q, %q}, ", id, e.Getter[int16(id)], e.IsSet[int16(id)])
			}
			body.WriteString("})\n")
		}
	}
	var sb strings.Builder
	sb.WriteString("// Code generated by verifharness/internal/batch. DO NOT EDIT.\npackage main\n\n")
	if imp.Len() > 0 {
		sb.WriteString("import (\n" + imp.String() + ")\n\n")
	}
	sb.WriteString("func init() {\n" + body.String() + "}\n")
	return sb.String()
}

// Run feeds the op lines of opsPath to the driver and writes one answer line per op line to outPath.
// If the driver dies (fatal error, os.Exit in generated code, out of memory) the op it died on is answered
// `crash` and a fresh driver continues with the next line.
func (b *Built) Run(opsPath, outPath string) error {
	if b.Bin == "" {
		return fmt.Errorf("batch: no driver binary")
	}
	data, err := os.ReadFile(opsPath)
	if err != nil {
		return err
	}
	lines := strings.Split(strings.TrimRight(string(data), "\n"), "\n")
	if len(data) == 0 {
		lines = nil
	}
	answers, err := b.RunLines(lines)
	if err != nil {
		return err
	}
	var sb strings.Builder
	for _, a := range answers {
		sb.WriteString(a)
		sb.WriteByte('\n')
	}
	return os.WriteFile(outPath, []byte(sb.String()), 0o644)
}

// RunLines is Run on in-memory lines.
func (b *Built) RunLines(lines []string) ([]string, error) {
	if b.Bin == "" {
		return nil, fmt.Errorf("batch: no driver binary")
	}
	answers := make([]string, 0, len(lines))
	crashes := 0
	for len(answers) < len(lines) {
		got, err := b.runOnce(lines[len(answers):])
		answers = append(answers, got...)
		if len(answers) < len(lines) {
			// the driver died while working on lines[len(answers)]
			answers = append(answers, "crash")
			crashes++
			if crashes > 50 {
				return answers, fmt.Errorf("batch: driver crashed %d times, giving up (last error: %v)", crashes, err)
			}
		}
	}
	return answers, nil
}

func (b *Built) runOnce(lines []string) ([]string, error) {
	c := exec.Command(b.Bin)
	c.Dir = b.Dir
	stdin, err := c.StdinPipe()
	if err != nil {
		return nil, err
	}
	stdout, err := c.StdoutPipe()
	if err != nil {
		return nil, err
	}
	c.Stderr = io.Discard
	if os.Getenv("BATCH_DRIVER_DEBUG") != "" {
		c.Stderr = os.Stderr
	}
	if err := c.Start(); err != nil {
		return nil, err
	}
	go func() {
		w := bufio.NewWriterSize(stdin, 1<<20)
		for _, l := range lines {
			if _, err := w.WriteString(l); err != nil {
				break
			}
			if err := w.WriteByte('\n'); err != nil {
				break
			}
		}
		w.Flush()
		stdin.Close()
	}()
	var got []string
	r := bufio.NewReaderSize(stdout, 1<<20)
	for len(got) < len(lines) {
		s, err := r.ReadString('\n')
		if err != nil {
			break
		}
		got = append(got, strings.TrimRight(s, "\n"))
	}
	io.Copy(io.Discard, r)
	err = c.Wait()
	return got, err
}

// Check runs the driver's registry self check (`driver -check`).
func (b *Built) Check() (string, error) {
	if b.Bin == "" {
		return "", fmt.Errorf("batch: no driver binary")
	}
	out, err := exec.Command(b.Bin, "-check").CombinedOutput()
	return string(out), err
}

// Vet runs `go vet` on the packages of one unit (C01); returns the output ("" = clean).
func (b *Built) Vet(unit int) string {
	c := command(filepath.Join(b.Dir, "mod"), "go", "vet", fmt.Sprintf("./u%d/...", unit))
	out, err := c.CombinedOutput()
	if err == nil {
		return ""
	}
	return string(out)
}

// Summary is a short human readable account of the batch.
func (b *Built) Summary() string {
	var sb strings.Builder
	ok := 0
	for i := range b.Units {
		if b.Units[i].OK() {
			ok++
		}
	}
	fmt.Fprintf(&sb, "batch: %d units, %d ok, %d go build round(s)", len(b.Units), ok, b.Rounds)
	keys := make([]string, 0, len(b.Timing))
	for k := range b.Timing {
		keys = append(keys, k)
	}
	sort.Strings(keys)
	for _, k := range keys {
		fmt.Fprintf(&sb, ", %s %.1fs", k, b.Timing[k].Seconds())
	}
	return sb.String()
}
