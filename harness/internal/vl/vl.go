// Package vl holds what every harness command shares: the VL line format (hex strings),
// a deterministic PRNG, Lean literal printers and the files a harness run hands to bin/check.
package vl

import (
	"bufio"
	"crypto/sha256"
	"encoding/hex"
	"encoding/json"
	"fmt"
	"os"
	"path/filepath"
	"sort"
	"strings"
)

// Hex encodes a Go string byte-wise; "-" is the empty string.
func Hex(s string) string {
	if s == "" {
		return "-"
	}
	return hex.EncodeToString([]byte(s))
}

func UnHex(s string) string {
	if s == "-" {
		return ""
	}
	b, err := hex.DecodeString(s)
	if err != nil {
		panic(err)
	}
	return string(b)
}

func B(b bool) string {
	if b {
		return "1"
	}
	return "0"
}

// LeanBytes prints a Go string as a Lean `List Nat` literal.
func LeanBytes(s string) string {
	if s == "" {
		return "([] : List Nat)"
	}
	parts := make([]string, len(s))
	for i := 0; i < len(s); i++ {
		parts[i] = fmt.Sprint(s[i])
	}
	return "[" + strings.Join(parts, ", ") + "]"
}

func LeanBool(b bool) string {
	if b {
		return "true"
	}
	return "false"
}

// Rng is splitmix64: every random choice of a run derives from VERIF_SEED.
type Rng struct{ s uint64 }

// NewRng scrambles the seed first, so that NewRng(s) and NewRng(s+1) are unrelated streams
// (plain splitmix64 would make them the same stream shifted by one draw).
func NewRng(seed uint64) *Rng {
	z := seed + 0x9E3779B97F4A7C15
	z = (z ^ (z >> 30)) * 0xBF58476D1CE4E5B9
	z = (z ^ (z >> 27)) * 0x94D049BB133111EB
	z ^= z >> 31
	return &Rng{s: z*0x9E3779B97F4A7C15 + 0x1234567}
}
func (r *Rng) U64() uint64 {
	r.s += 0x9E3779B97F4A7C15
	z := r.s
	z = (z ^ (z >> 30)) * 0xBF58476D1CE4E5B9
	z = (z ^ (z >> 27)) * 0x94D049BB133111EB
	return z ^ (z >> 31)
}
func (r *Rng) Intn(n int) int {
	if n <= 0 {
		return 0
	}
	return int(r.U64() % uint64(n))
}
func (r *Rng) Bool() bool        { return r.U64()&1 == 1 }
func (r *Rng) Chance(p int) bool { return r.Intn(100) < p }
func (r *Rng) Pick(xs []string) string {
	return xs[r.Intn(len(xs))]
}

// Out collects what one harness run hands to bin/check.
type Out struct {
	Dir      string
	ops      *bufio.Writer
	impl     *bufio.Writer
	files    []*os.File
	Oracle   []OracleFail
	Stats    map[string]int
	Samples  []interface{}
	Evals    int
	distinct map[[32]byte]bool
	NonTriv  int
}

// OracleFail is one concrete input on which the property itself fails on the implementation.
type OracleFail struct {
	Key      string      `json:"key"`
	What     string      `json:"what"`
	Input    interface{} `json:"input"`
	Expected interface{} `json:"expected"`
	Observed interface{} `json:"observed"`
}

func NewOut(dir string) *Out {
	o := &Out{Dir: dir, Stats: map[string]int{}, distinct: map[[32]byte]bool{}}
	f1, err := os.Create(filepath.Join(dir, "ops.txt"))
	if err != nil {
		panic(err)
	}
	f2, err := os.Create(filepath.Join(dir, "impl.txt"))
	if err != nil {
		panic(err)
	}
	o.files = []*os.File{f1, f2}
	o.ops = bufio.NewWriterSize(f1, 1<<20)
	o.impl = bufio.NewWriterSize(f2, 1<<20)
	return o
}

// Case records one correspondence case: the line sent to the model and the implementation's answer.
// nontrivial follows the property's rule; distinctness is by sha256 of the op line.
func (o *Out) Case(op, impl string, nontrivial bool) {
	o.ops.WriteString(op)
	o.ops.WriteByte('\n')
	o.impl.WriteString(impl)
	o.impl.WriteByte('\n')
	o.Evals++
	h := sha256.Sum256([]byte(op))
	if !o.distinct[h] {
		o.distinct[h] = true
		if nontrivial {
			o.NonTriv++
		}
	}
}

func (o *Out) Count(k string) { o.Stats[k]++ }

func (o *Out) Sample(v interface{}) {
	if len(o.Samples) < 8 {
		o.Samples = append(o.Samples, v)
	}
}

func (o *Out) Fail(f OracleFail) {
	for _, g := range o.Oracle {
		if g.Key == f.Key {
			return
		}
	}
	o.Oracle = append(o.Oracle, f)
}

func (o *Out) Close() {
	o.ops.Flush()
	o.impl.Flush()
	for _, f := range o.files {
		f.Close()
	}
	keys := make([]string, 0, len(o.Stats))
	for k := range o.Stats {
		keys = append(keys, k)
	}
	sort.Strings(keys)
	st := map[string]interface{}{
		"evaluations":         o.Evals,
		"distinct":            len(o.distinct),
		"distinct_nontrivial": o.NonTriv,
		"distribution":        o.Stats,
		"samples":             o.Samples,
		"oracle_failures":     o.Oracle,
	}
	b, _ := json.MarshalIndent(st, "", " ")
	if err := os.WriteFile(filepath.Join(o.Dir, "stats.json"), b, 0o644); err != nil {
		panic(err)
	}
}
