// Package valgen is the type-directed generator of Values for the struct-likes of a Schema
// (docs/BATCH.md §2) with explicit boundary classes: nil/empty containers, unset optionals, value =
// declared default, integer extremes, NaN/±inf/−0 bit patterns, non-UTF8 bytes, depth 1–6, recursion.
package valgen

import (
	"math"

	"verifharness/internal/idlgen"
	"verifharness/internal/refcodec"
	"verifharness/internal/values"
	"verifharness/internal/vl"
)

// Config tunes the generator. The zero value is usable (see defaults in Gen).
type Config struct {
	MaxElems       int          // container size bound (default 4)
	Budget         int          // node budget per value (default 400); when used up containers are empty, optionals unset
	DupSets        bool         // sets may repeat an element (generated Write refuses them under validate_set)
	NilElems       bool         // nil struct pointers / nil []byte inside containers (not representable with value_type_in_container)
	NaNKeys        bool         // NaN as map key / set element
	NoNilRequired  bool         // never leave a non-optional struct field nil when the target has required fields
	UnionAnyCount  bool         // unions with 0 or ≥2 members set (default: exactly one)
	NilUnions      bool         // leave non-optional union-typed fields nil (the generated Write panics on them, see BATCH-notes)
	EnumOutOfRange bool         // enum values outside int32
	Count          func(string) // distribution sink (vl.Out.Count), may be nil
}

type gen struct {
	r      *vl.Rng
	s      *idlgen.Schema
	cfg    Config
	budget int
	max    int
}

// Gen generates a record for Schema struct sidx; containers/records nest at most `depth` levels below the
// top record (1..6).
func Gen(r *vl.Rng, s *idlgen.Schema, sidx int, depth int, cfg Config) *values.Value {
	if cfg.MaxElems == 0 {
		cfg.MaxElems = 4
	}
	if cfg.Budget == 0 {
		cfg.Budget = 400
	}
	if depth < 1 {
		depth = 1
	}
	g := &gen{r: r, s: s, cfg: cfg, budget: cfg.Budget, max: depth}
	return g.record(sidx, 0)
}

func (g *gen) count(k string) {
	if g.cfg.Count != nil {
		g.cfg.Count("val." + k)
	}
}

func (g *gen) record(sidx int, depth int) *values.Value {
	st := g.s.Structs[sidx]
	rec := &values.Value{K: values.KRecord, E: make([]*values.Value, len(st.Fields))}
	g.budget--
	one := -1
	if st.Kind == 'u' && len(st.Fields) > 0 {
		one = g.r.Intn(len(st.Fields))
		if depth >= g.max || g.budget <= 0 {
			// prefer a member that needs no further nesting
			for try := 0; try < 8 && st.Fields[one].Type.Kind == idlgen.RStruct; try++ {
				one = g.r.Intn(len(st.Fields))
			}
		}
		if g.cfg.UnionAnyCount && g.r.Chance(30) {
			one = -2 // free for all
			g.count("union.any")
		}
	}
	for i, f := range st.Fields {
		if st.Kind == 'u' && one != -2 {
			if i == one {
				v := g.value(f.Type, depth+1, false)
				if v.IsNil() && f.Type.Kind == idlgen.RStruct {
					v = g.minimal(f.Type.Sidx, 0) // a set member must be non-nil
				}
				rec.E[i] = v
			} else if f.Nillable() {
				rec.E[i] = values.Nil()
			} else {
				rec.E[i] = f.Default.Clone() // a defaulted base member is "unset" iff it holds the default
			}
			continue
		}
		rec.E[i] = g.field(f, depth)
	}
	return rec
}

// minimal is the smallest record that the generated Write digests without panicking: optional fields unset,
// base fields zero, containers nil, struct pointers nil -- except non-optional union-typed fields, which get
// a minimal union (a nil union pointer makes CountSetFields dereference nil).
func (g *gen) minimal(sidx int, guard int) *values.Value {
	st := g.s.Structs[sidx]
	rec := st.Zero()
	if st.Kind == 'u' {
		// set exactly one member, preferring one without nesting
		pick := -1
		for i, f := range st.Fields {
			if f.Type.Kind != idlgen.RStruct {
				pick = i
				break
			}
		}
		if pick < 0 && len(st.Fields) > 0 && guard < 6 {
			pick = 0
		}
		for i, f := range st.Fields {
			switch {
			case i == pick && f.Type.Kind == idlgen.RStruct:
				rec.E[i] = g.minimal(f.Type.Sidx, guard+1)
			case i == pick && f.Type.IsContainer():
				rec.E[i] = g.emptyContainer(f.Type)
			case i == pick:
				rec.E[i] = g.value(f.Type, g.max+1, false)
			case !f.Nillable():
				rec.E[i] = f.Default.Clone()
			}
		}
		return rec
	}
	for i, f := range st.Fields {
		if f.Req != idlgen.Optional && f.Type.Kind == idlgen.RStruct && g.s.Structs[f.Type.Sidx].Kind == 'u' && !g.cfg.NilUnions && guard < 6 {
			rec.E[i] = g.minimal(f.Type.Sidx, guard+1)
		}
	}
	return rec
}

func (g *gen) emptyContainer(t *idlgen.RType) *values.Value {
	switch t.Kind {
	case idlgen.RSet:
		return &values.Value{K: values.KSet, E: []*values.Value{}}
	case idlgen.RMap:
		return &values.Value{K: values.KMap, E: []*values.Value{}}
	}
	return &values.Value{K: values.KList, E: []*values.Value{}}
}

func (g *gen) isUnion(t *idlgen.RType) bool {
	return t.Kind == idlgen.RStruct && g.s.Structs[t.Sidx].Kind == 'u'
}

func (g *gen) field(f *idlgen.SField, depth int) *values.Value {
	nillable := f.Nillable()
	if f.Req == idlgen.Optional && nillable && (g.r.Chance(30) || g.budget <= 0) {
		g.count("field.unset")
		return values.Nil()
	}
	if f.Default != nil && g.r.Chance(25) {
		g.count("field.eq_default")
		return f.Default.Clone()
	}
	if f.Req != idlgen.Optional && nillable && g.r.Chance(10) {
		if f.Type.Kind == idlgen.RStruct && g.cfg.NoNilRequired && g.requiredInside(f.Type.Sidx, 0) {
			// fall through to a real value
		} else if g.isUnion(f.Type) && !g.cfg.NilUnions {
			// fall through: a nil union in a non-optional field makes the generated Write panic
		} else {
			g.count("field.nil_nonoptional")
			return values.Nil()
		}
	}
	v := g.value(f.Type, depth+1, false)
	if v.IsNil() && !nillable {
		return idlgen.ZeroOf(f.Type)
	}
	if v.IsNil() && f.Req != idlgen.Optional && g.isUnion(f.Type) && !g.cfg.NilUnions {
		return g.minimal(f.Type.Sidx, 0)
	}
	return v
}

func (g *gen) requiredInside(sidx int, d int) bool {
	if d > 8 {
		return false
	}
	return g.s.Structs[sidx].HasRequired()
}

var intExtremes = map[idlgen.RKind][]int64{
	idlgen.RByte: {0, 1, -1, 127, -128},
	idlgen.RI16:  {0, 1, -1, 32767, -32768, 255, 256},
	idlgen.RI32:  {0, 1, -1, math.MaxInt32, math.MinInt32, 65535, 65536},
	idlgen.RI64:  {0, 1, -1, math.MaxInt64, math.MinInt64, math.MaxInt32 + 1, math.MinInt32 - 1},
}

var doubleBits = []uint64{
	0, 1 << 63, // +0 -0
	0x7ff0000000000000, 0xfff0000000000000, // ±inf
	0x7ff8000000000000, 0xfff8000000000001, 0x7ff0000000000001, // NaNs (quiet, negative quiet with payload, signalling)
	1, 0x7fefffffffffffff, 0x0010000000000000, // min subnormal, max, min normal
	0x3ff0000000000000, 0xbff0000000000000, 0x4004000000000000, // 1 -1 2.5
}

var byteStrings = [][]byte{
	{}, []byte("a"), []byte("hello"), []byte("héllo wörld"), []byte("日本語"), {0xff, 0xfe, 0x00, 0x80}, {0x00}, {0xc3, 0x28},
	[]byte("line\nbreak\ttab\"quote\\"), {0xed, 0xa0, 0x80},
}

func isNaN(bits uint64) bool {
	return bits&0x7ff0000000000000 == 0x7ff0000000000000 && bits&0x000fffffffffffff != 0
}

// value generates a value for a non-pointer slot of type t (container element, map key, or the payload of a
// field). inKey: the value is a map key or set element (Go equality matters).
func (g *gen) value(t *idlgen.RType, depth int, inKey bool) *values.Value {
	g.budget--
	switch t.Kind {
	case idlgen.RBool:
		return values.Bool(g.r.Bool())
	case idlgen.RByte, idlgen.RI16, idlgen.RI32, idlgen.RI64:
		ex := intExtremes[t.Kind]
		if g.r.Chance(45) {
			g.count("int.extreme")
			return values.Int(ex[g.r.Intn(len(ex))])
		}
		bits := map[idlgen.RKind]uint{idlgen.RByte: 8, idlgen.RI16: 16, idlgen.RI32: 32, idlgen.RI64: 64}[t.Kind]
		u := g.r.U64()
		if g.r.Bool() {
			u &= 0xff // small
		}
		return values.Int(int64(u<<(64-bits)) >> (64 - bits))
	case idlgen.REnum:
		if len(t.Enum.Values) > 0 && g.r.Chance(70) {
			return values.Int(t.Enum.Values[g.r.Intn(len(t.Enum.Values))])
		}
		g.count("enum.undeclared")
		if g.cfg.EnumOutOfRange && g.r.Chance(20) {
			return values.Int([]int64{math.MaxInt32 + 1, math.MinInt32 - 1, math.MaxInt64}[g.r.Intn(3)])
		}
		ex := intExtremes[idlgen.RI32]
		if g.r.Bool() {
			return values.Int(ex[g.r.Intn(len(ex))])
		}
		return values.Int(int64(int32(g.r.U64())))
	case idlgen.RDouble:
		for {
			var b uint64
			if g.r.Chance(60) {
				b = doubleBits[g.r.Intn(len(doubleBits))]
			} else {
				b = g.r.U64()
			}
			if inKey && isNaN(b) && !g.cfg.NaNKeys {
				continue
			}
			if isNaN(b) {
				g.count("double.nan")
			}
			return values.Double(b)
		}
	case idlgen.RString, idlgen.RBinary:
		if g.r.Chance(8) {
			n := 100 + g.r.Intn(300)
			x := make([]byte, n)
			for i := range x {
				x[i] = byte(g.r.U64())
			}
			g.count("bytes.long")
			return values.Bytes(x)
		}
		x := byteStrings[g.r.Intn(len(byteStrings))]
		if len(x) == 0 {
			g.count("bytes.empty")
		}
		return values.Bytes(x)
	case idlgen.RList, idlgen.RSet:
		k := byte(values.KList)
		if t.Kind == idlgen.RSet {
			k = values.KSet
		}
		out := &values.Value{K: k, E: []*values.Value{}}
		n := g.size(t.Elem, depth)
		seen := map[string]bool{}
		for i := 0; i < n; i++ {
			e := g.elem(t.Elem, depth, t.Kind == idlgen.RSet)
			if t.Kind == idlgen.RSet {
				ks := goKey(e)
				if seen[ks] {
					if !g.cfg.DupSets {
						continue
					}
					g.count("set.dup")
				}
				seen[ks] = true
			}
			out.E = append(out.E, e)
		}
		if t.Kind == idlgen.RSet && g.cfg.DupSets && len(out.E) > 0 && g.r.Chance(30) {
			out.E = append(out.E, out.E[g.r.Intn(len(out.E))].Clone())
			g.count("set.dup")
		}
		if len(out.E) == 0 {
			g.count("container.empty")
		}
		return out
	case idlgen.RMap:
		out := &values.Value{K: values.KMap, E: []*values.Value{}}
		n := g.size(t.Elem, depth)
		if m := g.size(t.Key, depth); m < n {
			n = m
		}
		seen := map[string]bool{}
		for i := 0; i < n; i++ {
			k := g.elem(t.Key, depth, true)
			if k.IsNil() {
				continue
			}
			ks := goKey(k)
			if seen[ks] {
				continue
			}
			seen[ks] = true
			out.E = append(out.E, k, g.elem(t.Elem, depth, false))
			if t.Key.Kind == idlgen.RStruct && len(g.s.Structs[t.Key.Sidx].Fields) == 0 {
				// a struct without fields may be zero-size in Go: pointers to distinct zero-size objects may or may
				// not be equal (unspecified), so map[*Empty] may collapse its keys. At most one entry.
				g.count("map.zero-size-struct-key.capped")
				break
			}
		}
		if len(out.E) == 0 {
			g.count("container.empty")
		}
		return out
	case idlgen.RStruct:
		if depth > g.max || g.budget <= 0 {
			return values.Nil()
		}
		return g.record(t.Sidx, depth)
	}
	panic("valgen: bad kind")
}

// size picks the element count of a container whose elements have type et.
func (g *gen) size(et *idlgen.RType, depth int) int {
	if g.budget <= 0 {
		return 0
	}
	if (et.Kind == idlgen.RStruct || et.IsContainer()) && depth >= g.max {
		return 0
	}
	switch x := g.r.Intn(10); {
	case x < 2:
		return 0
	case x < 5:
		return 1
	}
	return 1 + g.r.Intn(g.cfg.MaxElems)
}

func (g *gen) elem(t *idlgen.RType, depth int, inKey bool) *values.Value {
	if g.cfg.NilElems && !inKey && (t.Kind == idlgen.RStruct || t.Kind == idlgen.RBinary) && g.r.Chance(10) {
		g.count("elem.nil")
		return values.Nil()
	}
	v := g.value(t, depth+1, inKey)
	if v.IsNil() {
		switch t.Kind {
		case idlgen.RStruct:
			// depth/budget exhausted: an element cannot be nil in general
			return g.minimal(t.Sidx, 0)
		}
	}
	return v
}

// goKey: canonical text such that two keys/elements that Go's ==, reflect.DeepEqual or a generated
// DeepEqual may consider equal collide: -0 = +0, nil = empty for containers and byte strings.
func goKey(v *values.Value) string { return loose(v).String() }

func loose(v *values.Value) *values.Value {
	if v == nil {
		return values.Nil()
	}
	switch v.K {
	case values.KDouble:
		if v.D == 1<<63 {
			return values.Double(0)
		}
	case values.KBytes:
		if len(v.X) == 0 {
			return values.Nil()
		}
	case values.KList, values.KSet, values.KMap:
		if len(v.E) == 0 {
			return values.Nil()
		}
	}
	if len(v.E) == 0 {
		return v
	}
	c := &values.Value{K: v.K, E: make([]*values.Value, len(v.E))}
	for i, e := range v.E {
		c.E[i] = loose(e)
	}
	return c
}

// SetCount is the number of members of a union record that count as set (thriftgo's IsSet notion).
func SetCount(st *idlgen.SStruct, rec *values.Value) int {
	n := 0
	for i, f := range st.Fields {
		if refcodec.IsSet(f, rec.E[i]) {
			n++
		}
	}
	return n
}
