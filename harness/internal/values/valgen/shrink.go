package valgen

import (
	"verifharness/internal/idlgen"
	"verifharness/internal/values"
)

// Shrink greedily simplifies a failing record of Schema struct sidx: it keeps replacing parts of v by
// simpler values of the same type (field -> initial/zero value, container -> fewer elements, bytes ->
// shorter, numbers -> 0) as long as fails() still holds. fails is called at most maxTries times.
func Shrink(s *idlgen.Schema, sidx int, v *values.Value, fails func(*values.Value) bool, maxTries int) *values.Value {
	cur := v
	tries := 0
	for {
		progressed := false
		for _, c := range recordCands(s, sidx, cur) {
			if tries >= maxTries {
				return cur
			}
			if c.Size() >= cur.Size() && c.String() >= cur.String() {
				continue
			}
			tries++
			if fails(c) {
				cur = c
				progressed = true
				break
			}
		}
		if !progressed {
			return cur
		}
	}
}

func recordCands(s *idlgen.Schema, sidx int, v *values.Value) []*values.Value {
	st := s.Structs[sidx]
	if v.IsNil() || v.K != values.KRecord || len(v.E) != len(st.Fields) {
		return nil
	}
	var out []*values.Value
	with := func(i int, x *values.Value) {
		c := &values.Value{K: values.KRecord, E: append([]*values.Value{}, v.E...)}
		c.E[i] = x
		out = append(out, c)
	}
	for i, f := range st.Fields {
		if !values.Equal(v.E[i], f.Initial()) {
			with(i, f.Initial())
		}
		if !values.Equal(v.E[i], f.Zero()) {
			with(i, f.Zero())
		}
	}
	for i, f := range st.Fields {
		for _, x := range cands(s, f.Type, v.E[i]) {
			with(i, x)
		}
	}
	return out
}

func cands(s *idlgen.Schema, t *idlgen.RType, v *values.Value) []*values.Value {
	if v.IsNil() {
		return nil
	}
	var out []*values.Value
	switch t.Kind {
	case idlgen.RBool:
		if v.B {
			out = append(out, values.Bool(false))
		}
	case idlgen.RByte, idlgen.RI16, idlgen.RI32, idlgen.RI64, idlgen.REnum:
		if v.I != 0 {
			out = append(out, values.Int(0))
			if v.I/2 != 0 {
				out = append(out, values.Int(v.I/2))
			}
		}
	case idlgen.RDouble:
		if v.D != 0 {
			out = append(out, values.Double(0))
		}
	case idlgen.RString, idlgen.RBinary:
		if len(v.X) > 0 {
			out = append(out, values.Bytes(nil), values.Bytes(v.X[:len(v.X)/2]))
		}
	case idlgen.RList, idlgen.RSet:
		for i := range v.E {
			c := &values.Value{K: v.K, E: append(append([]*values.Value{}, v.E[:i]...), v.E[i+1:]...)}
			out = append(out, c)
		}
		for i := range v.E {
			for _, x := range cands(s, t.Elem, v.E[i]) {
				c := &values.Value{K: v.K, E: append([]*values.Value{}, v.E...)}
				c.E[i] = x
				out = append(out, c)
			}
		}
	case idlgen.RMap:
		for i := 0; i+1 < len(v.E); i += 2 {
			c := &values.Value{K: v.K, E: append(append([]*values.Value{}, v.E[:i]...), v.E[i+2:]...)}
			out = append(out, c)
		}
		for i := 1; i < len(v.E); i += 2 {
			for _, x := range cands(s, t.Elem, v.E[i]) {
				c := &values.Value{K: v.K, E: append([]*values.Value{}, v.E...)}
				c.E[i] = x
				out = append(out, c)
			}
		}
	case idlgen.RStruct:
		out = append(out, recordCands(s, t.Sidx, v)...)
	}
	return out
}
