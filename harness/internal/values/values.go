// Package values holds the Value type shared by the IDL generator (defaults), the value generator,
// the reference codec and the batch driver protocol, together with its VL text form (docs/BATCH.md §2).
//
// A Value describes a Go object (what the fields of a generated struct hold), not only a Thrift value:
// 'n' for an optional field = unset; for a non-optional container = nil slice/map; for a struct field =
// nil pointer.
package values

import (
	"bytes"
	"encoding/hex"
	"fmt"
	"sort"
	"strconv"
	"strings"
)

// Value kinds.
const (
	KNil    = 'n'
	KBool   = 'b'
	KInt    = 'I'
	KDouble = 'D'
	KBytes  = 'X'
	KList   = 'L'
	KSet    = 'T'
	KMap    = 'M'
	KRecord = 'R'
)

// Value is one node. K selects which of the other members is meaningful.
type Value struct {
	K byte
	B bool
	I int64
	D uint64 // float64 bit pattern
	X []byte
	E []*Value // L/T: elements; M: k0 v0 k1 v1 …; R: ALL fields of the struct in Schema order
}

func Nil() *Value                 { return &Value{K: KNil} }
func Bool(b bool) *Value          { return &Value{K: KBool, B: b} }
func Int(i int64) *Value          { return &Value{K: KInt, I: i} }
func Double(bits uint64) *Value   { return &Value{K: KDouble, D: bits} }
func Bytes(x []byte) *Value       { return &Value{K: KBytes, X: append([]byte{}, x...)} }
func Str(s string) *Value         { return &Value{K: KBytes, X: []byte(s)} }
func List(e ...*Value) *Value     { return &Value{K: KList, E: e} }
func Set(e ...*Value) *Value      { return &Value{K: KSet, E: e} }
func Map(kv ...*Value) *Value     { return &Value{K: KMap, E: kv} }
func Record(f ...*Value) *Value   { return &Value{K: KRecord, E: f} }
func (v *Value) IsNil() bool      { return v == nil || v.K == KNil }
func (v *Value) NPairs() int      { return len(v.E) / 2 }
func (v *Value) Key(i int) *Value { return v.E[2*i] }
func (v *Value) Val(i int) *Value { return v.E[2*i+1] }

// Clone makes a deep copy.
func (v *Value) Clone() *Value {
	if v == nil {
		return nil
	}
	c := &Value{K: v.K, B: v.B, I: v.I, D: v.D}
	if v.X != nil {
		c.X = append([]byte{}, v.X...)
	}
	if v.E != nil {
		c.E = make([]*Value, len(v.E))
		for i, e := range v.E {
			c.E[i] = e.Clone()
		}
	}
	return c
}

// String prints the VL text of v (space separated tokens, prefix notation).
func (v *Value) String() string {
	var sb strings.Builder
	v.write(&sb)
	return sb.String()
}

func (v *Value) write(sb *strings.Builder) {
	if v == nil {
		sb.WriteByte('n')
		return
	}
	switch v.K {
	case KNil:
		sb.WriteByte('n')
	case KBool:
		if v.B {
			sb.WriteString("b1")
		} else {
			sb.WriteString("b0")
		}
	case KInt:
		sb.WriteByte('I')
		sb.WriteString(strconv.FormatInt(v.I, 10))
	case KDouble:
		fmt.Fprintf(sb, "D%016x", v.D)
	case KBytes:
		sb.WriteByte('X')
		if len(v.X) == 0 {
			sb.WriteByte('-')
		} else {
			sb.WriteString(hex.EncodeToString(v.X))
		}
	case KList, KSet, KRecord:
		sb.WriteByte(v.K)
		sb.WriteByte(' ')
		sb.WriteString(strconv.Itoa(len(v.E)))
		for _, e := range v.E {
			sb.WriteByte(' ')
			e.write(sb)
		}
	case KMap:
		sb.WriteString("M ")
		sb.WriteString(strconv.Itoa(len(v.E) / 2))
		for _, e := range v.E {
			sb.WriteByte(' ')
			e.write(sb)
		}
	default:
		panic(fmt.Sprintf("values: bad kind %q", v.K))
	}
}

// Parse reads one Value from VL text; the whole text must be consumed.
func Parse(s string) (*Value, error) {
	toks := strings.Fields(s)
	v, rest, err := ParseTokens(toks)
	if err != nil {
		return nil, err
	}
	if len(rest) != 0 {
		return nil, fmt.Errorf("values: %d trailing tokens", len(rest))
	}
	return v, nil
}

// ParseTokens reads one Value from the front of toks and returns the remaining tokens.
func ParseTokens(toks []string) (*Value, []string, error) {
	if len(toks) == 0 {
		return nil, nil, fmt.Errorf("values: unexpected end")
	}
	t := toks[0]
	toks = toks[1:]
	if t == "" {
		return nil, nil, fmt.Errorf("values: empty token")
	}
	switch t[0] {
	case 'n':
		if t != "n" {
			break
		}
		return Nil(), toks, nil
	case 'b':
		if t == "b0" {
			return Bool(false), toks, nil
		}
		if t == "b1" {
			return Bool(true), toks, nil
		}
	case 'I':
		i, err := strconv.ParseInt(t[1:], 10, 64)
		if err != nil {
			return nil, nil, fmt.Errorf("values: bad int %q", t)
		}
		return Int(i), toks, nil
	case 'D':
		if len(t) != 17 {
			break
		}
		d, err := strconv.ParseUint(t[1:], 16, 64)
		if err != nil {
			return nil, nil, fmt.Errorf("values: bad double %q", t)
		}
		return Double(d), toks, nil
	case 'X':
		if t == "X-" {
			return &Value{K: KBytes, X: []byte{}}, toks, nil
		}
		x, err := hex.DecodeString(t[1:])
		if err != nil || len(x) == 0 {
			return nil, nil, fmt.Errorf("values: bad bytes %q", t)
		}
		return &Value{K: KBytes, X: x}, toks, nil
	case 'L', 'T', 'M', 'R':
		if len(t) != 1 || len(toks) == 0 {
			break
		}
		n, err := strconv.Atoi(toks[0])
		if err != nil || n < 0 {
			return nil, nil, fmt.Errorf("values: bad count %q", toks[0])
		}
		toks = toks[1:]
		if t[0] == 'M' {
			n *= 2
		}
		v := &Value{K: t[0], E: make([]*Value, 0, n)}
		for i := 0; i < n; i++ {
			e, rest, err := ParseTokens(toks)
			if err != nil {
				return nil, nil, err
			}
			v.E = append(v.E, e)
			toks = rest
		}
		return v, toks, nil
	}
	return nil, nil, fmt.Errorf("values: bad token %q", t)
}

// Equal is structural equality (doubles by bit pattern, map pairs in the given order).
// A nil *Value equals 'n'. Empty and nil byte strings are equal (X-).
func Equal(a, b *Value) bool {
	if a.IsNil() || b.IsNil() {
		return a.IsNil() && b.IsNil()
	}
	if a.K != b.K {
		return false
	}
	switch a.K {
	case KBool:
		return a.B == b.B
	case KInt:
		return a.I == b.I
	case KDouble:
		return a.D == b.D
	case KBytes:
		return bytes.Equal(a.X, b.X)
	}
	if len(a.E) != len(b.E) {
		return false
	}
	for i := range a.E {
		if !Equal(a.E[i], b.E[i]) {
			return false
		}
	}
	return true
}

// SortMaps returns a copy of v in which the pairs of every map are sorted by the VL text of the key
// (the order the driver's dumps use); pairs with equal key text keep their relative order.
func SortMaps(v *Value) *Value {
	if v == nil {
		return nil
	}
	c := &Value{K: v.K, B: v.B, I: v.I, D: v.D, X: v.X}
	if v.E == nil {
		return c
	}
	c.E = make([]*Value, len(v.E))
	for i, e := range v.E {
		c.E[i] = SortMaps(e)
	}
	if v.K == KMap {
		type pair struct {
			ks   string
			k, v *Value
		}
		ps := make([]pair, len(c.E)/2)
		for i := range ps {
			ps[i] = pair{c.E[2*i].String(), c.E[2*i], c.E[2*i+1]}
		}
		sort.SliceStable(ps, func(i, j int) bool { return ps[i].ks < ps[j].ks })
		for i, p := range ps {
			c.E[2*i], c.E[2*i+1] = p.k, p.v
		}
	}
	return c
}

// EqualCanon compares two values up to the order of map entries.
func EqualCanon(a, b *Value) bool { return Equal(SortMaps(a), SortMaps(b)) }

// Depth is the nesting depth of containers/records (a scalar has depth 0).
func (v *Value) Depth() int {
	if v == nil {
		return 0
	}
	d := 0
	for _, e := range v.E {
		if x := e.Depth() + 1; x > d {
			d = x
		}
	}
	return d
}

// Size is the number of nodes.
func (v *Value) Size() int {
	if v == nil {
		return 1
	}
	n := 1
	for _, e := range v.E {
		n += e.Size()
	}
	return n
}
