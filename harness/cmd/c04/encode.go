package main

// AST -> one VL line for the Lean driver tv_c04 (see lean/Driver/C04.lean), and the
// in-process staged evaluation of the real parser / CircleDetect / checker / resolver.

import (
	"fmt"
	"strings"

	"github.com/cloudwego/thriftgo/parser"
	"github.com/cloudwego/thriftgo/semantic"

	"verifharness/internal/vl"
)

const nilRef = 999999

// fileIndex numbers the files reachable from root in pre-order of first discovery.
func fileIndex(root *parser.Thrift) ([]*parser.Thrift, map[*parser.Thrift]int) {
	var order []*parser.Thrift
	idx := map[*parser.Thrift]int{}
	var walk func(t *parser.Thrift)
	walk = func(t *parser.Thrift) {
		if t == nil {
			return
		}
		if _, ok := idx[t]; ok {
			return
		}
		idx[t] = len(order)
		order = append(order, t)
		for _, inc := range t.Includes {
			walk(inc.Reference)
		}
	}
	walk(root)
	return order, idx
}

func encType(sb *strings.Builder, t *parser.Type) {
	if t == nil {
		sb.WriteString(" b")
		return
	}
	switch t.Name {
	case "bool", "byte", "i8", "i16", "i32", "i64", "double", "string", "binary":
		sb.WriteString(" b")
	case "list", "set":
		sb.WriteString(" l")
		encType(sb, t.ValueType)
	case "map":
		sb.WriteString(" m")
		encType(sb, t.KeyType)
		encType(sb, t.ValueType)
	default:
		sb.WriteString(" r " + vl.Hex(t.Name))
	}
}

// idents in the order ResolveConstValue visits them
func flattenIdents(v *parser.ConstValue, out *[]string) {
	if v == nil {
		return
	}
	switch v.Type {
	case parser.ConstType_ConstIdentifier:
		*out = append(*out, v.TypedValue.GetIdentifier())
	case parser.ConstType_ConstList:
		for _, e := range v.TypedValue.List {
			flattenIdents(e, out)
		}
	case parser.ConstType_ConstMap:
		for _, m := range v.TypedValue.Map {
			flattenIdents(m.Key, out)
			flattenIdents(m.Value, out)
		}
	}
}

func encIdents(sb *strings.Builder, v *parser.ConstValue) {
	var ids []string
	flattenIdents(v, &ids)
	fmt.Fprintf(sb, " %d", len(ids))
	for _, id := range ids {
		sb.WriteString(" " + vl.Hex(id))
	}
}

func encField(sb *strings.Builder, f *parser.Field) {
	fmt.Fprintf(sb, " %d %s", f.ID, vl.Hex(f.Name))
	encType(sb, f.Type)
	sb.WriteString(" " + vl.B(f.GetDefault() != nil))
	encIdents(sb, f.Default)
}

func encStructLikes(sb *strings.Builder, ss []*parser.StructLike) {
	fmt.Fprintf(sb, " %d", len(ss))
	for _, s := range ss {
		fmt.Fprintf(sb, " %s %d", vl.Hex(s.Name), len(s.Fields))
		for _, f := range s.Fields {
			encField(sb, f)
		}
	}
}

func encodeProgram(root *parser.Thrift) string {
	order, idx := fileIndex(root)
	sb := &strings.Builder{}
	fmt.Fprintf(sb, "%d 0", len(order))
	for _, t := range order {
		fmt.Fprintf(sb, " F %s %d", vl.Hex(t.Filename), len(t.Includes))
		for _, inc := range t.Includes {
			r := nilRef
			if inc.Reference != nil {
				r = idx[inc.Reference]
			}
			fmt.Fprintf(sb, " %s %d", vl.Hex(inc.Path), r)
		}
		fmt.Fprintf(sb, " %d", len(t.Typedefs))
		for _, td := range t.Typedefs {
			sb.WriteString(" " + vl.Hex(td.Alias))
			encType(sb, td.Type)
		}
		fmt.Fprintf(sb, " %d", len(t.Constants))
		for _, c := range t.Constants {
			sb.WriteString(" " + vl.Hex(c.Name))
			encType(sb, c.Type)
			encIdents(sb, c.Value)
		}
		fmt.Fprintf(sb, " %d", len(t.Enums))
		for _, e := range t.Enums {
			fmt.Fprintf(sb, " %s %d", vl.Hex(e.Name), len(e.Values))
			for _, v := range e.Values {
				fmt.Fprintf(sb, " %s %d", vl.Hex(v.Name), v.Value)
			}
		}
		encStructLikes(sb, t.Structs)
		encStructLikes(sb, t.Unions)
		encStructLikes(sb, t.Exceptions)
		fmt.Fprintf(sb, " %d", len(t.Services))
		for _, s := range t.Services {
			fmt.Fprintf(sb, " %s %s %d", vl.Hex(s.Name), vl.Hex(s.Extends), len(s.Functions))
			for _, fn := range s.Functions {
				fmt.Fprintf(sb, " %s %s %s", vl.Hex(fn.Name), vl.B(fn.Oneway), vl.B(fn.Void))
				if fn.Void {
					sb.WriteString(" b")
				} else {
					encType(sb, fn.FunctionType)
				}
				fmt.Fprintf(sb, " %d", len(fn.Arguments))
				for _, a := range fn.Arguments {
					encField(sb, a)
				}
				fmt.Fprintf(sb, " %d", len(fn.Throws))
				for _, a := range fn.Throws {
					encField(sb, a)
				}
			}
		}
	}
	return sb.String()
}

type checkOne = func(*parser.Thrift) ([]string, error)

// the five exported check methods of the (unexported) checker type, by name
func checkMethods(c semantic.Checker) ([]string, []checkOne, error) {
	names := []string{"CheckGlobals", "CheckEnums", "CheckStructLikes", "CheckUnions", "CheckFunctions"}
	var fns []checkOne
	if x, ok := c.(interface {
		CheckGlobals(*parser.Thrift) ([]string, error)
		CheckEnums(*parser.Thrift) ([]string, error)
		CheckStructLikes(*parser.Thrift) ([]string, error)
		CheckUnions(*parser.Thrift) ([]string, error)
		CheckFunctions(*parser.Thrift) ([]string, error)
	}); ok {
		fns = []checkOne{x.CheckGlobals, x.CheckEnums, x.CheckStructLikes, x.CheckUnions, x.CheckFunctions}
		return names, fns, nil
	}
	return nil, nil, fmt.Errorf("semantic.NewChecker no longer has the five Check* methods")
}

// staged runs the real stages on a parsed AST (a second, untouched parse is used for the
// whole-pipeline consistency checks).  Result: circle | check <i> <fns> | resolve <i> | ok | inconsistent:<why>
func staged(root, twin *parser.Thrift) string {
	if path := parser.CircleDetect(root); len(path) > 0 {
		return "circle"
	}
	_, idx := fileIndex(root)
	var order []*parser.Thrift
	for t := range root.DepthFirstSearch() {
		order = append(order, t)
	}
	ck := semantic.NewChecker(semantic.Options{FixWarnings: true})
	names, fns, err := checkMethods(ck)
	if err != nil {
		return "inconsistent:" + err.Error()
	}
	first := ""
	for _, t := range order {
		var failing []string
		for k, fn := range fns {
			if _, err := fn(t); err != nil {
				failing = append(failing, names[k])
			}
		}
		if len(failing) > 0 {
			first = fmt.Sprintf("check %d %s", idx[t], strings.Join(failing, ","))
			break
		}
	}
	_, allErr := semantic.NewChecker(semantic.Options{FixWarnings: true}).CheckAll(twin)
	if (allErr != nil) != (first != "") {
		return fmt.Sprintf("inconsistent:CheckAll err=%v but per-file checks say %q", allErr != nil, first)
	}
	if first != "" {
		return first
	}
	res := "ok"
	for _, t := range order {
		if err := semantic.ResolveSymbols(t); err != nil {
			res = fmt.Sprintf("resolve %d", idx[t])
			break
		}
	}
	wholeErr := semantic.ResolveSymbols(twin)
	if (wholeErr != nil) != (res != "ok") {
		return fmt.Sprintf("inconsistent:ResolveSymbols(root) err=%v but bottom-up says %q", wholeErr != nil, res)
	}
	return res
}
