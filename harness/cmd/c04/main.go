// c04: translator (extract), correspondence + oracle (run), replay and the in-process worker for
// property C04 (invalid input is diagnosed: non-zero exit, message, no output, no crash).
package main

import (
	"bufio"
	"bytes"
	"context"
	"encoding/json"
	"flag"
	"fmt"
	"io"
	"os"
	"os/exec"
	"path/filepath"
	"sort"
	"strings"
	"sync"
	"time"

	"github.com/cloudwego/thriftgo/parser"

	"verifharness/internal/vl"
)

var goenv = []string{"GOFLAGS=-mod=mod", "GOPROXY=off", "GOSUMDB=off", "GOTOOLCHAIN=local", "CGO_ENABLED=0"}

const hangAfter = 20 * time.Second
const maxQuickRuns = 1200

func main() {
	if len(os.Args) < 2 {
		fmt.Fprintln(os.Stderr, "usage: c04 extract|run|replay|worker [flags]")
		os.Exit(2)
	}
	fs := flag.NewFlagSet(os.Args[1], flag.ExitOnError)
	repo := fs.String("repo", "/repo", "repository under test")
	dir := fs.String("dir", "", "output directory (ops.txt, impl.txt, stats.json)")
	seed := fs.Uint64("seed", 1, "seed")
	tier := fs.String("tier", "quick", "quick|thorough")
	file := fs.String("file", "", "replay file")
	_ = fs.Parse(os.Args[2:])
	var err error
	switch os.Args[1] {
	case "extract":
		err = extract(*repo)
	case "run":
		err = run(*repo, *dir, *seed, *tier)
	case "replay":
		err = replay(*repo, *dir, *file)
	case "worker":
		worker()
	default:
		err = fmt.Errorf("unknown subcommand %q", os.Args[1])
	}
	if err != nil {
		fmt.Fprintln(os.Stderr, "c04:", err)
		os.Exit(1)
	}
}

// ---------------------------------------------------------------- in-process worker (child process)

type wreq struct {
	Dir  string `json:"dir"`
	Main string `json:"main"`
}

// worker: one request per line; answers "OP <line>" then "ST <verdict>" (or "SYNTAX" / "PARSEPANIC").
// A Go stack overflow kills this process between the two lines; the parent records `crash`.
func worker() {
	in := bufio.NewReaderSize(os.Stdin, 1<<20)
	out := bufio.NewWriter(os.Stdout)
	for {
		line, err := in.ReadString('\n')
		if len(line) > 0 {
			var rq wreq
			if json.Unmarshal([]byte(line), &rq) == nil {
				handle(rq, out)
				out.Flush()
			}
		}
		if err != nil {
			return
		}
	}
}

func parseOnce(rq wreq) (ast *parser.Thrift, err error, panicked bool) {
	defer func() {
		if r := recover(); r != nil {
			panicked = true
		}
	}()
	ast, err = parser.ParseFile(rq.Main, nil, true)
	return
}

func handle(rq wreq, out *bufio.Writer) {
	if err := os.Chdir(rq.Dir); err != nil {
		fmt.Fprintf(out, "ERR %v\n", err)
		return
	}
	ast, err, pan := parseOnce(rq)
	if pan {
		fmt.Fprintln(out, "PARSEPANIC")
		return
	}
	if err != nil {
		fmt.Fprintln(out, "SYNTAX")
		return
	}
	twin, err2, pan2 := parseOnce(rq)
	if pan2 || err2 != nil {
		fmt.Fprintln(out, "ERR second parse differs")
		return
	}
	fmt.Fprintf(out, "OP %s\n", encodeProgram(ast))
	out.Flush()
	var verdict string
	func() {
		defer func() {
			if r := recover(); r != nil {
				verdict = fmt.Sprintf("panic:%v", r)
			}
		}()
		verdict = staged(ast, twin)
	}()
	fmt.Fprintf(out, "ST %s\n", verdict)
}

type workerProc struct {
	cmd *exec.Cmd
	in  io.WriteCloser
	out *bufio.Reader
}

func startWorker() (*workerProc, error) {
	self, err := os.Executable()
	if err != nil {
		return nil, err
	}
	cmd := exec.Command(self, "worker")
	cmd.Stderr = io.Discard
	in, _ := cmd.StdinPipe()
	op, _ := cmd.StdoutPipe()
	if err := cmd.Start(); err != nil {
		return nil, err
	}
	return &workerProc{cmd: cmd, in: in, out: bufio.NewReaderSize(op, 1<<20)}, nil
}

// readLine waits for one answer line; a worker that stays silent for 60 s (20 s after two such cases) is stuck in a loop
func (w *workerProc) readLine() (string, error) {
	type res struct {
		s   string
		err error
	}
	ch := make(chan res, 1)
	go func() {
		s, err := w.out.ReadString('\n')
		ch <- res{s, err}
	}()
	mu.Lock()
	limit := 3 * hangAfter
	if workerHangs >= 2 {
		limit = hangAfter / 2 // after two confirmed ones a silent worker is taken at face value sooner
	}
	mu.Unlock()
	select {
	case r := <-ch:
		return r.s, r.err
	case <-time.After(limit):
		mu.Lock()
		workerHangs++
		mu.Unlock()
		_ = w.cmd.Process.Kill()
		r := <-ch
		_ = r
		return "", errHang
	}
}

var errHang = fmt.Errorf("worker silent")
var workerHangs int

func (w *workerProc) stop() {
	w.in.Close()
	_ = w.cmd.Process.Kill()
	_ = w.cmd.Wait()
}

type inproc struct {
	Syntax     bool
	ParsePanic bool
	Op         string
	Staged     string
}

// evalInProcess runs the cases of one goroutine's share through a worker, restarting it after a crash.
func evalInProcess(dirs []string, mains []string) ([]inproc, error) {
	res := make([]inproc, len(dirs))
	var w *workerProc
	var err error
	for i := range dirs {
		if w == nil {
			if w, err = startWorker(); err != nil {
				return nil, err
			}
		}
		b, _ := json.Marshal(wreq{Dir: dirs[i], Main: mains[i]})
		if _, err := w.in.Write(append(b, '\n')); err != nil {
			w.stop()
			w = nil
			res[i] = inproc{Staged: "crash"}
			continue
		}
		line, err := w.readLine()
		line = strings.TrimRight(line, "\n")
		switch {
		case err == errHang:
			res[i] = inproc{Staged: "hang", Op: "?"}
			w.stop()
			w = nil
		case err != nil:
			res[i] = inproc{ParsePanic: true}
			w.stop()
			w = nil
		case line == "SYNTAX":
			res[i] = inproc{Syntax: true}
		case line == "PARSEPANIC":
			res[i] = inproc{ParsePanic: true}
		case strings.HasPrefix(line, "OP "):
			res[i].Op = line[3:]
			st, err := w.readLine()
			if err == errHang {
				res[i].Staged = "hang"
				w.stop()
				w = nil
			} else if err != nil || !strings.HasPrefix(st, "ST ") {
				res[i].Staged = "crash"
				w.stop()
				w = nil
			} else {
				res[i].Staged = strings.TrimRight(st[3:], "\n")
			}
		default:
			return nil, fmt.Errorf("worker: %s", line)
		}
	}
	if w != nil {
		w.stop()
	}
	return res, nil
}

// ---------------------------------------------------------------- the binary

type obs struct {
	Exit    int
	Hang    bool
	OutLen  int
	Files   int
	Trace   bool // goroutine / fatal error / panic: in the output
	Fatal   bool // fatal error: / panic: (the process died of it)
	Recover bool // "Recovered from panic"
	Head    string
}

func (o obs) class() string {
	switch {
	case o.Hang:
		return "hang"
	case o.Fatal:
		return "crash"
	case o.Exit == 0 && o.Files > 0 && !o.Recover:
		return "ok"
	case o.Exit == 0:
		return "exit0_without_output"
	default:
		return "reject"
	}
}

func (o obs) written() string {
	if o.Files > 0 {
		return "persisted"
	}
	return "nothing-written"
}

func countFiles(root string) int {
	n := 0
	_ = filepath.Walk(root, func(_ string, info os.FileInfo, err error) error {
		if err == nil && !info.IsDir() {
			n++
		}
		return nil
	})
	return n
}

func writeFiles(dir string, files map[string]string) error {
	for p, txt := range files {
		full := filepath.Join(dir, p)
		if err := os.MkdirAll(filepath.Dir(full), 0o755); err != nil {
			return err
		}
		if err := os.WriteFile(full, []byte(txt), 0o644); err != nil {
			return err
		}
	}
	return nil
}

// runBinary runs thriftgo in dir; anything it writes lands under dir/out or dir/gen-*.
func runBinary(bin, dir string, args []string) obs {
	retryMu.Lock()
	first := hangAfter
	if hangsConfirmed >= 2 {
		first = hangAfter / 2
	}
	retryMu.Unlock()
	o := runBinaryT(bin, dir, args, first)
	if o.Hang {
		// The machine may be busy (a Go stack overflow has to touch 1 GB first): a run counts as a hang
		// only if, run again (retries are serialised), it also exceeds 3x the bound.
		// After two confirmed hangs further time-outs are taken at face value.
		retryMu.Lock()
		defer retryMu.Unlock()
		if hangsConfirmed < 2 {
			o = runBinaryT(bin, dir, args, 3*hangAfter)
			if o.Hang {
				hangsConfirmed++
			}
		}
	}
	return o
}

var retryMu sync.Mutex

func runBinaryT(bin, dir string, args []string, limit time.Duration) obs {
	os.RemoveAll(filepath.Join(dir, "out"))
	before := countFiles(dir)
	ctx, cancel := context.WithTimeout(context.Background(), limit)
	defer cancel()
	cmd := exec.CommandContext(ctx, bin, args...)
	cmd.Dir = dir
	cmd.Env = append(os.Environ(), "GOMAXPROCS=2", "GOTRACEBACK=single")
	var buf bytes.Buffer
	cmd.Stdout = &buf
	cmd.Stderr = &buf
	err := cmd.Run()
	o := obs{}
	if ctx.Err() == context.DeadlineExceeded {
		o.Hang = true
	}
	if err != nil {
		if ee, ok := err.(*exec.ExitError); ok {
			o.Exit = ee.ExitCode()
		} else {
			o.Exit = -1
		}
	}
	s := buf.String()
	o.OutLen = len(strings.TrimSpace(s))
	o.Files = countFiles(dir) - before
	o.Fatal = strings.Contains(s, "fatal error:") || strings.HasPrefix(s, "panic:") || strings.Contains(s, "\npanic:")
	o.Trace = o.Fatal || strings.Contains(s, "goroutine ")
	o.Recover = strings.Contains(s, "Recovered from panic")
	if len(s) > 240 {
		s = s[:240]
	}
	o.Head = s
	return o
}

func caseArgs(c *Case, be string) []string {
	if c.Args != nil {
		out := make([]string, len(c.Args))
		for i, a := range c.Args {
			out[i] = strings.ReplaceAll(a, "@BE@", be)
		}
		return out
	}
	args := []string{"-g", be, "-o", "out"}
	if c.Recursive {
		args = append(args, "-r")
	}
	return append(args, c.Prog.Files[0].Path)
}

// oracle: the statement of C04 on one observation.  "" = holds.
func oracle(valid bool, o obs) string {
	switch {
	case o.Hang:
		return "hang"
	case o.Fatal:
		return "crash"
	case o.Recover:
		return "recovered-panic"
	}
	if valid {
		switch {
		case o.Exit != 0:
			return "valid-rejected"
		case o.Files == 0:
			return "exit0-without-output"
		case o.Trace:
			return "trace"
		}
		return ""
	}
	switch {
	case o.Exit == 0 && o.Files > 0:
		return "accepted"
	case o.Exit == 0:
		return "exit0-without-output"
	case o.Files > 0:
		return "rejected-but-wrote-files"
	case o.Trace:
		return "trace"
	case o.OutLen == 0:
		return "no-diagnostic"
	}
	return ""
}

const expectedInvalid = "exit status != 0, a diagnostic on stdout/stderr, no file written, no goroutine/fatal error/panic trace, ends within 20 s"
const expectedValid = "exit status 0 with generated files, no trace"

// ---------------------------------------------------------------- run

type job struct {
	c       *Case
	dir     string
	files   map[string]string
	ip      inproc
	obs     map[string]obs
	bes     []string
	skipped []string
}

var backends = []string{"go", "fastgo"}

func buildBinary(repo, dir string) (string, error) {
	bin := filepath.Join(dir, "thriftgo-under-test")
	cmd := exec.Command("go", "build", "-o", bin, ".")
	cmd.Dir = repo
	cmd.Env = append(os.Environ(), goenv...)
	if out, err := cmd.CombinedOutput(); err != nil {
		return "", fmt.Errorf("go build thriftgo: %v\n%s", err, out)
	}
	return bin, nil
}

func parallel(n, workers int, f func(i int)) {
	var wg sync.WaitGroup
	ch := make(chan int)
	for w := 0; w < workers; w++ {
		wg.Add(1)
		go func() {
			defer wg.Done()
			for i := range ch {
				f(i)
			}
		}()
	}
	for i := 0; i < n; i++ {
		ch <- i
	}
	close(ch)
	wg.Wait()
}

func envBits(c *Case, syntaxBad, parsePanic bool) string {
	return strings.Join([]string{vl.B(c.FlagsBad), vl.B(syntaxBad), vl.B(parsePanic), vl.B(c.TargetsBad), vl.B(c.BackendBad), "0"}, " ")
}

const emptyProgram = "0 0"

func run(repo, dir string, seed uint64, tier string) error {
	if dir == "" {
		return fmt.Errorf("-dir required")
	}
	dir, err := filepath.Abs(dir)
	if err != nil {
		return err
	}
	bin, err := buildBinary(repo, dir)
	if err != nil {
		return err
	}
	out := vl.NewOut(dir)
	r := vl.NewRng(seed)
	nRandom, perRule := 11, 1
	if tier == "thorough" {
		nRandom = 99
	}
	if v := os.Getenv("VERIF_C04_BASES"); v != "" { // development aid
		fmt.Sscan(v, &nRandom)
	}
	var cases []*Case
	cases = append(cases, regressionCases()...)
	cases = append(cases, aimedCases()...)
	cases = append(cases, buildCases("minimal", minimalBase, r, true, 0)...)
	for k := 0; k < nRandom; k++ {
		s := seed*1000003 + uint64(k)*7919 + 17
		cases = append(cases, buildCases(fmt.Sprintf("seed:%d", s), func() *GProg { return genBase(s) }, r, false, perRule)...)
	}
	jobs := make([]*job, len(cases))
	root := filepath.Join(dir, "cases")
	for i, c := range cases {
		j := &job{c: c, dir: filepath.Join(root, fmt.Sprint(i)), files: c.Prog.Texts(), obs: map[string]obs{}}
		if err := writeFiles(j.dir, j.files); err != nil {
			return err
		}
		jobs[i] = j
	}
	// in-process stages, 8 workers each with its own child process
	tIn := time.Now()
	const nw = 8
	var firstErr error
	var inWall int
	inDone := make(chan struct{})
	go func() { // runs alongside the binary phase: the two do not depend on each other
		defer close(inDone)
		parallel(nw, nw, func(w int) {
			var dirs, mains []string
			var idx []int
			for i := w; i < len(jobs); i += nw {
				if jobs[i].c.Pos == "cmdline" {
					continue
				}
				dirs = append(dirs, jobs[i].dir)
				mains = append(mains, jobs[i].c.Prog.Files[0].Path)
				idx = append(idx, i)
			}
			res, err := evalInProcess(dirs, mains)
			mu.Lock()
			defer mu.Unlock()
			if err != nil {
				firstErr = err
				return
			}
			for k, i := range idx {
				jobs[i].ip = res[k]
			}
		})
		inWall = int(time.Since(tIn).Milliseconds())
	}()
	// the binary
	type unit struct {
		j  *job
		be string
	}
	var units []unit
	for i, j := range jobs {
		j.bes = backends
		if !(j.c.Base == "regression" || j.c.Base == "minimal" && (j.c.Pos == "main" || j.c.Pos == "base" || j.c.Pos == "cmdline")) {
			j.bes = []string{backends[i%2]} // elsewhere the two backends alternate
		}
		for _, be := range j.bes {
			units = append(units, unit{j, be})
		}
	}
	// quick tier: at most maxQuickRuns process runs (~57 ms each on a quiet machine); the surplus is
	// cut from the end, i.e. from the sampled edits of the last random programs
	if tier != "thorough" && len(units) > maxQuickRuns {
		for _, u := range units[maxQuickRuns:] {
			u.j.skipped = append(u.j.skipped, u.be)
		}
		units = units[:maxQuickRuns]
	}
	t0 := time.Now()
	parallel(len(units), 16, func(i int) {
		u := units[i]
		// one directory per (case, backend) so that runs do not see each other's output
		d := u.j.dir + "-" + u.be
		if err := writeFiles(d, u.j.files); err != nil {
			return
		}
		o := runBinary(bin, d, caseArgs(u.j.c, u.be))
		mu.Lock()
		u.j.obs[u.be] = o
		mu.Unlock()
	})
	<-inDone
	if firstErr != nil {
		return firstErr
	}
	out.Stats["inprocess_wall_ms"] = inWall
	fmt.Fprintf(os.Stderr, "c04: %d cases, %d binary runs in %v\n", len(jobs), len(units), time.Since(t0).Round(time.Millisecond))
	out.Stats["binary_runs"] = len(units)
	out.Stats["binary_wall_ms"] = int(time.Since(t0).Milliseconds())

	// correspondence lines + oracle
	type group struct {
		first     *job
		be        string
		class     string
		instances []string
	}
	groups := map[string]*group{}
	sampled := map[string]bool{}
	var samples []interface{}
	var gorder []string
	for _, j := range jobs {
		c := j.c
		out.Count("rule:" + c.Rule)
		out.Count("pos:" + c.Pos)
		out.Count("base:" + map[bool]string{true: c.Base, false: "random"}[c.Base == "minimal" || c.Base == "regression"])
		nontrivial := c.Rule != "none"
		if c.Pos != "cmdline" {
			switch {
			case j.ip.ParsePanic:
				out.Case("S "+emptyProgram, "parse-panic", nontrivial)
			case j.ip.Syntax:
				out.Count("inproc:syntax")
			default:
				out.Case("S "+j.ip.Op, j.ip.Staged, nontrivial)
				out.Count("inproc:" + strings.SplitN(j.ip.Staged, " ", 2)[0])
			}
		}
		for _, be := range j.bes {
			o, ran := j.obs[be]
			if !ran {
				out.Count("binary:skipped-by-cap")
				continue
			}
			prog := j.ip.Op
			syntaxBad := c.SyntaxBad
			if c.Pos != "cmdline" {
				syntaxBad = j.ip.Syntax
			} else {
				prog = ""
			}
			if prog == "" {
				prog = emptyProgram
				if c.Pos == "cmdline" && !c.SyntaxBad {
					// the (valid) base program: its staged verdict is `ok`, only the env bits matter
					prog = "1 0 F 6d 0 0 0 0 0 0 0 0"
				}
			}
			out.Case(fmt.Sprintf("R %s %s", envBits(c, syntaxBad, c.Pos != "cmdline" && j.ip.ParsePanic), prog), o.class()+" "+o.written(), nontrivial)
			out.Count("binary:" + o.class())
			if why := oracle(c.Valid, o); why != "" {
				key := c.Rule + "|" + why
				g := groups[key]
				if g == nil {
					g = &group{first: j, be: be, class: why}
					groups[key] = g
					gorder = append(gorder, key)
				}
				g.instances = append(g.instances, fmt.Sprintf("%s/%s/%s/%s/%s", c.Base, c.Variant, c.Pos, be, o.Head1()))
			}
		}
		if c.Rule != "none" && c.Base == "minimal" && c.Pos == "inc" && !sampled[c.Rule] {
			sampled[c.Rule] = true
			be := j.bes[0]
			samples = append(samples, map[string]interface{}{"rule": c.Rule, "variant": c.Variant, "pos": c.Pos, "in_process": j.ip.Staged,
				"args": strings.Join(caseArgs(c, be), " "), "binary": j.obs[be].class(), "exit": j.obs[be].Exit, "files_written": j.obs[be].Files})
		}
	}
	for k := 0; k < len(samples); k += (len(samples) + 7) / 8 {
		out.Sample(samples[k])
	}
	tMin := time.Now()
	for _, key := range gorder {
		g := groups[key]
		tm := time.Now()
		f := minimise(bin, filepath.Join(dir, "min"), g.first, g.be, g.class)
		f.Observed.(map[string]interface{})["instances"] = capList(g.instances, 24)
		f.Observed.(map[string]interface{})["instance_count"] = len(g.instances)
		out.Fail(f)
		fmt.Fprintf(os.Stderr, "c04: minimised %s in %v\n", key, time.Since(tm).Round(time.Millisecond))
	}
	out.Stats["minimise_wall_ms"] = int(time.Since(tMin).Milliseconds())
	os.RemoveAll(root)
	os.RemoveAll(filepath.Join(dir, "min"))
	out.Close()
	return nil
}

func (o obs) Head1() string {
	s := o.Head
	if i := strings.IndexByte(s, '\n'); i >= 0 {
		s = s[:i]
	}
	if len(s) > 80 {
		s = s[:80]
	}
	return fmt.Sprintf("exit=%d files=%d %q", o.Exit, o.Files, s)
}

func capList(xs []string, n int) []string {
	if len(xs) > n {
		return xs[:n]
	}
	return xs
}

// ---------------------------------------------------------------- minimisation (ddmin over definition lines)

type lineRef struct {
	path string
	idx  int
}

func splitLines(files map[string]string) (map[string][]string, []lineRef) {
	ls := map[string][]string{}
	var refs []lineRef
	var paths []string
	for p := range files {
		paths = append(paths, p)
	}
	sort.Strings(paths)
	for _, p := range paths {
		l := strings.Split(strings.TrimRight(files[p], "\n"), "\n")
		ls[p] = l
		for i := range l {
			refs = append(refs, lineRef{p, i})
		}
	}
	return ls, refs
}

func assemble(ls map[string][]string, drop map[lineRef]bool) map[string]string {
	out := map[string]string{}
	for p, l := range ls {
		var keep []string
		for i, s := range l {
			if !drop[lineRef{p, i}] {
				keep = append(keep, s)
			}
		}
		out[p] = strings.Join(keep, "\n") + "\n"
	}
	return out
}

// minimise removes definition lines that are not needed for the same oracle failure.  Lines the
// edit introduced or changed are protected, so the program stays a violation of the same rule.
func minimise(bin, scratch string, j *job, be, class string) vl.OracleFail {
	c := j.c
	files := j.files
	minimised := false
	var lastObs obs
	haveObs := false
	if c.Pos != "cmdline" && c.Rule != "none" {
		baseLines := map[string]map[string]int{}
		for p, t := range c.BaseProg.Texts() {
			m := map[string]int{}
			for _, l := range strings.Split(t, "\n") {
				m[l]++
			}
			baseLines[p] = m
		}
		ls, refs := splitLines(files)
		protected := map[lineRef]bool{}
		for _, rf := range refs {
			l := ls[rf.path][rf.idx]
			if m := baseLines[rf.path]; m != nil && m[l] > 0 {
				m[l]--
			} else {
				protected[rf] = true
			}
		}
		var cand []lineRef
		for _, rf := range refs {
			if !protected[rf] {
				cand = append(cand, rf)
			}
		}
		n := 0
		test := func(drop map[lineRef]bool) bool {
			mu.Lock()
			n++
			d := filepath.Join(scratch, fmt.Sprintf("%s-%d", strings.ReplaceAll(c.Rule+class, "/", "_"), n))
			mu.Unlock()
			defer os.RemoveAll(d)
			if writeFiles(d, assemble(ls, drop)) != nil {
				return false
			}
			o := runBinary(bin, d, caseArgs(c, be))
			if oracle(c.Valid, o) != class {
				return false
			}
			mu.Lock()
			lastObs, haveObs = o, true
			mu.Unlock()
			return true
		}
		dropped := map[lineRef]bool{}
		with := func(extra []lineRef) map[lineRef]bool {
			d := map[lineRef]bool{}
			for k := range dropped {
				d[k] = true
			}
			for _, rf := range extra {
				d[rf] = true
			}
			return d
		}
		// include lines are never dropped: the edited file has to stay reachable, otherwise "accepted"
		// would survive for the wrong reason (the violation would no longer be part of the program)
		var nonInc []lineRef
		for _, rf := range cand {
			if !strings.HasPrefix(ls[rf.path][rf.idx], "include ") {
				nonInc = append(nonInc, rf)
			}
		}
		cand = nonInc
		// one cheap attempt first: drop everything the edit did not touch
		if test(with(cand)) {
			dropped = with(cand)
		}
		var rest0 []lineRef
		for _, rf := range cand {
			if !dropped[rf] {
				rest0 = append(rest0, rf)
			}
		}
		cand = rest0
		if class == "crash" || class == "hang" {
			cand = nil // every further test costs a 1 GB stack or a 20 s wait
		}
		chunk := (len(cand) + 1) / 2
		for len(cand) > 0 {
			var chunks [][]lineRef
			for i := 0; i < len(cand); i += chunk {
				e := i + chunk
				if e > len(cand) {
					e = len(cand)
				}
				chunks = append(chunks, cand[i:e])
			}
			okc := make([]bool, len(chunks))
			parallel(len(chunks), 16, func(i int) { okc[i] = test(with(chunks[i])) })
			// accept removable chunks one after the other; after the first, re-test the union
			progress := false
			for i, ok := range okc {
				if !ok {
					continue
				}
				d := with(chunks[i])
				if !progress || test(d) {
					dropped = d
					progress = true
				}
			}
			var rest []lineRef
			for _, rf := range cand {
				if !dropped[rf] {
					rest = append(rest, rf)
				}
			}
			cand = rest
			if !progress {
				if chunk == 1 {
					break
				}
				chunk = (chunk + 1) / 2
			} else if chunk > (len(cand)+1)/2 && chunk > 1 {
				chunk = (len(cand) + 1) / 2
			}
			if chunk < 1 {
				chunk = 1
			}
		}
		files = assemble(ls, dropped)
		// files that ended up empty and that nothing includes any more
		if class != "crash" && class != "hang" {
			slim := map[string]string{}
			for p, t := range files {
				referenced := false
				for _, t2 := range files {
					referenced = referenced || strings.Contains(t2, `include "`+p+`"`)
				}
				if strings.TrimSpace(t) != "" || p == c.Prog.Files[0].Path || referenced {
					slim[p] = t
				}
			}
			if len(slim) < len(files) {
				d := filepath.Join(scratch, "slim-"+strings.ReplaceAll(c.Rule+class, "/", "_"))
				if writeFiles(d, slim) == nil {
					if o := runBinary(bin, d, caseArgs(c, be)); oracle(c.Valid, o) == class {
						files, lastObs, haveObs = slim, o, true
					}
				}
				os.RemoveAll(d)
			}
		}
		minimised = true
	}
	args := caseArgs(c, be)
	o := j.obs[be]
	if minimised && haveObs {
		o = lastObs
	}
	if c.Pos == "cmdline" && !c.SyntaxBad {
		// the program does not matter for a command-line failure: try the smallest one
		tiny := map[string]string{c.Prog.Files[0].Path: "struct ZZ { 1: i32 a }\n"}
		d := filepath.Join(scratch, "tiny-"+strings.ReplaceAll(c.Variant+class, "/", "_"))
		if writeFiles(d, tiny) == nil {
			if o2 := runBinary(bin, d, args); oracle(c.Valid, o2) == class {
				files, o, minimised = tiny, o2, true
			}
		}
		os.RemoveAll(d)
	}
	return vl.OracleFail{
		Key:  failureKey(c.Rule, class, files, args),
		What: fmt.Sprintf("rule %s (%s at %s, backend %s): %s", c.Rule, c.Variant, c.Pos, be, class),
		Input: map[string]interface{}{"files": files, "args": args, "valid": c.Valid, "rule": c.Rule, "variant": c.Variant,
			"pos": c.Pos, "base": c.Base, "minimised": minimised},
		Expected: map[bool]string{true: expectedValid, false: expectedInvalid}[c.Valid],
		Observed: map[string]interface{}{"failure": class, "exit": o.Exit, "files_written": o.Files, "trace": o.Trace, "hang": o.Hang, "output_head": o.Head},
	}
}

var mu sync.Mutex
var hangsConfirmed int

func failureKey(rule, class string, files map[string]string, args []string) string {
	var paths []string
	for p := range files {
		paths = append(paths, p)
	}
	sort.Strings(paths)
	var sb strings.Builder
	fmt.Fprintf(&sb, "%s|%s|%s", rule, class, strings.Join(args, " "))
	for _, p := range paths {
		fmt.Fprintf(&sb, "|%s:%s", p, strings.Join(strings.Fields(files[p]), " "))
	}
	return sb.String()
}

// ---------------------------------------------------------------- replay

func replay(repo, dir, file string) error {
	b, err := os.ReadFile(file)
	if err != nil {
		return err
	}
	var doc struct {
		Input struct {
			Files map[string]string `json:"files"`
			Args  []string          `json:"args"`
			Valid bool              `json:"valid"`
			Rule  string            `json:"rule"`
		} `json:"input"`
	}
	if err := json.Unmarshal(b, &doc); err != nil {
		return err
	}
	if dir == "" {
		if dir, err = os.MkdirTemp("", "c04-replay"); err != nil {
			return err
		}
		defer os.RemoveAll(dir)
	}
	bin, err := buildBinary(repo, dir)
	if err != nil {
		return err
	}
	d := filepath.Join(dir, "replay")
	if err := writeFiles(d, doc.Input.Files); err != nil {
		return err
	}
	if err := os.MkdirAll(d, 0o755); err != nil {
		return err
	}
	o := runBinary(bin, d, doc.Input.Args)
	os.RemoveAll(d)
	var fails []vl.OracleFail
	if why := oracle(doc.Input.Valid, o); why != "" {
		fails = append(fails, vl.OracleFail{
			Key:      failureKey(doc.Input.Rule, why, doc.Input.Files, doc.Input.Args),
			What:     fmt.Sprintf("rule %s: %s", doc.Input.Rule, why),
			Input:    doc.Input,
			Expected: map[bool]string{true: expectedValid, false: expectedInvalid}[doc.Input.Valid],
			Observed: map[string]interface{}{"failure": why, "exit": o.Exit, "files_written": o.Files, "trace": o.Trace, "hang": o.Hang, "output_head": o.Head},
		})
	}
	if fails == nil {
		fails = []vl.OracleFail{}
	}
	js, _ := json.Marshal(fails)
	fmt.Println(string(js))
	return nil
}
