package main

// Abstract IDL programs for C04: a seeded generator of *valid* multi-file programs
// (include DAG, every definition kind in every file, local and include-qualified
// references, typedef chains) and a renderer, one definition per line.

import (
	"fmt"
	"sort"
	"strings"

	"verifharness/internal/vl"
)

type GType struct {
	Kind string // base | list | set | map | ref
	Name string // base type name or referenced name (possibly qualified)
	K, V *GType
}

func (t *GType) String() string {
	switch t.Kind {
	case "list":
		return "list<" + t.V.String() + ">"
	case "set":
		return "set<" + t.V.String() + ">"
	case "map":
		return "map<" + t.K.String() + "," + t.V.String() + ">"
	}
	return t.Name
}

func (t *GType) clone() *GType {
	if t == nil {
		return nil
	}
	c := *t
	c.K, c.V = t.K.clone(), t.V.clone()
	return &c
}

func base(n string) *GType { return &GType{Kind: "base", Name: n} }
func ref(n string) *GType  { return &GType{Kind: "ref", Name: n} }

type GField struct {
	ID      int
	NoID    bool
	Req     string // "", "required", "optional"
	Name    string
	T       *GType
	Default string // rendered constant, "" = none
}

func (f *GField) String() string {
	s := ""
	if !f.NoID {
		s = fmt.Sprintf("%d: ", f.ID)
	}
	if f.Req != "" {
		s += f.Req + " "
	}
	s += f.T.String() + " " + f.Name
	if f.Default != "" {
		s += " = " + f.Default
	}
	return s
}

func (f *GField) clone() *GField { c := *f; c.T = f.T.clone(); return &c }

func fieldsString(fs []*GField) string {
	var ss []string
	for _, f := range fs {
		ss = append(ss, f.String())
	}
	return strings.Join(ss, ", ")
}

func cloneFields(fs []*GField) []*GField {
	var out []*GField
	for _, f := range fs {
		out = append(out, f.clone())
	}
	return out
}

type GStruct struct {
	Kind   string // struct | union | exception
	Name   string
	Fields []*GField
}

type GEnumVal struct {
	Name string
	Val  string // "" = implicit
}

type GEnum struct {
	Name   string
	Values []GEnumVal
}

type GFunc struct {
	Name   string
	Oneway bool
	Ret    *GType // nil = void
	Args   []*GField
	Throws []*GField
}

type GService struct {
	Name    string
	Extends string
	Funcs   []*GFunc
}

type GTypedef struct {
	Alias string
	T     *GType
}

type GConst struct {
	Name  string
	T     *GType
	Value string
}

type GFile struct {
	Path      string
	Namespace string
	Includes  []string
	Typedefs  []*GTypedef
	Consts    []*GConst
	Enums     []*GEnum
	Structs   []*GStruct // all three kinds
	Services  []*GService
	Raw       []string // extra raw lines (syntax edits)
	Truncate  int      // >0: cut the rendered text after this many bytes (syntax edits)
}

type GProg struct {
	Files []*GFile // Files[0] is the main file
}

func (f *GFile) Prefix() string {
	b := f.Path
	if i := strings.LastIndex(b, "/"); i >= 0 {
		b = b[i+1:]
	}
	return strings.TrimSuffix(b, ".thrift")
}

func (f *GFile) Render() string {
	var sb strings.Builder
	if f.Namespace != "" {
		fmt.Fprintf(&sb, "namespace go %s\n", f.Namespace)
	}
	for _, inc := range f.Includes {
		fmt.Fprintf(&sb, "include \"%s\"\n", inc)
	}
	for _, t := range f.Typedefs {
		fmt.Fprintf(&sb, "typedef %s %s\n", t.T, t.Alias)
	}
	for _, e := range f.Enums {
		var vs []string
		for _, v := range e.Values {
			if v.Val != "" {
				vs = append(vs, v.Name+" = "+v.Val)
			} else {
				vs = append(vs, v.Name)
			}
		}
		fmt.Fprintf(&sb, "enum %s { %s }\n", e.Name, strings.Join(vs, ", "))
	}
	for _, s := range f.Structs {
		fmt.Fprintf(&sb, "%s %s { %s }\n", s.Kind, s.Name, fieldsString(s.Fields))
	}
	for _, c := range f.Consts {
		fmt.Fprintf(&sb, "const %s %s = %s\n", c.T, c.Name, c.Value)
	}
	for _, s := range f.Services {
		fmt.Fprintf(&sb, "service %s ", s.Name)
		if s.Extends != "" {
			fmt.Fprintf(&sb, "extends %s ", s.Extends)
		}
		sb.WriteString("{ ")
		for _, fn := range s.Funcs {
			if fn.Oneway {
				sb.WriteString("oneway ")
			}
			if fn.Ret == nil {
				sb.WriteString("void ")
			} else {
				sb.WriteString(fn.Ret.String() + " ")
			}
			fmt.Fprintf(&sb, "%s(%s)", fn.Name, fieldsString(fn.Args))
			if len(fn.Throws) > 0 {
				fmt.Fprintf(&sb, " throws (%s)", fieldsString(fn.Throws))
			}
			sb.WriteString(", ")
		}
		sb.WriteString("}\n")
	}
	for _, r := range f.Raw {
		sb.WriteString(r + "\n")
	}
	s := sb.String()
	if f.Truncate > 0 && f.Truncate < len(s) {
		s = s[:f.Truncate]
	}
	return s
}

func (p *GProg) Texts() map[string]string {
	m := map[string]string{}
	for _, f := range p.Files {
		m[f.Path] = f.Render()
	}
	return m
}

// depth of every file below the main file (shortest include distance); -1 = unreachable
func (p *GProg) Depths() []int {
	idx := map[string]int{}
	for i, f := range p.Files {
		idx[f.Path] = i
	}
	d := make([]int, len(p.Files))
	for i := range d {
		d[i] = -1
	}
	d[0] = 0
	queue := []int{0}
	for len(queue) > 0 {
		i := queue[0]
		queue = queue[1:]
		for _, inc := range p.Files[i].Includes {
			if j, ok := idx[inc]; ok && d[j] < 0 {
				d[j] = d[i] + 1
				queue = append(queue, j)
			}
		}
	}
	return d
}

func (f *GFile) byKind(kind string) []*GStruct {
	var out []*GStruct
	for _, s := range f.Structs {
		if s.Kind == kind {
			out = append(out, s)
		}
	}
	return out
}

// ---------------------------------------------------------------- minimal fixed base

// minimalBase: three files main -> inc1 -> inc2 with fixed names; every kind and every
// reference style once.  Failures on it have seed-independent replay keys.
func minimalBase() *GProg {
	mk := func(path, ns string, k int, incs ...string) *GFile {
		s := fmt.Sprint(k)
		f := &GFile{Path: path, Namespace: ns, Includes: incs}
		f.Enums = []*GEnum{{Name: "E" + s, Values: []GEnumVal{{"A", ""}, {"B", "5"}}}}
		f.Structs = []*GStruct{
			{Kind: "struct", Name: "S" + s, Fields: []*GField{{ID: 1, Name: "a", T: base("i32"), Default: "1"}, {ID: 2, Name: "b", T: base("string")}, {ID: 3, Name: "e", T: ref("E" + s), Default: "E" + s + ".B"}}},
			{Kind: "union", Name: "U" + s, Fields: []*GField{{ID: 1, Name: "a", T: base("i32")}, {ID: 2, Name: "b", T: base("string")}}},
			{Kind: "exception", Name: "X" + s, Fields: []*GField{{ID: 1, Name: "msg", T: base("string")}, {ID: 2, Name: "code", T: base("i32")}}},
		}
		f.Typedefs = []*GTypedef{{Alias: "T" + s, T: base("i64")}, {Alias: "TS" + s, T: ref("S" + s)}}
		f.Consts = []*GConst{{Name: "C" + s, T: base("i32"), Value: "7"}, {Name: "CS" + s, T: ref("S" + s), Value: `{"a": 2}`}, {Name: "CE" + s, T: ref("E" + s), Value: "E" + s + ".A"}}
		f.Services = []*GService{
			{Name: "Base" + s, Funcs: []*GFunc{{Name: "ping"}}},
			{Name: "Sv" + s, Extends: "Base" + s, Funcs: []*GFunc{
				{Name: "f", Ret: ref("S" + s), Args: []*GField{{ID: 1, Name: "x", T: base("i32")}, {ID: 2, Name: "y", T: ref("T" + s)}}, Throws: []*GField{{ID: 1, Name: "e1", T: ref("X" + s)}, {ID: 2, Name: "e2", T: ref("X" + s)}}},
				{Name: "g", Oneway: true, Args: []*GField{{ID: 1, Name: "x", T: base("i32")}}},
			}},
		}
		return f
	}
	f2 := mk("inc2.thrift", "p2", 2)
	f1 := mk("inc1.thrift", "p1", 1, "inc2.thrift")
	f1.Structs[0].Fields = append(f1.Structs[0].Fields, &GField{ID: 4, Name: "q", T: ref("inc2.S2")})
	f1.Typedefs = append(f1.Typedefs, &GTypedef{Alias: "TQ1", T: ref("inc2.T2")})
	f0 := mk("main.thrift", "p0", 0, "inc1.thrift")
	f0.Structs[0].Fields = append(f0.Structs[0].Fields, &GField{ID: 4, Name: "q", T: ref("inc1.S1")}, &GField{ID: 5, Name: "l", T: &GType{Kind: "list", V: ref("inc1.TQ1")}})
	f0.Consts = append(f0.Consts, &GConst{Name: "CQ0", T: base("i32"), Value: "inc1.C1"}, &GConst{Name: "CQE0", T: ref("inc1.E1"), Value: "inc1.E1.A"})
	f0.Services[1].Extends = "inc1.Sv1"
	return &GProg{Files: []*GFile{f0, f1, f2}}
}

// ---------------------------------------------------------------- random valid base

var baseNames = []string{"bool", "byte", "i8", "i16", "i32", "i64", "double", "string", "binary"}
var intNames = []string{"byte", "i16", "i32", "i64"}

type fileSyms struct {
	enums    []*GEnum
	structs  []string // struct + union names (usable as field types)
	excs     []string
	typedefs map[string]string // alias -> "int" | "string" | "enum:<qualified enum>" | "struct:<name>" | "other"
	services []string
	intConst []string
}

type gen struct {
	r    *vl.Rng
	p    *GProg
	syms []*fileSyms
	uniq int
}

func (g *gen) id(prefix string) string {
	g.uniq++
	return fmt.Sprintf("%s%d", prefix, g.uniq)
}

// genBase builds a valid program of 3..5 files.
func genBase(seed uint64) *GProg {
	g := &gen{r: vl.NewRng(seed)}
	n := 3 + g.r.Intn(3)
	paths := make([]string, n)
	for i := range paths {
		switch {
		case i == 0:
			paths[i] = "main.thrift"
		case i == n-1 && g.r.Bool():
			paths[i] = "sub/deep.thrift"
		default:
			paths[i] = fmt.Sprintf("f%d_%s.thrift", i, g.r.Pick([]string{"a", "b", "data", "x_y"}))
		}
	}
	g.p = &GProg{Files: make([]*GFile, n)}
	g.syms = make([]*fileSyms, n)
	incl := make([][]int, n)
	// chain 0 -> 1 -> 2 guarantees depth 2; every file j>0 has an includer i<j
	for j := 1; j < n; j++ {
		i := j - 1
		if j > 2 {
			i = g.r.Intn(j)
		}
		incl[i] = append(incl[i], j)
	}
	for i := 0; i < n; i++ {
		for j := i + 1; j < n; j++ {
			has := false
			for _, x := range incl[i] {
				has = has || x == j
			}
			if !has && g.r.Chance(30) {
				incl[i] = append(incl[i], j) // diamonds
			}
		}
		sort.Ints(incl[i])
	}
	for i := n - 1; i >= 0; i-- {
		g.genFile(i, paths, incl[i])
	}
	return g.p
}

func (g *gen) genFile(i int, paths []string, incs []int) {
	r := g.r
	f := &GFile{Path: paths[i]}
	if r.Chance(70) {
		f.Namespace = fmt.Sprintf("pkg%d.v%d", i, r.Intn(3))
	}
	for _, j := range incs {
		f.Includes = append(f.Includes, paths[j])
	}
	s := &fileSyms{typedefs: map[string]string{}}
	g.p.Files[i] = f
	g.syms[i] = s

	// enums
	for k := 0; k < 1+r.Intn(2); k++ {
		e := &GEnum{Name: g.id("En")}
		next := int64(r.Intn(3))
		for v := 0; v < 2+r.Intn(3); v++ {
			ev := GEnumVal{Name: g.id("V")}
			if r.Chance(50) {
				next += int64(1 + r.Intn(5))
				if r.Chance(20) {
					ev.Val = fmt.Sprintf("0x%x", next)
				} else {
					ev.Val = fmt.Sprint(next)
				}
			} else {
				next++
			}
			e.Values = append(e.Values, ev)
		}
		f.Enums = append(f.Enums, e)
		s.enums = append(s.enums, e)
	}
	// exceptions first (so that structs may not depend on order anyway)
	for k := 0; k < 1+r.Intn(2); k++ {
		x := &GStruct{Kind: "exception", Name: g.id("Ex")}
		x.Fields = []*GField{{ID: 1, Name: "msg", T: base("string")}}
		if r.Bool() {
			x.Fields = append(x.Fields, &GField{ID: 2, Name: "code", T: base("i32"), Default: fmt.Sprint(r.Intn(100))})
		}
		f.Structs = append(f.Structs, x)
		s.excs = append(s.excs, x.Name)
	}
	// typedefs of base types
	ta := g.id("Td")
	f.Typedefs = append(f.Typedefs, &GTypedef{Alias: ta, T: base(r.Pick(intNames))})
	s.typedefs[ta] = "int"
	tb := g.id("Td")
	f.Typedefs = append(f.Typedefs, &GTypedef{Alias: tb, T: ref(ta)}) // chain
	s.typedefs[tb] = "int"
	if r.Bool() {
		tc := g.id("Td")
		f.Typedefs = append(f.Typedefs, &GTypedef{Alias: tc, T: base("string")})
		s.typedefs[tc] = "string"
	}
	// qualified typedef
	if len(incs) > 0 && r.Chance(70) {
		j := incs[r.Intn(len(incs))]
		pre := g.p.Files[j].Prefix()
		var aliases []string
		for a, k := range g.syms[j].typedefs {
			if k == "int" {
				aliases = append(aliases, a)
			}
		}
		sort.Strings(aliases)
		if len(aliases) > 0 {
			tq := g.id("Tq")
			f.Typedefs = append(f.Typedefs, &GTypedef{Alias: tq, T: ref(pre + "." + r.Pick(aliases))})
			s.typedefs[tq] = "int"
		}
	}
	// structs and unions
	ns := 1 + r.Intn(3)
	for k := 0; k < ns+1; k++ {
		kind := "struct"
		if k == ns {
			kind = "union"
		}
		st := &GStruct{Kind: kind, Name: g.id(map[string]string{"struct": "St", "union": "Un"}[kind])}
		nf := 2 + r.Intn(4)
		id := 0
		for q := 0; q < nf; q++ {
			id += 1 + r.Intn(3)
			fl := &GField{ID: id, Name: g.id("f")}
			if r.Chance(8) && kind == "struct" {
				fl.ID = -(q + 1)
			}
			fl.T = g.fieldType(i, incs, 2)
			if kind == "struct" {
				fl.Req = r.Pick([]string{"", "", "optional", "required"})
				fl.Default = g.defaultFor(i, fl.T)
			}
			st.Fields = append(st.Fields, fl)
		}
		f.Structs = append(f.Structs, st)
		s.structs = append(s.structs, st.Name)
		if kind == "struct" && r.Chance(40) {
			ts := g.id("Ts")
			f.Typedefs = append(f.Typedefs, &GTypedef{Alias: ts, T: ref(st.Name)})
			s.typedefs[ts] = "struct:" + st.Name
		}
	}
	if r.Chance(60) {
		te := g.id("Te")
		f.Typedefs = append(f.Typedefs, &GTypedef{Alias: te, T: ref(s.enums[0].Name)})
		s.typedefs[te] = "enum:" + s.enums[0].Name
	}
	if r.Chance(50) {
		tl := g.id("Tl")
		f.Typedefs = append(f.Typedefs, &GTypedef{Alias: tl, T: &GType{Kind: "list", V: g.fieldType(i, incs, 1)}})
		s.typedefs[tl] = "other"
	}
	// constants
	c1 := g.id("K")
	f.Consts = append(f.Consts, &GConst{Name: c1, T: base(r.Pick(intNames)), Value: fmt.Sprint(r.Intn(100))})
	s.intConst = append(s.intConst, c1)
	f.Consts = append(f.Consts, &GConst{Name: g.id("K"), T: base("string"), Value: r.Pick([]string{`"hello"`, `'x'`, `""`})})
	e0 := s.enums[0]
	f.Consts = append(f.Consts, &GConst{Name: g.id("K"), T: ref(e0.Name), Value: e0.Name + "." + e0.Values[r.Intn(len(e0.Values))].Name})
	f.Consts = append(f.Consts, &GConst{Name: g.id("K"), T: &GType{Kind: "list", V: base("i32")}, Value: "[1, 2, " + c1 + "]"})
	f.Consts = append(f.Consts, &GConst{Name: g.id("K"), T: &GType{Kind: "map", K: base("string"), V: base("i64")}, Value: `{"a": 1, "b": 2}`})
	f.Consts = append(f.Consts, &GConst{Name: g.id("K"), T: ref(ta), Value: c1})
	if len(incs) > 0 {
		j := incs[r.Intn(len(incs))]
		pre := g.p.Files[j].Prefix()
		sj := g.syms[j]
		f.Consts = append(f.Consts, &GConst{Name: g.id("K"), T: base("i64"), Value: pre + "." + sj.intConst[0]})
		ej := sj.enums[0]
		f.Consts = append(f.Consts, &GConst{Name: g.id("K"), T: ref(pre + "." + ej.Name), Value: pre + "." + ej.Name + "." + ej.Values[0].Name})
	}
	// a struct literal constant for the first struct with a base-typed field
	for _, st := range f.byKind("struct") {
		for _, fl := range st.Fields {
			if fl.T.Kind == "base" && fl.T.Name == "i32" {
				f.Consts = append(f.Consts, &GConst{Name: g.id("K"), T: ref(st.Name), Value: fmt.Sprintf(`{"%s": 3}`, fl.Name)})
				goto doneLit
			}
		}
	}
doneLit:
	// services
	var prev string
	for k := 0; k < 1+r.Intn(2); k++ {
		sv := &GService{Name: g.id("Svc")}
		if prev != "" && r.Bool() {
			sv.Extends = prev
		} else if len(incs) > 0 && r.Chance(60) {
			j := incs[r.Intn(len(incs))]
			sv.Extends = g.p.Files[j].Prefix() + "." + g.syms[j].services[0]
		}
		for q := 0; q < 2+r.Intn(2); q++ {
			fn := &GFunc{Name: g.id("fn")}
			if r.Chance(60) {
				fn.Ret = g.fieldType(i, incs, 2)
			}
			for a := 0; a < 2+r.Intn(2); a++ {
				fn.Args = append(fn.Args, &GField{ID: a + 1, Name: g.id("a"), T: g.fieldType(i, incs, 2)})
			}
			if r.Chance(40) { // argument defaults are resolved like field defaults (4fd3a1e)
				e0 := s.enums[0]
				fn.Args = append(fn.Args, &GField{ID: len(fn.Args) + 1, Name: g.id("a"), T: ref(e0.Name), Default: e0.Name + "." + e0.Values[0].Name},
					&GField{ID: len(fn.Args) + 2, Name: g.id("a"), T: base("i32"), Default: s.intConst[0]})
			}
			nt := 1 + r.Intn(2)
			if q == 0 {
				nt = 2
			}
			for a := 0; a < nt; a++ {
				fn.Throws = append(fn.Throws, &GField{ID: a + 1, Name: g.id("e"), T: g.excType(i, incs)})
			}
			sv.Funcs = append(sv.Funcs, fn)
		}
		sv.Funcs = append(sv.Funcs, &GFunc{Name: g.id("ow"), Oneway: true, Args: []*GField{{ID: 1, Name: g.id("a"), T: base("i32")}}})
		f.Services = append(f.Services, sv)
		s.services = append(s.services, sv.Name)
		prev = sv.Name
	}
}

func (g *gen) excType(i int, incs []int) *GType {
	r := g.r
	if len(incs) > 0 && r.Chance(40) {
		j := incs[r.Intn(len(incs))]
		return ref(g.p.Files[j].Prefix() + "." + g.syms[j].excs[0])
	}
	return ref(r.Pick(g.syms[i].excs))
}

func (g *gen) fieldType(i int, incs []int, depth int) *GType {
	r := g.r
	s := g.syms[i]
	c := r.Intn(100)
	switch {
	case c < 30:
		return base(r.Pick(baseNames))
	case c < 40 && depth > 0:
		return &GType{Kind: "list", V: g.fieldType(i, incs, depth-1)}
	case c < 45 && depth > 0:
		return &GType{Kind: "set", V: base(r.Pick([]string{"i32", "string", "i64"}))}
	case c < 55 && depth > 0:
		return &GType{Kind: "map", K: base(r.Pick([]string{"i32", "string", "i64"})), V: g.fieldType(i, incs, depth-1)}
	case c < 65:
		return ref(s.enums[r.Intn(len(s.enums))].Name)
	case c < 75 && len(s.structs) > 0:
		return ref(r.Pick(s.structs))
	case c < 85:
		var as []string
		for a := range s.typedefs {
			as = append(as, a)
		}
		sort.Strings(as)
		return ref(r.Pick(as))
	case len(incs) > 0:
		j := incs[r.Intn(len(incs))]
		pre := g.p.Files[j].Prefix()
		sj := g.syms[j]
		switch r.Intn(3) {
		case 0:
			return ref(pre + "." + sj.enums[0].Name)
		case 1:
			if len(sj.structs) > 0 {
				return ref(pre + "." + r.Pick(sj.structs))
			}
		}
		var as []string
		for a := range sj.typedefs {
			as = append(as, a)
		}
		sort.Strings(as)
		return ref(pre + "." + r.Pick(as))
	}
	return base("i32")
}

func (g *gen) defaultFor(i int, t *GType) string {
	r := g.r
	if !r.Chance(45) {
		return ""
	}
	s := g.syms[i]
	switch t.Kind {
	case "base":
		switch t.Name {
		case "bool":
			return r.Pick([]string{"true", "false"})
		case "string":
			return `"dflt"`
		case "binary":
			return ""
		case "double":
			return r.Pick([]string{"1.5", "2", "-0.25"})
		default:
			if r.Chance(30) && len(s.intConst) > 0 {
				return s.intConst[0]
			}
			return fmt.Sprint(r.Intn(50))
		}
	case "list":
		if t.V.Kind == "base" && t.V.Name == "i32" {
			return "[1, 2]"
		}
	case "ref":
		for _, e := range s.enums {
			if e.Name == t.Name {
				return e.Name + "." + e.Values[0].Name
			}
		}
		if s.typedefs[t.Name] == "int" {
			return fmt.Sprint(r.Intn(9))
		}
	}
	return ""
}
