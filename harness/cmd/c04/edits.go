package main

// The rule catalogue of C04 as edits of a valid abstract program.  Every edit is
// (rule, variant) applied to one target file (main / directly included / deeper).

import (
	"fmt"
	"strings"

	"verifharness/internal/vl"
)

type Edit struct {
	Rule, Variant string
	// Apply mutates p (a fresh copy of the base) at file fi; false = not applicable there.
	Apply      func(p *GProg, fi int) bool
	SyntaxBad  bool // expected to be stopped while loading
	BackendBad bool // expected to be stopped by the backend's constant typing
	GraphEdit  bool // edits the include graph: applied once per program, target = which file starts the cycle
	NoR        bool // run without -r although the backend has to find it (the file is a used include)
	FixedOnly  bool // only on the fixed three-file program (relies on its include being used)
	Valid      bool // a control: the edited program is still valid and must be accepted
}

type Case struct {
	Base       string // "minimal" or "seed:<n>"
	Rule       string
	Variant    string
	Pos        string // main | inc | deep | cmdline | base
	Prog       *GProg
	BaseProg   *GProg // the unedited program (for protected-line computation)
	Args       []string
	Recursive  bool
	FlagsBad   bool
	TargetsBad bool
	SyntaxBad  bool
	BackendBad bool
	Valid      bool // unedited base program or a valid command line: must be accepted
}

func maxID(fs []*GField) int {
	m := 0
	for _, f := range fs {
		if f.ID > m {
			m = f.ID
		}
	}
	return m
}

func firstOf(f *GFile, kind string) *GStruct {
	ss := f.byKind(kind)
	if len(ss) == 0 {
		return nil
	}
	return ss[0]
}

// fields of the given container of file f: struct | union | exception | args | throws
func container(f *GFile, c string) *[]*GField {
	switch c {
	case "struct", "union", "exception":
		if s := firstOf(f, c); s != nil {
			return &s.Fields
		}
	case "args":
		for _, s := range f.Services {
			for _, fn := range s.Funcs {
				if len(fn.Args) >= 1 {
					return &fn.Args
				}
			}
		}
	case "throws":
		for _, s := range f.Services {
			for _, fn := range s.Funcs {
				if len(fn.Throws) >= 1 {
					return &fn.Throws
				}
			}
		}
	}
	return nil
}

func incPrefix(p *GProg, f *GFile) (string, *GFile) {
	if len(f.Includes) == 0 {
		return "", nil
	}
	for _, g := range p.Files {
		if g.Path == f.Includes[0] {
			return g.Prefix(), g
		}
	}
	return "", nil
}

func addDef(f *GFile, kind, name string) {
	switch kind {
	case "typedef":
		f.Typedefs = append(f.Typedefs, &GTypedef{Alias: name, T: base("i32")})
	case "const":
		f.Consts = append(f.Consts, &GConst{Name: name, T: base("i32"), Value: "1"})
	case "struct", "union", "exception":
		f.Structs = append(f.Structs, &GStruct{Kind: kind, Name: name})
	case "service":
		f.Services = append(f.Services, &GService{Name: name})
	case "enum":
		f.Enums = append(f.Enums, &GEnum{Name: name, Values: []GEnumVal{{"ZZV", ""}}})
	}
}

func nameOf(f *GFile, kind string) string {
	switch kind {
	case "typedef":
		return f.Typedefs[0].Alias
	case "const":
		return f.Consts[0].Name
	case "struct", "union", "exception":
		if s := firstOf(f, kind); s != nil {
			return s.Name
		}
	case "service":
		return f.Services[0].Name
	case "enum":
		return f.Enums[0].Name
	}
	return ""
}

func catalogue() []Edit {
	var es []Edit
	add := func(rule, variant string, ap func(p *GProg, fi int) bool) *Edit {
		es = append(es, Edit{Rule: rule, Variant: variant, Apply: ap})
		return &es[len(es)-1]
	}
	// ---- duplicate names in the global scope
	for _, pr := range [][2]string{{"struct", "struct"}, {"const", "typedef"}, {"service", "const"}, {"exception", "union"},
		{"typedef", "service"}, {"struct", "enum"}, {"enum", "enum"}, {"enum", "typedef"}} {
		newKind, oldKind := pr[0], pr[1]
		add("dup_global", newKind+"_vs_"+oldKind, func(p *GProg, fi int) bool {
			f := p.Files[fi]
			n := nameOf(f, oldKind)
			if n == "" {
				return false
			}
			addDef(f, newKind, n)
			return true
		})
	}
	// ---- duplicate field names / ids
	for _, c := range []string{"struct", "union", "exception", "args", "throws"} {
		c := c
		add("dup_field_name", c, func(p *GProg, fi int) bool {
			fs := container(p.Files[fi], c)
			if fs == nil || len(*fs) == 0 {
				return false
			}
			nf := (*fs)[0].clone()
			nf.ID = maxID(*fs) + 1
			nf.NoID = false
			nf.Default = ""
			*fs = append(*fs, nf)
			return true
		})
		add("dup_field_id", c, func(p *GProg, fi int) bool {
			fs := container(p.Files[fi], c)
			if fs == nil || len(*fs) == 0 || (*fs)[0].NoID {
				return false
			}
			nf := (*fs)[0].clone()
			nf.Name = "zz_dup_id"
			nf.Default = ""
			*fs = append(*fs, nf)
			return true
		})
	}
	add("dup_function", "same_service", func(p *GProg, fi int) bool {
		s := p.Files[fi].Services[len(p.Files[fi].Services)-1]
		if len(s.Funcs) == 0 {
			return false
		}
		c := *s.Funcs[0]
		c.Args, c.Throws = cloneFields(c.Args), cloneFields(c.Throws)
		s.Funcs = append(s.Funcs, &c)
		return true
	})
	// ---- the throws list of a function with a return value shares <func>_result with field 0 `success` (ef66a8a)
	for _, v := range []struct {
		name          string
		void, inArgs  bool
		id            int
		field         string
		second, valid bool
	}{{"name_success/nonvoid", false, false, 1, "success", false, false}, {"id_zero/nonvoid", false, false, 0, "zz_e", false, false},
		{"name_success/nonvoid_second_entry", false, false, 2, "success", true, false}, {"id_zero/nonvoid_second_entry", false, false, 0, "zz_e", true, false},
		{"name_success/void", true, false, 1, "success", false, true}, {"id_zero/void", true, false, 0, "zz_e", false, true},
		{"name_success/argument", false, true, 1, "success", false, true}, {"id_zero_name_success/argument", false, true, 0, "success", false, true}} {
		v := v
		rule := "throws_reuses_success"
		if v.valid {
			rule = "control_success_elsewhere"
		}
		e := add(rule, v.name, func(p *GProg, fi int) bool {
			f := p.Files[fi]
			x := firstOf(f, "exception")
			if x == nil {
				return false
			}
			fn := &GFunc{Name: "zz"}
			if !v.void {
				fn.Ret = base("i32")
			}
			if v.inArgs {
				fn.Args = []*GField{{ID: v.id, Name: v.field, T: base("i32")}}
				fn.Throws = []*GField{{ID: 1, Name: "zz_e", T: ref(x.Name)}}
			} else {
				if v.second {
					fn.Throws = append(fn.Throws, &GField{ID: 1, Name: "zz_first", T: ref(x.Name)})
				}
				fn.Throws = append(fn.Throws, &GField{ID: v.id, Name: v.field, T: ref(x.Name)})
			}
			f.Services = append(f.Services, &GService{Name: "ZZSvc", Funcs: []*GFunc{fn}})
			return true
		})
		e.Valid = v.valid
	}
	// ---- enums
	add("dup_enum_value_name", "append", func(p *GProg, fi int) bool {
		e := p.Files[fi].Enums[0]
		e.Values = append(e.Values, GEnumVal{e.Values[0].Name, "1000"})
		return true
	})
	add("dup_enum_number", "append_pair", func(p *GProg, fi int) bool {
		e := p.Files[fi].Enums[0]
		e.Values = append(e.Values, GEnumVal{"ZZA", "777"}, GEnumVal{"ZZB", "777"})
		return true
	})
	add("dup_enum_number", "implicit_after_explicit", func(p *GProg, fi int) bool {
		e := p.Files[fi].Enums[0]
		e.Values = append(e.Values, GEnumVal{"ZZA", "901"}, GEnumVal{"ZZB", "900"}, GEnumVal{"ZZC", ""})
		return true
	})
	for _, v := range [][2]string{{"above", "2147483648"}, {"below", "-2147483649"}, {"huge", "99999999999999999999"}} {
		v := v
		add("enum_out_of_int32", v[0], func(p *GProg, fi int) bool {
			e := p.Files[fi].Enums[0]
			e.Values = append(e.Values, GEnumVal{"ZZBIG", v[1]})
			return true
		})
	}
	// ---- oneway
	oneway := func(f *GFile) *GFunc {
		for _, s := range f.Services {
			for _, fn := range s.Funcs {
				if fn.Oneway {
					return fn
				}
			}
		}
		return nil
	}
	add("oneway_nonvoid", "returns_i32", func(p *GProg, fi int) bool {
		fn := oneway(p.Files[fi])
		if fn == nil {
			return false
		}
		fn.Ret = base("i32")
		return true
	})
	add("oneway_throws", "one_exception", func(p *GProg, fi int) bool {
		f := p.Files[fi]
		fn := oneway(f)
		x := firstOf(f, "exception")
		if fn == nil || x == nil {
			return false
		}
		fn.Throws = []*GField{{ID: 1, Name: "zz_e", T: ref(x.Name)}}
		return true
	})
	// ---- base service
	for _, v := range []string{"local_unknown", "qualified_unknown", "unknown_prefix", "not_a_service", "qualified_not_a_service"} {
		v := v
		add("unknown_base_service", v, func(p *GProg, fi int) bool {
			f := p.Files[fi]
			pre, inc := incPrefix(p, f)
			s := &GService{Name: "ZZSvc"}
			switch v {
			case "local_unknown":
				s.Extends = "NoSuchService"
			case "qualified_unknown":
				if pre == "" {
					return false
				}
				s.Extends = pre + ".NoSuchService"
			case "unknown_prefix":
				s.Extends = "nosuchfile.Svc"
			case "not_a_service":
				s.Extends = firstOf(f, "struct").Name
			case "qualified_not_a_service":
				if pre == "" {
					return false
				}
				s.Extends = pre + "." + firstOf(inc, "struct").Name
			}
			f.Services = append(f.Services, s)
			return true
		})
	}
	// ---- undefined / non-type symbols used as a type
	typeSites := []string{"typedef", "const", "struct", "union", "exception", "args", "throws", "return", "list_elem", "map_key", "map_val"}
	useType := func(p *GProg, fi int, site string, t *GType) bool {
		f := p.Files[fi]
		switch site {
		case "typedef":
			f.Typedefs = append(f.Typedefs, &GTypedef{Alias: "ZZTd", T: t})
		case "const":
			f.Consts = append(f.Consts, &GConst{Name: "ZZK", T: t, Value: "1"})
		case "struct", "union", "exception", "args", "throws":
			fs := container(f, site)
			if fs == nil {
				return false
			}
			*fs = append(*fs, &GField{ID: maxID(*fs) + 1, Name: "zz_t", T: t})
		case "return":
			if len(f.Services) == 0 || len(f.Services[0].Funcs) == 0 {
				return false
			}
			f.Services[0].Funcs = append(f.Services[0].Funcs, &GFunc{Name: "zz_ret", Ret: t})
		case "list_elem":
			f.Structs = append(f.Structs, &GStruct{Kind: "struct", Name: "ZZSt", Fields: []*GField{{ID: 1, Name: "l", T: &GType{Kind: "list", V: t}}}})
		case "map_key":
			f.Structs = append(f.Structs, &GStruct{Kind: "struct", Name: "ZZSt", Fields: []*GField{{ID: 1, Name: "m", T: &GType{Kind: "map", K: t, V: base("i32")}}}})
		case "map_val":
			f.Structs = append(f.Structs, &GStruct{Kind: "struct", Name: "ZZSt", Fields: []*GField{{ID: 1, Name: "m", T: &GType{Kind: "map", K: base("string"), V: &GType{Kind: "set", V: t}}}}})
		}
		return true
	}
	for _, site := range typeSites {
		for _, style := range []string{"local", "qualified", "unknown_prefix"} {
			site, style := site, style
			if style != "local" && !(site == "struct" || site == "args" || site == "typedef" || site == "map_key") {
				continue
			}
			add("undefined_type", site+"/"+style, func(p *GProg, fi int) bool {
				pre, _ := incPrefix(p, p.Files[fi])
				var n string
				switch style {
				case "local":
					n = "NoSuchType"
				case "qualified":
					if pre == "" {
						return false
					}
					n = pre + ".NoSuchType"
				default:
					n = "nosuchfile.T"
				}
				return useType(p, fi, site, ref(n))
			})
		}
	}
	for _, v := range []string{"const/local", "service/local", "const/qualified", "service/qualified"} {
		v := v
		for _, site := range []string{"struct", "args"} {
			site := site
			add("nontype_symbol_as_type", v+"/"+site, func(p *GProg, fi int) bool {
				f := p.Files[fi]
				pre, inc := incPrefix(p, f)
				var n string
				switch v {
				case "const/local":
					n = f.Consts[0].Name
				case "service/local":
					n = f.Services[0].Name
				case "const/qualified":
					if inc == nil {
						return false
					}
					n = pre + "." + inc.Consts[0].Name
				case "service/qualified":
					if inc == nil {
						return false
					}
					n = pre + "." + inc.Services[0].Name
				}
				return useType(p, fi, site, ref(n))
			})
		}
	}
	// ---- typedef cycles
	for n := 1; n <= 4; n++ {
		n := n
		for _, used := range []bool{false, true} {
			used := used
			v := fmt.Sprintf("len%d", n)
			if used {
				v += "_used_by_field"
			}
			add("typedef_cycle", v, func(p *GProg, fi int) bool {
				f := p.Files[fi]
				for k := 1; k <= n; k++ {
					f.Typedefs = append(f.Typedefs, &GTypedef{Alias: fmt.Sprintf("ZZc%d", k), T: ref(fmt.Sprintf("ZZc%d", k%n+1))})
				}
				if used {
					f.Structs = append(f.Structs, &GStruct{Kind: "struct", Name: "ZZSt", Fields: []*GField{{ID: 1, Name: "c", T: ref("ZZc1")}}})
				}
				return true
			})
		}
	}
	for _, v := range []string{"const", "field_default", "via_chain"} {
		v := v
		add("typedef_cycle_const_ident", v, func(p *GProg, fi int) bool {
			f := p.Files[fi]
			f.Typedefs = append(f.Typedefs, &GTypedef{Alias: "ZZc1", T: ref("ZZc2")}, &GTypedef{Alias: "ZZc2", T: ref("ZZc1")})
			switch v {
			case "const":
				f.Consts = append(f.Consts, &GConst{Name: "ZZK", T: base("i32"), Value: "ZZc1.foo"})
			case "field_default":
				f.Structs = append(f.Structs, &GStruct{Kind: "struct", Name: "ZZSt", Fields: []*GField{{ID: 1, Name: "c", T: base("i32"), Default: "ZZc2.foo"}}})
			case "via_chain":
				f.Typedefs = append(f.Typedefs, &GTypedef{Alias: "ZZc0", T: ref("ZZc1")})
				f.Consts = append(f.Consts, &GConst{Name: "ZZK", T: &GType{Kind: "list", V: base("i32")}, Value: "[1, ZZc0.foo]"})
			}
			return true
		})
	}
	// ---- constants: undefined / ambiguous identifiers
	for _, form := range []string{"plain", "sel_unknown", "enum_value_unknown", "inc_unknown", "inc_enum_value_unknown", "inc_unknown_enum"} {
		for _, site := range []string{"const", "field_default", "list_elem", "map_value", "arg_default"} {
			form, site := form, site
			e := add("undefined_const", form+"/"+site, func(p *GProg, fi int) bool {
				f := p.Files[fi]
				pre, inc := incPrefix(p, f)
				var id string
				switch form {
				case "plain":
					id = "NoSuchConst"
				case "sel_unknown":
					id = "NoSuchEnum.A"
				case "enum_value_unknown":
					id = f.Enums[0].Name + ".NoSuchValue"
				case "inc_unknown":
					if inc == nil {
						return false
					}
					id = pre + ".NoSuchConst"
				case "inc_enum_value_unknown":
					if inc == nil {
						return false
					}
					id = pre + "." + inc.Enums[0].Name + ".NoSuchValue"
				case "inc_unknown_enum":
					if inc == nil {
						return false
					}
					id = pre + ".NoSuchEnum.A"
				}
				switch site {
				case "const":
					f.Consts = append(f.Consts, &GConst{Name: "ZZK", T: base("i32"), Value: id})
				case "field_default":
					f.Structs = append(f.Structs, &GStruct{Kind: "struct", Name: "ZZSt", Fields: []*GField{{ID: 1, Name: "c", T: base("i32"), Default: id}}})
				case "list_elem":
					f.Consts = append(f.Consts, &GConst{Name: "ZZK", T: &GType{Kind: "list", V: base("i32")}, Value: "[1, " + id + "]"})
				case "map_value":
					f.Consts = append(f.Consts, &GConst{Name: "ZZK", T: &GType{Kind: "map", K: base("string"), V: base("i32")}, Value: `{"k": ` + id + "}"})
				case "arg_default":
					if form != "plain" {
						return false
					}
					f.Services = append(f.Services, &GService{Name: "ZZSvc", Funcs: []*GFunc{{Name: "zz", Args: []*GField{{ID: 1, Name: "a", T: base("i32"), Default: id}}}}})
				}
				return true
			})
			_ = e // since 4fd3a1e ResolveFunction resolves the defaults of arguments too: a resolver-stage rejection
		}
	}
	add("ambiguous_const", "enum_named_like_include", func(p *GProg, fi int) bool {
		f := p.Files[fi]
		pre, inc := incPrefix(p, f)
		if inc == nil {
			return false
		}
		k := inc.Consts[0].Name
		f.Enums = append(f.Enums, &GEnum{Name: pre, Values: []GEnumVal{{k, ""}}})
		f.Consts = append(f.Consts, &GConst{Name: "ZZK", T: base("i32"), Value: pre + "." + k})
		return true
	})
	// two readings of one dotted identifier: `zq.b.c` = constant c of include "zq.b.thrift" = value c of enum b of include "zq.thrift"
	for _, site := range []string{"const", "field_default", "arg_default", "throws_default", "list_elem"} {
		site := site
		e := add("ambiguous_const", "dotted_include_file/"+site, func(p *GProg, fi int) bool {
			f := p.Files[fi]
			p.Files = append(p.Files,
				&GFile{Path: "zq.b.thrift", Namespace: "zqb", Consts: []*GConst{{Name: "c", T: base("i32"), Value: "1"}}},
				&GFile{Path: "zq.thrift", Namespace: "zq", Enums: []*GEnum{{Name: "b", Values: []GEnumVal{{"c", ""}}}}})
			f.Includes = append(f.Includes, "zq.b.thrift", "zq.thrift")
			id := "zq.b.c"
			switch site {
			case "const":
				f.Consts = append(f.Consts, &GConst{Name: "ZZK", T: base("i32"), Value: id})
			case "field_default":
				f.Structs = append(f.Structs, &GStruct{Kind: "struct", Name: "ZZSt", Fields: []*GField{{ID: 1, Name: "c", T: base("i32"), Default: id}}})
			case "arg_default":
				f.Services = append(f.Services, &GService{Name: "ZZSvc", Funcs: []*GFunc{{Name: "zz", Args: []*GField{{ID: 1, Name: "a", T: base("i32"), Default: id}}}}})
			case "throws_default":
				x := firstOf(f, "exception")
				if x == nil {
					return false
				}
				f.Services = append(f.Services, &GService{Name: "ZZSvc", Funcs: []*GFunc{{Name: "zz", Throws: []*GField{{ID: 1, Name: "e", T: ref(x.Name), Default: `{"` + x.Fields[0].Name + `": ` + id + "}"}}}}})
			case "list_elem":
				f.Consts = append(f.Consts, &GConst{Name: "ZZK", T: &GType{Kind: "list", V: base("i32")}, Value: "[1, " + id + "]"})
			}
			return true
		})
		e.GraphEdit = true
	}
	// ---- constants of the wrong kind (backend)
	for _, v := range []string{"string_for_int/const", "string_for_int/field_default", "double_for_int/const", "list_for_int/const",
		"unknown_field_in_struct_literal/const", "unknown_field_in_struct_literal/field_default", "int_key_in_struct_literal/const",
		"ident_key_in_struct_literal/const", "string_for_struct/const", "int_for_string/const", "nested_string_for_int/const",
		"bool_ident_for_enum/const", "bool_ident_for_struct/const"} {
		v := v
		e := add("const_kind_mismatch", v, func(p *GProg, fi int) bool {
			f := p.Files[fi]
			st := firstOf(f, "struct")
			k := f.Consts[0].Name
			switch v {
			case "string_for_int/const":
				f.Consts = append(f.Consts, &GConst{Name: "ZZK", T: base("i32"), Value: `"str"`})
			case "string_for_int/field_default":
				f.Structs = append(f.Structs, &GStruct{Kind: "struct", Name: "ZZSt", Fields: []*GField{{ID: 1, Name: "c", T: base("i64"), Default: `"str"`}}})
			case "double_for_int/const":
				f.Consts = append(f.Consts, &GConst{Name: "ZZK", T: base("i16"), Value: "1.5"})
			case "list_for_int/const":
				f.Consts = append(f.Consts, &GConst{Name: "ZZK", T: base("i32"), Value: "[1]"})
			case "unknown_field_in_struct_literal/const":
				f.Consts = append(f.Consts, &GConst{Name: "ZZK", T: ref(st.Name), Value: `{"no_such_field": 1}`})
			case "unknown_field_in_struct_literal/field_default":
				f.Structs = append(f.Structs, &GStruct{Kind: "struct", Name: "ZZSt", Fields: []*GField{{ID: 1, Name: "c", T: ref(st.Name), Default: `{"no_such_field": 1}`}}})
			case "int_key_in_struct_literal/const":
				f.Consts = append(f.Consts, &GConst{Name: "ZZK", T: ref(st.Name), Value: `{1: 1}`})
			case "ident_key_in_struct_literal/const":
				f.Consts = append(f.Consts, &GConst{Name: "ZZK", T: ref(st.Name), Value: "{" + k + ": 1}"})
			case "string_for_struct/const":
				f.Consts = append(f.Consts, &GConst{Name: "ZZK", T: ref(st.Name), Value: `"str"`})
			case "int_for_string/const":
				f.Consts = append(f.Consts, &GConst{Name: "ZZK", T: base("string"), Value: "5"})
			case "nested_string_for_int/const":
				f.Consts = append(f.Consts, &GConst{Name: "ZZK", T: &GType{Kind: "list", V: base("i32")}, Value: `[1, "two"]`})
			case "bool_ident_for_enum/const":
				f.Consts = append(f.Consts, &GConst{Name: "ZZK", T: ref(f.Enums[0].Name), Value: "true"})
			case "bool_ident_for_struct/const":
				// (for lists, sets and maps the backend deliberately falls back to an empty literal: DESIGN §7, outside the catalogue)
				f.Consts = append(f.Consts, &GConst{Name: "ZZK", T: ref(st.Name), Value: "false"})
			}
			return true
		})
		e.BackendBad = true
	}
	// ---- defaults in throws lists and argument lists are typed by the backend through the synthesized
	// <func>_args / <func>_result structs
	for _, v := range []string{"unknown_field/throws_default", "int_for_exception/throws_default", "string_for_exception/throws_default",
		"int_key/throws_default", "wrong_member_type/throws_default", "second_entry/throws_default", "qualified_exception/throws_default",
		"string_for_int/arg_default", "unknown_field/arg_default", "int_for_exception/throws_of_existing_function",
		"int_for_exception/throws_of_existing_function_no_r", "string_for_int/arg_of_existing_function_no_r"} {
		v := v
		e := add("const_kind_mismatch", v, func(p *GProg, fi int) bool {
			f := p.Files[fi]
			x := firstOf(f, "exception")
			st := firstOf(f, "struct")
			if x == nil || st == nil {
				return false
			}
			thr := func(fs ...*GField) {
				f.Services = append(f.Services, &GService{Name: "ZZSvc", Funcs: []*GFunc{{Name: "zz", Throws: fs}}})
			}
			arg := func(fs ...*GField) {
				f.Services = append(f.Services, &GService{Name: "ZZSvc", Funcs: []*GFunc{{Name: "zz", Args: fs}}})
			}
			existing := func() *GFunc {
				for _, s := range f.Services {
					for _, fn := range s.Funcs {
						if !fn.Oneway {
							return fn
						}
					}
				}
				return nil
			}
			switch v {
			case "unknown_field/throws_default":
				thr(&GField{ID: 1, Name: "e", T: ref(x.Name), Default: `{"no_such_field": 1}`})
			case "int_for_exception/throws_default":
				thr(&GField{ID: 1, Name: "e", T: ref(x.Name), Default: "5"})
			case "string_for_exception/throws_default":
				thr(&GField{ID: 1, Name: "e", T: ref(x.Name), Default: `"boom"`})
			case "int_key/throws_default":
				thr(&GField{ID: 1, Name: "e", T: ref(x.Name), Default: `{1: "x"}`})
			case "wrong_member_type/throws_default":
				thr(&GField{ID: 1, Name: "e", T: ref(x.Name), Default: `{"` + x.Fields[0].Name + `": 5}`}) // msg is a string
			case "second_entry/throws_default":
				thr(&GField{ID: 1, Name: "e1", T: ref(x.Name)}, &GField{ID: 2, Name: "e2", T: ref(x.Name), Default: "5"})
			case "qualified_exception/throws_default":
				pre, inc := incPrefix(p, f)
				if inc == nil || firstOf(inc, "exception") == nil {
					return false
				}
				thr(&GField{ID: 1, Name: "e", T: ref(pre + "." + firstOf(inc, "exception").Name), Default: "5"})
			case "string_for_int/arg_default":
				arg(&GField{ID: 1, Name: "a", T: base("i32"), Default: `"str"`})
			case "unknown_field/arg_default":
				arg(&GField{ID: 1, Name: "a", T: ref(st.Name), Default: `{"no_such_field": 1}`})
			case "int_for_exception/throws_of_existing_function", "int_for_exception/throws_of_existing_function_no_r":
				fn := existing()
				if fn == nil {
					return false
				}
				fn.Throws = append(fn.Throws, &GField{ID: maxID(fn.Throws) + 1, Name: "zz_e", T: ref(x.Name), Default: "5"})
			case "string_for_int/arg_of_existing_function_no_r":
				fn := existing()
				if fn == nil {
					return false
				}
				fn.Args = append(fn.Args, &GField{ID: maxID(fn.Args) + 1, Name: "zz_a", T: base("i64"), Default: `"str"`})
			}
			return true
		})
		e.BackendBad = true
		if strings.HasSuffix(v, "_no_r") {
			e.NoR, e.FixedOnly = true, true
		}
	}
	// ---- union
	// every requiredness of the two default-carrying members (CheckUnions only warns about `required`)
	reqs := []string{"", "optional", "required"}
	reqName := map[string]string{"": "default", "optional": "optional", "required": "required"}
	for _, shape := range []string{"new_union", "existing_union", "second_union_in_file", "plain_member_between"} {
		for _, r1 := range reqs {
			for _, r2 := range reqs {
				shape, r1, r2 := shape, r1, r2
				if shape != "new_union" && r1 != "required" && r2 != "required" && !(r1 == "" && r2 == "") {
					continue // the other shapes: the required combinations and the plain one
				}
				add("union_second_default", shape+"/"+reqName[r1]+"_"+reqName[r2], func(p *GProg, fi int) bool {
					f := p.Files[fi]
					a := &GField{ID: 1, Name: "zz_a", Req: r1, T: base("i32"), Default: "1"}
					b := &GField{ID: 2, Name: "zz_b", Req: r2, T: base("string"), Default: `"x"`}
					switch shape {
					case "new_union":
						f.Structs = append(f.Structs, &GStruct{Kind: "union", Name: "ZZUn", Fields: []*GField{a, b}})
					case "second_union_in_file":
						f.Structs = append(f.Structs, &GStruct{Kind: "union", Name: "ZZUn0", Fields: []*GField{{ID: 1, Name: "x", T: base("i32")}, {ID: 2, Name: "y", Req: "required", T: base("i32"), Default: "3"}}},
							&GStruct{Kind: "union", Name: "ZZUn", Fields: []*GField{a, b}})
					case "plain_member_between":
						b.ID = 3
						f.Structs = append(f.Structs, &GStruct{Kind: "union", Name: "ZZUn", Fields: []*GField{a, {ID: 2, Name: "zz_m", Req: "required", T: base("i64")}, b}})
					case "existing_union":
						u := firstOf(f, "union")
						if u == nil {
							return false
						}
						a.ID, b.ID = maxID(u.Fields)+1, maxID(u.Fields)+2
						u.Fields = append(u.Fields, a, b)
					}
					return true
				})
			}
		}
	}
	// ---- include graph
	for n := 1; n <= 4; n++ {
		n := n
		for _, hang := range []bool{false, true} {
			hang := hang
			v := fmt.Sprintf("len%d", n)
			if hang {
				v += "_not_through_target"
			}
			e := add("include_cycle", v, func(p *GProg, fi int) bool {
				f := p.Files[fi]
				mk := func(k int) *GFile {
					return &GFile{Path: fmt.Sprintf("zzc%d.thrift", k), Structs: []*GStruct{{Kind: "struct", Name: fmt.Sprintf("ZZC%d", k)}}}
				}
				if !hang {
					if n == 1 {
						f.Includes = append(f.Includes, f.Path)
						return true
					}
					// f -> zzc1 -> … -> zzc(n-1) -> f
					prev := f
					for k := 1; k < n; k++ {
						g := mk(k)
						prev.Includes = append(prev.Includes, g.Path)
						p.Files = append(p.Files, g)
						prev = g
					}
					prev.Includes = append(prev.Includes, f.Path)
					return true
				}
				// f -> zzc1 -> … -> zzcn -> zzc1
				prev := f
				var first *GFile
				for k := 1; k <= n; k++ {
					g := mk(k)
					if first == nil {
						first = g
					}
					prev.Includes = append(prev.Includes, g.Path)
					p.Files = append(p.Files, g)
					prev = g
				}
				prev.Includes = append(prev.Includes, first.Path)
				return true
			})
			e.GraphEdit = true
		}
	}
	e := add("missing_include", "no_such_file", func(p *GProg, fi int) bool {
		p.Files[fi].Includes = append(p.Files[fi].Includes, "no_such_file.thrift")
		return true
	})
	e.SyntaxBad = true
	// ---- syntax
	for _, v := range [][2]string{{"unclosed_brace", "struct ZZ {"}, {"missing_field_name", "struct ZZ { 1: i32 }"},
		{"unterminated_literal", `const string zz = "abc`}, {"garbage", "@@@ ???"}, {"missing_const_value", "const i32 zz ="},
		{"bad_keyword", "structt ZZ {}"}, {"unclosed_comment", "/* never closed"}} {
		v := v
		e := add("syntax_error", v[0], func(p *GProg, fi int) bool {
			p.Files[fi].Raw = append(p.Files[fi].Raw, v[1])
			return true
		})
		e.SyntaxBad = true
	}
	e = add("syntax_error", "truncated_file", func(p *GProg, fi int) bool {
		f := p.Files[fi]
		txt := f.Render()
		i := strings.LastIndex(txt, "{")
		if i < 0 {
			return false
		}
		f.Truncate = i + 2 // "… {" and one more byte: an unclosed block
		return true
	})
	e.SyntaxBad = true
	return es
}

type cmdEdit struct {
	Variant    string
	Args       func(be, main string) []string
	FlagsBad   bool
	TargetsBad bool
	SyntaxBad  bool
	Valid      bool
}

func cmdCatalogue() []cmdEdit {
	return []cmdEdit{
		{Variant: "unknown_flag", FlagsBad: true, Args: func(be, m string) []string { return []string{"-g", be, "-o", "out", "--no-such-flag", m} }},
		{Variant: "bad_flag_value", FlagsBad: true, Args: func(be, m string) []string {
			return []string{"-g", be, "-o", "out", "--plugin-time-limit=abc", m}
		}},
		{Variant: "no_idl", FlagsBad: true, Args: func(be, m string) []string { return []string{"-g", be, "-o", "out"} }},
		{Variant: "two_idls", FlagsBad: true, Args: func(be, m string) []string { return []string{"-g", be, "-o", "out", m, m} }},
		{Variant: "flag_missing_value", FlagsBad: true, Args: func(be, m string) []string { return []string{m, "-o", "out", "-g"} }},
		{Variant: "missing_file", SyntaxBad: true, Args: func(be, m string) []string { return []string{"-g", be, "-o", "out", "no_such_idl.thrift"} }},
		{Variant: "directory_as_idl", SyntaxBad: true, Args: func(be, m string) []string { return []string{"-g", be, "-o", "out", "."} }},
		{Variant: "no_backend", TargetsBad: true, Args: func(be, m string) []string { return []string{"-o", "out", m} }},
		{Variant: "unknown_backend", TargetsBad: true, Args: func(be, m string) []string { return []string{"-g", "cobol", "-o", "out", m} }},
		{Variant: "unknown_backend_with_options", TargetsBad: true, Args: func(be, m string) []string { return []string{"-g", be + "x:gen_setter", "-o", "out", m} }},
		{Variant: "bad_bool_option", TargetsBad: true, Args: func(be, m string) []string { return []string{"-g", be + ":gen_setter=maybe", "-o", "out", m} }},
		{Variant: "bad_naming_style", TargetsBad: true, Args: func(be, m string) []string { return []string{"-g", be + ":naming_style=bogus", "-o", "out", m} }},
		{Variant: "bad_template", TargetsBad: true, Args: func(be, m string) []string { return []string{"-g", be + ":template=bogus", "-o", "out", m} }},
		{Variant: "unknown_plugin", TargetsBad: true, Args: func(be, m string) []string { return []string{"-g", be, "-p", "no_such_plugin_zz", "-o", "out", m} }},
		{Variant: "second_backend_unknown", TargetsBad: true, Args: func(be, m string) []string { return []string{"-g", be, "-g", "cobol", "-o", "out", m} }},
		{Variant: "second_backend_bad_style", TargetsBad: true, Args: func(be, m string) []string {
			return []string{"-g", be, "-g", be + ":naming_style=bogus", "-o", "out", m}
		}},
		{Variant: "second_backend_bad_template", TargetsBad: true, Args: func(be, m string) []string {
			return []string{"-g", "go", "-g", "fastgo:template=bogus", "-o", "out", m}
		}},
		{Variant: "second_backend_bad_bool", TargetsBad: true, Args: func(be, m string) []string {
			return []string{"-g", be + ":gen_setter", "-g", "go:gen_setter=maybe", "-r", "-o", "out", m}
		}},
		{Variant: "two_backends_bad_plugin", TargetsBad: true, Args: func(be, m string) []string {
			return []string{"-g", "go", "-g", "fastgo", "-p", "no_such_plugin_zz", "-o", "out", m}
		}},
		{Variant: "two_backends_valid", Valid: true, Args: func(be, m string) []string { return []string{"-g", "go", "-g", "fastgo", "-o", "out", m} }},
		{Variant: "valid_with_options", Valid: true, Args: func(be, m string) []string {
			return []string{"-g", be + ":gen_setter,naming_style=golint", "-r", "-o", "out", m}
		}},
	}
}

// positions of a program: first file of each depth class
func targets(p *GProg) map[string]int {
	d := p.Depths()
	out := map[string]int{"main": 0}
	for i, x := range d {
		if x == 1 {
			if _, ok := out["inc"]; !ok {
				out["inc"] = i
			}
		}
		if x >= 2 {
			if _, ok := out["deep"]; !ok {
				out["deep"] = i
			}
		}
	}
	return out
}

var posOrder = []string{"main", "inc", "deep"}

// buildCases: all edits at all positions for the minimal base; a seeded sample for random bases.
func buildCases(baseName string, mk func() *GProg, r *vl.Rng, exhaustive bool, perRule int) []*Case {
	var out []*Case
	b := mk()
	out = append(out, &Case{Base: baseName, Rule: "none", Variant: "base", Pos: "base", Prog: b, BaseProg: b, Valid: true, Recursive: true})
	out = append(out, &Case{Base: baseName, Rule: "none", Variant: "base", Pos: "base", Prog: b, BaseProg: b, Valid: true})
	tg := targets(b)
	cat := catalogue()
	byRule := map[string][]int{}
	var rules []string
	for i, e := range cat {
		if _, ok := byRule[e.Rule]; !ok {
			rules = append(rules, e.Rule)
		}
		byRule[e.Rule] = append(byRule[e.Rule], i)
	}
	try := func(e Edit, pos string) *Case {
		fi, ok := tg[pos]
		if !ok || (e.FixedOnly && !exhaustive) {
			return nil
		}
		p := mk()
		if !e.Apply(p, fi) {
			return nil
		}
		c := &Case{Base: baseName, Rule: e.Rule, Variant: e.Variant, Pos: pos, Prog: p, BaseProg: b, SyntaxBad: e.SyntaxBad, BackendBad: e.BackendBad, Valid: e.Valid}
		// the backend only types the constants of files it builds a scope for
		c.Recursive = e.BackendBad && pos != "main" || (!e.BackendBad && !exhaustive && r.Chance(30))
		if e.NoR {
			c.Recursive = false
		}
		return c
	}
	if exhaustive {
		for _, e := range cat {
			for _, pos := range posOrder {
				if c := try(e, pos); c != nil {
					out = append(out, c)
				}
			}
		}
	} else {
		for _, rule := range rules {
			ids := byRule[rule]
			got := 0
			for attempt := 0; attempt < 12 && got < perRule; attempt++ {
				e := cat[ids[r.Intn(len(ids))]]
				pos := posOrder[r.Intn(len(posOrder))]
				if c := try(e, pos); c != nil {
					out = append(out, c)
					got++
				}
			}
		}
	}
	// command lines
	cmds := cmdCatalogue()
	for i, ce := range cmds {
		if !exhaustive && !r.Chance(25) && i != 0 {
			continue
		}
		out = append(out, &Case{Base: baseName, Rule: "cmdline", Variant: ce.Variant, Pos: "cmdline", Prog: b, BaseProg: b,
			Args: ce.Args("@BE@", b.Files[0].Path), FlagsBad: ce.FlagsBad, TargetsBad: ce.TargetsBad, SyntaxBad: ce.SyntaxBad, Valid: ce.Valid})
	}
	return out
}

// regressionCases: the inputs on which the property failed before the repairs in /repo
// (69b2ce1, 0b3502e, 58e7614, 4fd3a1e, a421c57, 035596c).  They run first.
// aimedCases: fixed inputs for shapes a sampled edit may miss (run on every seed, right after the regression items)
func aimedCases() []*Case {
	type fl struct {
		path  string
		lines []string
	}
	mk := func(name string, recursive, backendBad bool, files ...fl) *Case {
		p := &GProg{}
		b := &GProg{}
		for _, f := range files {
			p.Files = append(p.Files, &GFile{Path: f.path, Raw: f.lines})
			b.Files = append(b.Files, &GFile{Path: f.path})
		}
		return &Case{Base: "regression", Rule: "aimed_" + strings.SplitN(name, "/", 2)[0], Variant: name, Pos: "main", Prog: p, BaseProg: b, Recursive: recursive, BackendBad: backendBad}
	}
	ab := fl{"a.b.thrift", []string{"const i32 c = 1"}}
	a := fl{"a.thrift", []string{"enum b { c }"}}
	inc := []string{`include "a.b.thrift"`, `include "a.thrift"`}
	with := func(lines ...string) []string { return append(append([]string{}, inc...), lines...) }
	ex := "exception E { 1: string m, 2: i32 code }"
	var out []*Case
	for _, v := range []struct {
		n string
		l string
	}{{"const", "const i32 x = a.b.c"}, {"field_default", "struct S { 1: i32 f = a.b.c }"}, {"arg_default", "service S { void f(1: i32 p = a.b.c) }"},
		{"list_elem", "const list<i32> l = [1, a.b.c]"}, {"map_value", `const map<string,i32> mm = {"k": a.b.c}`}} {
		out = append(out, mk("ambiguous_dotted_include/"+v.n, false, false, fl{"main.thrift", with(v.l)}, ab, a))
	}
	for _, r := range []bool{false, true} {
		n := "ambiguous_dotted_include/in_included_file"
		if r {
			n += "_r"
		}
		out = append(out, mk(n, r, false, fl{"main.thrift", []string{`include "u.thrift"`, "struct M { 1: i32 a }"}},
			fl{"u.thrift", with("const i32 x = a.b.c")}, ab, a))
	}
	for _, v := range []struct {
		n string
		l string
	}{{"unknown_field", `service S { void f() throws (1: E e = {"nosuch": 1}) }`}, {"int_for_exception", "service S { void f() throws (1: E e = 5) }"},
		{"string_for_exception", `service S { void f() throws (1: E e = "boom") }`}, {"int_key", `service S { void f() throws (1: E e = {1: "x"}) }`},
		{"wrong_member_type", `service S { void f() throws (1: E e = {"code": "abc"}) }`},
		{"second_entry", `service S { i32 f(1: i32 a) throws (1: E e1, 2: E e2 = {"m": 7}) }`},
		{"string_for_int_argument", `service S { void f(1: i32 a = "s") }`}, {"unknown_field_in_argument", `struct A { 1: i32 x }` + "\n" + `service S { void f(1: A a = {"nosuch": 1}) }`}} {
		out = append(out, mk("throws_or_argument_default/"+v.n, false, true, fl{"main.thrift", append([]string{ex}, strings.Split(v.l, "\n")...)}))
	}
	for _, v := range []struct {
		n, l  string
		valid bool
	}{{"nonvoid_name_success", "service S { i32 g() throws (1: E success) }", false}, {"nonvoid_id_zero", "service S { i32 h() throws (0: E e) }", false},
		{"nonvoid_second_entry", "service S { string g(1: i32 a) throws (1: E e, 2: E success) }", false},
		{"void_name_success", "service S { void g() throws (1: E success) }", true}, {"void_id_zero", "service S { void h() throws (0: E e) }", true},
		{"argument_name_success", "service S { i32 g(1: i32 success) }", true}, {"argument_id_zero", "service S { i32 g(0: i32 success) throws (1: E e) }", true}} {
		c := mk("throws_reuses_success/"+v.n, false, false, fl{"main.thrift", []string{ex, v.l}})
		c.Valid = v.valid
		if v.valid {
			c.Rule = "aimed_control_success_elsewhere"
		}
		out = append(out, c)
	}
	for _, v := range []struct{ n, l string }{
		{"required_first", "union U { 1: required i32 a = 1, 2: i32 b = 2 }"}, {"required_second", "union U { 1: i32 a = 1, 2: required i32 b = 2 }"},
		{"required_both", "union U { 1: required i32 a = 1, 2: required string b = 'x' }"}, {"required_optional", "union U { 1: required i32 a = 1, 2: optional i32 b = 2 }"},
		{"optional_required", "union U { 1: optional i32 a = 1, 2: required i32 b = 2 }"},
		{"required_then_plain_then_default", "union U { 1: required i32 a = 1, 2: required i64 m, 3: i32 b = 2 }"},
		{"second_union_in_file", "union V { 1: i32 x, 2: required i32 y = 3 }\nunion U { 1: required i32 a = 1, 2: i32 b = 2 }"}} {
		out = append(out, mk("union_second_default/"+v.n, false, false, fl{"main.thrift", strings.Split(v.l, "\n")}))
	}
	for _, r := range []bool{false, true} {
		n := "union_second_default/required_in_included_file"
		if r {
			n += "_r"
		}
		out = append(out, mk(n, r, false, fl{"main.thrift", []string{`include "un.thrift"`, "struct M { 1: un.U u }"}},
			fl{"un.thrift", []string{"union U { 1: required i32 a = 1, 2: required i32 b = 2 }"}}))
	}
	// control: one default on a required member is only a warning
	{
		c := mk("union_second_default/control_single_required_default", false, false, fl{"main.thrift", []string{"union U { 1: required i32 a = 1, 2: required i32 b }"}})
		c.Valid, c.Rule = true, "aimed_control_union_single_default"
		out = append(out, c)
	}
	for _, r := range []bool{false, true} {
		n := "throws_or_argument_default/base_service_in_included_file"
		if r {
			n += "_r"
		}
		out = append(out, mk(n, r, true, fl{"main.thrift", []string{`include "bs.thrift"`, "service S extends bs.B { void g(1: i32 a) }"}},
			fl{"bs.thrift", []string{ex, "service B { void f() throws (1: E e = 5) }"}}))
		out = append(out, mk(n+"_qualified_type", r, true, fl{"main.thrift", []string{`include "bs.thrift"`, "service S { void g() throws (1: bs.E e = 5) }"}},
			fl{"bs.thrift", []string{ex}}))
	}
	return out
}

func regressionCases() []*Case {
	mk := func(name string, valid, backendBad bool, lines ...string) *Case {
		p := &GProg{Files: []*GFile{{Path: "main.thrift", Raw: lines}}}
		return &Case{Base: "regression", Rule: "regress_" + name, Variant: name, Pos: "main", Prog: p, BaseProg: &GProg{Files: []*GFile{{Path: "main.thrift"}}},
			Valid: valid, BackendBad: backendBad}
	}
	return []*Case{
		mk("D1_typedef_cycle_const_ident", false, false, "typedef B A", "typedef A B", "const i32 x = A.foo"),
		mk("D1_typedef_cycle_field_default", false, false, "typedef B A", "typedef A B", "struct S { 1: i32 c = B.foo }"),
		mk("D1_typedef_cycle_via_chain", false, false, "typedef B A", "typedef A B", "typedef A C", "const list<i32> l = [1, C.foo]"),
		mk("D2_union_second_default", false, false, "union U { 1: i32 a = 1, 2: i32 b = 2 }"),
		mk("D3_dup_argument_name", false, false, "service S { void f(1: i32 a, 2: i32 a) }"),
		mk("D3_dup_argument_id", false, false, "service S { void f(1: i32 a, 1: i32 b) }"),
		mk("D3_dup_throws_name", false, false, "exception E {}", "exception F {}", "service S { void f() throws (1: E a, 2: F a) }"),
		mk("D3_dup_throws_id", false, false, "exception E {}", "exception F {}", "service S { void f() throws (1: E a, 1: F b) }"),
		mk("D4_bool_ident_for_enum", false, true, "enum E { A }", "const E e = true"),
		mk("D4_bool_ident_for_struct", false, true, "struct S { 1: i32 a }", "const S s = true"),
		mk("D5_undefined_argument_default", false, false, "service S { void f(1: i32 a = NoSuchConst) }"),
		mk("D5_undefined_throws_default", false, false, "exception X {}", "service S { void f() throws (1: X a = NoSuchConst) }"),
		mk("D5_valid_enum_argument_default", true, false, "enum E { A }", "service S { void f(1: E a = E.A, 2: i32 b = 3) }"),
	}
}
