package main

// Translator for C04: structural facts of the source that the Lean model takes as
// parameters, written as lean/ThriftVerif/Generated/C04.lean on every run.

import (
	"fmt"
	"go/ast"
	goparser "go/parser"
	"go/token"
	"path/filepath"
	"strings"

	"github.com/cloudwego/thriftgo/parser"
)

func parseGo(path string) (*ast.File, *token.FileSet, error) {
	fset := token.NewFileSet()
	f, err := goparser.ParseFile(fset, path, nil, 0)
	return f, fset, err
}

func findFunc(f *ast.File, recv, name string) *ast.FuncDecl {
	for _, d := range f.Decls {
		fd, ok := d.(*ast.FuncDecl)
		if !ok || fd.Name.Name != name {
			continue
		}
		if recv == "" && fd.Recv == nil {
			return fd
		}
		if recv != "" && fd.Recv != nil && len(fd.Recv.List) == 1 {
			t := fd.Recv.List[0].Type
			if s, ok := t.(*ast.StarExpr); ok {
				t = s.X
			}
			if id, ok := t.(*ast.Ident); ok && id.Name == recv {
				return fd
			}
		}
	}
	return nil
}

var checkFnLean = map[string]string{"CheckGlobals": ".globals", "CheckEnums": ".enums", "CheckStructLikes": ".structLikes",
	"CheckUnions": ".unions", "CheckFunctions": ".functions"}

func extractCheckOrder(f *ast.File) ([]string, error) {
	fd := findFunc(f, "checker", "CheckAll")
	if fd == nil {
		return nil, fmt.Errorf("checker.CheckAll not found")
	}
	var out []string
	found := false
	ast.Inspect(fd.Body, func(n ast.Node) bool {
		cl, ok := n.(*ast.CompositeLit)
		if !ok || found {
			return true
		}
		if _, ok := cl.Type.(*ast.ArrayType); !ok {
			return true
		}
		found = true
		for _, e := range cl.Elts {
			sel, ok := e.(*ast.SelectorExpr)
			if !ok {
				out = append(out, "?")
				continue
			}
			out = append(out, sel.Sel.Name)
		}
		return false
	})
	if !found {
		return nil, fmt.Errorf("CheckAll: the `checks` slice literal was not found")
	}
	for _, n := range out {
		if _, ok := checkFnLean[n]; !ok {
			return nil, fmt.Errorf("CheckAll runs a check the model does not know: %s", n)
		}
	}
	return out, nil
}

func extractUnionSets(f *ast.File) (bool, error) {
	fd := findFunc(f, "checker", "CheckUnions")
	if fd == nil {
		return false, fmt.Errorf("checker.CheckUnions not found")
	}
	sets := false
	ast.Inspect(fd.Body, func(n ast.Node) bool {
		as, ok := n.(*ast.AssignStmt)
		if !ok || as.Tok != token.ASSIGN {
			return true
		}
		for i, l := range as.Lhs {
			if id, ok := l.(*ast.Ident); ok && id.Name == "hasDefault" {
				// `hasDefault = false` would not count
				if i < len(as.Rhs) {
					if v, ok := as.Rhs[i].(*ast.Ident); ok && v.Name == "false" {
						continue
					}
				}
				sets = true
			}
		}
		return true
	})
	return sets, nil
}

var catByName = map[string]parser.Category{
	"Category_Constant": parser.Category_Constant, "Category_Bool": parser.Category_Bool, "Category_Byte": parser.Category_Byte,
	"Category_I16": parser.Category_I16, "Category_I32": parser.Category_I32, "Category_I64": parser.Category_I64,
	"Category_Double": parser.Category_Double, "Category_String": parser.Category_String, "Category_Binary": parser.Category_Binary,
	"Category_Map": parser.Category_Map, "Category_List": parser.Category_List, "Category_Set": parser.Category_Set,
	"Category_Enum": parser.Category_Enum, "Category_Struct": parser.Category_Struct, "Category_Union": parser.Category_Union,
	"Category_Exception": parser.Category_Exception, "Category_Typedef": parser.Category_Typedef, "Category_Service": parser.Category_Service,
}

func selName(e ast.Expr) string {
	if s, ok := e.(*ast.SelectorExpr); ok {
		return s.Sel.Name
	}
	return ""
}

// the bounds of `c >= parser.Category_X && c <= parser.Category_Y` in ResolveType (both occurrences must agree)
func extractTypeCats(f *ast.File) ([]string, error) {
	fd := findFunc(f, "resolver", "ResolveType")
	if fd == nil {
		return nil, fmt.Errorf("resolver.ResolveType not found")
	}
	type bounds struct{ lo, hi string }
	var all []bounds
	ast.Inspect(fd.Body, func(n ast.Node) bool {
		be, ok := n.(*ast.BinaryExpr)
		if !ok || be.Op != token.LAND {
			return true
		}
		l, ok1 := be.X.(*ast.BinaryExpr)
		r, ok2 := be.Y.(*ast.BinaryExpr)
		if ok1 && ok2 && l.Op == token.GEQ && r.Op == token.LEQ && selName(l.Y) != "" && selName(r.Y) != "" {
			all = append(all, bounds{selName(l.Y), selName(r.Y)})
		}
		return true
	})
	if len(all) == 0 {
		return nil, fmt.Errorf("ResolveType: no `c >= A && c <= B` category test found")
	}
	for _, b := range all {
		if b != all[0] {
			return nil, fmt.Errorf("ResolveType: the local and the include branch accept different categories: %v", all)
		}
	}
	lo, ok1 := catByName[all[0].lo]
	hi, ok2 := catByName[all[0].hi]
	if !ok1 || !ok2 {
		return nil, fmt.Errorf("ResolveType: unknown category bounds %v", all[0])
	}
	var out []string
	for _, p := range []struct {
		lean string
		c    parser.Category
	}{{".constant", parser.Category_Constant}, {".enum", parser.Category_Enum}, {".struct", parser.Category_Struct},
		{".union", parser.Category_Union}, {".exception", parser.Category_Exception}, {".typedef", parser.Category_Typedef},
		{".service", parser.Category_Service}} {
		if p.c >= lo && p.c <= hi {
			out = append(out, p.lean)
		}
	}
	return out, nil
}

func extractHandlePanicExits(f *ast.File) (bool, error) {
	fd := findFunc(f, "", "handlePanic")
	if fd == nil {
		return false, fmt.Errorf("main.handlePanic not found")
	}
	exits := false
	ast.Inspect(fd.Body, func(n ast.Node) bool {
		ce, ok := n.(*ast.CallExpr)
		if !ok {
			return true
		}
		if s, ok := ce.Fun.(*ast.SelectorExpr); ok && s.Sel.Name == "Exit" && len(ce.Args) == 1 {
			if lit, ok := ce.Args[0].(*ast.BasicLit); ok && lit.Value == "0" {
				return true
			}
			exits = true
		}
		return true
	})
	return exits, nil
}

var stepOf = map[string]string{"Parse": ".parseArgs", "ParseFile": ".parseFile", "CircleDetect": ".circleDetect", "CheckAll": ".checkAll",
	"ResolveSymbols": ".resolveSymbols", "UsedPlugins": ".usedPlugins", "Targets": ".targets", "Generate": ".generate", "Persist": ".persist"}

func returnsInBody(b *ast.BlockStmt) bool {
	if b == nil || len(b.List) == 0 {
		return false
	}
	_, ok := b.List[len(b.List)-1].(*ast.ReturnStmt)
	return ok
}

func callsIn(n ast.Node) []string {
	var out []string
	ast.Inspect(n, func(x ast.Node) bool {
		if ce, ok := x.(*ast.CallExpr); ok {
			if s, ok := ce.Fun.(*ast.SelectorExpr); ok {
				if _, ok := stepOf[s.Sel.Name]; ok {
					out = append(out, s.Sel.Name)
				}
			}
		}
		return true
	})
	return out
}

func isErrGuard(s ast.Stmt) bool {
	is, ok := s.(*ast.IfStmt)
	if !ok {
		return false
	}
	be, ok := is.Cond.(*ast.BinaryExpr)
	if !ok || be.Op != token.NEQ {
		return false
	}
	if id, ok := be.X.(*ast.Ident); !ok || id.Name != "err" {
		return false
	}
	return returnsInBody(is.Body)
}

// the stages of InvokeThriftgo in source order, and whether each stage that can fail is followed
// (within two statements) by `if err != nil { …; return … }` or is itself the init of a returning `if`
func extractPipeline(f *ast.File) ([]string, bool, error) {
	fd := findFunc(f, "", "InvokeThriftgo")
	if fd == nil {
		return nil, false, fmt.Errorf("sdk.InvokeThriftgo not found")
	}
	var steps []string
	guarded := true
	var walk func(list []ast.Stmt)
	walk = func(list []ast.Stmt) {
		for i, s := range list {
			switch st := s.(type) {
			case *ast.AssignStmt:
				cs := callsIn(st)
				steps = append(steps, cs...)
				for _, c := range cs {
					if c == "Generate" {
						continue // its error travels inside the response and is returned by Persist
					}
					ok := false
					for k := i + 1; k <= i+2 && k < len(list); k++ {
						ok = ok || isErrGuard(list[k])
					}
					guarded = guarded && ok
				}
			case *ast.IfStmt:
				if st.Init != nil {
					cs := callsIn(st.Init)
					steps = append(steps, cs...)
					if len(cs) > 0 && !returnsInBody(st.Body) {
						guarded = false
					}
				}
				walk(st.Body.List)
			case *ast.RangeStmt:
				walk(st.Body.List)
			case *ast.ForStmt:
				walk(st.Body.List)
			case *ast.ExprStmt:
				steps = append(steps, callsIn(st)...)
			}
		}
	}
	walk(fd.Body.List)
	return steps, guarded, nil
}

// CheckFunctions hands both f.Arguments and f.Throws to checkFunctionFields
func extractFunctionFieldsChecked(f *ast.File) bool {
	fd := findFunc(f, "checker", "CheckFunctions")
	if fd == nil || findFunc(f, "", "checkFunctionFields") == nil {
		return false
	}
	seen := map[string]bool{}
	ast.Inspect(fd.Body, func(n ast.Node) bool {
		ce, ok := n.(*ast.CallExpr)
		if !ok {
			return true
		}
		if id, ok := ce.Fun.(*ast.Ident); ok && id.Name == "checkFunctionFields" {
			for _, a := range ce.Args {
				if n := selName(a); n != "" {
					seen[n] = true
				}
			}
		}
		return true
	})
	return seen["Arguments"] && seen["Throws"]
}

// CheckFunctions passes `false` for the arguments and `!f.Void` for the throws list as the last
// argument of checkFunctionFields, which seeds ids[0] and names["success"] when it is true
func extractThrowsCountSuccess(f *ast.File) bool {
	fd := findFunc(f, "checker", "CheckFunctions")
	cf := findFunc(f, "", "checkFunctionFields")
	if fd == nil || cf == nil {
		return false
	}
	argsFalse, throwsNotVoid := false, false
	ast.Inspect(fd.Body, func(n ast.Node) bool {
		ce, ok := n.(*ast.CallExpr)
		if !ok || len(ce.Args) == 0 {
			return true
		}
		if id, ok := ce.Fun.(*ast.Ident); !ok || id.Name != "checkFunctionFields" {
			return true
		}
		which := ""
		for _, a := range ce.Args {
			if n := selName(a); n == "Arguments" || n == "Throws" {
				which = n
			}
		}
		last := ce.Args[len(ce.Args)-1]
		switch which {
		case "Arguments":
			if id, ok := last.(*ast.Ident); ok && id.Name == "false" {
				argsFalse = true
			}
		case "Throws":
			if u, ok := last.(*ast.UnaryExpr); ok && u.Op == token.NOT && selName(u.X) == "Void" {
				throwsNotVoid = true
			}
		}
		return true
	})
	// the seeding: an `if <last parameter>` whose body assigns ids[0] and names["success"]
	params := cf.Type.Params.List
	if len(params) == 0 || len(params[len(params)-1].Names) == 0 {
		return false
	}
	flag := params[len(params)-1].Names[len(params[len(params)-1].Names)-1].Name
	seedsID, seedsName := false, false
	ast.Inspect(cf.Body, func(n ast.Node) bool {
		is, ok := n.(*ast.IfStmt)
		if !ok {
			return true
		}
		if id, ok := is.Cond.(*ast.Ident); !ok || id.Name != flag {
			return true
		}
		for _, st := range is.Body.List {
			as, ok := st.(*ast.AssignStmt)
			if !ok || len(as.Lhs) != 1 {
				continue
			}
			if ix, ok := as.Lhs[0].(*ast.IndexExpr); ok {
				if lit, ok := ix.Index.(*ast.BasicLit); ok {
					seedsID = seedsID || lit.Value == "0"
					seedsName = seedsName || lit.Value == `"success"`
				}
			}
		}
		return true
	})
	return argsFalse && throwsNotVoid && seedsID && seedsName
}

// ResolveFunction calls ResolveConstValue inside the loop over Arguments and inside the loop over Throws
func extractFunctionDefaultsResolved(f *ast.File) bool {
	fd := findFunc(f, "resolver", "ResolveFunction")
	if fd == nil {
		return false
	}
	seen := map[string]bool{}
	ast.Inspect(fd.Body, func(n ast.Node) bool {
		rs, ok := n.(*ast.RangeStmt)
		if !ok {
			return true
		}
		over := selName(rs.X)
		ast.Inspect(rs.Body, func(m ast.Node) bool {
			if ce, ok := m.(*ast.CallExpr); ok {
				if s, ok := ce.Fun.(*ast.SelectorExpr); ok && s.Sel.Name == "ResolveConstValue" {
					seen[over] = true
				}
			}
			return true
		})
		return true
	})
	return seen["Arguments"] && seen["Throws"]
}

// getEnum's recursion is guarded: some function called from getEnum tests an index expression on a
// map parameter before recursing (the visited set)
func extractGetEnumGuarded(f *ast.File) bool {
	guarded := false
	for _, d := range f.Decls {
		fd, ok := d.(*ast.FuncDecl)
		if !ok || !strings.HasPrefix(fd.Name.Name, "getEnum") || fd.Body == nil {
			continue
		}
		maps := map[string]bool{}
		for _, p := range fd.Type.Params.List {
			if _, ok := p.Type.(*ast.MapType); ok {
				for _, n := range p.Names {
					maps[n.Name] = true
				}
			}
		}
		ast.Inspect(fd.Body, func(n ast.Node) bool {
			is, ok := n.(*ast.IfStmt)
			if !ok {
				return true
			}
			if ix, ok := is.Cond.(*ast.IndexExpr); ok {
				if id, ok := ix.X.(*ast.Ident); ok && maps[id.Name] && returnsInBody(is.Body) {
					guarded = true
				}
			}
			return true
		})
	}
	return guarded
}

func leanBool(b bool) string {
	if b {
		return "true"
	}
	return "false"
}

func extract(repo string) error {
	ck, _, err := parseGo(filepath.Join(repo, "semantic", "checker.go"))
	if err != nil {
		return err
	}
	sm, _, err := parseGo(filepath.Join(repo, "semantic", "semantic.go"))
	if err != nil {
		return err
	}
	mn, _, err := parseGo(filepath.Join(repo, "main.go"))
	if err != nil {
		return err
	}
	iv, _, err := parseGo(filepath.Join(repo, "sdk", "invoke.go"))
	if err != nil {
		return err
	}
	order, err := extractCheckOrder(ck)
	if err != nil {
		return err
	}
	sets, err := extractUnionSets(ck)
	if err != nil {
		return err
	}
	cats, err := extractTypeCats(sm)
	if err != nil {
		return err
	}
	exits, err := extractHandlePanicExits(mn)
	if err != nil {
		return err
	}
	steps, guarded, err := extractPipeline(iv)
	if err != nil {
		return err
	}
	w := &strings.Builder{}
	p := func(f string, a ...interface{}) { fmt.Fprintf(w, f, a...) }
	p("/- GENERATED by harness/cmd/c04 extract from the repository (semantic/checker.go, semantic/semantic.go, main.go, sdk/invoke.go). Do not edit. -/\n")
	p("import ThriftVerif.Lib.Diag\nnamespace Generated.C04\nopen Diag\n\n")
	var o []string
	for _, n := range order {
		o = append(o, checkFnLean[n])
	}
	p("/-- the `checks` slice of CheckAll, in source order -/\ndef checkOrder : List CheckFn := [%s]\n\n", strings.Join(o, ", "))
	p("/-- CheckUnions assigns `hasDefault` somewhere after declaring it -/\ndef unionSetsHasDefault : Bool := %s\n\n", leanBool(sets))
	p("/-- symbol categories c with Category_Enum <= c && c <= Category_Typedef (bounds read from ResolveType, evaluated on parser's constants) -/\n")
	p("def typeCats : List Cat := [%s]\n\n", strings.Join(cats, ", "))
	p("/-- main.handlePanic calls os.Exit with a non-zero status after recovering -/\ndef handlePanicExits : Bool := %s\n\n", leanBool(exits))
	var st []string
	for _, s := range steps {
		st = append(st, stepOf[s])
	}
	p("/-- calls of sdk.InvokeThriftgo in source order -/\ndef pipeline : List Step := [%s]\n\n", strings.Join(st, ", "))
	p("/-- every stage before Persist is followed by `if err != nil { return … }` (CircleDetect: a returning `if`) -/\ndef everyStageGuarded : Bool := %s\n\n", leanBool(guarded))
	p("/-- CheckFunctions runs checkFunctionFields on the arguments and on the throws list -/\ndef functionFieldsChecked : Bool := %s\n\n", leanBool(extractFunctionFieldsChecked(ck)))
	p("/-- ResolveFunction resolves the default values of arguments and of throws entries -/\ndef functionDefaultsResolved : Bool := %s\n\n", leanBool(extractFunctionDefaultsResolved(sm)))
	p("/-- getEnum's recursion over typedefs is guarded by a visited set -/\ndef getEnumGuarded : Bool := %s\n\n", leanBool(extractGetEnumGuarded(sm)))
	p("/-- checkFunctionFields counts field 0 `success` for the throws list of a non-void function, and only there -/\ndef throwsCountSuccess : Bool := %s\n\n", leanBool(extractThrowsCountSuccess(ck)))
	p("def cfg : Cfg := ⟨checkOrder, unionSetsHasDefault, typeCats, handlePanicExits⟩\n\nend Generated.C04\n")
	fmt.Print(w.String())
	return nil
}
