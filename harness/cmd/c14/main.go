// c14: translator (extract: probes of the panic sites), correspondence/oracle harness and replay for
// property C14 (field-mask library: queries and JSON transport agree with path semantics).
package main

import (
	"bytes"
	"encoding/json"
	"flag"
	"fmt"
	"os"
	"os/exec"
	"runtime/pprof"
	"strconv"
	"strings"
	"unicode/utf8"

	"github.com/cloudwego/thriftgo/fieldmask"

	"verifharness/internal/vl"
)

// Case is one self-contained experiment on the implementation (what a replay file holds as `input`).
type Case struct {
	IDL     string       `json:"idl"`
	Root    []string     `json:"root"`               // type tokens of the descriptor NewFieldMask is called with
	Black   bool         `json:"black"`              //
	Paths   []string     `json:"paths"`              // hex, one per path string
	AP      [][][]string `json:"ap,omitempty"`       // per path string: the abstract paths it denotes (known by construction); nil = unknown
	Op      string       `json:"op"`                 // new | query | getpath | json | unmarshal | order
	Steps   []string     `json:"steps,omitempty"`    // query / json: step tokens
	GP      string       `json:"gp,omitempty"`       // getpath: hex path
	GPAP    []string     `json:"gpap,omitempty"`     // getpath: abstract path of GP when known (single keys, no '*')
	GPTd    bool         `json:"gptd,omitempty"`     // getpath: GP walks through a typedef'd type
	Doc     string       `json:"doc,omitempty"`      // unmarshal: hex JSON document
	Alt     []string     `json:"alt,omitempty"`      // order: hex, the same abstract paths written in another order / grouping
	Docs    []string     `json:"docs,omitempty"`     // cache: hex JSON documents
	Hist    [][2]int     `json:"hist,omitempty"`     // cache: (receive buffer, document) per step; mhist: (mask, api) per step
	Masks   []MaskSpec   `json:"masks,omitempty"`    // mhist: the masks of a marshal history
	WantErr bool         `json:"want_err,omitempty"` // new: the last path writes a number that is no field id of the struct
}

func (c *Case) paths() []string {
	out := make([]string, len(c.Paths))
	for i, p := range c.Paths {
		out[i] = vl.UnHex(p)
	}
	return out
}

func (c *Case) human() map[string]interface{} {
	m := map[string]interface{}{"idl": c.IDL, "root": c.rootString(), "black": c.Black, "paths": c.paths(), "op": c.Op, "case": c}
	if c.GP != "" {
		m["getpath"] = vl.UnHex(c.GP)
	}
	if c.Doc != "" {
		m["doc"] = vl.UnHex(c.Doc)
	}
	if len(c.Steps) > 0 {
		m["steps"] = c.Steps
	}
	if len(c.Masks) > 0 {
		var ms []interface{}
		for _, x := range c.Masks {
			var ps []string
			for _, p := range x.Paths {
				ps = append(ps, vl.UnHex(p))
			}
			ms = append(ms, map[string]interface{}{"black": x.Black, "paths": ps})
		}
		m["masks"] = ms
		m["history(mask,api 0=MarshalJSON 1=Marshal 2=json.Marshal)"] = c.Hist
	}
	if len(c.Docs) > 0 {
		var ds []string
		for _, d := range c.Docs {
			ds = append(ds, vl.UnHex(d))
		}
		m["docs"] = ds
		m["history(buffer,doc)"] = c.Hist
	}
	return m
}

func (c *Case) rootString() string {
	t, _, err := parseTyToks(c.Root)
	if err != nil {
		return "?"
	}
	return t.String()
}

type fail struct {
	key, what          string
	expected, observed interface{}
}

// check runs the single op of the case on the implementation, from scratch, and returns the oracle failures.
func check(c *Case) []fail {
	var fs []fail
	w, err := world(c.IDL)
	if err != nil {
		panic(err)
	}
	root, _, err := parseTyToks(c.Root)
	if err != nil {
		panic(err)
	}
	pan := func(where, pk string) {
		if pk != "" {
			fs = append(fs, fail{"panic:" + pk, "the library panicked in " + where, "an error or a result", "panic at site " + pk})
		}
	}
	if c.Op == "cache" {
		return checkCache(c)
	}
	if c.Op == "mhist" {
		fs, _ := checkMHist(c)
		return fs
	}
	m, out, pk := w.newMask(root, c.Black, c.paths())
	pan("NewFieldMask", pk)
	var aps [][]string
	selOK := c.AP != nil
	if selOK {
		aps = flatten(c.AP)
		selOK = noStarConflict(aps)
	}
	if c.Op == "new" {
		// (a panic on a negative field id is the separate finding panic:head-negative-index)
		if c.WantErr && len(c.Paths) > 0 && out == "ok" {
			fs = append(fs, fail{"new:non-field-id-accepted", "a number that is not literally a field id of the struct was accepted as a field step (ids are exact integers, not wrapped)", "error", "a mask"})
		}
		if selOK && out != "ok" && pk != "head-negative-index" {
			fs = append(fs, fail{"new:valid-paths-rejected", "grammar-generated paths without '*' conflict were rejected", "a mask", out})
		}
		return fs
	}
	if m == nil {
		return fs
	}
	switch c.Op {
	case "query":
		_, pk, oks := runSteps(m, c.Steps)
		pan("a query sequence", pk)
		if selOK {
			q := querySteps(c.Steps)
			for j := range oks {
				exp := sel(c.Black, aps, q[:j+1])
				if oks[j] != exp {
					key := "sel:other"
					if c.Black && endsWithStar(aps) {
						key = "sel:black-terminal-star"
					}
					fs = append(fs, fail{key, fmt.Sprintf("query %v answers differently from the path set %v", q[:j+1], aps), exp, oks[j]})
					break
				}
				if !oks[j] {
					break
				}
			}
		}
	case "getpath":
		o, pk, hang := w.getPath(c, m, root, vl.UnHex(c.GP))
		pan("GetPath/PathInMask", pk)
		if hang {
			fs = append(fs, fail{"hang:getpath-backslash-under-all", "GetPath/PathInMask does not terminate (a backslash token never advances the iterator and the loop `continue`s when the mask node is 'all')", "a result", "no return within 300 ms of CPU time (twice)"})
		}
		if o == "pathinmask-differs" {
			fs = append(fs, fail{"pim:differs-from-getpath", "PathInMask and GetPath disagree", "equal", "different"})
		}
		if pk == "" && !hang && selOK && len(aps) > 0 && len(c.GPAP) > 0 {
			exp := sel(c.Black, aps, c.GPAP)
			got := strings.HasPrefix(o, "1:")
			if got != exp {
				key := "pim:other"
				switch {
				case !c.Black && structStarAbove(aps, c.GPAP):
					// a '.*' of the mask covers a prefix of the query and the query goes on below the field it picks:
					// the shared 'all' node carries the type tag of the struct's FIRST field
					key = "pim:struct-star-takes-first-field-type"
				case c.GPTd && passesWithTypedefsExpanded(w, c, exp):
					// same IDL with every typedef written out answers as expected: the typedef is the cause
					key = "pim:typedef-not-unwrapped"
				case c.Black && endsWithStar(aps):
					key = "pim:black-terminal-star"
				}
				fs = append(fs, fail{key, fmt.Sprintf("PathInMask(%q) differs from the path set %v", vl.UnHex(c.GP), aps), exp, got})
			}
		}
	case "json":
		fs = append(fs, checkJSON(m, c.Steps, aps, selOK)...)
	case "unmarshal":
		um, _, pk := unmarshalDoc([]byte(vl.UnHex(c.Doc)))
		pan("UnmarshalJSON", pk)
		if um != nil {
			_, _, pk := marshalText(um)
			pan("MarshalJSON of an unmarshalled mask", pk)
			_, pk, _ = runSteps(um, c.Steps)
			pan("a query sequence on an unmarshalled mask", pk)
		}
	case "order":
		alt := make([]string, len(c.Alt))
		for i, p := range c.Alt {
			alt[i] = vl.UnHex(p)
		}
		m2, out2, pk := w.newMask(root, c.Black, alt)
		pan("NewFieldMask", pk)
		if selOK {
			if out2 != "ok" {
				fs = append(fs, fail{"order:error-depends-on-order", "the same conflict-free path set is accepted in one order/grouping and rejected in another", "ok", out2})
			} else {
				t1, _, _ := marshalText(m)
				t2, _, _ := marshalText(m2)
				if !bytes.Equal(t1, t2) {
					fs = append(fs, fail{"order:mask-depends-on-order", "the same conflict-free path set gives different masks in different orders/groupings", string(t1), string(t2)})
				}
			}
		}
	}
	return fs
}

// checkJSON: text stability, validity, round trip (queries answer identically), cached API.
func checkJSON(m *fieldmask.FieldMask, steps []string, aps [][]string, selOK bool) []fail {
	var fs []fail
	starKey := false
	for _, p := range aps {
		for _, s := range p {
			if s == "s2a" {
				starKey = true
			}
		}
	}
	t1, o1, pk := marshalText(m)
	if pk != "" {
		return []fail{{"panic:" + pk, "the library panicked in MarshalJSON", "text", "panic"}}
	}
	if o1 != "ok" {
		return []fail{{"json:marshal-error", "MarshalJSON of a built mask returns an error", "text", "error"}}
	}
	t2, _, _ := marshalText(m)
	if !bytes.Equal(t1, t2) {
		fs = append(fs, fail{"json:text-unstable", "two MarshalJSON calls give different text", string(t1), string(t2)})
	}
	if !json.Valid(t1) {
		return append(fs, fail{"json:quote-not-json", "MarshalJSON output is not valid JSON (strconv.Quote escapes)", "valid JSON", string(t1)})
	}
	um, o, pk := unmarshalDoc(t1)
	if pk != "" {
		return append(fs, fail{"panic:" + pk, "the library panicked in UnmarshalJSON of its own output", "mask", "panic"})
	}
	if o != "ok" {
		if bytes.HasPrefix(t1, []byte(`{"path":"$","type":"Invalid"`)) {
			return append(fs, fail{"json:empty-mask-rejected", "UnmarshalJSON rejects MarshalJSON's output for a mask built from no path or only \"\" (root type \"Invalid\")", "mask", string(t1)})
		}
		return append(fs, fail{"json:own-output-rejected", "UnmarshalJSON rejects MarshalJSON's output", "mask", string(t1)})
	}
	if !selOK {
		// masks built from mutated / conflicting paths: only totality and text stability are demanded
		return fs
	}
	t3, _, _ := marshalText(um)
	badUtf8 := false
	for _, p := range aps {
		for _, st := range p {
			if st[0] == 's' && st != "s-" && !utf8.ValidString(vl.UnHex(st[1:])) {
				badUtf8 = true
			}
		}
	}
	cls := func(k string) string {
		switch {
		case starKey:
			return "json:star-key-becomes-wildcard"
		case badUtf8:
			return "json:non-utf8-key-replaced"
		case bytes.Contains(t1, []byte(`"children":[]`)):
			return "json:empty-children-becomes-all"
		}
		return k
	}
	if !bytes.Equal(t1, t3) {
		fs = append(fs, fail{cls("json:roundtrip-text"), "marshal(unmarshal(marshal m)) differs from marshal m", string(t1), string(t3)})
	}
	a, pk1, _ := runSteps(m, steps)
	b, pk2, _ := runSteps(um, steps)
	if pk1 == "" && pk2 == "" && a != b {
		fs = append(fs, fail{cls("json:roundtrip-queries"), fmt.Sprintf("queries %v answer differently after a JSON round trip", steps), a, b})
	}
	// cached API
	c1, err := fieldmask.Marshal(m)
	if err != nil || !bytes.Equal(c1, t1) {
		fs = append(fs, fail{"json:cached-marshal-differs", "fieldmask.Marshal differs from MarshalJSON", string(t1), string(c1)})
	}
	cm, err := fieldmask.Unmarshal(t1)
	if err != nil {
		fs = append(fs, fail{"json:cached-unmarshal-error", "fieldmask.Unmarshal rejects MarshalJSON's output", "mask", fmt.Sprint(err)})
	} else {
		c3, _, _ := marshalText(cm)
		if !bytes.Equal(c3, t3) {
			fs = append(fs, fail{"json:cached-unmarshal-differs", "fieldmask.Unmarshal differs from UnmarshalJSON", string(t3), string(c3)})
		}
	}
	return fs
}

// checkCache: a history through the cached fieldmask.Unmarshal API with REUSED receive buffers (every document is
// padded with trailing blanks to one length, copied into one of a few long-lived buffers, and decoded from there).
// Each answer must be the mask UnmarshalJSON builds from the same bytes.
func checkCache(c *Case) []fail {
	if !inChild {
		// the caches are process-wide: every evaluation (run, shrinking, replay) starts from empty caches in a child
		js, _ := json.Marshal(c)
		cmd := exec.Command(os.Args[0], "childcache")
		cmd.Stdin = bytes.NewReader(js)
		out, err := cmd.Output()
		if err != nil {
			panic("c14 childcache: " + err.Error())
		}
		var got []struct{ Key, What, Expected, Observed string }
		if err := json.Unmarshal(out, &got); err != nil {
			panic("c14 childcache output: " + err.Error())
		}
		var fs []fail
		for _, g := range got {
			fs = append(fs, fail{g.Key, g.What, g.Expected, g.Observed})
		}
		return fs
	}
	var fs []fail
	n := 0
	docs := make([][]byte, len(c.Docs))
	for i, d := range c.Docs {
		docs[i] = []byte(vl.UnHex(d))
		if len(docs[i]) > n {
			n = len(docs[i])
		}
	}
	bufs := map[int][]byte{}
	for step, h := range c.Hist {
		b, ok := bufs[h[0]]
		if !ok {
			b = make([]byte, n)
			bufs[h[0]] = b
		}
		for i := range b {
			b[i] = ' '
		}
		copy(b, docs[h[1]])
		want, wo, _ := unmarshalDoc(append([]byte{}, b...))
		var got *fieldmask.FieldMask
		o, pk := guard(func() string {
			fm, err := fieldmask.Unmarshal(b)
			if err != nil {
				return "err"
			}
			got = fm
			return "ok"
		})
		if pk != "" {
			fs = append(fs, fail{"panic:" + pk, "the library panicked in fieldmask.Unmarshal", "a result", "panic"})
			break
		}
		if o != wo {
			fs = append(fs, fail{"json:cached-unmarshal-differs", fmt.Sprintf("step %d of a buffer-reuse history: fieldmask.Unmarshal and UnmarshalJSON disagree about accepting %q", step, strings.TrimRight(string(b), " ")), wo, o})
			break
		}
		if o == "ok" {
			t1, _, _ := marshalText(want)
			t2, _, _ := marshalText(got)
			if !bytes.Equal(t1, t2) {
				fs = append(fs, fail{"json:cached-unmarshal-differs", fmt.Sprintf("step %d of a buffer-reuse history: fieldmask.Unmarshal(%q) returns another document's mask", step, strings.TrimRight(string(b), " ")), string(t1), string(t2)})
				break
			}
		}
	}
	return fs
}

// structStarAbove: some path of the mask has its '.*' at position i, agrees with the query before i, and the
// query has at least one more step below the field chosen at i.
func structStarAbove(aps [][]string, q []string) bool {
	for _, p := range aps {
		for i, st := range p {
			if st != "F*" {
				continue
			}
			if len(q) <= i+1 {
				break
			}
			ok := true
			for j := 0; j < i; j++ {
				if !stepMatch(p[j], q[j]) {
					ok = false
					break
				}
			}
			if ok {
				return true
			}
		}
	}
	return false
}

// passesWithTypedefsExpanded re-runs a getpath case on the same schema with every typedef reference replaced
// by its target (enums, structs and field ids kept) and tells whether PathInMask then answers `exp`.
func passesWithTypedefsExpanded(w *World, c *Case, exp bool) bool {
	w2, err := world(w.Sch.expandedIDL())
	if err != nil {
		return false
	}
	root, _, err := parseTyToks(c.Root)
	if err != nil {
		return false
	}
	root = w.Sch.deepUnwrap(root)
	m, _, _ := w2.newMask(root, c.Black, c.paths())
	if m == nil {
		return false
	}
	o, pk, hang := w2.getPath(c, m, root, vl.UnHex(c.GP))
	return pk == "" && !hang && strings.HasPrefix(o, "1:") == exp
}

func hasKey(fs []fail, key string) *fail {
	for i := range fs {
		if fs[i].key == key {
			return &fs[i]
		}
	}
	return nil
}

// shrink: drop paths, shorten the query, shorten the getpath string, while the same key still fails.
func shrink(c Case, key string) Case {
	still := func(x *Case) bool { return hasKey(check(x), key) != nil }
	for len(c.Hist) > 0 {
		x := c
		x.Hist = c.Hist[:len(c.Hist)-1]
		if !still(&x) {
			break
		}
		c = x
	}
	for i := 0; i < len(c.Hist); i++ {
		x := c
		x.Hist = append(append([][2]int{}, c.Hist[:i]...), c.Hist[i+1:]...)
		if still(&x) {
			c = x
			i--
		}
	}
	for changed := true; changed; {
		changed = false
		for i := 0; i < len(c.Paths); i++ {
			x := c
			x.Paths = append(append([]string{}, c.Paths[:i]...), c.Paths[i+1:]...)
			if c.AP != nil {
				x.AP = append(append([][][]string{}, c.AP[:i]...), c.AP[i+1:]...)
			}
			if c.Op == "order" {
				continue
			}
			if still(&x) {
				c = x
				changed = true
				i--
			}
		}
		for len(c.Steps) > 0 {
			x := c
			x.Steps = c.Steps[:len(c.Steps)-1]
			if !still(&x) {
				break
			}
			c = x
			changed = true
		}
		for i := 0; i < len(c.Steps); i++ {
			if c.Steps[i] == "a" || c.Steps[i] == "g" || c.Steps[i] == "c" {
				x := c
				x.Steps = append(append([]string{}, c.Steps[:i]...), c.Steps[i+1:]...)
				if still(&x) {
					c = x
					changed = true
					i--
				}
			}
		}
		// shorten path strings from the end (only when the abstract meaning is not needed)
		if strings.HasPrefix(key, "panic:") {
			for i := range c.Paths {
				p := vl.UnHex(c.Paths[i])
				for len(p) > 0 {
					x := c
					x.AP = nil
					x.Paths = append([]string{}, c.Paths...)
					x.Paths[i] = vl.Hex(p[:len(p)-1])
					if !still(&x) {
						break
					}
					p = p[:len(p)-1]
					c = x
					changed = true
				}
			}
			if c.GP != "" {
				p := vl.UnHex(c.GP)
				for len(p) > 0 {
					x := c
					x.GPAP = nil
					x.GP = vl.Hex(p[:len(p)-1])
					if !still(&x) {
						break
					}
					p = p[:len(p)-1]
					c = x
					changed = true
				}
			}
		}
	}
	return c
}

// ---------------------------------------------------------------- run

type runner struct {
	r    *vl.Rng
	out  *vl.Out
	pool []string // recent MarshalJSON texts (for the cached-API histories)
	// keys already reported (one shrink per key)
	seen map[string]bool
}

func (rn *runner) report(c Case, fs []fail) {
	for _, f := range fs {
		rn.out.Count("oracle-fail/" + f.key)
		if rn.seen[f.key] {
			continue
		}
		rn.seen[f.key] = true
		mc := shrink(c, f.key)
		ff := hasKey(check(&mc), f.key)
		if ff == nil {
			ff = &f
			mc = c
		}
		rn.out.Fail(vl.OracleFail{Key: f.key, What: ff.what, Input: mc.human(), Expected: ff.expected, Observed: ff.observed})
	}
}

func hexAll(ps []string) []string {
	out := make([]string, len(ps))
	for i, p := range ps {
		out[i] = vl.Hex(p)
	}
	return out
}

func (rn *runner) scenario(w *World, g *pathGen, nq int) {
	roots := w.roots()
	root := roots[g.r.Intn(len(roots))]
	if g.r.Chance(65) {
		root = roots[g.r.Intn(len(w.Sch.Structs))]
	}
	black := g.r.Chance(40)
	mode := "valid"
	if c := g.r.Intn(100); c >= 60 && c < 85 {
		mode = "mutated"
	} else if c >= 85 {
		mode = "raw"
	}
	np := g.r.Intn(5)
	if g.r.Chance(85) {
		np = 1 + g.r.Intn(4)
	}
	var paths []string
	var ap [][][]string
	for i := 0; i < np; i++ {
		p, a, _ := g.valid(root)
		switch {
		case mode == "raw" && g.r.Chance(70):
			p = g.raw()
			a = nil
			ap = nil
		case mode == "mutated" && g.r.Chance(70):
			p = g.mutate(p)
			ap = nil
		}
		paths = append(paths, p)
		if mode == "valid" {
			ap = append(ap, a)
		}
	}
	if mode != "valid" {
		ap = nil
	} else if ap == nil {
		ap = [][][]string{}
	}
	rn.out.Count("scenario/" + mode)
	rn.out.Count(fmt.Sprintf("scenario/black=%v", black))
	rn.out.Count("root-kind/" + w.Sch.kind(root))
	base := Case{IDL: w.IDL, Root: root.Toks(), Black: black, Paths: hexAll(paths), AP: ap}
	rootToks := strings.Join(root.Toks(), " ")

	// N
	m, out, _ := w.newMask(root, black, paths)
	rn.out.Case(fmt.Sprintf("N 0 %s %s %d %s", vl.B(black), rootToks, len(paths), strings.Join(hexAll(paths), " ")), out, out == "ok")
	rn.out.Count("new/" + out)
	c := base
	c.Op = "new"
	rn.report(c, check(&c))
	if len(rn.out.Samples) < 8 && out == "ok" {
		rn.out.Sample(map[string]interface{}{"root": root.String(), "black": black, "paths": paths})
	}
	aps := flatten(ap)
	conflictFree := ap != nil && noStarConflict(aps)
	if ap != nil {
		rn.out.Count(fmt.Sprintf("valid/conflict-free=%v", conflictFree))
	}
	var queries [][]string
	if m != nil {
		for i := 0; i < nq; i++ {
			steps := g.decorate(g.query(aps))
			queries = append(queries, steps)
			o, _, _ := runSteps(m, steps)
			rn.out.Case("Q 0 "+strings.Join(steps, " "), o, true)
			rn.out.Count(fmt.Sprintf("query/len=%d", len(querySteps(steps))))
			c := base
			c.Op = "query"
			c.Steps = steps
			rn.report(c, check(&c))
		}
		// GetPath / PathInMask
		for i := 0; i < 4; i++ {
			c := base
			c.Op = "getpath"
			var gp string
			switch ch := g.r.Intn(10); {
			case ch < 2 && len(paths) > 0:
				gp = paths[g.r.Intn(len(paths))]
			case ch < 7:
				p, a, td := g.valid(root)
				gp = p
				if len(a) == 1 && len(a[0]) > 0 && !strings.Contains(strings.Join(a[0], "/"), "*") {
					c.GPAP = a[0]
					c.GPTd = td
				}
			case ch < 9:
				p, _, _ := g.valid(root)
				gp = g.mutate(p)
			default:
				gp = g.raw()
			}
			c.GP = vl.Hex(gp)
			o, _, _ := w.getPath(&c, m, root, gp)
			rn.out.Case(fmt.Sprintf("P 0 %s %s", rootToks, vl.Hex(gp)), o, true)
			rn.out.Count("getpath/" + o[:1])
			rn.report(c, check(&c))
		}
		// JSON
		text, jo, _ := marshalText(m)
		if jo == "ok" && json.Valid(text) && len(text) < 400 {
			rn.pool = append(rn.pool, string(text))
			if len(rn.pool) > 24 {
				rn.pool = rn.pool[1:]
			}
		}
		if jo == "ok" {
			ct, err := canonText(string(text))
			if err != nil {
				ct = "unparsed:" + err.Error()
			}
			rn.out.Case("J 0", ct, true)
			if json.Valid(text) {
				rn.out.Case("T 0", decodeDoc(text), true)
				um, uo, _ := unmarshalDoc(text)
				rn.out.Case("U 1 "+decodeDoc(text), uo, true)
				if um != nil {
					for _, steps := range queries {
						o, _, _ := runSteps(um, steps)
						rn.out.Case("Q 1 "+strings.Join(steps, " "), o, true)
					}
					t3, o3, _ := marshalText(um)
					if o3 == "ok" {
						ct3, err := canonText(string(t3))
						if err != nil {
							ct3 = "unparsed:" + err.Error()
						}
						rn.out.Case("J 1", ct3, true)
					} else {
						rn.out.Case("J 1", o3, true)
					}
				}
			} else {
				rn.out.Count("json/not-valid-json")
			}
		} else {
			rn.out.Case("J 0", jo, true)
		}
		for _, steps := range queries {
			c := base
			c.Op = "json"
			c.Steps = steps
			rn.report(c, check(&c))
		}
		if len(queries) == 0 {
			c := base
			c.Op = "json"
			rn.report(c, check(&c))
		}
		// order / grouping
		if conflictFree && len(aps) > 0 {
			var alt []string
			ok := true
			perm := make([][]string, len(aps))
			copy(perm, aps)
			for i := len(perm) - 1; i > 0; i-- {
				j := g.r.Intn(i + 1)
				perm[i], perm[j] = perm[j], perm[i]
			}
			for _, a := range perm {
				s, k := w.renderSingle(root, a)
				if !k {
					ok = false
					break
				}
				alt = append(alt, s)
			}
			if ok {
				_, o2, _ := w.newMask(root, black, alt)
				rn.out.Case(fmt.Sprintf("N 2 %s %s %d %s", vl.B(black), rootToks, len(alt), strings.Join(hexAll(alt), " ")), o2, o2 == "ok")
				c := base
				c.Op = "order"
				c.Alt = hexAll(alt)
				rn.report(c, check(&c))
				rn.out.Count("order/checked")
			}
		}
	}
	rn.fieldIDSpellings(w, g)
	// UnmarshalJSON of mutated / random documents
	nd := 2
	for i := 0; i < nd; i++ {
		var doc []byte
		if text, jo, _ := marshalText(m); m != nil && jo == "ok" && g.r.Chance(60) {
			doc = mutateDoc(g.r, text)
		} else {
			doc = randomDoc(g.r)
		}
		dd := decodeDoc(doc)
		um, uo, _ := unmarshalDoc(doc)
		rn.out.Case("U 3 "+dd, uo, uo == "ok")
		rn.out.Count("unmarshal/" + strings.SplitN(uo, ":", 2)[0])
		steps := g.decorate(g.query(aps))
		if um != nil {
			o, _, _ := runSteps(um, steps)
			rn.out.Case("Q 3 "+strings.Join(steps, " "), o, true)
			t3, o3, _ := marshalText(um)
			if o3 == "ok" {
				ct3, err := canonText(string(t3))
				if err != nil {
					ct3 = "unparsed:" + err.Error()
				}
				rn.out.Case("J 3", ct3, true)
			} else {
				rn.out.Case("J 3", o3, true)
			}
		}
		c := Case{IDL: w.IDL, Root: root.Toks(), Op: "unmarshal", Doc: vl.Hex(string(doc)), Steps: steps}
		rn.report(c, check(&c))
	}
}

// cacheHistory: 2-3 long-lived receive buffers, 40-80 decodes of documents drawn (with repetition) from the pool of
// recent texts plus a family of near-identical documents, through the cached fieldmask.Unmarshal.
func (rn *runner) cacheHistory(w *World) {
	var docs []string
	for i := 0; i < 6; i++ {
		docs = append(docs, fmt.Sprintf(`{"path":"$","type":"Struct","is_black":false,"children":[{"path":%d,"type":"Scalar","is_black":false}]}`, 10+rn.r.Intn(90)))
	}
	docs = append(docs, rn.pool...)
	nb := 2 + rn.r.Intn(2)
	var hist [][2]int
	for i, n := 0, 40+rn.r.Intn(40); i < n; i++ {
		d := rn.r.Intn(len(docs))
		if rn.r.Chance(50) {
			d = rn.r.Intn(6)
		}
		hist = append(hist, [2]int{rn.r.Intn(nb), d})
	}
	c := Case{IDL: w.IDL, Root: []string{"n" + vl.Hex(w.Sch.Structs[0].Name)}, Op: "cache", Docs: hexAll(docs), Hist: hist}
	rn.out.Count("cache-history")
	rn.report(c, check(&c))
}

// fieldIDSpellings: `$.<spelling>` (optionally continued by a grammar path below the field) for a field with a
// non-negative id: leading zeros denote the same field (same mask as the plain id), every other spelling —
// id + 2^32*j, id + 2^16*j, 2^31-1, 2^31, 2^32-1, 2^63-1, 2^63, 2^64, 20 and 40 digit literals, "+id", "-0" —
// must be an error.
func (rn *runner) fieldIDSpellings(w *World, g *pathGen) {
	st := w.Sch.Structs[g.r.Intn(len(w.Sch.Structs))]
	var cands []Field
	for _, f := range st.Fields {
		if f.ID >= 0 && w.Sch.kind(f.Ty) != "invalid" {
			cands = append(cands, f)
		}
	}
	if len(cands) == 0 {
		return
	}
	f := cands[g.r.Intn(len(cands))]
	isField := func(v int64) bool {
		for _, x := range st.Fields {
			if int64(x.ID) == v {
				return true
			}
		}
		return false
	}
	sps := idSpellings(int(f.ID), isField)
	sp := sps[g.r.Intn(len(sps))]
	root := &Ty{K: 'n', Name: st.Name}
	tail, tailAP, _ := g.valid(f.Ty)
	path := "$." + sp.text + tail[1:]
	black := g.r.Chance(30)
	c := Case{IDL: w.IDL, Root: root.Toks(), Black: black, Paths: hexAll([]string{path}), Op: "new", WantErr: !sp.accept}
	if sp.accept {
		c.AP = [][][]string{nil}
		for _, t := range tailAP {
			c.AP[0] = append(c.AP[0], append([]string{"f" + strconv.Itoa(int(f.ID))}, t...))
		}
	}
	_, out, _ := w.newMask(root, black, []string{path})
	rn.out.Case(fmt.Sprintf("N 5 %s %s 1 %s", vl.B(black), strings.Join(root.Toks(), " "), vl.Hex(path)), out, out == "ok")
	rn.out.Count(fmt.Sprintf("field-id-spelling/accept=%v", sp.accept))
	rn.report(c, check(&c))
	if sp.accept && out == "ok" {
		// same mask as the plain spelling
		plain := "$." + strconv.Itoa(int(f.ID)) + tail[1:]
		c2 := c
		c2.Op = "order"
		c2.Alt = hexAll([]string{plain})
		rn.report(c2, check(&c2))
	}
}

func run(dir string, seed uint64, tier string) error {
	rn := &runner{r: vl.NewRng(seed), out: vl.NewOut(dir), seen: map[string]bool{}}
	nRandomIDL, nScen, nq := 26, 45, 5
	if tier == "thorough" {
		nRandomIDL, nScen, nq = 60, 700, 8
	}
	idls := append([]string{}, fixedIDLs...)
	ig := &idlGen{r: rn.r}
	for i := 0; i < nRandomIDL; i++ {
		idls = append(idls, ig.gen())
	}
	for _, c := range seeded() {
		c := c
		rn.out.Count("seeded")
		rn.report(c, check(&c))
	}
	for _, idl := range idls {
		w, err := world(idl)
		if err != nil {
			return err
		}
		rn.out.Case(w.Sch.Line(), "ok", false)
		rn.out.Count("idl")
		neg, big, td := false, false, len(w.Sch.Typedefs) > 0
		for _, st := range w.Sch.Structs {
			for _, f := range st.Fields {
				neg = neg || f.ID < 0
				big = big || f.ID > 63
			}
		}
		rn.out.Count(fmt.Sprintf("idl/neg-ids=%v", neg))
		rn.out.Count(fmt.Sprintf("idl/ids>63=%v", big))
		rn.out.Count(fmt.Sprintf("idl/typedefs=%v", td))
		g := &pathGen{r: rn.r, w: w}
		for s := 0; s < nScen; s++ {
			rn.scenario(w, g, nq)
			if s%30 == 29 {
				rn.cacheHistory(w)
			}
			if s%15 == 7 {
				rn.marshalHistory(w, g)
			}
		}
	}
	rn.out.Stats["child-process-getpath"] = childSpawns
	rn.out.Close()
	return nil
}

func replay(file string) error {
	b, err := os.ReadFile(file)
	if err != nil {
		return err
	}
	var doc struct {
		Input struct {
			Case Case `json:"case"`
		} `json:"input"`
	}
	if err := json.Unmarshal(b, &doc); err != nil {
		return err
	}
	c := doc.Input.Case
	var out []vl.OracleFail
	for _, f := range check(&c) {
		out = append(out, vl.OracleFail{Key: f.key, What: f.what, Input: c.human(), Expected: f.expected, Observed: f.observed})
	}
	if out == nil {
		out = []vl.OracleFail{}
	}
	js, _ := json.Marshal(out)
	fmt.Println(string(js))
	return nil
}

// ---------------------------------------------------------------- extract: probe the panic sites

const probeIDL = `typedef S T
struct S { -1: string neg, 1: string a, 2: list<string> l, 3: map<string,S> m, 4: T t }`

func probe(f func()) (panicked bool) {
	defer func() {
		if recover() != nil {
			panicked = true
		}
	}()
	f()
	return false
}

func extract() error {
	w, err := world(probeIDL)
	if err != nil {
		return err
	}
	root := &Ty{K: 'n', Name: "S"}
	d := w.Desc(root)
	mk := func(ps ...string) *fieldmask.FieldMask {
		m, err := fieldmask.NewFieldMask(d, ps...)
		if err != nil {
			panic("probe: " + err.Error())
		}
		return m
	}
	noop := func(string, int, *fieldmask.FieldMask) bool { return true }
	sites := []struct {
		name string
		f    func()
	}{
		{"headNeg", func() { fieldmask.NewFieldMask(d, "$.neg") }},
		{"atoi", func() { fieldmask.NewFieldMask(d, "$.99999999999999999999") }},
		{"int32", func() { fieldmask.NewFieldMask(d, "$.3000000000") }},
		{"errTok", func() { fieldmask.NewFieldMask(d, `$.m{"a}`) }},
		{"strSlice", func() { fieldmask.NewFieldMask(d, `$.m{"a\`) }},
		{"getPathStar", func() { mk("$.*").PathInMask(d, "$.*") }},
		{"fieldNilFd", func() { l, _ := mk("$.l[1]").Field(2); l.Field(0) }},
		{"foreachNilFd", func() { mk("$").ForEachChild(noop) }},
		{"foreachInvalid", func() { mk().ForEachChild(noop) }},
	}
	// behavioural switches that are not panics (true = behaviour as found)
	flags := []struct {
		name string
		f    func() bool
	}{
		{"litStall", func() bool { // lit() at a backslash: empty literal, no progress (seen in the error text only)
			_, err := fieldmask.NewFieldMask(d, "$\\")
			return err != nil && strings.Contains(err.Error(), "Lit() at")
		}},
		{"gpNoUnwrap", func() bool { return !mk("$.t.a").PathInMask(d, "$.t.a") }},
		{"gpTypAll", func() bool { return !mk("$.*").PathInMask(d, "$.l[1]") }},
		{"prefixKeeps", func() bool { // black `$.t.a` then `$.t`: as found t keeps its child map and still "has children"
			m, err := fieldmask.Options{BlackListMode: true}.NewFieldMask(d, "$.t.a", "$.t")
			if err != nil {
				panic("probe: " + err.Error())
			}
			_, ok := m.Field(4)
			return ok
		}},
		{"blackStar", func() bool {
			m, err := fieldmask.Options{BlackListMode: true}.NewFieldMask(d, "$.l[*]")
			if err != nil {
				panic("probe: " + err.Error())
			}
			l, _ := m.Field(2)
			_, ok := l.Int(3)
			return ok
		}},
	}
	var sb strings.Builder
	sb.WriteString("import ThriftVerif.Lib.FieldMask\n")
	sb.WriteString("/- GENERATED by `harness/cmd/c14 extract` (probes of the real fieldmask package); do not edit.\n   true = the site panics / the behaviour is as found on the tree under test. -/\n")
	sb.WriteString("namespace Generated.C14\ndef sites : FieldMask.Sites :=\n  { ")
	for i, s := range sites {
		if i > 0 {
			sb.WriteString(", ")
		}
		sb.WriteString(s.name + " := " + vl.LeanBool(probe(s.f)))
	}
	for _, fl := range flags {
		sb.WriteString(", " + fl.name + " := " + vl.LeanBool(fl.f()))
	}
	sb.WriteString(" }\nend Generated.C14\n")
	fmt.Print(sb.String())
	return nil
}

func main() {
	flag.String("repo", "/repo", "unused: the package under test is linked in through go.mod's replace")
	dir := flag.String("dir", ".", "")
	seed := flag.Uint64("seed", 1, "")
	tier := flag.String("tier", "quick", "")
	file := flag.String("file", "", "")
	if len(os.Args) < 2 {
		fmt.Fprintln(os.Stderr, "usage: c14 extract|run|replay [flags]")
		os.Exit(3)
	}
	flag.CommandLine.Parse(os.Args[2:])
	var err error
	switch os.Args[1] {
	case "extract":
		err = extract()
	case "run":
		if pf := os.Getenv("C14_PROF"); pf != "" {
			f, _ := os.Create(pf)
			pprof.StartCPUProfile(f)
			defer pprof.StopCPUProfile()
		}
		err = run(*dir, *seed, *tier)
	case "replay":
		err = replay(*file)
	case "child":
		err = child()
	case "childmhist":
		err = childMHist()
	case "childcache":
		inChild = true
		var c Case
		if err = json.NewDecoder(os.Stdin).Decode(&c); err == nil {
			type o struct{ Key, What, Expected, Observed string }
			res := []o{}
			for _, f := range checkCache(&c) {
				res = append(res, o{f.key, f.what, fmt.Sprint(f.expected), fmt.Sprint(f.observed)})
			}
			js, _ := json.Marshal(res)
			fmt.Println(string(js))
		}
	default:
		err = fmt.Errorf("usage: c14 extract|run|replay")
	}
	if err != nil {
		fmt.Fprintln(os.Stderr, "c14:", err)
		os.Exit(3)
	}
	_ = strconv.Itoa
}
