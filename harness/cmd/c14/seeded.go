package main

import "verifharness/internal/vl"

// seeded: one minimal case per finding made while this check was built, evaluated on every run
// (so a finding is reproduced, or seen repaired, independently of the seed).
func seeded() []Case {
	s := fixedIDLs[1]
	p := fixedIDLs[2]
	rs := []string{"n" + vl.Hex("S")}
	rp := []string{"n" + vl.Hex("P")}
	h := func(ps ...string) []string { return hexAll(ps) }
	return []Case{
		{IDL: s, Root: rs, Paths: h("$.neg"), Op: "new"},
		{IDL: s, Root: rs, Paths: h("$.99999999999999999999"), Op: "new"},
		{IDL: s, Root: rs, Paths: h("$.3000000000"), Op: "new"},
		{IDL: s, Root: rs, Paths: h(`$.m{"a}`), Op: "new"},
		{IDL: s, Root: rs, Paths: h(`$.m{"a\`), Op: "new"},
		{IDL: s, Root: rs, Paths: h("$.*"), Op: "getpath", GP: vl.Hex("$.*")},
		{IDL: s, Root: rs, Paths: h("$.l[1]"), Op: "query", Steps: []string{"f2", "f0"}},
		{IDL: s, Root: rs, Paths: h("$"), Op: "query", Steps: []string{"c"}},
		{IDL: s, Root: rs, Paths: h(), Op: "query", Steps: []string{"c"}},
		{IDL: s, Root: rs, Op: "unmarshal", Doc: vl.Hex(`{"path":"$","type":"Struct","children":[{"path":-1,"type":"Scalar"}]}`)},
		{IDL: s, Root: rs, Paths: h("$.m{*}"), Op: "getpath", GP: vl.Hex(`$.m{\`)},
		{IDL: s, Root: rs, Black: true, Paths: h("$.l[*]"), AP: [][][]string{{{"f2", "*"}}}, Op: "query", Steps: []string{"f2", "i3"}},
		{IDL: s, Root: rs, Paths: h(`$.m{"*"}`), AP: [][][]string{{{"f3", "s2a"}}}, Op: "json", Steps: []string{"f3", "s61"}},
		{IDL: s, Root: rs, Paths: h(`$.m{"\x01"}`), AP: [][][]string{{{"f3", "s01"}}}, Op: "json"},
		{IDL: s, Root: rs, Paths: h(), AP: [][][]string{}, Op: "json"},
		{IDL: p, Root: rp, Paths: h("$.self.self"), AP: [][][]string{{{"f8", "f8"}}}, Op: "getpath", GP: vl.Hex("$.self.self"), GPAP: []string{"f8", "f8"}, GPTd: true},
		{IDL: s, Root: rs, Paths: h("$.*"), AP: [][][]string{{{"F*"}}}, Op: "getpath", GP: vl.Hex("$.s.a"), GPAP: []string{"f4", "f1"}},
		{IDL: s, Root: rs, Black: true, Paths: h("$.l[*]"), AP: [][][]string{{{"f2", "*"}}}, Op: "getpath", GP: vl.Hex("$.l[3]"), GPAP: []string{"f2", "i3"}},
		// numbers are exact integers: nothing is wrapped modulo 2^32 or 2^16
		{IDL: s, Root: rs, Paths: h("$.4294967297"), Op: "new", WantErr: true},
		{IDL: s, Root: rs, Paths: h("$.1099511627777.a"), Op: "new", WantErr: true},
		{IDL: s, Root: rs, Paths: h("$.65537"), Op: "new", WantErr: true},
		{IDL: s, Root: rs, Paths: h("$.+1"), Op: "new", WantErr: true},
		{IDL: s, Root: rs, Paths: h("$.-0"), Op: "new", WantErr: true},
		{IDL: s, Root: rs, Paths: h("$.18446744073709551617"), Op: "new", WantErr: true},
		{IDL: s, Root: rs, Paths: h("$.001"), AP: [][][]string{{{"f1"}}}, Op: "query", Steps: []string{"f1"}},
		{IDL: s, Root: rs, Paths: h("$.l[4294967297]"), AP: [][][]string{{{"f2", "i4294967297"}}}, Op: "query", Steps: []string{"f2", "i1"}},
		{IDL: s, Root: rs, Paths: h("$.im{4294967298,65538}"), AP: [][][]string{{{"f5", "i4294967298"}, {"f5", "i65538"}}}, Op: "query", Steps: []string{"f5", "i2"}},
		{IDL: s, Root: rs, Paths: h("$.im{4294967298}"), AP: [][][]string{{{"f5", "i4294967298"}}}, Op: "getpath", GP: vl.Hex("$.im{2}"), GPAP: []string{"f5", "i2"}},
	}
}
