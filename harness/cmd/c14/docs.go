package main

import (
	"bytes"
	"fmt"
	"strings"

	"verifharness/internal/vl"
)

var docPaths = []string{`"$"`, `"*"`, `0`, `1`, `2`, `-1`, `63`, `64`, `2147483648`, `-2147483649`, `4294967296`, `9223372036854775808`,
	`1.0`, `1e2`, `null`, `"a"`, `"b"`, `""`, `"$"`, `"*"`, `true`, `{}`, `[1]`, ` 1`, `"1"`}
var docTypes = []string{`"Struct"`, `"List"`, `"IntMap"`, `"StrMap"`, `"Scalar"`, `"Invalid"`, `"Bogus"`, `"struct"`, `3`, `null`, `""`}

// mutateDoc edits a MarshalJSON text: path values, type names, is_black, children.
func mutateDoc(r *vl.Rng, text []byte) []byte {
	s := string(text)
	n := 1 + r.Intn(2)
	for i := 0; i < n; i++ {
		switch r.Intn(8) {
		case 0, 1, 2: // replace the value of one "path"
			idx := allIndex(s, `"path":`)
			if len(idx) == 0 {
				continue
			}
			at := idx[r.Intn(len(idx))] + len(`"path":`)
			end := strings.Index(s[at:], `,"type"`)
			if end < 0 {
				continue
			}
			s = s[:at] + docPaths[r.Intn(len(docPaths))] + s[at+end:]
		case 3: // replace one type
			idx := allIndex(s, `"type":`)
			if len(idx) == 0 {
				continue
			}
			at := idx[r.Intn(len(idx))] + len(`"type":`)
			end := strings.Index(s[at:], `,"is_black"`)
			if end < 0 {
				continue
			}
			s = s[:at] + docTypes[r.Intn(len(docTypes))] + s[at+end:]
		case 4:
			if r.Bool() {
				s = strings.Replace(s, `"is_black":false`, `"is_black":true`, 1)
			} else {
				s = strings.Replace(s, `"is_black":true`, `"is_black":null`, 1)
			}
		case 5: // duplicate the first child
			at := strings.Index(s, `"children":[{`)
			if at < 0 {
				continue
			}
			st := at + len(`"children":[`)
			depth, j := 0, st
			for ; j < len(s); j++ {
				if s[j] == '{' {
					depth++
				} else if s[j] == '}' {
					depth--
					if depth == 0 {
						j++
						break
					}
				}
			}
			if depth == 0 && j <= len(s) {
				s = s[:j] + "," + s[st:j] + s[j:]
			}
		case 6:
			s = strings.Replace(s, `"children":[`, `"children":[{"path":"*","type":"Scalar"},`, 1)
		default:
			if len(s) > 0 {
				s = s[:r.Intn(len(s))]
			}
		}
	}
	return []byte(s)
}

func allIndex(s, sub string) []int {
	var out []int
	for off := 0; ; {
		i := strings.Index(s[off:], sub)
		if i < 0 {
			return out
		}
		out = append(out, off+i)
		off += i + len(sub)
	}
}

// randomDoc writes a document from scratch.
func randomDoc(r *vl.Rng) []byte {
	if r.Chance(6) {
		return []byte(r.Pick([]string{"null", "[]", "{}", `"$"`, "", "{", `{"path":"$"}`, `{"path":"$","type":"Struct","children":null}`}))
	}
	var b bytes.Buffer
	var node func(d int, root bool)
	node = func(d int, root bool) {
		p := docPaths[r.Intn(len(docPaths))]
		if root && r.Chance(90) {
			p = `"$"`
		} else if !root && r.Chance(55) {
			p = docPaths[2+r.Intn(7)]
		}
		t := docTypes[r.Intn(len(docTypes))]
		if r.Chance(80) {
			t = docTypes[r.Intn(5)]
		}
		fmt.Fprintf(&b, `{"path":%s,"type":%s`, p, t)
		if r.Chance(70) {
			fmt.Fprintf(&b, `,"is_black":%v`, r.Bool())
		}
		if d > 0 && r.Chance(70) {
			b.WriteString(`,"children":[`)
			n := r.Intn(4)
			for i := 0; i < n; i++ {
				if i > 0 {
					b.WriteString(",")
				}
				node(d-1, false)
			}
			b.WriteString("]")
		}
		b.WriteString("}")
	}
	node(3, true)
	return b.Bytes()
}
