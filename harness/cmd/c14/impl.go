package main

import (
	"bytes"
	"encoding/json"
	"fmt"
	"os"
	"os/exec"
	"runtime/debug"
	"sort"
	"strconv"
	"strings"
	"syscall"
	"time"

	"github.com/cloudwego/thriftgo/fieldmask"

	"verifharness/internal/vl"
)

// panicKey maps a recovered panic to the stable key of its site (same keys as FieldMask.Site.key).
func panicKey(r interface{}, stack string) string {
	msg := fmt.Sprint(r)
	switch {
	case strings.Contains(msg, "index out of range [-"):
		return "head-negative-index"
	case strings.Contains(msg, "strconv.Atoi"):
		return "atoi-overflow"
	case strings.Contains(msg, "integer overflow"):
		return "int32-overflow"
	case strings.Contains(msg, "unspported pathType"):
		return "err-token"
	case strings.Contains(msg, "slice bounds out of range"):
		return "str-slice-oob"
	case strings.Contains(msg, "unsupported FieldMask type"):
		return "foreach-invalid-type"
	case strings.Contains(msg, "nil pointer dereference"):
		switch {
		case strings.Contains(stack, "fieldmask.(*fieldMap).Get"):
			return "field-nil-fdmask"
		case strings.Contains(stack, "fieldmask.(*FieldMask).ForEachChild"):
			return "foreach-nil-fdmask"
		case strings.Contains(stack, "fieldmask.(*FieldMask).marshalRec"):
			return "marshal-nil-fdmask"
		case strings.Contains(stack, "fieldmask.(*FieldMask).GetPath"):
			return "getpath-star-nil-field"
		}
		return "nil-deref-elsewhere"
	}
	return "other:" + msg
}

// guard runs f; a panic becomes the outcome "panic:<key>".
func guard(f func() string) (out string, pkey string) {
	defer func() {
		if r := recover(); r != nil {
			pkey = panicKey(r, string(debug.Stack()))
			out = "panic:" + pkey
		}
	}()
	return f(), ""
}

func sig(m *fieldmask.FieldMask) string {
	if m == nil {
		return "nil"
	}
	return fmt.Sprintf("t%da%sb%se%s", int(m.Type()), vl.B(m.All()), vl.B(m.IsBlack()), vl.B(m.Exist()))
}

// newMask: NewFieldMask under recover.
func (w *World) newMask(root *Ty, black bool, paths []string) (m *fieldmask.FieldMask, out string, pkey string) {
	out, pkey = guard(func() string {
		fm, err := fieldmask.Options{BlackListMode: black}.NewFieldMask(w.Desc(root), paths...)
		if err != nil {
			return "err"
		}
		m = fm
		return "ok"
	})
	if out != "ok" {
		m = nil
	}
	return
}

type childObs struct {
	isStr bool
	i     int
	s     string
	sig   string
}

// runSteps follows the step tokens on the implementation; mirrors Driver.C14.runSteps.
// oks[i] is the boolean a query step answered (only for f/i/s steps), in order.
func runSteps(m *fieldmask.FieldMask, steps []string) (out string, pkey string, oks []bool) {
	var acc []string
	cur := m
	for _, t := range steps {
		var piece string
		one, pk := guard(func() string {
			switch {
			case t == "a":
				return "a" + vl.B(cur.All())
			case t == "g":
				return "g" + sig(cur)
			case t == "c":
				var obs []childObs
				isStr := cur != nil && cur.Type() == fieldmask.FtStrMap
				cur.ForEachChild(func(sk string, ik int, c *fieldmask.FieldMask) bool {
					if c == nil {
						return true
					}
					obs = append(obs, childObs{isStr, ik, sk, sig(c)})
					return true
				})
				sort.Slice(obs, func(a, b int) bool {
					if isStr {
						return obs[a].s < obs[b].s
					}
					return obs[a].i < obs[b].i
				})
				var ps []string
				for _, o := range obs {
					if o.isStr {
						ps = append(ps, "s"+vl.Hex(o.s)+"="+o.sig)
					} else {
						ps = append(ps, "i"+strconv.Itoa(o.i)+"="+o.sig)
					}
				}
				return "c[" + strings.Join(ps, ",") + "]"
			case t[0] == 'f':
				n, _ := strconv.Atoi(t[1:])
				nx, ok := cur.Field(int16(n))
				cur = nx
				oks = append(oks, ok)
				return vl.B(ok) + ":" + sig(nx)
			case t[0] == 'i':
				n, _ := strconv.Atoi(t[1:])
				nx, ok := cur.Int(n)
				cur = nx
				oks = append(oks, ok)
				return vl.B(ok) + ":" + sig(nx)
			case t[0] == 's':
				nx, ok := cur.Str(vl.UnHex(t[1:]))
				cur = nx
				oks = append(oks, ok)
				return vl.B(ok) + ":" + sig(nx)
			}
			panic("harness: bad step " + t)
		})
		piece = one
		acc = append(acc, piece)
		if pk != "" {
			return strings.Join(acc, " "), pk, oks
		}
	}
	return strings.Join(acc, " "), "", oks
}

// getPathInProc: GetPath and PathInMask in this process.
func (w *World) getPathInProc(m *fieldmask.FieldMask, root *Ty, path string) (string, string) {
	return guard(func() string {
		sub, ok := m.GetPath(w.Desc(root), path)
		if ok2 := m.PathInMask(w.Desc(root), path); ok2 != ok {
			return "pathinmask-differs"
		}
		return vl.B(ok) + ":" + sig(sub)
	})
}

var inChild bool
var hangMemo = map[string]bool{}
var childSpawns int

// bareBackslash: is there a backslash outside a double-quoted run and after a '[' or '{'?  Only such a
// backslash can become the token that never advances inside an index/key loop (at top level and after '.'
// GetPath returns on it; inside quotes str() consumes it).  Performance filter only: a wrong "false"
// would show as a harness timeout, never as a wrong verdict.
func bareBackslash(p string) bool {
	bracket := false
	for i := 0; i < len(p); i++ {
		switch p[i] {
		case '[', '{':
			bracket = true
		case '\\':
			if bracket {
				return true
			}
		case '"':
			i++
			for i < len(p) && p[i] != '"' {
				if p[i] == '\\' {
					i++
				}
				i++
			}
		}
	}
	return false
}

// getPath: a path containing a backslash may send GetPath into a loop that never advances
// (found by this harness), so such calls are first tried in a child process under a CPU-time limit;
// being killed by it is the outcome "crash" (the model's word for non-termination).
func (w *World) getPath(c *Case, m *fieldmask.FieldMask, root *Ty, path string) (out string, pkey string, hang bool) {
	if !inChild && bareBackslash(path) {
		x := *c
		x.Op = "getpath"
		x.GP = vl.Hex(path)
		js, _ := json.Marshal(&x)
		if h, ok := hangMemo[string(js)]; ok {
			if h {
				return "crash", "", true
			}
			out, pkey = w.getPathInProc(m, root, path)
			return out, pkey, false
		}
		hangMemo[string(js)] = false
		childSpawns++
		// a hang verdict needs two independent children stopped by the watchdog (a single kill may be noise)
		killed := 0
		for try := 0; try < 2; try++ {
			cmd := exec.Command(os.Args[0], "child")
			cmd.Stdin = bytes.NewReader(js)
			if _, err := cmd.Output(); err != nil {
				if ee, ok := err.(*exec.ExitError); ok {
					if ws, ok := ee.Sys().(syscall.WaitStatus); ok && (ws.Signaled() || ws.ExitStatus() == 7) {
						killed++
						continue
					}
				}
			}
			break
		}
		if killed == 2 {
			hangMemo[string(js)] = true
			return "crash", "", true // stopped by its CPU-time watchdog / limit
		}
	}
	out, pkey = w.getPathInProc(m, root, path)
	return out, pkey, false
}

// child: run one getpath case (stdin: Case JSON); used only for its termination.
func child() error {
	inChild = true
	// one second of CPU time is three orders of magnitude more than any terminating call needs;
	// a CPU limit (not a wall-clock limit) keeps the verdict independent of machine load
	if err := syscall.Setrlimit(syscall.RLIMIT_CPU, &syscall.Rlimit{Cur: 3, Max: 4}); err != nil {
		return err
	}
	var c Case
	if err := json.NewDecoder(os.Stdin).Decode(&c); err != nil {
		return err
	}
	w, err := world(c.IDL)
	if err != nil {
		return err
	}
	root, _, err := parseTyToks(c.Root)
	if err != nil {
		return err
	}
	m, _, _ := w.newMask(root, c.Black, c.paths())
	if m != nil {
		// watchdog on CPU time spent in the call itself (independent of machine load): a terminating
		// GetPath needs microseconds; 150 ms of user CPU means it is spinning
		var ru0 syscall.Rusage
		syscall.Getrusage(syscall.RUSAGE_SELF, &ru0)
		go func() {
			for {
				time.Sleep(5 * time.Millisecond)
				var ru syscall.Rusage
				syscall.Getrusage(syscall.RUSAGE_SELF, &ru)
				used := time.Duration(ru.Utime.Nano() - ru0.Utime.Nano())
				if used > 300*time.Millisecond {
					os.Exit(7)
				}
			}
		}()
		w.getPathInProc(m, root, vl.UnHex(c.GP))
	}
	return nil
}

// ---------------------------------------------------------------- JSON text of MarshalJSON -> canonical tree

var typeNames = map[string]int{"Invalid": 0, "Scalar": 1, "List": 2, "Struct": 3, "StrMap": 4, "IntMap": 5}

type textParser struct {
	s   string
	pos int
	err error
}

func (p *textParser) lit(x string) bool {
	if strings.HasPrefix(p.s[p.pos:], x) {
		p.pos += len(x)
		return true
	}
	return false
}

func (p *textParser) fail(what string) {
	if p.err == nil {
		p.err = fmt.Errorf("marshal text: expected %s at %d in %q", what, p.pos, p.s)
	}
}

// node parses {"path":P,"type":"T","is_black":B[,"children":[...]]} as MarshalJSON writes it
// (strconv.Quote syntax for string paths, which is not always JSON).
func (p *textParser) node(sb *strings.Builder) {
	if !p.lit(`{"path":`) {
		p.fail(`{"path":`)
		return
	}
	rest := p.s[p.pos:]
	var path string
	switch {
	case strings.HasPrefix(rest, `"`):
		q, err := strconv.QuotedPrefix(rest)
		if err != nil {
			p.fail("quoted path")
			return
		}
		u, err := strconv.Unquote(q)
		if err != nil {
			p.fail("unquotable path")
			return
		}
		p.pos += len(q)
		switch q {
		case `"*"`:
			path = "*" // textually the wildcard and the string key "*" are the same
		case `"$"`:
			if sb.Len() == 0 {
				path = "$"
			} else {
				path = "s" + vl.Hex(u)
			}
		default:
			// keys are compared after UTF-8 sanitising: JSON cannot carry other bytes
			path = "s" + vl.Hex(strings.ToValidUTF8(u, "\uFFFD"))
		}
	default:
		j := 0
		for j < len(rest) && (rest[j] == '-' || rest[j] >= '0' && rest[j] <= '9') {
			j++
		}
		if j == 0 {
			p.fail("path value")
			return
		}
		path = "i" + rest[:j]
		p.pos += j
	}
	if !p.lit(`,"type":"`) {
		p.fail("type")
		return
	}
	e := strings.IndexByte(p.s[p.pos:], '"')
	if e < 0 {
		p.fail("type end")
		return
	}
	tn, ok := typeNames[p.s[p.pos:p.pos+e]]
	if !ok {
		p.fail("known type name")
		return
	}
	p.pos += e
	if !p.lit(`","is_black":`) {
		p.fail("is_black")
		return
	}
	var black string
	if p.lit("true") {
		black = "1"
	} else if p.lit("false") {
		black = "0"
	} else {
		p.fail("bool")
		return
	}
	fmt.Fprintf(sb, "(%s %d %s ", path, tn, black)
	if p.lit("}") {
		sb.WriteString("-)")
		return
	}
	if !p.lit(`,"children":[`) {
		p.fail("children")
		return
	}
	sb.WriteString("[")
	first := true
	for p.err == nil && !p.lit("]}") {
		if !first && !p.lit(",") {
			p.fail(",")
			return
		}
		first = false
		p.node(sb)
	}
	sb.WriteString("])")
}

func canonText(text string) (string, error) {
	p := &textParser{s: text}
	var sb strings.Builder
	p.node(&sb)
	if p.err == nil && p.pos != len(text) {
		p.fail("end of text")
	}
	return sb.String(), p.err
}

// ---------------------------------------------------------------- documents for UnmarshalJSON

// xfer mirrors the unexported fieldMaskTransfer (same JSON tags, same FieldMaskType text decoding).
type xfer struct {
	Path     json.RawMessage         `json:"path"`
	Type     fieldmask.FieldMaskType `json:"type"`
	IsBlack  bool                    `json:"is_black"`
	Children []xfer                  `json:"children"`
}

// decodeDoc is the encoding/json half of UnmarshalJSON: "bad" (json.Unmarshal fails), "null", or the tree tokens.
func decodeDoc(doc []byte) string {
	s := new(xfer)
	if err := json.Unmarshal(doc, &s); err != nil {
		return "bad"
	}
	if s == nil {
		return "null"
	}
	var t []string
	var rec func(x *xfer)
	rec = func(x *xfer) {
		fl := vl.B(bytes.Equal(x.Path, []byte(`"$"`))) + vl.B(bytes.Equal(x.Path, []byte(`"*"`)))
		a, b, c := "x", "x", "x"
		var i32 int32
		if json.Unmarshal(x.Path, &i32) == nil {
			a = strconv.Itoa(int(i32))
		}
		var i int
		if json.Unmarshal(x.Path, &i) == nil {
			b = strconv.Itoa(i)
		}
		var str string
		if json.Unmarshal(x.Path, &str) == nil {
			c = vl.Hex(str)
		}
		t = append(t, fl, a, b, c, strconv.Itoa(int(x.Type)), vl.B(x.IsBlack), strconv.Itoa(len(x.Children)))
		for k := range x.Children {
			rec(&x.Children[k])
		}
	}
	rec(s)
	return strings.Join(t, " ")
}

func unmarshalDoc(doc []byte) (m *fieldmask.FieldMask, out string, pkey string) {
	out, pkey = guard(func() string {
		fm := &fieldmask.FieldMask{}
		if err := fm.UnmarshalJSON(doc); err != nil {
			return "err"
		}
		m = fm
		return "ok"
	})
	if out != "ok" {
		m = nil
	}
	return
}

func marshalText(m *fieldmask.FieldMask) (text []byte, out string, pkey string) {
	out, pkey = guard(func() string {
		b, err := m.MarshalJSON()
		if err != nil {
			return "err"
		}
		text = b
		return "ok"
	})
	return
}
