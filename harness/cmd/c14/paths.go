package main

import (
	"strconv"
	"strings"

	"verifharness/internal/vl"
)

// An abstract path is a list of step tokens: "f<id>" | "i<n>" | "s<hex>" | "*" (all elements / keys) |
// "F*" (all fields of a struct; kept apart because the code rejects a second '*' on a struct node).
// It is known BY CONSTRUCTION for grammar-generated paths (never by parsing the string).

type pathGen struct {
	r *vl.Rng
	w *World
}

var strPool = []string{"a", "b", "abc", "", "k1", "x y", "a\"b", "\\", "é", "日本", "*", "$", "\x01", "\xff", "k,1", "}", "\n", "\x7f"}
var intPool = []int{0, 1, 2, 3, 5, 7, 10, 63, 64, 100}
var bigInts = []int{2147483647, 2147483648, 4294967296, 9223372036854775807}

// someInt: a list index / integer map key.  Mostly small; sometimes a numeric boundary: 2^31-1, 2^31, 2^32-1,
// 2^32, 2^63-1, or a small value shifted by a multiple of 2^32 (k + 2^32*j, j = 1, 2, 256), which a 32-bit
// truncation would confuse with k.
func (g *pathGen) someInt() int {
	switch c := g.r.Intn(100); {
	case c < 4:
		return bigInts[g.r.Intn(len(bigInts))]
	case c < 10:
		j := []int{1, 2, 256}[g.r.Intn(3)]
		return intPool[g.r.Intn(len(intPool))] + j<<32
	case c < 12:
		return []int{4294967295, 65536, 65537, 32768}[g.r.Intn(4)]
	}
	return intPool[g.r.Intn(len(intPool))]
}

// idSpelling: ways to write something in the place of the field id `id` after a '.'; accept says whether it still
// denotes exactly that field (only leading zeros do: the number is parsed as an exact integer, never wrapped).
type idSpelling struct {
	text   string
	accept bool
}

func idSpellings(id int, isField func(int64) bool) []idSpelling {
	n := strconv.Itoa(id)
	out := []idSpelling{
		{"00" + n, true}, {"0" + n, true}, {"+" + n, false}, {"-0", false},
		{"2147483647", false}, {"2147483648", false}, {"4294967295", false},
		{"9223372036854775807", false}, {"9223372036854775808", false}, {"18446744073709551616", false},
		{"99999999999999999999", false}, {"1234567890123456789012345678901234567890", false},
	}
	for _, j := range []int{1, 2, 256} {
		out = append(out, idSpelling{strconv.Itoa(id + j<<32), false})
		out = append(out, idSpelling{strconv.Itoa(id + j<<16), false}) // the field exists only modulo 2^16
	}
	// a spelling that happens to be a real field id of the struct is not a test of rejection
	var keep []idSpelling
	for _, sp := range out {
		if !sp.accept {
			if v, err := strconv.ParseInt(sp.text, 10, 64); err == nil && isField(v) {
				continue
			}
		}
		keep = append(keep, sp)
	}
	return keep
}

func product(aps [][]string, alts []string) [][]string {
	var out [][]string
	for _, a := range aps {
		for _, s := range alts {
			n := append(append([]string{}, a...), s)
			out = append(out, n)
		}
	}
	return out
}

// valid renders one path of the README grammar from `root` and returns the abstract paths it denotes.
// viaTypedef reports whether the walk passed through a typedef'd type (GetPath does not unwrap those).
func (g *pathGen) valid(root *Ty) (string, [][]string, bool) {
	s := &g.w.Sch
	var sb strings.Builder
	sb.WriteString("$")
	aps := [][]string{{}}
	t := root
	viaTd := false
	for depth := 0; depth < 7; depth++ {
		if depth > 0 && g.r.Chance(25) {
			break
		}
		if s.unwrap(t) != t {
			viaTd = true
		}
		k := s.kind(t)
		u := s.unwrap(t)
		switch k {
		case "struct":
			st := s.structByName(u.Name)
			var ok []Field
			for _, f := range st.Fields {
				if s.kind(f.Ty) != "invalid" {
					ok = append(ok, f)
				}
			}
			if len(ok) == 0 {
				return sb.String(), aps, viaTd
			}
			if g.r.Chance(8) && s.kind(st.Fields[0].Ty) != "invalid" {
				sb.WriteString(".*")
				return sb.String(), product(aps, []string{"F*"}), viaTd
			}
			f := ok[g.r.Intn(len(ok))]
			if f.ID >= 0 && g.r.Chance(40) {
				sb.WriteString("." + strconv.Itoa(int(f.ID)))
			} else {
				sb.WriteString("." + f.Name)
			}
			aps = product(aps, []string{"f" + strconv.Itoa(int(f.ID))})
			t = f.Ty
		case "list":
			if s.kind(u.Val) == "invalid" {
				return sb.String(), aps, viaTd
			}
			if g.r.Chance(15) {
				sb.WriteString("[*]")
				aps = product(aps, []string{"*"})
			} else {
				n := 1 + g.r.Intn(3)
				var lits, alts []string
				for i := 0; i < n; i++ {
					v := g.someInt()
					lits = append(lits, strconv.Itoa(v))
					alts = append(alts, "i"+strconv.Itoa(v))
				}
				sb.WriteString("[" + strings.Join(lits, ",") + "]")
				aps = product(aps, alts)
			}
			t = u.Val
		case "intmap", "strmap", "othermap":
			if s.kind(u.Val) == "invalid" {
				return sb.String(), aps, viaTd
			}
			if k == "othermap" || g.r.Chance(15) {
				sb.WriteString("{*}")
				aps = product(aps, []string{"*"})
			} else {
				n := 1 + g.r.Intn(3)
				var lits, alts []string
				for i := 0; i < n; i++ {
					if k == "intmap" {
						v := g.someInt()
						lits = append(lits, strconv.Itoa(v))
						alts = append(alts, "i"+strconv.Itoa(v))
					} else {
						v := strPool[g.r.Intn(len(strPool))]
						lits = append(lits, strconv.Quote(v))
						alts = append(alts, "s"+vl.Hex(v))
					}
				}
				sb.WriteString("{" + strings.Join(lits, ",") + "}")
				aps = product(aps, alts)
			}
			t = u.Val
		default:
			return sb.String(), aps, viaTd
		}
	}
	return sb.String(), aps, viaTd
}

var alphabet = []byte("$.[]{},*\"\\0123456789afS_-x \x00\n\x80\xff")
var specials = []string{"99999999999999999999", "3000000000", "2147483648", "9223372036854775807", "9223372036854775808", `"a`, `"a\`, `"a\"`, `"\x41"`, `"é"`, `"\ud800"`, `"\400"`, `"\101"`,
	"[,]", "{,}", "[\\", "{\\", "[*]", "{*}", ".*", "$", `\`, "[1,*]", "[*,1]", "{\"a\",*}", "[", "{", "[1", "{\"a\"", ".f0", ".0", ".-1", "[-1]", "[007]", "\"\xff\"", "\"\xe6\x97\""}

func (g *pathGen) mutate(p string) string {
	b := []byte(p)
	n := 1 + g.r.Intn(3)
	for i := 0; i < n; i++ {
		switch g.r.Intn(7) {
		case 0:
			if len(b) > 0 {
				j := g.r.Intn(len(b))
				b = append(b[:j:j], b[j+1:]...)
			}
		case 1:
			j := g.r.Intn(len(b) + 1)
			c := alphabet[g.r.Intn(len(alphabet))]
			b = append(b[:j:j], append([]byte{c}, b[j:]...)...)
		case 2:
			if len(b) > 0 {
				b[g.r.Intn(len(b))] = alphabet[g.r.Intn(len(alphabet))]
			}
		case 3:
			if len(b) > 0 {
				b = b[:g.r.Intn(len(b)+1)]
			}
		case 4:
			b = append(b, specials[g.r.Intn(len(specials))]...)
		case 5:
			j := g.r.Intn(len(b) + 1)
			sp := specials[g.r.Intn(len(specials))]
			b = append(b[:j:j], append([]byte(sp), b[j:]...)...)
		default:
			// replace a run of digits by a special number
			for j := 0; j < len(b); j++ {
				if b[j] >= '0' && b[j] <= '9' {
					k := j
					for k < len(b) && b[k] >= '0' && b[k] <= '9' {
						k++
					}
					b = append(b[:j:j], append([]byte(specials[g.r.Intn(5)]), b[k:]...)...)
					break
				}
			}
		}
	}
	return string(b)
}

func (g *pathGen) raw() string {
	n := g.r.Intn(13)
	b := make([]byte, 0, n+1)
	if g.r.Bool() {
		b = append(b, '$')
	}
	for i := 0; i < n; i++ {
		b = append(b, alphabet[g.r.Intn(len(alphabet))])
	}
	return string(b)
}

// ---------------------------------------------------------------- queries

func (g *pathGen) randStep() string {
	switch g.r.Intn(3) {
	case 0:
		ids := []int{-1, 0, 1, 2, 3, 64, 300}
		for _, st := range g.w.Sch.Structs {
			for _, f := range st.Fields {
				ids = append(ids, int(f.ID))
			}
		}
		return "f" + strconv.Itoa(ids[g.r.Intn(len(ids))])
	case 1:
		if g.r.Chance(10) {
			return "i-1"
		}
		return "i" + strconv.Itoa(g.someInt())
	}
	return "s" + vl.Hex(strPool[g.r.Intn(len(strPool))])
}

// query builds the query steps (only f/i/s tokens) biased to follow one of the abstract paths.
func (g *pathGen) query(aps [][]string) []string {
	var q []string
	if len(aps) > 0 && g.r.Chance(85) {
		p := aps[g.r.Intn(len(aps))]
		k := len(p)
		if k > 0 && g.r.Chance(40) {
			k = 1 + g.r.Intn(k)
		}
		for _, st := range p[:k] {
			switch {
			case isStar(st):
				st = g.randStep()
			case (st[0] == 'i' || st[0] == 'f') && len(st) > 10 && g.r.Chance(35):
				// ask for the value modulo 2^32 / 2^16: must NOT be selected by the big key
				n, _ := strconv.Atoi(st[1:])
				if g.r.Bool() {
					st = st[:1] + strconv.Itoa(n&0xffffffff)
				} else {
					st = st[:1] + strconv.Itoa(n&0xffff)
				}
			case g.r.Chance(15):
				switch st[0] {
				case 'f', 'i':
					n, _ := strconv.Atoi(st[1:])
					if n < 32767 {
						st = st[:1] + strconv.Itoa(n+1)
					}
				default:
					st = "s" + vl.Hex(vl.UnHex(st[1:])+"z")
				}
			case g.r.Chance(4):
				st = g.randStep()
			}
			q = append(q, st)
		}
	}
	ext := g.r.Intn(3)
	if len(q) == 0 {
		ext = 1 + g.r.Intn(3)
	}
	for i := 0; i < ext; i++ {
		q = append(q, g.randStep())
	}
	return q
}

// decorate sprinkles the observation tokens a (All), g (signature), c (ForEachChild) between query steps.
func (g *pathGen) decorate(q []string) []string {
	var out []string
	for _, s := range q {
		if g.r.Chance(25) {
			out = append(out, g.r.Pick([]string{"a", "g", "c"}))
		}
		out = append(out, s)
	}
	if g.r.Chance(50) {
		out = append(out, g.r.Pick([]string{"a", "g", "c"}))
	}
	return out
}

// ---------------------------------------------------------------- Sel: the path-set semantics (oracle side)

func isStar(p string) bool       { return p == "*" || p == "F*" }
func stepMatch(p, q string) bool { return isStar(p) || p == q }

// selWhite: selected iff the mask is empty or some path agrees with the query on their common length.
func selWhite(aps [][]string, q []string) bool {
	if len(aps) == 0 {
		return true
	}
	for _, p := range aps {
		ok := true
		for i := 0; i < len(p) && i < len(q); i++ {
			if !stepMatch(p[i], q[i]) {
				ok = false
				break
			}
		}
		if ok {
			return true
		}
	}
	return false
}

// selBlack: rejected iff some complete path matches a prefix of the query.
func selBlack(aps [][]string, q []string) bool {
	for _, p := range aps {
		if len(p) > len(q) {
			continue
		}
		ok := true
		for i := range p {
			if !stepMatch(p[i], q[i]) {
				ok = false
				break
			}
		}
		if ok {
			return false
		}
	}
	return true
}

func sel(black bool, aps [][]string, q []string) bool {
	if black {
		return selBlack(aps, q)
	}
	return selWhite(aps, q)
}

// noStarConflict: no two paths disagree, at a position where they have agreed so far, about
// "specific step" versus "'*' or end of path".
func noStarConflict(aps [][]string) bool {
	for a := 0; a < len(aps); a++ {
		for b := a + 1; b < len(aps); b++ {
			p, q := aps[a], aps[b]
			for i := 0; ; i++ {
				pe, qe := i >= len(p), i >= len(q)
				if pe && qe {
					break
				}
				if pe != qe {
					return false
				}
				ps, qs := isStar(p[i]), isStar(q[i])
				if ps != qs {
					return false
				}
				if p[i] == "F*" && q[i] == "F*" {
					return false // the code answers "field conflicts with previously settled '*'"
				}
				if p[i] != q[i] {
					break
				}
			}
		}
	}
	return true
}

func flatten(ap [][][]string) [][]string {
	var out [][]string
	for _, a := range ap {
		out = append(out, a...)
	}
	return out
}

func endsWithStar(aps [][]string) bool {
	for _, p := range aps {
		if len(p) > 0 && isStar(p[len(p)-1]) {
			return true
		}
	}
	return false
}

func querySteps(steps []string) []string {
	var q []string
	for _, s := range steps {
		if s != "a" && s != "g" && s != "c" {
			q = append(q, s)
		}
	}
	return q
}

// render writes one abstract path (single keys) in the path syntax, field steps by id when possible.
func (w *World) renderSingle(root *Ty, ap []string) (string, bool) {
	s := &w.Sch
	var sb strings.Builder
	sb.WriteString("$")
	t := root
	for _, st := range ap {
		k := s.kind(t)
		u := s.unwrap(t)
		switch {
		case st == "F*":
			sb.WriteString(".*")
			return sb.String(), true
		case st == "*" && k == "list":
			sb.WriteString("[*]")
			t = u.Val
		case st == "*":
			sb.WriteString("{*}")
			t = u.Val
		case st[0] == 'f':
			id, _ := strconv.Atoi(st[1:])
			stc := s.structByName(u.Name)
			if stc == nil {
				return "", false
			}
			var f *Field
			for i := range stc.Fields {
				if int(stc.Fields[i].ID) == id {
					f = &stc.Fields[i]
					break
				}
			}
			if f == nil {
				return "", false
			}
			sb.WriteString("." + f.Name)
			t = f.Ty
		case st[0] == 'i' && k == "list":
			sb.WriteString("[" + st[1:] + "]")
			t = u.Val
		case st[0] == 'i':
			sb.WriteString("{" + st[1:] + "}")
			t = u.Val
		default:
			sb.WriteString("{" + strconv.Quote(vl.UnHex(st[1:])) + "}")
			t = u.Val
		}
	}
	return sb.String(), true
}
