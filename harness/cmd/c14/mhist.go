package main

import (
	"bytes"
	"encoding/json"
	"fmt"
	"os"
	"os/exec"
	"runtime"
	"runtime/debug"
	"strings"

	"github.com/cloudwego/thriftgo/fieldmask"

	"verifharness/internal/vl"
)

// MaskSpec: one mask of a marshal history (same IDL as the case).
type MaskSpec struct {
	Root  []string `json:"root"`
	Black bool     `json:"black"`
	Paths []string `json:"paths"` // hex
}

// marshal histories: the texts MarshalJSON / fieldmask.Marshal / json.Marshal hand out must stay what they were
// when handed out, whatever is marshalled afterwards.  Step = (mask index, api): 0 MarshalJSON, 1 fieldmask.Marshal
// (cached), 2 json.Marshal(fm).  Runs in a child process (fresh caches), GOMAXPROCS(1) and GC off so that the
// sync.Pool hand-back is deterministic.

type mhistOut struct {
	Fails []struct{ Key, What, Expected, Observed string }
	Texts []string // hex: the text of every step, copied at return time ("-" when the call failed)
}

func checkMHist(c *Case) ([]fail, []string) {
	if !inChild {
		js, _ := json.Marshal(c)
		cmd := exec.Command(os.Args[0], "childmhist")
		cmd.Stdin = bytes.NewReader(js)
		out, err := cmd.Output()
		if err != nil {
			panic("c14 childmhist: " + err.Error())
		}
		var got mhistOut
		if err := json.Unmarshal(out, &got); err != nil {
			panic("c14 childmhist output: " + err.Error())
		}
		var fs []fail
		for _, g := range got.Fails {
			fs = append(fs, fail{g.Key, g.What, g.Expected, g.Observed})
		}
		return fs, got.Texts
	}
	runtime.GOMAXPROCS(1)
	debug.SetGCPercent(-1)
	var fs []fail
	var texts []string
	w, err := world(c.IDL)
	if err != nil {
		panic(err)
	}
	masks := make([]*fieldmask.FieldMask, len(c.Masks))
	for i, ms := range c.Masks {
		root, _, err := parseTyToks(ms.Root)
		if err != nil {
			panic(err)
		}
		ps := make([]string, len(ms.Paths))
		for j, p := range ms.Paths {
			ps[j] = vl.UnHex(p)
		}
		masks[i], _, _ = w.newMask(root, ms.Black, ps)
	}
	type held struct {
		step, mask, api int
		slice, copy     []byte
	}
	var hs []held
	first := map[int][]byte{} // first MarshalJSON/Marshal text of each mask
	apis := []string{"MarshalJSON", "fieldmask.Marshal", "json.Marshal"}
	for step, h := range c.Hist {
		m := masks[h[0]]
		if m == nil {
			texts = append(texts, "-")
			continue
		}
		var b []byte
		o, pk := guard(func() string {
			var err error
			switch h[1] {
			case 0:
				b, err = m.MarshalJSON()
			case 1:
				b, err = fieldmask.Marshal(m)
			default:
				b, err = json.Marshal(m)
			}
			if err != nil {
				return "err"
			}
			return "ok"
		})
		if pk != "" {
			fs = append(fs, fail{"panic:" + pk, "the library panicked in " + apis[h[1]], "a text", "panic"})
			texts = append(texts, "-")
			break
		}
		if o != "ok" {
			texts = append(texts, "-")
			continue
		}
		cp := append([]byte{}, b...)
		texts = append(texts, vl.Hex(string(cp)))
		hs = append(hs, held{step, h[0], h[1], b, cp})
		if h[1] != 2 {
			if f, ok := first[h[0]]; !ok {
				first[h[0]] = cp
			} else if !bytes.Equal(f, cp) {
				fs = append(fs, fail{"json:marshal-text-unstable", fmt.Sprintf("step %d: %s of mask %d returns a text different from the first one", step, apis[h[1]], h[0]), string(f), string(cp)})
				return fs, texts
			}
		}
	}
	// look at every text handed out again
	for _, h := range hs {
		if !bytes.Equal(h.slice, h.copy) {
			fs = append(fs, fail{"json:marshal-text-mutates", fmt.Sprintf("the text %s returned at step %d (mask %d) changed after later marshal calls", apis[h.api], h.step, h.mask), string(h.copy), string(h.slice)})
			return fs, texts
		}
		um1, o1, _ := unmarshalDoc(h.copy)
		um2, o2, _ := unmarshalDoc(h.slice)
		if o1 != o2 {
			fs = append(fs, fail{"json:marshal-text-mutates", fmt.Sprintf("the text returned at step %d is no longer accepted by UnmarshalJSON", h.step), o1, o2})
			return fs, texts
		}
		if o1 == "ok" {
			t1, _, _ := marshalText(um1)
			t2, _, _ := marshalText(um2)
			if !bytes.Equal(t1, t2) {
				fs = append(fs, fail{"json:marshal-text-mutates", fmt.Sprintf("the text returned at step %d now unmarshals to another mask", h.step), string(t1), string(t2)})
				return fs, texts
			}
		}
	}
	return fs, texts
}

func childMHist() error {
	inChild = true
	var c Case
	if err := json.NewDecoder(os.Stdin).Decode(&c); err != nil {
		return err
	}
	fs, texts := checkMHist(&c)
	var out mhistOut
	for _, f := range fs {
		out.Fails = append(out.Fails, struct{ Key, What, Expected, Observed string }{f.key, f.what, fmt.Sprint(f.expected), fmt.Sprint(f.observed)})
	}
	out.Texts = texts
	js, _ := json.Marshal(out)
	fmt.Println(string(js))
	return nil
}

// marshalHistory: 3-5 masks of this world (grammar paths, white/black), 12-30 marshal calls through the three
// APIs in random order plus the two explicit patterns big-small-big and small-big-small; the model sees every
// step as a `J` of the mask (Marshal is a function of the mask).
func (rn *runner) marshalHistory(w *World, g *pathGen) {
	roots := w.roots()
	var specs []MaskSpec
	var sizes []int
	for tries := 0; tries < 12 && len(specs) < 3+rn.r.Intn(3); tries++ {
		root := roots[rn.r.Intn(len(w.Sch.Structs))]
		black := rn.r.Chance(30)
		var paths []string
		for i, n := 0, 1+rn.r.Intn(4); i < n; i++ {
			p, _, _ := g.valid(root)
			paths = append(paths, p)
		}
		m, _, _ := w.newMask(root, black, paths)
		if m == nil {
			continue
		}
		text, o, _ := marshalText(m)
		if o != "ok" {
			continue
		}
		specs = append(specs, MaskSpec{Root: root.Toks(), Black: black, Paths: hexAll(paths)})
		sizes = append(sizes, len(text))
	}
	if len(specs) < 2 {
		return
	}
	big, small := 0, 0
	for i, s := range sizes {
		if s > sizes[big] {
			big = i
		}
		if s < sizes[small] {
			small = i
		}
	}
	hist := [][2]int{{big, 1}, {small, 0}, {big, 1}, {small, 1}, {big, 0}, {small, 1}}
	for i, n := 0, 12+rn.r.Intn(18); i < n; i++ {
		hist = append(hist, [2]int{rn.r.Intn(len(specs)), rn.r.Intn(3)})
	}
	c := Case{IDL: w.IDL, Root: specs[0].Root, Op: "mhist", Masks: specs, Hist: hist}
	fs, texts := checkMHist(&c)
	rn.out.Count("marshal-history")
	// correspondence: each mask into a slot, each step a J of that slot
	for i, ms := range specs {
		ps := make([]string, len(ms.Paths))
		for j, p := range ms.Paths {
			ps[j] = vl.UnHex(p)
		}
		root, _, _ := parseTyToks(ms.Root)
		_, o, _ := w.newMask(root, ms.Black, ps)
		rn.out.Case(fmt.Sprintf("N %d %s %s %d %s", 10+i, vl.B(ms.Black), strings.Join(ms.Root, " "), len(ps), strings.Join(ms.Paths, " ")), o, o == "ok")
	}
	for step, h := range hist {
		if step >= len(texts) || texts[step] == "-" {
			continue
		}
		ct, err := canonText(vl.UnHex(texts[step]))
		if err != nil {
			ct = "unparsed:" + err.Error()
		}
		rn.out.Case(fmt.Sprintf("J %d", 10+h[0]), ct, true)
	}
	rn.report(c, fs)
}
