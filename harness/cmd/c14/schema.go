package main

import (
	"fmt"
	"sort"
	"strconv"
	"strings"

	"github.com/cloudwego/thriftgo/parser"
	"github.com/cloudwego/thriftgo/thrift_reflection"

	"verifharness/internal/vl"
)

// Ty mirrors a thrift_reflection.TypeDescriptor: a name, or a container with its element types.
type Ty struct {
	K    byte   // 'n' named, 'l' list/set, 'm' map
	Name string // for 'n' the type name; for containers "list" / "set" / "map"
	Key  *Ty
	Val  *Ty
}

func (t *Ty) Toks() []string {
	switch t.K {
	case 'l':
		return append([]string{"l"}, t.Val.Toks()...)
	case 'm':
		return append(append([]string{"m"}, t.Key.Toks()...), t.Val.Toks()...)
	}
	return []string{"n" + vl.Hex(t.Name)}
}

func (t *Ty) String() string {
	switch t.K {
	case 'l':
		return t.Name + "<" + t.Val.String() + ">"
	case 'm':
		return "map<" + t.Key.String() + "," + t.Val.String() + ">"
	}
	return t.Name
}

func parseTyToks(toks []string) (*Ty, []string, error) {
	if len(toks) == 0 {
		return nil, nil, fmt.Errorf("type tokens exhausted")
	}
	switch {
	case toks[0] == "l":
		v, r, err := parseTyToks(toks[1:])
		if err != nil {
			return nil, nil, err
		}
		return &Ty{K: 'l', Name: "list", Val: v}, r, nil
	case toks[0] == "m":
		k, r, err := parseTyToks(toks[1:])
		if err != nil {
			return nil, nil, err
		}
		v, r2, err := parseTyToks(r)
		if err != nil {
			return nil, nil, err
		}
		return &Ty{K: 'm', Name: "map", Key: k, Val: v}, r2, nil
	case strings.HasPrefix(toks[0], "n"):
		return &Ty{K: 'n', Name: vl.UnHex(toks[0][1:])}, toks[1:], nil
	}
	return nil, nil, fmt.Errorf("bad type token %q", toks[0])
}

type Field struct {
	ID   int32
	Name string
	Ty   *Ty
}

type Struct struct {
	Name   string
	Fields []Field
}

type Typedef struct {
	Alias string
	Ty    *Ty
}

// Schema is what the Lean model receives as `Schema`: read off the FileDescriptor that
// thrift_reflection.RegisterAST built (structs only: unions and exceptions are not found by
// TypeDescriptor.GetStructDescriptor, so their names resolve to nothing).
type Schema struct {
	Structs  []Struct
	Typedefs []Typedef
	Enums    []string
}

func tyOf(td *thrift_reflection.TypeDescriptor) *Ty {
	if td == nil {
		return nil
	}
	switch td.GetName() {
	case "list", "set":
		if td.GetValueType() != nil {
			return &Ty{K: 'l', Name: td.GetName(), Val: tyOf(td.GetValueType())}
		}
	case "map":
		if td.GetValueType() != nil && td.GetKeyType() != nil {
			return &Ty{K: 'm', Name: "map", Key: tyOf(td.GetKeyType()), Val: tyOf(td.GetValueType())}
		}
	}
	return &Ty{K: 'n', Name: td.GetName()}
}

func schemaOf(fd *thrift_reflection.FileDescriptor) Schema {
	var s Schema
	for _, st := range fd.Structs {
		x := Struct{Name: st.Name}
		for _, f := range st.Fields {
			x.Fields = append(x.Fields, Field{ID: f.ID, Name: f.Name, Ty: tyOf(f.Type)})
		}
		s.Structs = append(s.Structs, x)
	}
	for _, td := range fd.Typedefs {
		s.Typedefs = append(s.Typedefs, Typedef{Alias: td.Alias, Ty: tyOf(td.Type)})
	}
	for _, e := range fd.Enums {
		s.Enums = append(s.Enums, e.Name)
	}
	return s
}

// Line renders the `D` op.
func (s *Schema) Line() string {
	t := []string{"D", strconv.Itoa(len(s.Structs))}
	for _, st := range s.Structs {
		t = append(t, vl.Hex(st.Name), strconv.Itoa(len(st.Fields)))
		for _, f := range st.Fields {
			t = append(t, strconv.Itoa(int(f.ID)), vl.Hex(f.Name))
			t = append(t, f.Ty.Toks()...)
		}
	}
	t = append(t, strconv.Itoa(len(s.Typedefs)))
	for _, td := range s.Typedefs {
		t = append(t, vl.Hex(td.Alias))
		t = append(t, td.Ty.Toks()...)
	}
	t = append(t, strconv.Itoa(len(s.Enums)))
	for _, e := range s.Enums {
		t = append(t, vl.Hex(e))
	}
	return strings.Join(t, " ")
}

var basic = map[string]bool{"i8": true, "i16": true, "i32": true, "i64": true, "double": true, "string": true, "byte": true, "binary": true, "bool": true}

func (s *Schema) structByName(n string) *Struct {
	for i := range s.Structs {
		if s.Structs[i].Name == n {
			return &s.Structs[i]
		}
	}
	return nil
}

func (s *Schema) isEnum(n string) bool {
	for _, e := range s.Enums {
		if e == n {
			return true
		}
	}
	return false
}

// unwrap follows typedefs (the generator never builds cycles; bounded anyway).
func (s *Schema) unwrap(t *Ty) *Ty {
	for i := 0; i < 64 && t.K == 'n' && !basic[t.Name]; i++ {
		var nx *Ty
		for _, td := range s.Typedefs {
			if td.Alias == t.Name {
				nx = td.Ty
				break
			}
		}
		if nx == nil {
			break
		}
		t = nx
	}
	return t
}

// kind is the generator's own reading of the README: what kind of path segment may follow.
func (s *Schema) kind(t *Ty) string {
	t = s.unwrap(t)
	switch t.K {
	case 'l':
		return "list"
	case 'm':
		k := s.unwrap(t.Key)
		if k.K == 'n' {
			switch k.Name {
			case "i8", "i16", "i32", "i64", "byte":
				return "intmap"
			case "string", "binary":
				return "strmap"
			}
			if !basic[k.Name] && s.isEnum(k.Name) {
				return "intmap"
			}
		}
		return "othermap"
	}
	if basic[t.Name] {
		return "scalar"
	}
	if s.structByName(t.Name) != nil {
		return "struct"
	}
	if s.isEnum(t.Name) {
		return "scalar"
	}
	return "invalid"
}

// World is one registered IDL.
type World struct {
	IDL  string
	Sch  Schema
	fd   *thrift_reflection.FileDescriptor
	uuid string
}

var worlds = map[string]*World{}
var worldSeq int

func world(idl string) (*World, error) {
	if w, ok := worlds[idl]; ok {
		return w, nil
	}
	worldSeq++
	ast, err := parser.ParseString(fmt.Sprintf("c14_%d.thrift", worldSeq), idl)
	if err != nil {
		return nil, fmt.Errorf("generated IDL does not parse: %v\n%s", err, idl)
	}
	_, fd := thrift_reflection.RegisterAST(ast)
	w := &World{IDL: idl, Sch: schemaOf(fd), fd: fd, uuid: fd.Extra[thrift_reflection.GLOBAL_UUID_EXTRA_KEY]}
	worlds[idl] = w
	return w, nil
}

// Desc builds the TypeDescriptor the library is called with (the recipe of fieldmask/api_test.go,
// extended to container types).
func (w *World) Desc(t *Ty) *thrift_reflection.TypeDescriptor {
	if t == nil {
		return nil
	}
	return &thrift_reflection.TypeDescriptor{
		Filepath:  w.fd.Filepath,
		Name:      t.Name,
		KeyType:   w.Desc(t.Key),
		ValueType: w.Desc(t.Val),
		Extra:     map[string]string{thrift_reflection.GLOBAL_UUID_EXTRA_KEY: w.uuid},
	}
}

// ---------------------------------------------------------------- IDL generator

var fixedIDLs = []string{
	// the IDL of fieldmask/api_test.go
	`namespace go base
struct TrafficEnv { 0: string Name = "", 1: bool Open = false, 2: string Env = "", 256: i64 Code, }
struct Base { 0: string Addr = "", 1: string LogID = "", 2: string Caller = "", 5: optional TrafficEnv TrafficEnv, 6: optional list<ExtraInfo> Extra, 256: MetaInfo Meta, }
struct ExtraInfo { 1: map<i32,Val> IntMap 2: map<string,Val> StrMap 3: list<Val> List 4: set<Val> Set }
struct Val { 1: string A, 2: string B, }
struct MetaInfo { 1: map<string, Base> F1, 2: map<i8, Base> F2, 3: list<Base> F3, 4: Base Base, }
typedef Val Key
typedef string Str
typedef i32 Int
typedef double Float
enum Ex { A = 1, B = 2, C = 3 }
struct BaseResp { 1: required string StatusMessage = "", 2: required i32 StatusCode = 0, 9: required Ex R9, 10: required list<Val> R10, 11: required set<Val> R11,
 12: required TrafficEnv R12, 13: required map<string, Key> R13, 0: required Key R0, 14: map<Str, Str> F1 15: map<Int, string> F2, 16: list<string> F3 17: set<string> F4,
 18: map<Float, Val> F5 19: map<double, string> F6 110: map<Ex, string> F7 111: map<double, list<Str>> F8 112: list<map<Float, list<Str>>> F9 113: map<Key, Val> F10 }
`,
	// negative and large ids, recursion
	`struct S { -1: string neg, 1: string a, 2: list<string> l, 3: map<string,S> m, 4: S s, 5: map<i32,string> im, 63: i32 e63, 64: i32 e64, 100: string big, 32767: S far, -32768: list<S> low }
struct E { }
struct H { 1: E e, 2: list<E> le, 3: S s }
`,
	// typedef chains to containers, structs and keys; union / exception members
	`typedef list<T2> TL
typedef TL TL2
typedef map<K1, TL2> TM
typedef string K0
typedef K0 K1
typedef P T2
typedef Col C1
enum Col { R = 0, G = 1 }
union U { 1: string a, 2: i32 b }
exception X { 1: string msg }
struct P { 1: TM tm, 2: TL2 tl, 3: map<C1, T2> cm, 4: U u, 5: X x, 6: list<U> lu, 7: map<string, X> mx, 8: T2 self, 9: map<TL, i32> odd, 10: set<Col> sc }
`,
	// first field of the struct decides what '*' descends into
	`struct A { 1: B b, 2: string s, 3: list<B> lb }
struct B { 1: A a, 2: i64 n, 3: map<i64, A> ma, 4: map<binary, B> mb, 5: map<bool, A> mo, 6: map<B, A> ms }
struct C { 1: string first, 2: A a }
`,
}

type idlGen struct{ r *vl.Rng }

func (g *idlGen) gen() string {
	var sb strings.Builder
	ns := 2 + g.r.Intn(4)
	ne := 1 + g.r.Intn(2)
	structs := make([]string, ns)
	for i := range structs {
		structs[i] = fmt.Sprintf("S%d", i)
	}
	enums := make([]string, ne)
	for i := range enums {
		enums[i] = fmt.Sprintf("En%d", i)
		fmt.Fprintf(&sb, "enum %s { V0 = 0, V1 = 1, V5 = 5 }\n", enums[i])
	}
	// typedefs: each refers only to earlier names (no cycles)
	var tds []string
	ntd := g.r.Intn(5)
	keyish := []string{"string", "binary", "i8", "i16", "i32", "i64", "byte", "double", "bool"}
	for i := 0; i < ntd; i++ {
		name := fmt.Sprintf("T%d", i)
		var target string
		switch g.r.Intn(6) {
		case 0:
			target = g.r.Pick(keyish)
		case 1:
			target = g.r.Pick(structs)
		case 2:
			target = g.r.Pick(enums)
		case 3:
			if len(tds) > 0 {
				target = g.r.Pick(tds)
			} else {
				target = "string"
			}
		case 4:
			target = "list<" + g.r.Pick(append(append([]string{}, structs...), "string", "i32")) + ">"
		default:
			target = "map<" + g.r.Pick(keyish) + "," + g.r.Pick(append(append([]string{}, structs...), "string")) + ">"
		}
		fmt.Fprintf(&sb, "typedef %s %s\n", target, name)
		tds = append(tds, name)
	}
	others := []string{}
	if g.r.Chance(40) {
		sb.WriteString("union Un { 1: string a, 2: i64 b }\n")
		others = append(others, "Un")
	}
	if g.r.Chance(30) {
		sb.WriteString("exception Ex0 { 1: string m }\n")
		others = append(others, "Ex0")
	}
	var ty func(d int) string
	ty = func(d int) string {
		c := g.r.Intn(100)
		switch {
		case c < 22 || d <= 0 && c < 45:
			return g.r.Pick(keyish)
		case c < 45:
			return g.r.Pick(structs)
		case c < 50:
			return g.r.Pick(enums)
		case c < 58 && len(tds) > 0:
			return g.r.Pick(tds)
		case c < 61 && len(others) > 0:
			return g.r.Pick(others)
		case c < 75:
			if g.r.Bool() {
				return "list<" + ty(d-1) + ">"
			}
			return "set<" + ty(d-1) + ">"
		default:
			var k string
			kc := g.r.Intn(100)
			switch {
			case kc < 30:
				k = g.r.Pick([]string{"string", "binary"})
			case kc < 60:
				k = g.r.Pick([]string{"i8", "i16", "i32", "i64", "byte"})
			case kc < 70:
				k = g.r.Pick(enums)
			case kc < 80 && len(tds) > 0:
				k = g.r.Pick(tds)
			case kc < 90:
				k = g.r.Pick([]string{"double", "bool"})
			default:
				k = g.r.Pick(structs)
			}
			return "map<" + k + "," + ty(d-1) + ">"
		}
	}
	idPool := []int{0, 1, 2, 3, 4, 5, 6, 7, 8, 9, 10, 62, 63, 64, 65, 100, 255, 256, 1000, 32767, -1, -2, -7, -32768}
	for si, s := range structs {
		nf := 1 + g.r.Intn(8)
		if si == ns-1 && g.r.Chance(30) {
			nf = 0
		}
		used := map[int]bool{}
		fmt.Fprintf(&sb, "struct %s {\n", s)
		for j := 0; j < nf; j++ {
			id := idPool[g.r.Intn(len(idPool))]
			if g.r.Chance(60) {
				id = idPool[g.r.Intn(11)]
			}
			if used[id] {
				continue
			}
			used[id] = true
			name := fmt.Sprintf("f%d", j)
			if g.r.Chance(15) {
				name = fmt.Sprintf("F_%d_x", j)
			}
			fmt.Fprintf(&sb, "  %d: %s %s\n", id, ty(2), name)
		}
		sb.WriteString("}\n")
	}
	return sb.String()
}

// roots lists the (type, label) pairs a scenario may start from: every struct, and every field type.
func (w *World) roots() []*Ty {
	var out []*Ty
	seen := map[string]bool{}
	for _, st := range w.Sch.Structs {
		out = append(out, &Ty{K: 'n', Name: st.Name})
	}
	for _, st := range w.Sch.Structs {
		for _, f := range st.Fields {
			k := strings.Join(f.Ty.Toks(), " ")
			if !seen[k] && (f.Ty.K != 'n') {
				seen[k] = true
				out = append(out, f.Ty)
			}
		}
	}
	return out
}

func sortedKeys(m map[string]int) []string {
	ks := make([]string, 0, len(m))
	for k := range m {
		ks = append(ks, k)
	}
	sort.Strings(ks)
	return ks
}

// deepUnwrap replaces every typedef reference inside t by its target.
func (s *Schema) deepUnwrap(t *Ty) *Ty {
	t = s.unwrap(t)
	switch t.K {
	case 'l':
		return &Ty{K: 'l', Name: t.Name, Val: s.deepUnwrap(t.Val)}
	case 'm':
		return &Ty{K: 'm', Name: "map", Key: s.deepUnwrap(t.Key), Val: s.deepUnwrap(t.Val)}
	}
	return t
}

// expandedIDL writes the schema back as IDL text without typedefs (names that resolve to nothing — unions,
// exceptions — stay unresolved, as before).
func (s *Schema) expandedIDL() string {
	var sb strings.Builder
	for _, e := range s.Enums {
		fmt.Fprintf(&sb, "enum %s { V0 = 0 }\n", e)
	}
	for _, st := range s.Structs {
		fmt.Fprintf(&sb, "struct %s {\n", st.Name)
		for _, f := range st.Fields {
			fmt.Fprintf(&sb, "  %d: %s %s\n", f.ID, s.deepUnwrap(f.Ty).String(), f.Name)
		}
		sb.WriteString("}\n")
	}
	return sb.String()
}
