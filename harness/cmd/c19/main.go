// c19: translator (extract), schedule-controlled correspondence/oracle harness (run) and replay for
// property C19 (concurrent persist: all files written or an error, under every schedule).
package main

import (
	"bufio"
	"bytes"
	"io"
	"os/exec"
	"encoding/json"
	"flag"
	"fmt"
	"os"
	"path/filepath"
	"runtime"
	"sort"
	"strconv"
	"strings"
	"time"

	"github.com/cloudwego/thriftgo/generator"
	"github.com/cloudwego/thriftgo/generator/backend"
	"github.com/cloudwego/thriftgo/plugin"
	"github.com/cloudwego/thriftgo/utils/dir_utils"

	"verifharness/internal/vl"
)

// ---------------------------------------------------------------- strategies

var stratNames = []string{"uniform", "dispatcher-first", "workers-first-low", "workers-first-high", "failing-first", "priorities", "hold-exits", "round-robin", "postprocess-all-before-writes"}

func mkChooser(strat int, rng *vl.Rng) chooser {
	prio := map[int]int{}
	rr := 0
	return func(r *runner, keys []int) int {
		switch strat {
		case 8:
			// fill the semaphore, take every started worker through PostProcess, only then let the writes
			// consume their contents (in a seeded order): a content that is not a function of its own file
			// alone (shared/pooled buffer) shows up as foreign bytes in the write
			if keys[0] == -1 {
				return -1
			}
			var fresh []int
			for _, k := range keys {
				if r.parked[k].kind == "w-start" {
					fresh = append(fresh, k)
				}
			}
			if len(fresh) > 0 {
				return fresh[0]
			}
			return keys[rng.Intn(len(keys))]
		case 1:
			if keys[0] == -1 {
				return -1
			}
			return keys[rng.Intn(len(keys))]
		case 2:
			for _, k := range keys {
				if k >= 0 {
					return k
				}
			}
			return keys[0]
		case 3:
			if k := keys[len(keys)-1]; k >= 0 {
				return k
			}
			return keys[0]
		case 4:
			var f []int
			for _, k := range keys {
				if k >= 0 && r.cfg.fails(k) {
					f = append(f, k)
				}
			}
			if len(f) > 0 && rng.Chance(85) {
				return f[rng.Intn(len(f))]
			}
			if keys[0] == -1 && rng.Chance(70) {
				return -1
			}
			return keys[rng.Intn(len(keys))]
		case 5:
			if rng.Chance(10) {
				prio = map[int]int{}
			}
			best, bp := keys[0], -1
			for _, k := range keys {
				if _, ok := prio[k]; !ok {
					prio[k] = rng.Intn(1000)
				}
				if prio[k] > bp {
					best, bp = k, prio[k]
				}
			}
			return best
		case 6:
			var other []int
			for _, k := range keys {
				kind := r.parked[k].kind
				if !(kind == "w-exit" || kind == "w-written" && !r.cfg.fails(k)) {
					other = append(other, k)
				}
			}
			if len(other) > 0 {
				return other[rng.Intn(len(other))]
			}
			return keys[rng.Intn(len(keys))]
		case 7:
			rr++
			return keys[rr%len(keys)]
		}
		return keys[rng.Intn(len(keys))]
	}
}

// ---------------------------------------------------------------- configurations

func mkJobs(n int, fails string) []job {
	js := make([]job, n)
	for k := range js {
		js[k] = job{Path: fmt.Sprintf("d%d/f%d", k%2, k), Content: fmt.Sprintf("c%d", k), Fail: string(fails[k])}
	}
	return js
}

// goSource: unformatted Go source of file k; every file has its own package name, identifiers and size.
func goSource(k int) string {
	sb := &strings.Builder{}
	fmt.Fprintf(sb, "package p%d\n\n// marker-%d\n", k, k)
	for i := 0; i <= k%3; i++ {
		fmt.Fprintf(sb, "type   T%d_%d struct {\nA%d int64\n  B string\n}\n", k, i, k)
	}
	return sb.String()
}

// realCfg turns a configuration into one for the real Go backend: *.go paths, Go sources as contents.
func realCfg(c cfgT) cfgT {
	d := cfgT{Conc: c.Conc, HasPP: true, RealPP: true, GlobalWd: c.GlobalWd, PrevViaPersist: c.PrevViaPersist}
	for k, j := range c.Jobs {
		f := j.Fail
		d.Jobs = append(d.Jobs, job{Path: fmt.Sprintf("gen-go/p%d/f%d.go", k%3, k), Content: goSource(k), Fail: f, Prev: j.Prev, Rel: j.Rel})
	}
	return d
}

func genCfg(rng *vl.Rng, maxN, maxK int) (cfgT, string) {
	n := rng.Intn(maxN + 1)
	if rng.Chance(30) {
		n = rng.Intn(4)
	}
	conc := 1 + rng.Intn(maxK)
	switch rng.Intn(10) {
	case 0:
		conc = 0
	case 1:
		conc = -1 - rng.Intn(3)
	case 2:
		conc = 1
	case 3:
		conc = n + 1 + rng.Intn(3)
	}
	hasPP := !rng.Chance(15)
	b := make([]byte, n)
	mode := rng.Intn(7)
	modes := []string{"none", "all", "last", "first", "random", "random", "random-dense"}
	for k := range b {
		b[k] = 'o'
		switch mode {
		case 1:
			b[k] = "pw"[rng.Intn(2)]
		case 2:
			if k == n-1 {
				b[k] = "pw"[rng.Intn(2)]
			}
		case 3:
			if k == 0 {
				b[k] = "pw"[rng.Intn(2)]
			}
		case 4, 5:
			if rng.Chance(25) {
				b[k] = "pwb"[rng.Intn(3)]
			}
		case 6:
			if rng.Chance(70) {
				b[k] = "pwb"[rng.Intn(3)]
			}
		}
		if !hasPP && (b[k] == 'p' || b[k] == 'b') {
			b[k] = 'w'
		}
	}
	return cfgT{Conc: conc, HasPP: hasPP, Jobs: mkJobs(n, string(b))}, modes[mode]
}

func parseCfgToks(t []string) (cfgT, []string, error) {
	if len(t) < 3 {
		return cfgT{}, nil, fmt.Errorf("short cfg")
	}
	conc, _ := strconv.Atoi(t[0])
	n, _ := strconv.Atoi(t[2])
	c := cfgT{Conc: conc, HasPP: t[1] == "1"}
	t = t[3:]
	if len(t) < 3*n {
		return cfgT{}, nil, fmt.Errorf("short job list")
	}
	for k := 0; k < n; k++ {
		c.Jobs = append(c.Jobs, job{Path: vl.UnHex(t[3*k]), Content: vl.UnHex(t[3*k+1]), Fail: t[3*k+2]})
	}
	return c, t[3*n:], nil
}

// ---------------------------------------------------------------- run

type input struct {
	Cfg      cfgT     `json:"config"`
	Mode     string   `json:"mode"` // controlled | free | persist
	Schedule []string `json:"schedule,omitempty"`
}

type harness struct {
	out     *vl.Out
	rng     *vl.Rng
	wd      time.Duration
	classes map[string]int
	stop    bool
	stalled int
}

func (h *harness) record(cfg cfgT, o *outcome, bad []string, class string) {
	if o.Stalled {
		h.stalled++
		h.out.Count("stalled(no verdict)")
		return
	}
	op := "T " + cfg.toks() + " | " + strings.Join(o.Events, " ")
	impl := fmt.Sprintf("ok ret=%s written=%s final=1", o.Ret, o.Written)
	if o.Deadlock {
		impl = fmt.Sprintf("deadlock ret=%s written=%s", o.Ret, o.Written)
	} else if o.Leak {
		impl = fmt.Sprintf("leak ret=%s written=%s", o.Ret, o.Written)
	}
	if strings.HasPrefix(o.Forced, "stuck") || strings.HasPrefix(o.Forced, "diverged") {
		impl = "forced-path-" + o.Forced + " " + impl
	}
	h.out.Case(op, impl, len(cfg.Jobs) > 0)
	h.out.Count("class:" + class)
	h.out.Count(fmt.Sprintf("N:%d", len(cfg.Jobs)))
	h.out.Count(fmt.Sprintf("K:%d", cfg.Conc))
	h.out.Count("ret:" + strings.TrimRight(o.Ret, "0123456789"))
	nf := 0
	for k := range cfg.Jobs {
		if cfg.fails(k) {
			nf++
		}
	}
	h.out.Count(fmt.Sprintf("failing-jobs:%d", mini(nf, 4)))
	if o.Forced != "" {
		h.out.Count("forced:" + strings.SplitN(o.Forced, "@", 2)[0])
	}
	early := false
	for _, e := range o.Events {
		if strings.HasPrefix(e, "er") {
			early = true
		}
	}
	if early {
		h.out.Count("path:early-return")
	}
	if h.out.Evals%499 == 1 {
		h.out.Sample(map[string]interface{}{"config": cfg, "class": class, "events": strings.Join(o.Events, " "), "observed": impl})
	}
	if len(bad) > 0 {
		h.fail(input{Cfg: cfg, Mode: "controlled", Schedule: o.Releases}, bad, impl)
	}
}

func runInput(in input, wd time.Duration, tries int, rng *vl.Rng) (*outcome, []string) {
	switch in.Mode {
	case "free":
		var jit uint64 = rng.U64()
		for i := 0; i < tries; i++ {
			o, bad := runFree(in.Cfg, &jit, 2*time.Second)
			if len(bad) > 0 || i == tries-1 {
				return o, bad
			}
		}
	case "persist":
		for i := 0; i < tries; i++ {
			o, bad := runPersist(in.Cfg)
			if len(bad) > 0 || i == tries-1 {
				return o, bad
			}
		}
	}
	if len(in.Schedule) > 0 {
		o, bad := runControlled(in.Cfg, in.Schedule, mkChooser(7, rng), wd)
		if len(bad) > 0 || tries <= 1 {
			return o, bad
		}
	}
	var o *outcome
	var bad []string
	for i := 0; i < tries; i++ {
		o, bad = runControlled(in.Cfg, nil, mkChooser(i%len(stratNames), rng), wd)
		if len(bad) > 0 {
			return o, bad
		}
	}
	return o, bad
}

type oneResult struct {
	Outcome *outcome `json:"outcome"`
	Bad     []string `json:"bad"`
}

// runIsolated runs one input in a child process: a panic in a worker goroutine of the implementation
// (e.g. "sync: negative WaitGroup counter") cannot be recovered and must not take the harness down.
func runIsolated(in input, tries int) (*outcome, []string) {
	js, _ := json.Marshal(in)
	cmd := exec.Command(os.Args[0], "one", "-tries", strconv.Itoa(tries))
	cmd.Stdin = bytes.NewReader(js)
	var so, se bytes.Buffer
	cmd.Stdout, cmd.Stderr = &so, &se
	err := cmd.Run()
	if err == nil {
		var res oneResult
		if e := json.Unmarshal(so.Bytes(), &res); e == nil && res.Outcome != nil {
			return res.Outcome, res.Bad
		}
		panic("c19 one: unreadable result: " + so.String() + se.String())
	}
	msg := se.String()
	if strings.Contains(msg, "panic:") || strings.Contains(msg, "fatal error:") {
		first := msg
		if i := strings.Index(msg, "panic:"); i >= 0 {
			first = msg[i:]
		}
		if i := strings.Index(first, "\n"); i >= 0 {
			first = first[:i]
		}
		return &outcome{Ret: "panic", Written: first, Releases: in.Schedule}, []string{"panic"}
	}
	panic("c19 one failed: " + msg)
}

func one(tries int) error {
	b, err := io.ReadAll(os.Stdin)
	if err != nil {
		return err
	}
	var in input
	if err := json.Unmarshal(b, &in); err != nil {
		return err
	}
	o, bad := runInput(in, 400*time.Millisecond, tries, vl.NewRng(1))
	js, _ := json.Marshal(oneResult{o, bad})
	fmt.Println(string(js))
	return nil
}

func contains(l []string, s string) bool {
	for _, x := range l {
		if x == s {
			return true
		}
	}
	return false
}

// fail shrinks the configuration (fewer jobs, smaller concurrency, fewer failing jobs) while the same
// class of failure is reproducible, and reports the minimised input with its concrete schedule.
func (h *harness) fail(in input, bad []string, observed string) {
	class := bad[0]
	h.classes[class]++
	if h.classes[class] > 1 {
		if h.classes[class] > 8 {
			h.stop = true
		}
		return
	}
	tries := 120
	if in.Mode == "persist" {
		tries = 25
	}
	cur := in
	repro := func(c input) (*outcome, bool) {
		c.Schedule = nil
		o, b := runInput(c, h.wd, tries, h.rng)
		return o, contains(b, class)
	}
	var last *outcome
	budget := time.Now().Add(40 * time.Second)
	for changed := true; changed && time.Now().Before(budget); {
		changed = false
		var cands []cfgT
		c := cur.Cfg
		with := func(f func(d *cfgT)) {
			d := c
			d.Jobs = append([]job(nil), c.Jobs...)
			f(&d)
			cands = append(cands, d)
		}
		for k := len(c.Jobs) - 1; k >= 0; k-- { // drop job k (paths keep their identity)
			k := k
			with(func(d *cfgT) { d.Jobs = append(d.Jobs[:k:k], d.Jobs[k+1:]...) })
		}
		for k := range c.Jobs {
			k := k
			if c.Jobs[k].Prev != "" {
				with(func(d *cfgT) { d.Jobs[k].Prev = "" })
			}
			if c.Jobs[k].Rel {
				with(func(d *cfgT) { d.Jobs[k].Rel = false })
			}
		}
		if c.PrevViaPersist {
			with(func(d *cfgT) { d.PrevViaPersist = false })
		}
		if c.GlobalWd {
			with(func(d *cfgT) { d.GlobalWd = false })
		}
		for k := range c.Jobs {
			k := k
			if c.Jobs[k].Fail == "o" {
				continue
			}
			with(func(d *cfgT) { d.Jobs[k].Fail = "o" })
			if c.Jobs[k].Fail == "b" || c.Jobs[k].Fail == "p" {
				with(func(d *cfgT) { d.Jobs[k].Fail = "w" })
			}
		}
		if c.Conc != 1 {
			with(func(d *cfgT) { d.Conc = 1 })
			if c.Conc > 2 {
				with(func(d *cfgT) { d.Conc = c.Conc - 1 })
			}
		}
		for _, d := range cands {
			if o, ok := repro(input{Cfg: d, Mode: cur.Mode}); ok {
				cur.Cfg, last, changed = d, o, true
				break
			}
		}
	}
	if last != nil {
		cur.Schedule = last.Releases
		observed = fmt.Sprintf("ret=%s written=%s deadlock=%v leak=%v", last.Ret, last.Written, last.Deadlock, last.Leak)
	}
	if cur.Mode != "controlled" {
		cur.Schedule = nil
	}
	exp := "nil only if every job was post-processed and written exactly once with its own content; an error if any dispatched job fails; no deadlock; no work of the call after it returned"
	h.out.Fail(vl.OracleFail{Key: class + "|" + cur.Mode + "|" + cur.Cfg.toks() + cur.Cfg.histToks(), What: "OnFinished: " + class,
		Input: cur, Expected: exp, Observed: class + ": " + observed})
}

func run(repo, dir string, seed uint64, tier, pathsFile string, batch, nbatch int) error {
	out := vl.NewOut(dir)
	rng := vl.NewRng(seed*1000003 + uint64(batch))
	h := &harness{out: out, rng: rng, wd: 400 * time.Millisecond, classes: map[string]int{}}
	nCtl, maxN, maxK, nFree, nPersist := 2000, 6, 4, 300, 90
	if tier == "thorough" {
		nCtl, maxN, maxK, nFree, nPersist = 200000, 12, 16, 4000, 300
	}
	nCtl, nFree, nPersist = nCtl/nbatch, nFree/nbatch, nPersist/nbatch
	// (b) model paths forced on the implementation
	if pathsFile != "" {
		f, err := os.Open(pathsFile)
		if err != nil {
			return err
		}
		sc := bufio.NewScanner(f)
		sc.Buffer(make([]byte, 1<<20), 1<<24)
		ln := 0
		for sc.Scan() && !h.stop {
			t := strings.Fields(sc.Text())
			if len(t) < 2 || (t[0] != "P" && t[0] != "X") {
				continue
			}
			if ln++; ln%nbatch != batch {
				continue
			}
			cfg, rest, err := parseCfgToks(t[2:])
			if err != nil || len(rest) == 0 || rest[0] != "|" {
				return fmt.Errorf("bad path line: %s", sc.Text())
			}
			if t[0] == "X" && strings.HasPrefix(t[1], "panic") {
				// the LTS with this tree's skeleton reaches a negative WaitGroup counter: force that path in a child process
				in := input{Cfg: cfg, Mode: "controlled", Schedule: rest[1:]}
				o, bad := runIsolated(in, 1)
				out.Count("class:model-violation-path:" + t[1] + "(isolated)")
				out.Evals++
				if contains(bad, "panic") {
					h.out.Fail(vl.OracleFail{Key: "panic|controlled|" + cfg.toks(), What: "OnFinished: panic (" + o.Written + ")", Input: in,
						Expected: "no panic: wg.Done() never drives the WaitGroup counter negative", Observed: "the process panics: " + o.Written})
					h.stop = true // every further schedule may crash the harness
				}
				continue
			}
			o, bad := runControlled(cfg, rest[1:], mkChooser(7, rng), h.wd)
			class := "model-path"
			if t[0] == "X" {
				class = "model-violation-path:" + t[1]
			}
			h.record(cfg, o, bad, class)
		}
		f.Close()
	}
	// (a) seeded controlled schedules
	for i := 0; i < nCtl && !h.stop; i++ {
		cfg, mode := genCfg(rng, maxN, maxK)
		strat := rng.Intn(len(stratNames))
		pp := "mock"
		if !cfg.HasPP {
			pp = "none"
		}
		if i%8 == 3 { // the real golang.GoBackend.PostProcess on recognisable Go sources
			cfg = realCfg(cfg)
			pp = "real-go-backend"
			if cfg.Conc < 2 && rng.Chance(70) {
				cfg.Conc = 2 + rng.Intn(maxK)
			}
			if rng.Chance(50) {
				strat = 8
			}
		}
		out.Count("post-processor:" + pp)
		o, bad := runControlled(cfg, nil, mkChooser(strat, rng), h.wd)
		h.record(cfg, o, bad, "controlled:"+stratNames[strat])
		out.Count("fail-pattern:" + mode)
	}
	// free-running (Go scheduler picks): final observation must be a reachable final of the LTS (N <= 4), oracle for all
	jit := rng.U64()
	for i := 0; i < nFree && !h.stop; i++ {
		cfg, _ := genCfg(rng, maxN, maxK)
		if i%6 == 2 {
			cfg, _ = genCfg(rng, 40, maxK)
			cfg = realCfg(cfg)
			cfg.Conc = 2 + rng.Intn(7)
			out.Count("free-running:real-go-backend")
		}
		o, bad := runFree(cfg, &jit, 2*time.Second)
		out.Count("class:free-running")
		if o.Stalled {
			h.stalled++
			continue
		}
		if len(cfg.Jobs) <= 4 && cfg.Conc <= 3 && !cfg.RealPP {
			impl := "member"
			if o.Deadlock || o.Leak {
				impl = "deadlock"
			}
			out.Case("F "+cfg.toks()+" | "+o.Ret+" "+o.Written, impl, len(cfg.Jobs) > 0)
		} else {
			out.Evals++
		}
		if len(bad) > 0 {
			h.fail(input{Cfg: cfg, Mode: "free"}, bad, fmt.Sprintf("ret=%s written=%s", o.Ret, o.Written))
		}
	}
	// end to end through Generator.Persist (real files, GOMAXPROCS workers)
	for i := 0; i < nPersist && !h.stop; i++ {
		cfg, _ := genCfg(rng, maxN, maxK)
		cfg.Conc = runtime.GOMAXPROCS(0)
		cfg.HasPP = true
		hist := "fresh-directory"
		if i%3 != 0 { // two thirds of the runs regenerate into a directory that holds a previous generation
			cfg.PrevViaPersist = rng.Chance(40)
			hist = "prepopulated-directly"
			if cfg.PrevViaPersist {
				hist = "second-persist-call"
			}
			for k := range cfg.Jobs {
				cfg.Jobs[k].Prev = []string{"longer", "longer", "shorter", "equal", ""}[rng.Intn(5)]
				out.Count("persist-previous:" + cfg.Jobs[k].Prev)
			}
		}
		out.Count("persist-history:" + hist)
		// where the files go: SDK global working directory set / unset x absolute / relative names x nested directories
		place := func(c *cfgT) {
			c.GlobalWd = rng.Bool()
			for k := range c.Jobs {
				c.Jobs[k].Rel = rng.Bool()
				if k%3 == 1 {
					c.Jobs[k].Path = fmt.Sprintf("d%d/n1/n2/f%d", k%2, k)
				}
				out.Count(fmt.Sprintf("persist-name:global-wd=%v,relative=%v", c.GlobalWd, c.Jobs[k].Rel))
			}
		}
		place(&cfg)
		if i%5 == 1 {
			big, _ := genCfg(rng, 150, maxK)
			for k := range big.Jobs {
				if k < len(cfg.Jobs) {
					big.Jobs[k].Prev = cfg.Jobs[k].Prev
				}
				if big.Jobs[k].Fail != "o" && rng.Chance(90) { // mostly successful runs: nil must mean right bytes
					big.Jobs[k].Fail = "o"
				}
			}
			big.PrevViaPersist = cfg.PrevViaPersist
			place(&big)
			cfg = realCfg(big)
			cfg.Conc = runtime.GOMAXPROCS(0)
			out.Count("persist:real-go-backend")
		}
		o, bad := runPersist(cfg)
		out.Count("class:persist-e2e")
		out.Count("persist-ret:" + strings.TrimRight(o.Ret, "0123456789"))
		out.Evals++
		if len(bad) > 0 {
			h.fail(input{Cfg: cfg, Mode: "persist"}, bad, fmt.Sprintf("ret=%s written=%s", o.Ret, o.Written))
		}
	}
	out.Close()
	if h.stalled > 50 {
		return fmt.Errorf("%d runs were starved by the machine (no verdict)", h.stalled)
	}
	return nil
}

// ---------------------------------------------------------------- Persist end to end

type fakeBackend struct {
	r     *runner
	files []*plugin.Generated
}

func (b *fakeBackend) Name() string                              { return "fake" }
func (b *fakeBackend) Lang() string                              { return "fake" }
func (b *fakeBackend) Options() []plugin.Option                  { return nil }
func (b *fakeBackend) BuiltinPlugins() []*plugin.Desc            { return nil }
func (b *fakeBackend) GetPlugin(desc *plugin.Desc) plugin.Plugin { return nil }
func (b *fakeBackend) Generate(req *plugin.Request, log backend.LogFunc) *plugin.Response {
	res := plugin.NewResponse()
	res.Contents = b.files
	return res
}
func (b *fakeBackend) PostProcess(path string, content []byte) ([]byte, error) {
	return b.r.PostProcess(path, content)
}

// persistSetup registers a fault-injecting backend that "generates" the jobs and runs Generator.Generate.
func persistSetup(full cfgT, names []string) (*generator.Generator, *plugin.Response, *runner) {
	r := newRunner(full)
	r.free = true
	be := &fakeBackend{r: r}
	for k, j := range full.Jobs {
		name := names[k]
		be.files = append(be.files, &plugin.Generated{Name: &name, Content: j.Content})
	}
	generator.VerifPoint = nil
	g := &generator.Generator{}
	if err := g.RegisterBackend(be); err != nil {
		panic(err)
	}
	res := g.Generate(&generator.Arguments{Out: &generator.LangSpec{Language: "fake"}, Req: &plugin.Request{}, Log: backend.DummyLogFunc()})
	return g, res, r
}

// runPersist drives Generator.Generate + Generator.Persist with a fault-injecting backend into a temp
// directory; a write failure is provoked by making the parent "directory" of the file a regular file.
func runPersist(cfg cfgT) (*outcome, []string) {
	runMu.Lock()
	defer runMu.Unlock()
	root, err := os.MkdirTemp("", "c19persist")
	if err != nil {
		panic(err)
	}
	defer os.RemoveAll(root)
	root, _ = filepath.EvalSymlinks(root)
	// three disjoint roots: absolute output names live below out/, the SDK's global working directory is wd/,
	// the process' own working directory is cwd/ (relative names resolve there when no global wd is set)
	outRoot, wdRoot, cwdRoot := filepath.Join(root, "out"), filepath.Join(root, "wd"), filepath.Join(root, "cwd")
	for _, d := range []string{outRoot, wdRoot, cwdRoot} {
		os.MkdirAll(d, 0o755)
	}
	oldCwd, _ := os.Getwd()
	if err := os.Chdir(cwdRoot); err != nil {
		panic(err)
	}
	defer os.Chdir(oldCwd)
	if cfg.GlobalWd {
		dir_utils.SetGlobalwd(wdRoot)
	}
	defer dir_utils.SetGlobalwd("")
	// names[k]: the file name in the response; full.Jobs[k].Path: the path Persist is documented to use for it
	// (absolute names as they are; relative names below the global wd when one is set, i.e. Rel(cwd, wd)/name,
	// otherwise relative to the process' working directory) - also what PostProcess and the write are called with
	full := cfgT{Conc: cfg.Conc, HasPP: true, RealPP: cfg.RealPP}
	var names []string
	allowed := map[string]bool{} // every regular file that may exist below root afterwards (absolute)
	for k, j := range cfg.Jobs {
		var name, p string
		if j.Fail == "w" || j.Fail == "b" {
			blocker := filepath.Join(outRoot, fmt.Sprintf("blk%d", k))
			os.WriteFile(blocker, []byte("x"), 0o644)
			allowed[blocker] = true
			name = filepath.Join(blocker, "sub", fmt.Sprintf("f%d%s", k, filepath.Ext(j.Path)))
			p = name
		} else if j.Rel {
			name = filepath.Join("relout", j.Path)
			p = name
			if cfg.GlobalWd {
				p = filepath.Join("..", "wd", name) // = filepath.Join(Rel(cwd, wd), name)
			}
		} else {
			name = filepath.Join(outRoot, j.Path)
			p = name
		}
		names = append(names, name)
		full.Jobs = append(full.Jobs, job{Path: p, Content: j.Content, Fail: j.Fail, Prev: j.Prev})
		abs, _ := filepath.Abs(p)
		allowed[abs] = true
	}
	// previous generation: files of the same names that are longer / shorter / as long as the new bytes
	prevDisk := map[int]string{}
	{
		pre := cfgT{Conc: cfg.Conc, HasPP: true, RealPP: cfg.RealPP}
		var idx []int
		var preNames []string
		for k, j := range full.Jobs {
			if j.Prev == "" || j.Fail == "w" || j.Fail == "b" {
				continue
			}
			var old string
			switch j.Prev {
			case "longer":
				old = j.Content + j.Content + "-stale-tail-of-the-previous-generation"
			case "shorter":
				old = ""
			default: // equal
				old = strings.Repeat("z", len(j.Content))
			}
			pre.Jobs = append(pre.Jobs, job{Path: j.Path, Content: old, Fail: "o"})
			preNames = append(preNames, names[k])
			idx = append(idx, k)
		}
		if len(pre.Jobs) > 0 {
			if cfg.PrevViaPersist {
				g0, res0, _ := persistSetup(pre, preNames)
				if err := g0.Persist(res0); err != nil {
					panic(fmt.Sprintf("pre-population through Persist failed: %v", err))
				}
			} else {
				for i, j := range pre.Jobs {
					os.MkdirAll(filepath.Dir(j.Path), 0o755)
					if err := os.WriteFile(j.Path, []byte(pre.expected(i)), 0o644); err != nil {
						panic(err)
					}
				}
			}
			for _, k := range idx {
				b, err := os.ReadFile(full.Jobs[k].Path)
				if err != nil {
					if cfg.PrevViaPersist {
						// the earlier Persist call returned nil but the file is not where it was asked for
						return &outcome{Ret: "nil", Written: "previous generation: " + err.Error()}, []string{"nil-but-not-all-written"}
					}
					panic(err)
				}
				prevDisk[k] = string(b)
			}
		}
	}
	g, res, r := persistSetup(full, names)
	o := &outcome{}
	done := make(chan error, 1)
	go func() { done <- g.Persist(res) }()
	var perr error
	got := false
	for i := 0; i < 120 && !got; i++ {
		select {
		case perr = <-done:
			got = true
		case <-time.After(500 * time.Millisecond):
			if n, b := allBlocked(); i >= 4 && n > 0 && b {
				i = 1000
			}
		}
	}
	if !got {
		o.Ret = "none"
		if _, b := allBlocked(); b {
			o.Deadlock = true
		} else {
			fmt.Fprintln(os.Stderr, "c19: starved: Persist neither returned nor blocked within 60 s")
			os.Exit(4)
		}
	}
	var bad []string
	if o.Deadlock {
		return o, []string{"deadlock"}
	}
	// snapshot of the tree at the moment of return, then again a little later: nothing may change
	snap := func() string {
		var l []string
		for k, j := range full.Jobs {
			if b, err := os.ReadFile(j.Path); err == nil {
				l = append(l, fmt.Sprintf("%d=%s", k, vl.Hex(string(b))))
			}
		}
		sort.Strings(l)
		return strings.Join(l, ",")
	}
	s1 := snap()
	time.Sleep(300 * time.Microsecond)
	runtime.Gosched()
	if s2 := snap(); s2 != s1 {
		bad = append(bad, "work-in-flight-after-return")
	}
	anyFail := false
	for k := range full.Jobs {
		anyFail = anyFail || full.fails(k)
	}
	if perr == nil {
		o.Ret = "nil"
		if anyFail {
			bad = append(bad, "nil-despite-failure")
		}
		for k, j := range full.Jobs {
			b, err := os.ReadFile(j.Path)
			if !full.fails(k) && err != nil {
				bad = append(bad, "nil-but-not-all-written")
				break
			}
			if !full.fails(k) && string(b) != full.expected(k) {
				// the write is "file := content": nothing of a previous generation may survive
				bad = append(bad, "nil-but-file-is-not-its-own-content")
				break
			}
		}
	} else {
		o.Ret = "err"
		if !anyFail {
			bad = append(bad, "error-of-a-job-that-did-not-fail")
		}
	}
	for k, j := range full.Jobs {
		// on every path: a file is either completely the job's own content or untouched (previous generation / absent)
		if b, err := os.ReadFile(j.Path); err == nil && string(b) != full.expected(k) {
			if old, had := prevDisk[k]; !(had && string(b) == old) && !contains(bad, "nil-but-file-is-not-its-own-content") {
				bad = append(bad, "wrong-content")
			}
		}
	}
	r.mu.Lock()
	for k := range full.Jobs {
		if r.ppCalls[k] > 1 {
			bad = append(bad, "double-write")
		}
	}
	if len(r.unknownPath) > 0 {
		bad = append(bad, "post-processed-under-a-foreign-path")
	}
	r.mu.Unlock()
	// nothing may be written anywhere else: scan all three roots
	var stray []string
	filepath.Walk(root, func(p string, info os.FileInfo, err error) error {
		if err == nil && info.Mode().IsRegular() && !allowed[p] {
			rel, _ := filepath.Rel(root, p)
			stray = append(stray, rel)
		}
		return nil
	})
	if len(stray) > 0 {
		sort.Strings(stray)
		bad = append(bad, "file-written-at-a-path-it-was-not-asked-for")
		s1 += " stray=" + strings.Join(stray, ",")
	}
	o.Written = s1
	return o, bad
}

// ---------------------------------------------------------------- replay

func replay(repo, file string) error {
	b, err := os.ReadFile(file)
	if err != nil {
		return err
	}
	var doc struct {
		Input input `json:"input"`
	}
	if err := json.Unmarshal(b, &doc); err != nil {
		return err
	}
	dir, _ := os.MkdirTemp("", "c19replay")
	defer os.RemoveAll(dir)
	h := &harness{out: vl.NewOut(dir), rng: vl.NewRng(1), wd: 400 * time.Millisecond, classes: map[string]int{}}
	var o *outcome
	var bad []string
	if doc.Input.Mode == "controlled" {
		o, bad = runIsolated(doc.Input, 200)
	} else {
		o, bad = runInput(doc.Input, h.wd, 200, h.rng)
	}
	var fails []vl.OracleFail
	if len(bad) > 0 {
		in := doc.Input
		if in.Mode == "controlled" {
			in.Schedule = o.Releases
		}
		fails = append(fails, vl.OracleFail{Key: bad[0] + "|" + in.Mode + "|" + in.Cfg.toks() + in.Cfg.histToks(), What: "OnFinished: " + bad[0], Input: in,
			Expected: "property C19", Observed: fmt.Sprintf("%s: ret=%s written=%s deadlock=%v leak=%v events=%s", strings.Join(bad, ","), o.Ret, o.Written, o.Deadlock, o.Leak, strings.Join(o.Events, " "))})
	}
	h.out.Close()
	js, _ := json.Marshal(fails)
	fmt.Println(string(js))
	return nil
}

func main() {
	repo := flag.String("repo", "/repo", "")
	dir := flag.String("dir", ".", "")
	seed := flag.Uint64("seed", 1, "")
	tier := flag.String("tier", "quick", "")
	file := flag.String("file", "", "")
	paths := flag.String("paths", "", "model paths (tv_c19 gen / explore) to force on the implementation")
	batch := flag.Int("batch", 0, "")
	nbatch := flag.Int("nbatch", 1, "")
	tries := flag.Int("tries", 1, "")
	if len(os.Args) < 2 {
		fmt.Fprintln(os.Stderr, "usage: c19 extract|run|replay [flags]")
		os.Exit(3)
	}
	flag.CommandLine.Parse(os.Args[2:])
	var err error
	switch os.Args[1] {
	case "extract":
		var f *facts
		if f, err = extractFacts(*repo); err == nil {
			fmt.Print(f.lean())
		}
	case "run":
		err = run(*repo, *dir, *seed, *tier, *paths, *batch, *nbatch)
	case "replay":
		err = replay(*repo, *file)
	case "one":
		err = one(*tries)
	default:
		err = fmt.Errorf("usage: c19 extract|run|replay")
	}
	if err != nil {
		fmt.Fprintln(os.Stderr, "c19:", err)
		os.Exit(3)
	}
}

func mini(a, b int) int {
	if a < b {
		return a
	}
	return b
}
