package main

// Translator: reads asyncPostProcess.OnFinished from <repo>/generator/generator.go with go/ast and
// prints the skeleton facts as Generated/C19.lean.  Roles are resolved structurally (the WaitGroup
// variable, the `chan error`, the `chan struct{}`, the receiver, the callback parameter), so renaming
// variables does not change the facts; verif trace-point statements are ignored.

import (
	"fmt"
	"go/ast"
	"go/parser"
	"go/token"
	"path/filepath"
	"strings"
)

type facts struct {
	ClampConc             bool
	ErrsCap, ProcCap      string
	SelAcquire, SelRecv   bool
	WaitBeforeEarlyReturn bool
	AddBeforeGo           bool
	AddAfterGo            bool
	WorkerOps             []string
	WriteGuarded          bool
	FinalWait             bool
	FinalRecv             string
}

type extractor struct {
	recv, wg, errs, proc, cb string
	f                        facts
}

func isVerifStmt(s ast.Stmt) bool {
	switch x := s.(type) {
	case *ast.ExprStmt:
		if c, ok := x.X.(*ast.CallExpr); ok {
			if id, ok := c.Fun.(*ast.Ident); ok && id.Name == "verifPoint" {
				return true
			}
		}
	case *ast.DeferStmt:
		if id, ok := x.Call.Fun.(*ast.Ident); ok && id.Name == "verifPoint" {
			return true
		}
	case *ast.AssignStmt:
		if len(x.Lhs) == 1 {
			if id, ok := x.Lhs[0].(*ast.Ident); ok && strings.HasPrefix(id.Name, "verif") {
				return true
			}
		}
	case *ast.IncDecStmt:
		if id, ok := x.X.(*ast.Ident); ok && strings.HasPrefix(id.Name, "verif") {
			return true
		}
	}
	return false
}

func filter(l []ast.Stmt) []ast.Stmt {
	var out []ast.Stmt
	for _, s := range l {
		if !isVerifStmt(s) {
			out = append(out, s)
		}
	}
	return out
}

func (e *extractor) isSel(x ast.Expr, a, b string) bool {
	s, ok := x.(*ast.SelectorExpr)
	if !ok {
		return false
	}
	id, ok := s.X.(*ast.Ident)
	return ok && id.Name == a && s.Sel.Name == b
}

func isIdent(x ast.Expr, n string) bool {
	id, ok := x.(*ast.Ident)
	return ok && id.Name == n
}

// wgCall recognises wg.<m>(...)
func (e *extractor) wgCall(x ast.Expr, m string) bool {
	c, ok := x.(*ast.CallExpr)
	return ok && e.isSel(c.Fun, e.wg, m)
}

func (e *extractor) recvFrom(x ast.Expr, ch string) bool {
	u, ok := x.(*ast.UnaryExpr)
	return ok && u.Op == token.ARROW && isIdent(u.X, ch)
}

func (e *extractor) capExpr(c *ast.CallExpr) (string, error) {
	if len(c.Args) < 2 {
		return ".const 0", nil
	}
	a := c.Args[1]
	if call, ok := a.(*ast.CallExpr); ok && isIdent(call.Fun, "len") && len(call.Args) == 1 && e.isSel(call.Args[0], e.recv, "jobs") {
		return ".lenJobs", nil
	}
	if e.isSel(a, e.recv, "concurrency") {
		return ".concurrency", nil
	}
	if l, ok := a.(*ast.BasicLit); ok && l.Kind == token.INT {
		return ".const " + l.Value, nil
	}
	return "", fmt.Errorf("unrecognised channel capacity expression")
}

// workerOps collects the synchronisation operations of a statement list in execution order;
// deferred ones are appended to *defers (one entry per defer statement).
func (e *extractor) workerOps(l []ast.Stmt, guard string, defers *[][]string) ([]string, error) {
	var ops []string
	for _, s := range filter(l) {
		switch x := s.(type) {
		case *ast.DeferStmt:
			if fl, ok := x.Call.Fun.(*ast.FuncLit); ok {
				var inner [][]string
				o, err := e.workerOps(fl.Body.List, "", &inner)
				if err != nil {
					return nil, err
				}
				if len(inner) > 0 {
					return nil, fmt.Errorf("nested defer in worker")
				}
				*defers = append(*defers, o)
			} else if e.wgCall(x.Call, "Done") {
				*defers = append(*defers, []string{".done"})
			} else {
				return nil, fmt.Errorf("unrecognised deferred call in worker")
			}
		case *ast.ExprStmt:
			switch {
			case e.wgCall(x.X, "Done"):
				ops = append(ops, ".done")
			case e.wgCall(x.X, "Add"):
				ops = append(ops, ".add")
			case e.recvFrom(x.X, e.proc):
				ops = append(ops, ".release")
			default:
				return nil, fmt.Errorf("unrecognised expression statement in worker")
			}
		case *ast.SendStmt:
			if isIdent(x.Chan, e.errs) {
				if guard != "err!=nil" {
					return nil, fmt.Errorf("error send not guarded by err != nil")
				}
				ops = append(ops, ".send")
			} else {
				return nil, fmt.Errorf("unrecognised send in worker")
			}
		case *ast.AssignStmt:
			if len(x.Rhs) == 1 {
				if c, ok := x.Rhs[0].(*ast.CallExpr); ok {
					if s, ok := c.Fun.(*ast.SelectorExpr); ok && s.Sel.Name == "PostProcess" {
						ops = append(ops, ".pp")
						continue
					}
					if isIdent(c.Fun, e.cb) {
						ops = append(ops, ".write")
						if guard == "err==nil" {
							e.f.WriteGuarded = true
						}
						continue
					}
				}
			}
			return nil, fmt.Errorf("unrecognised assignment in worker")
		case *ast.DeclStmt:
			// var err error
		case *ast.IfStmt:
			g := guard
			if b, ok := x.Cond.(*ast.BinaryExpr); ok {
				if isIdent(b.X, "err") && isIdent(b.Y, "nil") {
					if b.Op == token.EQL {
						g = "err==nil"
					} else if b.Op == token.NEQ {
						g = "err!=nil"
					}
				}
			}
			if x.Else != nil || x.Init != nil {
				return nil, fmt.Errorf("unrecognised if statement in worker")
			}
			o, err := e.workerOps(x.Body.List, g, defers)
			if err != nil {
				return nil, err
			}
			ops = append(ops, o...)
		default:
			return nil, fmt.Errorf("unrecognised statement in worker (%T)", s)
		}
	}
	return ops, nil
}

func (e *extractor) loopBody(l []ast.Stmt) error {
	seenGo := false
	for _, s := range filter(l) {
		switch x := s.(type) {
		case *ast.SelectStmt:
			for _, cc := range x.Body.List {
				c := cc.(*ast.CommClause)
				switch m := c.Comm.(type) {
				case *ast.SendStmt:
					if !isIdent(m.Chan, e.proc) {
						return fmt.Errorf("dispatch select: unrecognised send case")
					}
					e.f.SelAcquire = true
					if len(filter(c.Body)) != 0 {
						return fmt.Errorf("dispatch select: acquire case has a body")
					}
				case *ast.AssignStmt:
					if len(m.Rhs) != 1 || !e.recvFrom(m.Rhs[0], e.errs) || len(m.Lhs) != 1 {
						return fmt.Errorf("dispatch select: unrecognised receive case")
					}
					v := m.Lhs[0].(*ast.Ident).Name
					e.f.SelRecv = true
					body := filter(c.Body)
					for len(body) > 0 {
						if es, ok := body[0].(*ast.ExprStmt); ok && e.wgCall(es.X, "Wait") {
							e.f.WaitBeforeEarlyReturn = true
							body = body[1:]
							continue
						}
						break
					}
					if len(body) != 1 {
						return fmt.Errorf("dispatch select: unrecognised receive case body")
					}
					r, ok := body[0].(*ast.ReturnStmt)
					if !ok || len(r.Results) != 1 || !isIdent(r.Results[0], v) {
						return fmt.Errorf("dispatch select: receive case does not return the received error")
					}
				default:
					return fmt.Errorf("dispatch select: unrecognised case")
				}
			}
		case *ast.SendStmt:
			if !isIdent(x.Chan, e.proc) {
				return fmt.Errorf("loop: unrecognised send")
			}
			e.f.SelAcquire = true
		case *ast.ExprStmt:
			if e.wgCall(x.X, "Add") && !seenGo {
				e.f.AddBeforeGo = true
			} else if e.wgCall(x.X, "Add") {
				e.f.AddAfterGo = true
			} else {
				return fmt.Errorf("loop: unrecognised expression statement")
			}
		case *ast.GoStmt:
			seenGo = true
			fl, ok := x.Call.Fun.(*ast.FuncLit)
			if !ok {
				return fmt.Errorf("loop: go statement is not a function literal")
			}
			var defers [][]string
			ops, err := e.workerOps(fl.Body.List, "", &defers)
			if err != nil {
				return err
			}
			for i := len(defers) - 1; i >= 0; i-- {
				ops = append(ops, defers[i]...)
			}
			e.f.WorkerOps = ops
		default:
			return fmt.Errorf("loop: unrecognised statement (%T)", s)
		}
	}
	if !seenGo {
		return fmt.Errorf("loop: no go statement")
	}
	return nil
}

func (e *extractor) tail(l []ast.Stmt) error {
	e.f.FinalRecv = ""
	for _, s := range l {
		switch x := s.(type) {
		case *ast.ExprStmt:
			if e.wgCall(x.X, "Wait") && e.f.FinalRecv == "" {
				e.f.FinalWait = true
				continue
			}
			return fmt.Errorf("tail: unrecognised expression statement")
		case *ast.SelectStmt:
			hasRecv, hasDefault := false, false
			for _, cc := range x.Body.List {
				c := cc.(*ast.CommClause)
				body := filter(c.Body)
				if c.Comm == nil {
					if len(body) == 1 {
						if r, ok := body[0].(*ast.ReturnStmt); ok && len(r.Results) == 1 && isIdent(r.Results[0], "nil") {
							hasDefault = true
							continue
						}
					}
					return fmt.Errorf("tail: unrecognised default case")
				}
				m, ok := c.Comm.(*ast.AssignStmt)
				if !ok || len(m.Rhs) != 1 || !e.recvFrom(m.Rhs[0], e.errs) || len(body) != 1 {
					return fmt.Errorf("tail: unrecognised select case")
				}
				r, ok := body[0].(*ast.ReturnStmt)
				if !ok || len(r.Results) != 1 || !isIdent(r.Results[0], m.Lhs[0].(*ast.Ident).Name) {
					return fmt.Errorf("tail: receive case does not return the error")
				}
				hasRecv = true
			}
			switch {
			case hasRecv && hasDefault:
				e.f.FinalRecv = ".nonblocking"
			case hasRecv:
				e.f.FinalRecv = ".blocking"
			default:
				return fmt.Errorf("tail: select without receive")
			}
		case *ast.ReturnStmt:
			if e.f.FinalRecv != "" {
				return fmt.Errorf("tail: statement after the final receive")
			}
			if len(x.Results) == 1 && isIdent(x.Results[0], "nil") {
				e.f.FinalRecv = ".absent"
			} else if len(x.Results) == 1 && e.recvFrom(x.Results[0], e.errs) {
				e.f.FinalRecv = ".blocking"
			} else {
				return fmt.Errorf("tail: unrecognised return")
			}
		default:
			return fmt.Errorf("tail: unrecognised statement (%T)", s)
		}
	}
	if e.f.FinalRecv == "" {
		return fmt.Errorf("tail: no return")
	}
	return nil
}

func extractFacts(repo string) (*facts, error) {
	fset := token.NewFileSet()
	file, err := parser.ParseFile(fset, filepath.Join(repo, "generator", "generator.go"), nil, 0)
	if err != nil {
		return nil, err
	}
	var fn *ast.FuncDecl
	for _, d := range file.Decls {
		if f, ok := d.(*ast.FuncDecl); ok && f.Name.Name == "OnFinished" && f.Recv != nil && len(f.Recv.List) == 1 {
			if st, ok := f.Recv.List[0].Type.(*ast.StarExpr); ok && isIdent(st.X, "asyncPostProcess") {
				fn = f
			}
		}
	}
	if fn == nil {
		return nil, fmt.Errorf("(*asyncPostProcess).OnFinished not found")
	}
	e := &extractor{}
	if len(fn.Recv.List[0].Names) != 1 || len(fn.Type.Params.List) != 1 || len(fn.Type.Params.List[0].Names) != 1 {
		return nil, fmt.Errorf("unexpected signature")
	}
	e.recv = fn.Recv.List[0].Names[0].Name
	e.cb = fn.Type.Params.List[0].Names[0].Name
	body := filter(fn.Body.List)
	// role resolution
	for _, s := range body {
		switch x := s.(type) {
		case *ast.DeclStmt:
			if gd, ok := x.Decl.(*ast.GenDecl); ok {
				for _, sp := range gd.Specs {
					if vs, ok := sp.(*ast.ValueSpec); ok && len(vs.Names) == 1 {
						if se, ok := vs.Type.(*ast.SelectorExpr); ok && isIdent(se.X, "sync") && se.Sel.Name == "WaitGroup" {
							e.wg = vs.Names[0].Name
						}
					}
				}
			}
		case *ast.AssignStmt:
			if len(x.Lhs) == 1 && len(x.Rhs) == 1 {
				if c, ok := x.Rhs[0].(*ast.CallExpr); ok && isIdent(c.Fun, "make") && len(c.Args) >= 1 {
					if ct, ok := c.Args[0].(*ast.ChanType); ok {
						name := x.Lhs[0].(*ast.Ident).Name
						if isIdent(ct.Value, "error") {
							e.errs = name
						} else if _, ok := ct.Value.(*ast.StructType); ok {
							e.proc = name
						}
					}
				}
			}
		}
	}
	if e.wg == "" || e.errs == "" {
		return nil, fmt.Errorf("WaitGroup or error channel not found")
	}
	e.f.ProcCap = ".const 0"
	loopSeen := false
	for i, s := range body {
		switch x := s.(type) {
		case *ast.IfStmt:
			// if p.concurrency <= 0 { p.concurrency = 1 }
			b, ok := x.Cond.(*ast.BinaryExpr)
			if ok && e.isSel(b.X, e.recv, "concurrency") && b.Op == token.LEQ && len(x.Body.List) == 1 {
				if a, ok := x.Body.List[0].(*ast.AssignStmt); ok && len(a.Lhs) == 1 && e.isSel(a.Lhs[0], e.recv, "concurrency") {
					if l, ok := a.Rhs[0].(*ast.BasicLit); ok && l.Value == "1" {
						if z, ok := b.Y.(*ast.BasicLit); ok && z.Value == "0" {
							e.f.ClampConc = true
							continue
						}
					}
				}
			}
			return nil, fmt.Errorf("unrecognised if statement before the loop")
		case *ast.DeclStmt:
		case *ast.AssignStmt:
			c, ok := x.Rhs[0].(*ast.CallExpr)
			if !ok || !isIdent(c.Fun, "make") {
				return nil, fmt.Errorf("unrecognised assignment before the loop")
			}
			capx, err := e.capExpr(c)
			if err != nil {
				return nil, err
			}
			switch x.Lhs[0].(*ast.Ident).Name {
			case e.errs:
				e.f.ErrsCap = capx
			case e.proc:
				e.f.ProcCap = capx
			default:
				return nil, fmt.Errorf("unrecognised make")
			}
		case *ast.RangeStmt:
			if !e.isSel(x.X, e.recv, "jobs") {
				return nil, fmt.Errorf("loop does not range over the job list")
			}
			if err := e.loopBody(x.Body.List); err != nil {
				return nil, err
			}
			loopSeen = true
			if err := e.tail(body[i+1:]); err != nil {
				return nil, err
			}
			return &e.f, nil
		default:
			return nil, fmt.Errorf("unrecognised statement before the loop (%T)", s)
		}
	}
	_ = loopSeen
	return nil, fmt.Errorf("dispatch loop not found")
}

func lb(b bool) string {
	if b {
		return "true"
	}
	return "false"
}

func (f *facts) lean() string {
	w := &strings.Builder{}
	fmt.Fprintf(w, "/- GENERATED by harness/cmd/c19 extract from generator/generator.go (asyncPostProcess.OnFinished, go/ast). Do not edit. -/\n")
	fmt.Fprintf(w, "import ThriftVerif.Lib.AsyncPP\nnamespace Generated.C19\nopen AsyncPP\n\n")
	fmt.Fprintf(w, "def facts : Facts :=\n  { clampConc := %s,\n    errsCap := %s,\n    procCap := %s,\n    selAcquire := %s,\n    selRecvErr := %s,\n",
		lb(f.ClampConc), f.ErrsCap, f.ProcCap, lb(f.SelAcquire), lb(f.SelRecv))
	fmt.Fprintf(w, "    waitBeforeEarlyReturn := %s,\n    addBeforeGo := %s,\n    addAfterGo := %s,\n    workerOps := [%s],\n    writeGuarded := %s,\n    finalWait := %s,\n    finalRecv := %s }\n\nend Generated.C19\n",
		lb(f.WaitBeforeEarlyReturn), lb(f.AddBeforeGo), lb(f.AddAfterGo), strings.Join(f.WorkerOps, ", "), lb(f.WriteGuarded), lb(f.FinalWait), f.FinalRecv)
	return w.String()
}
