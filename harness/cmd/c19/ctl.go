package main

// Controller: runs the real asyncPostProcess.OnFinished under a schedule chosen by the harness.
// Every verif trace point parks the calling goroutine; the controller releases one parked goroutine
// at a time (seeded strategy, or a forced sequence), records the arrival order as the event trace and
// evaluates the implementation-only oracle.

import (
	"fmt"
	"os"
	"runtime"
	"sort"
	"strconv"
	"strings"
	"sync"
	"sync/atomic"
	"time"

	"github.com/cloudwego/thriftgo/generator"
	"github.com/cloudwego/thriftgo/generator/backend"
	"github.com/cloudwego/thriftgo/generator/golang"
	"github.com/cloudwego/thriftgo/parser"
	"github.com/cloudwego/thriftgo/plugin"

	"verifharness/internal/vl"
)

type job struct {
	Path    string `json:"path"`
	Content string `json:"content"`
	Fail    string `json:"fail"` // o | p | w | b
	// Persist end to end only: what the target file held before this call
	// ("" = absent, longer | shorter | equal = a previous generation of that length relative to the new bytes)
	Prev string `json:"previous,omitempty"`
	// Persist end to end only: the response names the file relative (else absolute)
	Rel bool `json:"relative_name,omitempty"`
}

type cfgT struct {
	Conc  int   `json:"concurrency"`
	HasPP bool  `json:"post_processor"`
	Jobs  []job `json:"jobs"`
	// Persist end to end only: the previous generation was written by an earlier Persist call
	// into the same directory (otherwise by the harness directly)
	PrevViaPersist bool `json:"previous_via_persist,omitempty"`
	// Persist end to end only: dir_utils.SetGlobalwd was called (SDK mode)
	GlobalWd bool `json:"global_wd,omitempty"`
	// the post-processor is the REAL golang.GoBackend.PostProcess (gofmt of *.go files) instead of the
	// harness' own "content#path"; injected pp failures still come from the wrapper
	RealPP bool `json:"real_go_backend,omitempty"`
}

// ---- the real Go backend as post-processor

func newGoBackend() *golang.GoBackend {
	be := new(golang.GoBackend)
	res := be.Generate(&plugin.Request{
		AST:                 &parser.Thrift{Filename: "x.thrift"},
		GeneratorParameters: []string{"skip_go_gen"}, // only initialises the backend's options and logger
	}, backend.DummyLogFunc())
	if e := res.GetError(); e != "" {
		panic("cannot initialise the Go backend: " + e)
	}
	return be
}

var (
	seqMu      sync.Mutex
	seqBackend *golang.GoBackend
	seqCache   = map[string]string{}
)

// seqPP: PostProcess of ONE file computed sequentially (nothing else running) on a backend of its own, copied
// at once — what the write of that file must receive, whatever the other files and the schedule are.
func seqPP(path, content string) string {
	seqMu.Lock()
	defer seqMu.Unlock()
	key := path + "\x00" + content
	if v, ok := seqCache[key]; ok {
		return v
	}
	if seqBackend == nil {
		seqBackend = newGoBackend()
	}
	out, err := seqBackend.PostProcess(path, []byte(content))
	if err != nil {
		panic(err)
	}
	v := string(out)
	seqCache[key] = v
	return v
}

// warm computes the expected contents before any goroutine of the run exists.
func (c cfgT) warm() {
	if c.RealPP {
		for k := range c.Jobs {
			c.expected(k)
		}
	}
}

func (c cfgT) toks() string {
	conc := c.Conc
	if conc < 0 {
		conc = 0
	}
	sb := &strings.Builder{}
	if c.RealPP && c.HasPP {
		// pp flag 2: the post-processing function is given as a table (path, content) -> seqPP
		fmt.Fprintf(sb, "%d 2 %d", conc, len(c.Jobs))
		for k, j := range c.Jobs {
			fmt.Fprintf(sb, " %s %s %s %s", vl.Hex(j.Path), vl.Hex(j.Content), j.Fail, vl.Hex(c.expected(k)))
		}
		return sb.String()
	}
	fmt.Fprintf(sb, "%d %s %d", conc, vl.B(c.HasPP), len(c.Jobs))
	for _, j := range c.Jobs {
		fmt.Fprintf(sb, " %s %s %s", vl.Hex(j.Path), vl.Hex(j.Content), j.Fail)
	}
	return sb.String()
}

// histToks: the previous generation (Persist end to end only), for keys
func (c cfgT) histToks() string {
	any := false
	sb := &strings.Builder{}
	for _, j := range c.Jobs {
		any = any || j.Prev != ""
		if j.Prev == "" {
			sb.WriteString(" -")
		} else {
			sb.WriteString(" " + j.Prev)
		}
	}
	loc := ""
	if c.GlobalWd {
		loc = " global-wd"
	}
	for k, j := range c.Jobs {
		if j.Rel {
			loc += fmt.Sprintf(" rel:%d", k)
		}
	}
	if !any {
		return loc
	}
	via := " previous(direct):"
	if c.PrevViaPersist {
		via = " previous(persist):"
	}
	return loc + via + sb.String()
}

func (c cfgT) failPP(k int) bool { return c.HasPP && (c.Jobs[k].Fail == "p" || c.Jobs[k].Fail == "b") }
func (c cfgT) failWr(k int) bool { return c.Jobs[k].Fail == "w" || c.Jobs[k].Fail == "b" }
func (c cfgT) fails(k int) bool  { return c.failPP(k) || c.failWr(k) }
func (c cfgT) expected(k int) string {
	if c.HasPP && c.RealPP {
		return seqPP(c.Jobs[k].Path, c.Jobs[k].Content)
	}
	if c.HasPP {
		return c.Jobs[k].Content + "#" + c.Jobs[k].Path
	}
	return c.Jobs[k].Content
}

type injErr struct {
	job   int
	stage string
}

func (e *injErr) Error() string { return fmt.Sprintf("injected %s failure of job %d", e.stage, e.job) }

var codes = map[string]string{
	"dispatch": "di", "acquired": "ac", "err-received": "er", "early-return": "ey", "spawn": "sp", "spawned": "sd",
	"w-start": "ws", "w-postprocessed": "wp", "w-written": "ww", "w-err-send": "we", "w-err-sent": "wt",
	"w-exit": "wx", "w-released": "wr", "final-wait": "fw", "final-waited": "fd", "final-err": "fe", "final-nil": "fn",
}

type point struct {
	g      int // -1 dispatcher, else job index
	kind   string
	job    int
	resume chan struct{}
	err    error // for kind "rt"
	pan    interface{}
}

type writeRec struct {
	Job     int
	Path    string
	Content string
}

type runner struct {
	cfg     cfgT
	real    *golang.GoBackend
	pathIdx map[string]int
	free    bool
	jitter  *uint64

	arrivals chan *point
	draining atomic.Bool

	mu          sync.Mutex
	events      []string
	writes      []writeRec
	ppCalls     []int
	wrCalls     []int
	lateWork    []string // work that started after OnFinished returned, or was running when it returned
	unknownPath []string

	returned atomic.Bool
	inWork   atomic.Int32

	// controller state
	parked     map[int]*point
	inflight   map[int]string
	releases   []string
	dispDone   bool
	retErr     error
	retPanic   interface{}
	born       int
	expectBorn int
	live       int
	sem, wgc   int
	errq       int
	deadlock   bool
	unexpected int // releases predicted not to block that did not arrive in time
	running    int // workers between w-start and w-exit (each of them holds a semaphore token)
	maxRunning int
	forced     string
	stalled    bool // the machine starved the run; no verdict
}

func newRunner(cfg cfgT) *runner {
	r := &runner{cfg: cfg, pathIdx: map[string]int{}, parked: map[int]*point{}, inflight: map[int]string{}}
	for i, j := range cfg.Jobs {
		r.pathIdx[j.Path] = i
	}
	if cfg.RealPP && cfg.HasPP {
		cfg.warm()
		r.real = newGoBackend()
	}
	r.ppCalls = make([]int, len(cfg.Jobs))
	r.wrCalls = make([]int, len(cfg.Jobs))
	r.arrivals = make(chan *point, 8*len(cfg.Jobs)+64)
	return r
}

func (r *runner) spin() {
	if r.jitter != nil {
		n := atomic.AddUint64(r.jitter, 0x9E3779B97F4A7C15) >> 60
		for i := uint64(0); i < n; i++ {
			runtime.Gosched()
		}
	}
}

func (r *runner) beginWork(what string, k int) {
	r.inWork.Add(1)
	if r.returned.Load() {
		r.mu.Lock()
		r.lateWork = append(r.lateWork, fmt.Sprintf("%s of job %d started after OnFinished returned", what, k))
		r.mu.Unlock()
	}
}

// PostProcess implements backend.PostProcessor with injected failures.
func (r *runner) PostProcess(path string, content []byte) ([]byte, error) {
	k, ok := r.pathIdx[path]
	if !ok {
		r.mu.Lock()
		r.unknownPath = append(r.unknownPath, path)
		r.mu.Unlock()
		return content, nil
	}
	r.beginWork("PostProcess", k)
	defer r.inWork.Add(-1)
	r.spin()
	r.mu.Lock()
	r.ppCalls[k]++
	r.mu.Unlock()
	if r.cfg.failPP(k) {
		return nil, &injErr{k, "pp"}
	}
	if r.real != nil {
		return r.real.PostProcess(path, content)
	}
	out := make([]byte, 0, len(content)+1+len(path))
	out = append(out, content...)
	out = append(out, '#')
	out = append(out, path...)
	return out, nil
}

func (r *runner) write(path string, content []byte) error {
	k, ok := r.pathIdx[path]
	if !ok {
		r.mu.Lock()
		r.unknownPath = append(r.unknownPath, path)
		r.mu.Unlock()
		return nil
	}
	r.beginWork("write", k)
	defer r.inWork.Add(-1)
	r.spin()
	r.mu.Lock()
	r.wrCalls[k]++
	r.mu.Unlock()
	if r.cfg.failWr(k) {
		return &injErr{k, "write"}
	}
	r.spin()
	if r.real != nil && r.free {
		time.Sleep(100 * time.Microsecond) // the write takes a while before it consumes the content
	}
	r.mu.Lock()
	r.writes = append(r.writes, writeRec{k, path, string(content)})
	r.mu.Unlock()
	return nil
}

func tok(kind string, job int) string {
	c := codes[kind]
	if c == "" {
		c = "??" + kind
	}
	if job < 0 {
		return c
	}
	return c + strconv.Itoa(job)
}

func gname(g int) string {
	if g < 0 {
		return "d"
	}
	return strconv.Itoa(g)
}

func (r *runner) hook(kind string, job int) {
	if r.free || r.draining.Load() {
		if r.free {
			r.mu.Lock()
			r.events = append(r.events, tok(kind, job))
			r.count(kind)
			r.mu.Unlock()
		}
		return
	}
	g := -1
	if strings.HasPrefix(kind, "w-") {
		g = job
	}
	p := &point{g: g, kind: kind, job: job, resume: make(chan struct{})}
	r.arrivals <- p
	<-p.resume
}

func (r *runner) count(kind string) {
	switch kind {
	case "w-start":
		r.running++
		if r.running > r.maxRunning {
			r.maxRunning = r.running
		}
	case "w-exit":
		r.running--
	}
}

func retTok(err error, pan interface{}) string {
	if pan != nil {
		return "panic"
	}
	if err == nil {
		return "nil"
	}
	if ie, ok := err.(*injErr); ok {
		return "e" + strconv.Itoa(ie.job)
	}
	return "other"
}

func (r *runner) start() {
	var va *generator.VerifAsync
	if r.cfg.HasPP {
		va = generator.NewVerifAsync(r, r.cfg.Conc)
	} else {
		va = generator.NewVerifAsync(nil, r.cfg.Conc)
	}
	for _, j := range r.cfg.Jobs {
		va.Add(j.Path, j.Content)
	}
	generator.VerifPoint = r.hook
	go func() {
		var err error
		var pan interface{}
		func() {
			defer func() { pan = recover() }()
			err = va.OnFinished(r.write)
		}()
		r.returned.Store(true)
		if r.inWork.Load() > 0 {
			r.mu.Lock()
			r.lateWork = append(r.lateWork, "PostProcess/write still running when OnFinished returned")
			r.mu.Unlock()
		}
		r.arrivals <- &point{g: -1, kind: "rt", err: err, pan: pan}
	}()
}

func (r *runner) onArrive(p *point) {
	if p.kind == "rt" {
		r.dispDone = true
		r.retErr, r.retPanic = p.err, p.pan
		r.events = append(r.events, "rt:"+retTok(p.err, p.pan))
		delete(r.inflight, -1)
		return
	}
	r.events = append(r.events, tok(p.kind, p.job))
	r.count(p.kind)
	r.parked[p.g] = p
	delete(r.inflight, p.g)
	switch p.kind {
	case "w-start":
		r.born++
		r.live++
	case "acquired":
		r.sem++
	case "spawn":
		r.wgc++
	case "w-released":
		r.sem--
		r.wgc--
	case "w-err-sent":
		r.errq++
	case "err-received", "final-err":
		r.errq--
	}
}

func (r *runner) k() int {
	if r.cfg.Conc <= 0 {
		return 1
	}
	return r.cfg.Conc
}

func (r *runner) predictBlock(kind string) bool {
	switch kind {
	case "dispatch":
		return r.sem >= r.k() && r.errq <= 0
	case "err-received", "final-wait":
		return r.wgc > 0
	}
	return false
}

func (r *runner) release(g int) *point {
	p := r.parked[g]
	delete(r.parked, g)
	r.events = append(r.events, "+"+gname(g))
	r.releases = append(r.releases, gname(g))
	switch p.kind {
	case "w-released":
		r.live--
	case "spawn":
		r.expectBorn++
		r.inflight[p.g] = p.kind
	default:
		r.inflight[p.g] = p.kind
	}
	close(p.resume)
	return p
}

// pump processes arrivals until cond() holds or the timeout expires; returns cond().
func (r *runner) pump(cond func() bool, d time.Duration) bool {
	if cond() {
		return true
	}
	// fast path: yield a few times before arming a timer
	for i := 0; i < 200; i++ {
		select {
		case p := <-r.arrivals:
			r.onArrive(p)
			if cond() {
				return true
			}
		default:
			runtime.Gosched()
		}
	}
	t := time.NewTimer(d)
	defer t.Stop()
	for {
		select {
		case p := <-r.arrivals:
			r.onArrive(p)
			if cond() {
				return true
			}
		case <-t.C:
			return cond()
		}
	}
}

func (r *runner) drainNow() {
	for {
		select {
		case p := <-r.arrivals:
			r.onArrive(p)
		default:
			return
		}
	}
}

func (r *runner) arrived(g int) func() bool {
	return func() bool {
		if g == -1 && r.dispDone {
			return true
		}
		_, ok := r.parked[g]
		return ok
	}
}

const settleT = 30 * time.Millisecond

// settle waits for the goroutines that are expected to reach their next trace point.
func (r *runner) settle(p *point) {
	if p.kind == "spawn" {
		want := r.expectBorn
		r.pump(func() bool { return r.born >= want }, settleT)
	}
	if p.kind != "w-released" && !r.predictBlock(p.kind) {
		if !r.pump(r.arrived(p.g), settleT) {
			r.unexpected++
		}
	}
	// goroutines blocked earlier whose blocking condition has gone
	for g, kind := range r.inflight {
		if g != p.g && !r.predictBlock(kind) {
			r.pump(r.arrived(g), settleT)
		}
	}
}

func (r *runner) finished() bool {
	return r.dispDone && len(r.parked) == 0 && r.live == 0 && r.born >= r.expectBorn
}

type chooser func(r *runner, keys []int) int

func (r *runner) parkedKeys() []int {
	keys := make([]int, 0, len(r.parked))
	for g := range r.parked {
		keys = append(keys, g)
	}
	sort.Ints(keys)
	return keys
}

// freeChoice runs the rest of the schedule with the chooser until everything finished or the watchdog fires.
func (r *runner) freeChoice(ch chooser, watchdog time.Duration) {
	for {
		r.drainNow()
		if r.finished() {
			return
		}
		if len(r.parked) == 0 {
			n := len(r.events)
			prog := func() bool { return len(r.events) > n || r.finished() }
			// no goroutine is parked and nothing arrives: confirm with a second, longer wait before
			// calling it a deadlock (a loaded machine must not produce a false alarm)
			if !r.pump(prog, watchdog) && !r.confirmStuck(prog) {
				r.deadlock = !r.stalled
				return
			}
			continue
		}
		g := ch(r, r.parkedKeys())
		p := r.release(g)
		r.settle(p)
	}
}

var viaPoints = map[string][]string{
	"wt": {"w-err-send"},
	"wr": {"w-exit"},
	"rt": {"early-return", "final-err", "final-nil"},
	"nx": {"spawned"},
	"sd": {"spawn"},
}

func targetHit(target, kind string) bool {
	switch target {
	case "nx":
		return kind == "dispatch" || kind == "final-wait"
	case "rt":
		return false
	}
	return codes[kind] == target
}

// force executes forced steps ("g" = one release, "g>target" = release until g is parked at target).
// Returns "" when all steps were followed, otherwise the reason and position of the divergence.
func (r *runner) force(steps []string, long time.Duration) string {
	overshoot := false
	for i, st := range steps {
		gs, target := st, ""
		if j := strings.Index(st, ">"); j >= 0 {
			gs, target = st[:j], st[j+1:]
		}
		g := -1
		if gs != "d" {
			g, _ = strconv.Atoi(gs)
		}
		for hops := 0; ; hops++ {
			if !r.pump(r.arrived(g), long) && !r.confirmStuck(r.arrived(g)) {
				return fmt.Sprintf("stuck@%d:%s", i, st)
			}
			if g == -1 && r.dispDone {
				if target == "rt" && hops > 0 {
					break
				}
				return fmt.Sprintf("diverged@%d:%s:returned", i, st)
			}
			p := r.parked[g]
			if hops == 0 && overshoot && target == "nx" && targetHit("nx", p.kind) {
				overshoot = false // already there: the build has no trace point right after the go statement
				break
			}
			if hops > 0 {
				if targetHit(target, p.kind) {
					break
				}
				if target == "sd" && targetHit("nx", p.kind) {
					overshoot = true
					break
				}
				ok := false
				for _, v := range viaPoints[target] {
					ok = ok || v == p.kind
				}
				if !ok {
					if target == "ac" && p.kind == "err-received" || target == "er" && p.kind == "acquired" {
						return fmt.Sprintf("select-race@%d:%s", i, st)
					}
					return fmt.Sprintf("diverged@%d:%s:at-%s", i, st, codes[p.kind])
				}
			}
			if hops > 6 {
				return fmt.Sprintf("diverged@%d:%s:hops", i, st)
			}
			rp := r.release(g)
			if rp.kind == "spawn" {
				want := r.expectBorn
				r.pump(func() bool { return r.born >= want }, long)
			}
			if target == "xx" {
				break
			}
			if target == "" {
				r.settle(rp)
				break
			}
		}
	}
	return ""
}

// abandon lets every goroutine of this run go (trace points become no-ops) and waits until the
// process is quiet again, so that a deadlocked or leaking run cannot disturb the next one.
func (r *runner) abandon(base int) bool {
	r.draining.Store(true)
	for _, p := range r.parked {
		close(p.resume)
	}
	r.parked = map[int]*point{}
	deadline := time.Now().Add(300 * time.Millisecond)
	for time.Now().Before(deadline) {
		select {
		case p := <-r.arrivals:
			if p.resume != nil {
				close(p.resume)
			}
		default:
			if runtime.NumGoroutine() <= base {
				return true
			}
			time.Sleep(200 * time.Microsecond)
		}
	}
	if runtime.NumGoroutine() <= base {
		return true
	}
	// goroutines of this run are still alive: a leak only if they are verifiably blocked for good.
	// The next run must not start while any of them can still reach a trace point.
	for i := 0; i < 3000; i++ {
		if runtime.NumGoroutine() <= base {
			return true
		}
		if n, b := allBlocked(); n > 0 && b {
			time.Sleep(20 * time.Millisecond)
			if n2, b2 := allBlocked(); n2 > 0 && b2 {
				return false
			}
		} else if n == 0 {
			return true // what is left does not belong to the implementation under test
		}
		time.Sleep(20 * time.Millisecond)
	}
	fmt.Fprintln(os.Stderr, "c19: starved: goroutines of an abandoned run are still runnable after 60 s")
	os.Exit(4)
	return true
}

// allBlocked inspects the goroutine dump: true iff every goroutine that belongs to the implementation under
// test (OnFinished and its workers, or the goroutine that is about to call it) sits in a blocking primitive
// (channel operation, select, WaitGroup.Wait) outside the harness' trace-point hook. A timeout alone is never
// taken as a deadlock: a starved but runnable goroutine keeps the run alive.
func allBlocked() (related int, blocked bool) {
	buf := make([]byte, 1<<20)
	n := runtime.Stack(buf, true)
	blocked = true
	for _, g := range strings.Split(string(buf[:n]), "\n\n") {
		if !strings.Contains(g, "asyncPostProcess).OnFinished") && !strings.Contains(g, "(*runner).start") && !strings.Contains(g, ".Persist") {
			continue
		}
		related++
		head := g
		if i := strings.Index(g, "\n"); i >= 0 {
			head = g[:i]
		}
		ok := false
		for _, st := range []string{"[chan receive", "[chan send", "[select", "[semacquire", "[sync.WaitGroup.Wait", "[sync.Mutex.Lock", "[sync.Cond.Wait"} {
			if strings.Contains(head, st) {
				ok = true
			}
		}
		if strings.Contains(g, "(*runner).hook") || strings.Contains(g, "(*runner).PostProcess") || strings.Contains(g, "(*runner).write") {
			ok = false // inside the harness: will arrive
		}
		if !ok {
			blocked = false
		}
	}
	return
}

// confirmStuck is called after a timeout: waits (up to a hard limit) until cond() holds or the implementation's
// goroutines are verifiably all blocked. Returns cond(); sets r.stalled when neither happened.
func (r *runner) confirmStuck(cond func() bool) bool {
	for i := 0; i < 60; i++ {
		if r.pump(cond, 20*time.Millisecond) {
			return true
		}
		if _, b := allBlocked(); b {
			// re-check once: the dump and the arrival queue are not atomic
			if r.pump(cond, 50*time.Millisecond) {
				return true
			}
			if _, b2 := allBlocked(); b2 {
				return false
			}
		}
		time.Sleep(time.Duration(i) * 10 * time.Millisecond)
	}
	r.stalled = true
	return cond()
}

type outcome struct {
	Ret      string
	Written  string
	Events   []string
	Releases []string
	Forced   string
	Stalled  bool
	Deadlock bool
	Leak     bool
	Fails    []vl.OracleFail
}

func (r *runner) writtenStr() string {
	var l []string
	for _, w := range r.writes {
		l = append(l, vl.Hex(w.Path)+":"+vl.Hex(w.Content))
	}
	if len(l) == 0 {
		return "-"
	}
	sort.Strings(l)
	return strings.Join(l, ",")
}

// oracle: the property evaluated on the implementation's observable behaviour only.
func (r *runner) oracle(o *outcome) []string {
	var bad []string
	c := r.cfg
	if o.Deadlock {
		bad = append(bad, "deadlock")
	} else if o.Leak {
		bad = append(bad, "goroutine-leak")
	}
	if o.Ret == "panic" {
		bad = append(bad, "panic")
	}
	r.mu.Lock()
	defer r.mu.Unlock()
	if len(r.lateWork) > 0 {
		bad = append(bad, "work-in-flight-after-return")
	}
	if r.maxRunning > r.k() {
		bad = append(bad, "semaphore-exceeded")
	}
	if len(r.unknownPath) > 0 {
		bad = append(bad, "foreign-path")
	}
	seen := map[int]int{}
	for _, w := range r.writes {
		seen[w.Job]++
		if w.Path != c.Jobs[w.Job].Path || w.Content != c.expected(w.Job) {
			bad = append(bad, "wrong-content")
		}
	}
	for k := range c.Jobs {
		if seen[k] > 1 || r.wrCalls[k] > 1 || r.ppCalls[k] > 1 {
			bad = append(bad, "double-write")
		}
	}
	anyFail := false
	for k := range c.Jobs {
		anyFail = anyFail || c.fails(k)
	}
	if o.Ret == "nil" {
		if anyFail {
			bad = append(bad, "nil-despite-failure")
		} else if !o.Deadlock {
			for k := range c.Jobs {
				if seen[k] != 1 {
					bad = append(bad, "nil-but-not-all-written")
					break
				}
			}
		}
	} else if strings.HasPrefix(o.Ret, "e") {
		k, _ := strconv.Atoi(o.Ret[1:])
		if k >= len(c.Jobs) || !c.fails(k) {
			bad = append(bad, "error-of-a-job-that-did-not-fail")
		}
	} else if o.Ret == "other" {
		bad = append(bad, "foreign-error")
	}
	// dedupe
	sort.Strings(bad)
	out := bad[:0]
	for i, b := range bad {
		if i == 0 || b != bad[i-1] {
			out = append(out, b)
		}
	}
	return out
}

var runMu sync.Mutex

// runControlled executes one schedule: forced steps first (may be empty), then the chooser.
func runControlled(cfg cfgT, steps []string, ch chooser, watchdog time.Duration) (*outcome, []string) {
	runMu.Lock()
	defer runMu.Unlock()
	if cfg.RealPP {
		// one P: what a worker hands back to a sync.Pool is what the next worker gets, so whether two workers
		// share a buffer is decided by the schedule the controller picks, not by luck
		defer runtime.GOMAXPROCS(runtime.GOMAXPROCS(1))
	}
	base := runtime.NumGoroutine()
	r := newRunner(cfg)
	r.start()
	forced := ""
	if len(steps) > 0 {
		forced = r.force(steps, 2*time.Second)
		if forced == "" {
			forced = "followed"
		}
	}
	r.freeChoice(ch, watchdog)
	o := &outcome{Forced: forced, Deadlock: r.deadlock}
	quiet := r.abandon(base)
	generator.VerifPoint = nil
	if !r.deadlock && !quiet {
		o.Leak = true
	}
	o.Stalled = r.stalled
	o.Events = r.events
	o.Releases = r.releases
	if r.dispDone {
		o.Ret = retTok(r.retErr, r.retPanic)
	} else {
		o.Ret = "none"
	}
	r.mu.Lock()
	o.Written = r.writtenStr()
	r.mu.Unlock()
	return o, r.oracle(o)
}

// runFree lets the Go scheduler pick the interleaving (trace points only record).
func runFree(cfg cfgT, jitter *uint64, timeout time.Duration) (*outcome, []string) {
	runMu.Lock()
	defer runMu.Unlock()
	base := runtime.NumGoroutine()
	r := newRunner(cfg)
	r.free = true
	r.jitter = jitter
	r.start()
	o := &outcome{}
	returned := false
	for i := 0; i < 200 && !returned; i++ {
		select {
		case p := <-r.arrivals:
			o.Ret = retTok(p.err, p.pan)
			returned = true
		case <-time.After(timeout / 20):
			if n, b := allBlocked(); i >= 20 && n > 0 && b {
				i = 1000 // verifiably blocked
			}
		}
	}
	if !returned {
		o.Ret = "none"
		if _, b := allBlocked(); b {
			o.Deadlock = true
		} else {
			o.Stalled = true
		}
	}
	if !o.Stalled {
		quiet := r.abandon(base)
		if !o.Deadlock && !quiet {
			o.Leak = true
		}
	} else {
		r.abandon(base)
	}
	r.draining.Store(true)
	generator.VerifPoint = nil
	r.mu.Lock()
	o.Events = append([]string(nil), r.events...)
	o.Written = r.writtenStr()
	r.mu.Unlock()
	return o, r.oracle(o)
}
