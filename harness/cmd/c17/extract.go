package main

// Translator: regenerates Generated/C17.lean from tool/trimmer/dump/dump.go (string constants of the
// escaping pipeline, in source order) and checks the PEG rules the reader model is written against.

import (
	"fmt"
	"go/ast"
	goparser "go/parser"
	"go/token"
	"os"
	"path/filepath"
	"regexp"
	"strconv"
	"strings"

	"verifharness/internal/vl"
)

func strLit(e ast.Expr) (string, bool) {
	b, ok := e.(*ast.BasicLit)
	if !ok || b.Kind != token.STRING {
		return "", false
	}
	s, err := strconv.Unquote(b.Value)
	return s, err == nil
}

func isCall(e ast.Expr, pkg, fn string) (*ast.CallExpr, bool) {
	c, ok := e.(*ast.CallExpr)
	if !ok {
		return nil, false
	}
	if pkg == "" {
		id, ok := c.Fun.(*ast.Ident)
		return c, ok && id.Name == fn
	}
	s, ok := c.Fun.(*ast.SelectorExpr)
	if !ok {
		return nil, false
	}
	id, ok := s.X.(*ast.Ident)
	return c, ok && id.Name == pkg && s.Sel.Name == fn
}

// replCall recognises strings.ReplaceAll(s, old, new) and strings.Replace(s, old, new, -1).
func replCall(e ast.Expr) (*ast.CallExpr, bool) {
	if c, ok := isCall(e, "strings", "ReplaceAll"); ok && len(c.Args) == 3 {
		return c, true
	}
	if c, ok := isCall(e, "strings", "Replace"); ok && len(c.Args) == 4 {
		if u, isU := c.Args[3].(*ast.UnaryExpr); isU && u.Op == token.SUB {
			if n, isN := u.X.(*ast.BasicLit); isN && n.Value == "1" {
				return c, true
			}
		}
	}
	return nil, false
}

// the rules of parser/thrift.peg the reader model follows, whitespace-normalised
var expectedPeg = map[string]string{
	"EscapeLiteralChar": `'\\' ["']`,
	"Literal":           `Skip '"' <(EscapeLiteralChar / !'"' .)*> '"' Indent* / Skip "'" <(EscapeLiteralChar / !"'" .)*> "'" Indent*`,
	"IntConstant":       `Skip < '0x' ([0-9] / [A-Z] / [a-z])+ / '0o' Digit+ / [+\-]? Digit+ > Indent*`,
	"DoubleConstant":    `Skip <[+\-]? ( Digit* '.' Digit+ Exponent? / Digit+ Exponent )> Indent*`,
	"Exponent":          `('e' / 'E') IntConstant`,
	"ConstValue":        `DoubleConstant / IntConstant / Literal / Identifier / ConstList / ConstMap`,
	"Annotations":       `LPAR Annotation* RPAR`,
	"Annotation":        `Identifier EQUAL Literal ListSeparator?`,
	"Identifier":        `Skip <Letter ( Letter / Digit / '.' )*> Indent*`,
	"ListSeparator":     `Skip (',' / ';') Indent*`,
	"Digit":             `[0-9]`,
}

func pegRules(repo string) (map[string]string, error) {
	b, err := os.ReadFile(filepath.Join(repo, "parser", "thrift.peg"))
	if err != nil {
		return nil, err
	}
	rules := map[string]string{}
	cur := ""
	head := regexp.MustCompile(`^([A-Za-z_][A-Za-z0-9_]*)\s*<-\s*(.*)$`)
	ws := regexp.MustCompile(`\s+`)
	for _, line := range strings.Split(string(b), "\n") {
		if m := head.FindStringSubmatch(line); m != nil {
			cur = m[1]
			rules[cur] = strings.TrimSpace(m[2])
			continue
		}
		if cur != "" && strings.TrimSpace(line) != "" {
			rules[cur] += " " + strings.TrimSpace(line)
		}
		if strings.TrimSpace(line) == "" {
			cur = ""
		}
	}
	for k, v := range rules {
		rules[k] = strings.TrimSpace(ws.ReplaceAllString(v, " "))
	}
	return rules, nil
}

func extract(repo string) error {
	path := filepath.Join(repo, "tool", "trimmer", "dump", "dump.go")
	fset := token.NewFileSet()
	f, err := goparser.ParseFile(fset, path, nil, 0)
	if err != nil {
		return err
	}
	var quoteRepl [][2]string // the ReplaceAll pairs of quoteLiteral, in source order
	var quoteDelims []string  // the delimiters it writes around them
	oddCallOK := false
	plainWrite := false
	plainReturn := false
	oldDefaultFalse := false
	replInDump := 0
	for _, d := range f.Decls {
		if gd, ok := d.(*ast.GenDecl); ok && gd.Tok == token.VAR {
			for _, s := range gd.Specs {
				vs := s.(*ast.ValueSpec)
				for _, n := range vs.Names {
					if n.Name == "UseOldDumpFunction" && len(vs.Values) == 0 {
						oldDefaultFalse = true
					}
				}
			}
		}
		fd, ok := d.(*ast.FuncDecl)
		if !ok || fd.Body == nil {
			continue
		}
		switch fd.Name.Name {
		case "DumpIDL":
			ast.Inspect(fd.Body, func(n ast.Node) bool {
				if e, ok := n.(ast.Expr); ok {
					if _, ok := replCall(e); ok {
						replInDump++
					}
					if _, ok := isCall(e, "html", "UnescapeString"); ok {
						replInDump++
					}
				}
				return true
			})
			if last, ok := fd.Body.List[len(fd.Body.List)-1].(*ast.ReturnStmt); ok && len(last.Results) == 2 {
				if c, ok := last.Results[0].(*ast.CallExpr); ok && len(c.Args) == 0 {
					if sel, ok := c.Fun.(*ast.SelectorExpr); ok && sel.Sel.Name == "String" {
						plainReturn = true
					}
				}
			}
		case "writeString":
			if len(fd.Body.List) == 1 {
				if es, ok := fd.Body.List[0].(*ast.ExprStmt); ok {
					if c, ok := es.X.(*ast.CallExpr); ok {
						if sel, ok := c.Fun.(*ast.SelectorExpr); ok && sel.Sel.Name == "WriteString" {
							plainWrite = true
						}
					}
				}
			}
		case "quoteLiteral":
			ast.Inspect(fd.Body, func(n ast.Node) bool {
				if e, ok := n.(ast.Expr); ok {
					if c, ok := replCall(e); ok {
						a, _ := strLit(c.Args[1])
						b, _ := strLit(c.Args[2])
						quoteRepl = append(quoteRepl, [2]string{a, b})
					}
					if c, ok := isCall(e, "", "oddBackslashesBefore"); ok && len(c.Args) == 2 {
						if b, ok := c.Args[1].(*ast.BasicLit); ok && b.Kind == token.CHAR && b.Value == `'"'` {
							oddCallOK = true
						}
					}
				}
				if r, ok := n.(*ast.ReturnStmt); ok && len(r.Results) == 1 {
					// delim + ReplaceAll(...) + delim
					if outer, ok := r.Results[0].(*ast.BinaryExpr); ok {
						if inner, ok := outer.X.(*ast.BinaryExpr); ok {
							l, ok1 := strLit(inner.X)
							rr, ok2 := strLit(outer.Y)
							if ok1 && ok2 && l == rr {
								quoteDelims = append(quoteDelims, l)
							}
						}
					}
				}
				return true
			})
		}
	}
	switch {
	case !plainWrite:
		return fmt.Errorf("writeString is no longer a plain buffer.WriteString(str)")
	case !plainReturn || replInDump != 0:
		return fmt.Errorf("DumpIDL post-processes the buffer again (Replace/UnescapeString found, or the result is not sb.String())")
	case !oldDefaultFalse:
		return fmt.Errorf("UseOldDumpFunction has an initialiser: the default writer may no longer be DumpIDL")
	case !oddCallOK:
		return fmt.Errorf("quoteLiteral no longer decides by oddBackslashesBefore(v, '\"')")
	case len(quoteRepl) != 2 || len(quoteDelims) != 2:
		return fmt.Errorf("quoteLiteral: expected two `delim + ReplaceAll(v, delim, esc) + delim` returns, found %v / %v", quoteRepl, quoteDelims)
	case quoteDelims[0] != quoteRepl[0][0] || quoteDelims[1] != quoteRepl[1][0]:
		return fmt.Errorf("quoteLiteral: delimiter and escaped byte differ: %v / %v", quoteRepl, quoteDelims)
	}
	rules, err := pegRules(repo)
	if err != nil {
		return err
	}
	for k, want := range expectedPeg {
		if rules[k] != want {
			return fmt.Errorf("thrift.peg rule %s changed: the reader model follows\n  %s\nbut the grammar has\n  %s", k, want, rules[k])
		}
	}
	var sb strings.Builder
	sb.WriteString("/- GENERATED by harness/cmd/c17 extract from /repo (tool/trimmer/dump/dump.go: constants of quoteLiteral; parser/thrift.peg rules checked). Do not edit. -/\n")
	sb.WriteString("import ThriftVerif.Lib.Dump\nnamespace Generated.C17\n\n")
	sb.WriteString("def cfg : Dump.Cfg :=\n")
	// source order: the single-quoted branch first, then the double-quoted one
	fmt.Fprintf(&sb, "  { dq := %s -- %q\n", vl.LeanBytes(quoteRepl[1][0]), quoteRepl[1][0])
	fmt.Fprintf(&sb, "    dqEsc := %s -- %q\n", vl.LeanBytes(quoteRepl[1][1]), quoteRepl[1][1])
	fmt.Fprintf(&sb, "    sq := %s -- %q\n", vl.LeanBytes(quoteRepl[0][0]), quoteRepl[0][0])
	fmt.Fprintf(&sb, "    sqEsc := %s -- %q\n", vl.LeanBytes(quoteRepl[0][1]), quoteRepl[0][1])
	sb.WriteString("  }\n\nend Generated.C17\n")
	fmt.Print(sb.String())
	return nil
}
