package main

// Translator: regenerates Generated/C17.lean from tool/trimmer/dump/dump.go (string constants of the
// escaping pipeline, in source order) and checks the PEG rules the reader model is written against.

import (
	"fmt"
	"go/ast"
	goparser "go/parser"
	"go/token"
	"os"
	"path/filepath"
	"regexp"
	"strconv"
	"strings"

	"verifharness/internal/vl"
)

func strLit(e ast.Expr) (string, bool) {
	b, ok := e.(*ast.BasicLit)
	if !ok || b.Kind != token.STRING {
		return "", false
	}
	s, err := strconv.Unquote(b.Value)
	return s, err == nil
}

func isCall(e ast.Expr, pkg, fn string) (*ast.CallExpr, bool) {
	c, ok := e.(*ast.CallExpr)
	if !ok {
		return nil, false
	}
	if pkg == "" {
		id, ok := c.Fun.(*ast.Ident)
		return c, ok && id.Name == fn
	}
	s, ok := c.Fun.(*ast.SelectorExpr)
	if !ok {
		return nil, false
	}
	id, ok := s.X.(*ast.Ident)
	return c, ok && id.Name == pkg && s.Sel.Name == fn
}

// replCall recognises strings.ReplaceAll(s, old, new) and strings.Replace(s, old, new, -1).
func replCall(e ast.Expr) (*ast.CallExpr, bool) {
	if c, ok := isCall(e, "strings", "ReplaceAll"); ok && len(c.Args) == 3 {
		return c, true
	}
	if c, ok := isCall(e, "strings", "Replace"); ok && len(c.Args) == 4 {
		if u, isU := c.Args[3].(*ast.UnaryExpr); isU && u.Op == token.SUB {
			if n, isN := u.X.(*ast.BasicLit); isN && n.Value == "1" {
				return c, true
			}
		}
	}
	return nil, false
}

// the rules of parser/thrift.peg the reader model follows, whitespace-normalised
var expectedPeg = map[string]string{
	"EscapeLiteralChar": `'\\' ["']`,
	"Literal":           `Skip '"' <(EscapeLiteralChar / !'"' .)*> '"' Indent* / Skip "'" <(EscapeLiteralChar / !"'" .)*> "'" Indent*`,
	"IntConstant":       `Skip < '0x' ([0-9] / [A-Z] / [a-z])+ / '0o' Digit+ / [+\-]? Digit+ > Indent*`,
	"DoubleConstant":    `Skip <[+\-]? ( Digit* '.' Digit+ Exponent? / Digit+ Exponent )> Indent*`,
	"Exponent":          `('e' / 'E') IntConstant`,
	"ConstValue":        `DoubleConstant / IntConstant / Literal / Identifier / ConstList / ConstMap`,
	"Annotations":       `LPAR Annotation* RPAR`,
	"Annotation":        `Identifier EQUAL Literal ListSeparator?`,
	"Identifier":        `Skip <Letter ( Letter / Digit / '.' )*> Indent*`,
	"ListSeparator":     `Skip (',' / ';') Indent*`,
	"Digit":             `[0-9]`,
}

func pegRules(repo string) (map[string]string, error) {
	b, err := os.ReadFile(filepath.Join(repo, "parser", "thrift.peg"))
	if err != nil {
		return nil, err
	}
	rules := map[string]string{}
	cur := ""
	head := regexp.MustCompile(`^([A-Za-z_][A-Za-z0-9_]*)\s*<-\s*(.*)$`)
	ws := regexp.MustCompile(`\s+`)
	for _, line := range strings.Split(string(b), "\n") {
		if m := head.FindStringSubmatch(line); m != nil {
			cur = m[1]
			rules[cur] = strings.TrimSpace(m[2])
			continue
		}
		if cur != "" && strings.TrimSpace(line) != "" {
			rules[cur] += " " + strings.TrimSpace(line)
		}
		if strings.TrimSpace(line) == "" {
			cur = ""
		}
	}
	for k, v := range rules {
		rules[k] = strings.TrimSpace(ws.ReplaceAllString(v, " "))
	}
	return rules, nil
}

func extract(repo string) error {
	path := filepath.Join(repo, "tool", "trimmer", "dump", "dump.go")
	fset := token.NewFileSet()
	f, err := goparser.ParseFile(fset, path, nil, 0)
	if err != nil {
		return err
	}
	var passes [][2]string
	var ampFrom, ampTo, outq string
	var quotePairs [][2]string
	unescapeAtEnd := false
	oldDefaultFalse := false
	for _, d := range f.Decls {
		if gd, ok := d.(*ast.GenDecl); ok && gd.Tok == token.VAR {
			for _, s := range gd.Specs {
				vs := s.(*ast.ValueSpec)
				for _, n := range vs.Names {
					if n.Name == "UseOldDumpFunction" && len(vs.Values) == 0 {
						oldDefaultFalse = true
					}
				}
			}
		}
		fd, ok := d.(*ast.FuncDecl)
		if !ok || fd.Body == nil {
			continue
		}
		switch fd.Name.Name {
		case "DumpIDL":
			ast.Inspect(fd.Body, func(n ast.Node) bool {
				if e, ok := n.(ast.Expr); ok {
					if c, ok := replCall(e); ok {
						a, ok1 := strLit(c.Args[1])
						b, ok2 := strLit(c.Args[2])
						if _, isQuote := isCall(c.Args[0], "", "joinQuotes"); isQuote {
							// quoting of an include path: must be the quoting of literal values
							quotePairs = append(quotePairs, [2]string{a, b})
						} else if ok1 && ok2 {
							passes = append(passes, [2]string{a, b})
						}
					}
				}
				if r, ok := n.(*ast.ReturnStmt); ok && len(r.Results) == 2 {
					if _, ok := isCall(r.Results[0], "html", "UnescapeString"); ok {
						unescapeAtEnd = true
					}
				}
				return true
			})
		case "writeString":
			ast.Inspect(fd.Body, func(n ast.Node) bool {
				if e, ok := n.(ast.Expr); ok {
					if c, ok := replCall(e); ok {
						ampFrom, _ = strLit(c.Args[1])
						ampTo, _ = strLit(c.Args[2])
					}
				}
				return true
			})
		case "joinQuotes":
			ast.Inspect(fd.Body, func(n ast.Node) bool {
				if b, ok := n.(*ast.BinaryExpr); ok {
					if s, ok := strLit(b.Y); ok {
						outq = s
					}
				}
				return true
			})
		case "printAnnotation", "printConstTypedValue", "typeName":
			ast.Inspect(fd.Body, func(n ast.Node) bool {
				if e, ok := n.(ast.Expr); ok {
					if c, ok := replCall(e); ok {
						if _, ok := isCall(c.Args[0], "", "joinQuotes"); ok {
							a, _ := strLit(c.Args[1])
							b, _ := strLit(c.Args[2])
							quotePairs = append(quotePairs, [2]string{a, b})
						}
					}
				}
				return true
			})
		}
	}
	if len(passes) != 3 {
		return fmt.Errorf("DumpIDL: expected 3 strings.Replace passes with constant arguments, found %d", len(passes))
	}
	if !unescapeAtEnd {
		return fmt.Errorf("DumpIDL no longer returns html.UnescapeString(...)")
	}
	if !oldDefaultFalse {
		return fmt.Errorf("UseOldDumpFunction has an initialiser: the default writer may no longer be DumpIDL")
	}
	if ampFrom == "" || outq == "" {
		return fmt.Errorf("writeString / joinQuotes constants not found")
	}
	if len(quotePairs) < 2 {
		return fmt.Errorf("printAnnotation and printConstTypedValue no longer quote values through joinQuotes, found %v", quotePairs)
	}
	for _, q := range quotePairs {
		if q != quotePairs[0] {
			return fmt.Errorf("values, include paths and cpp_type must all be quoted the same way, found %v", quotePairs)
		}
	}
	rules, err := pegRules(repo)
	if err != nil {
		return err
	}
	for k, want := range expectedPeg {
		if rules[k] != want {
			return fmt.Errorf("thrift.peg rule %s changed: the reader model follows\n  %s\nbut the grammar has\n  %s", k, want, rules[k])
		}
	}
	var sb strings.Builder
	sb.WriteString("/- GENERATED by harness/cmd/c17 extract from /repo (tool/trimmer/dump/dump.go string constants in source order; parser/thrift.peg rules checked). Do not edit. -/\n")
	sb.WriteString("import ThriftVerif.Lib.Dump\nnamespace Generated.C17\n\n")
	sb.WriteString("def cfg : Dump.Cfg :=\n")
	fmt.Fprintf(&sb, "  { outq := %s -- %q\n", vl.LeanBytes(outq), outq)
	fmt.Fprintf(&sb, "    quote := %s -- %q\n", vl.LeanBytes(quotePairs[0][0]), quotePairs[0][0])
	fmt.Fprintf(&sb, "    q34 := %s -- %q\n", vl.LeanBytes(quotePairs[0][1]), quotePairs[0][1])
	fmt.Fprintf(&sb, "    ampFrom := %s -- %q\n", vl.LeanBytes(ampFrom), ampFrom)
	fmt.Fprintf(&sb, "    ampTo := %s -- %q\n", vl.LeanBytes(ampTo), ampTo)
	for i, p := range passes {
		fmt.Fprintf(&sb, "    pass%d := (%s, %s) -- %q -> %q\n", i+1, vl.LeanBytes(p[0]), vl.LeanBytes(p[1]), p[0], p[1])
	}
	sb.WriteString("  }\n\nend Generated.C17\n")
	fmt.Print(sb.String())
	return nil
}
