package main

// AST -> VL encoding of the model's `Dump.File`, and the field-by-field AST comparison (the oracle).

import (
	"fmt"
	"math"
	"strconv"
	"strings"

	"github.com/cloudwego/thriftgo/parser"

	"verifharness/internal/vl"
)

type enc struct{ t []string }

func (e *enc) s(x string)   { e.t = append(e.t, vl.Hex(x)) }
func (e *enc) n(x int)      { e.t = append(e.t, strconv.Itoa(x)) }
func (e *enc) i(x int64)    { e.t = append(e.t, strconv.FormatInt(x, 10)) }
func (e *enc) raw(x string) { e.t = append(e.t, x) }

func (e *enc) anns(a parser.Annotations) {
	e.n(len(a))
	for _, x := range a {
		e.s(x.Key)
		e.n(len(x.Values))
		for _, v := range x.Values {
			e.s(v)
		}
	}
}

func (e *enc) ty(t *parser.Type) {
	if t == nil {
		e.s("")
		e.n(0)
		e.n(0)
		e.s("")
		e.n(0)
		return
	}
	e.s(t.Name)
	if t.KeyType != nil {
		e.n(1)
		e.ty(t.KeyType)
	} else {
		e.n(0)
	}
	if t.ValueType != nil {
		e.n(1)
		e.ty(t.ValueType)
	} else {
		e.n(0)
	}
	e.s(t.CppType)
	e.anns(t.Annotations)
}

func (e *enc) cv(c *parser.ConstValue) {
	v := c.TypedValue
	switch {
	case v.Double != nil:
		e.raw("D")
		e.raw(strconv.FormatUint(math.Float64bits(*v.Double), 10))
		e.s(strconv.FormatFloat(*v.Double, 'f', -1, 64))
	case v.Int != nil:
		e.raw("I")
		e.i(*v.Int)
	case v.Literal != nil:
		e.raw("L")
		e.s(*v.Literal)
	case v.Identifier != nil:
		e.raw("X")
		e.s(*v.Identifier)
	case v.List != nil:
		e.raw("S")
		e.n(len(v.List))
		for _, x := range v.List {
			e.cv(x)
		}
	case v.Map != nil:
		e.raw("M")
		e.n(len(v.Map))
		for _, kv := range v.Map {
			e.cv(kv.Key)
			e.cv(kv.Value)
		}
	default:
		e.raw("Z")
	}
}

func (e *enc) field(f *parser.Field) {
	e.s(f.ReservedComments)
	e.i(int64(f.ID))
	switch {
	case f.Requiredness.IsOptional():
		e.n(2)
	case f.Requiredness.IsRequired():
		e.n(1)
	default:
		e.n(0)
	}
	e.ty(f.Type)
	e.s(f.Name)
	if f.Default != nil {
		e.n(1)
		e.cv(f.Default)
	} else {
		e.n(0)
	}
	e.anns(f.Annotations)
}

func (e *enc) structLike(s *parser.StructLike) {
	e.s(s.ReservedComments)
	e.s(s.Name)
	e.n(len(s.Fields))
	for _, f := range s.Fields {
		e.field(f)
	}
	e.anns(s.Annotations)
}

func encodeFile(a *parser.Thrift) string {
	e := &enc{}
	e.n(len(a.Includes))
	for _, i := range a.Includes {
		e.s(i.Path)
	}
	e.n(len(a.Namespaces))
	for _, n := range a.Namespaces {
		e.s(n.Language)
		e.s(n.Name)
		e.anns(n.Annotations)
	}
	e.n(len(a.CppIncludes))
	for _, c := range a.CppIncludes {
		e.s(c)
	}
	e.n(len(a.Typedefs))
	for _, t := range a.Typedefs {
		e.s(t.ReservedComments)
		e.ty(t.Type)
		e.s(t.Alias)
		e.anns(t.Annotations)
	}
	e.n(len(a.Constants))
	for _, c := range a.Constants {
		e.s(c.ReservedComments)
		e.ty(c.Type)
		e.s(c.Name)
		e.cv(c.Value)
		e.anns(c.Annotations)
	}
	e.n(len(a.Enums))
	for _, en := range a.Enums {
		e.s(en.ReservedComments)
		e.s(en.Name)
		e.n(len(en.Values))
		for _, v := range en.Values {
			e.s(v.ReservedComments)
			e.s(v.Name)
			e.i(v.Value)
			e.anns(v.Annotations)
		}
		e.anns(en.Annotations)
	}
	for _, l := range [][]*parser.StructLike{a.Structs, a.Unions, a.Exceptions} {
		e.n(len(l))
		for _, s := range l {
			e.structLike(s)
		}
	}
	e.n(len(a.Services))
	for _, s := range a.Services {
		e.s(s.ReservedComments)
		e.s(s.Name)
		e.s(s.Extends)
		e.n(len(s.Functions))
		for _, f := range s.Functions {
			e.s(f.ReservedComments)
			if f.Oneway {
				e.n(1)
			} else {
				e.n(0)
			}
			e.ty(f.FunctionType)
			e.s(f.Name)
			e.n(len(f.Arguments))
			for _, x := range f.Arguments {
				e.field(x)
			}
			e.n(len(f.Throws))
			for _, x := range f.Throws {
				e.field(x)
			}
			e.anns(f.Annotations)
		}
		e.anns(s.Annotations)
	}
	return strings.Join(e.t, " ")
}

// ---------------------------------------------------------------- oracle: AST equality

type differ struct {
	path    string // first difference (class: indices stripped)
	detail  string
	cmDiffs int
}

func (d *differ) fail(path, a, b string) bool {
	if d.path == "" {
		d.path = path
		d.detail = fmt.Sprintf("%s: original %q, re-read %q", path, a, b)
	}
	return false
}

func (d *differ) str(path, a, b string) bool {
	if a != b {
		return d.fail(path, a, b)
	}
	return true
}

func (d *differ) num(path string, a, b int64) bool {
	if a != b {
		return d.fail(path, fmt.Sprint(a), fmt.Sprint(b))
	}
	return true
}

func (d *differ) anns(path string, a, b parser.Annotations) bool {
	if !d.num(path+".len", int64(len(a)), int64(len(b))) {
		return false
	}
	for i := range a {
		if !d.str(path+".Key", a[i].Key, b[i].Key) || !d.num(path+".Values.len", int64(len(a[i].Values)), int64(len(b[i].Values))) {
			return false
		}
		for j := range a[i].Values {
			if !d.str(path+".Value", a[i].Values[j], b[i].Values[j]) {
				return false
			}
		}
	}
	return true
}

func (d *differ) ty(path string, a, b *parser.Type) bool {
	if (a == nil) != (b == nil) {
		return d.fail(path+".nil", fmt.Sprint(a == nil), fmt.Sprint(b == nil))
	}
	if a == nil {
		return true
	}
	return d.str(path+".Name", a.Name, b.Name) && d.str(path+".CppType", a.CppType, b.CppType) &&
		d.ty(path+".KeyType", a.KeyType, b.KeyType) && d.ty(path+".ValueType", a.ValueType, b.ValueType) &&
		d.anns(path+".Annotations", a.Annotations, b.Annotations)
}

func cvDesc(v *parser.ConstTypedValue) string {
	switch {
	case v == nil:
		return "nil"
	case v.Double != nil:
		return "double " + strconv.FormatFloat(*v.Double, 'g', -1, 64)
	case v.Int != nil:
		return fmt.Sprint("int ", *v.Int)
	case v.Literal != nil:
		return fmt.Sprintf("literal %q", *v.Literal)
	case v.Identifier != nil:
		return "identifier " + *v.Identifier
	case v.List != nil:
		return fmt.Sprint("list/", len(v.List))
	case v.Map != nil:
		return fmt.Sprint("map/", len(v.Map))
	}
	return "unset"
}

func (d *differ) cv(path string, a, b *parser.ConstValue) bool {
	if (a == nil) != (b == nil) {
		return d.fail(path+".nil", fmt.Sprint(a == nil), fmt.Sprint(b == nil))
	}
	if a == nil {
		return true
	}
	x, y := a.TypedValue, b.TypedValue
	switch {
	case x.Double != nil:
		// "a double may be re-read as an integer literal of equal value"
		if y.Double != nil && (*y.Double == *x.Double) {
			return true
		}
		if y.Int != nil && float64(*y.Int) == *x.Double {
			return true
		}
		return d.fail(path+".Double", cvDesc(x), cvDesc(y))
	case x.Int != nil:
		if y.Int != nil && *y.Int == *x.Int {
			return true
		}
		return d.fail(path+".Int", cvDesc(x), cvDesc(y))
	case x.Literal != nil:
		if y.Literal != nil && *y.Literal == *x.Literal {
			return true
		}
		return d.fail(path+".Literal", cvDesc(x), cvDesc(y))
	case x.Identifier != nil:
		if y.Identifier != nil && *y.Identifier == *x.Identifier {
			return true
		}
		return d.fail(path+".Identifier", cvDesc(x), cvDesc(y))
	case x.List != nil:
		if y.List == nil || len(x.List) != len(y.List) {
			return d.fail(path+".List", cvDesc(x), cvDesc(y))
		}
		for i := range x.List {
			if !d.cv(path+".List", x.List[i], y.List[i]) {
				return false
			}
		}
		return true
	case x.Map != nil:
		if y.Map == nil || len(x.Map) != len(y.Map) {
			return d.fail(path+".Map", cvDesc(x), cvDesc(y))
		}
		for i := range x.Map {
			if !d.cv(path+".Map.Key", x.Map[i].Key, y.Map[i].Key) || !d.cv(path+".Map.Value", x.Map[i].Value, y.Map[i].Value) {
				return false
			}
		}
		return true
	}
	return d.str(path+".unset", cvDesc(x), cvDesc(y))
}

func (d *differ) cm(a, b string) {
	if a != b {
		d.cmDiffs++
	}
}

func (d *differ) fields(path string, a, b []*parser.Field) bool {
	if !d.num(path+".len", int64(len(a)), int64(len(b))) {
		return false
	}
	for i := range a {
		x, y := a[i], b[i]
		d.cm(x.ReservedComments, y.ReservedComments)
		if !(d.num(path+".ID", int64(x.ID), int64(y.ID)) && d.str(path+".Name", x.Name, y.Name) &&
			d.num(path+".Requiredness", int64(x.Requiredness), int64(y.Requiredness)) &&
			d.ty(path+".Type", x.Type, y.Type) && d.cv(path+".Default", x.Default, y.Default) &&
			d.anns(path+".Annotations", x.Annotations, y.Annotations)) {
			return false
		}
	}
	return true
}

func (d *differ) structs(path string, a, b []*parser.StructLike) bool {
	if !d.num(path+".len", int64(len(a)), int64(len(b))) {
		return false
	}
	for i := range a {
		d.cm(a[i].ReservedComments, b[i].ReservedComments)
		if !(d.str(path+".Category", a[i].Category, b[i].Category) && d.str(path+".Name", a[i].Name, b[i].Name) &&
			d.fields(path+".Fields", a[i].Fields, b[i].Fields) && d.anns(path+".Annotations", a[i].Annotations, b[i].Annotations)) {
			return false
		}
	}
	return true
}

func b2i(b bool) int64 {
	if b {
		return 1
	}
	return 0
}

// diffAST compares every definition, name, type expression, id, requiredness, default/constant value,
// enum value, annotation list, include, namespace. Comments are counted, not compared.
func diffAST(a, b *parser.Thrift) *differ {
	d := &differ{}
	ok := d.num("Includes.len", int64(len(a.Includes)), int64(len(b.Includes)))
	for i := 0; ok && i < len(a.Includes); i++ {
		ok = d.str("Includes.Path", a.Includes[i].Path, b.Includes[i].Path)
	}
	ok = ok && d.num("CppIncludes.len", int64(len(a.CppIncludes)), int64(len(b.CppIncludes)))
	for i := 0; ok && i < len(a.CppIncludes); i++ {
		ok = d.str("CppIncludes", a.CppIncludes[i], b.CppIncludes[i])
	}
	ok = ok && d.num("Namespaces.len", int64(len(a.Namespaces)), int64(len(b.Namespaces)))
	for i := 0; ok && i < len(a.Namespaces); i++ {
		x, y := a.Namespaces[i], b.Namespaces[i]
		ok = d.str("Namespaces.Language", x.Language, y.Language) && d.str("Namespaces.Name", x.Name, y.Name) &&
			d.anns("Namespaces.Annotations", x.Annotations, y.Annotations)
	}
	ok = ok && d.num("Typedefs.len", int64(len(a.Typedefs)), int64(len(b.Typedefs)))
	for i := 0; ok && i < len(a.Typedefs); i++ {
		x, y := a.Typedefs[i], b.Typedefs[i]
		d.cm(x.ReservedComments, y.ReservedComments)
		ok = d.ty("Typedefs.Type", x.Type, y.Type) && d.str("Typedefs.Alias", x.Alias, y.Alias) &&
			d.anns("Typedefs.Annotations", x.Annotations, y.Annotations)
	}
	ok = ok && d.num("Constants.len", int64(len(a.Constants)), int64(len(b.Constants)))
	for i := 0; ok && i < len(a.Constants); i++ {
		x, y := a.Constants[i], b.Constants[i]
		d.cm(x.ReservedComments, y.ReservedComments)
		ok = d.str("Constants.Name", x.Name, y.Name) && d.ty("Constants.Type", x.Type, y.Type) &&
			d.cv("Constants.Value", x.Value, y.Value) && d.anns("Constants.Annotations", x.Annotations, y.Annotations)
	}
	ok = ok && d.num("Enums.len", int64(len(a.Enums)), int64(len(b.Enums)))
	for i := 0; ok && i < len(a.Enums); i++ {
		x, y := a.Enums[i], b.Enums[i]
		d.cm(x.ReservedComments, y.ReservedComments)
		ok = d.str("Enums.Name", x.Name, y.Name) && d.num("Enums.Values.len", int64(len(x.Values)), int64(len(y.Values)))
		for j := 0; ok && j < len(x.Values); j++ {
			d.cm(x.Values[j].ReservedComments, y.Values[j].ReservedComments)
			ok = d.str("Enums.Values.Name", x.Values[j].Name, y.Values[j].Name) &&
				d.num("Enums.Values.Value", x.Values[j].Value, y.Values[j].Value) &&
				d.anns("Enums.Values.Annotations", x.Values[j].Annotations, y.Values[j].Annotations)
		}
		ok = ok && d.anns("Enums.Annotations", x.Annotations, y.Annotations)
	}
	ok = ok && d.structs("Structs", a.Structs, b.Structs) && d.structs("Unions", a.Unions, b.Unions) &&
		d.structs("Exceptions", a.Exceptions, b.Exceptions)
	ok = ok && d.num("Services.len", int64(len(a.Services)), int64(len(b.Services)))
	for i := 0; ok && i < len(a.Services); i++ {
		x, y := a.Services[i], b.Services[i]
		d.cm(x.ReservedComments, y.ReservedComments)
		ok = d.str("Services.Name", x.Name, y.Name) && d.str("Services.Extends", x.Extends, y.Extends) &&
			d.num("Services.Functions.len", int64(len(x.Functions)), int64(len(y.Functions)))
		for j := 0; ok && j < len(x.Functions); j++ {
			f, g := x.Functions[j], y.Functions[j]
			d.cm(f.ReservedComments, g.ReservedComments)
			ok = d.str("Functions.Name", f.Name, g.Name) && d.num("Functions.Oneway", b2i(f.Oneway), b2i(g.Oneway)) &&
				d.num("Functions.Void", b2i(f.Void), b2i(g.Void)) && d.ty("Functions.FunctionType", f.FunctionType, g.FunctionType) &&
				d.fields("Functions.Arguments", f.Arguments, g.Arguments) && d.fields("Functions.Throws", f.Throws, g.Throws) &&
				d.anns("Functions.Annotations", f.Annotations, g.Annotations)
		}
		ok = ok && d.anns("Services.Annotations", x.Annotations, y.Annotations)
	}
	return d
}
