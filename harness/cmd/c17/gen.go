package main

// IR of generated IDL programs (source level), renderer and seeded generator.

import (
	"fmt"
	"strings"

	"verifharness/internal/vl"
)

type Lit struct {
	Q   string // `"` or `'`
	Raw string // text between the quotes, as written
}

type Ann struct {
	K string
	V Lit
}

type Ty struct {
	Name string
	K, V *Ty
	Cpp  *Lit
	Anns []Ann
}

type CV struct {
	Kind string // num, lit, id, list, map
	Num  string
	Lit  Lit
	Id   string
	List []CV
	Map  [][2]CV
}

type Field struct {
	ID    *int
	Req   int
	Ty    Ty
	Name  string
	Def   *CV
	Anns  []Ann
	Cm    string
	EndCm string
	Sep   string
}

type EV struct {
	Name string
	Val  *string
	Anns []Ann
	Cm   string
	Sep  string
}

type Func struct {
	Oneway bool
	Void   bool
	Ty     Ty
	Name   string
	Args   []Field
	Throws []Field
	HasThr bool
	Anns   []Ann
	Cm     string
	Sep    string
}

type Def struct {
	Kind   string // typedef const enum struct union exception service
	Name   string
	Cm     string
	Ty     Ty
	Val    CV
	EVs    []EV
	Fields []Field
	Ext    string
	Funcs  []Func
	Anns   []Ann
}

type NS struct {
	Lang string
	Name string
	Anns []Ann
}

type Prog struct {
	Incs []Lit
	NSs  []NS
	Cpps []Lit
	Defs []Def
}

// ---------------------------------------------------------------- render

func (l Lit) String() string { return l.Q + l.Raw + l.Q }

func rAnns(a []Ann) string {
	if len(a) == 0 {
		return ""
	}
	var p []string
	for _, x := range a {
		p = append(p, x.K+" = "+x.V.String())
	}
	return " (" + strings.Join(p, ", ") + ")"
}

func rTy(t Ty) string {
	s := t.Name
	cpp := ""
	if t.Cpp != nil {
		cpp = " cpp_type " + t.Cpp.String() + " "
	}
	switch {
	case t.K != nil && t.V != nil:
		s = "map" + cpp + "<" + rTy(*t.K) + ", " + rTy(*t.V) + ">"
	case t.V != nil && t.Name == "list":
		s = "list<" + rTy(*t.V) + ">" + strings.TrimRight(cpp, " ")
	case t.V != nil:
		s = t.Name + cpp + "<" + rTy(*t.V) + ">"
	}
	return s + rAnns(t.Anns)
}

func rCV(c CV) string {
	switch c.Kind {
	case "num":
		return c.Num
	case "lit":
		return c.Lit.String()
	case "id":
		return c.Id
	case "list":
		var p []string
		for _, x := range c.List {
			p = append(p, rCV(x))
		}
		return "[" + strings.Join(p, ", ") + "]"
	case "map":
		var p []string
		for _, kv := range c.Map {
			p = append(p, rCV(kv[0])+": "+rCV(kv[1]))
		}
		return "{" + strings.Join(p, ", ") + "}"
	}
	return "0"
}

func rField(f Field, indent string) string {
	var sb strings.Builder
	if f.Cm != "" {
		sb.WriteString(indent + f.Cm + "\n")
	}
	sb.WriteString(indent)
	if f.ID != nil {
		fmt.Fprintf(&sb, "%d: ", *f.ID)
	}
	switch f.Req {
	case 1:
		sb.WriteString("required ")
	case 2:
		sb.WriteString("optional ")
	}
	sb.WriteString(rTy(f.Ty) + " " + f.Name)
	if f.Def != nil {
		sb.WriteString(" = " + rCV(*f.Def))
	}
	sb.WriteString(rAnns(f.Anns))
	sb.WriteString(f.Sep)
	if f.EndCm != "" {
		sb.WriteString(" " + f.EndCm)
	}
	return sb.String()
}

func rFields(fs []Field, indent string) string {
	var sb strings.Builder
	for _, f := range fs {
		sb.WriteString(rField(f, indent) + "\n")
	}
	return sb.String()
}

func rInline(fs []Field) string {
	var p []string
	for i, f := range fs {
		g := f
		g.Cm, g.EndCm = "", ""
		if g.Sep == "" && i != len(fs)-1 {
			g.Sep = ","
		}
		p = append(p, rField(g, ""))
	}
	return strings.Join(p, " ")
}

func (p Prog) Render() string {
	var sb strings.Builder
	for _, i := range p.Incs {
		sb.WriteString("include " + i.String() + "\n")
	}
	for _, n := range p.NSs {
		sb.WriteString("namespace " + n.Lang + " " + n.Name + rAnns(n.Anns) + "\n")
	}
	for _, c := range p.Cpps {
		sb.WriteString("cpp_include " + c.String() + "\n")
	}
	for _, d := range p.Defs {
		if d.Cm != "" {
			sb.WriteString(d.Cm + "\n")
		}
		switch d.Kind {
		case "typedef":
			sb.WriteString("typedef " + rTy(d.Ty) + " " + d.Name + rAnns(d.Anns) + "\n")
		case "const":
			sb.WriteString("const " + rTy(d.Ty) + " " + d.Name + " = " + rCV(d.Val) + rAnns(d.Anns) + "\n")
		case "enum":
			sb.WriteString("enum " + d.Name + " {\n")
			for _, e := range d.EVs {
				if e.Cm != "" {
					sb.WriteString("  " + e.Cm + "\n")
				}
				sb.WriteString("  " + e.Name)
				if e.Val != nil {
					sb.WriteString(" = " + *e.Val)
				}
				sb.WriteString(rAnns(e.Anns) + e.Sep + "\n")
			}
			sb.WriteString("}" + rAnns(d.Anns) + "\n")
		case "struct", "union", "exception":
			sb.WriteString(d.Kind + " " + d.Name + " {\n" + rFields(d.Fields, "  ") + "}" + rAnns(d.Anns) + "\n")
		case "service":
			sb.WriteString("service " + d.Name)
			if d.Ext != "" {
				sb.WriteString(" extends " + d.Ext)
			}
			sb.WriteString(" {\n")
			for _, f := range d.Funcs {
				if f.Cm != "" {
					sb.WriteString("  " + f.Cm + "\n")
				}
				sb.WriteString("  ")
				if f.Oneway {
					sb.WriteString("oneway ")
				}
				if f.Void {
					sb.WriteString("void")
				} else {
					sb.WriteString(rTy(f.Ty))
				}
				sb.WriteString(" " + f.Name + "(" + rInline(f.Args) + ")")
				if f.HasThr {
					sb.WriteString(" throws (" + rInline(f.Throws) + ")")
				}
				sb.WriteString(rAnns(f.Anns) + f.Sep + "\n")
			}
			sb.WriteString("}" + rAnns(d.Anns) + "\n")
		}
	}
	return sb.String()
}

// ---------------------------------------------------------------- generator

type gen struct {
	r   *vl.Rng
	out *vl.Out
	// knobs (percent) drawn per program so that most programs avoid most hazards
	pHaz    int // hazardous literal atoms (\" , placeholders)
	pTyAnn  int
	pArgExt int
	pCpp    int
	pBigDbl int
	n       int
	structs []string
	enums   map[string][]string
	excs    []string
	tdefs   []string
	svcs    []string
}

var plainAtoms = []string{"a", "b", "Z", "0", "7", " ", "_", ".", ",", ";", ":", "=", "(", ")", "{", "}", "[", "]", "<", ">", "#", "&", "/", "*", "-", "+", "%", "$", "@", "!", "?", "|", "~", "^", "`",
	"é", "世", "\t"}
var entityAtoms = []string{"&amp;", "&#34;", "&lt;", "&gt;", "&quot;", "&amp;amp;", "&#39;", "&amp", "&;", "amp;", "&#x22;"}
var hazardAtoms = []string{"#OUTQUOTES", "##34;", "#OUTQUOTE", "##34", "#34;", "OUTQUOTES"}

func (g *gen) lit() Lit {
	q := `"`
	if g.r.Chance(35) {
		q = "'"
	}
	other := "'"
	if q == "'" {
		other = `"`
	}
	var sb strings.Builder
	n := g.r.Intn(7)
	if g.r.Chance(10) {
		n = 8 + g.r.Intn(10)
	}
	for i := 0; i < n; i++ {
		switch x := g.r.Intn(100); {
		case x < 45:
			sb.WriteString(g.r.Pick(plainAtoms))
		case x < 55:
			sb.WriteString(other) // the other quote kind, unescaped
		case x < 63:
			sb.WriteString(`\` + q) // escaped delimiter
		case x < 70:
			sb.WriteString(g.r.Pick(entityAtoms))
		case x < 76:
			sb.WriteString(`\` + g.r.Pick([]string{"n", "t", "x", "u", "0"}))
		case x < 81:
			sb.WriteString(`\\` + g.r.Pick([]string{"a", " ", "n", "#"}))
		case x < 84:
			sb.WriteString("\n")
		default:
			if g.r.Chance(g.pHaz) {
				switch g.r.Intn(3) {
				case 0:
					sb.WriteString(`\` + other) // backslash before the other quote kind: kept verbatim by pegText
				case 1:
					sb.WriteString(g.r.Pick(hazardAtoms))
				default:
					sb.WriteString(`\\\` + q)
				}
			} else {
				sb.WriteString(g.r.Pick(plainAtoms))
			}
		}
	}
	return Lit{q, fixRaw(q, sb.String())}
}

// fixRaw makes raw lexable between q…q: every q is preceded by a backslash and raw does not end with one.
func fixRaw(q, raw string) string {
	var sb strings.Builder
	for i := 0; i < len(raw); i++ {
		if raw[i] == q[0] && (i == 0 || raw[i-1] != '\\') {
			sb.WriteByte('\\')
		}
		sb.WriteByte(raw[i])
	}
	s := sb.String()
	if strings.HasSuffix(s, `\`) {
		s += "a"
	}
	return s
}

func validRaw(q, raw string) bool { return fixRaw(q, raw) == raw }

var annKeys = []string{"a", "b", "go.tag", "api.get", "k", "a"}

func (g *gen) anns(p int) []Ann {
	if !g.r.Chance(p) {
		return nil
	}
	n := 1 + g.r.Intn(4)
	var out []Ann
	for i := 0; i < n; i++ {
		out = append(out, Ann{g.r.Pick(annKeys), g.lit()})
	}
	return out
}

func (g *gen) name(prefix string) string {
	g.n++
	return fmt.Sprintf("%s%d", prefix, g.n)
}

var baseTypes = []string{"bool", "byte", "i8", "i16", "i32", "i64", "double", "string", "binary"}

func (g *gen) ty(depth int) Ty {
	var t Ty
	switch x := g.r.Intn(100); {
	case x < 50 || depth > 2:
		t.Name = g.r.Pick(baseTypes)
	case x < 62 && len(g.structs) > 0:
		t.Name = g.r.Pick(g.structs)
	case x < 68 && len(g.tdefs) > 0:
		t.Name = g.r.Pick(g.tdefs)
	case x < 74 && len(g.enums) > 0:
		for k := range g.enums {
			_ = k
		}
		t.Name = g.enumName()
	case x < 84:
		v := g.ty(depth + 1)
		t = Ty{Name: "list", V: &v}
	case x < 92:
		v := g.ty(depth + 1)
		t = Ty{Name: "set", V: &v}
	default:
		k := Ty{Name: g.r.Pick([]string{"string", "i32", "i64"})}
		v := g.ty(depth + 1)
		t = Ty{Name: "map", K: &k, V: &v}
	}
	if t.V != nil && g.r.Chance(g.pCpp) {
		l := Lit{`"`, g.r.Pick([]string{"std::vector", "x", "a&b"})}
		t.Cpp = &l
	}
	if g.r.Chance(g.pTyAnn) {
		t.Anns = g.anns(100)
	}
	return t
}

func (g *gen) enumName() string {
	// deterministic pick: names are kept in insertion order in g.tdefs-like slice
	names := make([]string, 0, len(g.enums))
	for k := range g.enums {
		names = append(names, k)
	}
	sortStrings(names)
	return g.r.Pick(names)
}

func sortStrings(a []string) {
	for i := 1; i < len(a); i++ {
		for j := i; j > 0 && a[j] < a[j-1]; j-- {
			a[j], a[j-1] = a[j-1], a[j]
		}
	}
}

func (g *gen) intText() string {
	switch x := g.r.Intn(100); {
	case x < 50:
		return fmt.Sprint(g.r.Intn(200) - 50)
	case x < 60:
		return fmt.Sprintf("0x%x", g.r.Intn(70000))
	case x < 65:
		return fmt.Sprintf("0o%o", g.r.Intn(5000))
	case x < 70:
		return "+" + fmt.Sprint(g.r.Intn(50))
	case x < 78:
		return g.r.Pick([]string{"9223372036854775807", "-9223372036854775808", "2147483648", "-2147483649", "0", "-0", "007"})
	default:
		return fmt.Sprint(int64(g.r.U64() >> uint(g.r.Intn(64))))
	}
}

func (g *gen) dblText() string {
	switch x := g.r.Intn(100); {
	case x < 35:
		return fmt.Sprintf("%d.%d", g.r.Intn(1000)-300, g.r.Intn(1000))
	case x < 50:
		return g.r.Pick([]string{"1.0", "-1.0", "0.0", "-0.0", ".5", "-.25", "+3.75", "2.50", "100.0", "0.1", "0.30000000000000004", "3.141592653589793", "1.7976931348623157", "0.000001", "0.0000001", "123456789012345678.0", "4503599627370497.5"})
	case x < 50+g.pBigDbl:
		return g.r.Pick([]string{"9223372036854775808.0", "10000000000000000000.0", "-9223372036854775809.0", "123456789012345678901234567890.0", "9223372036854775807.0"})
	default:
		return fmt.Sprintf("%d.%03d", g.r.Intn(100000), g.r.Intn(1000))
	}
}

func (g *gen) cv(depth int) CV {
	switch x := g.r.Intn(100); {
	case x < 25:
		return CV{Kind: "num", Num: g.intText()}
	case x < 40:
		return CV{Kind: "num", Num: g.dblText()}
	case x < 65:
		return CV{Kind: "lit", Lit: g.lit()}
	case x < 75:
		return CV{Kind: "id", Id: g.r.Pick([]string{"true", "false", "X.Y", "some_name", "a.b.c"})}
	case x < 88 && depth < 3:
		n := g.r.Intn(4)
		c := CV{Kind: "list", List: []CV{}}
		for i := 0; i < n; i++ {
			c.List = append(c.List, g.cv(depth+1))
		}
		return c
	case depth < 3:
		n := g.r.Intn(3)
		c := CV{Kind: "map", Map: [][2]CV{}}
		for i := 0; i < n; i++ {
			c.Map = append(c.Map, [2]CV{g.cv(depth + 2), g.cv(depth + 1)})
		}
		return c
	}
	return CV{Kind: "num", Num: "1"}
}

// typed constant values that the semantic checker accepts
func (g *gen) cvFor(t Ty, depth int) CV {
	switch t.Name {
	case "bool":
		return CV{Kind: "id", Id: g.r.Pick([]string{"true", "false"})}
	case "byte", "i8":
		return CV{Kind: "num", Num: fmt.Sprint(g.r.Intn(100) - 50)}
	case "i16", "i32", "i64":
		if g.r.Chance(20) {
			return CV{Kind: "num", Num: fmt.Sprintf("0x%x", g.r.Intn(3000))}
		}
		return CV{Kind: "num", Num: fmt.Sprint(g.r.Intn(30000) - 9000)}
	case "double":
		if g.r.Chance(30) {
			return CV{Kind: "num", Num: fmt.Sprint(g.r.Intn(100) - 20)}
		}
		return CV{Kind: "num", Num: g.dblText()}
	case "string", "binary":
		return CV{Kind: "lit", Lit: g.lit()}
	case "list", "set":
		c := CV{Kind: "list", List: []CV{}}
		if depth < 3 {
			for i, n := 0, g.r.Intn(4); i < n; i++ {
				c.List = append(c.List, g.cvFor(*t.V, depth+1))
			}
		}
		return c
	case "map":
		c := CV{Kind: "map", Map: [][2]CV{}}
		if depth < 3 {
			for i, n := 0, g.r.Intn(3); i < n; i++ {
				c.Map = append(c.Map, [2]CV{g.cvFor(*t.K, depth+1), g.cvFor(*t.V, depth+1)})
			}
		}
		return c
	}
	if vs, ok := g.enums[t.Name]; ok && len(vs) > 0 {
		return CV{Kind: "id", Id: t.Name + "." + g.r.Pick(vs)}
	}
	return CV{Kind: "map", Map: [][2]CV{}}
}

func (g *gen) comment() string {
	switch x := g.r.Intn(100); {
	case x < 70:
		return ""
	case x < 80:
		return "// plain comment"
	case x < 86:
		return `// say "hi" & <b>bye</b> &amp; &lt;`
	case x < 90:
		return "/* block\n   comment */"
	case x < 94:
		return "# unix style"
	case x < 97:
		return `/** doc "q" 'r' \" */`
	default:
		return "// a\n// b"
	}
}

func (g *gen) fields(n int, inline bool, semantic bool) []Field {
	var out []Field
	used := map[int]bool{}
	next := 1
	for i := 0; i < n; i++ {
		f := Field{Name: g.name("f"), Ty: g.ty(0)}
		switch x := g.r.Intn(100); {
		case x < 75:
			id := next
			if g.r.Chance(20) {
				id = next + g.r.Intn(5)
			}
			for used[id] {
				id++
			}
			f.ID = &id
		case x < 85:
			id := -(1 + g.r.Intn(40))
			for used[id] {
				id--
			}
			f.ID = &id
		default:
			// no explicit id: the parser assigns previous+1 (or 1)
		}
		if f.ID != nil {
			used[*f.ID] = true
			next = *f.ID + 1
		} else {
			used[next] = true
			next++
		}
		f.Req = []int{0, 0, 1, 2}[g.r.Intn(4)]
		if g.r.Chance(25) && (!inline || g.r.Chance(g.pArgExt)) {
			var c CV
			if semantic {
				c = g.cvFor(f.Ty, 0)
			} else {
				c = g.cv(0)
			}
			f.Def = &c
		}
		if !inline || g.r.Chance(g.pArgExt) {
			f.Anns = g.anns(25)
		}
		if !inline {
			f.Cm = g.comment()
			if g.r.Chance(10) {
				f.EndCm = "// end of line"
			}
		}
		f.Sep = g.r.Pick([]string{"", ",", ";"})
		out = append(out, f)
	}
	return out
}

// program builds one random program. semantic=true keeps it acceptable to the semantic checker
// (typed defaults, resolvable names, no includes).
func (g *gen) program(semantic bool) Prog {
	g.n = 0
	g.structs, g.excs, g.tdefs, g.svcs = nil, nil, nil, nil
	g.enums = map[string][]string{}
	g.pHaz = []int{0, 0, 0, 30, 100}[g.r.Intn(5)]
	g.pTyAnn = []int{0, 0, 10, 40}[g.r.Intn(4)]
	g.pArgExt = []int{0, 0, 0, 50}[g.r.Intn(4)]
	g.pCpp = []int{0, 0, 0, 0, 30}[g.r.Intn(5)]
	g.pBigDbl = []int{0, 0, 0, 0, 30}[g.r.Intn(5)]
	var p Prog
	if !semantic {
		for i, n := 0, g.r.Intn(3); i < n; i++ {
			inc := Lit{g.r.Pick([]string{`"`, "'"}), g.r.Pick([]string{"base.thrift", "dir/other.thrift", "a&b.thrift", "../x y.thrift"})}
			if g.r.Chance(g.pHaz / 10) {
				inc = Lit{"'", `q"uote.thrift`}
			}
			p.Incs = append(p.Incs, inc)
		}
	}
	for i, n := 0, g.r.Intn(4); i < n; i++ {
		p.NSs = append(p.NSs, NS{g.r.Pick([]string{"go", "java", "*", "py", "cpp", "py.twisted"}), g.r.Pick([]string{"a", "a.b.c", "com.x_y.Z1"}), g.anns(25)})
	}
	for i, n := 0, g.r.Intn(5)/3; i < n; i++ {
		p.Cpps = append(p.Cpps, Lit{g.r.Pick([]string{`"`, "'"}), g.r.Pick([]string{"<vector>", "a&b.h", "x/y.h", "&amp;.h"})})
	}
	nd := g.r.Intn(9)
	if g.r.Chance(5) {
		nd = 10 + g.r.Intn(10)
	}
	for i := 0; i < nd; i++ {
		var d Def
		d.Cm = g.comment()
		d.Anns = g.anns(30)
		switch x := g.r.Intn(100); {
		case x < 12:
			d.Kind, d.Name, d.Ty = "typedef", g.name("T"), g.ty(0)
			p.Defs = append(p.Defs, d)
			g.tdefs = append(g.tdefs, d.Name)
			continue
		case x < 37:
			d.Kind, d.Name = "const", g.name("c")
			if semantic {
				d.Ty = g.ty(1)
				for len(g.tdefs) > 0 && contains(g.tdefs, d.Ty.Name) || contains(g.structs, d.Ty.Name) {
					d.Ty = Ty{Name: g.r.Pick(baseTypes)}
				}
				d.Val = g.cvFor(d.Ty, 0)
			} else {
				d.Ty = g.ty(0)
				d.Val = g.cv(0)
			}
		case x < 50:
			d.Kind, d.Name = "enum", g.name("E")
			var names []string
			for j, n := 0, g.r.Intn(5); j < n; j++ {
				e := EV{Name: g.name("V"), Anns: g.anns(20), Sep: g.r.Pick([]string{"", ",", ";"})}
				if g.r.Chance(50) {
					v := fmt.Sprint(j*3 + g.r.Intn(3))
					if g.r.Chance(10) {
						v = fmt.Sprintf("0x%x", j*3+g.r.Intn(3))
					}
					if !semantic && g.r.Chance(10) {
						v = fmt.Sprint(-1 - g.r.Intn(5))
					}
					e.Val = &v
				}
				if g.r.Chance(15) {
					e.Cm = "// enum value comment"
				}
				d.EVs = append(d.EVs, e)
				names = append(names, e.Name)
			}
			p.Defs = append(p.Defs, d)
			g.enums[d.Name] = names
			continue
		case x < 80:
			d.Kind = g.r.Pick([]string{"struct", "struct", "struct", "union", "exception"})
			d.Name = g.name("S")
			n := g.r.Intn(6)
			if g.r.Chance(15) {
				n = 0
			}
			d.Fields = g.fields(n, false, semantic)
			if d.Kind == "union" {
				for j := range d.Fields {
					d.Fields[j].Req = 0
					if semantic {
						d.Fields[j].Def = nil
					}
				}
			}
			p.Defs = append(p.Defs, d)
			if d.Kind == "exception" {
				g.excs = append(g.excs, d.Name)
			} else {
				g.structs = append(g.structs, d.Name)
			}
			continue
		default:
			d.Kind, d.Name = "service", g.name("Svc")
			if len(g.svcs) > 0 && g.r.Chance(30) {
				d.Ext = g.r.Pick(g.svcs)
			}
			nf := g.r.Intn(4)
			for j := 0; j < nf; j++ {
				f := Func{Name: g.name("m"), Anns: g.anns(25), Sep: g.r.Pick([]string{"", ",", ";"})}
				f.Void = g.r.Chance(40)
				if !f.Void {
					f.Ty = g.ty(0)
				} else {
					f.Oneway = g.r.Chance(25)
				}
				f.Args = g.fields(g.r.Intn(4), true, semantic)
				if !f.Oneway && g.r.Chance(40) {
					f.HasThr = true
					nt := g.r.Intn(4)
					ths := g.fields(nt, true, semantic)
					for k := range ths {
						if semantic || !g.r.Chance(g.pArgExt) {
							ths[k].Def = nil
						}
						ths[k].Ty = Ty{Name: "string"}
						if len(g.excs) > 0 {
							ths[k].Ty = Ty{Name: g.r.Pick(g.excs)}
						}
					}
					f.Throws = ths
				}
				if g.r.Chance(15) {
					f.Cm = "// method comment"
				}
				d.Funcs = append(d.Funcs, f)
			}
			g.svcs = append(g.svcs, d.Name)
		}
		p.Defs = append(p.Defs, d)
	}
	return p
}

func contains(a []string, s string) bool {
	for _, x := range a {
		if x == s {
			return true
		}
	}
	return false
}
