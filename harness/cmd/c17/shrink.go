package main

// Greedy shrinker over the JSON form of the program IR. A candidate is kept when the implementation
// still fails on it with the same failure class.

import (
	"encoding/json"
	"sort"
	"strings"
)

func minInt(a, b int) int {
	if a < b {
		return a
	}
	return b
}

type edit struct {
	path []interface{} // keys (string) / indices (int) from the root to the node the edit applies to
	op   string
	arg  interface{}
}

func toTree(p Prog) interface{} {
	b, _ := json.Marshal(p)
	var v interface{}
	json.Unmarshal(b, &v)
	return v
}

func fromTree(v interface{}) Prog {
	b, _ := json.Marshal(v)
	var p Prog
	json.Unmarshal(b, &p)
	return p
}

func clone(v interface{}) interface{} {
	b, _ := json.Marshal(v)
	var w interface{}
	json.Unmarshal(b, &w)
	return w
}

func pathOf(p []interface{}, k interface{}) []interface{} {
	q := make([]interface{}, len(p)+1)
	copy(q, p)
	q[len(p)] = k
	return q
}

var numCandidates = []string{"0", "1", "0.5", "9223372036854775808.0"}

func collect(v interface{}, path []interface{}, key string, out *[]edit) {
	switch x := v.(type) {
	case []interface{}:
		for i := range x {
			if key != "Map" || true {
				*out = append(*out, edit{pathOf(path, i), "del", nil})
			}
		}
		for i, c := range x {
			if key == "Map" {
				// c is a [k, v] pair: recurse into members without offering deletions inside the pair
				if pr, ok := c.([]interface{}); ok {
					for j, m := range pr {
						collect(m, pathOf(pathOf(path, i), j), "pair", out)
					}
				}
				continue
			}
			collect(c, pathOf(path, i), key, out)
		}
	case map[string]interface{}:
		_, isCV := x["Num"]
		_, isTy := x["Cpp"]
		if isCV && key != "" {
			if !(x["Kind"] == "num" && x["Num"] == "0") {
				*out = append(*out, edit{path, "cv0", nil})
			}
			if l, ok := x["List"].([]interface{}); ok {
				for i := range l {
					*out = append(*out, edit{path, "cv-elem", i})
				}
			}
			if l, ok := x["Map"].([]interface{}); ok {
				for i := range l {
					*out = append(*out, edit{path, "cv-mapkey", i}, edit{path, "cv-mapval", i})
				}
			}
		}
		if isTy {
			if x["V"] != nil {
				*out = append(*out, edit{path, "ty-inner", nil})
			}
			if !(x["Name"] == "i32" && x["V"] == nil && x["K"] == nil) {
				*out = append(*out, edit{path, "ty-i32", nil})
			}
		}
		keys := make([]string, 0, len(x))
		for k := range x {
			keys = append(keys, k)
		}
		sort.Strings(keys)
		for _, k := range keys {
			c := x[k]
			if c == nil {
				continue
			}
			p := pathOf(path, k)
			switch k {
			case "ID", "Cpp", "Def":
				*out = append(*out, edit{p, "null", nil})
			case "Val":
				if _, ok := c.(string); ok {
					*out = append(*out, edit{p, "null", nil})
				}
			case "K", "V":
				// handled by ty-inner / ty-i32
			}
			switch cv := c.(type) {
			case string:
				switch k {
				case "Raw", "Cm", "EndCm", "Ext", "Sep":
					if cv != "" {
						*out = append(*out, edit{p, "set", ""})
						if k == "Raw" {
							rs := []rune(cv)
							for i := range rs {
								*out = append(*out, edit{p, "delchar", i})
							}
							for i := range rs {
								if rs[i] != 'a' {
									*out = append(*out, edit{p, "achar", i})
								}
							}
						}
					}
				case "Num":
					// only towards an earlier candidate, so that shrinking terminates
					for _, n := range numCandidates {
						if cv == n {
							break
						}
						*out = append(*out, edit{p, "set", n})
					}
				case "Q":
					if cv != `"` {
						*out = append(*out, edit{p, "set", `"`})
					}
				case "Val":
					if cv != "0" {
						*out = append(*out, edit{p, "set", "0"})
					}
				}
			case bool:
				if cv && (k == "Oneway" || k == "HasThr") {
					*out = append(*out, edit{p, "set", false})
				}
				if !cv && k == "Void" {
					*out = append(*out, edit{p, "set", true})
				}
			case float64:
				if k == "Req" && cv != 0 {
					*out = append(*out, edit{p, "set", float64(0)})
				}
				if k == "ID" && cv != 1 {
					*out = append(*out, edit{p, "set", float64(1)})
				}
			}
			collect(c, p, k, out)
		}
	}
}

func zeroCV() map[string]interface{} {
	return map[string]interface{}{"Kind": "num", "Num": "0", "Lit": map[string]interface{}{"Q": "", "Raw": ""}, "Id": "", "List": nil, "Map": nil}
}

func apply(root interface{}, e edit) interface{} {
	root = clone(root)
	if len(e.path) == 0 {
		return root
	}
	var parent interface{} = nil
	node := root
	for _, k := range e.path {
		parent = node
		switch kk := k.(type) {
		case string:
			node = node.(map[string]interface{})[kk]
		case int:
			node = node.([]interface{})[kk]
		}
	}
	last := e.path[len(e.path)-1]
	setNode := func(v interface{}) {
		switch kk := last.(type) {
		case string:
			parent.(map[string]interface{})[kk] = v
		case int:
			parent.([]interface{})[kk] = v
		}
	}
	switch e.op {
	case "del":
		// remove element `last` from the parent array: need the grandparent to re-link
		idx := last.(int)
		arr := parent.([]interface{})
		na := append(append([]interface{}{}, arr[:idx]...), arr[idx+1:]...)
		// re-link
		gp := root
		if len(e.path) == 1 {
			return na
		}
		for _, k := range e.path[:len(e.path)-2] {
			switch kk := k.(type) {
			case string:
				gp = gp.(map[string]interface{})[kk]
			case int:
				gp = gp.([]interface{})[kk]
			}
		}
		switch kk := e.path[len(e.path)-2].(type) {
		case string:
			gp.(map[string]interface{})[kk] = na
		case int:
			gp.([]interface{})[kk] = na
		}
	case "null":
		setNode(nil)
	case "set":
		setNode(e.arg)
	case "delchar":
		rs := []rune(node.(string))
		i := e.arg.(int)
		setNode(string(rs[:i]) + string(rs[i+1:]))
	case "achar":
		rs := []rune(node.(string))
		rs[e.arg.(int)] = 'a'
		setNode(string(rs))
	case "cv0":
		setNode(zeroCV())
	case "cv-elem":
		setNode(node.(map[string]interface{})["List"].([]interface{})[e.arg.(int)])
	case "cv-mapkey":
		setNode(node.(map[string]interface{})["Map"].([]interface{})[e.arg.(int)].([]interface{})[0])
	case "cv-mapval":
		setNode(node.(map[string]interface{})["Map"].([]interface{})[e.arg.(int)].([]interface{})[1])
	case "ty-inner":
		setNode(node.(map[string]interface{})["V"])
	case "ty-i32":
		setNode(map[string]interface{}{"Name": "i32", "K": nil, "V": nil, "Cpp": nil, "Anns": nil})
	}
	return root
}

func shrink(p Prog, class string, sem bool) (Prog, verdict) {
	best := toTree(p)
	bestV := checkSrc(p.Render(), sem)
	still := func(t interface{}) (verdict, bool) {
		v := checkSrc(fromTree(t).Render(), sem)
		return v, v.Class == class
	}
	budget := 2500
	for changed := true; changed && budget > 0; {
		changed = false
		var edits []edit
		collect(best, nil, "", &edits)
		for idx := 0; idx < len(edits) && budget > 0; {
			budget--
			cand := apply(best, edits[idx])
			if v, ok := still(cand); ok {
				best, bestV, changed = cand, v, true
				// positions moved: recollect, stay at the same index
				edits = edits[:0]
				collect(best, nil, "", &edits)
				continue
			}
			idx++
		}
	}
	// canonical names
	r := rename(fromTree(best))
	if v, ok := still(toTree(r)); ok {
		return r, v
	}
	return fromTree(best), bestV
}

// rename maps every defined identifier to a, b, c … in order of first definition.
func rename(p Prog) Prog {
	m := map[string]string{}
	next := 0
	def := func(s string) {
		if s == "" {
			return
		}
		if _, ok := m[s]; !ok {
			m[s] = string(rune('a' + next%26))
			if next >= 26 {
				m[s] += string(rune('a' + next/26))
			}
			next++
		}
	}
	annK := func(a []Ann) {
		for _, x := range a {
			def(x.K)
		}
	}
	var tyK func(t Ty)
	tyK = func(t Ty) {
		annK(t.Anns)
		if t.K != nil {
			tyK(*t.K)
		}
		if t.V != nil {
			tyK(*t.V)
		}
	}
	flK := func(fs []Field) {
		for _, f := range fs {
			def(f.Name)
			annK(f.Anns)
			tyK(f.Ty)
		}
	}
	for _, n := range p.NSs {
		annK(n.Anns)
	}
	for _, d := range p.Defs {
		def(d.Name)
		annK(d.Anns)
		tyK(d.Ty)
		for _, e := range d.EVs {
			def(e.Name)
			annK(e.Anns)
		}
		flK(d.Fields)
		for _, f := range d.Funcs {
			def(f.Name)
			annK(f.Anns)
			tyK(f.Ty)
			flK(f.Args)
			flK(f.Throws)
		}
	}
	ref := func(s string) string {
		if v, ok := m[s]; ok {
			return v
		}
		parts := strings.Split(s, ".")
		for i := range parts {
			if v, ok := m[parts[i]]; ok {
				parts[i] = v
			}
		}
		return strings.Join(parts, ".")
	}
	annR := func(a []Ann) []Ann {
		var o []Ann
		for _, x := range a {
			o = append(o, Ann{ref(x.K), x.V})
		}
		return o
	}
	var tyR func(t Ty) Ty
	tyR = func(t Ty) Ty {
		t.Name = ref(t.Name)
		t.Anns = annR(t.Anns)
		if t.K != nil {
			k := tyR(*t.K)
			t.K = &k
		}
		if t.V != nil {
			v := tyR(*t.V)
			t.V = &v
		}
		return t
	}
	var cvR func(c CV) CV
	cvR = func(c CV) CV {
		if c.Kind == "id" {
			c.Id = ref(c.Id)
		}
		for i := range c.List {
			c.List[i] = cvR(c.List[i])
		}
		for i := range c.Map {
			c.Map[i] = [2]CV{cvR(c.Map[i][0]), cvR(c.Map[i][1])}
		}
		return c
	}
	flR := func(fs []Field) []Field {
		var o []Field
		for _, f := range fs {
			f.Name = ref(f.Name)
			f.Anns = annR(f.Anns)
			f.Ty = tyR(f.Ty)
			if f.Def != nil {
				d := cvR(*f.Def)
				f.Def = &d
			}
			o = append(o, f)
		}
		return o
	}
	q := fromTree(toTree(p))
	for i := range q.NSs {
		q.NSs[i].Anns = annR(q.NSs[i].Anns)
	}
	for i := range q.Defs {
		d := &q.Defs[i]
		d.Name = ref(d.Name)
		d.Ext = ref(d.Ext)
		d.Anns = annR(d.Anns)
		d.Ty = tyR(d.Ty)
		d.Val = cvR(d.Val)
		for j := range d.EVs {
			d.EVs[j].Name = ref(d.EVs[j].Name)
			d.EVs[j].Anns = annR(d.EVs[j].Anns)
		}
		d.Fields = flR(d.Fields)
		for j := range d.Funcs {
			f := &d.Funcs[j]
			f.Name = ref(f.Name)
			f.Anns = annR(f.Anns)
			f.Ty = tyR(f.Ty)
			f.Args = flR(f.Args)
			f.Throws = flR(f.Throws)
		}
	}
	return q
}
