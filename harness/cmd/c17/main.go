// c17: translator (extract), correspondence and oracle harness for property C17
// (dumping an AST to IDL text and parsing it back gives the same IDL).
package main

import (
	"encoding/json"
	"flag"
	"fmt"
	"math"
	"os"
	"path/filepath"
	"strconv"
	"strings"

	"github.com/cloudwego/thriftgo/parser"
	"github.com/cloudwego/thriftgo/semantic"
	"github.com/cloudwego/thriftgo/tool/trimmer/dump"

	"verifharness/internal/vl"
)

// ---------------------------------------------------------------- the property on the implementation

func safeDump(a *parser.Thrift) (out string, panicked bool) {
	defer func() {
		if r := recover(); r != nil {
			out, panicked = fmt.Sprint(r), true
		}
	}()
	dump.UseOldDumpFunction = false
	s, err := dump.DumpIDL(a)
	if err != nil {
		return err.Error(), true
	}
	return s, false
}

func safeParse(name, src string) (a *parser.Thrift, err error) {
	defer func() {
		if r := recover(); r != nil {
			a, err = nil, fmt.Errorf("panic: %v", r)
		}
	}()
	return parser.ParseString(name, src)
}

func accepted(a *parser.Thrift) (ok bool) {
	defer func() {
		if r := recover(); r != nil {
			ok = false
		}
	}()
	c := semantic.NewChecker(semantic.Options{FixWarnings: true})
	if _, err := c.CheckAll(a); err != nil {
		return false
	}
	return semantic.ResolveSymbols(a) == nil
}

type verdict struct {
	Class  string // "" = property holds; "gen-reject" = the source is not an accepted input
	Detail string
	Dumped string
	Sem    string // "", "accepted", "rejected-before"
	CmDiff int
}

// checkSrc evaluates the property on one source text, on the implementation alone.
func checkSrc(src string, sem bool) verdict {
	ast, err := safeParse("a.thrift", src)
	if err != nil {
		return verdict{Class: "gen-reject", Detail: firstLine(err.Error())}
	}
	out, p := safeDump(ast)
	if p {
		return verdict{Class: "dump-panic", Detail: out}
	}
	v := verdict{Dumped: out}
	ast2, err := safeParse("a.thrift", out)
	if err != nil {
		v.Class, v.Detail = "reparse-error", "the dumped text is rejected by the parser: "+firstLine(err.Error())
		if out == "" {
			v.Class = "reparse-error:empty-output"
		}
		return v
	}
	d := diffAST(ast, ast2)
	v.CmDiff = d.cmDiffs
	if d.path != "" {
		v.Class, v.Detail = "diff:"+classOf(d.path), d.detail
		return v
	}
	if sem && len(ast.Includes) == 0 {
		// the trimmer's order: parse, check, resolve, dump; then the written text must be accepted again
		a3, _ := safeParse("a.thrift", src)
		if a3 != nil && accepted(a3) {
			v.Sem = "accepted"
			out3, p := safeDump(a3)
			if p {
				v.Class, v.Detail = "dump-panic", out3
				return v
			}
			a4, err := safeParse("a.thrift", out3)
			if err != nil {
				v.Class, v.Detail = "reparse-error", "text dumped after CheckAll/ResolveSymbols is rejected by the parser: "+firstLine(err.Error())
				return v
			}
			if d := diffAST(a3, a4); d.path != "" {
				v.Class, v.Detail = "diff:"+classOf(d.path), "(dump after CheckAll/ResolveSymbols) "+d.detail
				return v
			}
			if !accepted(a4) {
				v.Class, v.Detail = "sem-reject", "original accepted by CheckAll+ResolveSymbols, re-read dump rejected"
				return v
			}
		} else {
			v.Sem = "rejected-before"
		}
	}
	return v
}

// classOf maps the path of the first difference to a failure class (container prefixes and type nesting dropped).
func classOf(path string) string {
	seg := strings.Split(path, ".")
	last := seg[len(seg)-1]
	has := func(s string) bool {
		for _, x := range seg {
			if x == s {
				return true
			}
		}
		return false
	}
	switch {
	case last == "CppType":
		return "Type.CppType"
	case (has("Type") || has("FunctionType")) && has("Annotations"):
		return "Type.Annotations." + last
	case has("Arguments"):
		return "Arguments." + strings.Join(seg[indexOf(seg, "Arguments")+1:], ".")
	case has("Throws"):
		return "Throws." + strings.Join(seg[indexOf(seg, "Throws")+1:], ".")
	case has("Value") && seg[0] == "Constants" && !has("Annotations"), has("Default"):
		return "ConstValue." + last
	case has("Annotations"):
		return "Annotations." + last
	}
	return path
}

func indexOf(a []string, s string) int {
	for i, x := range a {
		if x == s {
			return i
		}
	}
	return -1
}

func firstLine(s string) string {
	s = strings.TrimSpace(s)
	if i := strings.IndexByte(s, '\n'); i >= 0 {
		s = s[:i] + " …"
	}
	if len(s) > 200 {
		s = s[:200]
	}
	return s
}

// ---------------------------------------------------------------- run

type runner struct {
	g    *gen
	out  *vl.Out
	seen map[string]bool
}

func (r *runner) fileOp(tag string, a *parser.Thrift) {
	op := "F " + tag + " " + encodeFile(a)
	out, p := safeDump(a)
	impl := "ok " + vl.Hex(out)
	if p {
		impl = "panic"
	}
	r.out.Case(op, impl, true)
	r.out.Count("op:F/" + tag)
}

func (r *runner) program(sem bool) {
	p := r.g.program(sem)
	src := p.Render()
	v := checkSrc(src, sem)
	kind := "free"
	if sem {
		kind = "semantic"
	}
	r.out.Count("program:" + kind)
	if v.Class == "gen-reject" {
		r.out.Count("program:rejected-by-parser")
		return
	}
	if v.Sem != "" {
		r.out.Count("semantic:" + v.Sem)
	}
	if v.CmDiff > 0 {
		r.out.Count("info:comment-differs-after-roundtrip")
	}
	r.stats(p)
	ast, _ := safeParse("a.thrift", src)
	r.fileOp("prog", ast)
	r.out.Sample(map[string]string{"source": clip(src, 400)})
	if v.Class != "" {
		r.out.Count("oracle-fail:" + v.Class)
		r.report(p, v, sem)
	}
}

func clip(s string, n int) string {
	if len(s) > n {
		return s[:n] + "…"
	}
	return s
}

func (r *runner) stats(p Prog) {
	o := r.out
	if len(p.Defs) == 0 {
		o.Count("shape:no-definitions")
	}
	o.Count(fmt.Sprintf("shape:defs=%d", minInt(len(p.Defs), 10)))
	for _, n := range p.NSs {
		if len(n.Anns) > 0 {
			o.Count("has:namespace-annotation")
		}
	}
	if len(p.Incs) > 0 {
		o.Count("has:include")
	}
	if len(p.Cpps) > 0 {
		o.Count("has:cpp_include")
	}
	var tyA func(t Ty)
	tyA = func(t Ty) {
		if len(t.Anns) > 0 {
			o.Count("has:type-annotation")
		}
		if t.Cpp != nil {
			o.Count("has:cpp_type")
		}
		if t.K != nil {
			tyA(*t.K)
		}
		if t.V != nil {
			tyA(*t.V)
		}
	}
	var cvA func(c CV, depth int)
	cvA = func(c CV, depth int) {
		switch c.Kind {
		case "lit":
			o.Count("has:literal")
			l := c.Lit
			if strings.Contains(l.Raw, `"`) && strings.Contains(l.Raw, "'") {
				o.Count("literal:both-quote-kinds")
			}
			for _, s := range []string{"&", "<", "#", `\`, "&amp;", "&#34;", "#OUTQUOTES", "##34;"} {
				if strings.Contains(l.Raw, s) {
					o.Count("literal:contains " + s)
				}
			}
		case "list", "map":
			if depth > 0 {
				o.Count("has:nested-constant")
			}
			for _, x := range c.List {
				cvA(x, depth+1)
			}
			for _, kv := range c.Map {
				cvA(kv[0], depth+1)
				cvA(kv[1], depth+1)
			}
		}
	}
	fl := func(fs []Field, what string) {
		for _, f := range fs {
			tyA(f.Ty)
			if f.ID != nil && *f.ID < 0 {
				o.Count("has:negative-id")
			}
			if f.ID == nil {
				o.Count("has:implicit-id")
			}
			if f.Def != nil {
				o.Count("has:default/" + what)
				cvA(*f.Def, 0)
			}
			if len(f.Anns) > 0 {
				o.Count("has:annotation/" + what)
			}
		}
	}
	for _, d := range p.Defs {
		o.Count("def:" + d.Kind)
		if len(d.Anns) > 0 {
			o.Count("has:annotation/" + d.Kind)
		}
		switch d.Kind {
		case "typedef":
			tyA(d.Ty)
		case "const":
			tyA(d.Ty)
			cvA(d.Val, 0)
		case "enum":
			if len(d.EVs) == 0 {
				o.Count("has:empty-enum")
			}
			for _, e := range d.EVs {
				if len(e.Anns) > 0 {
					o.Count("has:annotation/enum-value")
				}
			}
		case "struct", "union", "exception":
			if len(d.Fields) == 0 {
				o.Count("has:empty-" + d.Kind)
			}
			fl(d.Fields, "field")
		case "service":
			if len(d.Funcs) == 0 {
				o.Count("has:empty-service")
			}
			for _, f := range d.Funcs {
				if len(f.Anns) > 0 {
					o.Count("has:annotation/function")
				}
				if !f.Void {
					tyA(f.Ty)
				}
				fl(f.Args, "argument")
				fl(f.Throws, "throws")
				if len(f.Throws) >= 2 {
					o.Count("has:two-or-more-throws")
				}
			}
		}
	}
}

func (r *runner) report(p Prog, v verdict, sem bool) {
	if r.seen == nil {
		r.seen = map[string]bool{}
	}
	// one shrink per failure class and run is enough to name the class; further programs of the same class
	// are shrunk too (up to a budget) because they may minimise to different inputs.
	lim := 2
	if strings.HasPrefix(v.Class, "reparse-error") || strings.HasPrefix(v.Class, "diff:ConstValue") {
		lim = 8
	}
	if r.out.Stats["shrunk:"+v.Class] >= lim {
		return
	}
	r.out.Count("shrunk:" + v.Class)
	mp, _ := shrink(p, v.Class, sem)
	key, kp, mv := failKey(mp, sem)
	src := kp.Render()
	if r.seen[key] {
		return
	}
	r.seen[key] = true
	r.out.Fail(vl.OracleFail{
		Key:      key,
		What:     "dump/parse round trip: " + mv.Class + " — " + mv.Detail,
		Input:    map[string]interface{}{"src": src, "semantic": sem},
		Expected: "parser.ParseString(dump.DumpIDL(ast)) succeeds and equals ast field by field",
		Observed: map[string]string{"class": mv.Class, "detail": mv.Detail, "dumped": mv.Dumped},
	})
}

// failKey: stable name of a minimised failing program. Where the failure is carried by one literal or one
// type expression, the literal/type is transplanted into a canonical one-line program; if that program
// fails too, it becomes the reported input (so that the same defect met at different places of a
// program gets the same key).
func failKey(p Prog, sem bool) (key string, q Prog, v verdict) {
	var lits []Lit
	var nums []string
	var cpp *Ty
	// an AST without anything in it is dumped as the empty text: canonical witness = a comment-only file
	if v0 := checkSrc(p.Render(), sem); v0.Class == "reparse-error:empty-output" {
		if cv := checkSrc("// empty\n", sem); cv.Class != "" && cv.Class != "gen-reject" {
			return "idl:// empty", Prog{Defs: []Def{{Kind: "", Cm: "// empty"}}}, cv
		}
	}
	addA := func(a []Ann) {
		for _, x := range a {
			lits = append(lits, x.V)
		}
	}
	var tyW func(t Ty)
	tyW = func(t Ty) {
		addA(t.Anns)
		if t.Cpp != nil && cpp == nil {
			c := t
			cpp = &c
		}
		if t.K != nil {
			tyW(*t.K)
		}
		if t.V != nil {
			tyW(*t.V)
		}
	}
	var cvW func(c CV)
	cvW = func(c CV) {
		if c.Kind == "lit" {
			lits = append(lits, c.Lit)
		}
		if c.Kind == "num" {
			nums = append(nums, c.Num)
		}
		for _, x := range c.List {
			cvW(x)
		}
		for _, kv := range c.Map {
			cvW(kv[0])
			cvW(kv[1])
		}
	}
	flW := func(fs []Field) {
		for _, f := range fs {
			tyW(f.Ty)
			addA(f.Anns)
			if f.Def != nil {
				cvW(*f.Def)
			}
		}
	}
	for _, n := range p.NSs {
		addA(n.Anns)
	}
	for _, d := range p.Defs {
		addA(d.Anns)
		tyW(d.Ty)
		cvW(d.Val)
		for _, e := range d.EVs {
			addA(e.Anns)
		}
		flW(d.Fields)
		for _, f := range d.Funcs {
			addA(f.Anns)
			tyW(f.Ty)
			flW(f.Args)
			flW(f.Throws)
		}
	}
	litValue := func(l Lit) string {
		if a, err := safeParse("a.thrift", "const string a = "+l.String()+"\n"); err == nil && len(a.Constants) == 1 && a.Constants[0].Value.TypedValue.Literal != nil {
			return *a.Constants[0].Value.TypedValue.Literal
		}
		return l.Raw
	}
	for _, l := range lits {
		c := Prog{Defs: []Def{{Kind: "const", Name: "a", Ty: Ty{Name: "string"}, Val: CV{Kind: "lit", Lit: l}}}}
		if cv := checkSrc(c.Render(), sem); cv.Class != "" && cv.Class != "gen-reject" {
			// minimise the literal once more inside the canonical program (cheap; the first shrink may have run out of budget)
			c2, cv2 := shrink(c, cv.Class, sem)
			if len(c2.Defs) == 1 && c2.Defs[0].Val.Kind == "lit" {
				return "literal:" + vl.Hex(litValue(c2.Defs[0].Val.Lit)), c2, cv2
			}
			return "literal:" + vl.Hex(litValue(l)), c, cv
		}
	}
	for _, l := range lits {
		c := Prog{Defs: []Def{{Kind: "typedef", Name: "a", Ty: Ty{Name: "i32", Anns: []Ann{{"a", l}}}}}}
		if cv := checkSrc(c.Render(), sem); cv.Class != "" && cv.Class != "gen-reject" {
			c2, cv2 := shrink(c, cv.Class, sem)
			if len(c2.Defs) == 1 && len(c2.Defs[0].Ty.Anns) == 1 {
				return "type-annotation:" + vl.Hex(litValue(c2.Defs[0].Ty.Anns[0].V)), c2, cv2
			}
			return "type-annotation:" + vl.Hex(litValue(l)), c, cv
		}
	}
	for _, n := range nums {
		c := Prog{Defs: []Def{{Kind: "const", Name: "a", Ty: Ty{Name: "i32"}, Val: CV{Kind: "num", Num: n}}}}
		if cv := checkSrc(c.Render(), sem); cv.Class != "" && cv.Class != "gen-reject" {
			return "idl:" + strings.TrimSpace(c.Render()), c, cv
		}
	}
	if cpp != nil {
		i32 := Ty{Name: "i32"}
		t := Ty{Name: "list", V: &i32, Cpp: &Lit{`"`, "a"}}
		c := Prog{Defs: []Def{{Kind: "typedef", Name: "a", Ty: t}}}
		if cv := checkSrc(c.Render(), sem); cv.Class != "" && cv.Class != "gen-reject" {
			return "idl:" + strings.TrimSpace(c.Render()), c, cv
		}
	}
	return "idl:" + strings.TrimSpace(p.Render()), p, checkSrc(p.Render(), sem)
}

// ---- hand-built ASTs: drive the writer model outside what the parser can produce too

func (r *runner) randBytes() string {
	atoms := append(append(append([]string{}, plainAtoms...), entityAtoms...), hazardAtoms...)
	atoms = append(atoms, `"`, "'", `\`, `\"`, `\\`, `\\"`, "\n", `"`, `\`)
	var sb strings.Builder
	for i, n := 0, r.g.r.Intn(8); i < n; i++ {
		sb.WriteString(r.g.r.Pick(atoms))
	}
	return sb.String()
}

func (r *runner) randAnns() parser.Annotations {
	var a parser.Annotations
	for i, n := 0, r.g.r.Intn(4); i < n; i++ {
		x := &parser.Annotation{Key: r.g.r.Pick([]string{"a", "b", "c.d", "k&"})}
		for j, m := 0, r.g.r.Intn(3); j < m; j++ {
			x.Values = append(x.Values, r.randBytes())
		}
		a = append(a, x)
	}
	return a
}

func (r *runner) randCV(depth int) *parser.ConstValue {
	tv := &parser.ConstTypedValue{}
	switch x := r.g.r.Intn(100); {
	case x < 20:
		f := math.Float64frombits(r.g.r.U64())
		if r.g.r.Chance(60) {
			f = float64(int64(r.g.r.U64()>>uint(r.g.r.Intn(64)))) / []float64{1, 2, 10, 1000, 1e-5}[r.g.r.Intn(5)]
		}
		if math.IsNaN(f) || math.IsInf(f, 0) {
			f = 0.5
		}
		tv.Double = &f
	case x < 40:
		i := int64(r.g.r.U64() >> uint(r.g.r.Intn(64)))
		if r.g.r.Bool() {
			i = -i
		}
		tv.Int = &i
	case x < 65:
		s := r.randBytes()
		tv.Literal = &s
	case x < 72:
		s := r.g.r.Pick([]string{"true", "E.A", "x&y"})
		tv.Identifier = &s
	case x < 87 && depth < 3:
		tv.List = []*parser.ConstValue{}
		for i, n := 0, r.g.r.Intn(4); i < n; i++ {
			tv.List = append(tv.List, r.randCV(depth+1))
		}
	case depth < 3:
		tv.Map = []*parser.MapConstValue{}
		for i, n := 0, r.g.r.Intn(3); i < n; i++ {
			tv.Map = append(tv.Map, &parser.MapConstValue{Key: r.randCV(depth + 2), Value: r.randCV(depth + 1)})
		}
	default:
		i := int64(7)
		tv.Int = &i
	}
	return &parser.ConstValue{TypedValue: tv}
}

func (r *runner) randTy(depth int) *parser.Type {
	t := &parser.Type{Name: r.g.r.Pick([]string{"i32", "string", "Foo", "a.B"})}
	if depth < 3 {
		switch r.g.r.Intn(6) {
		case 0:
			t = &parser.Type{Name: "list", ValueType: r.randTy(depth + 1)}
		case 1:
			t = &parser.Type{Name: "map", KeyType: r.randTy(depth + 1), ValueType: r.randTy(depth + 1)}
		case 2:
			if r.g.r.Chance(10) {
				t = &parser.Type{Name: "odd", KeyType: r.randTy(depth + 1)} // key without value: plain name
			}
		}
	}
	if r.g.r.Chance(30) {
		t.Annotations = r.randAnns()
	}
	if t.ValueType != nil && r.g.r.Chance(25) {
		t.CppType = r.randBytes()
	}
	return t
}

func (r *runner) handBuilt() {
	a := &parser.Thrift{}
	rg := r.g.r
	switch rg.Intn(6) {
	case 0: // one literal constant
		a.Constants = []*parser.Constant{{Name: "c", Type: &parser.Type{Name: "string"}, Value: func() *parser.ConstValue {
			s := r.randBytes()
			return &parser.ConstValue{TypedValue: &parser.ConstTypedValue{Literal: &s}}
		}()}}
		r.fileOp("literal", a)
	case 1: // annotations on a struct, repeated keys kept apart
		a.Structs = []*parser.StructLike{{Category: "struct", Name: "S", Annotations: r.randAnns()}}
		r.fileOp("annotations", a)
	case 2:
		a.Constants = []*parser.Constant{{Name: "c", Type: r.randTy(0), Value: r.randCV(0), Annotations: r.randAnns()}}
		r.fileOp("constvalue", a)
	case 3:
		a.Typedefs = []*parser.Typedef{{Type: r.randTy(0), Alias: "T", Annotations: r.randAnns(), ReservedComments: rg.Pick([]string{"", " ", "// c \"q\" &", "/* ##34; #OUTQUOTES */", "\t\n"})}}
		a.Includes = []*parser.Include{{Path: r.randBytes()}}
		a.CppIncludes = []string{r.randBytes()}
		a.Namespaces = []*parser.Namespace{{Language: rg.Pick([]string{"go", "*"}), Name: "a.b", Annotations: r.randAnns()}}
		r.fileOp("headers+typedef", a)
	case 4:
		var fs []*parser.Field
		for i, n := 0, rg.Intn(4); i < n; i++ {
			f := &parser.Field{ID: int32(rg.Intn(100) - 30), Name: fmt.Sprintf("f%d", i), Type: r.randTy(1), Requiredness: parser.FieldType(rg.Intn(3)), Annotations: r.randAnns()}
			if rg.Chance(40) {
				f.Default = r.randCV(1)
			}
			if rg.Chance(20) {
				f.ReservedComments = "// c"
			}
			fs = append(fs, f)
		}
		s := &parser.StructLike{Category: "struct", Name: "S", Fields: fs, Annotations: r.randAnns()}
		switch rg.Intn(3) {
		case 0:
			a.Structs = []*parser.StructLike{s}
		case 1:
			a.Unions = []*parser.StructLike{s}
		default:
			a.Exceptions = []*parser.StructLike{s, s}
		}
		var evs []*parser.EnumValue
		for i, n := 0, rg.Intn(4); i < n; i++ {
			evs = append(evs, &parser.EnumValue{Name: fmt.Sprintf("V%d", i), Value: int64(rg.Intn(50) - 10), Annotations: r.randAnns()})
		}
		a.Enums = []*parser.Enum{{Name: "E", Values: evs, Annotations: r.randAnns()}}
		r.fileOp("struct+enum", a)
	default:
		mk := func(n int) []*parser.Field {
			var fs []*parser.Field
			for i := 0; i < n; i++ {
				f := &parser.Field{ID: int32(i + 1), Name: fmt.Sprintf("p%d", i), Type: r.randTy(2), Requiredness: parser.FieldType(rg.Intn(3))}
				if rg.Chance(30) {
					f.Default = r.randCV(2)
				}
				if rg.Chance(30) {
					f.Annotations = r.randAnns()
				}
				fs = append(fs, f)
			}
			return fs
		}
		var fns []*parser.Function
		for i, n := 0, rg.Intn(4); i < n; i++ {
			fns = append(fns, &parser.Function{Name: fmt.Sprintf("m%d", i), Oneway: rg.Chance(20), FunctionType: r.randTy(2),
				Arguments: mk(rg.Intn(4)), Throws: mk(rg.Intn(4)), Annotations: r.randAnns(), ReservedComments: rg.Pick([]string{"", "// m"})})
		}
		a.Services = []*parser.Service{{Name: "Svc", Extends: rg.Pick([]string{"", "Base", "x.Base"}), Functions: fns, Annotations: r.randAnns()}}
		r.fileOp("service", a)
	}
}

// ---- reader-side ops

func (r *runner) readLiteralOp() {
	atoms := []string{`\`, `"`, "'", "a", "#", "&", " ", ",", ";", `\"`, `\'`, `\\`, "b"}
	var sb strings.Builder
	q := r.g.r.Pick([]string{`"`, `"`, "'"})
	sb.WriteString(q)
	for i, n := 0, r.g.r.Intn(7); i < n; i++ {
		sb.WriteString(r.g.r.Pick(atoms))
	}
	if r.g.r.Chance(85) {
		sb.WriteString(q)
	}
	for i, n := 0, r.g.r.Intn(3)/2; i < n; i++ {
		sb.WriteString(r.g.r.Pick(atoms))
	}
	text := sb.String()
	if r.g.r.Chance(10) {
		text = " " + text + " "
	}
	impl := "other"
	if a, err := safeParse("a.thrift", "const string c = "+text+"\n"); err == nil && len(a.Constants) == 1 && a.Constants[0].Value.TypedValue.Literal != nil &&
		len(a.Constants[0].Annotations) == 0 {
		impl = "ok " + vl.Hex(*a.Constants[0].Value.TypedValue.Literal)
	}
	r.out.Case("R "+vl.Hex(text), impl, impl != "other")
	r.out.Count("op:R/" + strings.SplitN(impl, " ", 2)[0])
}

func (r *runner) numberText() string {
	rg := r.g.r
	switch x := rg.Intn(100); {
	case x < 25:
		return r.g.intText()
	case x < 45:
		return r.g.dblText()
	case x < 60: // exactly what the dumper writes for a double
		f := float64(int64(rg.U64()>>uint(rg.Intn(64)))) / []float64{1, 1, 2, 8, 10, 1000}[rg.Intn(6)]
		if rg.Bool() {
			f = -f
		}
		return strconv.FormatFloat(f, 'f', -1, 64)
	case x < 70:
		f := math.Float64frombits(rg.U64())
		if math.IsNaN(f) || math.IsInf(f, 0) || math.Abs(f) > 1e40 || (f != 0 && math.Abs(f) < 1e-40) {
			f = 0.1
		}
		return strconv.FormatFloat(f, 'f', -1, 64)
	case x < 80:
		return rg.Pick([]string{"9223372036854775807", "9223372036854775808", "-9223372036854775808", "-9223372036854775809", "18446744073709551616",
			"0x7fffffffffffffff", "0x8000000000000000", "0xg", "0x", "0o17", "0o", "0o8", "08", "007", "00", "-0", "+0", "1.", ".", "-", "+", ".5", "-.5", "5.", "1.5.2", "0x1F", "0XFF", "1 ", "12,", "3;"})
	default:
		var sb strings.Builder
		for i, n := 0, 1+rg.Intn(6); i < n; i++ {
			sb.WriteString(rg.Pick([]string{"0", "1", "9", ".", "-", "+", "x", "o", "7", "8"}))
		}
		return sb.String()
	}
}

func (r *runner) readNumberOp() {
	text := r.numberText()
	if strings.ContainsAny(text, "eE") {
		return
	}
	core := strings.TrimRight(strings.TrimSpace(text), ",; ")
	f, _ := strconv.ParseFloat(core, 64)
	impl := "other"
	a, err := safeParse("a.thrift", "const double c = "+text+"\n")
	switch {
	case err != nil && strings.Contains(err.Error(), "parseConstValue failed"):
		impl = "err"
	case err == nil && len(a.Constants) == 1 && len(a.Constants[0].Annotations) == 0 && len(a.Typedefs)+len(a.Structs)+len(a.Enums)+len(a.Services) == 0:
		tv := a.Constants[0].Value.TypedValue
		if tv.Int != nil {
			impl = fmt.Sprint("int ", *tv.Int)
		} else if tv.Double != nil {
			impl = fmt.Sprint("dbl ", math.Float64bits(*tv.Double))
		}
	}
	r.out.Case("N "+vl.Hex(text)+" "+strconv.FormatUint(math.Float64bits(f), 10), impl, impl != "other")
	r.out.Count("op:N/" + strings.SplitN(impl, " ", 2)[0])
}

func (r *runner) regroupOp() {
	rg := r.g.r
	n := rg.Intn(8)
	keys := []string{"a", "b", "c", "a.b", "a"}
	var parts, toks []string
	for i := 0; i < n; i++ {
		k, v := rg.Pick(keys), rg.Pick([]string{"", "1", "2", "x y", "v"})
		parts = append(parts, fmt.Sprintf("%s = \"%s\"%s", k, v, rg.Pick([]string{",", ";", "", " ,"})))
		toks = append(toks, vl.Hex(k), vl.Hex(v))
	}
	src := "struct S {} (" + strings.Join(parts, " ") + ")\n"
	impl := "other"
	if a, err := safeParse("a.thrift", src); err == nil && len(a.Structs) == 1 {
		var p []string
		for _, x := range a.Structs[0].Annotations {
			var vs []string
			for _, v := range x.Values {
				vs = append(vs, vl.Hex(v))
			}
			p = append(p, vl.Hex(x.Key)+"="+strings.Join(vs, ","))
		}
		impl = "ok " + strings.Join(p, " ")
	}
	r.out.Case(fmt.Sprintf("A %d %s", n, strings.Join(toks, " ")), impl, n >= 2)
	r.out.Count("op:A")
}

// ---- constant values and annotation lists read by the real parser vs the reader model

func cvCanon(c *parser.ConstValue) string {
	v := c.TypedValue
	switch {
	case v.Double != nil:
		return fmt.Sprint("D ", math.Float64bits(*v.Double))
	case v.Int != nil:
		return fmt.Sprint("I ", *v.Int)
	case v.Literal != nil:
		return "L " + vl.Hex(*v.Literal)
	case v.Identifier != nil:
		return "X " + vl.Hex(*v.Identifier)
	case v.List != nil:
		s := fmt.Sprint("S ", len(v.List))
		for _, x := range v.List {
			s += " " + cvCanon(x)
		}
		return s
	case v.Map != nil:
		s := fmt.Sprint("M ", len(v.Map))
		for _, kv := range v.Map {
			s += " " + cvCanon(kv.Key) + " " + cvCanon(kv.Value)
		}
		return s
	}
	return "Z"
}

func (r *runner) rCVv(c CV) string {
	rg := r.g.r
	sp := func() string { return rg.Pick([]string{"", "", " ", "  ", "\n", "\t", " \n\t"}) }
	sep := func() string { return rg.Pick([]string{",", ", ", " , ", ";", " ", "\n", ",\n\t"}) }
	switch c.Kind {
	case "list":
		s := "[" + sp()
		for i, x := range c.List {
			s += r.rCVv(x)
			if i != len(c.List)-1 || rg.Chance(20) {
				s += sep()
			}
		}
		return s + sp() + "]"
	case "map":
		s := "{" + sp()
		for i, kv := range c.Map {
			s += r.rCVv(kv[0]) + sp() + ":" + sp() + r.rCVv(kv[1])
			if i != len(c.Map)-1 || rg.Chance(20) {
				s += sep()
			}
		}
		return s + sp() + "}"
	}
	return rCV(c)
}

func numPairs(c CV, out *[]string) {
	switch c.Kind {
	case "num":
		if strings.Contains(c.Num, ".") {
			f, _ := strconv.ParseFloat(c.Num, 64)
			*out = append(*out, vl.Hex(c.Num), strconv.FormatUint(math.Float64bits(f), 10))
		}
	case "list":
		for _, x := range c.List {
			numPairs(x, out)
		}
	case "map":
		for _, kv := range c.Map {
			numPairs(kv[0], out)
			numPairs(kv[1], out)
		}
	}
}

func astPairs(c *parser.ConstValue, out *[]string) {
	v := c.TypedValue
	if v.Double != nil {
		t := strconv.FormatFloat(*v.Double, 'f', -1, 64)
		bits := strconv.FormatUint(math.Float64bits(*v.Double), 10)
		*out = append(*out, vl.Hex(t), bits)
		if !strings.Contains(t, ".") {
			*out = append(*out, vl.Hex(t+".0"), bits) // the text the dumper writes for an integral double
		}
	}
	for _, x := range v.List {
		astPairs(x, out)
	}
	for _, kv := range v.Map {
		astPairs(kv.Key, out)
		astPairs(kv.Value, out)
	}
}

func (r *runner) emitV(tag, text string, pairs []string) *parser.Thrift {
	impl := "other"
	a, err := safeParse("a.thrift", "const i32 c = "+text+"\n")
	if err == nil && len(a.Constants) == 1 && len(a.Constants[0].Annotations) == 0 && len(a.Typedefs)+len(a.Structs)+len(a.Enums)+len(a.Services) == 0 {
		impl = "ok " + cvCanon(a.Constants[0].Value)
	} else {
		a = nil
	}
	op := fmt.Sprintf("V %s %d", vl.Hex(text), len(pairs)/2)
	if len(pairs) > 0 {
		op += " " + strings.Join(pairs, " ")
	}
	r.out.Case(op, impl, impl != "other")
	r.out.Count("op:V/" + tag + "/" + strings.SplitN(impl, " ", 2)[0])
	return a
}

func (r *runner) readCVOp() {
	c := r.g.cv(0)
	text := r.rCVv(c)
	var pairs []string
	numPairs(c, &pairs)
	a := r.emitV("source", text, pairs)
	if a == nil {
		return
	}
	// the dumper's own rendering of the same value
	out, p := safeDump(a)
	if p || !strings.HasPrefix(out, "const i32 c = ") {
		return
	}
	// only where the round trip holds: otherwise the dumped text is damaged (stray quotes, `#` starting a
	// comment outside a literal) and no longer a constant value in the sense of the reader model
	if back, err := safeParse("a.thrift", out); err != nil || diffAST(a, back).path != "" {
		r.out.Count("op:V/dumped/skipped-damaged-text")
		return
	}
	t2 := strings.TrimSuffix(strings.TrimPrefix(out, "const i32 c = "), "\n\n")
	var p2 []string
	astPairs(a.Constants[0].Value, &p2)
	r.emitV("dumped", t2, p2)
}

func (r *runner) readAnnsOp() {
	rg := r.g.r
	sp := func() string { return rg.Pick([]string{"", "", " ", "\n", "\t "}) }
	s := sp() + "(" + sp()
	for i, n := 0, rg.Intn(5); i < n; i++ {
		s += rg.Pick(annKeys) + sp() + "=" + sp() + r.g.lit().String() + sp() + rg.Pick([]string{",", ";", "", " ", ", "}) + sp()
	}
	if rg.Chance(93) {
		s += ")"
	}
	s += rg.Pick([]string{"", "", " ", " ,", ";"})
	impl := "other"
	if a, err := safeParse("a.thrift", "struct S {}"+s+"\n"); err == nil && len(a.Structs) == 1 && len(a.Constants)+len(a.Typedefs) == 0 {
		var p []string
		for _, x := range a.Structs[0].Annotations {
			var vs []string
			for _, v := range x.Values {
				vs = append(vs, vl.Hex(v))
			}
			p = append(p, vl.Hex(x.Key)+"="+strings.Join(vs, ","))
		}
		impl = strings.TrimSpace("ok " + strings.Join(p, " "))
	}
	r.out.Case("P "+vl.Hex(s), impl, impl != "other")
	r.out.Count("op:P/" + strings.SplitN(impl, " ", 2)[0])
}

func run(repo, dir string, seed uint64, tier, trimmer string) error {
	r := &runner{g: &gen{r: vl.NewRng(seed)}, out: vl.NewOut(dir)}
	nProg, nHand, nR, nN, nA, nTrim := 2000, 2000, 3000, 3000, 600, 25
	if tier == "thorough" {
		nProg, nHand, nR, nN, nA, nTrim = 100000, 40000, 60000, 60000, 5000, 400
	}
	// fixed seeds of the search, always tried first: the shapes DESIGN §7 suspects and the minimal inputs of
	// every round-trip failure met so far (so that each run re-checks them whatever the seed)
	one, i32 := 1, Ty{Name: "i32"}
	_ = one
	cst := func(t string, v CV) Prog {
		return Prog{Defs: []Def{{Kind: "const", Name: "a", Ty: Ty{Name: t}, Val: v}}}
	}
	lit := func(q, raw string) CV { return CV{Kind: "lit", Lit: Lit{q, raw}} }
	svc := func(f Func) Prog {
		f.Name, f.Void = "b", true
		return Prog{Defs: []Def{{Kind: "service", Name: "a", Funcs: []Func{f}}}}
	}
	zero := CV{Kind: "num", Num: "0"}
	fixed := []Prog{
		cst("string", lit("'", `a\"b`)), cst("string", lit("'", `\"`)), cst("string", lit(`"`, "##34;")), cst("string", lit(`"`, "#OUTQUOTES")),
		cst("string", lit(`"`, "#OUTQUOTES#")), cst("string", lit(`"`, "")), cst("string", lit(`"`, `&amp; &#34; &lt; < # \\ 'x' \" &`)),
		{Defs: []Def{{Kind: "typedef", Name: "a", Ty: Ty{Name: "i32", Anns: []Ann{{"a", Lit{`"`, "&"}}}}}}},
		{Defs: []Def{{Kind: "typedef", Name: "a", Ty: Ty{Name: "list", V: &i32, Cpp: &Lit{`"`, "a"}}}}},
		svc(Func{Args: []Field{{Ty: i32, Name: "c", Def: &zero}}}),
		svc(Func{Args: []Field{{Ty: i32, Name: "c", Anns: []Ann{{"d", Lit{`"`, ""}}}}}}),
		svc(Func{HasThr: true, Throws: []Field{{Ty: i32, Name: "c", Anns: []Ann{{"d", Lit{`"`, ""}}}}}}),
		svc(Func{Args: []Field{{Ty: i32, Name: "c"}}, HasThr: true, Throws: []Field{{Ty: i32, Name: "d"}, {Ty: i32, Name: "e"}}}),
		svc(Func{HasThr: true, Throws: []Field{{Ty: i32, Name: "c", Def: &zero}}}),
		cst("i32", CV{Kind: "num", Num: "9223372036854775808.0"}), cst("double", CV{Kind: "num", Num: "1.0"}),
		{Defs: []Def{{Kind: "", Cm: "// empty"}}},
		{Incs: []Lit{{"'", `"`}}}, {Cpps: []Lit{{"'", `"`}}},
		{Defs: []Def{{Kind: "struct", Name: "S"}, {Kind: "service", Name: "V"}}},
	}
	for _, p := range fixed {
		src := p.Render()
		v := checkSrc(src, true)
		r.out.Count("program:fixed")
		if a, err := safeParse("a.thrift", src); err == nil {
			r.fileOp("fixed", a)
		}
		if v.Class != "" && v.Class != "gen-reject" {
			r.out.Count("oracle-fail:" + v.Class)
			r.report(p, v, true)
		}
	}
	for k := range r.out.Stats {
		if strings.HasPrefix(k, "shrunk:") {
			delete(r.out.Stats, k)
		}
	}
	for i := 0; i < nProg; i++ {
		r.program(i%2 == 0)
	}
	for i := 0; i < nHand; i++ {
		r.handBuilt()
	}
	for i := 0; i < nR; i++ {
		r.readLiteralOp()
	}
	for i := 0; i < nN; i++ {
		r.readNumberOp()
	}
	for i := 0; i < nA; i++ {
		r.regroupOp()
	}
	for i := 0; i < nR/2; i++ {
		r.readCVOp()
		r.readAnnsOp()
	}
	if trimmer != "" {
		for i, p := range fixedProjs() {
			if err := r.treeProject(trimmer, dir, 100000+i, p, "fixed"); err != nil {
				return err
			}
		}
		for i := 0; i < nTrim*2; i++ {
			raw := i%3 == 0
			tag := "random-dag"
			if raw {
				tag = "random-dag-raw"
			}
			if err := r.treeProject(trimmer, dir, 200000+i, r.g.genProj(raw), tag); err != nil {
				return err
			}
		}
		for i := 0; i < nTrim; i++ {
			if err := r.trimmerProject(trimmer, dir, i); err != nil {
				return err
			}
		}
	}
	r.out.Close()
	return nil
}

// ---------------------------------------------------------------- trimmer binary on a multi-file project

func (r *runner) trimmerProject(trimmer, dir string, idx int) error {
	root := filepath.Join(dir, fmt.Sprintf("proj%d", idx))
	defer os.RemoveAll(root)
	g := r.g
	// leaf files: only structs/enums/typedefs/consts; main: uses them through services
	files := map[string]string{}
	progs := map[string]Prog{}
	mkLeaf := func(prefix string) (Prog, []string, []string) {
		p := g.program(true)
		var keep []Def
		var structs, excs []string
		for _, d := range p.Defs {
			if d.Kind == "service" {
				continue
			}
			keep = append(keep, d)
			switch d.Kind {
			case "struct", "union":
				structs = append(structs, prefix+"."+d.Name)
			case "exception":
				excs = append(excs, prefix+"."+d.Name)
			}
		}
		p.Defs = keep
		return p, structs, excs
	}
	bProg, bStructs, bExcs := mkLeaf("b")
	cProg, cStructs, _ := mkLeaf("c")
	progs["b.thrift"], progs["sub/c.thrift"] = bProg, cProg
	files["b.thrift"] = bProg.Render()
	files["sub/c.thrift"] = cProg.Render()
	mp := g.program(true)
	mp.Incs = []Lit{{`"`, "b.thrift"}, {"'", "sub/c.thrift"}}
	ext := append(append([]string{}, bStructs...), cStructs...)
	// a service that uses included and local types so that trimming keeps them
	svc := Def{Kind: "service", Name: "Main"}
	for i := 0; i < 3; i++ {
		f := Func{Name: fmt.Sprintf("call%d", i), Ty: Ty{Name: "i32"}}
		if len(ext) > 0 {
			f.Ty = Ty{Name: g.r.Pick(ext)}
			id := 1
			f.Args = []Field{{ID: &id, Ty: Ty{Name: "list", V: &Ty{Name: g.r.Pick(ext)}}, Name: "req", Sep: ","}}
		}
		if len(bExcs) > 0 && g.r.Bool() {
			id := 1
			f.HasThr = true
			f.Throws = []Field{{ID: &id, Ty: Ty{Name: g.r.Pick(bExcs)}, Name: "e", Sep: ","}}
		}
		svc.Funcs = append(svc.Funcs, f)
	}
	mp.Defs = append(mp.Defs, svc)
	progs["main.thrift"] = mp
	files["main.thrift"] = mp.Render()
	return r.trimmerCheck(trimmer, root, files, progs)
}

// trimmerCheck writes the project, runs the same pipeline in-process and the binary with -r, and compares.
func (r *runner) trimmerCheck(trimmer, root string, files map[string]string, progs map[string]Prog) error {
	return r.trimmerCheckProj(trimmer, root, files, progs, nil)
}

func (r *runner) trimmerCheckProj(trimmer, root string, files map[string]string, progs map[string]Prog, proj *Proj) error {
	src := filepath.Join(root, "src")
	outDir := filepath.Join(root, "out")
	r.out.Count("trimmer:projects")
	tr, err := runTree(trimmer, root, files)
	if err != nil {
		return err
	}
	if tr.ast == nil {
		r.out.Count("trimmer:project-rejected-by-" + tr.reject)
		return nil
	}
	ast := tr.ast
	if !tr.exit {
		r.treeOp(tr)
		if tr.rawEqual {
			r.out.Count("tree:trimming-removed-nothing(raw)")
		}
		if len(tr.order) >= 4 {
			r.out.Count("tree:reachable-files>=4")
		}
	}
	// tree-level failures: the set of written files, the written tree as a whole
	for _, tf := range tr.fails {
		r.out.Count("oracle-fail:tree/" + tf.class)
		if r.out.Stats["tree-reported:"+tf.class] >= 3 {
			continue
		}
		r.out.Count("tree-reported:" + tf.class)
		in, key := files, "tree:"+tf.class+":"+vl.Hex(files["main.thrift"])
		detail := tf.detail
		if proj != nil {
			mp := r.shrinkTree(trimmer, root+"-shrink", *proj, tf.class)
			os.RemoveAll(root + "-shrink")
			in, _ = mp.render()
			key = "tree:" + tf.class + ":" + mp.graph()
			if t2, e := runTree(trimmer, root, in); e == nil && t2.ast != nil {
				for _, f2 := range t2.fails {
					if f2.class == tf.class {
						detail = f2.rel + ": " + f2.detail
						break
					}
				}
			}
		} else {
			detail = tf.rel + ": " + detail
		}
		r.out.Fail(vl.OracleFail{Key: key, What: "`trimmer -r` whole-tree dump: " + tf.class + " — " + detail, Input: in,
			Expected: "every file reachable from main.thrift through includes is written exactly once, nothing else is, and the written tree parses again",
			Observed: map[string]string{"class": tf.class, "detail": detail, "trimmer-output": clip(tr.log, 400)}})
	}
	if tr.exit || len(tr.fails) > 0 {
		if tr.exit {
			r.out.Count("trimmer:binary-failed")
		}
		return nil
	}
	r.out.Count("trimmer:runs")
	seen := map[*parser.Thrift]bool{}
	var walk func(a *parser.Thrift)
	nFail := 0
	kept := map[string]map[string]bool{} // file -> names of the definitions the trimmed AST still has
	fail := func(rel, class, detail, written string) {
		nFail++
		r.out.Count("oracle-fail:trimmer/" + class)
		// A written file equals the library's dump of the trimmed AST, so a re-reading failure is a failure of
		// the library on that AST: evaluate the property in-process on the source reduced to the kept
		// definitions and report that (shrunk, canonical key). Failures specific to the binary stay as they are.
		if p, ok := progs[rel]; ok && kept[rel] != nil && (class == "reparse-error" || strings.HasPrefix(class, "diff:")) {
			tp := p
			tp.Defs = nil
			for _, d := range p.Defs {
				if kept[rel][d.Name] {
					tp.Defs = append(tp.Defs, d)
				}
			}
			if v := checkSrc(tp.Render(), false); v.Class != "" && v.Class != "gen-reject" {
				r.report(tp, v, false)
				return
			}
		}
		if r.out.Stats["trimmer-reported:"+class] >= 3 {
			return
		}
		r.out.Count("trimmer-reported:" + class)
		r.out.Fail(vl.OracleFail{Key: "trimmer:" + class + ":" + vl.Hex(files[rel]), What: "file written by `trimmer -r`: " + class + " — " + detail,
			Input: files, Expected: "every written file parses back to the trimmed AST of its source file", Observed: map[string]string{"file": rel, "written": written, "detail": detail}})
	}
	walk = func(a *parser.Thrift) {
		if a == nil || seen[a] {
			return
		}
		seen[a] = true
		abs, _ := filepath.Abs(a.Filename)
		rel, rerr := filepath.Rel(src, abs)
		if rerr != nil {
			fail(a.Filename, "missing-file", rerr.Error(), "")
			return
		}
		wb, err := os.ReadFile(filepath.Join(outDir, rel))
		if err != nil {
			return // reported as a tree-level failure
		}
		r.out.Count("trimmer:files-reparsed")
		names := map[string]bool{}
		for _, x := range a.Typedefs {
			names[x.Alias] = true
		}
		for _, x := range a.Constants {
			names[x.Name] = true
		}
		for _, x := range a.Enums {
			names[x.Name] = true
		}
		for _, l := range [][]*parser.StructLike{a.Structs, a.Unions, a.Exceptions} {
			for _, x := range l {
				names[x.Name] = true
			}
		}
		for _, x := range a.Services {
			names[x.Name] = true
		}
		kept[rel] = names
		want, _ := safeDump(a)
		if want != string(wb) {
			fail(rel, "binary-differs-from-library", "written bytes differ from dump.DumpIDL of the trimmed AST", string(wb))
		}
		back, err := safeParse(rel, string(wb))
		if err != nil {
			fail(rel, "reparse-error", firstLine(err.Error()), string(wb))
		} else if d := diffAST(a, back); d.path != "" {
			fail(rel, "diff:"+classOf(d.path), d.detail, string(wb))
		}
		for _, inc := range a.Includes {
			walk(inc.Reference)
		}
	}
	walk(ast)
	// the written tree as a whole must be accepted again
	if nFail == 0 {
		back, err := parser.ParseFile(filepath.Join(outDir, "main.thrift"), nil, true)
		if err != nil {
			fail("main.thrift", "project-reparse-error", firstLine(err.Error()), "")
		} else if !accepted(back) {
			fail("main.thrift", "sem-reject", "written project rejected by CheckAll/ResolveSymbols", "")
		}
	}
	return nil
}

// ---------------------------------------------------------------- replay

func replay(repo, file, trimmer string) error {
	b, err := os.ReadFile(file)
	if err != nil {
		return err
	}
	var doc struct {
		Key   string                 `json:"key"`
		Input map[string]interface{} `json:"input"`
	}
	if err := json.Unmarshal(b, &doc); err != nil {
		return err
	}
	var fails []vl.OracleFail
	if src, ok := doc.Input["src"].(string); ok {
		sem, _ := doc.Input["semantic"].(bool)
		v := checkSrc(src, sem)
		if v.Class != "" {
			fails = append(fails, vl.OracleFail{Key: doc.Key, What: "dump/parse round trip: " + v.Class + " — " + v.Detail, Input: doc.Input,
				Expected: "round trip equal", Observed: map[string]string{"class": v.Class, "detail": v.Detail, "dumped": v.Dumped}})
		}
	} else {
		// a multi-file project for the trimmer binary
		if trimmer == "" {
			return fmt.Errorf("replay of a trimmer project needs -trimmer")
		}
		files := map[string]string{}
		for k, v := range doc.Input {
			if s, ok := v.(string); ok {
				files[k] = s
			}
		}
		dir, _ := os.MkdirTemp("", "c17replay")
		defer os.RemoveAll(dir)
		r := &runner{g: &gen{r: vl.NewRng(1)}, out: vl.NewOut(dir)}
		if err := r.trimmerCheck(trimmer, filepath.Join(dir, "proj"), files, map[string]Prog{}); err != nil {
			return err
		}
		r.out.Close()
		for _, f := range r.out.Oracle {
			f.Key = doc.Key
			fails = append(fails, f)
			break
		}
	}
	js, _ := json.Marshal(fails)
	if fails == nil {
		js = []byte("[]")
	}
	fmt.Println(string(js))
	return nil
}

func main() {
	repo := flag.String("repo", "/repo", "")
	dir := flag.String("dir", ".", "")
	seed := flag.Uint64("seed", 1, "")
	tier := flag.String("tier", "quick", "")
	file := flag.String("file", "", "")
	trimmer := flag.String("trimmer", "", "path of the built tool/trimmer binary")
	if len(os.Args) < 2 {
		fmt.Fprintln(os.Stderr, "usage: c17 extract|run|replay [flags]")
		os.Exit(3)
	}
	flag.CommandLine.Parse(os.Args[2:])
	var err error
	switch os.Args[1] {
	case "extract":
		err = extract(*repo)
	case "run":
		err = run(*repo, *dir, *seed, *tier, *trimmer)
	case "replay":
		err = replay(*repo, *file, *trimmer)
	default:
		err = fmt.Errorf("usage: c17 extract|run|replay")
	}
	if err != nil {
		fmt.Fprintln(os.Stderr, "c17:", err)
		os.Exit(3)
	}
}
