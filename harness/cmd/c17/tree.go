package main

// Multi-file projects with include DAGs for `trimmer -r` (recurseDump): generation, the tree-level oracle
// (every file reachable from the main file is written, nothing else is, the written tree parses again),
// the T correspondence op for the traversal model, and shrinking of failing projects to a canonical graph.

import (
	"fmt"
	"os"
	"os/exec"
	"path/filepath"
	"sort"
	"strings"

	"github.com/cloudwego/thriftgo/parser"
	"github.com/cloudwego/thriftgo/tool/trimmer/trim"
)

type PFile struct {
	Path string // relative to the source root; file 0 is main.thrift
	Incs []int  // included files, in the order of the include lines
	Prog Prog   // definitions (Prog.Incs is filled by render)
}

type Proj struct{ Files []PFile }

func alias(path string) string { return strings.TrimSuffix(filepath.Base(path), ".thrift") }

func (p Proj) render() (files map[string]string, progs map[string]Prog) {
	files, progs = map[string]string{}, map[string]Prog{}
	for _, f := range p.Files {
		q := f.Prog
		q.Incs = nil
		for k, j := range f.Incs {
			rel, _ := filepath.Rel(filepath.Dir(f.Path), p.Files[j].Path)
			quote := `"`
			if k%2 == 1 {
				quote = "'"
			}
			q.Incs = append(q.Incs, Lit{quote, filepath.ToSlash(rel)})
		}
		files[f.Path], progs[f.Path] = q.Render(), q
	}
	return
}

// graph: "main>a,b;a>c;b>c,d" over the paths without ".thrift"
func (p Proj) graph() string {
	var parts []string
	for _, f := range p.Files {
		var cs []string
		for _, j := range f.Incs {
			cs = append(cs, strings.TrimSuffix(p.Files[j].Path, ".thrift"))
		}
		parts = append(parts, strings.TrimSuffix(f.Path, ".thrift")+">"+strings.Join(cs, ","))
	}
	return strings.Join(parts, ";")
}

func keepEnum() Def {
	z := "0"
	return Def{Kind: "enum", Name: "Keep", EVs: []EV{{Name: "A", Val: &z}}}
}

// skeleton: every file only has what keeps its include alive (an enum), main has an empty service
func skeleton(paths []string, incs [][]int) Proj {
	var p Proj
	for i, path := range paths {
		f := PFile{Path: path, Incs: incs[i]}
		if i == 0 {
			f.Prog = Prog{Defs: []Def{{Kind: "service", Name: "Main"}}}
		} else {
			f.Prog = Prog{Defs: []Def{keepEnum()}}
		}
		p.Files = append(p.Files, f)
	}
	return p
}

func (g *gen) shuffle(a []int) {
	for i := len(a) - 1; i > 0; i-- {
		j := g.r.Intn(i + 1)
		a[i], a[j] = a[j], a[i]
	}
}

// genProj: a random include DAG (file i includes only files > i, every file is reachable, include order shuffled).
// raw: no struct-likes at all, so trimming removes nothing and the written tree must equal the source tree.
func (g *gen) genProj(raw bool) Proj {
	n := 3 + g.r.Intn(5)
	dirs := []string{"", "", "sub/", "sub/deep/", "model/"}
	paths := []string{"main.thrift"}
	for i := 1; i < n; i++ {
		paths = append(paths, fmt.Sprintf("%sf%d.thrift", g.r.Pick(dirs), i))
	}
	incs := make([][]int, n)
	has := func(a []int, x int) bool {
		for _, y := range a {
			if y == x {
				return true
			}
		}
		return false
	}
	for j := 1; j < n; j++ {
		par := g.r.Intn(j)
		incs[par] = append(incs[par], j)
		for i := 0; i < j; i++ {
			if !has(incs[i], j) && g.r.Chance(35) {
				incs[i] = append(incs[i], j)
			}
		}
	}
	for i := range incs {
		g.shuffle(incs[i])
	}
	var p Proj
	structsOf := make([][]string, n)
	typedefsOf := make([][]string, n)
	for i := n - 1; i >= 0; i-- {
		var defs []Def
		if raw {
			g.n, g.structs, g.excs, g.tdefs, g.svcs, g.enums = 0, nil, nil, nil, nil, map[string][]string{}
			g.pHaz, g.pTyAnn, g.pArgExt, g.pCpp, g.pBigDbl = 0, 10, 0, 0, 0
			defs = append(defs, keepEnum())
			for k, m := 0, g.r.Intn(3); k < m; k++ {
				t := Ty{Name: g.r.Pick(baseTypes)}
				defs = append(defs, Def{Kind: "const", Name: g.name("c"), Ty: t, Val: g.cvFor(t, 0), Anns: g.anns(20)})
			}
			for k, m := 0, 1+g.r.Intn(2); k < m; k++ {
				d := Def{Kind: "typedef", Name: g.name("T"), Ty: Ty{Name: g.r.Pick(baseTypes)}, Anns: g.anns(20), Cm: g.comment()}
				defs = append(defs, d)
				typedefsOf[i] = append(typedefsOf[i], alias(paths[i])+"."+d.Name)
			}
		} else {
			q := g.program(true)
			for _, d := range q.Defs {
				if d.Kind == "service" {
					continue
				}
				defs = append(defs, d)
				if d.Kind == "struct" || d.Kind == "union" {
					structsOf[i] = append(structsOf[i], alias(paths[i])+"."+d.Name)
				}
			}
			if i > 0 && g.r.Chance(80) {
				defs = append(defs, keepEnum())
			}
		}
		if i == 0 {
			// a service that uses types of the directly included files
			var ext []string
			for _, j := range incs[0] {
				ext = append(ext, structsOf[j]...)
				ext = append(ext, typedefsOf[j]...)
			}
			svc := Def{Kind: "service", Name: "Main"}
			for k := 0; k < 3; k++ {
				f := Func{Name: fmt.Sprintf("call%d", k), Ty: Ty{Name: "i32"}}
				if len(ext) > 0 {
					f.Ty = Ty{Name: g.r.Pick(ext)}
					id := 1
					f.Args = []Field{{ID: &id, Ty: Ty{Name: "list", V: &Ty{Name: g.r.Pick(ext)}}, Name: "req"}}
				}
				svc.Funcs = append(svc.Funcs, f)
			}
			defs = append(defs, svc)
		} else if !raw && len(incs[i]) > 0 {
			// a struct that uses one struct of every included file that has one
			link := Def{Kind: "struct", Name: "Link"}
			for k, j := range incs[i] {
				if len(structsOf[j]) > 0 {
					id := k + 1
					link.Fields = append(link.Fields, Field{ID: &id, Ty: Ty{Name: g.r.Pick(structsOf[j])}, Name: fmt.Sprintf("l%d", k)})
				}
			}
			defs = append(defs, link)
			structsOf[i] = append(structsOf[i], alias(paths[i])+".Link")
		}
		p.Files = append([]PFile{{Path: paths[i], Incs: incs[i], Prog: Prog{Defs: defs}}}, p.Files...)
	}
	return p
}

type treeFail struct{ rel, class, detail, written string }

type treeRun struct {
	ast      *parser.Thrift            // trimmed AST of main (in-process pipeline), nil if the project is not accepted
	reject   string                    // why the project is not a valid input
	log      string                    // output of the binary
	exit     bool                      // the binary exited non-zero
	fails    []treeFail                // tree-level failures
	reach    map[string]*parser.Thrift // rel path -> trimmed AST, for every file reachable from main
	order    []string                  // reachable files in first-visit order
	written  []string                  // files found below the output directory
	rawEqual bool                      // trimming removed nothing
}

func writeTree(dir string, files map[string]string) error {
	for n, s := range files {
		p := filepath.Join(dir, n)
		if err := os.MkdirAll(filepath.Dir(p), 0o755); err != nil {
			return err
		}
		if err := os.WriteFile(p, []byte(s), 0o644); err != nil {
			return err
		}
	}
	return nil
}

// runTree: write the project, run the trimmer's pipeline in-process (parse, check, resolve, trim) and the binary
// with -r, then evaluate the tree-level property: written file set = reachable file set, the written tree parses.
func runTree(trimmer, root string, files map[string]string) (*treeRun, error) {
	os.RemoveAll(root)
	src, outDir := filepath.Join(root, "src"), filepath.Join(root, "out")
	if err := writeTree(src, files); err != nil {
		return nil, err
	}
	os.MkdirAll(outDir, 0o755)
	t := &treeRun{reach: map[string]*parser.Thrift{}}
	mainPath := filepath.Join(src, "main.thrift")
	raw, err := parser.ParseFile(mainPath, nil, true)
	if err != nil {
		t.reject = "parser"
		return t, nil
	}
	ast, _ := parser.ParseFile(mainPath, nil, true)
	if !accepted(ast) {
		t.reject = "checker"
		return t, nil
	}
	if _, err := trim.TrimAST(&trim.TrimASTArg{Ast: ast}); err != nil {
		t.reject = "trim"
		return t, nil
	}
	t.ast = ast
	cmd := exec.Command(trimmer, "-r", src, "-o", outDir, mainPath)
	cmd.Dir = root
	log, err := cmd.CombinedOutput()
	if _, isExit := err.(*exec.ExitError); err != nil && !isExit {
		return nil, fmt.Errorf("cannot run the trimmer binary: %v", err)
	}
	t.log = string(log)
	if err != nil {
		t.exit = true
		t.fails = append(t.fails, treeFail{"main.thrift", "trimmer-exit", firstLine(t.log), ""})
		return t, nil
	}
	seen := map[*parser.Thrift]bool{}
	var walk func(a *parser.Thrift)
	walk = func(a *parser.Thrift) {
		if a == nil || seen[a] {
			return
		}
		seen[a] = true
		abs, _ := filepath.Abs(a.Filename)
		rel, rerr := filepath.Rel(src, abs)
		if rerr != nil {
			rel = a.Filename
		}
		t.reach[rel] = a
		t.order = append(t.order, rel)
		for _, inc := range a.Includes {
			walk(inc.Reference)
		}
	}
	walk(ast)
	filepath.Walk(outDir, func(p string, info os.FileInfo, err error) error {
		if err == nil && !info.IsDir() {
			rel, _ := filepath.Rel(outDir, p)
			t.written = append(t.written, rel)
		}
		return nil
	})
	sort.Strings(t.written)
	isWritten := map[string]bool{}
	for _, w := range t.written {
		isWritten[w] = true
		if t.reach[w] == nil {
			t.fails = append(t.fails, treeFail{w, "extra-file", "written but not reachable from the main file through the includes of the dumped ASTs", ""})
		}
	}
	for _, rel := range t.order {
		if !isWritten[rel] {
			t.fails = append(t.fails, treeFail{rel, "missing-file", "reachable from the main file through includes, but not written by `trimmer -r`", ""})
		}
	}
	// trimming removed nothing? (then the written tree must equal the source tree)
	t.rawEqual = true
	seenR := map[*parser.Thrift]bool{}
	var cmp func(a, b *parser.Thrift)
	cmp = func(a, b *parser.Thrift) {
		if a == nil || b == nil || seenR[a] {
			return
		}
		seenR[a] = true
		if diffAST(a, b).path != "" || len(a.Includes) != len(b.Includes) {
			t.rawEqual = false
			return
		}
		for i := range a.Includes {
			cmp(a.Includes[i].Reference, b.Includes[i].Reference)
		}
	}
	cmp(raw, ast)
	if len(t.fails) == 0 {
		if _, err := parser.ParseFile(filepath.Join(outDir, "main.thrift"), nil, true); err != nil {
			// only a tree-level failure if every single file parses on its own (else it is a file-level one)
			single := true
			for _, rel := range t.order {
				b, _ := os.ReadFile(filepath.Join(outDir, rel))
				if _, e := safeParse(rel, string(b)); e != nil {
					single = false
				}
			}
			if single {
				t.fails = append(t.fails, treeFail{"main.thrift", "tree-reparse-error", firstLine(err.Error()), ""})
			}
		}
	}
	return t, nil
}

// treeOp: the include graph of the dumped (trimmed) ASTs and the set of files the binary wrote, for the
// traversal model: T n (k c1..ck)*n  ->  sorted indices of written files
func (r *runner) treeOp(t *treeRun) {
	idx := map[string]int{}
	for i, rel := range t.order {
		idx[rel] = i
	}
	toks := []string{"T", fmt.Sprint(len(t.order))}
	for _, rel := range t.order {
		a := t.reach[rel]
		var cs []string
		for _, inc := range a.Includes {
			if inc.Reference == nil {
				continue
			}
			for rel2, b := range t.reach {
				if b == inc.Reference {
					cs = append(cs, fmt.Sprint(idx[rel2]))
				}
			}
		}
		toks = append(toks, fmt.Sprint(len(cs)))
		toks = append(toks, cs...)
	}
	var w []string
	extra := 0
	for _, rel := range t.written {
		if i, ok := idx[rel]; ok {
			w = append(w, fmt.Sprintf("%04d", i))
		} else {
			extra++
		}
	}
	sort.Strings(w)
	for i := range w {
		w[i] = strings.TrimLeft(w[i], "0")
		if w[i] == "" {
			w[i] = "0"
		}
	}
	impl := "ok " + strings.Join(w, " ")
	if extra > 0 {
		impl += fmt.Sprintf(" extra=%d", extra)
	}
	r.out.Case(strings.Join(toks, " "), strings.TrimSpace(impl), len(t.order) >= 3)
	r.out.Count("op:T")
}

// shrinkTree: minimise a project that fails at tree level: bodies reduced to the skeleton, then includes and
// files removed, then directories flattened, as long as the same class of failure remains.
func (r *runner) shrinkTree(trimmer, root string, p Proj, class string) Proj {
	still := func(q Proj) bool {
		files, _ := q.render()
		t, err := runTree(trimmer, root, files)
		if err != nil || t.ast == nil {
			return false
		}
		for _, f := range t.fails {
			if f.class == class {
				return true
			}
		}
		return false
	}
	paths := func(q Proj) (ps []string, incs [][]int) {
		for _, f := range q.Files {
			ps = append(ps, f.Path)
			incs = append(incs, append([]int{}, f.Incs...))
		}
		return
	}
	if ps, incs := paths(p); still(skeleton(ps, incs)) {
		p = skeleton(ps, incs)
	}
	for changed := true; changed; {
		changed = false
		// remove a file (and the includes of it)
		for j := len(p.Files) - 1; j >= 1 && !changed; j-- {
			var q Proj
			for i, f := range p.Files {
				if i == j {
					continue
				}
				g := PFile{Path: f.Path, Prog: f.Prog}
				for _, c := range f.Incs {
					if c == j {
						continue
					}
					if c > j {
						c--
					}
					g.Incs = append(g.Incs, c)
				}
				q.Files = append(q.Files, g)
			}
			if still(q) {
				p, changed = q, true
			}
		}
		// remove one include
		for i := 0; i < len(p.Files) && !changed; i++ {
			for k := range p.Files[i].Incs {
				q := Proj{Files: append([]PFile{}, p.Files...)}
				f := q.Files[i]
				f.Incs = append(append([]int{}, f.Incs[:k]...), f.Incs[k+1:]...)
				q.Files[i] = f
				if still(q) {
					p, changed = q, true
					break
				}
			}
		}
	}
	// canonical names; directories only where they matter
	names := []string{"main", "a", "b", "c", "d", "e", "f", "g", "h"}
	for i := range p.Files {
		if i == 0 || i >= len(names) {
			continue
		}
		q := Proj{Files: append([]PFile{}, p.Files...)}
		f := q.Files[i]
		f.Path = names[i] + ".thrift"
		q.Files[i] = f
		if still(q) {
			p = q
			continue
		}
		f.Path = filepath.Dir(p.Files[i].Path) + "/" + names[i] + ".thrift"
		q.Files[i] = f
		if still(q) {
			p = q
		}
	}
	return p
}

// fixed projects tried first in every run: shapes in which an include that was already dumped precedes a new one
func fixedProjs() []Proj {
	return []Proj{
		skeleton([]string{"main.thrift", "a.thrift", "b.thrift", "common.thrift", "extra.thrift"}, [][]int{{1, 2}, {3}, {3, 4}, {}, {}}),
		skeleton([]string{"main.thrift", "api/a.thrift", "api/b.thrift", "model/common.thrift", "model/money.thrift"}, [][]int{{1, 2}, {3}, {3, 4}, {}, {}}),
		skeleton([]string{"main.thrift", "a.thrift", "b.thrift", "c.thrift"}, [][]int{{1, 2, 3}, {2}, {3}, {}}),
		skeleton([]string{"main.thrift", "a.thrift", "sub/b.thrift", "sub/deep/c.thrift", "d.thrift"}, [][]int{{1, 2}, {3}, {3, 4}, {}, {}}),
	}
}

func (r *runner) treeProject(trimmer, dir string, idx int, p Proj, tag string) error {
	root := filepath.Join(dir, fmt.Sprintf("proj%d", idx))
	defer os.RemoveAll(root)
	files, progs := p.render()
	r.out.Count("tree:" + tag)
	if len(p.Files) >= 4 {
		r.out.Count("tree:files>=4")
	}
	for _, f := range p.Files {
		if strings.Contains(f.Path, "/") {
			r.out.Count("tree:has-subdirectory")
			break
		}
	}
	return r.trimmerCheckProj(trimmer, root, files, progs, &p)
}
