// c07plugin: a recording thriftgo plugin for property C07. It reads the request thriftgo sends on
// stdin, appends "<sha256 of the raw bytes> <length> <sha256 of a canonical re-encoding>" to the file
// named by C07_RECORD, and answers with an empty response.
//
// The canonical re-encoding decodes the request with the repository's own codec and prints it with
// every map sorted; it tells apart "same request, different byte order" from "different request".
package main

import (
	"crypto/sha256"
	"encoding/hex"
	"encoding/json"
	"fmt"
	"io"
	"os"
	"path/filepath"

	"github.com/cloudwego/thriftgo/plugin"
)

func main() {
	data, err := io.ReadAll(os.Stdin)
	if err != nil {
		fmt.Fprintln(os.Stderr, "c07plugin: read:", err)
		os.Exit(1)
	}
	h := sha256.Sum256(data)
	canon := "-"
	if req, err := plugin.UnmarshalRequest(data); err == nil {
		// encoding/json sorts map keys; the AST is a tree once includes are cut at file names.
		if b, err := json.Marshal(req); err == nil {
			c := sha256.Sum256(b)
			canon = hex.EncodeToString(c[:])
		}
	}
	if p := os.Getenv("C07_RECORD"); p != "" {
		f, err := os.OpenFile(p, os.O_APPEND|os.O_CREATE|os.O_WRONLY, 0o644)
		if err != nil {
			fmt.Fprintln(os.Stderr, "c07plugin: record:", err)
			os.Exit(1)
		}
		fmt.Fprintf(f, "%s %d %s\n", hex.EncodeToString(h[:]), len(data), canon)
		f.Close()
	}
	if p := os.Getenv("C07_DUMP"); p != "" {
		os.WriteFile(p, data, 0o644)
	}
	res := &plugin.Response{}
	if rel := os.Getenv("C07_PATCH_FILE"); rel != "" {
		// "nested insertion": the text put at `eof` declares an insertion point of its own (`helpers`) and
		// mentions two the file already has; further patches target `helpers`, `bof` and `imports`. thriftgo
		// replaces all points of a file in one pass, so inserted text is never scanned again.
		if req, err := plugin.UnmarshalRequest(data); err == nil {
			name := filepath.Join(req.OutputPath, rel)
			mk := func(point, text string) *plugin.Generated {
				n, p := name, point
				return &plugin.Generated{Name: &n, InsertionPoint: &p, Content: text}
			}
			res.Contents = []*plugin.Generated{
				mk("eof", "\n// section added by c07plugin: "+plugin.InsertionPoint("helpers")+" "+plugin.InsertionPoint("bof")+" "+plugin.InsertionPoint("imports")+"\n"),
				mk("helpers", "/* helpers "+plugin.InsertionPoint("eof")+" */"),
				mk("bof", "// top of file, see "+plugin.InsertionPoint("helpers")+"\n"),
				mk("imports", "\n\t// no extra imports "+plugin.InsertionPoint("bof")+"\n"),
			}
		}
	}
	out, err := plugin.MarshalResponse(res)
	if err != nil {
		fmt.Fprintln(os.Stderr, "c07plugin: marshal:", err)
		os.Exit(1)
	}
	os.Stdout.Write(out)
}
