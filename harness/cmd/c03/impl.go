// Observation of the real parser: token list and node tree of the generated PEG parser (read through
// exported methods + read-only reflection), and the AST of parser.ParseString dumped field by field.
package main

import (
	"fmt"
	"math"
	"reflect"
	"strconv"
	"strings"
	"time"

	"github.com/cloudwego/thriftgo/parser"

	"verifharness/internal/vl"
)

const hashM = 1099511627689

func mix(h, x uint64) uint64 { return (h*1000003 + x + 1) % hashM }

// ruleIndex maps the rule names of thrift.peg.go (token32.String()) to the 0-based index in thrift.peg.
type ruleIndex struct {
	byName map[string]int
	byPeg  map[uint64]int
	n      int
}

func newRuleIndex(g *grammar) *ruleIndex {
	ri := &ruleIndex{byName: map[string]int{}, byPeg: map[uint64]int{}, n: len(g.rules)}
	for i, r := range g.rules {
		ri.byName[r.name] = i
	}
	ri.byName["PegText"] = len(g.rules)
	return ri
}

// idx resolves a pegRule value through the name the generated parser prints for it; a name the .peg
// source does not define maps to a distinct large id (the tie then disagrees).
func (ri *ruleIndex) idx(tok reflect.Value) uint64 {
	pr := tok.Field(0).Uint()
	if v, ok := ri.byPeg[pr]; ok {
		return uint64(v)
	}
	s := tok.Addr().MethodByName("String").Call(nil)[0].String()
	s = strings.TrimPrefix(s, "\x1B[34m")
	name := s
	if i := strings.Index(s, "\x1B[m"); i >= 0 {
		name = s[:i]
	}
	v, ok := ri.byName[name]
	if !ok {
		v = 500000 + int(pr)
	}
	ri.byPeg[pr] = v
	return uint64(v)
}

type pegObs struct {
	ok     bool
	panic  string
	tokN   int
	tokH   uint64
	nodeN  int
	nodeH  uint64
	millis int64
	// parseMillis: wall-clock of p.Init(); p.Parse() alone (without the harness's own reflection walk)
	parseMillis int64
}

// observePeg runs the generated parser alone: p.Init(); p.Parse(); tokens; AST().
func observePeg(ri *ruleIndex, s string) (o pegObs) {
	t0 := time.Now()
	defer func() {
		o.millis = time.Since(t0).Milliseconds()
		if r := recover(); r != nil {
			o.ok = false
			o.panic = fmt.Sprint(r)
		}
	}()
	p := &parser.ThriftIDL{Buffer: s}
	p.Init()
	err := p.Parse()
	o.parseMillis = time.Since(t0).Milliseconds()
	if err != nil {
		return
	}
	o.ok = true
	toks := reflect.ValueOf(p.Tokens())
	h := uint64(7)
	// reflect.ValueOf of a slice: elements are addressable
	for i := 0; i < toks.Len(); i++ {
		t := toks.Index(i)
		h = mix(mix(mix(h, ri.idx(t)), t.Field(1).Uint()), t.Field(2).Uint())
	}
	o.tokN, o.tokH = toks.Len(), h
	root := reflect.ValueOf(p.AST())
	nh, nc := uint64(7), 0
	// iterative pre-order walk over up/next (the tree can be 10^4 deep)
	type frame struct {
		n reflect.Value
		d uint64
	}
	stack := []frame{{root, 0}}
	for len(stack) > 0 {
		f := stack[len(stack)-1]
		stack = stack[:len(stack)-1]
		n, d := f.n, f.d
		for !n.IsNil() {
			e := n.Elem()
			tok := e.Field(0)
			nh = mix(mix(mix(mix(nh, d), ri.idx(tok)), tok.Field(1).Uint()), tok.Field(2).Uint())
			nc++
			up, next := e.Field(1), e.Field(2)
			if !up.IsNil() {
				// visit children first, then continue with next
				stack = append(stack, frame{next, d})
				n, d = up, d+1
				continue
			}
			n = next
		}
	}
	o.nodeN, o.nodeH = nc, nh
	return
}

// ---------------------------------------------------------------- AST dump

// dumpNC blanks every ReservedComments field of the dump ("equal modulo comments"); single-threaded use.
var dumpNC bool

func cmHex(s string) string {
	if dumpNC {
		return "-"
	}
	return vl.Hex(s)
}

func thriftStrNC(t *parser.Thrift) string {
	dumpNC = true
	defer func() { dumpNC = false }()
	return thriftStr(t)
}

func annsStr(a parser.Annotations) string {
	var sb strings.Builder
	fmt.Fprintf(&sb, "A%d", len(a))
	for _, x := range a {
		fmt.Fprintf(&sb, " %s L%d", vl.Hex(x.Key), len(x.Values))
		for _, v := range x.Values {
			sb.WriteString(" " + vl.Hex(v))
		}
	}
	return sb.String()
}

func tyStr(t *parser.Type) string {
	if t == nil {
		return "_"
	}
	return fmt.Sprintf("t %s %s %s %s %s", vl.Hex(t.Name), tyStr(t.KeyType), tyStr(t.ValueType), vl.Hex(t.CppType), annsStr(t.Annotations))
}

func cvStr(v *parser.ConstValue) string {
	if v == nil {
		return "~"
	}
	tv := v.TypedValue
	switch v.Type {
	case parser.ConstType_ConstDouble:
		return fmt.Sprintf("F%016x", math.Float64bits(*tv.Double))
	case parser.ConstType_ConstInt:
		return fmt.Sprintf("i%d", *tv.Int)
	case parser.ConstType_ConstLiteral:
		return "l" + vl.Hex(*tv.Literal)
	case parser.ConstType_ConstIdentifier:
		return "n" + vl.Hex(*tv.Identifier)
	case parser.ConstType_ConstList:
		var sb strings.Builder
		fmt.Fprintf(&sb, "[%d", len(tv.List))
		for _, x := range tv.List {
			sb.WriteString(" " + cvStr(x))
		}
		return sb.String()
	case parser.ConstType_ConstMap:
		var sb strings.Builder
		fmt.Fprintf(&sb, "{%d", len(tv.Map))
		for _, x := range tv.Map {
			sb.WriteString(" " + cvStr(x.Key) + " " + cvStr(x.Value))
		}
		return sb.String()
	}
	return "?"
}

func fieldStr(f *parser.Field) string {
	return fmt.Sprintf("f%d %s %d %s %s %s %s", f.ID, vl.Hex(f.Name), int(f.Requiredness), tyStr(f.Type), cvStr(f.Default), annsStr(f.Annotations), cmHex(f.ReservedComments))
}

func fieldsStr(tag string, fs []*parser.Field) string {
	var sb strings.Builder
	fmt.Fprintf(&sb, "%s%d", tag, len(fs))
	for _, f := range fs {
		sb.WriteString(" " + fieldStr(f))
	}
	return sb.String()
}

func slikeStr(s *parser.StructLike) string {
	cat := map[string]int{"struct": 0, "union": 1, "exception": 2}[s.Category]
	return fmt.Sprintf("sl %d %s %s %s %s", cat, vl.Hex(s.Name), fieldsStr("F", s.Fields), annsStr(s.Annotations), cmHex(s.ReservedComments))
}

func fnStr(f *parser.Function) string {
	return fmt.Sprintf("fn %s %s %s %s %s %s %s %s", vl.Hex(f.Name), vl.B(f.Oneway), vl.B(f.Void), tyStr(f.FunctionType),
		fieldsStr("G", f.Arguments), fieldsStr("W", f.Throws), annsStr(f.Annotations), cmHex(f.ReservedComments))
}

func thriftStr(t *parser.Thrift) string {
	var parts []string
	lst := func(tag string, n int, f func(i int) string) {
		var sb strings.Builder
		fmt.Fprintf(&sb, "%s%d", tag, n)
		for i := 0; i < n; i++ {
			sb.WriteString(" " + f(i))
		}
		parts = append(parts, sb.String())
	}
	lst("I", len(t.Includes), func(i int) string { return vl.Hex(t.Includes[i].Path) })
	lst("P", len(t.CppIncludes), func(i int) string { return vl.Hex(t.CppIncludes[i]) })
	lst("N", len(t.Namespaces), func(i int) string {
		n := t.Namespaces[i]
		return fmt.Sprintf("%s %s %s", vl.Hex(n.Language), vl.Hex(n.Name), annsStr(n.Annotations))
	})
	lst("T", len(t.Typedefs), func(i int) string {
		d := t.Typedefs[i]
		return fmt.Sprintf("%s %s %s %s", tyStr(d.Type), vl.Hex(d.Alias), annsStr(d.Annotations), cmHex(d.ReservedComments))
	})
	lst("C", len(t.Constants), func(i int) string {
		c := t.Constants[i]
		return fmt.Sprintf("%s %s %s %s %s", vl.Hex(c.Name), tyStr(c.Type), cvStr(c.Value), annsStr(c.Annotations), cmHex(c.ReservedComments))
	})
	lst("E", len(t.Enums), func(i int) string {
		e := t.Enums[i]
		var sb strings.Builder
		fmt.Fprintf(&sb, "%s V%d", vl.Hex(e.Name), len(e.Values))
		for _, v := range e.Values {
			fmt.Fprintf(&sb, " %s %d %s %s", vl.Hex(v.Name), v.Value, annsStr(v.Annotations), cmHex(v.ReservedComments))
		}
		fmt.Fprintf(&sb, " %s %s", annsStr(e.Annotations), cmHex(e.ReservedComments))
		return sb.String()
	})
	lst("S", len(t.Structs), func(i int) string { return slikeStr(t.Structs[i]) })
	lst("U", len(t.Unions), func(i int) string { return slikeStr(t.Unions[i]) })
	lst("X", len(t.Exceptions), func(i int) string { return slikeStr(t.Exceptions[i]) })
	lst("V", len(t.Services), func(i int) string {
		s := t.Services[i]
		var sb strings.Builder
		fmt.Fprintf(&sb, "sv %s %s F%d", vl.Hex(s.Name), vl.Hex(s.Extends), len(s.Functions))
		for _, f := range s.Functions {
			sb.WriteString(" " + fnStr(f))
		}
		fmt.Fprintf(&sb, " %s %s", annsStr(s.Annotations), cmHex(s.ReservedComments))
		return sb.String()
	})
	return strings.Join(parts, " ")
}

type astObs struct {
	ast    *parser.Thrift
	err    error
	panic  string
	millis int64
}

func observeAST(s string) (o astObs) {
	t0 := time.Now()
	defer func() {
		o.millis = time.Since(t0).Milliseconds()
		if r := recover(); r != nil {
			o.panic = fmt.Sprint(r)
			o.ast = nil
		}
	}()
	o.ast, o.err = parser.ParseString("main.thrift", s)
	return
}

// implLine is the implementation's answer to op `P <flags> <hex>`.
func implLine(ri *ruleIndex, s string, walk bool) (string, pegObs, astObs) {
	po := observePeg(ri, s)
	if po.panic != "" {
		return "pegpanic", po, astObs{}
	}
	if !po.ok {
		return "fail", po, astObs{}
	}
	head := fmt.Sprintf("T%d:%d N%d:%d", po.tokN, po.tokH, po.nodeN, po.nodeH)
	if !walk {
		return head, po, astObs{}
	}
	ao := observeAST(s)
	switch {
	case ao.panic != "":
		return head + " panic", po, ao
	case ao.err != nil:
		return head + " err", po, ao
	}
	return head + " ok " + thriftStr(ao.ast), po, ao
}

// fixFloats rewrites the model's `D<hex text>` tokens (the argument of strconv.ParseFloat, which the
// model takes as a parameter) into the `F<bits>` form using the real strconv.
func fixFloats(line string) string {
	if !strings.Contains(line, " D") {
		return line
	}
	toks := strings.Split(line, " ")
	for i, t := range toks {
		if len(t) >= 2 && t[0] == 'D' && i > 0 {
			f, _ := strconv.ParseFloat(vl.UnHex(t[1:]), 64)
			toks[i] = fmt.Sprintf("F%016x", math.Float64bits(f))
		}
	}
	return strings.Join(toks, " ")
}
