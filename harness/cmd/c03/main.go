// c03: translator (extract), correspondence + oracle harness (run), replay, and helpers for property C03
// (the parser is total and the AST is faithful to the source text).
package main

import (
	"bufio"
	"encoding/json"
	"flag"
	"fmt"
	"os"
	"path/filepath"

	"verifharness/internal/vl"
)

func loadGrammar(repo string) (*grammar, error) {
	b, err := os.ReadFile(filepath.Join(repo, "parser", "thrift.peg"))
	if err != nil {
		return nil, err
	}
	return readPeg(string(b))
}

func opLine(s string, walk bool) string {
	f := "0"
	if walk {
		f = "1"
	}
	return "P " + f + " " + vl.Hex(s)
}

func main() {
	if len(os.Args) < 2 {
		fmt.Fprintln(os.Stderr, "usage: c03 extract|run|replay|probe|fixfloat [flags]")
		os.Exit(2)
	}
	fs := flag.NewFlagSet(os.Args[1], flag.ExitOnError)
	repo := fs.String("repo", "/repo", "repository under test")
	dir := fs.String("dir", ".", "output directory")
	seed := fs.Uint64("seed", 1, "seed")
	tier := fs.String("tier", "quick", "quick|thorough")
	file := fs.String("file", "", "replay file")
	text := fs.String("text", "", "probe: input text")
	fs.Parse(os.Args[2:])
	switch os.Args[1] {
	case "extract":
		g, err := loadGrammar(*repo)
		if err != nil {
			fmt.Fprintln(os.Stderr, err)
			os.Exit(1)
		}
		fmt.Print(g.leanModule())
	case "probe":
		g, err := loadGrammar(*repo)
		if err != nil {
			fmt.Fprintln(os.Stderr, err)
			os.Exit(1)
		}
		ri := newRuleIndex(g)
		inputs := fs.Args()
		if *text != "" {
			inputs = append(inputs, *text)
		}
		for _, s := range inputs {
			l, _, _ := implLine(ri, s, true)
			fmt.Println(opLine(s, true))
			fmt.Println(l)
		}
	case "fixfloat":
		sc := bufio.NewScanner(os.Stdin)
		sc.Buffer(make([]byte, 1<<20), 1<<28)
		w := bufio.NewWriterSize(os.Stdout, 1<<20)
		for sc.Scan() {
			w.WriteString(fixFloats(sc.Text()))
			w.WriteByte('\n')
		}
		w.Flush()
	case "run":
		if err := run(*repo, *dir, *seed, *tier); err != nil {
			fmt.Fprintln(os.Stderr, err)
			os.Exit(1)
		}
	case "replay":
		fails, err := replay(*repo, *file)
		if err != nil {
			fmt.Fprintln(os.Stderr, err)
			os.Exit(1)
		}
		b, _ := json.Marshal(fails)
		fmt.Println(string(b))
	default:
		fmt.Fprintln(os.Stderr, "unknown subcommand")
		os.Exit(2)
	}
}
