// Translator for parser/thrift.peg: a reader of the pointlander/peg source syntax (the subset the
// file uses) into an expression tree, the nullable/rank tables, and the Lean printer.
package main

import (
	"fmt"
	"strings"
)

type exprKind int

const (
	kEps exprKind = iota
	kRng
	kAny
	kCall
	kSeq
	kAlt
	kStar
	kPlus
	kOpt
	kNot
	kAnd
	kCap
)

type expr struct {
	k      exprKind
	lo, hi rune
	rule   int
	name   string // for kCall before resolution
	a, b   *expr
}

type rule struct {
	name string
	body *expr
}

type grammar struct {
	rules []rule
	index map[string]int
	nul   []bool
	rank  []int
	// leftRec is set if the head-call graph has a cycle (rank is then meaningless; Lean's decide fails)
	leftRec bool
}

type pegReader struct {
	s   []rune
	pos int
	err error
}

func (p *pegReader) fail(f string, a ...interface{}) {
	if p.err == nil {
		line := 1 + strings.Count(string(p.s[:p.pos]), "\n")
		p.err = fmt.Errorf("thrift.peg:%d: %s", line, fmt.Sprintf(f, a...))
	}
}

func (p *pegReader) ws() {
	for p.pos < len(p.s) {
		c := p.s[p.pos]
		if c == ' ' || c == '\t' || c == '\n' || c == '\r' {
			p.pos++
		} else if c == '#' {
			for p.pos < len(p.s) && p.s[p.pos] != '\n' {
				p.pos++
			}
		} else {
			return
		}
	}
}

func isIdStart(c rune) bool {
	return c == '_' || (c >= 'a' && c <= 'z') || (c >= 'A' && c <= 'Z')
}
func isIdChar(c rune) bool { return isIdStart(c) || (c >= '0' && c <= '9') }

func (p *pegReader) ident() string {
	p.ws()
	st := p.pos
	if p.pos < len(p.s) && isIdStart(p.s[p.pos]) {
		p.pos++
		for p.pos < len(p.s) && isIdChar(p.s[p.pos]) {
			p.pos++
		}
	}
	return string(p.s[st:p.pos])
}

func (p *pegReader) peekArrow() bool {
	save := p.pos
	defer func() { p.pos = save }()
	if p.ident() == "" {
		return false
	}
	p.ws()
	return p.pos+1 < len(p.s) && p.s[p.pos] == '<' && p.s[p.pos+1] == '-'
}

// escape reads the character after a backslash.
func (p *pegReader) escape() rune {
	if p.pos >= len(p.s) {
		p.fail("dangling backslash")
		return 0
	}
	c := p.s[p.pos]
	p.pos++
	switch c {
	case 'a':
		return 7
	case 'b':
		return 8
	case 'e':
		return 27
	case 'f':
		return 12
	case 'n':
		return 10
	case 'r':
		return 13
	case 't':
		return 9
	case 'v':
		return 11
	case '\'', '"', '[', ']', '-', '\\':
		return c
	}
	p.fail("unsupported escape \\%c", c)
	return 0
}

func chr(c rune) *expr { return &expr{k: kRng, lo: c, hi: c} }

func seqOf(xs []*expr) *expr {
	if len(xs) == 0 {
		return &expr{k: kEps}
	}
	if len(xs) == 1 {
		return xs[0]
	}
	return &expr{k: kSeq, a: xs[0], b: seqOf(xs[1:])}
}

func altOf(xs []*expr) *expr {
	if len(xs) == 1 {
		return xs[0]
	}
	return &expr{k: kAlt, a: xs[0], b: altOf(xs[1:])}
}

func (p *pegReader) primary() *expr {
	p.ws()
	if p.pos >= len(p.s) {
		p.fail("unexpected end")
		return &expr{k: kEps}
	}
	c := p.s[p.pos]
	switch {
	case isIdStart(c):
		return &expr{k: kCall, name: p.ident()}
	case c == '(':
		p.pos++
		e := p.choice()
		p.ws()
		if p.pos >= len(p.s) || p.s[p.pos] != ')' {
			p.fail("expected )")
		} else {
			p.pos++
		}
		return e
	case c == '<':
		p.pos++
		e := p.choice()
		p.ws()
		if p.pos >= len(p.s) || p.s[p.pos] != '>' {
			p.fail("expected >")
		} else {
			p.pos++
		}
		return &expr{k: kCap, a: e}
	case c == '.':
		p.pos++
		return &expr{k: kAny}
	case c == '\'' || c == '"':
		p.pos++
		var xs []*expr
		for {
			if p.pos >= len(p.s) {
				p.fail("unterminated literal")
				break
			}
			d := p.s[p.pos]
			p.pos++
			if d == c {
				break
			}
			if d == '\\' {
				d = p.escape()
			} else if c == '"' && isIdStart(d) && d != '_' {
				// pointlander/peg: letters in a double-quoted literal match case-insensitively
				lo, up := d|0x20, d&^0x20
				xs = append(xs, &expr{k: kAlt, a: chr(lo), b: chr(up)})
				continue
			}
			xs = append(xs, chr(d))
		}
		return seqOf(xs)
	case c == '[':
		p.pos++
		if p.pos < len(p.s) && (p.s[p.pos] == '^' || p.s[p.pos] == '[') {
			p.fail("negated / case-insensitive character classes are not supported by the model")
			return &expr{k: kEps}
		}
		var xs []*expr
		for {
			if p.pos >= len(p.s) {
				p.fail("unterminated class")
				break
			}
			d := p.s[p.pos]
			p.pos++
			if d == ']' {
				break
			}
			if d == '\\' {
				d = p.escape()
			}
			if p.pos+1 < len(p.s) && p.s[p.pos] == '-' && p.s[p.pos+1] != ']' {
				p.pos++
				h := p.s[p.pos]
				p.pos++
				if h == '\\' {
					h = p.escape()
				}
				xs = append(xs, &expr{k: kRng, lo: d, hi: h})
			} else {
				xs = append(xs, chr(d))
			}
		}
		if len(xs) == 0 {
			p.fail("empty class")
			return &expr{k: kEps}
		}
		return altOf(xs)
	case c == '{':
		p.fail("actions are not supported by the model")
	default:
		p.fail("unexpected character %q", c)
	}
	p.pos++
	return &expr{k: kEps}
}

func (p *pegReader) suffix() *expr {
	e := p.primary()
	p.ws()
	if p.pos < len(p.s) {
		switch p.s[p.pos] {
		case '*':
			p.pos++
			return &expr{k: kStar, a: e}
		case '+':
			p.pos++
			return &expr{k: kPlus, a: e}
		case '?':
			p.pos++
			return &expr{k: kOpt, a: e}
		}
	}
	return e
}

func (p *pegReader) prefix() *expr {
	p.ws()
	if p.pos < len(p.s) {
		switch p.s[p.pos] {
		case '!':
			p.pos++
			return &expr{k: kNot, a: p.suffix()}
		case '&':
			p.pos++
			return &expr{k: kAnd, a: p.suffix()}
		}
	}
	return p.suffix()
}

func (p *pegReader) sequence() *expr {
	var xs []*expr
	for p.err == nil {
		p.ws()
		if p.pos >= len(p.s) {
			break
		}
		c := p.s[p.pos]
		if c == '/' || c == ')' || c == '>' {
			break
		}
		if isIdStart(c) && p.peekArrow() {
			break
		}
		xs = append(xs, p.prefix())
	}
	return seqOf(xs)
}

func (p *pegReader) choice() *expr {
	xs := []*expr{p.sequence()}
	for p.err == nil {
		p.ws()
		if p.pos < len(p.s) && p.s[p.pos] == '/' {
			p.pos++
			xs = append(xs, p.sequence())
		} else {
			break
		}
	}
	return altOf(xs)
}

func readPeg(src string) (*grammar, error) {
	p := &pegReader{s: []rune(src)}
	if p.ident() != "package" {
		return nil, fmt.Errorf("thrift.peg: expected package clause")
	}
	p.ident()
	if p.ident() != "type" {
		return nil, fmt.Errorf("thrift.peg: expected type clause")
	}
	p.ident()
	if p.ident() != "Peg" {
		return nil, fmt.Errorf("thrift.peg: expected Peg")
	}
	p.ws()
	if p.pos >= len(p.s) || p.s[p.pos] != '{' {
		return nil, fmt.Errorf("thrift.peg: expected {")
	}
	for p.pos < len(p.s) && p.s[p.pos] != '}' {
		p.pos++
	}
	p.pos++
	g := &grammar{index: map[string]int{}}
	for {
		p.ws()
		if p.pos >= len(p.s) {
			break
		}
		name := p.ident()
		if name == "" {
			p.fail("expected rule name")
			break
		}
		p.ws()
		if p.pos+1 >= len(p.s) || p.s[p.pos] != '<' || p.s[p.pos+1] != '-' {
			p.fail("expected <-")
			break
		}
		p.pos += 2
		body := p.choice()
		if p.err != nil {
			break
		}
		if _, dup := g.index[name]; dup {
			p.fail("duplicate rule %s", name)
			break
		}
		g.index[name] = len(g.rules)
		g.rules = append(g.rules, rule{name, body})
	}
	if p.err != nil {
		return nil, p.err
	}
	var resolve func(e *expr) error
	resolve = func(e *expr) error {
		if e == nil {
			return nil
		}
		if e.k == kCall {
			i, ok := g.index[e.name]
			if !ok {
				return fmt.Errorf("thrift.peg: undefined rule %s", e.name)
			}
			e.rule = i
		}
		if err := resolve(e.a); err != nil {
			return err
		}
		return resolve(e.b)
	}
	for _, r := range g.rules {
		if err := resolve(r.body); err != nil {
			return nil, err
		}
	}
	g.analyse()
	return g, nil
}

func (g *grammar) nullable(e *expr) bool {
	switch e.k {
	case kEps, kStar, kOpt, kNot, kAnd:
		return true
	case kRng, kAny:
		return false
	case kCall:
		return g.nul[e.rule]
	case kSeq:
		return g.nullable(e.a) && g.nullable(e.b)
	case kAlt:
		return g.nullable(e.a) || g.nullable(e.b)
	case kPlus, kCap:
		return g.nullable(e.a)
	}
	return true
}

func (g *grammar) headCalls(e *expr, out map[int]bool) {
	switch e.k {
	case kCall:
		out[e.rule] = true
	case kSeq:
		g.headCalls(e.a, out)
		if g.nullable(e.a) {
			g.headCalls(e.b, out)
		}
	case kAlt:
		g.headCalls(e.a, out)
		g.headCalls(e.b, out)
	case kStar, kPlus, kOpt, kNot, kAnd, kCap:
		g.headCalls(e.a, out)
	}
}

// analyse computes the least nullable table and a rank (height in the head-call graph).
func (g *grammar) analyse() {
	n := len(g.rules)
	g.nul = make([]bool, n)
	for changed := true; changed; {
		changed = false
		for i, r := range g.rules {
			if !g.nul[i] && g.nullable(r.body) {
				g.nul[i] = true
				changed = true
			}
		}
	}
	g.rank = make([]int, n)
	heads := make([]map[int]bool, n)
	for i, r := range g.rules {
		heads[i] = map[int]bool{}
		g.headCalls(r.body, heads[i])
	}
	state := make([]int, n) // 0 new, 1 active, 2 done
	var visit func(i int) int
	visit = func(i int) int {
		if state[i] == 2 {
			return g.rank[i]
		}
		if state[i] == 1 {
			g.leftRec = true
			return 0
		}
		state[i] = 1
		h := 0
		for j := 0; j < n; j++ {
			if heads[i][j] {
				if v := visit(j) + 1; v > h {
					h = v
				}
			}
		}
		state[i] = 2
		g.rank[i] = h
		return h
	}
	for i := range g.rules {
		visit(i)
	}
}

// capHead: may a capture begin before the expression consumed input (least fixpoint over rules in capTab)
func (g *grammar) capHead(e *expr, tab []bool) bool {
	switch e.k {
	case kCap:
		return true
	case kCall:
		return tab[e.rule]
	case kSeq:
		return g.capHead(e.a, tab) || (g.nullable(e.a) && g.capHead(e.b, tab))
	case kAlt:
		return g.capHead(e.a, tab) || g.capHead(e.b, tab)
	case kStar, kPlus, kOpt:
		return g.capHead(e.a, tab)
	}
	return false
}

func (g *grammar) capTab() []bool {
	tab := make([]bool, len(g.rules))
	for changed := true; changed; {
		changed = false
		for i, r := range g.rules {
			if !tab[i] && g.capHead(r.body, tab) {
				tab[i] = true
				changed = true
			}
		}
	}
	return tab
}

func (e *expr) lean() string {
	switch e.k {
	case kEps:
		return ".eps"
	case kRng:
		return fmt.Sprintf("(.rng %d %d)", e.lo, e.hi)
	case kAny:
		return ".any"
	case kCall:
		return fmt.Sprintf("(.call %d)", e.rule)
	case kSeq:
		return "(.seq " + e.a.lean() + " " + e.b.lean() + ")"
	case kAlt:
		return "(.alt " + e.a.lean() + " " + e.b.lean() + ")"
	case kStar:
		return "(.star " + e.a.lean() + ")"
	case kPlus:
		return "(.plus " + e.a.lean() + ")"
	case kOpt:
		return "(.opt " + e.a.lean() + ")"
	case kNot:
		return "(.notP " + e.a.lean() + ")"
	case kAnd:
		return "(.andP " + e.a.lean() + ")"
	case kCap:
		return "(.cap " + e.a.lean() + ")"
	}
	return ".eps"
}

// rulesUsedByWalker are the rule names parser.go switches on; each becomes a named constant of the
// generated module (index 0-based in source order; Go's pegRule is this index + 1).
var rulesUsedByWalker = []string{
	"Document", "Header", "Include", "CppInclude", "Namespace", "NamespaceScope", "Definition", "Const", "Typedef",
	"Enum", "Service", "Struct", "Union", "Exception", "Field", "FieldId", "FieldReq", "Function", "FunctionType",
	"Throws", "FieldType", "BaseType", "ContainerType", "MapType", "SetType", "ListType", "CppType", "ConstValue",
	"IntConstant", "DoubleConstant", "Annotations", "Annotation", "ConstList", "ConstMap", "Literal", "Identifier",
	"ListSeparator", "ReservedComments", "ReservedEndLineComments", "Skip", "SkipLine", "Comment", "ONEWAY", "VOID",
	"EXTENDS", "EQUAL",
}

func (g *grammar) leanModule() string {
	w := &strings.Builder{}
	p := func(f string, a ...interface{}) { fmt.Fprintf(w, f, a...) }
	p("/- GENERATED by harness/cmd/c03 extract from parser/thrift.peg. Do not edit. -/\n")
	p("import ThriftVerif.Lib.Peg\nnamespace Generated.C03\nopen Peg\n\n")
	p("def ruleNames : List String := [\n")
	for i, r := range g.rules {
		sep := ","
		if i == len(g.rules)-1 {
			sep = ""
		}
		p("  %q%s\n", r.name, sep)
	}
	p("]\n\n")
	p("def rules : List Expr := [\n")
	for i, r := range g.rules {
		sep := ","
		if i == len(g.rules)-1 {
			sep = ""
		}
		p("  /- %d %s -/ %s%s\n", i, r.name, r.body.lean(), sep)
	}
	p("]\n\n")
	p("def grammar : Grammar := ⟨rules.toArray⟩\n\n")
	p("/-- nullable table (least fixpoint computed by the translator, soundness re-checked by `Peg.wf`) -/\n")
	p("def nul : List Bool := [")
	for i, b := range g.nul {
		if i > 0 {
			p(", ")
		}
		if b {
			p("true")
		} else {
			p("false")
		}
	}
	p("]\n\n")
	p("/-- rank: height in the head-call graph (re-checked by `Peg.wf`)%s -/\n", map[bool]string{true: "; LEFT RECURSION DETECTED, table is not a rank", false: ""}[g.leftRec])
	p("def rank : List Nat := [")
	for i, r := range g.rank {
		if i > 0 {
			p(", ")
		}
		p("%d", r)
	}
	p("]\n\n")
	p("/-- capture-at-start table (re-checked by `Peg.capOK`) -/\n")
	p("def capTab : List Bool := [")
	for i, b := range g.capTab() {
		if i > 0 {
			p(", ")
		}
		if b {
			p("true")
		} else {
			p("false")
		}
	}
	p("]\n\n")
	p("/-- rule ids the tree walker of parser.go switches on (absent rule = id of no node) -/\n")
	p("def ids : Ids := {\n")
	for i, n := range rulesUsedByWalker {
		idx, ok := g.index[n]
		if !ok {
			idx = 1000000 + i
		}
		sep := ","
		if i == len(rulesUsedByWalker)-1 {
			sep = ""
		}
		p("  r%s := %d%s\n", n, idx, sep)
	}
	p("  , rPegText := %d }\n\n", len(g.rules))
	p("/- the ids as rewrite rules -/\n")
	for i, n := range rulesUsedByWalker {
		idx, ok := g.index[n]
		if !ok {
			idx = 1000000 + i
		}
		p("@[simp] theorem ids_r%s : ids.r%s = %d := rfl\n", n, n, idx)
	}
	p("@[simp] theorem ids_rPegText : ids.rPegText = %d := rfl\n\n", len(g.rules))
	p("/- every rule id by name -/\nnamespace R\n")
	for i, r := range g.rules {
		p("abbrev %s : Nat := %d\n", r.name, i)
	}
	p("abbrev PegText : Nat := %d\nend R\n\n", len(g.rules))
	p("end Generated.C03\n")
	return w.String()
}
