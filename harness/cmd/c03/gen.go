// Abstract documents (Doc), their seeded generator, the renderer under layout choices, and the expected
// AST computed from the Doc alone by the numbering rules of the property (independent of any parser).
package main

import (
	"encoding/json"
	"fmt"
	"strconv"
	"strings"

	"github.com/cloudwego/thriftgo/parser"

	"verifharness/internal/vl"
)

type Ann struct{ Key, Val string }

type Anns struct {
	Present bool
	List    []Ann
}

type Type struct {
	Kind int // 0 named (base type or identifier), 1 map, 2 set, 3 list
	Name string
	K, V *Type
	Cpp  *string
	Anns Anns
}

const (
	spDec = iota
	spPlus
	spHex
	spOct
	spLeadZero // "0%d"
	spPad3     // "%03d"
	spPad5     // "%05d"
	spHexUp    // "0x%X"
	spBigX     // "0X%X": not in the grammar ('0x' is lower case only): must be rejected or read right
	spBin      // "0b%b": not in the grammar: must be rejected or read right
)

type CVal struct {
	Kind int // 0 int, 1 double, 2 literal, 3 identifier, 4 list, 5 map
	Int  int64
	Sp   int
	Dbl  string
	Str  string
	List []*CVal
	Map  [][2]*CVal
}

type Field struct {
	HasID   bool
	ID      int64
	Sp      int
	Req     int
	Type    *Type
	Name    string
	Default *CVal
	Anns    Anns
}

type EnumVal struct {
	Name   string
	HasVal bool
	Val    int64
	Sp     int
	Anns   Anns
}

type Func struct {
	Oneway    bool
	Void      bool
	Type      *Type
	Name      string
	Args      []*Field
	HasThrows bool
	Throws    []*Field
	Anns      Anns
}

type Def struct {
	Kind    string // const typedef enum struct union exception service
	Name    string
	Type    *Type
	Value   *CVal
	Vals    []*EnumVal
	Fields  []*Field
	Extends string
	Funcs   []*Func
	Anns    Anns
}

type Header struct {
	Kind string // include cpp_include namespace
	Path string
	Lang string
	Name string
	Anns Anns
}

type Doc struct {
	Headers []*Header
	Defs    []*Def
}

func (d *Doc) clone() *Doc {
	b, _ := json.Marshal(d)
	var c Doc
	json.Unmarshal(b, &c)
	return &c
}

func (d *Doc) kinds() int {
	m := map[string]bool{}
	for _, x := range d.Defs {
		m[x.Kind] = true
	}
	return len(m)
}

// ---------------------------------------------------------------- generator

var keywords = map[string]bool{"bool": true, "byte": true, "i8": true, "i16": true, "i32": true, "i64": true, "double": true,
	"string": true, "binary": true, "const": true, "oneway": true, "typedef": true, "map": true, "set": true, "list": true,
	"void": true, "throws": true, "exception": true, "extends": true, "service": true, "struct": true, "union": true, "enum": true,
	"include": true, "cpp_include": true, "namespace": true, "cpp_type": true, "required": true, "optional": true}

var baseTypes = []string{"bool", "byte", "i8", "i16", "i32", "i64", "double", "string", "binary"}

func isBase(s string) bool {
	for _, b := range baseTypes {
		if b == s {
			return true
		}
	}
	return false
}

type docGen struct {
	r *vl.Rng
	// risky: spellings on which the unchanged tree is suspected to violate the property (DESIGN §7)
	risky bool
	// wild: shapes outside the oracle's domain, for the model/implementation correspondence only
	wild bool
}

func (g *docGen) ident() string {
	const first = "abcdefghijklmnopqrstuvwxyzABCDEFGHIJKLMNOPQRSTUVWXYZ_"
	const rest = first + "0123456789."
	for {
		n := 1 + g.r.Intn(8)
		if g.r.Chance(5) {
			n = 20 + g.r.Intn(30)
		}
		b := make([]byte, n)
		b[0] = first[g.r.Intn(len(first))]
		for i := 1; i < n; i++ {
			b[i] = rest[g.r.Intn(len(rest))]
		}
		s := string(b)
		if g.r.Chance(15) {
			// names that begin like a keyword
			kw := []string{"i32", "list", "map", "void", "const", "string", "include", "set", "enum", "bool"}[g.r.Intn(10)]
			s = kw + s
		}
		if keywords[s] {
			continue
		}
		// `i8.x`, `string.T`, `void.y`: the keyword rules end in `!LetterOrDigit`, and `.` is not a LetterOrDigit, so in type
		// position the PEG commits to the base type and the rest is no identifier: such a name is not in the PEG's language
		// (observation in docs/C03.md); only the wild stream keeps it
		if i := strings.IndexByte(s, '.'); i > 0 && !g.wild && (s[:i] == "void" || isBase(s[:i])) {
			continue
		}
		if (strings.HasPrefix(s, "required") || strings.HasPrefix(s, "optional")) && !g.risky && !g.wild {
			continue
		}
		return s
	}
}

func (g *docGen) typeName() string {
	if g.risky && g.r.Chance(25) {
		return []string{"required", "optional"}[g.r.Intn(2)] + []string{"ness", "_t", "Params", "X"}[g.r.Intn(4)]
	}
	return g.ident()
}

// literal content: any bytes except the shapes excluded by the property's literal rule
// (a backslash immediately before a quote character or another backslash, or at the very end).
func (g *docGen) literal() string {
	if g.r.Chance(12) {
		return ""
	}
	alphabet := []string{"a", "b", "Z", "0", " ", "\t", "'", "\"", "\\n", "\\t", "\\x", "/*", "*/", "//", "#", "\n", "\r\n", "é", "本", "\xff", "{", "}", "(", ")", ",", ";", "=", "$", "\\u12e4", "%s"}
	n := 1 + g.r.Intn(10)
	var sb strings.Builder
	for i := 0; i < n; i++ {
		p := alphabet[g.r.Intn(len(alphabet))]
		if p == "\xff" && !g.wild {
			p = "é" // invalid UTF-8 is outside the oracle's domain (the parser works on runes)
		}
		sb.WriteString(p)
	}
	s := sb.String()
	if g.wild && g.r.Chance(40) {
		s += []string{"\\", "\\\\", "\\'", "\\\"", "\\\\\"", "\\\\'x"}[g.r.Intn(6)]
		if g.r.Chance(50) {
			s += "q"
		}
	}
	return s
}

func (g *docGen) anns() Anns {
	if !g.r.Chance(30) {
		return Anns{}
	}
	a := Anns{Present: true}
	n := g.r.Intn(4)
	keys := []string{g.ident(), g.ident(), "k", "go.tag"}
	for i := 0; i < n; i++ {
		a.List = append(a.List, Ann{keys[g.r.Intn(len(keys))], g.literal()})
	}
	return a
}

func (g *docGen) typ(depth int) *Type {
	t := &Type{}
	k := g.r.Intn(10)
	if depth >= 3 && k >= 6 {
		k = g.r.Intn(6)
	}
	switch {
	case k < 4:
		t.Name = baseTypes[g.r.Intn(len(baseTypes))]
	case k < 6:
		t.Name = g.typeName()
	case k < 7:
		t.Kind, t.Name = 1, "map"
		t.K, t.V = g.typ(depth+1), g.typ(depth+1)
	case k < 8:
		t.Kind, t.Name = 2, "set"
		t.V = g.typ(depth + 1)
	default:
		t.Kind, t.Name = 3, "list"
		t.V = g.typ(depth + 1)
	}
	if t.Kind != 0 && g.r.Chance(15) {
		s := g.literal()
		t.Cpp = &s
	}
	if g.r.Chance(12) {
		t.Anns = g.anns()
	}
	return t
}

func (g *docGen) intVal() (int64, int) {
	var v int64
	switch g.r.Intn(6) {
	case 0:
		v = int64(g.r.Intn(10))
	case 1:
		v = int64(g.r.Intn(100000))
	case 2:
		v = int64(g.r.U64() >> 1)
	case 3:
		v = -int64(g.r.Intn(1000))
	case 4:
		v = -int64(g.r.U64()>>1) - 1
	default:
		v = []int64{0, 1, -1, 255, 9223372036854775807, -9223372036854775808, 2147483647, -2147483648}[g.r.Intn(8)]
	}
	sp := spDec
	if v >= 0 {
		sp = []int{spDec, spDec, spPlus, spHex, spOct}[g.r.Intn(5)]
		if g.wild && g.r.Chance(20) {
			sp = spLeadZero
		}
	}
	return v, sp
}

func (g *docGen) dblText() string {
	digits := func(min int) string {
		n := min + g.r.Intn(4)
		b := make([]byte, n)
		for i := range b {
			b[i] = byte('0' + g.r.Intn(10))
		}
		return string(b)
	}
	sign := []string{"", "", "+", "-"}[g.r.Intn(4)]
	exp := func() string {
		return []string{"e", "E"}[g.r.Intn(2)] + []string{"", "+", "-"}[g.r.Intn(3)] + strconv.Itoa(g.r.Intn(40))
	}
	if g.risky && g.r.Chance(60) {
		if g.r.Bool() {
			return sign + digits(1) + exp()
		}
		return sign + digits(0) + "." + digits(1) + exp()
	}
	return sign + digits(0) + "." + digits(1)
}

func (g *docGen) cval(depth int) *CVal {
	k := g.r.Intn(12)
	if depth >= 3 && k >= 8 {
		k = g.r.Intn(8)
	}
	switch {
	case k < 3:
		v, sp := g.intVal()
		return &CVal{Kind: 0, Int: v, Sp: sp}
	case k < 5:
		return &CVal{Kind: 1, Dbl: g.dblText()}
	case k < 7:
		return &CVal{Kind: 2, Str: g.literal()}
	case k < 8:
		return &CVal{Kind: 3, Str: g.ident()}
	case k < 10:
		c := &CVal{Kind: 4}
		for i, n := 0, g.r.Intn(4); i < n; i++ {
			c.List = append(c.List, g.cval(depth+1))
		}
		return c
	default:
		c := &CVal{Kind: 5}
		for i, n := 0, g.r.Intn(3); i < n; i++ {
			c.Map = append(c.Map, [2]*CVal{g.cval(depth + 1), g.cval(depth + 1)})
		}
		return c
	}
}

func (g *docGen) field() *Field {
	f := &Field{Type: g.typ(0), Name: g.ident(), Req: g.r.Intn(3), Anns: g.anns()}
	if g.r.Chance(65) {
		f.HasID = true
		switch g.r.Intn(8) {
		case 0:
			f.ID = -int64(g.r.Intn(40)) - 1
		case 1:
			f.ID = int64(g.r.Intn(33000))
		default:
			f.ID = int64(g.r.Intn(40))
		}
		f.Sp = g.idSpelling(f.ID, true)
		if g.risky && g.r.Chance(25) {
			f.ID = []int64{2147483648, 99999999999, -2147483649, -99999999999}[g.r.Intn(4)]
			f.Sp = spDec
		}
		if g.wild && g.r.Chance(10) {
			f.ID, f.Sp = -999999, spDec
		}
	}
	if g.r.Chance(35) {
		f.Default = g.cval(0)
	}
	return f
}

func (g *docGen) fields(max int) []*Field {
	var fs []*Field
	for i, n := 0, g.r.Intn(max+1); i < n; i++ {
		fs = append(fs, g.field())
	}
	return fs
}

func (g *docGen) def() *Def {
	kinds := []string{"const", "typedef", "enum", "struct", "union", "exception", "service"}
	d := &Def{Kind: kinds[g.r.Intn(len(kinds))], Name: g.ident(), Anns: g.anns()}
	switch d.Kind {
	case "const":
		d.Type, d.Value = g.typ(0), g.cval(0)
	case "typedef":
		d.Type = g.typ(0)
	case "enum":
		for i, n := 0, g.r.Intn(6); i < n; i++ {
			ev := &EnumVal{Name: g.ident(), Anns: g.anns()}
			if g.r.Chance(45) {
				ev.HasVal = true
				ev.Val, ev.Sp = g.intVal()
				if g.r.Chance(70) {
					ev.Val = int64(g.r.Intn(100)) - int64(g.r.Intn(12))/10*int64(g.r.Intn(50))
					// `A = 0X1F` is grammatical with another meaning (`A = 0`, then a member `X1F`): only the wild stream writes it
					ev.Sp = g.idSpelling(ev.Val, g.wild)
				}
			}
			d.Vals = append(d.Vals, ev)
		}
	case "struct", "union", "exception":
		d.Fields = g.fields(6)
	case "service":
		if g.r.Chance(30) {
			d.Extends = g.ident()
		}
		for i, n := 0, g.r.Intn(4); i < n; i++ {
			f := &Func{Name: g.ident(), Args: g.fields(3), Anns: g.anns()}
			if g.r.Chance(40) {
				f.Void = true
				f.Oneway = g.r.Chance(40)
			} else {
				f.Type = g.typ(0)
			}
			if g.r.Chance(40) {
				f.HasThrows = true
				f.Throws = g.fields(2)
			}
			d.Funcs = append(d.Funcs, f)
		}
	}
	return d
}

func (g *docGen) doc() *Doc {
	d := &Doc{}
	seen := map[string]bool{}
	for i, n := 0, g.r.Intn(4); i < n; i++ {
		h := &Header{}
		switch g.r.Intn(3) {
		case 0:
			h.Kind = "include"
			for {
				h.Path = g.literal()
				if g.wild || (h.Path != "" && !seen[h.Path]) {
					break
				}
			}
			seen[h.Path] = true
		case 1:
			h.Kind, h.Path = "cpp_include", g.literal()
		default:
			h.Kind, h.Name = "namespace", g.ident()
			if g.r.Chance(30) {
				h.Lang = "*"
			} else {
				h.Lang = g.ident()
			}
			h.Anns = g.anns()
		}
		d.Headers = append(d.Headers, h)
	}
	n := 1 + g.r.Intn(6)
	if g.r.Chance(5) {
		n = 0
	}
	for i := 0; i < n; i++ {
		d.Defs = append(d.Defs, g.def())
	}
	return d
}

// ---------------------------------------------------------------- renderer

const (
	layCanon = iota
	layRandom
	layAdversarial
)

type renderer struct {
	r     *vl.Rng
	style int
	sb    strings.Builder
	n     int // token counter (adversarial comment rotation)
}

func isWord(c byte) bool {
	return c == '_' || c == '.' || c == '$' || (c >= '0' && c <= '9') || (c >= 'a' && c <= 'z') || (c >= 'A' && c <= 'Z')
}

func (w *renderer) comment() string {
	body := []string{"", " c ", "x", " struct S { ", "\"", "'", " * ", "/", " é ", "//", "#"}[w.r.Intn(11)]
	nl := []string{"\n", "\r\n", "\r"}[w.r.Intn(3)]
	k := w.r.Intn(3)
	if w.style == layAdversarial {
		k = w.n % 3
	}
	switch k {
	case 0:
		if strings.Contains(body, "/") && strings.Contains(body, "*") {
			body = " "
		}
		return "/*" + strings.ReplaceAll(body, "*/", "* /") + "*/"
	case 1:
		return "//" + body + nl
	default:
		return "#" + body + nl
	}
}

// gap is a string of the Skip language: spaces, tabs, vertical tabs, CR/LF mixes and the three comment styles.
func (w *renderer) gap() string {
	switch w.style {
	case layCanon:
		return " "
	case layAdversarial:
		ws := []string{"", " ", "\n", "\r", "\r\n", "\t", "\v"}
		return ws[w.r.Intn(len(ws))] + w.comment() + ws[w.r.Intn(len(ws))]
	}
	var sb strings.Builder
	for i, n := 0, w.r.Intn(3); i < n; i++ {
		switch w.r.Intn(10) {
		case 0:
			sb.WriteString("\n")
		case 1:
			sb.WriteString("\t")
		case 2:
			sb.WriteString("\r\n")
		case 3:
			sb.WriteString("\r")
		case 4:
			sb.WriteString("\v")
		case 5, 6:
			sb.WriteString(w.comment())
		default:
			sb.WriteString(" ")
		}
	}
	return sb.String()
}

// tok writes one token preceded by a gap; two word-like tokens are always kept apart.
func (w *renderer) tok(t string) {
	w.n++
	g := w.gap()
	cur := w.sb.String()
	if g == "" && len(cur) > 0 && len(t) > 0 && isWord(cur[len(cur)-1]) && (isWord(t[0]) || t[0] == '+' || t[0] == '-') {
		g = " "
	}
	w.sb.WriteString(g)
	w.sb.WriteString(t)
}

func (w *renderer) sep() {
	k := w.r.Intn(3)
	if w.style == layCanon {
		k = 0
	}
	switch k {
	case 0:
		w.tok(",")
	case 1:
		w.tok(";")
	}
}

func (w *renderer) literal(s string) {
	q := byte('"')
	if w.style != layCanon && w.r.Bool() {
		q = '\''
	}
	var sb strings.Builder
	sb.WriteByte(q)
	for i := 0; i < len(s); i++ {
		if s[i] == q {
			sb.WriteByte('\\')
		}
		sb.WriteByte(s[i])
	}
	sb.WriteByte(q)
	w.tok(sb.String())
}

// intText spells v. Every spelling works for every value: negative values keep their sign in front (`-010`, `-0x1f`
// is not in the grammar, so negative values are only spelled in decimal forms).
func intText(v int64, sp int, r *vl.Rng) string {
	if v < 0 {
		switch sp {
		case spLeadZero:
			return "-0" + strconv.FormatUint(uint64(-v), 10)
		case spPad3:
			return fmt.Sprintf("%03d", v)
		case spPad5:
			return fmt.Sprintf("%05d", v)
		}
		return strconv.FormatInt(v, 10)
	}
	switch sp {
	case spPlus:
		return "+" + strconv.FormatInt(v, 10)
	case spHex:
		b := []byte(strconv.FormatInt(v, 16))
		for i := range b {
			if b[i] >= 'a' && r.Bool() {
				b[i] -= 32
			}
		}
		return "0x" + string(b)
	case spHexUp:
		return fmt.Sprintf("0x%X", v)
	case spBigX:
		return fmt.Sprintf("0X%X", v)
	case spBin:
		return fmt.Sprintf("0b%b", v)
	case spOct:
		return "0o" + strconv.FormatInt(v, 8)
	case spLeadZero:
		return "0" + strconv.FormatInt(v, 10)
	case spPad3:
		return fmt.Sprintf("%03d", v)
	case spPad5:
		return fmt.Sprintf("%05d", v)
	}
	return strconv.FormatInt(v, 10)
}

// enumRule is the documented reading of an explicit enum value (parser.go parseEnum): a base-prefixed literal first
// (`0x`, `0o`, and C-style `0` + octal digits: `010` = 8), a decimal number otherwise (`08` = 8). Written out here
// without strconv's base 0 so that the expectation is independent of the code under test.
func enumRule(text string) int64 {
	neg := strings.HasPrefix(text, "-")
	t := strings.TrimLeft(text, "+-")
	var u uint64
	switch {
	case strings.HasPrefix(t, "0x"):
		u, _ = strconv.ParseUint(t[2:], 16, 64)
	case strings.HasPrefix(t, "0o"):
		u, _ = strconv.ParseUint(t[2:], 8, 64)
	case len(t) > 1 && t[0] == '0' && strings.Trim(t, "01234567") == "":
		u, _ = strconv.ParseUint(t[1:], 8, 64)
	default:
		u, _ = strconv.ParseUint(t, 10, 64)
	}
	if neg {
		return -int64(u)
	}
	return int64(u)
}

// idSpelling picks a spelling for an explicit field id or enum value.
func (g *docGen) idSpelling(v int64, lenient bool) int {
	if v < 0 {
		return []int{spDec, spDec, spLeadZero, spPad3, spPad5}[g.r.Intn(5)]
	}
	switch p := g.r.Intn(100); {
	case p < 40:
		return spDec
	case p < 50:
		return spPlus
	case p < 58:
		return spLeadZero
	case p < 66:
		return spPad3
	case p < 72:
		return spPad5
	case p < 80:
		return spHex
	case p < 86:
		return spHexUp
	case p < 94:
		return spOct
	case !lenient:
		return spDec
	case p < 97:
		return spBigX
	}
	return spBin
}

func (w *renderer) anns(a Anns) {
	if !a.Present {
		return
	}
	w.tok("(")
	for _, x := range a.List {
		w.tok(x.Key)
		w.tok("=")
		w.literal(x.Val)
		w.sep()
	}
	w.tok(")")
}

func (w *renderer) typ(t *Type) {
	cpp := func() {
		if t.Cpp != nil {
			w.tok("cpp_type")
			w.literal(*t.Cpp)
		}
	}
	switch t.Kind {
	case 0:
		w.tok(t.Name)
	case 1:
		w.tok("map")
		cpp()
		w.tok("<")
		w.typ(t.K)
		w.tok(",")
		w.typ(t.V)
		w.tok(">")
	case 2:
		w.tok("set")
		cpp()
		w.tok("<")
		w.typ(t.V)
		w.tok(">")
	case 3:
		w.tok("list")
		w.tok("<")
		w.typ(t.V)
		w.tok(">")
		cpp()
	}
	w.anns(t.Anns)
}

func (w *renderer) cval(c *CVal) {
	switch c.Kind {
	case 0:
		w.tok(intText(c.Int, c.Sp, w.r))
	case 1:
		w.tok(c.Dbl)
	case 2:
		w.literal(c.Str)
	case 3:
		w.tok(c.Str)
	case 4:
		w.tok("[")
		for _, x := range c.List {
			w.cval(x)
			w.sep()
		}
		w.tok("]")
	case 5:
		w.tok("{")
		for _, kv := range c.Map {
			w.cval(kv[0])
			w.tok(":")
			w.cval(kv[1])
			w.sep()
		}
		w.tok("}")
	}
}

func (w *renderer) field(f *Field) {
	if f.HasID {
		w.tok(intText(f.ID, f.Sp, w.r))
		w.tok(":")
	}
	switch f.Req {
	case 1:
		w.tok("required")
	case 2:
		w.tok("optional")
	}
	w.typ(f.Type)
	w.tok(f.Name)
	if f.Default != nil {
		w.tok("=")
		w.cval(f.Default)
	}
	w.anns(f.Anns)
	w.sep()
}

func (w *renderer) doc(d *Doc) {
	for _, h := range d.Headers {
		switch h.Kind {
		case "include", "cpp_include":
			w.tok(h.Kind)
			w.literal(h.Path)
		case "namespace":
			w.tok("namespace")
			w.tok(h.Lang)
			w.tok(h.Name)
			w.anns(h.Anns)
		}
	}
	for _, x := range d.Defs {
		w.tok(x.Kind)
		switch x.Kind {
		case "const":
			w.typ(x.Type)
			w.tok(x.Name)
			w.tok("=")
			w.cval(x.Value)
			w.sep()
		case "typedef":
			w.typ(x.Type)
			w.tok(x.Name)
		case "enum":
			w.tok(x.Name)
			w.tok("{")
			for _, v := range x.Vals {
				w.tok(v.Name)
				if v.HasVal {
					w.tok("=")
					w.tok(intText(v.Val, v.Sp, w.r))
				}
				w.anns(v.Anns)
				w.sep()
			}
			w.tok("}")
		case "struct", "union", "exception":
			w.tok(x.Name)
			w.tok("{")
			for _, f := range x.Fields {
				w.field(f)
			}
			w.tok("}")
		case "service":
			w.tok(x.Name)
			if x.Extends != "" {
				w.tok("extends")
				w.tok(x.Extends)
			}
			w.tok("{")
			for _, f := range x.Funcs {
				if f.Oneway {
					w.tok("oneway")
				}
				if f.Void {
					w.tok("void")
				} else {
					w.typ(f.Type)
				}
				w.tok(f.Name)
				w.tok("(")
				for _, a := range f.Args {
					w.field(a)
				}
				w.tok(")")
				if f.HasThrows {
					w.tok("throws")
					w.tok("(")
					for _, a := range f.Throws {
						w.field(a)
					}
					w.tok(")")
				}
				w.anns(f.Anns)
				w.sep()
			}
			w.tok("}")
		}
		w.anns(x.Anns)
	}
	if w.style != layCanon {
		w.sb.WriteString(w.gap())
	}
}

func render(d *Doc, style int, seed uint64) string {
	w := &renderer{r: vl.NewRng(seed), style: style}
	w.doc(d)
	return w.sb.String()
}

// ---------------------------------------------------------------- expected AST (numbering rules of the property)

func expAnns(a Anns) parser.Annotations {
	var out parser.Annotations
	for _, x := range a.List {
		found := false
		for _, o := range out {
			if o.Key == x.Key {
				o.Values = append(o.Values, x.Val)
				found = true
				break
			}
		}
		if !found {
			out = append(out, &parser.Annotation{Key: x.Key, Values: []string{x.Val}})
		}
	}
	return out
}

func expType(t *Type) *parser.Type {
	if t == nil {
		return nil
	}
	o := &parser.Type{Name: t.Name, KeyType: expType(t.K), ValueType: expType(t.V), Annotations: expAnns(t.Anns)}
	if t.Cpp != nil {
		o.CppType = *t.Cpp
	}
	return o
}

func expCVal(c *CVal) *parser.ConstValue {
	if c == nil {
		return nil
	}
	switch c.Kind {
	case 0:
		v := c.Int
		return &parser.ConstValue{Type: parser.ConstType_ConstInt, TypedValue: &parser.ConstTypedValue{Int: &v}}
	case 1:
		f, _ := strconv.ParseFloat(c.Dbl, 64)
		return &parser.ConstValue{Type: parser.ConstType_ConstDouble, TypedValue: &parser.ConstTypedValue{Double: &f}}
	case 2:
		s := c.Str
		return &parser.ConstValue{Type: parser.ConstType_ConstLiteral, TypedValue: &parser.ConstTypedValue{Literal: &s}}
	case 3:
		s := c.Str
		return &parser.ConstValue{Type: parser.ConstType_ConstIdentifier, TypedValue: &parser.ConstTypedValue{Identifier: &s}}
	case 4:
		l := []*parser.ConstValue{}
		for _, x := range c.List {
			l = append(l, expCVal(x))
		}
		return &parser.ConstValue{Type: parser.ConstType_ConstList, TypedValue: &parser.ConstTypedValue{List: l}}
	default:
		m := []*parser.MapConstValue{}
		for _, kv := range c.Map {
			m = append(m, &parser.MapConstValue{Key: expCVal(kv[0]), Value: expCVal(kv[1])})
		}
		return &parser.ConstValue{Type: parser.ConstType_ConstMap, TypedValue: &parser.ConstTypedValue{Map: m}}
	}
}

// expFields applies the rule "explicit ids as written, implicit = previous + 1, first implicit = 1".
func expFields(fs []*Field, throws bool) []*parser.Field {
	var out []*parser.Field
	for _, f := range fs {
		o := &parser.Field{Name: f.Name, Requiredness: parser.FieldType(f.Req), Type: expType(f.Type), Default: expCVal(f.Default), Annotations: expAnns(f.Anns)}
		if throws {
			o.Requiredness = parser.FieldType_Optional
		}
		switch {
		case f.HasID:
			o.ID = int32(f.ID)
			if int64(o.ID) != f.ID {
				o.ID = -1 << 31 // not representable: whatever the parser answers is wrong, see the oracle's class fieldid-range
			}
		case len(out) > 0:
			o.ID = out[len(out)-1].ID + 1
		default:
			o.ID = 1
		}
		out = append(out, o)
	}
	return out
}

func expected(d *Doc) *parser.Thrift {
	t := &parser.Thrift{}
	for _, h := range d.Headers {
		switch h.Kind {
		case "include":
			t.Includes = append(t.Includes, &parser.Include{Path: h.Path})
		case "cpp_include":
			t.CppIncludes = append(t.CppIncludes, h.Path)
		case "namespace":
			t.Namespaces = append(t.Namespaces, &parser.Namespace{Language: h.Lang, Name: h.Name, Annotations: expAnns(h.Anns)})
		}
	}
	for _, x := range d.Defs {
		an := expAnns(x.Anns)
		switch x.Kind {
		case "const":
			t.Constants = append(t.Constants, &parser.Constant{Name: x.Name, Type: expType(x.Type), Value: expCVal(x.Value), Annotations: an})
		case "typedef":
			t.Typedefs = append(t.Typedefs, &parser.Typedef{Alias: x.Name, Type: expType(x.Type), Annotations: an})
		case "enum":
			e := &parser.Enum{Name: x.Name, Annotations: an}
			for _, v := range x.Vals {
				o := &parser.EnumValue{Name: v.Name, Annotations: expAnns(v.Anns)}
				switch {
				case v.HasVal:
					o.Value = enumRule(intText(v.Val, v.Sp, vl.NewRng(1)))
				case len(e.Values) > 0:
					o.Value = e.Values[len(e.Values)-1].Value + 1
				}
				e.Values = append(e.Values, o)
			}
			t.Enums = append(t.Enums, e)
		case "struct", "union", "exception":
			s := &parser.StructLike{Category: x.Kind, Name: x.Name, Fields: expFields(x.Fields, false), Annotations: an}
			switch x.Kind {
			case "struct":
				t.Structs = append(t.Structs, s)
			case "union":
				t.Unions = append(t.Unions, s)
			default:
				t.Exceptions = append(t.Exceptions, s)
			}
		case "service":
			s := &parser.Service{Name: x.Name, Extends: x.Extends, Annotations: an}
			for _, f := range x.Funcs {
				o := &parser.Function{Name: f.Name, Oneway: f.Oneway, Void: f.Void, Arguments: expFields(f.Args, false), Throws: expFields(f.Throws, true), Annotations: expAnns(f.Anns)}
				if f.Void {
					o.FunctionType = &parser.Type{Name: "void"}
				} else {
					o.FunctionType = expType(f.Type)
				}
				s.Functions = append(s.Functions, o)
			}
			t.Services = append(t.Services, s)
		}
	}
	return t
}

// ---------------------------------------------------------------- features (for classifying a minimised failure)

type features struct {
	expDouble, idNonDecimal, idRange, reqPrefixType, idPadded, enumSpelled, lenient bool
}

func (d *Doc) features() features {
	var f features
	var ty func(t *Type)
	ty = func(t *Type) {
		if t == nil {
			return
		}
		if t.Kind == 0 && (strings.HasPrefix(t.Name, "required") || strings.HasPrefix(t.Name, "optional")) {
			f.reqPrefixType = true
		}
		ty(t.K)
		ty(t.V)
	}
	var cv func(c *CVal)
	cv = func(c *CVal) {
		if c == nil {
			return
		}
		if c.Kind == 1 && strings.ContainsAny(c.Dbl, "eE") {
			f.expDouble = true
		}
		for _, x := range c.List {
			cv(x)
		}
		for _, kv := range c.Map {
			cv(kv[0])
			cv(kv[1])
		}
	}
	fld := func(fs []*Field) {
		for _, x := range fs {
			ty(x.Type)
			cv(x.Default)
			if x.HasID && (x.Sp == spHex || x.Sp == spOct || x.Sp == spHexUp) {
				f.idNonDecimal = true
			}
			if x.HasID && (x.Sp == spLeadZero || x.Sp == spPad3 || x.Sp == spPad5) {
				f.idPadded = true
			}
			if x.HasID && x.ID >= 0 && (x.Sp == spBigX || x.Sp == spBin) {
				f.lenient = true
			}
			if x.HasID && int64(int32(x.ID)) != x.ID {
				f.idRange = true
			}
		}
	}
	for _, x := range d.Defs {
		ty(x.Type)
		cv(x.Value)
		fld(x.Fields)
		for _, v := range x.Vals {
			if v.HasVal && v.Sp != spDec {
				f.enumSpelled = true
			}
		}
		for _, fn := range x.Funcs {
			ty(fn.Type)
			fld(fn.Args)
			fld(fn.Throws)
		}
	}
	return f
}

func (f features) class() string {
	switch {
	case f.expDouble:
		return "double-exponent"
	case f.idPadded:
		return "fieldid-padded"
	case f.idNonDecimal:
		return "fieldid-nondecimal"
	case f.enumSpelled:
		return "enumvalue-spelling"
	case f.idRange:
		return "fieldid-range"
	case f.reqPrefixType:
		return "fieldreq-prefix"
	}
	return ""
}

func (d *Doc) size() int {
	b, _ := json.Marshal(d)
	return len(b)
}

var _ = fmt.Sprint
