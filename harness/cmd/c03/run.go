package main

import (
	"encoding/json"
	"fmt"
	"os"
	"strings"

	"verifharness/internal/vl"
)

type runner struct {
	out  *vl.Out
	ri   *ruleIndex
	r    *vl.Rng
	tier string
	// classes already reported: documents showing the same class are counted, not shrunk again
	reported map[string]bool
	slowest  int64
	generic  int // distinct unclassified AST mismatches reported so far
}

const timeoutMillis = 10000

// one correspondence case + the totality part of the oracle (no panic, bounded time)
func (x *runner) check(s, class string, walk, nontrivial bool) (string, astObs) {
	line, po, ao := implLine(x.ri, s, walk)
	x.out.Case(opLine(s, walk), line, nontrivial)
	x.out.Count("class:" + class)
	switch {
	case line == "fail":
		x.out.Count("outcome:parse-error")
	case strings.HasSuffix(line, " err"):
		x.out.Count("outcome:walk-error")
	case strings.HasSuffix(line, " panic") || line == "pegpanic":
		x.out.Count("outcome:panic")
	default:
		x.out.Count("outcome:ast")
	}
	x.out.Count(fmt.Sprintf("len:<2^%d", bitlen(len(s))))
	if po.panic != "" || ao.panic != "" {
		x.reportPanic(s, po.panic+ao.panic)
	}
	if t := po.parseMillis + ao.millis; t > x.slowest {
		x.slowest = t
	}
	if po.parseMillis+ao.millis > timeoutMillis && slowAgain(s) {
		x.out.Fail(vl.OracleFail{Key: "timeout", What: fmt.Sprintf("parsing %d bytes took %d ms three times in a row (limit %d)", len(s), po.parseMillis+ao.millis, timeoutMillis),
			Input: map[string]interface{}{"kind": "raw", "hex": vl.Hex(s)}, Expected: "AST or error in bounded time", Observed: fmt.Sprintf("%d ms", po.parseMillis+ao.millis)})
	}
	return line, ao
}

// slowAgain re-measures a slow input twice more (the machine may have been busy): it is slow only if every
// measurement of parser.ParseString exceeds the limit.
func slowAgain(s string) bool {
	for i := 0; i < 2; i++ {
		if observeAST(s).millis <= timeoutMillis {
			return false
		}
	}
	return true
}

func bitlen(n int) int {
	b := 0
	for n > 0 {
		b++
		n >>= 1
	}
	return b
}

func panics(ri *ruleIndex, s string) bool {
	po := observePeg(ri, s)
	if po.panic != "" {
		return true
	}
	if !po.ok {
		return false
	}
	return observeAST(s).panic != ""
}

func (x *runner) reportPanic(s, msg string) {
	if x.reported["panic"] {
		x.out.Count("oracle:panic-again")
		return
	}
	x.reported["panic"] = true
	min := shrinkString(s, func(t string) bool { return panics(x.ri, t) })
	x.out.Fail(vl.OracleFail{Key: "panic:" + vl.Hex(min), What: "parser.ParseString panics: " + firstLine(msg),
		Input: map[string]interface{}{"kind": "raw", "hex": vl.Hex(min), "text": min}, Expected: "AST or error", Observed: "panic: " + firstLine(msg)})
}

func firstLine(s string) string {
	if i := strings.IndexByte(s, '\n'); i >= 0 {
		s = s[:i]
	}
	if len(s) > 200 {
		s = s[:200]
	}
	return s
}

// shrinkString removes chunks while the predicate holds (bounded effort).
func shrinkString(s string, bad func(string) bool) string {
	budget := 3000
	for chunk := len(s) / 2; chunk >= 1; chunk /= 2 {
		for i := 0; i+chunk <= len(s) && budget > 0; {
			t := s[:i] + s[i+chunk:]
			budget--
			if bad(t) {
				s = t
			} else {
				i += chunk
			}
		}
	}
	return s
}

// ---------------------------------------------------------------- faithfulness oracle on documents

type docVerdict struct {
	ok       bool
	what     string
	expected string
	observed string
	text     string
}

// judge evaluates the property on one rendering: the real parser's AST (comments blanked) must equal the AST
// computed from the Doc; documents with an id no int32 can hold must be rejected.
func judge(d *Doc, text string) docVerdict {
	ao := observeAST(text)
	if ao.panic != "" {
		return docVerdict{ok: true} // reported by the totality oracle
	}
	exp := thriftStrNC(expected(d))
	if d.features().idRange {
		if ao.err == nil {
			return docVerdict{false, "a field id outside int32 is accepted and silently replaced", "error", thriftStrNC(ao.ast), text}
		}
		return docVerdict{ok: true}
	}
	if ao.err != nil {
		if d.features().lenient {
			return docVerdict{ok: true} // `0X1F:` / `0b101:` are not in the grammar: a rejection is right, a wrong id is not
		}
		return docVerdict{false, "a grammatical document is rejected", exp, "error: " + firstLine(ao.err.Error()), text}
	}
	got := thriftStrNC(ao.ast)
	if got != exp {
		return docVerdict{false, "the AST differs from the document that was written", exp, got, text}
	}
	return docVerdict{ok: true}
}

func judgeAll(d *Doc, seeds [2]uint64, styles [2]int) docVerdict {
	for i := 0; i < 2; i++ {
		if v := judge(d, render(d, styles[i], seeds[i])); !v.ok {
			return v
		}
	}
	return docVerdict{ok: true}
}

// shrinkDoc drops headers, definitions, fields, values, annotations, defaults, and simplifies types while the
// document still fails under the canonical layout or the given ones.
func shrinkDoc(d *Doc, fails func(*Doc) bool) *Doc {
	cur := d
	try := func(mut func(c *Doc) bool) bool {
		c := cur.clone()
		if !mut(c) {
			return false
		}
		if fails(c) {
			cur = c
			return true
		}
		return false
	}
	for round := 0; round < 6; round++ {
		changed := false
		for i := len(cur.Headers) - 1; i >= 0; i-- {
			i := i
			if try(func(c *Doc) bool { c.Headers = append(c.Headers[:i], c.Headers[i+1:]...); return true }) {
				changed = true
			}
		}
		for i := len(cur.Defs) - 1; i >= 0; i-- {
			i := i
			if len(cur.Defs) > 1 && try(func(c *Doc) bool { c.Defs = append(c.Defs[:i], c.Defs[i+1:]...); return true }) {
				changed = true
			}
		}
		for di := range cur.Defs {
			di := di
			if try(func(c *Doc) bool { x := c.Defs[di]; r := x.Anns.Present; x.Anns = Anns{}; return r }) {
				changed = true
			}
			for i := len(cur.Defs[di].Vals) - 1; i >= 0; i-- {
				i := i
				if try(func(c *Doc) bool { x := c.Defs[di]; x.Vals = append(x.Vals[:i], x.Vals[i+1:]...); return true }) {
					changed = true
				}
			}
			for i := len(cur.Defs[di].Funcs) - 1; i >= 0; i-- {
				i := i
				if try(func(c *Doc) bool { x := c.Defs[di]; x.Funcs = append(x.Funcs[:i], x.Funcs[i+1:]...); return true }) {
					changed = true
				}
			}
			lists := func(x *Def) []*[]*Field {
				ls := []*[]*Field{&x.Fields}
				for _, f := range x.Funcs {
					ls = append(ls, &f.Args, &f.Throws)
				}
				return ls
			}
			for li := range lists(cur.Defs[di]) {
				li := li
				for i := len(*lists(cur.Defs[di])[li]) - 1; i >= 0; i-- {
					i := i
					if try(func(c *Doc) bool { l := lists(c.Defs[di])[li]; *l = append((*l)[:i], (*l)[i+1:]...); return true }) {
						changed = true
						continue
					}
					if try(func(c *Doc) bool {
						f := (*lists(c.Defs[di])[li])[i]
						r := f.Default != nil
						f.Default = nil
						return r
					}) {
						changed = true
					}
					if try(func(c *Doc) bool {
						f := (*lists(c.Defs[di])[li])[i]
						r := f.Anns.Present
						f.Anns = Anns{}
						return r
					}) {
						changed = true
					}
					if try(func(c *Doc) bool {
						f := (*lists(c.Defs[di])[li])[i]
						r := f.Req != 0
						f.Req = 0
						return r
					}) {
						changed = true
					}
					if try(func(c *Doc) bool {
						f := (*lists(c.Defs[di])[li])[i]
						v := f.Default
						if v == nil || v.Kind < 4 {
							return false
						}
						if len(v.List) > 0 {
							f.Default = v.List[len(v.List)-1]
							return true
						}
						if len(v.Map) > 0 {
							f.Default = v.Map[len(v.Map)-1][1]
							return true
						}
						return false
					}) {
						changed = true
					}
					if try(func(c *Doc) bool {
						f := (*lists(c.Defs[di])[li])[i]
						v := f.Default
						if v == nil || v.Kind < 4 {
							return false
						}
						if len(v.List) > 0 {
							f.Default = v.List[0]
							return true
						}
						if len(v.Map) > 0 {
							f.Default = v.Map[0][0]
							return true
						}
						return false
					}) {
						changed = true
					}
					if try(func(c *Doc) bool {
						f := (*lists(c.Defs[di])[li])[i]
						r := f.Type.Kind != 0 || f.Type.Anns.Present || f.Type.Name != "i32"
						f.Type = &Type{Name: "i32"}
						return r
					}) {
						changed = true
					}
					if try(func(c *Doc) bool {
						f := (*lists(c.Defs[di])[li])[i]
						r := f.HasID
						f.HasID = false
						return r
					}) {
						changed = true
					}
				}
			}
			if try(func(c *Doc) bool { x := c.Defs[di]; r := x.Extends != ""; x.Extends = ""; return r }) {
				changed = true
			}
			for fi := range cur.Defs[di].Funcs {
				fi := fi
				if try(func(c *Doc) bool { f := c.Defs[di].Funcs[fi]; r := f.Anns.Present; f.Anns = Anns{}; return r }) {
					changed = true
				}
				if try(func(c *Doc) bool {
					f := c.Defs[di].Funcs[fi]
					r := !f.Void || f.Oneway
					f.Void, f.Oneway, f.Type = true, false, nil
					return r
				}) {
					changed = true
				}
				if try(func(c *Doc) bool {
					f := c.Defs[di].Funcs[fi]
					r := f.HasThrows && len(f.Throws) == 0
					if r {
						f.HasThrows = false
					}
					return r
				}) {
					changed = true
				}
			}
			for vi := range cur.Defs[di].Vals {
				vi := vi
				if try(func(c *Doc) bool { v := c.Defs[di].Vals[vi]; r := v.Anns.Present; v.Anns = Anns{}; return r }) {
					changed = true
				}
			}
			if try(func(c *Doc) bool {
				x := c.Defs[di]
				if x.Type == nil || (x.Type.Kind == 0 && !x.Type.Anns.Present && x.Type.Name == "i32") {
					return false
				}
				x.Type = &Type{Name: "i32"}
				return true
			}) {
				changed = true
			}
			if try(func(c *Doc) bool {
				x := c.Defs[di]
				if x.Value == nil || (x.Value.Kind == 0 && x.Value.Int == 0 && x.Value.Sp == spDec) {
					return false
				}
				x.Value = &CVal{Kind: 0}
				return true
			}) {
				changed = true
			}
			// a container constant: keep one element
			for k := 0; k < 8; k++ {
				k := k
				if try(func(c *Doc) bool {
					x := c.Defs[di]
					if x.Value == nil || x.Value.Kind < 4 {
						return false
					}
					if k < len(x.Value.List) {
						x.Value = x.Value.List[k]
						return true
					}
					if k/2 < len(x.Value.Map) {
						x.Value = x.Value.Map[k/2][k%2]
						return true
					}
					return false
				}) {
					changed = true
				}
			}
		}
		if !changed {
			break
		}
	}
	// annotation lists: drop entries one at a time, blank values
	var annLists func(c *Doc) []*Anns
	annLists = func(c *Doc) []*Anns {
		var out []*Anns
		var ty func(t *Type)
		ty = func(t *Type) {
			if t == nil {
				return
			}
			out = append(out, &t.Anns)
			ty(t.K)
			ty(t.V)
		}
		fl := func(fs []*Field) {
			for _, f := range fs {
				out = append(out, &f.Anns)
				ty(f.Type)
			}
		}
		for _, h := range c.Headers {
			out = append(out, &h.Anns)
		}
		for _, x := range c.Defs {
			out = append(out, &x.Anns)
			ty(x.Type)
			fl(x.Fields)
			for _, v := range x.Vals {
				out = append(out, &v.Anns)
			}
			for _, f := range x.Funcs {
				out = append(out, &f.Anns)
				ty(f.Type)
				fl(f.Args)
				fl(f.Throws)
			}
		}
		return out
	}
	for round := 0; round < 4; round++ {
		changed := false
		for ai := range annLists(cur) {
			ai := ai
			for i := len(annLists(cur)[ai].List) - 1; i >= 0; i-- {
				i := i
				if try(func(c *Doc) bool { a := annLists(c)[ai]; a.List = append(a.List[:i], a.List[i+1:]...); return true }) {
					changed = true
					continue
				}
				if try(func(c *Doc) bool {
					a := annLists(c)[ai]
					r := a.List[i].Val != "v" || a.List[i].Key != "k"
					a.List[i].Val = "v"
					return r && a.List[i].Key != ""
				}) {
					changed = true
				}
			}
			if try(func(c *Doc) bool {
				a := annLists(c)[ai]
				r := a.Present && len(a.List) == 0
				if r {
					a.Present = false
				}
				return r
			}) {
				changed = true
			}
		}
		if !changed {
			break
		}
	}
	// short names
	n := 0
	try(func(c *Doc) bool {
		for _, x := range c.Defs {
			n++
			x.Name = fmt.Sprintf("D%d", n)
			for _, f := range x.Fields {
				n++
				f.Name = fmt.Sprintf("f%d", n)
			}
			for _, v := range x.Vals {
				n++
				v.Name = fmt.Sprintf("V%d", n)
			}
			for _, fn := range x.Funcs {
				n++
				fn.Name = fmt.Sprintf("m%d", n)
				for _, f := range append(append([]*Field{}, fn.Args...), fn.Throws...) {
					n++
					f.Name = fmt.Sprintf("a%d", n)
				}
			}
		}
		return true
	})
	return cur
}

// classOf names a failure by the suspect spelling the document contains and by what went wrong; a rejection and a
// wrong AST are different failures even for the same spelling.
func classOf(d *Doc, v docVerdict) string {
	cls := d.features().class()
	if cls == "" && len(d.Headers) == 0 && len(d.Defs) == 0 {
		cls = "empty-document"
	}
	if cls == "" {
		return ""
	}
	rejected := strings.HasPrefix(v.observed, "error")
	switch {
	case cls == "empty-document" || cls == "fieldid-range":
		if !rejected && cls == "empty-document" {
			return cls + "/wrong-ast"
		}
		return cls
	case rejected:
		return cls + "/rejected"
	}
	return cls
}

func (x *runner) reportDoc(d *Doc, v docVerdict) {
	cls := classOf(d, v)
	if cls != "" && x.reported[cls] {
		x.out.Count("oracle:" + cls + "-again")
		return
	}
	if cls == "" && x.generic >= 3 {
		x.out.Count("oracle:ast-mismatch-again")
		return
	}
	// the layouts under which a smaller document is tried: the canonical one, and — for failures that need a particular
	// layout (comment style, line ends, separators) — adversarial and random ones
	firstFail := func(c *Doc) docVerdict {
		if w := judge(c, render(c, layCanon, 1)); !w.ok {
			return w
		}
		for seed := uint64(1); seed <= 6; seed++ {
			if w := judge(c, render(c, layAdversarial, seed)); !w.ok {
				return w
			}
			if w := judge(c, render(c, layRandom, seed)); !w.ok {
				return w
			}
		}
		return docVerdict{ok: true}
	}
	fails := func(c *Doc) bool { return !firstFail(c).ok }
	min := d
	if fails(d) {
		min = shrinkDoc(d, fails)
		v = firstFail(min)
	}
	key := classOf(min, v)
	if key == "" {
		key = "ast:" + vl.Hex(v.text)
		if !x.reported[key] {
			x.generic++
		}
	}
	x.reported[key] = true
	x.out.Fail(vl.OracleFail{Key: key, What: v.what, Input: map[string]interface{}{"kind": "doc", "text": v.text, "hex": vl.Hex(v.text), "expected_ast": v.expected},
		Expected: v.expected, Observed: v.observed})
}

// ---------------------------------------------------------------- raw and mutated inputs

var pieces = []string{"{", "}", "(", ")", "[", "]", "<", ">", ",", ";", ":", "=", "*", "\"", "'", "\\", "/*", "*/", "//", "#", "\n", "\r", " ", "\t", "\v",
	".", "+", "-", "0x", "0o", "1", "e", "E", "const", "typedef", "enum", "struct", "union", "exception", "service", "extends", "throws", "oneway", "void",
	"include", "cpp_include", "namespace", "cpp_type", "required", "optional", "map", "set", "list", "i32", "string", "double", "a", "B_", "é", "\xff", "\xe6\x9c", "\x00"}

func (x *runner) mutate(s string) string {
	b := []byte(s)
	for i, n := 0, 1+x.r.Intn(3); i < n; i++ {
		if len(b) == 0 {
			b = []byte(pieces[x.r.Intn(len(pieces))])
			continue
		}
		p := x.r.Intn(len(b))
		switch x.r.Intn(7) {
		case 0: // delete a byte
			b = append(b[:p], b[p+1:]...)
		case 1: // delete a span
			q := p + x.r.Intn(12)
			if q > len(b) {
				q = len(b)
			}
			b = append(b[:p], b[q:]...)
		case 2: // insert a grammar piece
			pc := pieces[x.r.Intn(len(pieces))]
			b = append(b[:p], append([]byte(pc), b[p:]...)...)
		case 3: // duplicate a span
			q := p + x.r.Intn(12)
			if q > len(b) {
				q = len(b)
			}
			b = append(b[:q], append(append([]byte{}, b[p:q]...), b[q:]...)...)
		case 4: // truncate
			b = b[:p]
		case 5: // replace a byte
			b[p] = byte(x.r.Intn(256))
		case 6: // swap two bytes
			q := x.r.Intn(len(b))
			b[p], b[q] = b[q], b[p]
		}
	}
	return string(b)
}

func (x *runner) rawString(max int) (string, string) {
	n := x.r.Intn(max + 1)
	switch x.r.Intn(5) {
	case 0:
		b := make([]byte, n)
		for i := range b {
			b[i] = byte(x.r.Intn(256))
		}
		return string(b), "raw-bytes"
	case 1:
		b := make([]byte, n)
		for i := range b {
			b[i] = byte(32 + x.r.Intn(95))
		}
		return string(b), "raw-ascii"
	default:
		var sb strings.Builder
		for sb.Len() < n {
			sb.WriteString(pieces[x.r.Intn(len(pieces))])
			if x.r.Chance(30) {
				sb.WriteByte(' ')
			}
		}
		return sb.String(), "raw-pieces"
	}
}

// deep returns pathological nestings and runs of length about n bytes.
func deep(k, n int) (string, string) {
	switch k % 10 {
	case 0:
		return "const i32 x = " + strings.Repeat("[", n), "deep-list-open"
	case 1:
		return "const i32 x = " + strings.Repeat("[", n/2) + strings.Repeat("]", n/2), "deep-list-closed"
	case 2:
		m := n / 6
		return "struct S { 1: " + strings.Repeat("list<", m) + "i32" + strings.Repeat(">", m) + " x }", "deep-type-closed"
	case 3:
		return "typedef " + strings.Repeat("list<", n/5), "deep-type-open"
	case 4:
		return "const i32 x = " + strings.Repeat("{1:", n/3), "deep-map-open"
	case 5:
		m := n / 4
		return "const i32 x = " + strings.Repeat("{1:", m) + "1" + strings.Repeat("}", m), "deep-map-closed"
	case 6:
		return "/*" + strings.Repeat("/*", n/2), "long-open-comment"
	case 7:
		return strings.Repeat(" \n\t", n/3) + "struct S {}", "long-space"
	case 8:
		m := n / 7
		return "typedef " + strings.Repeat("map<i8,", m) + "i8" + strings.Repeat(">", m) + " T", "deep-map-type"
	default:
		return "const string s = \"" + strings.Repeat("\\\"", n/2), "long-open-literal"
	}
}

// corpus: hand-written inputs for the quirks found while modelling.
var corpus = []string{
	"", " ", "\n", "// only a comment", "# c\n", "/* c */", "/* open", "include \"\"", "include \"a\" include \"a\" include 'a'", "cpp_include \"\"",
	"namespace * x", "namespace go a.b (x = \"y\")", "const double d = 1e5", "const double d = 1.5e3", "const double d = 1e 0x1p3", "const double d = .5",
	"const i32 x = 010", "const i32 x = 08", "const i32 x = 0xZZ", "const i32 x = 0o8", "const i64 x = 99999999999999999999", "const i64 x = -9223372036854775808",
	"enum E { A = 010, B = 08, C = 0xZZ, D = 99999999999999999999, F }", "enum E { A = 9223372036854775807, B }", "enum E { A B, C; D = -1 E }",
	"struct S { 0x10: i32 a; i32 b }", "struct S { -999999: i32 a }", "struct S { 99999999999: i32 a; i32 b }", "struct S { 2147483647: i32 a; i32 b }",
	"struct S { -99999999999: i32 a }", "struct S { +5: i32 a }", "struct S { 1: requiredness x }", "struct S { 1: optional_t v }", "struct S { 1: required required_t v }",
	"const string s = \"\"", "const string s = ''", "const string s = 'a\\'b\\\"c'", "const string s = \"a\\\\\" \"", "const string s = \"\\\\\"", "const string s = \"a\\\\",
	"struct S { 1: string a = \"\" , 2: string b }", "typedef list<i32> cpp_type \"\" T", "typedef map cpp_type 'x' <i32, set cpp_type \"y\" <i8>> T (a = '')",
	"service S extends T { oneway void f(1: i32 a) throws (1: E e) (a = \"b\"); i32 (x = \"y\") g() }", "service S { void f(), void g(); void h() }",
	"struct S { 1: i32 a = 1 2: i32 b = [1 2,3;] 3: map<i32,i32> c = {1:2 3:4,} }", "const i32 x = 1 (a = \"b\", a = \"c\", b = \"d\")", "const i32 x = 1, (a = \"b\")",
	"struct S {} ()", "struct S {} (a = \"\")", "struct 本 {}", "const string s = \"本\xff\"", "\xef\xbb\xbfstruct S {}", "struct S { 1: i32 a // c\r 2: i32 b # d\r\n }",
	"/* a */ // b\n# c\nstruct S { /* d */ 1: i32 a /* e */ // f\n }", "const i32 e1 = 1 const double e2 = 1 const list<i32> l = [1 e5]",
}

// suspects are the smallest documents showing each spelling on which the tree failed before the fixes 5d7ef08, 5914c39,
// d36828f, 1a143d7, 809bbec (regression items, checked first under three layouts) or still fails (fieldreq-prefix).
func suspects() []*Doc {
	i32 := func() *Type { return &Type{Name: "i32"} }
	st := func(f *Field) *Doc { return &Doc{Defs: []*Def{{Kind: "struct", Name: "S", Fields: []*Field{f}}}} }
	return []*Doc{
		{Defs: []*Def{{Kind: "const", Name: "d", Type: &Type{Name: "double"}, Value: &CVal{Kind: 1, Dbl: "1e5"}}}},
		{Defs: []*Def{{Kind: "const", Name: "l", Type: &Type{Kind: 3, Name: "list", V: &Type{Name: "double"}}, Value: &CVal{Kind: 4, List: []*CVal{{Kind: 1, Dbl: "1.5e3"}, {Kind: 1, Dbl: "-2E-2"}}}}}},
		st(&Field{HasID: true, ID: 15, Sp: spOct, Type: i32(), Name: "a"}),
		{Defs: []*Def{{Kind: "enum", Name: "E", Vals: []*EnumVal{{Name: "A", HasVal: true, Val: 31, Sp: spHex}, {Name: "B"}}}}},
		st(&Field{HasID: true, ID: 16, Sp: spHex, Type: i32(), Name: "a"}),
		st(&Field{HasID: true, ID: 99999999999, Type: i32(), Name: "a"}),
		st(&Field{HasID: true, ID: 1, Type: &Type{Name: "requiredness"}, Name: "x"}),
		{},
		aimedIDs(),
	}
}

// aimedIDs is a fixed document writing explicit field ids and enum values in every spelling, at every site
// (struct, union, exception, arguments, throws; enum): zero-padded ids made of octal digits only (`010`, `0012`, `-010`),
// padded ids with 8 / 9, hex in both cases, 0o-octal, signed.
func aimedIDs() *Doc {
	i32 := func() *Type { return &Type{Name: "i32"} }
	n := 0
	fld := func(id int64, sp int) *Field {
		n++
		return &Field{HasID: true, ID: id, Sp: sp, Type: i32(), Name: fmt.Sprintf("f%d", n)}
	}
	imp := func() *Field { n++; return &Field{Type: i32(), Name: fmt.Sprintf("f%d", n)} }
	ev := func(name string, v int64, sp int) *EnumVal { return &EnumVal{Name: name, HasVal: true, Val: v, Sp: sp} }
	return &Doc{Defs: []*Def{
		{Kind: "struct", Name: "Padded", Fields: []*Field{fld(1, spPad3), fld(8, spPad3), fld(9, spLeadZero), fld(10, spLeadZero), fld(11, spPad3), imp(),
			fld(32, spHex), fld(15, spOct), fld(47, spHexUp), fld(100, spDec), fld(101, spPlus), fld(777, spPad5), imp()}},
		{Kind: "union", Name: "U", Fields: []*Field{fld(12, spPad5), imp(), fld(63, spLeadZero), imp()}},
		{Kind: "exception", Name: "X", Fields: []*Field{fld(-10, spLeadZero), fld(-7, spPad3), imp(), fld(77, spPad5)}},
		{Kind: "service", Name: "Svc", Funcs: []*Func{{Void: true, Name: "call", Args: []*Field{fld(10, spLeadZero), fld(20, spPad3), imp()},
			HasThrows: true, Throws: []*Field{fld(12, spLeadZero), imp()}}}},
		// enum values: base-prefixed reading first is the rule there: `010` = 8, `08` = 8, `-010` = -8
		{Kind: "enum", Name: "E", Vals: []*EnumVal{ev("A", 10, spLeadZero), {Name: "B"}, ev("C", 8, spLeadZero), ev("D", 31, spHex), ev("F", 15, spOct),
			ev("G", -10, spLeadZero), {Name: "H"}, ev("I", 19, spPad3), ev("J", 7, spPlus), ev("K", 12, spPad5)}},
	}}
}

// ---------------------------------------------------------------- run

func run(repo, dir string, seed uint64, tier string) error {
	g, err := loadGrammar(repo)
	if err != nil {
		return err
	}
	x := &runner{out: vl.NewOut(dir), ri: newRuleIndex(g), r: vl.NewRng(seed), tier: tier, reported: map[string]bool{}}
	nDocs, nRaw, maxRaw, nDeep, deepSize := 3000, 12000, 600, 20, 8192
	if tier == "thorough" {
		nDocs, nRaw, maxRaw, nDeep, deepSize = 100000, 60000, 4000, 40, 65536
	}
	for _, s := range corpus {
		x.check(s, "corpus", true, false)
	}
	// the suspects of DESIGN §7 and of the modelling, as minimal documents, through the same oracle
	for _, d := range suspects() {
		for _, text := range []string{render(d, layCanon, 1), render(d, layAdversarial, 1), render(d, layRandom, 2)} {
			x.check(text, "regression", true, false)
			if v := judge(d, text); !v.ok {
				x.reportDoc(d, v)
			}
		}
	}
	for i := 0; i < nDocs; i++ {
		dg := &docGen{r: x.r}
		mode := "plain"
		switch p := x.r.Intn(100); {
		case p < 12:
			dg.risky, mode = true, "risky"
		case p < 24:
			dg.wild, mode = true, "wild"
		}
		d := dg.doc()
		seeds := [2]uint64{x.r.U64(), x.r.U64()}
		styles := [2]int{layRandom, []int{layAdversarial, layRandom, layCanon}[x.r.Intn(3)]}
		nt := d.kinds() >= 3
		var dumps [2]string
		var verdict docVerdict
		verdict.ok = true
		for k := 0; k < 2; k++ {
			text := render(d, styles[k], seeds[k])
			_, ao := x.check(text, fmt.Sprintf("doc-%s-layout%d", mode, styles[k]), true, nt)
			if ao.ast != nil {
				dumps[k] = thriftStrNC(ao.ast)
			} else {
				dumps[k] = "error"
			}
			if i < 4 && k == 0 {
				x.out.Sample(map[string]interface{}{"doc_text": text, "mode": mode})
			}
			if mode != "wild" && verdict.ok {
				verdict = judge(d, text)
			}
			// grammar-directed mutations of the rendering (correspondence + totality only)
			if x.r.Chance(40) {
				x.check(x.mutate(text), "mutated-doc", true, false)
			}
		}
		for _, df := range d.Defs {
			x.out.Count("def:" + df.Kind)
		}
		if mode == "wild" {
			continue
		}
		if !verdict.ok {
			x.reportDoc(d, verdict)
		} else if dumps[0] != dumps[1] {
			x.out.Fail(vl.OracleFail{Key: "layout:" + vl.Hex(render(d, styles[0], seeds[0])), What: "two layouts of one document give different ASTs",
				Input:    map[string]interface{}{"kind": "layout", "text1": render(d, styles[0], seeds[0]), "text2": render(d, styles[1], seeds[1])},
				Expected: dumps[0], Observed: dumps[1]})
		}
	}
	for i := 0; i < nRaw; i++ {
		s, class := x.rawString(maxRaw)
		x.check(s, class, true, false)
	}
	for i := 0; i < nDeep; i++ {
		n := deepSize
		if i >= 10 {
			n = 64 + x.r.Intn(deepSize)
		}
		s, class := deep(i, n)
		if len(s) > 65536 {
			s = s[:65536]
		}
		x.check(s, class, true, false)
	}
	if tier == "thorough" {
		for i := 0; i < 30; i++ {
			s, class := x.rawString(65536)
			x.check(s, class+"-64k", true, false)
		}
	}
	x.out.Stats["slowest_parse_ms"] = int(x.slowest)
	x.out.Close()
	return nil
}

// ---------------------------------------------------------------- replay

type replayFile struct {
	Input map[string]interface{} `json:"input"`
	Key   string                 `json:"key"`
	What  string                 `json:"what"`
}

func replay(repo, file string) ([]vl.OracleFail, error) {
	b, err := os.ReadFile(file)
	if err != nil {
		return nil, err
	}
	var rf replayFile
	if err := json.Unmarshal(b, &rf); err != nil {
		return nil, err
	}
	g, err := loadGrammar(repo)
	if err != nil {
		return nil, err
	}
	ri := newRuleIndex(g)
	str := func(k string) string { s, _ := rf.Input[k].(string); return s }
	var fails []vl.OracleFail
	switch str("kind") {
	case "raw":
		s := vl.UnHex(str("hex"))
		po := observePeg(ri, s)
		var ao astObs
		if po.ok {
			ao = observeAST(s)
		}
		if po.panic != "" || ao.panic != "" {
			fails = append(fails, vl.OracleFail{Key: rf.Key, What: rf.What, Input: rf.Input, Expected: "AST or error", Observed: "panic: " + firstLine(po.panic+ao.panic)})
		} else if po.parseMillis+ao.millis > timeoutMillis && slowAgain(s) {
			fails = append(fails, vl.OracleFail{Key: rf.Key, What: rf.What, Input: rf.Input, Expected: "bounded time", Observed: fmt.Sprintf("%d ms", po.parseMillis+ao.millis)})
		}
	case "doc":
		s := vl.UnHex(str("hex"))
		exp := str("expected_ast")
		ao := observeAST(s)
		got := "error"
		if ao.panic != "" {
			got = "panic"
		} else if ao.err == nil {
			got = thriftStrNC(ao.ast)
		}
		if got != exp {
			fails = append(fails, vl.OracleFail{Key: rf.Key, What: rf.What, Input: rf.Input, Expected: exp, Observed: got})
		}
	case "layout":
		d := [2]string{}
		for i, k := range []string{"text1", "text2"} {
			ao := observeAST(str(k))
			d[i] = "error"
			if ao.ast != nil && ao.panic == "" {
				d[i] = thriftStrNC(ao.ast)
			}
		}
		if d[0] != d[1] {
			fails = append(fails, vl.OracleFail{Key: rf.Key, What: rf.What, Input: rf.Input, Expected: d[0], Observed: d[1]})
		}
	default:
		return nil, fmt.Errorf("replay file has no failing input (kind=%q): a broken obligation is re-checked by running the check itself", str("kind"))
	}
	if fails == nil {
		fails = []vl.OracleFail{}
	}
	return fails, nil
}
