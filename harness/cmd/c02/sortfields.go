package main

import (
	"encoding/binary"
	"errors"
	"sort"
)

// sortFields re-encodes one binary-protocol struct with the fields of every struct (at any depth)
// sorted by field id. Used for units generated with reorder_fields, whose Write emits the fields in
// the (permuted) order of the Go struct layout.
func sortFields(b []byte) ([]byte, error) {
	out, n, err := sortStruct(b, 0)
	if err != nil {
		return nil, err
	}
	if n != len(b) {
		return nil, errors.New("trailing bytes")
	}
	return out, nil
}

var errShort = errors.New("short")

func sortStruct(b []byte, off int) ([]byte, int, error) {
	type fld struct {
		id  int16
		enc []byte
	}
	var fs []fld
	for {
		if off >= len(b) {
			return nil, 0, errShort
		}
		t := b[off]
		if t == 0 {
			off++
			break
		}
		if off+3 > len(b) {
			return nil, 0, errShort
		}
		id := int16(binary.BigEndian.Uint16(b[off+1:]))
		v, next, err := sortValue(t, b, off+3)
		if err != nil {
			return nil, 0, err
		}
		fs = append(fs, fld{id, append(append([]byte{}, b[off:off+3]...), v...)})
		off = next
	}
	sort.SliceStable(fs, func(i, j int) bool { return uint16(fs[i].id) < uint16(fs[j].id) })
	var out []byte
	for _, f := range fs {
		out = append(out, f.enc...)
	}
	return append(out, 0), off, nil
}

func sortValue(t byte, b []byte, off int) ([]byte, int, error) {
	fixed := map[byte]int{2: 1, 3: 1, 4: 8, 6: 2, 8: 4, 10: 8}
	if n, ok := fixed[t]; ok {
		if off+n > len(b) {
			return nil, 0, errShort
		}
		return b[off : off+n], off + n, nil
	}
	switch t {
	case 11:
		if off+4 > len(b) {
			return nil, 0, errShort
		}
		n := int(binary.BigEndian.Uint32(b[off:]))
		if n < 0 || off+4+n > len(b) {
			return nil, 0, errShort
		}
		return b[off : off+4+n], off + 4 + n, nil
	case 12:
		return sortStruct(b, off)
	case 13:
		if off+6 > len(b) {
			return nil, 0, errShort
		}
		kt, vt := b[off], b[off+1]
		n := int(binary.BigEndian.Uint32(b[off+2:]))
		out := append([]byte{}, b[off:off+6]...)
		off += 6
		for i := 0; i < n; i++ {
			k, next, err := sortValue(kt, b, off)
			if err != nil {
				return nil, 0, err
			}
			v, next2, err := sortValue(vt, b, next)
			if err != nil {
				return nil, 0, err
			}
			out = append(append(out, k...), v...)
			off = next2
		}
		return out, off, nil
	case 14, 15:
		if off+5 > len(b) {
			return nil, 0, errShort
		}
		et := b[off]
		n := int(binary.BigEndian.Uint32(b[off+1:]))
		out := append([]byte{}, b[off:off+5]...)
		off += 5
		for i := 0; i < n; i++ {
			v, next, err := sortValue(et, b, off)
			if err != nil {
				return nil, 0, err
			}
			out = append(out, v...)
			off = next
		}
		return out, off, nil
	}
	return nil, 0, errors.New("unknown type")
}
