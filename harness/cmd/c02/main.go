// c02: harness for property C02 (generated Read/Write implement the Thrift wire format of the IDL),
// derived from cmd/batchdemo: idlgen -> batch.Build (thriftgo + one go build) -> valgen -> driver ops W/R/N
// (+ unknown-field / retag / delete-required perturbations), the wire ORACLE evaluated on the implementation
// alone via refcodec, and the op/answer files for the correspondence with the Lean model (tv_c02).
//
//	c02 extract -repo R                       print Generated/C02.lean (category -> TType table)
//	c02 run     -repo R -dir D -seed N -tier T
package main

import (
	"encoding/hex"
	"errors"
	"flag"
	"fmt"
	"os"
	"path/filepath"
	"sort"
	"strings"
	"time"

	"verifharness/internal/batch"
	"verifharness/internal/idlgen"
	"verifharness/internal/refcodec"
	"verifharness/internal/values"
	"verifharness/internal/values/valgen"
	"verifharness/internal/vl"
)

// option sets exercised by the demo (go backend); every program gets three of them in rotation.
var optionSets = [][]string{
	{},
	{"keep_unknown_fields"},
	{"value_type_in_container"},
	{"enum_as_int_32"},
	{"gen_deep_equal"},
	{"naming_style=golint"},
	{"validate_set=false"},
	// presentation-only options: must not change a single wire byte
	{"naming_style=apache", "gen_setter", "reorder_fields"},
	{"nil_safe", "frugal_tag", "gen_db_tag", "snake_style_json_tag", "typed_enum_string"},
	{"use_type_alias=false", "compatible_names", "omitempty_for_optional=false", "json_stringer"},
	{"ignore_initialisms", "lower_camel_style_json_tag", "reserve_comments", "scan_value_for_enum=false", "json_enum_as_text"},
	{"value_type_in_container", "enum_as_int_32", "keep_unknown_fields", "gen_deep_equal"},
}

func has(opts []string, o string) bool {
	for _, x := range opts {
		if x == o {
			return true
		}
	}
	return false
}

func main() {
	if len(os.Args) < 2 {
		fmt.Fprintln(os.Stderr, "usage: c02 extract|idl|build|run [flags]")
		os.Exit(2)
	}
	fs := flag.NewFlagSet(os.Args[1], flag.ExitOnError)
	repo := fs.String("repo", "/repo", "repository under test")
	dir := fs.String("dir", "", "output directory (ops.txt, impl.txt, stats.json; work files under <dir>/work)")
	seed := fs.Uint64("seed", 1, "seed")
	nunits := fs.Int("units", 16, "number of programs")
	nvalues := fs.Int("values", 6, "values per struct")
	stress := fs.Bool("stress", false, "names from the stress pool instead of S0/f1")
	tier := fs.String("tier", "quick", "quick|thorough")
	keep := fs.Bool("keep", false, "keep the work directory")
	fs.Parse(os.Args[2:])
	cfg := idlgen.DefaultConfig()
	cfg.SafeNames = !*stress
	if *tier == "thorough" && *nunits == 16 {
		*nunits, *nvalues = 60, 10
	} else if *nunits == 16 {
		*nunits = 8
	}
	switch os.Args[1] {
	case "extract":
		if err := extract(*repo); err != nil {
			fmt.Fprintln(os.Stderr, "c02 extract:", err)
			os.Exit(3)
		}
	case "idl":
		p := idlgen.Generate(vl.NewRng(vl.NewRng(*seed).U64()), cfg)
		files := p.Render()
		var names []string
		for n := range files {
			names = append(names, n)
		}
		sort.Strings(names)
		for _, n := range names {
			fmt.Printf("==== %s\n%s", n, files[n])
		}
		for _, l := range p.Schema().Lines("u0", nil) {
			fmt.Println(l)
		}
	case "build":
		r := vl.NewRng(vl.NewRng(*seed).U64())
		var us []batch.Unit
		for i := 0; i < *nunits; i++ {
			us = append(us, batch.Unit{Prog: idlgen.Generate(r, cfg), Recurse: true, Options: optionSets[i%len(optionSets)]})
		}
		b, err := batch.Build(*dir, *repo, us, nil)
		if b != nil {
			fmt.Println(b.Summary())
			reportUnits(b)
		}
		if err != nil {
			fmt.Println("ERROR", err)
			os.Exit(1)
		}
	case "run":
		if *dir == "" {
			fmt.Fprintln(os.Stderr, "-dir is required")
			os.Exit(2)
		}
		os.Exit(run(*repo, *dir, *seed, *nunits, *nvalues, cfg, *keep))
	default:
		fmt.Fprintln(os.Stderr, "unknown subcommand", os.Args[1])
		os.Exit(2)
	}
}

func reportUnits(b *batch.Built) int {
	bad := 0
	for i := range b.Units {
		u := &b.Units[i]
		if u.OK() {
			continue
		}
		bad++
		fmt.Printf("UNIT %s (%s) not usable: exit=%d\n  cmd: %s\n  idl: %s\n", u.Key, u.Tag, u.Exit, strings.Join(u.Cmd, " "), u.IDLDir)
		for _, e := range u.ParseErrors {
			fmt.Println("  parse:", e)
		}
		for i, e := range u.BuildErrors {
			if i < 6 {
				fmt.Println("  build:", e)
			}
		}
		if u.Exit != 0 {
			fmt.Println("  stderr:", firstLines(u.Stderr, 6))
		}
		for _, e := range u.Registry {
			if !e.Found {
				fmt.Println("  registry:", e.Sidx, e.Note)
			}
		}
	}
	return bad
}

func firstLines(s string, n int) string {
	ls := strings.Split(strings.TrimSpace(s), "\n")
	if len(ls) > n {
		ls = ls[:n]
	}
	return strings.Join(ls, " | ")
}

// check is one oracle obligation attached to an op line.
type check struct {
	unit    *batch.UnitInfo
	sidx    int
	what    string        // "W", "R", "R+unknown", "R+retag", "R-required", "FW", "BL", "FR"
	value   *values.Value // the generated value
	expect  *values.Value // expected normal form (nil: see expectErr / expectAny)
	wantErr bool          // the op must answer `err`
	wantLen int           // BL
	skip    string        // non-empty: no oracle for this line (reason counted)
}

func run(repo, dir string, seed uint64, nunits, nvalues int, cfg idlgen.Config, keep bool) int {
	t0 := time.Now()
	if err := os.MkdirAll(dir, 0o755); err != nil {
		fmt.Fprintln(os.Stderr, err)
		return 2
	}
	work := filepath.Join(dir, "work")
	os.RemoveAll(work)
	if !keep {
		defer os.RemoveAll(work)
	}
	out := vl.NewOut(dir)
	defer out.Close()
	// vl.NewRng(seed) and vl.NewRng(seed+1) are the same stream shifted by one draw: derive a mixed seed
	r := vl.NewRng(vl.NewRng(seed).U64())

	// ---- units: K programs x 3 option sets, plus one fastgo unit
	var units []batch.Unit
	for i := 0; i < nunits; i++ {
		p := idlgen.Generate(r, cfg)
		p.Stats(out.Count)
		for j := 0; j < 3; j++ {
			o := optionSets[(i+j*2+int(seed))%len(optionSets)]
			if j == 0 {
				o = optionSets[0]
			}
			units = append(units, batch.Unit{Prog: p, Recurse: true, Options: o, Tag: fmt.Sprintf("prog%d", i)})
		}
	}
	// the directed unit (seed independent), under the default option set and one representation-changing set
	units = append(units, batch.Unit{Prog: directedProgram(), Recurse: true, Tag: "directed"},
		batch.Unit{Prog: directedProgram(), Recurse: true, Options: []string{"nil_safe", "gen_setter"}, Tag: "directed"})
	b, err := batch.Build(work, repo, units, nil)
	if b != nil {
		fmt.Println(b.Summary())
	}
	if err != nil {
		fmt.Println("ERROR:", err)
		return 2
	}
	badUnits := reportUnits(b)
	for i := range b.Units {
		u := &b.Units[i]
		if !u.OK() {
			// a unit thriftgo rejects or whose output does not compile is C01's business, not C02's:
			// counted here, reported there. (If most units are unusable the run is not evidence: see below.)
			out.Count("unit.unusable")
			out.Sample(map[string]interface{}{"unusable_unit": u.Key, "options": u.Options, "build": u.BuildErrors, "exit": u.Exit})
		}
	}
	if badUnits*2 > len(b.Units) {
		out.Fail(vl.OracleFail{Key: "units-unusable", What: fmt.Sprintf("%d of %d units were rejected or did not compile", badUnits, len(b.Units)),
			Expected: "generated code compiles", Observed: b.Summary()})
	}
	if chk, err := b.Check(); err != nil || !strings.Contains(chk, " bad 0") {
		fmt.Println("driver -check:", chk, err)
		out.Fail(vl.OracleFail{Key: "registry", What: "driver registry self check", Observed: chk})
	}

	// ---- ops
	var lines []string
	var checks []*check
	add := func(line string, c *check) {
		lines = append(lines, line)
		checks = append(checks, c)
	}
	for i := range b.Units {
		u := &b.Units[i]
		if !u.OK() {
			continue
		}
		for _, l := range u.SchemaLines() {
			add(l, nil)
		}
		out.Count("unit.options." + strings.Join(u.PLineOptions(), ","))
		vcfg := valgen.Config{Count: out.Count}
		vcfg.DupSets = has(u.Options, "validate_set=false")
		vcfg.NilElems = !has(u.Options, "value_type_in_container")
		for sidx, st := range u.Schema.Structs {
			key := fmt.Sprintf("%s:%d", u.Key, sidx)
			add("N "+key, &check{unit: u, sidx: sidx, what: "N", expect: st.Initial()})
			if u.Tag == "directed" {
				vs := directedValues()
				if st.Name == "Num" {
					vs = directedNumValues()
				}
				for _, v := range vs {
					genOps(r, u, sidx, key, v, add, out)
				}
				continue
			}
			for k := 0; k < nvalues; k++ {
				v := valgen.Gen(r, u.Schema, sidx, 1+r.Intn(6), vcfg)
				out.Count(fmt.Sprintf("val.depth.%d", v.Depth()))
				genOps(r, u, sidx, key, v, add, out)
			}
		}
	}
	answers, err := b.RunLines(lines)
	if err != nil {
		fmt.Println("ERROR:", err)
		return 2
	}

	// ---- oracle
	fails := 0
	fwLen := map[string]int{}
	for i, line := range lines {
		ans := answers[i]
		c := checks[i]
		impl := ans
		if strings.HasPrefix(line, "W ") && strings.HasPrefix(ans, "ok ") {
			// map order is canonicalised on the harness side before the line goes to impl.txt
			if raw, err := hex.DecodeString(strings.TrimPrefix(ans[3:], "-")); err == nil {
				if cb, err := refcodec.Canon(raw); err == nil {
					if c != nil && has(c.unit.Options, "reorder_fields") {
						// reorder_fields permutes the struct layout and with it the order in which Write emits the
						// fields: compared with the model modulo field order; the byte-level difference is the
						// oracle's business (presentation clause, below)
						if sb, err := sortFields(cb); err == nil {
							cb = sb
						}
					}
					impl = "ok " + hex.EncodeToString(cb)
				} else {
					impl = "ok malformed:" + ans[3:]
				}
			}
		}
		out.Case(line, impl, c != nil && c.what != "N")
		if c == nil {
			continue
		}
		out.Count("op." + c.what)
		if c.skip != "" {
			out.Count("oracle.skip." + c.skip)
			continue
		}
		if c.what == "FW" && strings.HasPrefix(ans, "ok ") {
			fwLen[line[3:]] = len(strings.TrimPrefix(ans[3:], "-")) / 2
		}
		if c.what == "BL" {
			if n, ok := fwLen[line[3:]]; ok {
				c.wantLen = n
			}
		}
		if msg := verdict(c, ans); msg != "" {
			fails++
			if fails <= 10 {
				fmt.Printf("ORACLE FAIL [%s %s] %s\n  op: %.300s\n  got: %.300s\n", c.unit.Key, strings.Join(c.unit.Options, ","), msg, line, ans)
			}
			exp := "err"
			if c.expect != nil {
				exp = c.expect.String()
			}
			key := line
			if msg == "PRESENTATION:field-order" {
				key = "presentation:" + strings.Join(c.unit.Options, ",") + ":wire-field-order"
				if has(c.unit.Options, "reorder_fields") {
					key = "presentation:reorder_fields:wire-field-order"
				}
				msg = "the option set changes the order in which struct fields are written (bytes differ from the default option set's)"
			}
			out.Fail(vl.OracleFail{Key: key, What: c.what + ": " + msg,
				Input:    map[string]interface{}{"unit": c.unit.Key, "options": c.unit.Options, "backend": c.unit.Backend, "schema": c.unit.SchemaLines(), "op": line, "idl_dir": c.unit.IDLDir},
				Expected: exp, Observed: ans})
			out.Sample(map[string]string{"op": line, "got": ans, "why": msg})
		} else {
			out.Count("oracle.ok." + c.what)
		}
	}
	fmt.Printf("c02: seed %d, %d units (%d unusable), %d op lines, %d oracle failures, %.1fs total\n",
		seed, len(b.Units), badUnits, len(lines), fails, time.Since(t0).Seconds())
	for k, d := range b.Timing {
		out.Stats["timing_ms."+k] = int(d.Milliseconds())
	}
	if fails > 0 {
		return 1
	}
	return 0
}

func genOps(r *vl.Rng, u *batch.UnitInfo, sidx int, key string, v *values.Value, add func(string, *check), out *vl.Out) {
	s := u.Schema
	st := s.Structs[sidx]
	enc, encErr := refcodec.Encode(s, sidx, v)
	var norm *values.Value
	var normErr error
	if encErr == nil {
		norm, normErr = refcodec.Decode(s, sidx, enc)
	}
	vs := v.String()
	fast := u.Backend == "fastgo"

	// (1) Write: the bytes must decode, under the reference codec, to the normal form of the value
	w := &check{unit: u, sidx: sidx, what: "W", value: v}
	switch {
	case errors.Is(encErr, refcodec.ErrNilUnion):
		w.skip = "nil_union" // generated Write dereferences nil (candidate defect, docs/BATCH-notes.md)
	case errors.Is(encErr, refcodec.ErrUnionCount):
		w.wantErr = true
	case encErr != nil:
		w.skip = "encode_" + encErr.Error()
	case normErr != nil:
		w.wantErr = false
		w.expect = nil // decode of the implementation's bytes must fail the same way
		w.skip = ""
	default:
		w.expect = norm
	}
	add("W "+key+" "+vs, w)
	if fast {
		fw := *w
		fw.what = "FW"
		if fw.wantErr { // FastAppend has no union check
			fw.wantErr, fw.skip = false, "fast_union"
		}
		add("FW "+key+" "+vs, &fw)
		add("BL "+key+" "+vs, &check{unit: u, sidx: sidx, what: "BL", value: v, wantLen: -1})
	}
	if encErr != nil {
		return
	}

	// (2) Read of the reference encoding
	rd := &check{unit: u, sidx: sidx, what: "R", value: v, expect: norm, wantErr: normErr != nil}
	add("R "+key+" "+hex.EncodeToString(enc), rd)
	if fast {
		fr := *rd
		fr.what = "FR"
		add("FR "+key+" "+hex.EncodeToString(enc), &fr)
	}
	if normErr != nil {
		return
	}
	fields, err := refcodec.Split(enc)
	if err != nil {
		panic(err)
	}

	// (3a) unknown field inserted at a random position: nothing changes
	{
		id := int16(r.Intn(200)) - 50
		for st.FieldByID(id) >= 0 {
			id++
		}
		t := refcodec.AllTypes[r.Intn(len(refcodec.AllTypes))]
		pos := r.Intn(len(fields) + 1)
		fs := append(append(append([]refcodec.RawField{}, fields[:pos]...), refcodec.RawField{Type: t, ID: id, Value: refcodec.Sample(r, t, 0)}), fields[pos:]...)
		add("R "+key+" "+hex.EncodeToString(refcodec.Join(fs)), &check{unit: u, sidx: sidx, what: "R+unknown", value: v, expect: norm})
	}
	if len(fields) > 0 {
		// (3b) retag one field: it keeps its initial value (or Read fails if it is required)
		pos := r.Intn(len(fields))
		fi := st.FieldByID(fields[pos].ID)
		t := refcodec.AllTypes[r.Intn(len(refcodec.AllTypes))]
		for t == refcodec.WireType(st.Fields[fi].Type) {
			t = refcodec.AllTypes[r.Intn(len(refcodec.AllTypes))]
		}
		fs := append([]refcodec.RawField{}, fields...)
		fs[pos] = refcodec.RawField{Type: t, ID: fields[pos].ID, Value: refcodec.Sample(r, t, 0)}
		c := &check{unit: u, sidx: sidx, what: "R+retag", value: v}
		if st.Fields[fi].Req == idlgen.Required {
			c.wantErr = true
		} else {
			c.expect = norm.Clone()
			c.expect.E[fi] = st.Fields[fi].Initial()
		}
		add("R "+key+" "+hex.EncodeToString(refcodec.Join(fs)), c)
	}
	// (3c) delete a required field: Read fails
	var req []int
	for i, f := range fields {
		if st.Fields[st.FieldByID(f.ID)].Req == idlgen.Required {
			req = append(req, i)
		}
	}
	if len(req) > 0 {
		pos := req[r.Intn(len(req))]
		fs := append(append([]refcodec.RawField{}, fields[:pos]...), fields[pos+1:]...)
		add("R "+key+" "+hex.EncodeToString(refcodec.Join(fs)), &check{unit: u, sidx: sidx, what: "R-required", value: v, wantErr: true})
	}
}

// verdict evaluates the oracle for one answered op; "" = fine.
func verdict(c *check, ans string) string {
	s := c.unit.Schema
	switch c.what {
	case "W", "FW":
		if c.wantErr {
			if ans != "err" {
				return "Write of a union without exactly one member set must be refused"
			}
			return ""
		}
		if !strings.HasPrefix(ans, "ok ") {
			return "Write failed"
		}
		raw, err := hex.DecodeString(strings.TrimPrefix(ans[3:], "-"))
		if err != nil {
			return "bad hex from driver"
		}
		got, derr := refcodec.Decode(s, c.sidx, raw)
		if c.expect == nil {
			// the value has no normal form (a nil struct with required members): the bytes must be rejected alike
			if derr == nil {
				return "bytes decode although the reference encoding does not"
			}
			return ""
		}
		if derr != nil {
			return "bytes do not decode under the reference codec: " + derr.Error()
		}
		if !refcodec.Equal(got, c.expect) {
			return "bytes decode to " + got.String() + ", expected " + c.expect.String()
		}
		// presentation-only options must not change a single wire byte: the bytes equal the reference
		// encoding (fields in IDL order; map entries canonical) for every unit without keep_unknown_fields
		if c.what == "W" && c.value != nil {
			if ref, err := refcodec.Encode(s, c.sidx, c.value); err == nil {
				cr, e1 := refcodec.Canon(ref)
				ci, e2 := refcodec.Canon(raw)
				if e1 == nil && e2 == nil && hex.EncodeToString(cr) != hex.EncodeToString(ci) {
					si, _ := sortFields(ci)
					sr, _ := sortFields(cr)
					if hex.EncodeToString(si) == hex.EncodeToString(sr) {
						return "PRESENTATION:field-order"
					}
					return "bytes differ from the reference encoding of the same value"
				}
			}
		}
		return ""
	case "BL":
		if !strings.HasPrefix(ans, "ok ") {
			return "BLength failed"
		}
		if c.wantLen >= 0 && ans != fmt.Sprintf("ok %d", c.wantLen) {
			return fmt.Sprintf("BLength differs from the %d bytes FastAppend wrote", c.wantLen)
		}
		return ""
	case "N", "R", "FR", "R+unknown", "R+retag", "R-required":
		if c.wantErr {
			if ans != "err" {
				return "Read must fail"
			}
			return ""
		}
		if !strings.HasPrefix(ans, "ok ") {
			return "Read failed"
		}
		got, err := values.Parse(ans[3:])
		if err != nil {
			return "unparsable dump: " + err.Error()
		}
		if !refcodec.Equal(got, c.expect) {
			return "object is " + got.String() + ", expected " + c.expect.String()
		}
		return ""
	}
	return "unknown check " + c.what
}

// extract prints Generated/C02.lean: for every parser.Category the TType constant the templates use
// (golang.GetTypeIDConstant) as its binary-protocol code.
func extract(repo string) error {
	codes := map[string]int{"BOOL": 2, "BYTE": 3, "DOUBLE": 4, "I16": 6, "I32": 8, "I64": 10, "STRING": 11, "STRUCT": 12, "MAP": 13, "SET": 14, "LIST": 15}
	var sb strings.Builder
	sb.WriteString("/- GENERATED by harness/cmd/c02 extract from /repo (golang.GetTypeIDConstant per parser.Category). Do not edit. -/\nnamespace Generated.C02\n\n")
	sb.WriteString("/-- (category name, binary-protocol type code the generated code writes/expects) -/\ndef typeIdTable : List (String × Nat) := [\n")
	rows := typeIDRows()
	for i, r := range rows {
		c, ok := codes[r[1]]
		if !ok {
			return fmt.Errorf("unknown TType constant %q for category %s", r[1], r[0])
		}
		sep := ","
		if i == len(rows)-1 {
			sep = ""
		}
		fmt.Fprintf(&sb, "  (%q, %d)%s -- thrift.%s\n", r[0], c, sep, r[1])
	}
	sb.WriteString("]\n\nend Generated.C02\n")
	fmt.Print(sb.String())
	return nil
}
