package main

import (
	"verifharness/internal/idlgen"
	"verifharness/internal/values"
)

// directedProgram is part of every run whatever the seed: one struct with an optional field WITH a declared
// default of every base type (the IsSet-compares-with-default path of FieldIsSet), incl. binary with a non-empty
// default, plus directed values (unset/nil, empty, equal to the default, different).
func directedProgram() *idlgen.Program {
	ty := func(k idlgen.Kind) *idlgen.Type { return &idlgen.Type{Kind: k} }
	fld := func(id int16, req idlgen.Req, t *idlgen.Type, name string, d *idlgen.Const) *idlgen.Field {
		return &idlgen.Field{ID: id, HasID: true, Name: name, Req: req, Type: t, Default: d}
	}
	cs := func(s string) *idlgen.Const {
		return &idlgen.Const{Kind: idlgen.CString, Text: s, Quote: '"', Val: values.Str(s)}
	}
	ci := func(t string, v int64) *idlgen.Const { return &idlgen.Const{Kind: idlgen.CInt, Text: t, Val: values.Int(v)} }
	f := &idlgen.File{Path: "dopt.thrift", GoNS: "dopt"}
	f.Structs = []*idlgen.Struct{
		{Kind: 's', Name: "Opt", Fields: []*idlgen.Field{
			fld(1, idlgen.Optional, ty(idlgen.Binary), "magic", cs("MAGIC")),
			fld(2, idlgen.Optional, ty(idlgen.String), "name", cs("nm")),
			fld(3, idlgen.Optional, ty(idlgen.I32), "n", ci("7", 7)),
			fld(4, idlgen.Optional, ty(idlgen.Bool), "flag", &idlgen.Const{Kind: idlgen.CIdent, Text: "true", Val: values.Bool(true)}),
			fld(5, idlgen.Optional, ty(idlgen.Binary), "plain", nil),
			fld(6, idlgen.Default, ty(idlgen.Binary), "dbin", cs("D")),
			fld(7, idlgen.Optional, ty(idlgen.Binary), "empty", cs("")),
		}},
	}
	return &idlgen.Program{Files: []*idlgen.File{f}}
}

// directedValues for struct Opt (field order as above).
func directedValues() []*values.Value {
	b := func(s string) *values.Value { return values.Bytes([]byte(s)) }
	n := values.Nil
	var out []*values.Value
	for _, magic := range []*values.Value{n(), b(""), b("MAGIC"), b("other")} {
		for _, plain := range []*values.Value{n(), b(""), b("x")} {
			out = append(out, values.Record(magic, values.Str("nm"), values.Int(7), values.Bool(true), plain, b("D"), b("")))
			out = append(out, values.Record(magic, values.Str(""), values.Int(0), values.Bool(false), plain, n(), n()))
			out = append(out, values.Record(magic, values.Str("zz"), values.Int(-1), values.Bool(true), plain, b(""), b("q")))
		}
	}
	return out
}
