package main

import (
	"math"
	"strconv"
	"verifharness/internal/idlgen"
	"verifharness/internal/values"
)

// directedProgram is part of every run whatever the seed: one struct with an optional field WITH a declared
// default of every base type (the IsSet-compares-with-default path of FieldIsSet), incl. binary with a non-empty
// default, plus directed values (unset/nil, empty, equal to the default, different).
func directedProgram() *idlgen.Program {
	ty := func(k idlgen.Kind) *idlgen.Type { return &idlgen.Type{Kind: k} }
	fld := func(id int16, req idlgen.Req, t *idlgen.Type, name string, d *idlgen.Const) *idlgen.Field {
		return &idlgen.Field{ID: id, HasID: true, Name: name, Req: req, Type: t, Default: d}
	}
	cs := func(s string) *idlgen.Const {
		return &idlgen.Const{Kind: idlgen.CString, Text: s, Quote: '"', Val: values.Str(s)}
	}
	ci := func(t string, v int64) *idlgen.Const {
		return &idlgen.Const{Kind: idlgen.CInt, Text: t, Val: values.Int(v)}
	}
	f := &idlgen.File{Path: "dopt.thrift", GoNS: "dopt"}
	f.Structs = []*idlgen.Struct{
		{Kind: 's', Name: "Opt", Fields: []*idlgen.Field{
			fld(1, idlgen.Optional, ty(idlgen.Binary), "magic", cs("MAGIC")),
			fld(2, idlgen.Optional, ty(idlgen.String), "name", cs("nm")),
			fld(3, idlgen.Optional, ty(idlgen.I32), "n", ci("7", 7)),
			fld(4, idlgen.Optional, ty(idlgen.Bool), "flag", &idlgen.Const{Kind: idlgen.CIdent, Text: "true", Val: values.Bool(true)}),
			fld(5, idlgen.Optional, ty(idlgen.Binary), "plain", nil),
			fld(6, idlgen.Default, ty(idlgen.Binary), "dbin", cs("D")),
			fld(7, idlgen.Optional, ty(idlgen.Binary), "empty", cs("")),
		}},
	}
	// ids written zero-padded / in hex (`010` is ten) and double defaults that need all 17 significant digits
	cd := func(t string) *idlgen.Const {
		fv, err := strconv.ParseFloat(t, 64)
		if err != nil {
			panic(err)
		}
		return &idlgen.Const{Kind: idlgen.CDouble, Text: t, Val: values.Double(math.Float64bits(fv))}
	}
	idt := func(fd *idlgen.Field, text string) *idlgen.Field { fd.IDText = text; return fd }
	f.Structs = append(f.Structs, &idlgen.Struct{Kind: 's', Name: "Num", Fields: []*idlgen.Field{
		idt(fld(10, idlgen.Optional, ty(idlgen.Double), "ratio", cd("0.123456789012")), "010"),
		idt(fld(12, idlgen.Optional, ty(idlgen.Double), "scale", cd("16777217.0")), "012"),
		idt(fld(17, idlgen.Optional, ty(idlgen.Double), "e", cd("2.718281828459045")), "017"),
		idt(fld(32, idlgen.Default, ty(idlgen.I32), "hexid", ci("5", 5)), "0x20"),
		idt(fld(9, idlgen.Optional, ty(idlgen.I64), "big", ci("1234567890123", 1234567890123)), "009"),
		idt(fld(8, idlgen.Required, ty(idlgen.Double), "next", cd("1.0000000000000002")), "08"),
	}})
	return &idlgen.Program{Files: []*idlgen.File{f}}
}

// directedNumValues for struct Num: at the defaults, at their float32 roundings, elsewhere.
func directedNumValues() []*values.Value {
	d := func(x float64) *values.Value { return values.Double(math.Float64bits(x)) }
	return []*values.Value{
		values.Record(d(0.123456789012), d(16777217.0), d(2.718281828459045), values.Int(5), values.Int(1234567890123), d(1.0000000000000002)),
		values.Record(d(float64(float32(0.123456789012))), d(16777216), d(float64(float32(2.718281828459045))), values.Int(5), values.Int(0), d(1)),
		values.Record(d(0), d(-0.5), d(1e300), values.Int(-1), values.Int(-1), d(0)),
		values.Record(d(0.123456789012), d(16777216), d(2.718281828459045), values.Int(0), values.Int(1234567890123), d(2)),
	}
}

// directedValues for struct Opt (field order as above).
func directedValues() []*values.Value {
	b := func(s string) *values.Value { return values.Bytes([]byte(s)) }
	n := values.Nil
	var out []*values.Value
	for _, magic := range []*values.Value{n(), b(""), b("MAGIC"), b("other")} {
		for _, plain := range []*values.Value{n(), b(""), b("x")} {
			out = append(out, values.Record(magic, values.Str("nm"), values.Int(7), values.Bool(true), plain, b("D"), b("")))
			out = append(out, values.Record(magic, values.Str(""), values.Int(0), values.Bool(false), plain, n(), n()))
			out = append(out, values.Record(magic, values.Str("zz"), values.Int(-1), values.Bool(true), plain, b(""), b("q")))
		}
	}
	return out
}
