package main

import (
	"github.com/cloudwego/thriftgo/generator/golang"
	"github.com/cloudwego/thriftgo/parser"
)

// typeIDRows asks the real golang.GetTypeIDConstant for every category.
func typeIDRows() [][2]string {
	cats := []struct {
		name string
		c    parser.Category
	}{
		{"bool", parser.Category_Bool}, {"byte", parser.Category_Byte}, {"i16", parser.Category_I16},
		{"i32", parser.Category_I32}, {"i64", parser.Category_I64}, {"double", parser.Category_Double},
		{"string", parser.Category_String}, {"binary", parser.Category_Binary}, {"enum", parser.Category_Enum},
		{"list", parser.Category_List}, {"set", parser.Category_Set}, {"map", parser.Category_Map},
		{"struct", parser.Category_Struct}, {"union", parser.Category_Union}, {"exception", parser.Category_Exception},
	}
	var out [][2]string
	for _, c := range cats {
		out = append(out, [2]string{c.name, golang.GetTypeIDConstant(&parser.Type{Category: c.c})})
	}
	return out
}
