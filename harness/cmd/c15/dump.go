package main

// Canonical dumps shared by the correspondence and the oracle:
//   - astDump: one parser.Thrift (with the Filename of every include's Reference) as VL tokens for the model;
//   - descDump: any descriptor object → the generic Value grammar (docs/BATCH.md §2) by reflection over the
//     thrift tags' field order; maps sorted by (key text, value text); nil pointer/map/slice → n;
//   - canonBytes: untyped strict parse of one binary-protocol struct, maps re-emitted sorted by
//     (encoded key, encoded value).

import (
	"encoding/hex"
	"fmt"
	"math"
	"sort"
	"strconv"
	"strings"

	"github.com/cloudwego/thriftgo/parser"

	"verifharness/internal/vl"
)

type tw struct{ sb strings.Builder }

func (w *tw) tok(s string) {
	if w.sb.Len() > 0 {
		w.sb.WriteByte(' ')
	}
	w.sb.WriteString(s)
}
func (w *tw) str(s string) { w.tok(vl.Hex(s)) }
func (w *tw) num(n int)    { w.tok(strconv.Itoa(n)) }

func (w *tw) annos(as parser.Annotations) {
	w.num(len(as))
	for _, a := range as {
		w.str(a.Key)
		w.num(len(a.Values))
		for _, v := range a.Values {
			w.str(v)
		}
	}
}

func (w *tw) ty(t *parser.Type) {
	if t == nil {
		w.tok("-")
		return
	}
	w.tok("T")
	w.str(t.Name)
	w.ty(t.KeyType)
	w.ty(t.ValueType)
}

func (w *tw) cv(c *parser.ConstValue) error {
	switch c.Type {
	case parser.ConstType_ConstInt:
		w.tok("i")
		w.tok(strconv.FormatInt(c.TypedValue.GetInt(), 10))
	case parser.ConstType_ConstDouble:
		w.tok("d")
		w.tok(fmt.Sprintf("%016x", math.Float64bits(c.TypedValue.GetDouble())))
	case parser.ConstType_ConstLiteral:
		w.tok("s")
		w.str(c.TypedValue.GetLiteral())
	case parser.ConstType_ConstIdentifier:
		w.tok("x")
		w.str(c.TypedValue.GetIdentifier())
	case parser.ConstType_ConstList:
		w.tok("l")
		w.num(len(c.TypedValue.GetList()))
		for _, e := range c.TypedValue.GetList() {
			if err := w.cv(e); err != nil {
				return err
			}
		}
	case parser.ConstType_ConstMap:
		w.tok("m")
		w.num(len(c.TypedValue.GetMap()))
		for _, e := range c.TypedValue.GetMap() {
			if err := w.cv(e.Key); err != nil {
				return err
			}
			if err := w.cv(e.Value); err != nil {
				return err
			}
		}
	default:
		return fmt.Errorf("const of kind %v", c.Type)
	}
	return nil
}

func (w *tw) field(f *parser.Field) error {
	w.str(f.Name)
	w.tok(strconv.FormatInt(int64(f.ID), 10))
	switch f.Requiredness {
	case parser.FieldType_Default:
		w.tok("d")
	case parser.FieldType_Required:
		w.tok("r")
	case parser.FieldType_Optional:
		w.tok("o")
	default:
		return fmt.Errorf("requiredness %v", f.Requiredness)
	}
	w.ty(f.Type)
	if f.Default == nil {
		w.tok("-")
	} else if err := w.cv(f.Default); err != nil {
		return err
	}
	w.annos(f.Annotations)
	w.str(f.ReservedComments)
	return nil
}

func (w *tw) fields(fs []*parser.Field) error {
	w.num(len(fs))
	for _, f := range fs {
		if err := w.field(f); err != nil {
			return err
		}
	}
	return nil
}

func (w *tw) structs(ss []*parser.StructLike) error {
	w.num(len(ss))
	for _, s := range ss {
		w.str(s.Name)
		if err := w.fields(s.Fields); err != nil {
			return err
		}
		w.annos(s.Annotations)
		w.str(s.ReservedComments)
	}
	return nil
}

// astDump renders what GetFileDescriptor reads of one AST node.
func astDump(a *parser.Thrift) (string, error) {
	w := &tw{}
	w.str(a.Filename)
	w.num(len(a.Includes))
	for _, inc := range a.Includes {
		if inc.Reference == nil {
			return "", fmt.Errorf("include %s without Reference", inc.Path)
		}
		w.str(inc.Reference.Filename)
	}
	w.num(len(a.Namespaces))
	for _, ns := range a.Namespaces {
		w.str(ns.Language)
		w.str(ns.Name)
	}
	w.num(len(a.Typedefs))
	for _, t := range a.Typedefs {
		w.str(t.Alias)
		w.ty(t.Type)
		w.annos(t.Annotations)
		w.str(t.ReservedComments)
	}
	w.num(len(a.Constants))
	for _, c := range a.Constants {
		w.str(c.Name)
		w.ty(c.Type)
		if err := w.cv(c.Value); err != nil {
			return "", err
		}
		w.annos(c.Annotations)
		w.str(c.ReservedComments)
	}
	w.num(len(a.Enums))
	for _, e := range a.Enums {
		w.str(e.Name)
		w.num(len(e.Values))
		for _, v := range e.Values {
			w.str(v.Name)
			w.tok(strconv.FormatInt(v.Value, 10))
			w.annos(v.Annotations)
			w.str(v.ReservedComments)
		}
		w.annos(e.Annotations)
		w.str(e.ReservedComments)
	}
	if err := w.structs(a.Structs); err != nil {
		return "", err
	}
	if err := w.structs(a.Unions); err != nil {
		return "", err
	}
	if err := w.structs(a.Exceptions); err != nil {
		return "", err
	}
	w.num(len(a.Services))
	for _, s := range a.Services {
		w.str(s.Name)
		w.str(s.Extends)
		w.num(len(s.Functions))
		for _, f := range s.Functions {
			w.str(f.Name)
			w.tok(vl.B(f.Oneway))
			w.ty(f.FunctionType)
			if err := w.fields(f.Arguments); err != nil {
				return "", err
			}
			if err := w.fields(f.Throws); err != nil {
				return "", err
			}
			w.annos(f.Annotations)
			w.str(f.ReservedComments)
		}
		w.annos(s.Annotations)
		w.str(s.ReservedComments)
	}
	return w.sb.String(), nil
}

// ---------------------------------------------------------------- canonical binary

type breader struct {
	b   []byte
	off int
}

func (r *breader) need(n int) error {
	if n < 0 || r.off+n > len(r.b) {
		return fmt.Errorf("truncated")
	}
	return nil
}
func (r *breader) take(n int) ([]byte, error) {
	if err := r.need(n); err != nil {
		return nil, err
	}
	x := r.b[r.off : r.off+n]
	r.off += n
	return x, nil
}
func (r *breader) i32() (int, []byte, error) {
	x, err := r.take(4)
	if err != nil {
		return 0, nil, err
	}
	n := int(int32(uint32(x[0])<<24 | uint32(x[1])<<16 | uint32(x[2])<<8 | uint32(x[3])))
	if n < 0 {
		return 0, nil, fmt.Errorf("negative size")
	}
	return n, x, nil
}

func canonVal(r *breader, t byte, depth int) ([]byte, error) {
	if depth > 200 {
		return nil, fmt.Errorf("too deep")
	}
	switch t {
	case 2, 3:
		return r.take(1)
	case 6:
		return r.take(2)
	case 8:
		return r.take(4)
	case 4, 10:
		return r.take(8)
	case 11:
		n, h, err := r.i32()
		if err != nil {
			return nil, err
		}
		x, err := r.take(n)
		if err != nil {
			return nil, err
		}
		return append(append([]byte{}, h...), x...), nil
	case 12:
		var out []byte
		for {
			ft, err := r.take(1)
			if err != nil {
				return nil, err
			}
			out = append(out, ft[0])
			if ft[0] == 0 {
				return out, nil
			}
			id, err := r.take(2)
			if err != nil {
				return nil, err
			}
			out = append(out, id...)
			v, err := canonVal(r, ft[0], depth+1)
			if err != nil {
				return nil, err
			}
			out = append(out, v...)
		}
	case 14, 15:
		et, err := r.take(1)
		if err != nil {
			return nil, err
		}
		n, h, err := r.i32()
		if err != nil {
			return nil, err
		}
		out := append([]byte{et[0]}, h...)
		for i := 0; i < n; i++ {
			v, err := canonVal(r, et[0], depth+1)
			if err != nil {
				return nil, err
			}
			out = append(out, v...)
		}
		return out, nil
	case 13:
		kt, err := r.take(2)
		if err != nil {
			return nil, err
		}
		n, h, err := r.i32()
		if err != nil {
			return nil, err
		}
		out := append([]byte{kt[0], kt[1]}, h...)
		type ent struct {
			k, v string
			raw  []byte
		}
		es := make([]ent, 0, n)
		for i := 0; i < n; i++ {
			k, err := canonVal(r, kt[0], depth+1)
			if err != nil {
				return nil, err
			}
			v, err := canonVal(r, kt[1], depth+1)
			if err != nil {
				return nil, err
			}
			es = append(es, ent{hex.EncodeToString(k), hex.EncodeToString(v), append(append([]byte{}, k...), v...)})
		}
		sort.SliceStable(es, func(i, j int) bool {
			if es[i].k != es[j].k {
				return es[i].k < es[j].k
			}
			return es[i].v < es[j].v
		})
		for _, e := range es {
			out = append(out, e.raw...)
		}
		return out, nil
	}
	return nil, fmt.Errorf("bad type %d", t)
}

// canonBytes canonicalises one serialized struct; trailing bytes are an error.
func canonBytes(b []byte) ([]byte, error) {
	r := &breader{b: b}
	out, err := canonVal(r, 12, 0)
	if err != nil {
		return nil, err
	}
	if r.off != len(b) {
		return nil, fmt.Errorf("trailing bytes")
	}
	return out, nil
}
