package main

// Compiled part of C15 (thorough tier): generate valid Docs → thriftgo -g go:with_reflection (built from the
// repo under test) → ONE go build of a scratch module holding every generated package plus the driver
// (drvmain.go.txt + shared.go + a generated registry.go) → walk from every generated Go type to its descriptor
// and back, dump file descriptors obtained at run time, look names up across files in the default registry;
// compared with the model (same op lines as in-process, registry = what BuildFileDescriptor registered) and,
// for the oracle, with the Doc.

import (
	"bufio"
	_ "embed"
	"encoding/json"
	"fmt"
	"io"
	"os"
	"os/exec"
	"path/filepath"
	"regexp"
	"strconv"
	"strings"

	"github.com/cloudwego/thriftgo/parser"
	"github.com/cloudwego/thriftgo/semantic"

	"verifharness/internal/vl"
)

//go:embed drvmain.go.txt
var drvMain string

//go:embed shared.go
var sharedSrc string

type cunit struct {
	doc     *Doc
	idx     int
	ok      bool
	note    string
	files   []cfile // per Doc file
	linked  bool
	pkgPath []string
}

type cfile struct {
	goFile  string // generated *-reflection.go, relative to mod
	getter  string // GetFileDescriptorForX
	pkg     string // import path
	alias   string
	types   [][3]string // kind-comment, GoName, IDL name
	rawDesc []byte
}

func goCmd(dir string, args ...string) *exec.Cmd {
	c := exec.Command("go", args...)
	c.Dir = dir
	c.Env = append(os.Environ(), "GOFLAGS=-mod=mod", "GOPROXY=off", "GOSUMDB=off", "GOTOOLCHAIN=local", "CGO_ENABLED=0")
	return c
}

var typeLineRe = regexp.MustCompile(`\(\*([A-Za-z0-9_]+)\)\(nil\),\s*// (Struct|Union|Exception|Enum) \d+: [A-Za-z0-9_]+\.([A-Za-z0-9_]+)`)
var getterRe = regexp.MustCompile(`func (GetFileDescriptorFor[A-Za-z0-9_]+)\(`)
var rawRe = regexp.MustCompile(`(?s)_rawDesc = \[\]byte\{(.*?)\}`)

func compiled(repo, dir string, seed uint64, tier string) error {
	dir, _ = filepath.Abs(dir)
	out := vl.NewOut(dir)
	defer out.Close()
	r := vl.NewRng(seed*7919 + 15)
	n := 3 // quick: one small batch whose main files hold every kind of Go type
	if tier == "thorough" {
		n = 16
	}
	repo, _ = filepath.Abs(repo)
	work := filepath.Join(dir, "w")
	idl := filepath.Join(work, "idl")
	mod := filepath.Join(work, "mod")
	os.MkdirAll(idl, 0o755)
	os.MkdirAll(filepath.Join(mod, "driver"), 0o755)
	tg := filepath.Join(work, "thriftgo")
	if b, err := goCmd(repo, "build", "-o", tg, ".").CombinedOutput(); err != nil {
		return fmt.Errorf("cannot build thriftgo from %s: %v\n%s", repo, err, b)
	}
	gomod := "module batch\n\ngo 1.20\n\nrequire github.com/apache/thrift v0.13.0\nrequire github.com/cloudwego/gopkg v0.2.0\nrequire github.com/cloudwego/thriftgo v0.0.0\n\nreplace github.com/cloudwego/thriftgo => " + repo + "\n"
	os.WriteFile(filepath.Join(mod, "go.mod"), []byte(gomod), 0o644)
	if sum, err := os.ReadFile(filepath.Join(repo, "go.sum")); err == nil {
		os.WriteFile(filepath.Join(mod, "go.sum"), sum, 0o644)
	}
	// ---- generate
	aimed := aimedDocs()
	units := make([]*cunit, n+len(aimed))
	for i := 0; i < n+len(aimed); i++ {
		var d *Doc
		if i < n {
			d = genDoc(r, genCfg{forceGoNS: true, compileSafe: true, fullKinds: i < 4, oddNames: i%2 == 1})
		} else {
			d = aimed[i-n]
		}
		for _, f := range d.Files {
			f.Path = fmt.Sprintf("u%d/%s", i, f.Path)
		}
		u := &cunit{doc: d, idx: i}
		units[i] = u
		for p, text := range d.Render() {
			os.MkdirAll(filepath.Dir(filepath.Join(idl, p)), 0o755)
			os.WriteFile(filepath.Join(idl, p), []byte(text), 0o644)
		}
		c := exec.Command(tg, "-r", "-g", fmt.Sprintf("go:with_reflection,package_prefix=batch/u%d", i), "-o", filepath.Join(mod, fmt.Sprintf("u%d", i)), d.Files[0].Path)
		c.Dir = idl
		b, err := c.CombinedOutput()
		if err != nil {
			u.note = "thriftgo: " + clip(string(b))
			out.Count("unit:rejected-by-thriftgo")
			continue
		}
		u.ok = true
	}
	// ---- discover the generated reflection files
	for _, u := range units {
		if !u.ok {
			continue
		}
		u.files = make([]cfile, len(u.doc.Files))
		root := filepath.Join(mod, fmt.Sprintf("u%d", u.idx))
		var refl []string
		filepath.Walk(root, func(p string, info os.FileInfo, err error) error {
			if err == nil && strings.HasSuffix(p, "-reflection.go") {
				refl = append(refl, p)
			}
			return nil
		})
		for fi, f := range u.doc.Files {
			ns := ""
			for _, x := range f.NS {
				if x.Lang == "go" {
					ns = x.Name
					break
				}
			}
			want := filepath.Join(root, strings.ReplaceAll(ns, ".", "/"), prefixOf(f.Path)+"-reflection.go")
			found := false
			for _, p := range refl {
				if p == want {
					found = true
				}
			}
			if !found {
				continue // not reachable from main (not generated)
			}
			src, _ := os.ReadFile(want)
			cf := cfile{goFile: want, pkg: fmt.Sprintf("batch/u%d/%s", u.idx, strings.ReplaceAll(ns, ".", "/")), alias: fmt.Sprintf("u%df%d", u.idx, fi)}
			if m := getterRe.FindSubmatch(src); m != nil {
				cf.getter = string(m[1])
			}
			for _, m := range typeLineRe.FindAllSubmatch(src, -1) {
				cf.types = append(cf.types, [3]string{string(m[2]), string(m[1]), string(m[3])})
			}
			if m := rawRe.FindSubmatch(src); m != nil {
				for _, t := range strings.FieldsFunc(string(m[1]), func(r rune) bool { return r == ',' || r == ' ' || r == '\n' || r == '\t' }) {
					v, err := strconv.ParseUint(t, 0, 8)
					if err != nil {
						return fmt.Errorf("%s: byte literal %q", want, t)
					}
					cf.rawDesc = append(cf.rawDesc, byte(v))
				}
			}
			u.files[fi] = cf
		}
	}
	// ---- registry.go + one go build (units that do not compile are dropped and counted)
	os.WriteFile(filepath.Join(mod, "driver", "main.go"), []byte(drvMain), 0o644)
	os.WriteFile(filepath.Join(mod, "driver", "shared.go"), []byte(sharedSrc), 0o644)
	include := map[int]bool{}
	for _, u := range units {
		if u.ok {
			include[u.idx] = true
		}
	}
	bin := filepath.Join(work, "driver.bin")
	built := false
	var lastOut string
	for round := 0; round < 6 && !built; round++ {
		os.WriteFile(filepath.Join(mod, "driver", "registry.go"), []byte(registrySrc(units, include)), 0o644)
		b, err := goCmd(mod, "build", "-o", bin, "./driver").CombinedOutput()
		lastOut = string(b)
		if err == nil {
			built = true
			break
		}
		dropped := false
		re := regexp.MustCompile(`(?:^|[\s/])u(\d+)/`)
		for _, ln := range strings.Split(lastOut, "\n") {
			if m := re.FindStringSubmatch(ln); m != nil {
				k, _ := strconv.Atoi(m[1])
				if include[k] {
					delete(include, k)
					units[k].note = "go build: " + clip(ln)
					out.Count("unit:does-not-compile")
					dropped = true
				}
			}
		}
		if !dropped {
			return fmt.Errorf("go build of the driver failed and no unit is to blame:\n%s", lastOut)
		}
	}
	if !built {
		return fmt.Errorf("go build of the driver failed:\n%s", lastOut)
	}
	for _, u := range units {
		if u.note != "" {
			out.Sample(map[string]interface{}{"unit": u.idx, "skipped": u.note})
		}
	}
	// ---- run the driver interactively
	drv := exec.Command(bin)
	stdin, _ := drv.StdinPipe()
	stdout, _ := drv.StdoutPipe()
	var stderrBuf strings.Builder
	drv.Stderr = &stderrBuf
	if err := drv.Start(); err != nil {
		return err
	}
	rd := bufio.NewReaderSize(stdout, 1<<20)
	var cur *cunit
	ask := func(q string) []string {
		io.WriteString(stdin, q+"\n")
		ln, err := rd.ReadString('\n')
		if err != nil {
			panic(driverDied{q})
		}
		return strings.Split(strings.TrimRight(ln, "\n"), "\t")
	}
	defer func() { stdin.Close(); drv.Wait() }()
	// a driver that dies (e.g. a panic in the init of a generated package: BuildFileDescriptor / registerGoTypes) is a
	// failure of the property, reported with the unit being examined (all units share the process)
	defer func() {
		if x := recover(); x != nil {
			dd, ok := x.(driverDied)
			if !ok {
				panic(x)
			}
			d := units[len(units)-1].doc
			if cur != nil {
				d = cur.doc
			}
			report(out, d, ofail{"driver-crash", "the program linked with the generated packages died on query " + clip(dd.q) + ": " + clip(stderrBuf.String()), "an answer", "process exit"},
				"C15/compiled/driver-crash/"+d.Text())
		}
	}()

	for _, u := range units {
		if !include[u.idx] {
			continue
		}
		out.Count("unit:linked")
		cur = u
		d := u.doc
		if u.idx < 2 {
			out.Sample(map[string]interface{}{"compiled_unit": u.idx, "idl": clip(d.Text())})
		}
		docStats(out, d, genCfg{})
		root, perr := parser.ParseBatchString(d.Files[0].Path, d.Render(), nil)
		if perr != nil {
			return perr
		}
		// the AST as the generator (Scope.MarshalDescriptor) sees it: after thriftgo's semantic pass
		if _, err := semantic.NewChecker(semantic.Options{FixWarnings: true}).CheckAll(root); err != nil {
			return fmt.Errorf("unit %d accepted by thriftgo but rejected by the in-process checker: %v", u.idx, err)
		}
		if err := semantic.ResolveSymbols(root); err != nil {
			return fmt.Errorf("unit %d accepted by thriftgo but rejected by the in-process resolver: %v", u.idx, err)
		}
		byPath := map[string]*parser.Thrift{}
		var walk func(a *parser.Thrift)
		walk = func(a *parser.Thrift) {
			if a == nil || byPath[a.Filename] != nil {
				return
			}
			byPath[a.Filename] = a
			for _, inc := range a.Includes {
				walk(inc.Reference)
			}
		}
		walk(root)
		idxOf := map[string]int{}
		for i, f := range d.Files {
			idxOf[f.Path] = i
		}
		fail := func(f ofail) {
			report(out, d, f, "C15/compiled/"+f.class+"/"+d.Text())
		}
		dumps := map[int]string{}
		reach := func(i int) bool { return byPath[d.Files[i].Path] != nil && u.files[i].getter != "" }
		var paths []string
		for i, f := range d.Files {
			if !reach(i) {
				continue
			}
			paths = append(paths, vl.Hex(f.Path))
			dump, err := astDump(byPath[f.Path])
			if err != nil {
				return err
			}
			dumps[i] = dump
			key := fmt.Sprintf("u%d/%d", u.idx, i)
			// the descriptor obtained at run time from the generated package vs describe(IDL)
			gdAns := ask("GD " + vl.Hex(f.Path))
			out.Case("D "+dump, gdAns[0], true)
			// … vs the Doc, fact by fact
			var got facts
			if err := json.Unmarshal([]byte(ask("FF "+key)[0]), &got); err != nil {
				return fmt.Errorf("driver FF: %v", err)
			}
			for _, of := range diffFacts(d.FactsMode(i, true), got) {
				of.what = f.Path + " (compiled): " + of.what
				fail(of)
			}
			if pk := ask("PK " + key)[0]; pk != u.files[i].pkg {
				fail(ofail{"gopkgpath", f.Path + ": Go package path recorded for the descriptor", u.files[i].pkg, pk})
			}
			// the embedded bytes vs the model's encoding, and decoded by the model vs decoded by the program
			raw, err := gunzip(u.files[i].rawDesc)
			if err != nil {
				fail(ofail{"embedded-bytes", f.Path + ": gunzip of the embedded descriptor", "ok", err.Error()})
				continue
			}
			c, err := canonBytes(raw)
			if err != nil {
				fail(ofail{"embedded-bytes", f.Path + ": embedded descriptor bytes", "well-formed", err.Error()})
				continue
			}
			out.Case("M "+dump, "ok "+vl.Hex(string(c)), true)
			out.Case("U "+vl.Hex(string(raw)), gdAns[0], true)
		}
		// registry of the unit, then lookups through the default registry
		out.Case("P", "ok", false)
		for i, f := range d.Files {
			if !reach(i) {
				continue
			}
			a := byPath[f.Path]
			op := fmt.Sprintf("A %d %d", i, len(a.Includes))
			for _, inc := range a.Includes {
				op += " " + strconv.Itoa(idxOf[inc.Reference.Filename])
			}
			out.Case(op+" "+dumps[i], "ok", false)
		}
		out.Case("GC 0", ask("RC " + strings.Join(paths, " "))[0], true)
		// every generated Go type → its descriptor → back
		for i, f := range d.Files {
			if !reach(i) {
				continue
			}
			key := fmt.Sprintf("u%d/%d", u.idx, i)
			cnt := map[byte]int{}
			for ti, t := range kindsOf(d, i, u.files[i].types) {
				ans := ask(fmt.Sprintf("GT %s %d", key, ti))
				k := cnt[t.kind]
				cnt[t.kind]++
				out.Case(fmt.Sprintf("L %c %s %s", t.kind, vl.Hex(f.Path), vl.Hex(t.name)), ans[0], true)
				out.Count("gotype:" + string(t.kind))
				want := fmt.Sprintf("%s|%c|%d", f.Path, t.kind, k)
				if fj, k0, ok := expectDef(d, i, t.kind, t.name); !ok || fj != i || k0 != k {
					continue
				}
				if len(ans) < 3 || ans[1] != want {
					fail(ofail{"gotype", fmt.Sprintf("Go type %s of %s → descriptor", t.goName, f.Path), want, strings.Join(ans[1:], " ")})
					continue
				}
				flags := ans[2]
				if t.kind == 't' {
					if !strings.Contains(flags, "back=1") {
						out.Count("gotype:typedef-alias-shares-go-type")
					}
					flags = strings.Replace(flags, "back=0", "back=1", 1)
				}
				if flags != "back=1 gotype=1 td=1" {
					fail(ofail{"gotype", fmt.Sprintf("Go type %s of %s ↔ descriptor", t.goName, f.Path), "back=1 gotype=1 td=1", flags})
				}
			}
		}
		var tdks []tdKey
		for i := range d.Files {
			if !reach(i) {
				continue
			}
			for _, t := range strings.Fields(ask(fmt.Sprintf("TK u%d/%d", u.idx, i))[0]) {
				p := strings.Split(t, ",")
				tdks = append(tdks, tdKey{vl.UnHex(p[0]), vl.UnHex(p[1]), p[2] == "1", p[3] == "1"})
			}
		}
		ex := func(op string) (string, string) {
			a := ask(op)
			if len(a) < 2 {
				return a[0], ""
			}
			return a[0], a[1]
		}
		for _, f := range evalLookups(d, reach, ex, tdks, false, out, r) {
			fail(f)
		}
	}
	return nil
}

type driverDied struct{ q string }

// aimedDocs: fixed units of the compiled part.
//  1. two files with the same base name in different directories, different go namespaces and different content
//     (each generated package must embed the descriptor of ITS OWN file);
//  2. definition names that are not their own Go names, incl. two names colliding after Go naming.
func aimedDocs() []*Doc {
	ty := func(n string) *DType { return &DType{Name: n} }
	fld := func(id int32, t, n string) *DField { return &DField{ID: id, Name: n, Type: ty(t)} }
	st := func(k byte, n string, fs ...*DField) *DStruct { return &DStruct{Kind: k, Name: n, Fields: fs} }
	en := func(n string, vs ...string) *DEnum {
		e := &DEnum{Name: n}
		for i, v := range vs {
			e.Values = append(e.Values, &DEnumValue{Name: v, Value: int64(i + 1), WriteValue: true})
		}
		return e
	}
	sameBase := &Doc{Files: []*DFile{
		{Path: "main.thrift", Includes: []int{1, 2}, NS: []DNS{{"go", "mainpkg"}},
			Structs: []*DStruct{st('s', "Uses", fld(1, "types.Money", "m"), fld(2, "mid.Wrap", "w"))}},
		{Path: "common/types.thrift", NS: []DNS{{"go", "commonpkg"}, {"java", "com.common"}},
			Structs: []*DStruct{st('s', "Money", fld(1, "i64", "cents"))}, Enums: []*DEnum{en("Cur", "USD")},
			Consts: []*DConstDef{{Name: "scale", Type: ty("i32"), Value: &DConst{Kind: 'i', I: 100}}}},
		{Path: "mid.thrift", Includes: []int{3}, NS: []DNS{{"go", "midpkg"}},
			Structs: []*DStruct{st('s', "Wrap", fld(1, "types.Money", "m"))}},
		{Path: "legacy/types.thrift", NS: []DNS{{"go", "legacypkg"}, {"py", "legacy"}},
			Structs: []*DStruct{st('s', "Money", fld(1, "string", "amount"), fld(2, "string", "cur"))}, Enums: []*DEnum{en("Cur", "EUR", "GBP")},
			Consts: []*DConstDef{{Name: "unit", Type: ty("string"), Value: &DConst{Kind: 's', S: "x", Quote: '"'}}}},
	}}
	names := &Doc{Files: []*DFile{
		{Path: "main.thrift", NS: []DNS{{"go", "namespkg"}},
			Enums: []*DEnum{en("color_kind", "RED", "green"), en("Shade", "DARK")},
			Structs: []*DStruct{
				st('s', "order_item", fld(1, "i32", "qty"), fld(2, "color_kind", "color")),
				st('s', "shipment", fld(1, "string", "a")),
				st('s', "Shipment", fld(1, "i64", "b"), fld(2, "shipment", "inner")),
				st('s', "user_id", fld(1, "i64", "id")),
				st('s', "item_", fld(1, "order_item", "it")),
				st('s', "HTTPUrl", fld(1, "string", "u")),
				st('u', "my_union", &DField{ID: 1, Name: "a", Req: 2, Type: ty("i32")}, &DField{ID: 2, Name: "b", Req: 2, Type: ty("order_item")}),
				st('x', "my_error", fld(1, "string", "msg")),
				st('x', "Other_error", fld(1, "string", "msg")),
			},
			Typedefs: []*DTypedef{{Alias: "item_alias", Type: ty("order_item")}, {Alias: "id_t", Type: ty("i64")}},
			Services: []*DService{{Name: "order_service", Funcs: []*DFunc{{Name: "get_item", Ret: ty("order_item"),
				Args:   []*DField{fld(1, "user_id", "u")},
				Throws: []*DField{{ID: 1, Name: "e", Req: 2, HideReq: true, Type: ty("my_error")}}}}}}},
	}}
	return []*Doc{sameBase, names}
}

type ktype struct {
	kind   byte
	goName string
	name   string
}

// kindsOf classifies the entries of the generated type list: the template lists Structs, Unions, Exceptions,
// Enums and then Typedefs (commented "Enum" too).
func kindsOf(d *Doc, fi int, ts [][3]string) []ktype {
	var out []ktype
	nEnum := len(d.Files[fi].Enums)
	seenEnum := 0
	for _, t := range ts {
		k := byte('s')
		switch t[0] {
		case "Union":
			k = 'u'
		case "Exception":
			k = 'x'
		case "Enum":
			if seenEnum < nEnum {
				k = 'e'
			} else {
				k = 't'
			}
			seenEnum++
		}
		out = append(out, ktype{k, t[1], t[2]})
	}
	return out
}

func registrySrc(units []*cunit, include map[int]bool) string {
	var sb strings.Builder
	sb.WriteString("package main\n\nimport (\n\ttr \"github.com/cloudwego/thriftgo/thrift_reflection\"\n")
	for _, u := range units {
		if !include[u.idx] {
			continue
		}
		for _, f := range u.files {
			if f.getter != "" {
				fmt.Fprintf(&sb, "\t%s %q\n", f.alias, f.pkg)
			}
		}
	}
	sb.WriteString(")\n\nvar _ = tr.NewTypeDescriptor\n\nvar files = []fileEntry{\n")
	for _, u := range units {
		if !include[u.idx] {
			continue
		}
		for fi, f := range u.files {
			if f.getter == "" {
				continue
			}
			fmt.Fprintf(&sb, "\t{key: \"u%d/%d\", path: %q, fd: %s.%s, types: []typeEntry{\n", u.idx, fi, u.doc.Files[fi].Path, f.alias, f.getter)
			for _, t := range kindsOf(u.doc, fi, f.types) {
				switch t.kind {
				case 's', 'u', 'x':
					fmt.Fprintf(&sb, "\t\t{kind: '%c', name: %q, ptr: (*%s.%s)(nil), desc: func() interface{} { return new(%s.%s).GetDescriptor() }, tdesc: func() *tr.TypeDescriptor { return new(%s.%s).GetTypeDescriptor() }},\n",
						t.kind, t.name, f.alias, t.goName, f.alias, t.goName, f.alias, t.goName)
				case 'e':
					fmt.Fprintf(&sb, "\t\t{kind: 'e', name: %q, ptr: (*%s.%s)(nil), desc: func() interface{} { return %s.%s(0).GetDescriptor() }, tdesc: func() *tr.TypeDescriptor { return new(%s.%s).GetTypeDescriptor() }},\n",
						t.name, f.alias, t.goName, f.alias, t.goName, f.alias, t.goName)
				default:
					fmt.Fprintf(&sb, "\t\t{kind: 't', name: %q, ptr: (*%s.%s)(nil)},\n", t.name, f.alias, t.goName)
				}
			}
			sb.WriteString("\t}},\n")
		}
	}
	sb.WriteString("}\n")
	return sb.String()
}
