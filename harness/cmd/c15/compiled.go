package main

import "fmt"

func compiled(repo, dir string, seed uint64, tier string) error {
	return fmt.Errorf("compiled tier not built yet")
}
