// c15: translator (extract), correspondence/oracle harness (run) and replay for property C15
// (reflection descriptors describe the IDL exactly).
package main

import (
	"flag"
	"fmt"
	"os"
)

func main() {
	repo := flag.String("repo", "/repo", "")
	dir := flag.String("dir", ".", "")
	seed := flag.Uint64("seed", 1, "")
	tier := flag.String("tier", "quick", "")
	file := flag.String("file", "", "")
	if len(os.Args) < 2 {
		fmt.Fprintln(os.Stderr, "usage: c15 extract|run|replay|compiled [flags]")
		os.Exit(3)
	}
	flag.CommandLine.Parse(os.Args[2:])
	var err error
	switch os.Args[1] {
	case "extract":
		err = extract(*repo)
	case "run":
		err = run(*repo, *dir, *seed, *tier)
	case "replay":
		err = replay(*repo, *file)
	case "compiled":
		err = compiled(*repo, *dir, *seed, *tier)
	default:
		err = fmt.Errorf("usage: c15 extract|run|replay|compiled")
	}
	if err != nil {
		fmt.Fprintln(os.Stderr, "c15:", err)
		os.Exit(3)
	}
}
