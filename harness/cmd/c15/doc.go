package main

// The harness's own abstract IDL program ("Doc": what it wrote) for C15: every definition kind with
// comments, annotations as source-level key/value pairs (keys may repeat), namespaces of several languages,
// constants of every syntactic shape, typedef chains across files, includes forming a DAG with equal base
// names in different directories. Render gives IDL text; the oracle compares Doc facts with descriptors.

import (
	"fmt"
	"math"
	"sort"
	"strconv"
	"strings"
)

type Anno struct{ Key, Val string }

type Comment struct {
	Style byte // '/' line, '*' long, '#' unix
	Text  string
}

// Stated is the text the parser keeps for the comment ('#' is turned into '//').
func (c Comment) Stated() string {
	switch c.Style {
	case '*':
		return "/*" + c.Text + "*/"
	}
	return "//" + c.Text
}
func (c Comment) Source() string {
	switch c.Style {
	case '*':
		return "/*" + c.Text + "*/"
	case '#':
		return "#" + c.Text
	}
	return "//" + c.Text
}

type DType struct {
	Name     string // as written: i32, list, map, S1, base.S1
	Key, Val *DType
}

func (t *DType) String() string {
	switch t.Name {
	case "list", "set":
		return t.Name + "<" + t.Val.String() + ">"
	case "map":
		return "map<" + t.Key.String() + "," + t.Val.String() + ">"
	}
	return t.Name
}

type DConst struct {
	Kind  byte // i d s x l m
	I     int64
	DText string
	S     string // literal content / identifier
	Quote byte
	Items []*DConst    // l
	Pairs [][2]*DConst // m
	Sep   string
}

func (c *DConst) String() string {
	switch c.Kind {
	case 'i':
		return strconv.FormatInt(c.I, 10)
	case 'd':
		return c.DText
	case 's':
		return string(c.Quote) + c.S + string(c.Quote)
	case 'x':
		return c.S
	case 'l':
		var p []string
		for _, e := range c.Items {
			p = append(p, e.String())
		}
		return "[" + strings.Join(p, c.Sep+" ") + "]"
	case 'm':
		var p []string
		for _, e := range c.Pairs {
			p = append(p, e[0].String()+": "+e[1].String())
		}
		return "{" + strings.Join(p, c.Sep+" ") + "}"
	}
	panic("const kind")
}

type DField struct {
	Name     string
	ID       int32
	Req      int  // 0 default 1 required 2 optional
	HideReq  bool // requiredness not written (throws: the AST convention is Optional)
	Type     *DType
	Default  *DConst
	Annos    []Anno
	Comments []Comment
}

type DStruct struct {
	Kind     byte // s u x
	Name     string
	Fields   []*DField
	Annos    []Anno
	Comments []Comment
}

type DEnumValue struct {
	Name       string
	Value      int64
	WriteValue bool
	Annos      []Anno
	Comments   []Comment
}

type DEnum struct {
	Name     string
	Values   []*DEnumValue
	Annos    []Anno
	Comments []Comment
}

type DTypedef struct {
	Alias    string
	Type     *DType
	Annos    []Anno
	Comments []Comment
}

type DConstDef struct {
	Name     string
	Type     *DType
	Value    *DConst
	Annos    []Anno
	Comments []Comment
}

type DFunc struct {
	Name     string
	Oneway   bool
	Ret      *DType // nil = void
	Args     []*DField
	Throws   []*DField
	Annos    []Anno
	Comments []Comment
}

type DService struct {
	Name     string
	Extends  string
	Funcs    []*DFunc
	Annos    []Anno
	Comments []Comment
}

type DNS struct{ Lang, Name string }

type defRef struct {
	Kind byte // t c e s v   (s covers struct/union/exception, index into Structs)
	Idx  int
}

type DFile struct {
	Path     string
	Includes []int
	IncPaths []string // the path as written, parallel to Includes ("" = the root-relative path of the file)
	NS       []DNS
	Typedefs []*DTypedef
	Consts   []*DConstDef
	Enums    []*DEnum
	Structs  []*DStruct // all struct-likes in source order
	Services []*DService
	Order    []defRef
}

type Doc struct{ Files []*DFile }

func prefixOf(path string) string {
	p := path
	if i := strings.LastIndex(p, "/"); i >= 0 {
		p = p[i+1:]
	}
	return strings.TrimSuffix(p, ".thrift")
}

// ---------------------------------------------------------------- render

func annoStr(as []Anno) string {
	if len(as) == 0 {
		return ""
	}
	var p []string
	for _, a := range as {
		p = append(p, fmt.Sprintf("%s = \"%s\"", a.Key, a.Val))
	}
	return " (" + strings.Join(p, ", ") + ")"
}

func commentLines(sb *strings.Builder, indent string, cs []Comment) {
	for _, c := range cs {
		sb.WriteString(indent + c.Source() + "\n")
	}
}

func fieldStr(f *DField) string {
	s := fmt.Sprintf("%d: ", f.ID)
	if !f.HideReq {
		switch f.Req {
		case 1:
			s += "required "
		case 2:
			s += "optional "
		}
	}
	s += f.Type.String() + " " + f.Name
	if f.Default != nil {
		s += " = " + f.Default.String()
	}
	return s + annoStr(f.Annos)
}

// argList writes an argument/throws list; one per line when a member carries comments.
func argList(sb *strings.Builder, fs []*DField) {
	multi := false
	for _, a := range fs {
		if len(a.Comments) > 0 {
			multi = true
		}
	}
	for i, a := range fs {
		if multi {
			sb.WriteString("\n")
			commentLines(sb, "    ", a.Comments)
			sb.WriteString("    " + fieldStr(a))
			if i < len(fs)-1 {
				sb.WriteString(",")
			} else {
				sb.WriteString("\n  ")
			}
			continue
		}
		if i > 0 {
			sb.WriteString(", ")
		}
		sb.WriteString(fieldStr(a))
	}
}

func (d *Doc) renderFile(fi int) string {
	f := d.Files[fi]
	var sb strings.Builder
	for k, j := range f.Includes {
		p := d.Files[j].Path
		if k < len(f.IncPaths) && f.IncPaths[k] != "" {
			p = f.IncPaths[k]
		}
		fmt.Fprintf(&sb, "include \"%s\"\n", p)
	}
	for _, ns := range f.NS {
		fmt.Fprintf(&sb, "namespace %s %s\n", ns.Lang, ns.Name)
	}
	sb.WriteString("\n")
	order := f.Order
	if len(order) == 0 {
		for i := range f.Typedefs {
			order = append(order, defRef{'t', i})
		}
		for i := range f.Enums {
			order = append(order, defRef{'e', i})
		}
		for i := range f.Structs {
			order = append(order, defRef{'s', i})
		}
		for i := range f.Consts {
			order = append(order, defRef{'c', i})
		}
		for i := range f.Services {
			order = append(order, defRef{'v', i})
		}
	}
	for _, r := range order {
		switch r.Kind {
		case 't':
			t := f.Typedefs[r.Idx]
			commentLines(&sb, "", t.Comments)
			fmt.Fprintf(&sb, "typedef %s %s%s\n\n", t.Type.String(), t.Alias, annoStr(t.Annos))
		case 'c':
			c := f.Consts[r.Idx]
			commentLines(&sb, "", c.Comments)
			fmt.Fprintf(&sb, "const %s %s = %s%s\n\n", c.Type.String(), c.Name, c.Value.String(), annoStr(c.Annos))
		case 'e':
			e := f.Enums[r.Idx]
			commentLines(&sb, "", e.Comments)
			fmt.Fprintf(&sb, "enum %s {\n", e.Name)
			for _, v := range e.Values {
				commentLines(&sb, "  ", v.Comments)
				if v.WriteValue {
					fmt.Fprintf(&sb, "  %s = %d%s,\n", v.Name, v.Value, annoStr(v.Annos))
				} else {
					fmt.Fprintf(&sb, "  %s%s,\n", v.Name, annoStr(v.Annos))
				}
			}
			fmt.Fprintf(&sb, "}%s\n\n", annoStr(e.Annos))
		case 's':
			s := f.Structs[r.Idx]
			commentLines(&sb, "", s.Comments)
			kw := map[byte]string{'s': "struct", 'u': "union", 'x': "exception"}[s.Kind]
			fmt.Fprintf(&sb, "%s %s {\n", kw, s.Name)
			for _, fd := range s.Fields {
				commentLines(&sb, "  ", fd.Comments)
				sb.WriteString("  " + fieldStr(fd) + ",\n")
			}
			fmt.Fprintf(&sb, "}%s\n\n", annoStr(s.Annos))
		case 'v':
			s := f.Services[r.Idx]
			commentLines(&sb, "", s.Comments)
			fmt.Fprintf(&sb, "service %s", s.Name)
			if s.Extends != "" {
				sb.WriteString(" extends " + s.Extends)
			}
			sb.WriteString(" {\n")
			for _, fn := range s.Funcs {
				commentLines(&sb, "  ", fn.Comments)
				sb.WriteString("  ")
				if fn.Oneway {
					sb.WriteString("oneway ")
				}
				if fn.Ret == nil {
					sb.WriteString("void")
				} else {
					sb.WriteString(fn.Ret.String())
				}
				sb.WriteString(" " + fn.Name + "(")
				argList(&sb, fn.Args)
				sb.WriteString(")")
				if len(fn.Throws) > 0 {
					sb.WriteString(" throws (")
					argList(&sb, fn.Throws)
					sb.WriteString(")")
				}
				sb.WriteString(annoStr(fn.Annos) + ",\n")
			}
			fmt.Fprintf(&sb, "}%s\n\n", annoStr(s.Annos))
		}
	}
	return sb.String()
}

// Render gives path → IDL text.
func (d *Doc) Render() map[string]string {
	out := map[string]string{}
	for i, f := range d.Files {
		out[f.Path] = d.renderFile(i)
	}
	return out
}

// Text is one canonical string of the whole program (replays, keys).
func (d *Doc) Text() string {
	var sb strings.Builder
	for i, f := range d.Files {
		fmt.Fprintf(&sb, "### %s\n%s", f.Path, d.renderFile(i))
	}
	return sb.String()
}

// ---------------------------------------------------------------- the facts the Doc states, flattened


func statedComments(cs []Comment) string {
	var p []string
	for _, c := range cs {
		p = append(p, c.Stated())
	}
	return strings.Join(p, "\n")
}

func (fa facts) annos(pfx string, as []Anno) {
	by := map[string][]string{}
	var keys []string
	for _, a := range as {
		if _, ok := by[a.Key]; !ok {
			keys = append(keys, a.Key)
		}
		by[a.Key] = append(by[a.Key], a.Val)
	}
	sort.Strings(keys)
	fa[pfx+".annokeys"] = strings.Join(keys, ",")
	for _, k := range keys {
		fa[pfx+".anno:"+k] = strings.Join(by[k], "\x1f")
	}
}

func (fa facts) ty(pfx string, t *DType) {
	if t == nil {
		fa[pfx] = "<nil>"
		return
	}
	fa[pfx] = t.Name
	if t.Key != nil {
		fa.ty(pfx+".key", t.Key)
	} else {
		fa[pfx+".key"] = "<nil>"
	}
	if t.Val != nil {
		fa.ty(pfx+".val", t.Val)
	} else {
		fa[pfx+".val"] = "<nil>"
	}
}

func constFact(c *DConst) string {
	switch c.Kind {
	case 'i':
		return "int:" + strconv.FormatInt(c.I, 10)
	case 'd':
		f, err := strconv.ParseFloat(c.DText, 64)
		if err != nil {
			panic(err)
		}
		return fmt.Sprintf("double:%016x", math.Float64bits(f))
	case 's':
		return "string:" + strconv.Quote(c.S)
	case 'x':
		if c.S == "true" || c.S == "false" {
			return "bool:" + c.S
		}
		return "ident:" + c.S
	case 'l':
		var p []string
		for _, e := range c.Items {
			p = append(p, constFact(e))
		}
		return "list[" + strings.Join(p, ",") + "]"
	case 'm':
		var p []string
		for _, e := range c.Pairs {
			p = append(p, constFact(e[0])+"=>"+constFact(e[1]))
		}
		sort.Strings(p) // a map constant is a multiset of pairs
		return "map{" + strings.Join(p, ",") + "}"
	}
	panic("kind")
}

var reqNames = [...]string{"Default", "Required", "Optional"}

func (fa facts) fields(pfx string, fs []*DField) {
	fa[pfx+".n"] = strconv.Itoa(len(fs))
	for i, f := range fs {
		p := fmt.Sprintf("%s[%d]", pfx, i)
		fa[p+".name"] = f.Name
		fa[p+".id"] = strconv.Itoa(int(f.ID))
		fa[p+".req"] = reqNames[f.Req]
		fa.ty(p+".type", f.Type)
		if f.Default != nil {
			fa[p+".default"] = constFact(f.Default)
		} else {
			fa[p+".default"] = "<none>"
		}
		fa.annos(p, f.Annos)
		fa[p+".comments"] = statedComments(f.Comments)
	}
}

// Facts flattens what file fi of the Doc states; paths are the resolved include filenames.
func (d *Doc) Facts(fi int) facts { return d.FactsMode(fi, false) }

// FactsMode: afterChecker = as thriftgo's semantic pass reads the IDL before generating code: members of a
// union are Optional whatever is written (semantic/semantic.go ResolveSymbols); "optional keyword is ignored in
// argument lists" (semantic/checker.go CheckFunctions, a documented warning).
func (d *Doc) FactsMode(fi int, afterChecker bool) facts {
	f := d.Files[fi]
	fa := facts{}
	fa["filename"] = f.Path
	first := map[string]bool{}
	for _, j := range f.Includes {
		p := d.Files[j].Path
		fa["include:"+p] = "1"
		if !first[prefixOf(p)] {
			first[prefixOf(p)] = true
			fa["includeprefix:"+prefixOf(p)] = p
		}
	}
	nsSeen := map[string]bool{}
	for _, ns := range f.NS {
		if nsSeen[ns.Lang] {
			continue // a language stated twice: the first statement counts (it is the one the backends use)
		}
		nsSeen[ns.Lang] = true
		fa["namespace:"+ns.Lang+"="+ns.Name] = "1"
	}
	fa["typedefs.n"] = strconv.Itoa(len(f.Typedefs))
	for i, t := range f.Typedefs {
		p := fmt.Sprintf("typedefs[%d]", i)
		fa[p+".alias"] = t.Alias
		fa.ty(p+".type", t.Type)
		fa.annos(p, t.Annos)
		fa[p+".comments"] = statedComments(t.Comments)
	}
	fa["consts.n"] = strconv.Itoa(len(f.Consts))
	for i, c := range f.Consts {
		p := fmt.Sprintf("consts[%d]", i)
		fa[p+".name"] = c.Name
		fa.ty(p+".type", c.Type)
		fa[p+".value"] = constFact(c.Value)
		fa.annos(p, c.Annos)
		fa[p+".comments"] = statedComments(c.Comments)
	}
	fa["enums.n"] = strconv.Itoa(len(f.Enums))
	for i, e := range f.Enums {
		p := fmt.Sprintf("enums[%d]", i)
		fa[p+".name"] = e.Name
		fa[p+".values.n"] = strconv.Itoa(len(e.Values))
		for j, v := range e.Values {
			q := fmt.Sprintf("%s.values[%d]", p, j)
			fa[q+".name"] = v.Name
			fa[q+".value"] = strconv.FormatInt(v.Value, 10)
			fa.annos(q, v.Annos)
			fa[q+".comments"] = statedComments(v.Comments)
		}
		fa.annos(p, e.Annos)
		fa[p+".comments"] = statedComments(e.Comments)
	}
	cnt := map[byte]int{}
	for _, s := range f.Structs {
		grp := map[byte]string{'s': "structs", 'u': "unions", 'x': "exceptions"}[s.Kind]
		p := fmt.Sprintf("%s[%d]", grp, cnt[s.Kind])
		cnt[s.Kind]++
		fa[p+".name"] = s.Name
		fa.fields(p+".fields", s.Fields)
		if afterChecker && s.Kind == 'u' {
			for i := range s.Fields {
				fa[fmt.Sprintf("%s.fields[%d].req", p, i)] = "Optional"
			}
		}
		fa.annos(p, s.Annos)
		fa[p+".comments"] = statedComments(s.Comments)
	}
	fa["structs.n"] = strconv.Itoa(cnt['s'])
	fa["unions.n"] = strconv.Itoa(cnt['u'])
	fa["exceptions.n"] = strconv.Itoa(cnt['x'])
	fa["services.n"] = strconv.Itoa(len(f.Services))
	for i, s := range f.Services {
		p := fmt.Sprintf("services[%d]", i)
		fa[p+".name"] = s.Name
		fa[p+".base"] = s.Extends
		fa[p+".methods.n"] = strconv.Itoa(len(s.Funcs))
		for j, fn := range s.Funcs {
			q := fmt.Sprintf("%s.methods[%d]", p, j)
			fa[q+".name"] = fn.Name
			fa[q+".oneway"] = strconv.FormatBool(fn.Oneway)
			if fn.Ret == nil {
				fa.ty(q+".response", &DType{Name: "void"})
			} else {
				fa.ty(q+".response", fn.Ret)
			}
			fa.fields(q+".args", fn.Args)
			if afterChecker {
				for ai, a := range fn.Args {
					if a.Req == 2 {
						fa[fmt.Sprintf("%s.args[%d].req", q, ai)] = "Default"
					}
				}
			}
			fa.fields(q+".throws", fn.Throws)
			fa.annos(q, fn.Annos)
			fa[q+".comments"] = statedComments(fn.Comments)
		}
		fa.annos(p, s.Annos)
		fa[p+".comments"] = statedComments(s.Comments)
	}
	return fa
}
