package main

// Code shared verbatim by the harness (in-process) and by the compiled-tier driver (this file is embedded
// as text and written into the scratch module): canonical descriptor dumps and the walk over type descriptors.
// It must import nothing outside the standard library and thrift_reflection.

import (
	"encoding/hex"
	"fmt"
	"math"
	"reflect"
	"sort"
	"strconv"
	"strings"

	tr "github.com/cloudwego/thriftgo/thrift_reflection"
)

func hexs(s string) string {
	if s == "" {
		return "-"
	}
	return hex.EncodeToString([]byte(s))
}

// ---------------------------------------------------------------- descriptor dump

// uuidCanon replaces the random registry uuid by a fixed token in dumps.
var uuidCanon = map[string]string{}

func descDump(x interface{}) string {
	var sb strings.Builder
	dumpVal(&sb, reflect.ValueOf(x))
	return sb.String()
}

func dumpVal(sb *strings.Builder, v reflect.Value) {
	switch v.Kind() {
	case reflect.Ptr:
		if v.IsNil() {
			sb.WriteString("n")
			return
		}
		dumpVal(sb, v.Elem())
	case reflect.Struct:
		n := v.NumField()
		sb.WriteString("R " + strconv.Itoa(n))
		for i := 0; i < n; i++ {
			sb.WriteByte(' ')
			dumpVal(sb, v.Field(i))
		}
	case reflect.String:
		s := v.String()
		if c, ok := uuidCanon[s]; ok {
			s = c
		}
		sb.WriteString("X" + hexs(s))
	case reflect.Bool:
		if v.Bool() {
			sb.WriteString("b1")
		} else {
			sb.WriteString("b0")
		}
	case reflect.Int, reflect.Int8, reflect.Int16, reflect.Int32, reflect.Int64:
		sb.WriteString("I" + strconv.FormatInt(v.Int(), 10))
	case reflect.Float64:
		sb.WriteString(fmt.Sprintf("D%016x", math.Float64bits(v.Float())))
	case reflect.Slice:
		if v.IsNil() {
			sb.WriteString("n")
			return
		}
		sb.WriteString("L " + strconv.Itoa(v.Len()))
		for i := 0; i < v.Len(); i++ {
			sb.WriteByte(' ')
			dumpVal(sb, v.Index(i))
		}
	case reflect.Map:
		if v.IsNil() {
			sb.WriteString("n")
			return
		}
		type kv struct{ k, v string }
		var es []kv
		it := v.MapRange()
		for it.Next() {
			var a, b strings.Builder
			dumpVal(&a, it.Key())
			dumpVal(&b, it.Value())
			es = append(es, kv{a.String(), b.String()})
		}
		sort.Slice(es, func(i, j int) bool {
			if es[i].k != es[j].k {
				return es[i].k < es[j].k
			}
			return es[i].v < es[j].v
		})
		sb.WriteString("M " + strconv.Itoa(len(es)))
		for _, e := range es {
			sb.WriteString(" " + e.k + " " + e.v)
		}
	default:
		panic("descDump: kind " + v.Kind().String())
	}
}

type tdKey struct {
	path, name string
	uuid       bool
	konst      bool // met only as (part of) the type of a constant
}

func collectTDs(fd *tr.FileDescriptor, key string, into map[tdKey]*tr.TypeDescriptor, order *[]tdKey) {
	konst := false
	var walk func(t *tr.TypeDescriptor)
	walk = func(t *tr.TypeDescriptor) {
		if t == nil {
			return
		}
		k := tdKey{t.Filepath, t.Name, t.Extra[key] != "", konst}
		if _, ok := into[tdKey{k.path, k.name, k.uuid, false}]; ok {
			return
		}
		if _, ok := into[k]; !ok {
			into[k] = t
			*order = append(*order, k)
		}
		walk(t.KeyType)
		walk(t.ValueType)
	}
	for _, group := range [][]*tr.StructDescriptor{fd.Structs, fd.Unions, fd.Exceptions} {
		for _, s := range group {
			for _, f := range s.Fields {
				walk(f.Type)
			}
		}
	}
	for _, s := range fd.Services {
		for _, m := range s.Methods {
			walk(m.Response)
			for _, f := range m.Args {
				walk(f.Type)
			}
			for _, f := range m.ThrowExceptions {
				walk(f.Type)
			}
		}
	}
	for _, t := range fd.Typedefs {
		walk(t.Type)
	}
	konst = true
	for _, c := range fd.Consts {
		walk(c.Type)
	}
}


// ---------------------------------------------------------------- lookup ops against a registry

func unhexs(s string) string {
	if s == "-" {
		return ""
	}
	b, err := hex.DecodeString(s)
	if err != nil {
		panic(err)
	}
	return string(b)
}

// identOf names a descriptor by its place in the registry: "<file>|<kind>|<index>" (pointer identity).
func identOf(gd *tr.GlobalDescriptor, x interface{}) string {
	switch d := x.(type) {
	case *tr.StructDescriptor:
		if fd := gd.LookupFD(d.Filepath); fd != nil {
			for k, group := range [][]*tr.StructDescriptor{fd.Structs, fd.Unions, fd.Exceptions} {
				for i, s := range group {
					if s == d {
						return fmt.Sprintf("%s|%c|%d", fd.Filepath, "sux"[k], i)
					}
				}
			}
		}
	case *tr.EnumDescriptor:
		if fd := gd.LookupFD(d.Filepath); fd != nil {
			for i, s := range fd.Enums {
				if s == d {
					return fmt.Sprintf("%s|e|%d", fd.Filepath, i)
				}
			}
		}
	case *tr.TypedefDescriptor:
		if fd := gd.LookupFD(d.Filepath); fd != nil {
			for i, s := range fd.Typedefs {
				if s == d {
					return fmt.Sprintf("%s|t|%d", fd.Filepath, i)
				}
			}
		}
	case *tr.ConstDescriptor:
		if fd := gd.LookupFD(d.Filepath); fd != nil {
			for i, s := range fd.Consts {
				if s == d {
					return fmt.Sprintf("%s|c|%d", fd.Filepath, i)
				}
			}
		}
	case *tr.ServiceDescriptor:
		if fd := gd.LookupFD(d.Filepath); fd != nil {
			for i, s := range fd.Services {
				if s == d {
					return fmt.Sprintf("%s|v|%d", fd.Filepath, i)
				}
			}
		}
	case *tr.MethodDescriptor:
		if fd := gd.LookupFD(d.Filepath); fd != nil {
			for i, s := range fd.Services {
				for j, m := range s.Methods {
					if m == d {
						return fmt.Sprintf("%s|m|%d.%d", fd.Filepath, i, j)
					}
				}
			}
		}
	case *tr.FieldDescriptor:
		if fd := gd.LookupFD(d.Filepath); fd != nil {
			for k, group := range [][]*tr.StructDescriptor{fd.Structs, fd.Unions, fd.Exceptions} {
				for i, s := range group {
					for j, f := range s.Fields {
						if f == d {
							return fmt.Sprintf("%s|f|%c%d.%d", fd.Filepath, "sux"[k], i, j)
						}
					}
				}
			}
		}
	}
	return "foreign"
}

func structByKind(fd *tr.FileDescriptor, kind string, name string) *tr.StructDescriptor {
	if fd == nil {
		return nil
	}
	var group []*tr.StructDescriptor
	switch kind {
	case "s":
		group = fd.Structs
	case "u":
		group = fd.Unions
	default:
		group = fd.Exceptions
	}
	for _, s := range group {
		if s.Name == name {
			return s
		}
	}
	return nil
}

// execOp runs one lookup op (GD L LM SP FN FI TD) against gd; a panic is the outcome "panic".
// Returns the canonical answer line and the registry identity of the descriptor found ("" for nil).
func execOp(gd *tr.GlobalDescriptor, toks []string) (res string, ident string) {
	defer func() {
		if r := recover(); r != nil {
			res, ident = "panic", ""
		}
	}()
	var x interface{}
	isNil := true
	switch toks[0] {
	case "GD":
		fd := gd.LookupFD(unhexs(toks[1]))
		if fd == nil {
			return "nil", ""
		}
		c := *fd
		if c.Extra != nil {
			// the Go package path recorded by BuildFileDescriptor is not an IDL fact
			e := map[string]string{}
			for k, v := range c.Extra {
				if k != "GoPkgPath" {
					e[k] = v
				}
			}
			c.Extra = e
			if len(e) == 0 {
				c.Extra = nil
			}
		}
		return "ok " + descDump(&c), c.Filepath
	case "L":
		path, name := unhexs(toks[2]), unhexs(toks[3])
		switch toks[1] {
		case "s":
			d := gd.LookupStruct(name, path)
			x, isNil = d, d == nil
		case "u":
			d := gd.LookupUnion(name, path)
			x, isNil = d, d == nil
		case "x":
			d := gd.LookupException(name, path)
			x, isNil = d, d == nil
		case "e":
			d := gd.LookupEnum(name, path)
			x, isNil = d, d == nil
		case "t":
			d := gd.LookupTypedef(name, path)
			x, isNil = d, d == nil
		case "c":
			d := gd.LookupConst(name, path)
			x, isNil = d, d == nil
		case "v":
			d := gd.LookupService(name, path)
			x, isNil = d, d == nil
		}
	case "LM":
		d := gd.LookupMethod(unhexs(toks[3]), unhexs(toks[2]), unhexs(toks[1]))
		x, isNil = d, d == nil
	case "SP":
		sd := gd.LookupFD(unhexs(toks[1])).GetServiceDescriptor(unhexs(toks[2]))
		d := sd.GetParent()
		x, isNil = d, d == nil
	case "FN":
		sd := structByKind(gd.LookupFD(unhexs(toks[1])), toks[2], unhexs(toks[3]))
		d := sd.GetFieldByName(unhexs(toks[4]))
		x, isNil = d, d == nil
	case "FI":
		sd := structByKind(gd.LookupFD(unhexs(toks[1])), toks[2], unhexs(toks[3]))
		n, _ := strconv.Atoi(toks[4])
		d := sd.GetFieldById(int32(n))
		x, isNil = d, d == nil
	case "TD":
		path, name, uu := unhexs(toks[2]), unhexs(toks[3]), toks[4] == "1"
		tds := map[tdKey]*tr.TypeDescriptor{}
		var order []tdKey
		if fd := gd.LookupFD(path); fd != nil {
			collectTDs(fd, tr.GLOBAL_UUID_EXTRA_KEY, tds, &order)
		}
		td := tds[tdKey{path, name, uu, false}]
		if td == nil {
			td = tds[tdKey{path, name, uu, true}]
		}
		if td == nil {
			return "no-such-type-descriptor", ""
		}
		switch toks[1] {
		case "s":
			d, _ := td.GetStructDescriptor()
			x, isNil = d, d == nil
		case "u":
			d, _ := td.GetUnionDescriptor()
			x, isNil = d, d == nil
		case "x":
			d, _ := td.GetExceptionDescriptor()
			x, isNil = d, d == nil
		case "e":
			d, _ := td.GetEnumDescriptor()
			x, isNil = d, d == nil
		case "t":
			d, _ := td.GetTypedefDescriptor()
			x, isNil = d, d == nil
		}
	default:
		return "bad-op", ""
	}
	if isNil {
		return "nil", ""
	}
	return "ok " + descDump(x), identOf(gd, x)
}

// facts: flattened statements "path → value" (what a Doc states, what a descriptor states)
type facts map[string]string

// ---------------------------------------------------------------- facts of a descriptor (oracle side)

func (fa facts) dAnnos(pfx string, m map[string][]string) {
	var keys []string
	for k := range m {
		keys = append(keys, k)
	}
	sort.Strings(keys)
	fa[pfx+".annokeys"] = strings.Join(keys, ",")
	for _, k := range keys {
		fa[pfx+".anno:"+k] = strings.Join(m[k], "\x1f")
	}
}

func (fa facts) dTy(pfx string, t *tr.TypeDescriptor, path string, bad *[]string) {
	if t == nil {
		fa[pfx] = "<nil>"
		return
	}
	if t.Filepath != path {
		*bad = append(*bad, pfx)
	}
	fa[pfx] = t.Name
	if t.KeyType != nil {
		fa.dTy(pfx+".key", t.KeyType, path, bad)
	} else {
		fa[pfx+".key"] = "<nil>"
	}
	if t.ValueType != nil {
		fa.dTy(pfx+".val", t.ValueType, path, bad)
	} else {
		fa[pfx+".val"] = "<nil>"
	}
}

func dConstFact(c *tr.ConstValueDescriptor) string {
	if c == nil {
		return "<none>"
	}
	switch c.Type {
	case tr.ConstValueType_INT:
		return "int:" + strconv.FormatInt(c.ValueInt, 10)
	case tr.ConstValueType_DOUBLE:
		return fmt.Sprintf("double:%016x", math.Float64bits(c.ValueDouble))
	case tr.ConstValueType_STRING:
		return "string:" + strconv.Quote(c.ValueString)
	case tr.ConstValueType_BOOL:
		return "bool:" + strconv.FormatBool(c.ValueBool)
	case tr.ConstValueType_IDENTIFIER:
		return "ident:" + c.ValueIdentifier
	case tr.ConstValueType_LIST:
		var p []string
		for _, e := range c.ValueList {
			p = append(p, dConstFact(e))
		}
		return "list[" + strings.Join(p, ",") + "]"
	case tr.ConstValueType_MAP:
		var p []string
		for k, v := range c.ValueMap {
			p = append(p, dConstFact(k)+"=>"+dConstFact(v))
		}
		sort.Strings(p)
		return "map{" + strings.Join(p, ",") + "}"
	}
	return "?"
}

func (fa facts) dFields(pfx string, fs []*tr.FieldDescriptor, path string, bad *[]string) {
	fa[pfx+".n"] = strconv.Itoa(len(fs))
	for i, f := range fs {
		p := fmt.Sprintf("%s[%d]", pfx, i)
		if f.Filepath != path {
			*bad = append(*bad, p)
		}
		fa[p+".name"] = f.Name
		fa[p+".id"] = strconv.Itoa(int(f.ID))
		fa[p+".req"] = f.Requiredness
		fa.dTy(p+".type", f.Type, path, bad)
		fa[p+".default"] = dConstFact(f.DefaultValue)
		fa.dAnnos(p, f.Annotations)
		fa[p+".comments"] = f.Comments
	}
}

func (fa facts) dStructs(grp string, ss []*tr.StructDescriptor, path string, bad *[]string) {
	fa[grp+".n"] = strconv.Itoa(len(ss))
	for i, s := range ss {
		p := fmt.Sprintf("%s[%d]", grp, i)
		if s.Filepath != path {
			*bad = append(*bad, p)
		}
		fa[p+".name"] = s.Name
		fa.dFields(p+".fields", s.Fields, path, bad)
		fa.dAnnos(p, s.Annotations)
		fa[p+".comments"] = s.Comments
	}
}

// descFacts flattens what a file descriptor states, in the key space of Doc.Facts.
func descFacts(fd *tr.FileDescriptor) facts {
	fa := facts{}
	var bad []string
	path := fd.Filepath
	fa["filename"] = fd.Filepath
	for a, p := range fd.Includes {
		fa["include:"+p] = "1"
		fa["includeprefix:"+a] = p
	}
	for l, n := range fd.Namespaces {
		fa["namespace:"+l+"="+n] = "1"
	}
	fa["typedefs.n"] = strconv.Itoa(len(fd.Typedefs))
	for i, t := range fd.Typedefs {
		p := fmt.Sprintf("typedefs[%d]", i)
		if t.Filepath != path {
			bad = append(bad, p)
		}
		fa[p+".alias"] = t.Alias
		fa.dTy(p+".type", t.Type, path, &bad)
		fa.dAnnos(p, t.Annotations)
		fa[p+".comments"] = t.Comments
	}
	fa["consts.n"] = strconv.Itoa(len(fd.Consts))
	for i, c := range fd.Consts {
		p := fmt.Sprintf("consts[%d]", i)
		if c.Filepath != path {
			bad = append(bad, p)
		}
		fa[p+".name"] = c.Name
		fa.dTy(p+".type", c.Type, path, &bad)
		fa[p+".value"] = dConstFact(c.Value)
		fa.dAnnos(p, c.Annotations)
		fa[p+".comments"] = c.Comments
	}
	fa["enums.n"] = strconv.Itoa(len(fd.Enums))
	for i, e := range fd.Enums {
		p := fmt.Sprintf("enums[%d]", i)
		if e.Filepath != path {
			bad = append(bad, p)
		}
		fa[p+".name"] = e.Name
		fa[p+".values.n"] = strconv.Itoa(len(e.Values))
		for j, v := range e.Values {
			q := fmt.Sprintf("%s.values[%d]", p, j)
			if v.Filepath != path {
				bad = append(bad, q)
			}
			fa[q+".name"] = v.Name
			fa[q+".value"] = strconv.FormatInt(v.Value, 10)
			fa.dAnnos(q, v.Annotations)
			fa[q+".comments"] = v.Comments
		}
		fa.dAnnos(p, e.Annotations)
		fa[p+".comments"] = e.Comments
	}
	fa.dStructs("structs", fd.Structs, path, &bad)
	fa.dStructs("unions", fd.Unions, path, &bad)
	fa.dStructs("exceptions", fd.Exceptions, path, &bad)
	fa["services.n"] = strconv.Itoa(len(fd.Services))
	for i, s := range fd.Services {
		p := fmt.Sprintf("services[%d]", i)
		if s.Filepath != path {
			bad = append(bad, p)
		}
		fa[p+".name"] = s.Name
		fa[p+".base"] = s.Base
		fa[p+".methods.n"] = strconv.Itoa(len(s.Methods))
		for j, m := range s.Methods {
			q := fmt.Sprintf("%s.methods[%d]", p, j)
			if m.Filepath != path {
				bad = append(bad, q)
			}
			fa[q+".name"] = m.Name
			fa[q+".oneway"] = strconv.FormatBool(m.IsOneway)
			fa.dTy(q+".response", m.Response, path, &bad)
			fa.dFields(q+".args", m.Args, path, &bad)
			fa.dFields(q+".throws", m.ThrowExceptions, path, &bad)
			fa.dAnnos(q, m.Annotations)
			fa[q+".comments"] = m.Comments
		}
		fa.dAnnos(p, s.Annotations)
		fa[p+".comments"] = s.Comments
	}
	if len(bad) > 0 {
		fa["filepaths"] = "inconsistent at " + strings.Join(bad, ",")
	}
	return fa
}

