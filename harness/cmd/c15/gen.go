package main

// Seeded generator of Docs. `valid` programs are accepted by thriftgo's semantic checker and compile
// (used by both tiers); the wild switches (same-base-name includes in one file, duplicate namespace
// languages, duplicate constant map keys) are parser-level shapes used in-process only.

import (
	"fmt"
	"strings"

	"verifharness/internal/vl"
)

type genCfg struct {
	collide bool // a file may include two files with equal base names
	dupNS   bool // a file may state a namespace language twice
	dupKeys bool // constant maps may repeat a key
	// forceGoNS: every file states a `namespace go` (needed to import the generated packages)
	forceGoNS bool
	// compileSafe avoids shapes on which thriftgo itself crashes or emits Go that does not compile (other
	// properties' business, see docs/C15.md): qualified identifiers inside literals of structs of another
	// file, an int literal for an enum of another file, one exception type twice in a throws list
	compileSafe bool
	// fullKinds: the main file has structs, a union, an exception, two enums and two typedefs at least
	// (the positional pairing of registerGoTypes is exercised across all groups); at most 2 files
	fullKinds bool
	// oddNames: definition names that are not their own Go names (snake_case, lower case, trailing
	// underscore, initialisms) — generated code must address descriptors by the IDL name
	oddNames bool
}

type rtype struct {
	kind     string // base name | list | set | map | enum | struct
	key, val *rtype
	enum     *DEnum
	strct    *DStruct
	file     int
}

func (t *rtype) key_() string {
	switch t.kind {
	case "list", "set":
		return t.kind + "<" + t.val.key_() + ">"
	case "map":
		return "map<" + t.key.key_() + "," + t.val.key_() + ">"
	case "enum":
		return fmt.Sprintf("enum:%d:%s", t.file, t.enum.Name)
	case "struct":
		return fmt.Sprintf("struct:%d:%s", t.file, t.strct.Name)
	}
	return t.kind
}

type tinfo struct {
	cat byte // e s u x t
	rt  *rtype
}

type cinfo struct {
	name string
	key  string
}

type gen struct {
	r      *vl.Rng
	cfg    genCfg
	doc    *Doc
	types  []map[string]*tinfo
	order  [][]string // named types per file in creation order
	consts [][]cinfo
	used   []map[string]bool // every top-level name per file
	names  map[byte][]string // names handed out per kind, for reuse across files
	ctr    int
	noIdent int // >0: inside a literal where identifiers must not be written (compileSafe)
	curFile int // the file being generated
}

// base names with inner dots (`base.v2.thrift` is referenced as `base.v2.S`: names split at the LAST dot)
var pathPool = []string{"a.thrift", "b.thrift", "c.thrift", "d1/base.thrift", "d2/base.thrift", "d1/x.thrift", "sub/deep/y.thrift", "d2/a.thrift", "sub/b.thrift",
	"sub/base.v2.thrift", "a.b.c.thrift"}
var baseTypes = []string{"bool", "byte", "i8", "i16", "i32", "i64", "double", "string", "binary"}
var annoKeys = []string{"x.a", "x.b", "note", "api.q"}
var annoVals = []string{"", "v1", "hello world", "a=b", "x,y;z", "caf\xc3\xa9", "1", "{json: like}"}
var commentTexts = []string{" note", " two words", "x", "* starred ", " a=b (c)", "", " caf\xc3\xa9", "  padded  "}
var strPool = []string{"", "hi", "hello world", "a,b", "x=1", "caf\xc3\xa9", "it is", "UPPER lower 09"}
var dblPool = []string{"0.0", "1.5", "-2.25", "3.14159", "100.0", "0.001", "-0.5", "12345.678"}
var nsLangs = []string{"java", "py", "cpp", "rs", "js", "*"}

func genDoc(r *vl.Rng, cfg genCfg) *Doc {
	g := &gen{r: r, cfg: cfg, doc: &Doc{}, names: map[byte][]string{}}
	g.layout()
	for fi := len(g.doc.Files) - 1; fi >= 0; fi-- {
		g.file(fi)
	}
	return g.doc
}

func (g *gen) layout() {
	n := 1 + g.r.Intn(5)
	if g.r.Chance(10) {
		n = 1
	}
	if g.cfg.fullKinds {
		n = 1 + g.r.Intn(2)
	}
	perm := g.r.Intn(len(pathPool))
	g.doc.Files = append(g.doc.Files, &DFile{Path: "main.thrift"})
	for i := 1; i < n; i++ {
		g.doc.Files = append(g.doc.Files, &DFile{Path: pathPool[(perm+i*4)%len(pathPool)]})
	}
	if n >= 3 && g.r.Chance(35) {
		pair := [][2]string{{"d1/x.thrift", "d1/base.thrift"}, {"d2/a.thrift", "d2/base.thrift"}}[g.r.Intn(2)]
		g.doc.Files[1].Path, g.doc.Files[2].Path = pair[0], pair[1]
	}
	// distinct paths
	seen := map[string]bool{}
	var fs []*DFile
	for _, f := range g.doc.Files {
		if !seen[f.Path] {
			seen[f.Path] = true
			fs = append(fs, f)
		}
	}
	g.doc.Files = fs
	n = len(fs)
	canInc := func(i, j int) bool {
		for _, k := range fs[i].Includes {
			if k == j {
				return false
			}
			if !g.cfg.collide && prefixOf(fs[k].Path) == prefixOf(fs[j].Path) {
				return false
			}
		}
		return true
	}
	for j := 1; j < n; j++ {
		// at least one includer
		for try := 0; try < 4; try++ {
			i := g.r.Intn(j)
			if canInc(i, j) {
				fs[i].Includes = append(fs[i].Includes, j)
				break
			}
		}
		for i := 0; i < j; i++ {
			p := 25
			if di := strings.LastIndex(fs[i].Path, "/"); di >= 0 && strings.HasPrefix(fs[j].Path, fs[i].Path[:di+1]) {
				p = 70 // files of one directory include each other more often (paths written relative to it)
			}
			if g.r.Chance(p) && canInc(i, j) {
				fs[i].Includes = append(fs[i].Includes, j)
			}
		}
	}
	if g.cfg.collide && n >= 3 {
		// force a collision when two files share a base name
		for a := 1; a < n; a++ {
			for b := a + 1; b < n; b++ {
				if prefixOf(fs[a].Path) == prefixOf(fs[b].Path) {
					for _, j := range []int{a, b} {
						if canInc(0, j) {
							fs[0].Includes = append(fs[0].Includes, j)
						}
					}
				}
			}
		}
	}
	for _, f := range fs {
		// shuffle include order
		for i := len(f.Includes) - 1; i > 0; i-- {
			j := g.r.Intn(i + 1)
			f.Includes[i], f.Includes[j] = f.Includes[j], f.Includes[i]
		}
	}
	// an include of a file in the includer's own directory may be written relative to that directory
	// (the parser tries the path as given first, then the includer's directory): written path ≠ Filename
	rootHas := map[string]bool{}
	for _, f := range fs {
		if !strings.Contains(f.Path, "/") {
			rootHas[f.Path] = true
		}
	}
	for _, f := range fs {
		f.IncPaths = make([]string, len(f.Includes))
		di := strings.LastIndex(f.Path, "/")
		if di < 0 {
			continue
		}
		for k, j := range f.Includes {
			p := fs[j].Path
			if strings.HasPrefix(p, f.Path[:di+1]) && !rootHas[p[di+1:]] && g.r.Chance(60) {
				f.IncPaths[k] = p[di+1:]
			}
		}
	}
	g.types = make([]map[string]*tinfo, n)
	g.order = make([][]string, n)
	g.consts = make([][]cinfo, n)
	g.used = make([]map[string]bool, n)
	for i := range fs {
		g.types[i] = map[string]*tinfo{}
		g.used[i] = map[string]bool{}
	}
}

func (g *gen) name(fi int, kind byte, prefix string) string {
	if pool := g.names[kind]; len(pool) > 0 && g.r.Chance(30) {
		n := pool[g.r.Intn(len(pool))]
		if !g.used[fi][n] {
			g.used[fi][n] = true
			return n
		}
	}
	for {
		g.ctr++
		n := fmt.Sprintf("%s%d", prefix, g.ctr)
		if g.cfg.oddNames && kind != 'c' && g.r.Chance(55) {
			lp := strings.ToLower(prefix)
			switch g.r.Intn(5) {
			case 0:
				n = fmt.Sprintf("%s_item_%d", lp, g.ctr) // snake_case
			case 1:
				n = fmt.Sprintf("%s%d", lp, g.ctr) // lower case
			case 2:
				n = fmt.Sprintf("%s%d_", prefix, g.ctr) // trailing underscore
			case 3:
				n = fmt.Sprintf("%s_url_id%d", lp, g.ctr) // initialisms
			default:
				n = fmt.Sprintf("%s_%d_x", prefix, g.ctr)
			}
		}
		if !g.used[fi][n] {
			g.used[fi][n] = true
			g.names[kind] = append(g.names[kind], n)
			return n
		}
	}
}

func (g *gen) annos() []Anno {
	if !g.r.Chance(40) {
		return nil
	}
	n := 1 + g.r.Intn(4)
	var as []Anno
	for i := 0; i < n; i++ {
		as = append(as, Anno{g.r.Pick(annoKeys), g.r.Pick(annoVals)})
	}
	return as
}

func (g *gen) comments() []Comment {
	if !g.r.Chance(35) {
		return nil
	}
	n := 1 + g.r.Intn(2)
	var cs []Comment
	for i := 0; i < n; i++ {
		cs = append(cs, Comment{Style: "/*#"[g.r.Intn(3)], Text: g.r.Pick(commentTexts)})
	}
	return cs
}

// visible named types from file fi: (written name, info)
type vis struct {
	name string
	ti   *tinfo
}

func (g *gen) visible(fi int) []vis {
	var out []vis
	for _, n := range g.order[fi] {
		out = append(out, vis{n, g.types[fi][n]})
	}
	seenPfx := map[string]bool{}
	for _, j := range g.doc.Files[fi].Includes {
		p := prefixOf(g.doc.Files[j].Path)
		if seenPfx[p] {
			continue // the IDL's `p.N` means the first include with that prefix
		}
		seenPfx[p] = true
		for _, n := range g.order[j] {
			out = append(out, vis{p + "." + n, g.types[j][n]})
		}
	}
	return out
}

func baseRT(n string) *rtype { return &rtype{kind: n} }

func (g *gen) keyable(rt *rtype) bool {
	switch rt.kind {
	case "list", "set", "map", "struct", "binary", "double", "bool":
		return false
	}
	return true
}

// genType returns the written type and its resolution. want: "" any, "key" map key, "x" exception only.
func (g *gen) genType(fi int, depth int, want string) (*DType, *rtype) {
	vs := g.visible(fi)
	if want == "x" {
		var xs []vis
		for _, v := range vs {
			if v.ti.cat == 'x' {
				xs = append(xs, v)
			}
		}
		if len(xs) == 0 {
			return nil, nil
		}
		v := xs[g.r.Intn(len(xs))]
		return &DType{Name: v.name}, v.ti.rt
	}
	for try := 0; try < 20; try++ {
		c := g.r.Intn(100)
		switch {
		case c < 45:
			n := g.r.Pick(baseTypes)
			rt := baseRT(n)
			if want == "key" && !g.keyable(rt) {
				continue
			}
			return &DType{Name: n}, rt
		case c < 65 && depth < 3 && want != "key":
			switch g.r.Intn(3) {
			case 0:
				e, re := g.genType(fi, depth+1, "")
				return &DType{Name: "list", Val: e}, &rtype{kind: "list", val: re}
			case 1:
				e, re := g.genType(fi, depth+1, "key")
				return &DType{Name: "set", Val: e}, &rtype{kind: "set", val: re}
			default:
				k, rk := g.genType(fi, depth+1, "key")
				v, rv := g.genType(fi, depth+1, "")
				return &DType{Name: "map", Key: k, Val: v}, &rtype{kind: "map", key: rk, val: rv}
			}
		default:
			if len(vs) == 0 {
				continue
			}
			v := vs[g.r.Intn(len(vs))]
			if want == "key" && !g.keyable(v.ti.rt) {
				continue
			}
			return &DType{Name: v.name}, v.ti.rt
		}
	}
	return &DType{Name: "i32"}, baseRT("i32")
}

func (g *gen) intIn(lo, hi int64) int64 {
	switch g.r.Intn(6) {
	case 0:
		return lo
	case 1:
		return hi
	case 2:
		return 0
	}
	span := uint64(hi - lo)
	if span == 0 {
		return lo
	}
	return lo + int64(g.r.U64()%span)
}

func (g *gen) qualify(fi, fj int, n string) (string, bool) {
	if fi == fj {
		return n, true
	}
	seenPfx := map[string]bool{}
	for _, j := range g.doc.Files[fi].Includes {
		p := prefixOf(g.doc.Files[j].Path)
		if seenPfx[p] {
			continue
		}
		seenPfx[p] = true
		if j == fj {
			return p + "." + n, true
		}
	}
	return "", false
}

func (g *gen) constOf(fi int, rt *rtype, depth int) *DConst {
	// a reference to another constant of the same type
	if g.noIdent == 0 && g.r.Chance(15) {
		var cands []string
		for _, c := range g.consts[fi] {
			if c.key == rt.key_() {
				cands = append(cands, c.name)
			}
		}
		seenPfx := map[string]bool{}
		for _, j := range g.doc.Files[fi].Includes {
			p := prefixOf(g.doc.Files[j].Path)
			if seenPfx[p] {
				continue
			}
			seenPfx[p] = true
			for _, c := range g.consts[j] {
				if c.key == rt.key_() {
					cands = append(cands, p+"."+c.name)
				}
			}
		}
		if len(cands) > 0 {
			return &DConst{Kind: 'x', S: cands[g.r.Intn(len(cands))]}
		}
	}
	sep := ","
	if g.r.Chance(15) {
		sep = ";"
	}
	switch rt.kind {
	case "bool":
		if g.r.Chance(80) {
			return &DConst{Kind: 'x', S: []string{"true", "false"}[g.r.Intn(2)]}
		}
		return &DConst{Kind: 'i', I: int64(g.r.Intn(2))}
	case "byte", "i8":
		return &DConst{Kind: 'i', I: g.intIn(-128, 127)}
	case "i16":
		return &DConst{Kind: 'i', I: g.intIn(-32768, 32767)}
	case "i32":
		return &DConst{Kind: 'i', I: g.intIn(-2147483648, 2147483647)}
	case "i64":
		return &DConst{Kind: 'i', I: g.intIn(-9223372036854775807, 9223372036854775807)}
	case "double":
		if g.r.Chance(75) {
			return &DConst{Kind: 'd', DText: g.r.Pick(dblPool)}
		}
		return &DConst{Kind: 'i', I: g.intIn(-1000, 1000)}
	case "string", "binary":
		return &DConst{Kind: 's', S: g.r.Pick(strPool), Quote: "\"'"[g.r.Intn(2)]}
	case "enum":
		if len(rt.enum.Values) == 0 {
			return &DConst{Kind: 'i', I: 0}
		}
		v := rt.enum.Values[g.r.Intn(len(rt.enum.Values))]
		if g.noIdent == 0 && (g.r.Chance(75) || (g.cfg.compileSafe && rt.file != fi)) {
			if q, ok := g.qualify(fi, rt.file, rt.enum.Name+"."+v.Name); ok {
				return &DConst{Kind: 'x', S: q}
			}
		}
		return &DConst{Kind: 'i', I: v.Value}
	case "list", "set":
		n := g.r.Intn(4)
		if depth > 2 {
			n = g.r.Intn(2)
		}
		c := &DConst{Kind: 'l', Sep: sep}
		seen := map[string]bool{}
		for i := 0; i < n; i++ {
			e := g.constOf(fi, rt.val, depth+1)
			if rt.kind == "set" && seen[e.String()] {
				continue
			}
			seen[e.String()] = true
			c.Items = append(c.Items, e)
		}
		return c
	case "map":
		n := g.r.Intn(4)
		if depth > 2 {
			n = g.r.Intn(2)
		}
		c := &DConst{Kind: 'm', Sep: sep}
		seen := map[string]bool{}
		for i := 0; i < n; i++ {
			k := g.constOf(fi, rt.key, depth+1)
			if k.Kind == 'x' && !g.cfg.dupKeys {
				continue // an identifier key may denote the same value as another key
			}
			if seen[k.String()] && !(g.cfg.dupKeys && g.r.Chance(50)) {
				continue
			}
			seen[k.String()] = true
			c.Pairs = append(c.Pairs, [2]*DConst{k, g.constOf(fi, rt.val, depth+1)})
		}
		if g.cfg.dupKeys && len(c.Pairs) > 0 && g.r.Chance(30) {
			c.Pairs = append(c.Pairs, [2]*DConst{c.Pairs[0][0], g.constOf(fi, rt.val, depth+1)})
		}
		return c
	case "struct":
		c := &DConst{Kind: 'm', Sep: sep}
		if g.cfg.compileSafe && rt.file != fi {
			g.noIdent++
			defer func() { g.noIdent-- }()
		}
		for _, f := range rt.strct.Fields {
			frt := g.resolve(rt.file, f.Type)
			if frt == nil || !g.constable(frt, depth+1) {
				continue
			}
			if g.cfg.compileSafe && f.Req == 2 && frt.kind == "enum" {
				continue // thriftgo emits `&E_V` for an optional enum member of a struct literal
			}
			if rt.strct.Kind == 'u' {
				if len(c.Pairs) == 1 {
					break
				}
			} else if f.Req != 1 && g.r.Chance(50) {
				continue
			}
			c.Pairs = append(c.Pairs, [2]*DConst{{Kind: 's', S: f.Name, Quote: '"'}, g.constOf(fi, frt, depth+1)})
		}
		return c
	}
	panic("constOf " + rt.kind)
}

// constable: can a constant of this type be written (bounded depth, unions need a member).
func (g *gen) constable(rt *rtype, depth int) bool {
	if depth > 4 {
		return false
	}
	switch rt.kind {
	case "list", "set":
		return g.constable(rt.val, depth+1)
	case "map":
		return g.constable(rt.key, depth+1) && g.constable(rt.val, depth+1)
	case "enum":
		if g.cfg.compileSafe && len(rt.enum.Values) == 0 {
			return false
		}
	case "struct":
		if rt.strct.Kind != 's' || (g.cfg.compileSafe && g.curFile != rt.file) {
			return false
		}
		for _, f := range rt.strct.Fields {
			if f.Req == 1 {
				frt := g.resolve(rt.file, f.Type)
				if frt == nil || !g.constable(frt, depth+1) {
					return false
				}
			}
		}
		return depth <= 2
	}
	return true
}

// resolve a written type in the context of file fi.
func (g *gen) resolve(fi int, t *DType) *rtype {
	switch t.Name {
	case "list", "set":
		v := g.resolve(fi, t.Val)
		if v == nil {
			return nil
		}
		return &rtype{kind: t.Name, val: v}
	case "map":
		k, v := g.resolve(fi, t.Key), g.resolve(fi, t.Val)
		if k == nil || v == nil {
			return nil
		}
		return &rtype{kind: "map", key: k, val: v}
	}
	for _, b := range baseTypes {
		if b == t.Name {
			return baseRT(b)
		}
	}
	if i := strings.LastIndex(t.Name, "."); i >= 0 {
		for _, j := range g.doc.Files[fi].Includes {
			if prefixOf(g.doc.Files[j].Path) == t.Name[:i] {
				if ti := g.types[j][t.Name[i+1:]]; ti != nil {
					return ti.rt
				}
				return nil
			}
		}
		return nil
	}
	if ti := g.types[fi][t.Name]; ti != nil {
		return ti.rt
	}
	return nil
}

func (g *gen) addType(fi int, n string, ti *tinfo) {
	g.types[fi][n] = ti
	g.order[fi] = append(g.order[fi], n)
}

func (g *gen) fieldList(fi int, n int, kind byte, self *DStruct) []*DField {
	var fs []*DField
	id := int32(0)
	used := map[int32]bool{}
	for i := 0; i < n; i++ {
		switch g.r.Intn(8) {
		case 0:
			id += int32(1 + g.r.Intn(40))
		case 1:
			id = -int32(1 + g.r.Intn(30))
			for used[id] {
				id--
			}
		default:
			if id < 0 {
				id = 0
			}
			id++
		}
		for used[id] || id == 0 {
			id++
		}
		used[id] = true
		f := &DField{Name: fmt.Sprintf("f%d", i+1), ID: id, Annos: g.annos(), Comments: g.comments()}
		switch kind {
		case 'u':
			f.Req = []int{0, 2}[g.r.Intn(2)]
		case 'a': // method argument
			f.Req = []int{0, 0, 1, 2}[g.r.Intn(4)]
			f.Name = fmt.Sprintf("a%d", i+1)
		default:
			f.Req = g.r.Intn(3)
		}
		var rt *rtype
		if self != nil && g.r.Chance(8) {
			f.Type, f.Req = &DType{Name: self.Name}, 2
		} else {
			f.Type, rt = g.genType(fi, 0, "")
		}
		if rt != nil && kind != 'u' && !(kind == 'a' && g.cfg.compileSafe) && g.r.Chance(30) && g.constable(rt, 0) && rt.kind != "struct" && g.safeConstType(fi, f.Type, rt, true) {
			f.Default = g.constOf(fi, rt, 1)
		}
		fs = append(fs, f)
	}
	return fs
}

func (g *gen) strct(fi int) { g.strctKind(fi, "sssux"[g.r.Intn(5)]) }

func (g *gen) strctKind(fi int, kind byte) {
	f := g.doc.Files[fi]
	pfx := map[byte]string{'s': "S", 'u': "U", 'x': "X"}[kind]
	s := &DStruct{Kind: kind, Name: g.name(fi, kind, pfx), Annos: g.annos(), Comments: g.comments()}
	n := g.r.Intn(5)
	if kind == 'u' && n == 0 {
		n = 1
	}
	s.Fields = g.fieldList(fi, n, kind, s)
	f.Structs = append(f.Structs, s)
	f.Order = append(f.Order, defRef{'s', len(f.Structs) - 1})
	g.addType(fi, s.Name, &tinfo{cat: kind, rt: &rtype{kind: "struct", strct: s, file: fi}})
}

// safeConstType (compileSafe): thriftgo crashes on constants whose type mentions a typedef of a container, and
// emits an unused import for a constant whose top-level type is a qualified typedef/enum written without an identifier.
func (g *gen) safeConstType(fi int, ty *DType, rt *rtype, top bool) bool {
	if !g.cfg.compileSafe {
		return true
	}
	switch ty.Name {
	case "list", "set":
		return g.safeConstType(fi, ty.Val, rt.val, false)
	case "map":
		return g.safeConstType(fi, ty.Key, rt.key, false) && g.safeConstType(fi, ty.Val, rt.val, false)
	}
	named := true
	for _, b := range baseTypes {
		if b == ty.Name {
			named = false
		}
	}
	if !named {
		return true
	}
	switch rt.kind {
	case "list", "set", "map":
		return false // a typedef of a container
	}
	if top && strings.Contains(ty.Name, ".") && !(rt.kind == "enum" && len(rt.enum.Values) > 0) {
		return false
	}
	return true
}

func (g *gen) file(fi int) {
	g.curFile = fi
	f := g.doc.Files[fi]
	if g.cfg.forceGoNS || g.r.Chance(85) {
		f.NS = append(f.NS, DNS{"go", fmt.Sprintf("pkg%d", fi)})
	}
	for _, l := range nsLangs {
		if g.r.Chance(20) {
			f.NS = append(f.NS, DNS{l, fmt.Sprintf("ns.%s.n%d", strings.Trim(l, "*")+"x", g.r.Intn(9))})
		}
	}
	if g.cfg.dupNS && len(f.NS) > 0 && g.r.Chance(60) {
		f.NS = append(f.NS, DNS{f.NS[0].Lang, f.NS[0].Name + ".again"})
	}
	full := g.cfg.fullKinds && fi == 0
	ne := g.r.Intn(3)
	if full {
		ne = 2 + g.r.Intn(2)
	}
	for i := ne; i > 0; i-- {
		e := &DEnum{Name: g.name(fi, 'e', "E"), Annos: g.annos(), Comments: g.comments()}
		next := int64(0)
		for k := g.r.Intn(5); k > 0; k-- {
			v := &DEnumValue{Name: fmt.Sprintf("V%d", len(e.Values)+1), Annos: g.annos(), Comments: g.comments()}
			if g.r.Chance(70) {
				next += int64(g.r.Intn(5))
				if len(e.Values) == 0 && g.r.Chance(20) {
					next = -int64(g.r.Intn(4))
				}
				v.WriteValue = true
			}
			v.Value = next
			next++
			e.Values = append(e.Values, v)
		}
		f.Enums = append(f.Enums, e)
		f.Order = append(f.Order, defRef{'e', len(f.Enums) - 1})
		g.addType(fi, e.Name, &tinfo{cat: 'e', rt: &rtype{kind: "enum", enum: e, file: fi}})
	}
	for i := g.r.Intn(3); i > 0; i-- {
		g.strct(fi)
	}
	if full {
		for _, k := range []byte{'s', 'x', 'u', 's'} {
			g.strctKind(fi, k)
		}
	}
	ntd := g.r.Intn(4)
	if full && ntd < 2 {
		ntd = 2
	}
	for i := ntd; i > 0; i-- {
		t := &DTypedef{Alias: g.name(fi, 't', "T"), Annos: g.annos(), Comments: g.comments()}
		var rt *rtype
		t.Type, rt = g.genType(fi, 0, "")
		f.Typedefs = append(f.Typedefs, t)
		f.Order = append(f.Order, defRef{'t', len(f.Typedefs) - 1})
		g.addType(fi, t.Alias, &tinfo{cat: 't', rt: rt})
	}
	for i := g.r.Intn(3); i > 0; i-- {
		g.strct(fi)
	}
	for i := g.r.Intn(4); i > 0; i-- {
		for try := 0; try < 5; try++ {
			ty, rt := g.genType(fi, 0, "")
			if !g.constable(rt, 0) || !g.safeConstType(fi, ty, rt, true) {
				continue
			}
			c := &DConstDef{Name: g.name(fi, 'c', "c"), Type: ty, Annos: g.annos(), Comments: g.comments()}
			c.Value = g.constOf(fi, rt, 0)
			f.Consts = append(f.Consts, c)
			f.Order = append(f.Order, defRef{'c', len(f.Consts) - 1})
			g.consts[fi] = append(g.consts[fi], cinfo{c.Name, rt.key_()})
			break
		}
	}
	for i := g.r.Intn(3); i > 0; i-- {
		s := &DService{Name: g.name(fi, 'v', "Svc"), Annos: g.annos(), Comments: g.comments()}
		if g.r.Chance(40) {
			var cands []string
			for _, o := range f.Services {
				cands = append(cands, o.Name)
			}
			seenPfx := map[string]bool{}
			for _, j := range f.Includes {
				p := prefixOf(g.doc.Files[j].Path)
				if seenPfx[p] {
					continue
				}
				seenPfx[p] = true
				for _, o := range g.doc.Files[j].Services {
					cands = append(cands, p+"."+o.Name)
				}
			}
			if len(cands) > 0 {
				s.Extends = cands[g.r.Intn(len(cands))]
			}
		}
		for k := g.r.Intn(4); k > 0; k-- {
			g.ctr++
			fn := &DFunc{Name: fmt.Sprintf("m%d", g.ctr), Annos: g.annos(), Comments: g.comments()}
			fn.Args = g.fieldList(fi, g.r.Intn(4), 'a', nil)
			if g.r.Chance(15) {
				fn.Oneway = true
			} else {
				if g.r.Chance(70) {
					fn.Ret, _ = g.genType(fi, 0, "")
				}
				for t := g.r.Intn(3); t > 0; t-- {
					ty, _ := g.genType(fi, 0, "x")
					if ty == nil {
						break
					}
					dup := false
					for _, o := range fn.Throws {
						if o.Type.Name == ty.Name {
							dup = true
						}
					}
					if dup && g.cfg.compileSafe {
						continue
					}
					fn.Throws = append(fn.Throws, &DField{Name: fmt.Sprintf("e%d", len(fn.Throws)+1), ID: int32(len(fn.Throws) + 1), Type: ty, Req: 2, HideReq: true,
						Annos: g.annos(), Comments: g.comments()})
				}
			}
			s.Funcs = append(s.Funcs, fn)
		}
		f.Services = append(f.Services, s)
		f.Order = append(f.Order, defRef{'v', len(f.Services) - 1})
	}
	// source order: a random interleaving that keeps the relative order of each kind
	// (typedef/const/enum/struct/service lists of the AST are in source order per kind)
	if g.r.Chance(50) {
		byKind := map[byte][]defRef{}
		var kinds []byte
		for _, r := range f.Order {
			if len(byKind[r.Kind]) == 0 {
				kinds = append(kinds, r.Kind)
			}
			byKind[r.Kind] = append(byKind[r.Kind], r)
		}
		var out []defRef
		for len(kinds) > 0 {
			i := g.r.Intn(len(kinds))
			k := kinds[i]
			out = append(out, byKind[k][0])
			byKind[k] = byKind[k][1:]
			if len(byKind[k]) == 0 {
				kinds = append(kinds[:i], kinds[i+1:]...)
			}
		}
		f.Order = out
	}
}
