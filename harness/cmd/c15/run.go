package main

// Correspondence (implementation vs model, op lines) and the implementation-only ORACLE of C15:
// the Doc (what the harness wrote) against the descriptors the real code builds, fact by fact;
// Unmarshal∘Marshal = identity; every lookup returns the very descriptor of the definition the name denotes.

import (
	"bytes"
	"compress/gzip"
	"encoding/hex"
	"encoding/json"
	"fmt"
	"io"
	"math"
	"os"
	"sort"
	"strconv"
	"strings"

	"github.com/cloudwego/thriftgo/parser"
	tr "github.com/cloudwego/thriftgo/thrift_reflection"

	"verifharness/internal/vl"
)

// ---------------------------------------------------------------- facts of a descriptor (oracle side)

func (fa facts) dAnnos(pfx string, m map[string][]string) {
	var keys []string
	for k := range m {
		keys = append(keys, k)
	}
	sort.Strings(keys)
	fa[pfx+".annokeys"] = strings.Join(keys, ",")
	for _, k := range keys {
		fa[pfx+".anno:"+k] = strings.Join(m[k], "\x1f")
	}
}

func (fa facts) dTy(pfx string, t *tr.TypeDescriptor, path string, bad *[]string) {
	if t == nil {
		fa[pfx] = "<nil>"
		return
	}
	if t.Filepath != path {
		*bad = append(*bad, pfx)
	}
	fa[pfx] = t.Name
	if t.KeyType != nil {
		fa.dTy(pfx+".key", t.KeyType, path, bad)
	} else {
		fa[pfx+".key"] = "<nil>"
	}
	if t.ValueType != nil {
		fa.dTy(pfx+".val", t.ValueType, path, bad)
	} else {
		fa[pfx+".val"] = "<nil>"
	}
}

func dConstFact(c *tr.ConstValueDescriptor) string {
	if c == nil {
		return "<none>"
	}
	switch c.Type {
	case tr.ConstValueType_INT:
		return "int:" + strconv.FormatInt(c.ValueInt, 10)
	case tr.ConstValueType_DOUBLE:
		return fmt.Sprintf("double:%016x", math.Float64bits(c.ValueDouble))
	case tr.ConstValueType_STRING:
		return "string:" + strconv.Quote(c.ValueString)
	case tr.ConstValueType_BOOL:
		return "bool:" + strconv.FormatBool(c.ValueBool)
	case tr.ConstValueType_IDENTIFIER:
		return "ident:" + c.ValueIdentifier
	case tr.ConstValueType_LIST:
		var p []string
		for _, e := range c.ValueList {
			p = append(p, dConstFact(e))
		}
		return "list[" + strings.Join(p, ",") + "]"
	case tr.ConstValueType_MAP:
		var p []string
		for k, v := range c.ValueMap {
			p = append(p, dConstFact(k)+"=>"+dConstFact(v))
		}
		sort.Strings(p)
		return "map{" + strings.Join(p, ",") + "}"
	}
	return "?"
}

func (fa facts) dFields(pfx string, fs []*tr.FieldDescriptor, path string, bad *[]string) {
	fa[pfx+".n"] = strconv.Itoa(len(fs))
	for i, f := range fs {
		p := fmt.Sprintf("%s[%d]", pfx, i)
		if f.Filepath != path {
			*bad = append(*bad, p)
		}
		fa[p+".name"] = f.Name
		fa[p+".id"] = strconv.Itoa(int(f.ID))
		fa[p+".req"] = f.Requiredness
		fa.dTy(p+".type", f.Type, path, bad)
		fa[p+".default"] = dConstFact(f.DefaultValue)
		fa.dAnnos(p, f.Annotations)
		fa[p+".comments"] = f.Comments
	}
}

func (fa facts) dStructs(grp string, ss []*tr.StructDescriptor, path string, bad *[]string) {
	fa[grp+".n"] = strconv.Itoa(len(ss))
	for i, s := range ss {
		p := fmt.Sprintf("%s[%d]", grp, i)
		if s.Filepath != path {
			*bad = append(*bad, p)
		}
		fa[p+".name"] = s.Name
		fa.dFields(p+".fields", s.Fields, path, bad)
		fa.dAnnos(p, s.Annotations)
		fa[p+".comments"] = s.Comments
	}
}

// descFacts flattens what a file descriptor states, in the key space of Doc.Facts.
func descFacts(fd *tr.FileDescriptor) facts {
	fa := facts{}
	var bad []string
	path := fd.Filepath
	fa["filename"] = fd.Filepath
	for a, p := range fd.Includes {
		fa["include:"+p] = "1"
		fa["includeprefix:"+a] = p
	}
	for l, n := range fd.Namespaces {
		fa["namespace:"+l+"="+n] = "1"
	}
	fa["typedefs.n"] = strconv.Itoa(len(fd.Typedefs))
	for i, t := range fd.Typedefs {
		p := fmt.Sprintf("typedefs[%d]", i)
		if t.Filepath != path {
			bad = append(bad, p)
		}
		fa[p+".alias"] = t.Alias
		fa.dTy(p+".type", t.Type, path, &bad)
		fa.dAnnos(p, t.Annotations)
		fa[p+".comments"] = t.Comments
	}
	fa["consts.n"] = strconv.Itoa(len(fd.Consts))
	for i, c := range fd.Consts {
		p := fmt.Sprintf("consts[%d]", i)
		if c.Filepath != path {
			bad = append(bad, p)
		}
		fa[p+".name"] = c.Name
		fa.dTy(p+".type", c.Type, path, &bad)
		fa[p+".value"] = dConstFact(c.Value)
		fa.dAnnos(p, c.Annotations)
		fa[p+".comments"] = c.Comments
	}
	fa["enums.n"] = strconv.Itoa(len(fd.Enums))
	for i, e := range fd.Enums {
		p := fmt.Sprintf("enums[%d]", i)
		if e.Filepath != path {
			bad = append(bad, p)
		}
		fa[p+".name"] = e.Name
		fa[p+".values.n"] = strconv.Itoa(len(e.Values))
		for j, v := range e.Values {
			q := fmt.Sprintf("%s.values[%d]", p, j)
			if v.Filepath != path {
				bad = append(bad, q)
			}
			fa[q+".name"] = v.Name
			fa[q+".value"] = strconv.FormatInt(v.Value, 10)
			fa.dAnnos(q, v.Annotations)
			fa[q+".comments"] = v.Comments
		}
		fa.dAnnos(p, e.Annotations)
		fa[p+".comments"] = e.Comments
	}
	fa.dStructs("structs", fd.Structs, path, &bad)
	fa.dStructs("unions", fd.Unions, path, &bad)
	fa.dStructs("exceptions", fd.Exceptions, path, &bad)
	fa["services.n"] = strconv.Itoa(len(fd.Services))
	for i, s := range fd.Services {
		p := fmt.Sprintf("services[%d]", i)
		if s.Filepath != path {
			bad = append(bad, p)
		}
		fa[p+".name"] = s.Name
		fa[p+".base"] = s.Base
		fa[p+".methods.n"] = strconv.Itoa(len(s.Methods))
		for j, m := range s.Methods {
			q := fmt.Sprintf("%s.methods[%d]", p, j)
			if m.Filepath != path {
				bad = append(bad, q)
			}
			fa[q+".name"] = m.Name
			fa[q+".oneway"] = strconv.FormatBool(m.IsOneway)
			fa.dTy(q+".response", m.Response, path, &bad)
			fa.dFields(q+".args", m.Args, path, &bad)
			fa.dFields(q+".throws", m.ThrowExceptions, path, &bad)
			fa.dAnnos(q, m.Annotations)
			fa[q+".comments"] = m.Comments
		}
		fa.dAnnos(p, s.Annotations)
		fa[p+".comments"] = s.Comments
	}
	if len(bad) > 0 {
		fa["filepaths"] = "inconsistent at " + strings.Join(bad, ",")
	}
	return fa
}

var idxRe = strings.NewReplacer("0", "", "1", "", "2", "", "3", "", "4", "", "5", "", "6", "", "7", "", "8", "", "9", "")

// factClass strips indexes and the variable tail of keyed facts: "structs[].fields[].anno"
func factClass(k string) string {
	if i := strings.Index(k, ":"); i >= 0 {
		k = k[:i]
	}
	return idxRe.Replace(k)
}

type ofail struct {
	class    string
	what     string
	expected string
	observed string
}

func diffFacts(want, got facts) []ofail {
	var out []ofail
	var keys []string
	for k := range want {
		keys = append(keys, k)
	}
	for k := range got {
		if _, ok := want[k]; !ok {
			keys = append(keys, k)
		}
	}
	sort.Strings(keys)
	for _, k := range keys {
		w, okw := want[k]
		g, okg := got[k]
		if okw && okg && w == g {
			continue
		}
		if !okw {
			w = "<not stated by the IDL>"
		}
		if !okg {
			g = "<absent from the descriptor>"
		}
		out = append(out, ofail{class: factClass(k), what: "fact " + k, expected: w, observed: g})
	}
	return out
}

// ---------------------------------------------------------------- running one program

func gunzip(b []byte) ([]byte, error) {
	r, err := gzip.NewReader(bytes.NewReader(b))
	if err != nil {
		return nil, err
	}
	return io.ReadAll(r)
}

type sink interface {
	Case(op, impl string, nontrivial bool)
	Count(k string)
}

type nullSink struct{}

func (nullSink) Case(string, string, bool) {}
func (nullSink) Count(string)              {}

func guard(f func() string) (s string) {
	defer func() {
		if r := recover(); r != nil {
			s = "panic"
		}
	}()
	return f()
}

func hasCollision(d *Doc, fi int) bool {
	seen := map[string]bool{}
	for _, j := range d.Files[fi].Includes {
		p := prefixOf(d.Files[j].Path)
		if seen[p] {
			return true
		}
		seen[p] = true
	}
	return false
}

// expectDef: the definition a (qualified) name denotes from file fi, per the Doc: (file, index in its
// per-kind list). kind: s u x e t c v.
func expectDef(d *Doc, fi int, kind byte, name string) (int, int, bool) {
	pre, nm := "", name
	if i := strings.LastIndex(name, "."); i >= 0 {
		pre, nm = name[:i], name[i+1:]
	}
	fj := fi
	if pre != "" {
		fj = -1
		for _, j := range d.Files[fi].Includes {
			if prefixOf(d.Files[j].Path) == pre {
				fj = j
				break
			}
		}
		if fj < 0 {
			return 0, 0, false
		}
	}
	f := d.Files[fj]
	switch kind {
	case 's', 'u', 'x':
		k := 0
		for _, s := range f.Structs {
			if s.Kind != kind {
				continue
			}
			if s.Name == nm {
				return fj, k, true
			}
			k++
		}
	case 'e':
		for k, e := range f.Enums {
			if e.Name == nm {
				return fj, k, true
			}
		}
	case 't':
		for k, e := range f.Typedefs {
			if e.Alias == nm {
				return fj, k, true
			}
		}
	case 'c':
		for k, e := range f.Consts {
			if e.Name == nm {
				return fj, k, true
			}
		}
	case 'v':
		for k, e := range f.Services {
			if e.Name == nm {
				return fj, k, true
			}
		}
	}
	return 0, 0, false
}

func wellFormedName(n string) bool {
	if n == "" || strings.HasPrefix(n, ".") || strings.HasSuffix(n, ".") || strings.Contains(n, "..") {
		return false
	}
	return true
}

type tdKey struct {
	path, name string
	uuid       bool
}

func collectTDs(fd *tr.FileDescriptor, key string, into map[tdKey]*tr.TypeDescriptor, order *[]tdKey) {
	var walk func(t *tr.TypeDescriptor)
	walk = func(t *tr.TypeDescriptor) {
		if t == nil {
			return
		}
		k := tdKey{t.Filepath, t.Name, t.Extra[key] != ""}
		if _, ok := into[k]; !ok {
			into[k] = t
			*order = append(*order, k)
		}
		walk(t.KeyType)
		walk(t.ValueType)
	}
	for _, group := range [][]*tr.StructDescriptor{fd.Structs, fd.Unions, fd.Exceptions} {
		for _, s := range group {
			for _, f := range s.Fields {
				walk(f.Type)
			}
		}
	}
	for _, s := range fd.Services {
		for _, m := range s.Methods {
			walk(m.Response)
			for _, f := range m.Args {
				walk(f.Type)
			}
			for _, f := range m.ThrowExceptions {
				walk(f.Type)
			}
		}
	}
	for _, t := range fd.Typedefs {
		walk(t.Type)
	}
	for _, c := range fd.Consts {
		walk(c.Type)
	}
}

// evaluate runs one Doc through the implementation, emits correspondence cases into out and returns
// the oracle failures (implementation only).
func evaluate(d *Doc, out sink, r *vl.Rng) (fails []ofail, err error) {
	root, perr := parser.ParseBatchString(d.Files[0].Path, d.Render(), nil)
	if perr != nil {
		return nil, fmt.Errorf("generated program rejected by the parser: %v", perr)
	}
	byPath := map[string]*parser.Thrift{}
	var walk func(a *parser.Thrift)
	walk = func(a *parser.Thrift) {
		if a == nil || byPath[a.Filename] != nil {
			return
		}
		byPath[a.Filename] = a
		for _, inc := range a.Includes {
			walk(inc.Reference)
		}
	}
	walk(root)
	idxOf := map[string]int{}
	for i, f := range d.Files {
		idxOf[f.Path] = i
	}
	add := func(class, what, exp, obs string) {
		fails = append(fails, ofail{class, what, exp, obs})
	}
	dumps := map[int]string{}
	for i, f := range d.Files {
		a := byPath[f.Path]
		if a == nil {
			continue // not reachable from the main file
		}
		dump, derr := astDump(a)
		if derr != nil {
			return nil, derr
		}
		dumps[i] = dump
		var fd *tr.FileDescriptor
		res := guard(func() string { fd = tr.GetFileDescriptor(a); return "ok " + descDump(fd) })
		out.Case("D "+dump, res, true)
		if fd == nil {
			add("describe-panic", "GetFileDescriptor panics on "+f.Path, "a descriptor", "panic")
			continue
		}
		for _, of := range diffFacts(d.Facts(i), descFacts(fd)) {
			of.what = f.Path + ": " + of.what
			if of.class == "include" || of.class == "includeprefix" {
				if hasCollision(d, i) {
					of.class = "include-basename-collision"
				}
			}
			if of.class == "namespace" {
				of.class = "namespace-language-twice"
			}
			fails = append(fails, of)
		}
		// Marshal / Unmarshal
		var raw []byte
		var bs []byte
		res = guard(func() string {
			var e error
			bs, e = fd.Marshal()
			if e != nil {
				return "err"
			}
			raw, e = gunzip(bs)
			if e != nil {
				return "err"
			}
			c, e := canonBytes(raw)
			if e != nil {
				return "malformed"
			}
			return "ok " + vl.Hex(string(c))
		})
		out.Case("M "+dump, res, true)
		if !strings.HasPrefix(res, "ok ") {
			add("marshal", f.Path+": Marshal of the descriptor", "bytes", res)
			continue
		}
		var fd2 *tr.FileDescriptor
		res = guard(func() string {
			var e error
			fd2, e = tr.Unmarshal(bs)
			if e != nil {
				return "err"
			}
			return "ok " + descDump(fd2)
		})
		out.Case("U "+vl.Hex(string(raw)), res, true)
		if want := "ok " + descDump(fd); res != want {
			add("roundtrip", f.Path+": Unmarshal(Marshal(fd)) differs from fd", clip(want), clip(res))
		}
	}

	// ---- registry and lookups
	out.Case("P", "ok", false)
	for i, f := range d.Files {
		a := byPath[f.Path]
		if a == nil {
			continue
		}
		op := fmt.Sprintf("A %d %d", i, len(a.Includes))
		for _, inc := range a.Includes {
			op += " " + strconv.Itoa(idxOf[inc.Reference.Filename])
		}
		out.Case(op+" "+dumps[i], "ok", false)
	}
	var gd *tr.GlobalDescriptor
	var rfd *tr.FileDescriptor
	res := guard(func() string {
		gd, rfd = tr.RegisterAST(root)
		return fmt.Sprintf("ok %d", len(gd.ShowRegisterInfo()))
	})
	out.Case("G 0", res, true)
	if gd == nil {
		add("register-panic", "RegisterAST panics", "a registry", "panic")
		return fails, nil
	}
	defer tr.ReleaseGlobalDescriptors(gd)
	uuid := rfd.Extra[tr.GLOBAL_UUID_EXTRA_KEY]
	uuidCanon[uuid] = "UUID"
	defer delete(uuidCanon, uuid)

	for _, f := range d.Files {
		if byPath[f.Path] == nil {
			continue
		}
		fd := gd.LookupFD(f.Path)
		res := "nil"
		if fd != nil {
			res = "ok " + descDump(fd)
		}
		out.Case("GD "+vl.Hex(f.Path), res, true)
		if fd == nil {
			add("registry", f.Path+" reachable from the main file is not registered", "registered", "nil")
		}
	}

	lookup := func(kind byte, path, name string) (interface{}, bool) {
		switch kind {
		case 's':
			x := gd.LookupStruct(name, path)
			return x, x == nil
		case 'u':
			x := gd.LookupUnion(name, path)
			return x, x == nil
		case 'x':
			x := gd.LookupException(name, path)
			return x, x == nil
		case 'e':
			x := gd.LookupEnum(name, path)
			return x, x == nil
		case 't':
			x := gd.LookupTypedef(name, path)
			return x, x == nil
		case 'c':
			x := gd.LookupConst(name, path)
			return x, x == nil
		case 'v':
			x := gd.LookupService(name, path)
			return x, x == nil
		}
		panic("kind")
	}
	defAt := func(kind byte, fj, k int) interface{} {
		fd := gd.LookupFD(d.Files[fj].Path)
		if fd == nil {
			return nil
		}
		switch kind {
		case 's':
			return fd.Structs[k]
		case 'u':
			return fd.Unions[k]
		case 'x':
			return fd.Exceptions[k]
		case 'e':
			return fd.Enums[k]
		case 't':
			return fd.Typedefs[k]
		case 'c':
			return fd.Consts[k]
		case 'v':
			return fd.Services[k]
		}
		return nil
	}
	checkDenotes := func(class, what string, fi int, kind byte, name string, got interface{}, gotNil bool) {
		if !wellFormedName(name) {
			return
		}
		fj, k, ok := expectDef(d, fi, kind, name)
		if hasCollision(d, fi) && strings.Contains(name, ".") {
			class = "include-basename-collision"
		}
		if !ok {
			if !gotNil {
				add(class, what, "nil (the IDL defines no such "+string(kind)+")", "a descriptor")
			}
			return
		}
		want := defAt(kind, fj, k)
		if gotNil {
			add(class, what, fmt.Sprintf("the descriptor of %s #%d of %s", string(kind), k, d.Files[fj].Path), "nil")
		} else if got != want {
			add(class, what, fmt.Sprintf("the descriptor of %s #%d of %s", string(kind), k, d.Files[fj].Path), "another descriptor: "+clip(descDump(got)))
		}
	}

	kinds := []byte{'s', 'u', 'x', 'e', 't', 'c', 'v'}
	for fi, f := range d.Files {
		if byPath[f.Path] == nil {
			continue
		}
		// candidate names: every definition of this file and of its includes (qualified), plus misses
		type cand struct {
			kind byte
			name string
		}
		var cands []cand
		namesOf := func(g *DFile) map[byte][]string {
			m := map[byte][]string{}
			for _, s := range g.Structs {
				m[s.Kind] = append(m[s.Kind], s.Name)
			}
			for _, e := range g.Enums {
				m['e'] = append(m['e'], e.Name)
			}
			for _, e := range g.Typedefs {
				m['t'] = append(m['t'], e.Alias)
			}
			for _, e := range g.Consts {
				m['c'] = append(m['c'], e.Name)
			}
			for _, e := range g.Services {
				m['v'] = append(m['v'], e.Name)
			}
			return m
		}
		for k, ns := range namesOf(f) {
			for _, n := range ns {
				cands = append(cands, cand{k, n})
				if r.Chance(15) {
					cands = append(cands, cand{kinds[r.Intn(len(kinds))], n}) // right name, maybe wrong kind
				}
			}
		}
		for _, j := range f.Includes {
			p := prefixOf(d.Files[j].Path)
			for k, ns := range namesOf(d.Files[j]) {
				for _, n := range ns {
					if r.Chance(60) {
						cands = append(cands, cand{k, p + "." + n})
					}
					if r.Chance(10) {
						cands = append(cands, cand{k, n}) // unqualified name of an included definition
					}
				}
			}
			if r.Chance(30) {
				cands = append(cands, cand{kinds[r.Intn(len(kinds))], p + ".Nope"})
			}
		}
		for _, n := range []string{"Nope", "nope.S1", "", ".", "main.", ".S1", "a.b.S1"} {
			if r.Chance(25) {
				cands = append(cands, cand{kinds[r.Intn(len(kinds))], n})
			}
		}
		sort.Slice(cands, func(i, j int) bool {
			if cands[i].kind != cands[j].kind {
				return cands[i].kind < cands[j].kind
			}
			return cands[i].name < cands[j].name
		})
		if len(cands) > 24 {
			for i := len(cands) - 1; i > 0; i-- {
				j := r.Intn(i + 1)
				cands[i], cands[j] = cands[j], cands[i]
			}
			cands = cands[:24]
		}
		for _, c := range cands {
			var got interface{}
			var isNil bool
			res := guard(func() string {
				got, isNil = lookup(c.kind, f.Path, c.name)
				if isNil {
					return "nil"
				}
				return "ok " + descDump(got)
			})
			out.Case(fmt.Sprintf("L %c %s %s", c.kind, vl.Hex(f.Path), vl.Hex(c.name)), res, true)
			out.Count("lookup:" + string(c.kind) + ":" + map[bool]string{true: "nil", false: "found"}[res == "nil"])
			if res == "panic" {
				add("lookup-panic", fmt.Sprintf("Lookup %c %q from %s panics", c.kind, c.name, f.Path), "nil or a descriptor", "panic")
				continue
			}
			checkDenotes("lookup", fmt.Sprintf("Lookup %c %q from %s", c.kind, c.name, f.Path), fi, c.kind, c.name, got, isNil)
		}
		// methods
		for _, s := range f.Services {
			for mi, m := range s.Funcs {
				for _, svc := range []string{s.Name, ""} {
					if svc == "" && !r.Chance(30) {
						continue
					}
					var got *tr.MethodDescriptor
					res := guard(func() string {
						got = gd.LookupMethod(m.Name, svc, f.Path)
						if got == nil {
							return "nil"
						}
						return "ok " + descDump(got)
					})
					out.Case(fmt.Sprintf("LM %s %s %s", vl.Hex(f.Path), vl.Hex(svc), vl.Hex(m.Name)), res, true)
					if svc != "" {
						_, k, _ := expectDef(d, fi, 'v', s.Name)
						fd := gd.LookupFD(f.Path)
						if fd != nil && k < len(fd.Services) && mi < len(fd.Services[k].Methods) && got != fd.Services[k].Methods[mi] {
							add("lookup-method", fmt.Sprintf("LookupMethod %s.%s from %s", s.Name, m.Name, f.Path), "the method's descriptor", clip(res))
						}
					}
				}
			}
			if r.Chance(30) {
				res := guard(func() string {
					got := gd.LookupMethod("nope", s.Name, f.Path)
					if got == nil {
						return "nil"
					}
					return "ok " + descDump(got)
				})
				out.Case(fmt.Sprintf("LM %s %s %s", vl.Hex(f.Path), vl.Hex(s.Name), vl.Hex("nope")), res, true)
			}
			// parent
			var got *tr.ServiceDescriptor
			res := guard(func() string {
				sd := gd.LookupFD(f.Path).GetServiceDescriptor(s.Name)
				got = sd.GetParent()
				if got == nil {
					return "nil"
				}
				return "ok " + descDump(got)
			})
			out.Case(fmt.Sprintf("SP %s %s", vl.Hex(f.Path), vl.Hex(s.Name)), res, true)
			if s.Extends != "" {
				checkDenotes("service-parent", fmt.Sprintf("GetParent of %s in %s (extends %s)", s.Name, f.Path, s.Extends), fi, 'v', s.Extends, got, got == nil)
			} else if got != nil {
				add("service-parent", fmt.Sprintf("GetParent of %s in %s (no extends)", s.Name, f.Path), "nil", clip(res))
			}
		}
		// fields by name / id
		cnt := map[byte]int{}
		for _, s := range f.Structs {
			k := cnt[s.Kind]
			cnt[s.Kind]++
			if !r.Chance(60) {
				continue
			}
			fd := gd.LookupFD(f.Path)
			var sd *tr.StructDescriptor
			switch s.Kind {
			case 's':
				sd = fd.Structs[k]
			case 'u':
				sd = fd.Unions[k]
			default:
				sd = fd.Exceptions[k]
			}
			if first, _, ok := expectDef(d, fi, s.Kind, s.Name); !ok || first != fi {
				continue
			}
			if _, k0, _ := expectDef(d, fi, s.Kind, s.Name); k0 != k {
				continue // a second definition with the same name: by-name ops reach the first
			}
			type q struct {
				op, arg string
				want    int
			}
			var qs []q
			for i, fl := range s.Fields {
				wi := i
				for j := 0; j < i; j++ {
					if s.Fields[j].Name == fl.Name {
						wi = j
					}
				}
				qs = append(qs, q{"FN", vl.Hex(fl.Name), wi}, q{"FI", strconv.Itoa(int(fl.ID)), i})
			}
			qs = append(qs, q{"FN", vl.Hex("nope"), -1}, q{"FI", "9999", -1})
			for _, x := range qs {
				var got *tr.FieldDescriptor
				res := guard(func() string {
					if x.op == "FN" {
						got = sd.GetFieldByName(vl.UnHex(x.arg))
					} else {
						n, _ := strconv.Atoi(x.arg)
						got = sd.GetFieldById(int32(n))
					}
					if got == nil {
						return "nil"
					}
					return "ok " + descDump(got)
				})
				out.Case(fmt.Sprintf("%s %s %c %s %s", x.op, vl.Hex(f.Path), s.Kind, vl.Hex(s.Name), x.arg), res, true)
				if x.want < 0 && got != nil || x.want >= 0 && got != sd.Fields[x.want] {
					add("field-lookup", fmt.Sprintf("%s %s of %s in %s", x.op, x.arg, s.Name, f.Path), fmt.Sprintf("field #%d", x.want), clip(res))
				}
			}
		}
	}
	// type descriptors → definitions
	tds := map[tdKey]*tr.TypeDescriptor{}
	var order []tdKey
	for _, f := range d.Files {
		if fd := gd.LookupFD(f.Path); fd != nil {
			collectTDs(fd, tr.GLOBAL_UUID_EXTRA_KEY, tds, &order)
		}
	}
	if len(order) > 30 {
		for i := len(order) - 1; i > 0; i-- {
			j := r.Intn(i + 1)
			order[i], order[j] = order[j], order[i]
		}
		order = order[:30]
	}
	for _, k := range order {
		td := tds[k]
		fi := idxOf[k.path]
		if isBuiltinName(k.name) && !r.Chance(8) {
			continue
		}
		for _, how := range []byte{'s', 'u', 'x', 'e', 't'} {
			var got interface{}
			var isNil bool
			res := guard(func() string {
				switch how {
				case 's':
					x, _ := td.GetStructDescriptor()
					got, isNil = x, x == nil
				case 'u':
					x, _ := td.GetUnionDescriptor()
					got, isNil = x, x == nil
				case 'x':
					x, _ := td.GetExceptionDescriptor()
					got, isNil = x, x == nil
				case 'e':
					x, _ := td.GetEnumDescriptor()
					got, isNil = x, x == nil
				case 't':
					x, _ := td.GetTypedefDescriptor()
					got, isNil = x, x == nil
				}
				if isNil {
					return "nil"
				}
				return "ok " + descDump(got)
			})
			out.Case(fmt.Sprintf("TD %c %s %s %s", how, vl.Hex(k.path), vl.Hex(k.name), vl.B(k.uuid)), res, true)
			out.Count("typedesc:" + string(how) + ":" + map[bool]string{true: "nil", false: "found"}[res == "nil"])
			if res == "panic" {
				add("lookup-panic", fmt.Sprintf("TypeDescriptor{%s,%s}.Get(%c) panics", k.path, k.name, how), "nil or a descriptor", "panic")
				continue
			}
			if isBuiltinName(k.name) {
				if !isNil {
					add("typedesc", fmt.Sprintf("TypeDescriptor %s of %s resolves to a definition", k.name, k.path), "nil", clip(res))
				}
				continue
			}
			class := "typedesc"
			if !k.uuid {
				class = "const-type-no-registry"
			}
			checkDenotes(class, fmt.Sprintf("TypeDescriptor{%s,%s,registry=%v}.Get(%c)", k.path, k.name, k.uuid, how), fi, how, k.name, got, isNil)
		}
	}
	return fails, nil
}

func isBuiltinName(n string) bool {
	switch n {
	case "list", "set", "map", "void", "bool", "byte", "i8", "i16", "i32", "i64", "double", "string", "binary":
		return true
	}
	return false
}

func clip(s string) string {
	if len(s) > 400 {
		return s[:400] + "…"
	}
	return s
}

// ---------------------------------------------------------------- directed witnesses (the excluded shapes)

func emptyFile(path string, ns string) *DFile {
	f := &DFile{Path: path}
	if ns != "" {
		f.NS = []DNS{{"go", ns}}
	}
	return f
}

type witness struct {
	name  string
	class string
	doc   *Doc
}

func witnesses() []witness {
	w1 := &Doc{Files: []*DFile{
		{Path: "main.thrift", Includes: []int{1, 2}},
		{Path: "d1/base.thrift", Structs: []*DStruct{{Kind: 's', Name: "S"}}},
		{Path: "d2/base.thrift", Structs: []*DStruct{{Kind: 's', Name: "S"}}},
	}}
	w2 := &Doc{Files: []*DFile{{Path: "main.thrift", NS: []DNS{{"go", "a"}, {"go", "b"}}}}}
	w3 := &Doc{Files: []*DFile{{Path: "main.thrift",
		Structs: []*DStruct{{Kind: 's', Name: "S"}},
		Consts:  []*DConstDef{{Name: "c", Type: &DType{Name: "S"}, Value: &DConst{Kind: 'm'}}}}}}
	return []witness{
		{"two includes with equal base name", "include-basename-collision", w1},
		{"one namespace language stated twice", "namespace-language-twice", w2},
		{"type descriptor of a constant after RegisterAST", "const-type-no-registry", w3},
	}
}

// ---------------------------------------------------------------- shrinking

func cloneDoc(d *Doc) *Doc {
	b, _ := json.Marshal(d)
	var c Doc
	if err := json.Unmarshal(b, &c); err != nil {
		panic(err)
	}
	return &c
}

func failsClass(d *Doc, class string) bool {
	defer func() { recover() }()
	fs, err := evaluate(d, nullSink{}, vl.NewRng(7))
	if err != nil {
		return false
	}
	for _, f := range fs {
		if f.class == class {
			return true
		}
	}
	return false
}

// shrink greedily deletes files, definitions, fields, annotations, comments while the class still fails.
func shrink(d *Doc, class string) *Doc {
	cur := cloneDoc(d)
	try := func(mut func(c *Doc) bool) bool {
		c := cloneDoc(cur)
		if !mut(c) {
			return false
		}
		if failsClass(c, class) {
			cur = c
			return true
		}
		return false
	}
	for changed := true; changed; {
		changed = false
		for fi := len(cur.Files) - 1; fi >= 1; fi-- {
			fi := fi
			if try(func(c *Doc) bool {
				c.Files = append(c.Files[:fi], c.Files[fi+1:]...)
				for _, f := range c.Files {
					var inc []int
					for _, j := range f.Includes {
						if j == fi {
							continue
						}
						if j > fi {
							j--
						}
						inc = append(inc, j)
					}
					f.Includes = inc
				}
				return true
			}) {
				changed = true
			}
		}
		for fi := range cur.Files {
			fi := fi
			del := func(n func(f *DFile) int, rm func(f *DFile, i int)) {
				for i := n(cur.Files[fi]) - 1; i >= 0; i-- {
					i := i
					if try(func(c *Doc) bool { c.Files[fi].Order = nil; rm(c.Files[fi], i); return true }) {
						changed = true
					}
				}
			}
			del(func(f *DFile) int { return len(f.Includes) }, func(f *DFile, i int) { f.Includes = append(f.Includes[:i], f.Includes[i+1:]...) })
			del(func(f *DFile) int { return len(f.NS) }, func(f *DFile, i int) { f.NS = append(f.NS[:i], f.NS[i+1:]...) })
			del(func(f *DFile) int { return len(f.Services) }, func(f *DFile, i int) { f.Services = append(f.Services[:i], f.Services[i+1:]...) })
			del(func(f *DFile) int { return len(f.Consts) }, func(f *DFile, i int) { f.Consts = append(f.Consts[:i], f.Consts[i+1:]...) })
			del(func(f *DFile) int { return len(f.Typedefs) }, func(f *DFile, i int) { f.Typedefs = append(f.Typedefs[:i], f.Typedefs[i+1:]...) })
			del(func(f *DFile) int { return len(f.Structs) }, func(f *DFile, i int) { f.Structs = append(f.Structs[:i], f.Structs[i+1:]...) })
			del(func(f *DFile) int { return len(f.Enums) }, func(f *DFile, i int) { f.Enums = append(f.Enums[:i], f.Enums[i+1:]...) })
			for si := range cur.Files[fi].Structs {
				si := si
				for i := len(cur.Files[fi].Structs[si].Fields) - 1; i >= 0; i-- {
					i := i
					if try(func(c *Doc) bool {
						s := c.Files[fi].Structs[si]
						s.Fields = append(s.Fields[:i], s.Fields[i+1:]...)
						return true
					}) {
						changed = true
					}
				}
			}
			for si := range cur.Files[fi].Services {
				si := si
				for i := len(cur.Files[fi].Services[si].Funcs) - 1; i >= 0; i-- {
					i := i
					if try(func(c *Doc) bool {
						s := c.Files[fi].Services[si]
						s.Funcs = append(s.Funcs[:i], s.Funcs[i+1:]...)
						return true
					}) {
						changed = true
					}
				}
			}
		}
		// strip all annotations / comments at once
		if try(func(c *Doc) bool { return stripDoc(c, true, false) }) {
			changed = true
		}
		if try(func(c *Doc) bool { return stripDoc(c, false, true) }) {
			changed = true
		}
	}
	return cur
}

func stripDoc(c *Doc, annos, comments bool) bool {
	did := false
	sa := func(a *[]Anno, cm *[]Comment) {
		if annos && len(*a) > 0 {
			*a = nil
			did = true
		}
		if comments && len(*cm) > 0 {
			*cm = nil
			did = true
		}
	}
	sf := func(fs []*DField) {
		for _, f := range fs {
			sa(&f.Annos, &f.Comments)
		}
	}
	for _, f := range c.Files {
		for _, x := range f.Typedefs {
			sa(&x.Annos, &x.Comments)
		}
		for _, x := range f.Consts {
			sa(&x.Annos, &x.Comments)
		}
		for _, x := range f.Enums {
			sa(&x.Annos, &x.Comments)
			for _, v := range x.Values {
				sa(&v.Annos, &v.Comments)
			}
		}
		for _, x := range f.Structs {
			sa(&x.Annos, &x.Comments)
			sf(x.Fields)
		}
		for _, x := range f.Services {
			sa(&x.Annos, &x.Comments)
			for _, m := range x.Funcs {
				sa(&m.Annos, &m.Comments)
				sf(m.Args)
				sf(m.Throws)
			}
		}
	}
	return did
}

// ---------------------------------------------------------------- run / replay

type replayInput struct {
	Class string `json:"class"`
	Doc   *Doc   `json:"doc"`
	IDL   string `json:"idl"`
}

func report(out *vl.Out, d *Doc, f ofail, key string) {
	out.Fail(vl.OracleFail{Key: key, What: f.class + ": " + f.what, Input: replayInput{Class: f.class, Doc: d, IDL: d.Text()},
		Expected: f.expected, Observed: f.observed})
}

func run(repo, dir string, seed uint64, tier string) error {
	_ = repo
	out := vl.NewOut(dir)
	defer out.Close()
	r := vl.NewRng(seed)
	// 1. the excluded shapes, replayed on the implementation
	failingWitness := map[string]bool{}
	for _, w := range witnesses() {
		fs, err := evaluate(w.doc, out, r)
		if err != nil {
			return err
		}
		hit := false
		for _, f := range fs {
			if f.class == w.class {
				if !hit {
					report(out, w.doc, f, "C15/"+w.class)
				}
				hit = true
			} else {
				report(out, w.doc, f, "C15/witness/"+w.name+"/"+f.class)
			}
		}
		failingWitness[w.class] = hit
		out.Count("witness:" + w.class + ":" + map[bool]string{true: "fails-as-predicted", false: "holds"}[hit])
	}
	// 2. generated programs
	n := 500
	if tier == "thorough" {
		n = 3000
	}
	reported := map[string]bool{}
	for i := 0; i < n; i++ {
		cfg := genCfg{}
		switch {
		case i%10 == 7:
			cfg.collide = true
		case i%10 == 8:
			cfg.dupNS = true
		case i%10 == 9:
			cfg.dupKeys = true
		}
		d := genDoc(r, cfg)
		fs, err := evaluate(d, out, r)
		if err != nil {
			return fmt.Errorf("%v\n%s", err, d.Text())
		}
		docStats(out, d, cfg)
		if i < 3 {
			out.Sample(map[string]interface{}{"idl": d.Text()})
		}
		for _, f := range fs {
			if failingWitness[f.class] {
				out.Count("attributed-to-witness:" + f.class)
				continue
			}
			if reported[f.class] {
				continue
			}
			reported[f.class] = true
			m := shrink(d, f.class)
			mf := f
			if fs2, err := evaluate(m, nullSink{}, vl.NewRng(7)); err == nil {
				for _, g := range fs2 {
					if g.class == f.class {
						mf = g
						break
					}
				}
			}
			report(out, m, mf, "C15/"+f.class+"/"+m.Text())
		}
	}
	return nil
}

func docStats(out *vl.Out, d *Doc, cfg genCfg) {
	out.Count(fmt.Sprintf("files:%d", len(d.Files)))
	if cfg.collide {
		out.Count("cfg:collide")
	}
	if cfg.dupNS {
		out.Count("cfg:dupNS")
	}
	if cfg.dupKeys {
		out.Count("cfg:dupKeys")
	}
	bases := map[string]int{}
	for fi, f := range d.Files {
		bases[prefixOf(f.Path)]++
		if hasCollision(d, fi) {
			out.Count("file-with-colliding-includes")
		}
		for range f.Includes {
			out.Count("includes")
		}
		for range f.NS {
			out.Count("namespaces")
		}
		for range f.Typedefs {
			out.Count("def:typedef")
		}
		for range f.Consts {
			out.Count("def:const")
		}
		for range f.Enums {
			out.Count("def:enum")
		}
		for _, s := range f.Structs {
			out.Count("def:" + map[byte]string{'s': "struct", 'u': "union", 'x': "exception"}[s.Kind])
			for _, fl := range s.Fields {
				out.Count("field:req:" + reqNames[fl.Req])
				if fl.Default != nil {
					out.Count("field:default:" + string(fl.Default.Kind))
				}
				if fl.ID < 0 {
					out.Count("field:negative-id")
				}
				annoStats(out, fl.Annos)
			}
			annoStats(out, s.Annos)
		}
		for _, s := range f.Services {
			out.Count("def:service")
			if s.Extends != "" {
				if strings.Contains(s.Extends, ".") {
					out.Count("service:extends-across-files")
				} else {
					out.Count("service:extends-local")
				}
			}
			for _, m := range s.Funcs {
				out.Count("method")
				if m.Oneway {
					out.Count("method:oneway")
				}
				if m.Ret == nil {
					out.Count("method:void")
				}
			}
		}
		for _, c := range f.Consts {
			out.Count("const:" + string(c.Value.Kind))
		}
		for _, t := range f.Typedefs {
			if strings.Contains(t.Type.Name, ".") {
				out.Count("typedef:across-files")
			}
		}
	}
	for _, n := range bases {
		if n > 1 {
			out.Count("program-with-equal-base-names")
			break
		}
	}
}

func annoStats(out *vl.Out, as []Anno) {
	seen := map[string]bool{}
	for _, a := range as {
		if seen[a.Key] {
			out.Count("annotation:repeated-key")
			return
		}
		seen[a.Key] = true
	}
	if len(as) > 0 {
		out.Count("annotation:distinct-keys")
	}
}

func replay(repo, file string) error {
	_ = repo
	b, err := os.ReadFile(file)
	if err != nil {
		return err
	}
	var doc struct {
		Input replayInput `json:"input"`
	}
	if err := json.Unmarshal(b, &doc); err != nil {
		return err
	}
	var fails []vl.OracleFail
	if doc.Input.Doc != nil {
		fs, err := evaluate(doc.Input.Doc, nullSink{}, vl.NewRng(7))
		if err != nil {
			return err
		}
		for _, f := range fs {
			if doc.Input.Class == "" || f.class == doc.Input.Class {
				fails = append(fails, vl.OracleFail{Key: "replay/" + f.class, What: f.class + ": " + f.what, Input: doc.Input,
					Expected: f.expected, Observed: f.observed})
				break
			}
		}
	}
	if fails == nil {
		fails = []vl.OracleFail{}
	}
	j, _ := json.Marshal(fails)
	fmt.Println(string(j))
	return nil
}

var _ = hex.EncodeToString
