package main

// Correspondence (implementation vs model, op lines) and the implementation-only ORACLE of C15:
// the Doc (what the harness wrote) against the descriptors the real code builds, fact by fact;
// Unmarshal∘Marshal = identity; every lookup returns the very descriptor of the definition the name denotes.

import (
	"bytes"
	"compress/gzip"
	"encoding/hex"
	"encoding/json"
	"fmt"
	"io"
	"os"
	"sort"
	"strconv"
	"strings"

	"github.com/cloudwego/thriftgo/parser"
	tr "github.com/cloudwego/thriftgo/thrift_reflection"

	"verifharness/internal/vl"
)

var idxRe = strings.NewReplacer("0", "", "1", "", "2", "", "3", "", "4", "", "5", "", "6", "", "7", "", "8", "", "9", "")

// factClass strips indexes and the variable tail of keyed facts: "structs[].fields[].anno"
func factClass(k string) string {
	if i := strings.Index(k, ":"); i >= 0 {
		k = k[:i]
	}
	return idxRe.Replace(k)
}

type ofail struct {
	class    string
	what     string
	expected string
	observed string
}

func diffFacts(want, got facts) []ofail {
	var out []ofail
	var keys []string
	for k := range want {
		keys = append(keys, k)
	}
	for k := range got {
		if _, ok := want[k]; !ok {
			keys = append(keys, k)
		}
	}
	sort.Strings(keys)
	for _, k := range keys {
		w, okw := want[k]
		g, okg := got[k]
		if okw && okg && w == g {
			continue
		}
		if !okw {
			w = "<not stated by the IDL>"
		}
		if !okg {
			g = "<absent from the descriptor>"
		}
		out = append(out, ofail{class: factClass(k), what: "fact " + k, expected: w, observed: g})
	}
	return out
}

// ---------------------------------------------------------------- running one program

func gunzip(b []byte) ([]byte, error) {
	r, err := gzip.NewReader(bytes.NewReader(b))
	if err != nil {
		return nil, err
	}
	return io.ReadAll(r)
}

type sink interface {
	Case(op, impl string, nontrivial bool)
	Count(k string)
}

type nullSink struct{}

func (nullSink) Case(string, string, bool) {}
func (nullSink) Count(string)              {}

func guard(f func() string) (s string) {
	defer func() {
		if r := recover(); r != nil {
			s = "panic"
		}
	}()
	return f()
}

func hasDupNS(d *Doc, fi int) bool {
	seen := map[string]bool{}
	for _, ns := range d.Files[fi].NS {
		if seen[ns.Lang] {
			return true
		}
		seen[ns.Lang] = true
	}
	return false
}

func hasCollision(d *Doc, fi int) bool {
	seen := map[string]bool{}
	for _, j := range d.Files[fi].Includes {
		p := prefixOf(d.Files[j].Path)
		if seen[p] {
			return true
		}
		seen[p] = true
	}
	return false
}

// expectDef: the definition a (qualified) name denotes from file fi, per the Doc: (file, index in its
// per-kind list). kind: s u x e t c v.
func expectDef(d *Doc, fi int, kind byte, name string) (int, int, bool) {
	pre, nm := "", name
	if i := strings.LastIndex(name, "."); i >= 0 {
		pre, nm = name[:i], name[i+1:]
	}
	fj := fi
	if pre != "" {
		fj = -1
		for _, j := range d.Files[fi].Includes {
			if prefixOf(d.Files[j].Path) == pre {
				fj = j
				break
			}
		}
		if fj < 0 {
			return 0, 0, false
		}
	}
	f := d.Files[fj]
	switch kind {
	case 's', 'u', 'x':
		k := 0
		for _, s := range f.Structs {
			if s.Kind != kind {
				continue
			}
			if s.Name == nm {
				return fj, k, true
			}
			k++
		}
	case 'e':
		for k, e := range f.Enums {
			if e.Name == nm {
				return fj, k, true
			}
		}
	case 't':
		for k, e := range f.Typedefs {
			if e.Alias == nm {
				return fj, k, true
			}
		}
	case 'c':
		for k, e := range f.Consts {
			if e.Name == nm {
				return fj, k, true
			}
		}
	case 'v':
		for k, e := range f.Services {
			if e.Name == nm {
				return fj, k, true
			}
		}
	}
	return 0, 0, false
}

func wellFormedName(n string) bool {
	if n == "" || strings.HasPrefix(n, ".") || strings.HasSuffix(n, ".") || strings.Contains(n, "..") {
		return false
	}
	return true
}

// evaluate runs one Doc through the implementation, emits correspondence cases into out and returns
// the oracle failures (implementation only).
// histRec: one earlier Marshal call whose result is still held
type histRec struct {
	path, dump string
	fd         *tr.FileDescriptor
	held, copy []byte // the slice as returned / a copy taken at return time
	raw        []byte // gunzip of the copy
	want       string
}

// the held results of the previous program (cross-program histories) and that program
var prevHist []*histRec
var prevDoc *Doc

func evaluate(d *Doc, out sink, r *vl.Rng) (fails []ofail, err error) {
	var hist []*histRec
	root, perr := parser.ParseBatchString(d.Files[0].Path, d.Render(), nil)
	if perr != nil {
		return nil, fmt.Errorf("generated program rejected by the parser: %v", perr)
	}
	byPath := map[string]*parser.Thrift{}
	var walk func(a *parser.Thrift)
	walk = func(a *parser.Thrift) {
		if a == nil || byPath[a.Filename] != nil {
			return
		}
		byPath[a.Filename] = a
		for _, inc := range a.Includes {
			walk(inc.Reference)
		}
	}
	walk(root)
	idxOf := map[string]int{}
	for i, f := range d.Files {
		idxOf[f.Path] = i
	}
	add := func(class, what, exp, obs string) {
		fails = append(fails, ofail{class, what, exp, obs})
	}
	dumps := map[int]string{}
	for i, f := range d.Files {
		a := byPath[f.Path]
		if a == nil {
			continue // not reachable from the main file
		}
		dump, derr := astDump(a)
		if derr != nil {
			return nil, derr
		}
		dumps[i] = dump
		var fd *tr.FileDescriptor
		res := guard(func() string { fd = tr.GetFileDescriptor(a); return "ok " + descDump(fd) })
		out.Case("D "+dump, res, true)
		if fd == nil {
			add("describe-panic", "GetFileDescriptor panics on "+f.Path, "a descriptor", "panic")
			continue
		}
		for _, of := range diffFacts(d.Facts(i), descFacts(fd)) {
			of.what = f.Path + ": " + of.what
			if of.class == "include" || of.class == "includeprefix" {
				if hasCollision(d, i) {
					of.class = "include-basename-collision"
				}
			}
			if of.class == "namespace" && hasDupNS(d, i) {
				of.class = "namespace-language-twice"
			}
			fails = append(fails, of)
		}
		// Marshal / Unmarshal
		var raw []byte
		var bs []byte
		res = guard(func() string {
			var e error
			bs, e = fd.Marshal()
			if e != nil {
				return "err"
			}
			raw, e = gunzip(bs)
			if e != nil {
				return "err"
			}
			c, e := canonBytes(raw)
			if e != nil {
				return "malformed"
			}
			return "ok " + vl.Hex(string(c))
		})
		out.Case("M "+dump, res, true)
		if !strings.HasPrefix(res, "ok ") {
			add("marshal", f.Path+": Marshal of the descriptor", "bytes", res)
			continue
		}
		var fd2 *tr.FileDescriptor
		res = guard(func() string {
			var e error
			fd2, e = tr.Unmarshal(bs)
			if e != nil {
				return "err"
			}
			return "ok " + descDump(fd2)
		})
		out.Case("U "+vl.Hex(string(raw)), res, true)
		if want := "ok " + descDump(fd); res != want {
			add("roundtrip", f.Path+": Unmarshal(Marshal(fd)) differs from fd", clip(want), clip(res))
		}
		hist = append(hist, &histRec{path: f.Path, dump: dump, fd: fd, held: bs, copy: append([]byte{}, bs...), raw: raw, want: "ok " + descDump(fd)})
	}

	// ---- call histories: Marshal is a function of its argument, whatever was marshalled before or after.
	// All descriptors of the program are marshalled by now (and the ones of the previous program before them);
	// every slice handed out earlier must still hold, and decode to, its own descriptor.
	checkHeld := func(h *histRec, when string) {
		if !bytes.Equal(h.held, h.copy) {
			add("marshal-history", h.path+": the slice returned by Marshal was changed by "+when, "the bytes as returned", "different bytes")
		}
		res := guard(func() string {
			raw, e := gunzip(h.held)
			if e != nil {
				return "err"
			}
			c, e := canonBytes(raw)
			if e != nil {
				return "malformed"
			}
			return "ok " + vl.Hex(string(c))
		})
		out.Case("HM "+h.dump, res, true)
		res = guard(func() string {
			x, e := tr.Unmarshal(h.held)
			if e != nil {
				return "err"
			}
			return "ok " + descDump(x)
		})
		out.Case("HU "+vl.Hex(string(h.raw)), res, true)
		if res != h.want {
			add("marshal-history", h.path+": Unmarshal of the bytes Marshal returned, after "+when, clip(h.want), clip(res))
		}
	}
	for _, h := range hist {
		checkHeld(h, "later Marshal calls of the same program")
	}
	for _, h := range prevHist {
		before := len(fails)
		checkHeld(h, "the Marshal calls of the next program")
		for i := before; i < len(fails); i++ {
			fails[i].class = "marshal-history-across-programs"
		}
	}
	// interleaving: marshal A, marshal B, decode A, marshal A again: same (canonical) bytes as the first time
	if len(hist) > 0 {
		a, b := hist[0], hist[len(hist)-1]
		res := guard(func() string {
			a1, e := a.fd.Marshal()
			if e != nil {
				return "err"
			}
			c1 := append([]byte{}, a1...)
			if _, e := b.fd.Marshal(); e != nil {
				return "err"
			}
			x, e := tr.Unmarshal(a1)
			if e != nil {
				return "decode-a:err"
			}
			if got := "ok " + descDump(x); got != a.want {
				return "decode-a:" + clip(got)
			}
			a2, e := a.fd.Marshal()
			if e != nil {
				return "err"
			}
			if !bytes.Equal(a1, c1) {
				return "first-slice-changed"
			}
			r1, e1 := gunzip(c1)
			r2, e2 := gunzip(a2)
			if e1 != nil || e2 != nil {
				return "err"
			}
			k1, _ := canonBytes(r1)
			k2, _ := canonBytes(r2)
			if !bytes.Equal(k1, k2) {
				return "second-marshal-differs"
			}
			return "ok " + vl.Hex(string(k2))
		})
		out.Case("HM "+a.dump, res, true)
		if !strings.HasPrefix(res, "ok ") {
			add("marshal-history", a.path+": marshal A, marshal "+b.path+", decode A, marshal A again", "A both times", clip(res))
		}
	}
	if len(hist) > 3 {
		hist = hist[len(hist)-3:]
	}
	prevHist, prevDoc = hist, d

	// ---- the parser's Annotations.Append on the source-level annotation lists of the Doc
	for _, as := range docAnnoLists(d) {
		op := fmt.Sprintf("AA %d", len(as))
		var pa parser.Annotations
		for _, a := range as {
			op += " " + vl.Hex(a.Key) + " " + vl.Hex(a.Val)
			pa.Append(a.Key, a.Val)
		}
		res := fmt.Sprintf("ok %d", len(pa))
		for _, a := range pa {
			res += fmt.Sprintf(" %s %d", vl.Hex(a.Key), len(a.Values))
			for _, v := range a.Values {
				res += " " + vl.Hex(v)
			}
		}
		out.Case(op, res, true)
	}

	// ---- registry and lookups
	out.Case("P", "ok", false)
	for i, f := range d.Files {
		a := byPath[f.Path]
		if a == nil {
			continue
		}
		op := fmt.Sprintf("A %d %d", i, len(a.Includes))
		for _, inc := range a.Includes {
			op += " " + strconv.Itoa(idxOf[inc.Reference.Filename])
		}
		out.Case(op+" "+dumps[i], "ok", false)
	}
	var gd *tr.GlobalDescriptor
	var rfd *tr.FileDescriptor
	res := guard(func() string {
		gd, rfd = tr.RegisterAST(root)
		return fmt.Sprintf("ok %d", len(gd.ShowRegisterInfo()))
	})
	out.Case("G 0", res, true)
	if gd == nil {
		add("register-panic", "RegisterAST panics", "a registry", "panic")
		return fails, nil
	}
	defer tr.ReleaseGlobalDescriptors(gd)
	uuid := rfd.Extra[tr.GLOBAL_UUID_EXTRA_KEY]
	uuidCanon[uuid] = "UUID"
	defer delete(uuidCanon, uuid)
	reach := func(i int) bool { return byPath[d.Files[i].Path] != nil }
	ex := func(op string) (string, string) { return execOp(gd, strings.Fields(op)) }
	var tdks []tdKey
	tds := map[tdKey]*tr.TypeDescriptor{}
	for _, f := range d.Files {
		if fd := gd.LookupFD(f.Path); fd != nil {
			collectTDs(fd, tr.GLOBAL_UUID_EXTRA_KEY, tds, &tdks)
		}
	}
	fails = append(fails, evalLookups(d, reach, ex, tdks, true, out, r)...)
	return fails, nil
}

// evalLookups emits the registry dumps and lookup ops of one registered program through `ex` (which runs
// an op against the registry holding the program: in-process, or in the compiled driver) and checks, from the
// Doc alone, that each answer is the very descriptor of the definition the name denotes.
// stamped: descriptors of this registry carry the registry uuid (RegisterAST mode).
func evalLookups(d *Doc, reach func(int) bool, ex func(op string) (string, string), tdks []tdKey, stamped bool, out sink, r *vl.Rng) (fails []ofail) {
	add := func(class, what, exp, obs string) {
		fails = append(fails, ofail{class, what, exp, obs})
	}
	idxOf := map[string]int{}
	for i, f := range d.Files {
		idxOf[f.Path] = i
	}
	for i, f := range d.Files {
		if !reach(i) {
			continue
		}
		op := "GD " + vl.Hex(f.Path)
		res, _ := ex(op)
		out.Case(op, res, true)
		if res == "nil" {
			add("registry", f.Path+" reachable from the main file is not registered", "registered", "nil")
		}
	}
	checkDenotes := func(class, what string, fi int, kind byte, name string, res, ident string) {
		if !wellFormedName(name) {
			return
		}
		if res == "panic" {
			add("lookup-panic", what+" panics", "nil or a descriptor", "panic")
			return
		}
		fj, k, ok := expectDef(d, fi, kind, name)
		if hasCollision(d, fi) && strings.Contains(name, ".") {
			class = "include-basename-collision"
		}
		if !ok {
			if res != "nil" {
				add(class, what, "nil (the IDL defines no such "+string(kind)+")", "a descriptor: "+ident)
			}
			return
		}
		want := fmt.Sprintf("%s|%c|%d", d.Files[fj].Path, kind, k)
		if ident != want {
			if res == "nil" {
				ident = "nil"
			}
			add(class, what, "the descriptor "+want, ident)
		}
	}
	kinds := []byte{'s', 'u', 'x', 'e', 't', 'c', 'v'}
	for fi, f := range d.Files {
		if !reach(fi) {
			continue
		}
		type cand struct {
			kind byte
			name string
		}
		var cands []cand
		namesOf := func(g *DFile) [][2]string {
			var m [][2]string
			for _, s := range g.Structs {
				m = append(m, [2]string{string(s.Kind), s.Name})
			}
			for _, e := range g.Enums {
				m = append(m, [2]string{"e", e.Name})
			}
			for _, e := range g.Typedefs {
				m = append(m, [2]string{"t", e.Alias})
			}
			for _, e := range g.Consts {
				m = append(m, [2]string{"c", e.Name})
			}
			for _, e := range g.Services {
				m = append(m, [2]string{"v", e.Name})
			}
			return m
		}
		for _, kn := range namesOf(f) {
			cands = append(cands, cand{kn[0][0], kn[1]})
			if r.Chance(15) {
				cands = append(cands, cand{kinds[r.Intn(len(kinds))], kn[1]}) // right name, maybe wrong kind
			}
		}
		for _, j := range f.Includes {
			p := prefixOf(d.Files[j].Path)
			for _, kn := range namesOf(d.Files[j]) {
				if r.Chance(60) {
					cands = append(cands, cand{kn[0][0], p + "." + kn[1]})
				}
				if r.Chance(10) {
					cands = append(cands, cand{kn[0][0], kn[1]}) // unqualified name of an included definition
				}
			}
			if r.Chance(30) {
				cands = append(cands, cand{kinds[r.Intn(len(kinds))], p + ".Nope"})
			}
		}
		for _, n := range []string{"Nope", "nope.S1", "", ".", "main.", ".S1", "a.b.S1"} {
			if r.Chance(25) {
				cands = append(cands, cand{kinds[r.Intn(len(kinds))], n})
			}
		}
		if len(cands) > 24 {
			for i := len(cands) - 1; i > 0; i-- {
				j := r.Intn(i + 1)
				cands[i], cands[j] = cands[j], cands[i]
			}
			cands = cands[:24]
		}
		for _, c := range cands {
			op := fmt.Sprintf("L %c %s %s", c.kind, vl.Hex(f.Path), vl.Hex(c.name))
			res, ident := ex(op)
			out.Case(op, res, true)
			out.Count("lookup:" + string(c.kind) + ":" + map[bool]string{true: "nil", false: "found"}[res == "nil"])
			checkDenotes("lookup", fmt.Sprintf("Lookup %c %q from %s", c.kind, c.name, f.Path), fi, c.kind, c.name, res, ident)
		}
		// methods, parents
		for si, s := range f.Services {
			if _, k0, _ := expectDef(d, fi, 'v', s.Name); k0 != si {
				continue
			}
			for mi, m := range s.Funcs {
				first := true
				for j := 0; j < mi; j++ {
					if s.Funcs[j].Name == m.Name {
						first = false
					}
				}
				for _, svc := range []string{s.Name, ""} {
					if svc == "" && !r.Chance(30) {
						continue
					}
					op := fmt.Sprintf("LM %s %s %s", vl.Hex(f.Path), vl.Hex(svc), vl.Hex(m.Name))
					res, ident := ex(op)
					out.Case(op, res, true)
					if svc != "" && first {
						if want := fmt.Sprintf("%s|m|%d.%d", f.Path, si, mi); ident != want {
							add("lookup-method", fmt.Sprintf("LookupMethod %s.%s from %s", s.Name, m.Name, f.Path), want, res[:min(len(res), 3)]+" "+ident)
						}
					}
				}
			}
			if r.Chance(30) {
				op := fmt.Sprintf("LM %s %s %s", vl.Hex(f.Path), vl.Hex(s.Name), vl.Hex("nope"))
				res, _ := ex(op)
				out.Case(op, res, true)
				if res != "nil" {
					add("lookup-method", fmt.Sprintf("LookupMethod %s.nope from %s", s.Name, f.Path), "nil", clip(res))
				}
			}
			op := fmt.Sprintf("SP %s %s", vl.Hex(f.Path), vl.Hex(s.Name))
			res, ident := ex(op)
			out.Case(op, res, true)
			if s.Extends != "" {
				checkDenotes("service-parent", fmt.Sprintf("GetParent of %s in %s (extends %s)", s.Name, f.Path, s.Extends), fi, 'v', s.Extends, res, ident)
			} else if res != "nil" {
				add("service-parent", fmt.Sprintf("GetParent of %s in %s (no extends)", s.Name, f.Path), "nil", clip(res))
			}
		}
		// fields by name / id
		cnt := map[byte]int{}
		for _, s := range f.Structs {
			k := cnt[s.Kind]
			cnt[s.Kind]++
			if !r.Chance(60) {
				continue
			}
			if fj, k0, ok := expectDef(d, fi, s.Kind, s.Name); !ok || fj != fi || k0 != k {
				continue // a second definition with the same name: by-name ops reach the first
			}
			type q struct {
				op, arg string
				want    int
			}
			var qs []q
			for i, fl := range s.Fields {
				wn, wi := i, i
				for j := i - 1; j >= 0; j-- {
					if s.Fields[j].Name == fl.Name {
						wn = j
					}
					if s.Fields[j].ID == fl.ID {
						wi = j
					}
				}
				qs = append(qs, q{"FN", vl.Hex(fl.Name), wn}, q{"FI", strconv.Itoa(int(fl.ID)), wi})
			}
			qs = append(qs, q{"FN", vl.Hex("nope"), -1}, q{"FI", "9999", -1})
			for _, x := range qs {
				op := fmt.Sprintf("%s %s %c %s %s", x.op, vl.Hex(f.Path), s.Kind, vl.Hex(s.Name), x.arg)
				res, ident := ex(op)
				out.Case(op, res, true)
				want := ""
				if x.want >= 0 {
					want = fmt.Sprintf("%s|f|%c%d.%d", f.Path, s.Kind, k, x.want)
				}
				if ident != want || res == "panic" {
					add("field-lookup", fmt.Sprintf("%s %s of %s in %s", x.op, x.arg, s.Name, f.Path), "field "+want, res[:min(len(res), 5)]+" "+ident)
				}
			}
		}
	}
	// type descriptors → definitions
	order := append([]tdKey{}, tdks...)
	if len(order) > 30 {
		for i := len(order) - 1; i > 0; i-- {
			j := r.Intn(i + 1)
			order[i], order[j] = order[j], order[i]
		}
		order = order[:30]
	}
	for _, k := range order {
		fi := idxOf[k.path]
		if isBuiltinName(k.name) && !r.Chance(8) {
			continue
		}
		for _, how := range []byte{'s', 'u', 'x', 'e', 't'} {
			op := fmt.Sprintf("TD %c %s %s %s", how, vl.Hex(k.path), vl.Hex(k.name), vl.B(k.uuid))
			res, ident := ex(op)
			out.Case(op, res, true)
			out.Count("typedesc:" + string(how) + ":" + map[bool]string{true: "nil", false: "found"}[res == "nil"])
			what := fmt.Sprintf("TypeDescriptor{%s,%s,registry=%v}.Get(%c)", k.path, k.name, k.uuid, how)
			if isBuiltinName(k.name) {
				if res != "nil" {
					add("typedesc", what, "nil", clip(res))
				}
				continue
			}
			class := "typedesc"
			if stamped && !k.uuid && k.konst {
				class = "const-type-no-registry"
			}
			checkDenotes(class, what, fi, how, k.name, res, ident)
		}
	}
	return fails
}

func min(a, b int) int {
	if a < b {
		return a
	}
	return b
}

func isBuiltinName(n string) bool {
	switch n {
	case "list", "set", "map", "void", "bool", "byte", "i8", "i16", "i32", "i64", "double", "string", "binary":
		return true
	}
	return false
}

// docAnnoLists: the non-empty annotation lists of struct-likes and their fields (a sample of all lists)
func docAnnoLists(d *Doc) [][]Anno {
	var out [][]Anno
	for _, f := range d.Files {
		for _, s := range f.Structs {
			if len(s.Annos) > 0 {
				out = append(out, s.Annos)
			}
			for _, fl := range s.Fields {
				if len(fl.Annos) > 1 {
					out = append(out, fl.Annos)
				}
			}
		}
	}
	if len(out) > 6 {
		out = out[:6]
	}
	return out
}

func clip(s string) string {
	if len(s) > 400 {
		return s[:400] + "…"
	}
	return s
}

// ---------------------------------------------------------------- directed witnesses: the excluded shape (include
// base-name collision, a known finding) and two regression items (repaired defects that must now hold)

func emptyFile(path string, ns string) *DFile {
	f := &DFile{Path: path}
	if ns != "" {
		f.NS = []DNS{{"go", ns}}
	}
	return f
}

type witness struct {
	name  string
	class string
	doc   *Doc
}

func witnesses() []witness {
	w1 := &Doc{Files: []*DFile{
		{Path: "main.thrift", Includes: []int{1, 2}},
		{Path: "d1/base.thrift", Structs: []*DStruct{{Kind: 's', Name: "S"}}},
		{Path: "d2/base.thrift", Structs: []*DStruct{{Kind: 's', Name: "S"}}},
	}}
	w2 := &Doc{Files: []*DFile{{Path: "main.thrift", NS: []DNS{{"go", "a"}, {"go", "b"}}}}}
	w3 := &Doc{Files: []*DFile{{Path: "main.thrift",
		Structs: []*DStruct{{Kind: 's', Name: "S"}},
		Consts:  []*DConstDef{{Name: "c", Type: &DType{Name: "S"}, Value: &DConst{Kind: 'm'}}}}}}
	// an included file whose base name has inner dots: the alias is the base name minus ".thrift" only
	w4 := &Doc{Files: []*DFile{
		{Path: "main.thrift", Includes: []int{1},
			Structs:  []*DStruct{{Kind: 's', Name: "M", Fields: []*DField{{Name: "f", ID: 1, Type: &DType{Name: "base.v2.S"}}, {Name: "e", ID: 2, Type: &DType{Name: "base.v2.E"}}}}},
			Services: []*DService{{Name: "Svc", Extends: "base.v2.Base"}}},
		{Path: "sub/base.v2.thrift", Structs: []*DStruct{{Kind: 's', Name: "S"}}, Enums: []*DEnum{{Name: "E"}}, Services: []*DService{{Name: "Base"}}},
	}}
	return []witness{
		{"include of a file with inner dots in its base name", "dotted-include-alias", w4},
		{"two includes with equal base name", "include-basename-collision", w1},
		{"one namespace language stated twice", "namespace-language-twice", w2},
		{"type descriptor of a constant after RegisterAST", "const-type-no-registry", w3},
	}
}

// ---------------------------------------------------------------- shrinking

func cloneDoc(d *Doc) *Doc {
	b, _ := json.Marshal(d)
	var c Doc
	if err := json.Unmarshal(b, &c); err != nil {
		panic(err)
	}
	return &c
}

func failsClass(d *Doc, class string) bool {
	defer func() { recover() }()
	prevHist, prevDoc = nil, nil
	fs, err := evaluate(d, nullSink{}, vl.NewRng(7))
	if err != nil {
		return false
	}
	for _, f := range fs {
		if f.class == class {
			return true
		}
	}
	return false
}

// shrink greedily deletes files, definitions, fields, annotations, comments while the class still fails.
func shrink(d *Doc, class string) *Doc {
	cur := cloneDoc(d)
	try := func(mut func(c *Doc) bool) bool {
		c := cloneDoc(cur)
		if !mut(c) {
			return false
		}
		if failsClass(c, class) {
			cur = c
			return true
		}
		return false
	}
	for changed := true; changed; {
		changed = false
		for fi := len(cur.Files) - 1; fi >= 1; fi-- {
			fi := fi
			if try(func(c *Doc) bool {
				c.Files = append(c.Files[:fi], c.Files[fi+1:]...)
				for _, f := range c.Files {
					var inc []int
					for _, j := range f.Includes {
						if j == fi {
							continue
						}
						if j > fi {
							j--
						}
						inc = append(inc, j)
					}
					f.Includes = inc
					f.IncPaths = nil
				}
				return true
			}) {
				changed = true
			}
		}
		for fi := range cur.Files {
			fi := fi
			del := func(n func(f *DFile) int, rm func(f *DFile, i int)) {
				for i := n(cur.Files[fi]) - 1; i >= 0; i-- {
					i := i
					if try(func(c *Doc) bool { c.Files[fi].Order = nil; rm(c.Files[fi], i); return true }) {
						changed = true
					}
				}
			}
			del(func(f *DFile) int { return len(f.Includes) }, func(f *DFile, i int) {
				f.Includes = append(f.Includes[:i], f.Includes[i+1:]...)
				f.IncPaths = nil
			})
			del(func(f *DFile) int { return len(f.NS) }, func(f *DFile, i int) { f.NS = append(f.NS[:i], f.NS[i+1:]...) })
			del(func(f *DFile) int { return len(f.Services) }, func(f *DFile, i int) { f.Services = append(f.Services[:i], f.Services[i+1:]...) })
			del(func(f *DFile) int { return len(f.Consts) }, func(f *DFile, i int) { f.Consts = append(f.Consts[:i], f.Consts[i+1:]...) })
			del(func(f *DFile) int { return len(f.Typedefs) }, func(f *DFile, i int) { f.Typedefs = append(f.Typedefs[:i], f.Typedefs[i+1:]...) })
			del(func(f *DFile) int { return len(f.Structs) }, func(f *DFile, i int) { f.Structs = append(f.Structs[:i], f.Structs[i+1:]...) })
			del(func(f *DFile) int { return len(f.Enums) }, func(f *DFile, i int) { f.Enums = append(f.Enums[:i], f.Enums[i+1:]...) })
			for si := range cur.Files[fi].Structs {
				si := si
				for i := len(cur.Files[fi].Structs[si].Fields) - 1; i >= 0; i-- {
					i := i
					if try(func(c *Doc) bool {
						s := c.Files[fi].Structs[si]
						s.Fields = append(s.Fields[:i], s.Fields[i+1:]...)
						return true
					}) {
						changed = true
					}
				}
			}
			for si := range cur.Files[fi].Services {
				si := si
				for i := len(cur.Files[fi].Services[si].Funcs) - 1; i >= 0; i-- {
					i := i
					if try(func(c *Doc) bool {
						s := c.Files[fi].Services[si]
						s.Funcs = append(s.Funcs[:i], s.Funcs[i+1:]...)
						return true
					}) {
						changed = true
					}
				}
			}
		}
		// strip all annotations / comments at once
		if try(func(c *Doc) bool { return stripDoc(c, true, false) }) {
			changed = true
		}
		if try(func(c *Doc) bool { return stripDoc(c, false, true) }) {
			changed = true
		}
	}
	return cur
}

func stripDoc(c *Doc, annos, comments bool) bool {
	did := false
	sa := func(a *[]Anno, cm *[]Comment) {
		if annos && len(*a) > 0 {
			*a = nil
			did = true
		}
		if comments && len(*cm) > 0 {
			*cm = nil
			did = true
		}
	}
	sf := func(fs []*DField) {
		for _, f := range fs {
			sa(&f.Annos, &f.Comments)
		}
	}
	for _, f := range c.Files {
		for _, x := range f.Typedefs {
			sa(&x.Annos, &x.Comments)
		}
		for _, x := range f.Consts {
			sa(&x.Annos, &x.Comments)
		}
		for _, x := range f.Enums {
			sa(&x.Annos, &x.Comments)
			for _, v := range x.Values {
				sa(&v.Annos, &v.Comments)
			}
		}
		for _, x := range f.Structs {
			sa(&x.Annos, &x.Comments)
			sf(x.Fields)
		}
		for _, x := range f.Services {
			sa(&x.Annos, &x.Comments)
			for _, m := range x.Funcs {
				sa(&m.Annos, &m.Comments)
				sf(m.Args)
				sf(m.Throws)
			}
		}
	}
	return did
}

// ---------------------------------------------------------------- run / replay

type replayInput struct {
	Class string `json:"class"`
	Doc   *Doc   `json:"doc"`
	Prev  *Doc   `json:"prev,omitempty"` // cross-program histories: the program run before Doc
	IDL   string `json:"idl"`
}

func report(out *vl.Out, d *Doc, f ofail, key string) {
	out.Fail(vl.OracleFail{Key: key, What: f.class + ": " + f.what, Input: replayInput{Class: f.class, Doc: d, IDL: d.Text()},
		Expected: f.expected, Observed: f.observed})
}

func run(repo, dir string, seed uint64, tier string) error {
	_ = repo
	out := vl.NewOut(dir)
	defer out.Close()
	r := vl.NewRng(seed)
	// 1. the excluded shape and the regression items, replayed on the implementation
	failingWitness := map[string]bool{}
	for _, w := range witnesses() {
		pd := prevDoc
		fs, err := evaluate(w.doc, out, r)
		if err != nil {
			return err
		}
		hit := false
		for _, f := range fs {
			if f.class == w.class {
				if !hit {
					report(out, w.doc, f, "C15/"+w.class)
				}
				hit = true
			} else {
				if f.class == "marshal-history-across-programs" && pd != nil {
					out.Fail(vl.OracleFail{Key: "C15/witness/" + w.name + "/" + f.class, What: f.class + ": " + f.what,
						Input:    replayInput{Class: f.class, Doc: w.doc, Prev: pd, IDL: pd.Text() + "=== then ===\n" + w.doc.Text()},
						Expected: f.expected, Observed: f.observed})
					continue
				}
				report(out, w.doc, f, "C15/witness/"+w.name+"/"+f.class)
			}
		}
		failingWitness[w.class] = hit
		out.Count("witness:" + w.class + ":" + map[bool]string{true: "fails-as-predicted", false: "holds"}[hit])
	}
	// 2. generated programs
	n := 500
	if tier == "thorough" {
		n = 2000
	}
	reported := map[string]bool{}
	for i := 0; i < n; i++ {
		cfg := genCfg{}
		switch {
		case i%10 == 7:
			cfg.collide = true
		case i%10 == 8:
			cfg.dupNS = true
		case i%10 == 9:
			cfg.dupKeys = true
		}
		d := genDoc(r, cfg)
		pd := prevDoc
		fs, err := evaluate(d, out, r)
		if err != nil {
			return fmt.Errorf("%v\n%s", err, d.Text())
		}
		docStats(out, d, cfg)
		if i < 3 {
			out.Sample(map[string]interface{}{"idl": d.Text()})
		}
		for _, f := range fs {
			if failingWitness[f.class] {
				out.Count("attributed-to-witness:" + f.class)
				continue
			}
			if reported[f.class] {
				continue
			}
			reported[f.class] = true
			if f.class == "marshal-history-across-programs" && pd != nil {
				out.Fail(vl.OracleFail{Key: "C15/" + f.class + "/" + pd.Text() + "=== then ===\n" + d.Text(), What: f.class + ": " + f.what,
					Input:    replayInput{Class: f.class, Doc: d, Prev: pd, IDL: pd.Text() + "=== then ===\n" + d.Text()},
					Expected: f.expected, Observed: f.observed})
				continue
			}
			m := shrink(d, f.class)
			mf := f
			if fs2, err := evaluate(m, nullSink{}, vl.NewRng(7)); err == nil {
				for _, g := range fs2 {
					if g.class == f.class {
						mf = g
						break
					}
				}
			}
			report(out, m, mf, "C15/"+f.class+"/"+m.Text())
		}
	}
	return nil
}

func docStats(out *vl.Out, d *Doc, cfg genCfg) {
	out.Count(fmt.Sprintf("files:%d", len(d.Files)))
	if cfg.collide {
		out.Count("cfg:collide")
	}
	if cfg.dupNS {
		out.Count("cfg:dupNS")
	}
	if cfg.dupKeys {
		out.Count("cfg:dupKeys")
	}
	bases := map[string]int{}
	for fi, f := range d.Files {
		bases[prefixOf(f.Path)]++
		if hasCollision(d, fi) {
			out.Count("file-with-colliding-includes")
		}
		for k := range f.Includes {
			out.Count("includes")
			if k < len(f.IncPaths) && f.IncPaths[k] != "" {
				out.Count("include:written-relative-to-includer")
			}
			if strings.Contains(prefixOf(d.Files[f.Includes[k]].Path), ".") {
				out.Count("include:base-name-with-inner-dots")
			}
		}
		for range f.NS {
			out.Count("namespaces")
		}
		for range f.Typedefs {
			out.Count("def:typedef")
		}
		for range f.Consts {
			out.Count("def:const")
		}
		for range f.Enums {
			out.Count("def:enum")
		}
		for _, s := range f.Structs {
			out.Count("def:" + map[byte]string{'s': "struct", 'u': "union", 'x': "exception"}[s.Kind])
			for _, fl := range s.Fields {
				out.Count("field:req:" + reqNames[fl.Req])
				if fl.Default != nil {
					out.Count("field:default:" + string(fl.Default.Kind))
				}
				if fl.ID < 0 {
					out.Count("field:negative-id")
				}
				annoStats(out, fl.Annos)
			}
			annoStats(out, s.Annos)
		}
		for _, s := range f.Services {
			out.Count("def:service")
			if s.Extends != "" {
				if strings.Contains(s.Extends, ".") {
					out.Count("service:extends-across-files")
				} else {
					out.Count("service:extends-local")
				}
			}
			for _, m := range s.Funcs {
				out.Count("method")
				if m.Oneway {
					out.Count("method:oneway")
				}
				if m.Ret == nil {
					out.Count("method:void")
				}
			}
		}
		for _, c := range f.Consts {
			out.Count("const:" + string(c.Value.Kind))
		}
		for _, t := range f.Typedefs {
			if strings.Contains(t.Type.Name, ".") {
				out.Count("typedef:across-files")
			}
		}
	}
	for _, n := range bases {
		if n > 1 {
			out.Count("program-with-equal-base-names")
			break
		}
	}
}

func annoStats(out *vl.Out, as []Anno) {
	seen := map[string]bool{}
	for _, a := range as {
		if seen[a.Key] {
			out.Count("annotation:repeated-key")
			return
		}
		seen[a.Key] = true
	}
	if len(as) > 0 {
		out.Count("annotation:distinct-keys")
	}
}

func replay(repo, file string) error {
	_ = repo
	b, err := os.ReadFile(file)
	if err != nil {
		return err
	}
	var doc struct {
		Input replayInput `json:"input"`
	}
	if err := json.Unmarshal(b, &doc); err != nil {
		return err
	}
	var fails []vl.OracleFail
	if doc.Input.Doc != nil {
		prevHist, prevDoc = nil, nil
		if doc.Input.Prev != nil {
			if _, err := evaluate(doc.Input.Prev, nullSink{}, vl.NewRng(7)); err != nil {
				return err
			}
		}
		fs, err := evaluate(doc.Input.Doc, nullSink{}, vl.NewRng(7))
		if err != nil {
			return err
		}
		for _, f := range fs {
			if doc.Input.Class == "" || f.class == doc.Input.Class {
				fails = append(fails, vl.OracleFail{Key: "replay/" + f.class, What: f.class + ": " + f.what, Input: doc.Input,
					Expected: f.expected, Observed: f.observed})
				break
			}
		}
	}
	if fails == nil {
		fails = []vl.OracleFail{}
	}
	j, _ := json.Marshal(fails)
	fmt.Println(string(j))
	return nil
}

var _ = hex.EncodeToString
