package main

// Translator of C15: regenerates lean/ThriftVerif/Generated/C15Schema.lean from the working tree.
//   - <repo>/thrift_reflection/descriptor.thrift parsed by the real parser → a `Gen.Prog` (struct indexes =
//     declaration order), the ConstValueType numbering, struct and field names;
//   - cross-checks that tie the schema to what meta.Marshal really walks: the StructMeta bytes embedded in
//     <repo>/thrift_reflection/descriptor.go (`meta.RegisterStruct(NewX, []byte{…})`, read by go/ast, decoded by
//     meta.Unmarshal) and the Go struct types (field order and `thrift:"name,id,req"` tags, by reflect) must
//     say the same as descriptor.thrift — meta.Marshal pairs meta field i with Go struct field i.

import (
	"fmt"
	"go/ast"
	goparser "go/parser"
	"go/token"
	"path/filepath"
	"reflect"
	"strconv"
	"strings"

	"github.com/cloudwego/thriftgo/generator/golang/extension/meta"
	"github.com/cloudwego/thriftgo/parser"
	tr "github.com/cloudwego/thriftgo/thrift_reflection"

	"verifharness/internal/vl"
)

var goDescTypes = map[string]reflect.Type{
	"TypeDescriptor":       reflect.TypeOf(tr.TypeDescriptor{}),
	"ConstDescriptor":      reflect.TypeOf(tr.ConstDescriptor{}),
	"ConstValueDescriptor": reflect.TypeOf(tr.ConstValueDescriptor{}),
	"TypedefDescriptor":    reflect.TypeOf(tr.TypedefDescriptor{}),
	"EnumDescriptor":       reflect.TypeOf(tr.EnumDescriptor{}),
	"EnumValueDescriptor":  reflect.TypeOf(tr.EnumValueDescriptor{}),
	"FieldDescriptor":      reflect.TypeOf(tr.FieldDescriptor{}),
	"StructDescriptor":     reflect.TypeOf(tr.StructDescriptor{}),
	"MethodDescriptor":     reflect.TypeOf(tr.MethodDescriptor{}),
	"ServiceDescriptor":    reflect.TypeOf(tr.ServiceDescriptor{}),
	"FileDescriptor":       reflect.TypeOf(tr.FileDescriptor{}),
}

type schemaInfo struct {
	ast     *parser.Thrift
	sidx    map[string]int
	enums   map[string]bool
	leanTys [][]string // per struct per field: Lean Ty term
}

// leanTy renders a parser.Type as a Gen.Ty term and returns the wire type-id tree (as meta would hold it).
func (s *schemaInfo) leanTy(t *parser.Type) (string, string, error) {
	switch t.Name {
	case "bool":
		return ".bool", "2", nil
	case "byte", "i8":
		return ".i8", "3", nil
	case "i16":
		return ".i16", "6", nil
	case "i32":
		return ".i32", "8", nil
	case "i64":
		return ".i64", "10", nil
	case "double":
		return ".dbl", "4", nil
	case "string":
		return ".str", "11", nil
	case "binary":
		return ".bin", "11", nil
	case "list", "set":
		e, w, err := s.leanTy(t.ValueType)
		if err != nil {
			return "", "", err
		}
		if t.Name == "list" {
			return "(.list " + e + ")", "15<" + w + ">", nil
		}
		return "(.set " + e + ")", "14<" + w + ">", nil
	case "map":
		k, wk, err := s.leanTy(t.KeyType)
		if err != nil {
			return "", "", err
		}
		v, wv, err := s.leanTy(t.ValueType)
		if err != nil {
			return "", "", err
		}
		return "(.map " + k + " " + v + ")", "13<" + wk + "," + wv + ">", nil
	}
	if i, ok := s.sidx[t.Name]; ok {
		return fmt.Sprintf("(.struct %d)", i), "12", nil
	}
	if s.enums[t.Name] {
		return ".enum", "8", nil
	}
	return "", "", fmt.Errorf("descriptor.thrift: unsupported type %q", t.Name)
}

func metaTree(t *meta.TypeMeta) string {
	if t == nil {
		return "nil"
	}
	s := strconv.Itoa(int(t.TypeID))
	switch t.TypeID {
	case meta.TTypeID_LIST, meta.TTypeID_SET:
		return s + "<" + metaTree(t.ValueType) + ">"
	case meta.TTypeID_MAP:
		return s + "<" + metaTree(t.KeyType) + "," + metaTree(t.ValueType) + ">"
	}
	return s
}

func leanDefault(c *parser.ConstValue) (string, error) {
	if c == nil {
		return "none", nil
	}
	switch c.Type {
	case parser.ConstType_ConstLiteral:
		return "(some (.bytes " + vl.LeanBytes(c.TypedValue.GetLiteral()) + "))", nil
	case parser.ConstType_ConstInt:
		return fmt.Sprintf("(some (.int %d))", c.TypedValue.GetInt()), nil
	}
	return "", fmt.Errorf("descriptor.thrift: unsupported default of kind %v", c.Type)
}

// registeredMeta reads the StructMeta literals embedded in descriptor.go.
func registeredMeta(path string) (map[string]*meta.StructMeta, error) {
	fset := token.NewFileSet()
	f, err := goparser.ParseFile(fset, path, nil, 0)
	if err != nil {
		return nil, err
	}
	out := map[string]*meta.StructMeta{}
	var ierr error
	ast.Inspect(f, func(n ast.Node) bool {
		call, ok := n.(*ast.CallExpr)
		if !ok {
			return true
		}
		sel, ok := call.Fun.(*ast.SelectorExpr)
		if !ok || sel.Sel.Name != "RegisterStruct" || len(call.Args) != 2 {
			return true
		}
		ctor, ok := call.Args[0].(*ast.Ident)
		if !ok {
			return true
		}
		lit, ok := call.Args[1].(*ast.CompositeLit)
		if !ok {
			return true
		}
		bs := make([]byte, 0, len(lit.Elts))
		for _, e := range lit.Elts {
			bl, ok := e.(*ast.BasicLit)
			if !ok {
				ierr = fmt.Errorf("descriptor.go: non-literal byte in RegisterStruct(%s)", ctor.Name)
				return false
			}
			v, err := strconv.ParseUint(bl.Value, 0, 8)
			if err != nil {
				ierr = err
				return false
			}
			bs = append(bs, byte(v))
		}
		sm := meta.NewStructMeta()
		if err := meta.Unmarshal(bs, sm); err != nil {
			ierr = fmt.Errorf("descriptor.go: RegisterStruct(%s): %v", ctor.Name, err)
			return false
		}
		out[strings.TrimPrefix(ctor.Name, "New")] = sm
		return true
	})
	return out, ierr
}

func reqName(r parser.FieldType) string {
	switch r {
	case parser.FieldType_Required:
		return "required"
	case parser.FieldType_Optional:
		return "optional"
	}
	return "default"
}

func extract(repo string) error {
	idl := filepath.Join(repo, "thrift_reflection", "descriptor.thrift")
	a, err := parser.ParseFile(idl, nil, true)
	if err != nil {
		return fmt.Errorf("parse %s: %v", idl, err)
	}
	if len(a.Unions) != 0 || len(a.Exceptions) != 0 || len(a.Typedefs) != 0 {
		return fmt.Errorf("descriptor.thrift: unions/exceptions/typedefs are outside the modelled codec")
	}
	s := &schemaInfo{ast: a, sidx: map[string]int{}, enums: map[string]bool{}}
	for i, st := range a.Structs {
		s.sidx[st.Name] = i
	}
	for _, e := range a.Enums {
		s.enums[e.Name] = true
	}
	regd, err := registeredMeta(filepath.Join(repo, "thrift_reflection", "descriptor.go"))
	if err != nil {
		return err
	}
	var sb strings.Builder
	sb.WriteString("import ThriftVerif.Gen.Schema\n")
	sb.WriteString("/- GENERATED by harness/cmd/c15 extract from thrift_reflection/descriptor.thrift (real parser),\n")
	sb.WriteString("   cross-checked against the StructMeta bytes registered in descriptor.go and the Go struct tags. -/\n")
	sb.WriteString("namespace Generated.C15Schema\nopen Gen\n\n")
	sb.WriteString("def prog : Prog := { structs := [\n")
	var names, fnames []string
	for i, st := range a.Structs {
		sm := regd[st.Name]
		if sm == nil {
			return fmt.Errorf("tie: struct %s of descriptor.thrift has no meta.RegisterStruct in descriptor.go", st.Name)
		}
		gt, ok := goDescTypes[st.Name]
		if !ok {
			return fmt.Errorf("tie: struct %s of descriptor.thrift is unknown to the harness (new descriptor kind?)", st.Name)
		}
		if len(sm.Fields) != len(st.Fields) || gt.NumField() != len(st.Fields) {
			return fmt.Errorf("tie: %s: %d IDL fields, %d registered meta fields, %d Go fields", st.Name, len(st.Fields), len(sm.Fields), gt.NumField())
		}
		if sm.Category != "struct" || sm.Name != st.Name {
			return fmt.Errorf("tie: %s: registered meta is %s %q", st.Name, sm.Category, sm.Name)
		}
		var fs, fn []string
		for j, f := range st.Fields {
			ty, wire, err := s.leanTy(f.Type)
			if err != nil {
				return err
			}
			d, err := leanDefault(f.Default)
			if err != nil {
				return err
			}
			mf := sm.Fields[j]
			wantReq := map[string]meta.TRequiredness{"required": meta.TRequiredness_REQUIRED, "optional": meta.TRequiredness_OPTIONAL, "default": meta.TRequiredness_DEFAULT}[reqName(f.Requiredness)]
			if int32(mf.FieldID) != f.ID || mf.Name != f.Name || mf.Requiredness != wantReq || metaTree(mf.FieldType) != wire {
				return fmt.Errorf("tie: %s field #%d: IDL (%d %s %s %s) vs registered meta (%d %s %v %s)", st.Name, j, f.ID, f.Name,
					reqName(f.Requiredness), wire, mf.FieldID, mf.Name, mf.Requiredness, metaTree(mf.FieldType))
			}
			tag := gt.Field(j).Tag.Get("thrift")
			wantTag := fmt.Sprintf("%s,%d,%s", f.Name, f.ID, reqName(f.Requiredness))
			if reqName(f.Requiredness) == "default" {
				wantTag = fmt.Sprintf("%s,%d", f.Name, f.ID)
			}
			if tag != wantTag {
				return fmt.Errorf("tie: %s Go field #%d %s has tag %q, IDL says %q", st.Name, j, gt.Field(j).Name, tag, wantTag)
			}
			fs = append(fs, fmt.Sprintf("{ id := %d, req := .%s, ty := %s, dflt := %s }", f.ID, reqName(f.Requiredness), ty, d))
			fn = append(fn, vl.LeanBytes(f.Name))
		}
		sep := ","
		if i == len(a.Structs)-1 {
			sep = ""
		}
		fmt.Fprintf(&sb, "  { kind := 0, fields := [%s] }%s   -- %d %s\n", strings.Join(fs, ",\n      "), sep, i, st.Name)
		names = append(names, vl.LeanBytes(st.Name))
		fnames = append(fnames, "["+strings.Join(fn, ", ")+"]")
	}
	sb.WriteString("  ] }\n\n")
	fmt.Fprintf(&sb, "def structNames : List (List Nat) := [%s]\n\n", strings.Join(names, ",\n  "))
	fmt.Fprintf(&sb, "def fieldNames : List (List (List Nat)) := [%s]\n\n", strings.Join(fnames, ",\n  "))
	var evs []string
	for _, e := range a.Enums {
		if e.Name != "ConstValueType" {
			continue
		}
		for _, v := range e.Values {
			evs = append(evs, fmt.Sprintf("(%s, %d)", vl.LeanBytes(v.Name), v.Value))
		}
	}
	fmt.Fprintf(&sb, "def constValueType : List (List Nat × Nat) := [%s]\n\n", strings.Join(evs, ", "))
	// the Go-side numbering of the same enum, by running the linked package
	var gvs []string
	for i := 0; i < 16; i++ {
		n := tr.ConstValueType(i).String()
		if strings.HasPrefix(n, "<") {
			break
		}
		gvs = append(gvs, fmt.Sprintf("(%s, %d)", vl.LeanBytes(n), i))
	}
	fmt.Fprintf(&sb, "def constValueTypeGo : List (List Nat × Nat) := [%s]\n\n", strings.Join(gvs, ", "))
	// the requiredness strings the descriptors carry (FieldType.String())
	fmt.Fprintf(&sb, "def reqStrings : List (List Nat) := [%s, %s, %s]\n\n", vl.LeanBytes(parser.FieldType_Default.String()),
		vl.LeanBytes(parser.FieldType_Required.String()), vl.LeanBytes(parser.FieldType_Optional.String()))
	fmt.Fprintf(&sb, "def uuidKey : List Nat := %s\n\n", vl.LeanBytes(tr.GLOBAL_UUID_EXTRA_KEY))
	sb.WriteString("end Generated.C15Schema\n")
	fmt.Print(sb.String())
	return nil
}
