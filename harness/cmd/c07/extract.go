package main

// Translator of C07: the inventory of map-iteration sites on the generation path.
//
// `go list -deps -json` (run inside the repository under test) gives, in dependency order, every
// package reachable from the roots (the thriftgo command, sdk, tool/trimmer) with its directory and
// the files selected by the default build constraints. All of them are type-checked from source
// with go/types (function bodies only for the packages of the repository's own module) and every
//   - `range` statement over an expression whose underlying type is a map,
//   - call of reflect.Value.MapRange / MapKeys,
//   - call of (*sync.Map).Range
// in a non-test file of the module is listed as (package, function, ordinal, kind, key type).
// The ordinal counts the sites of one top-level function (or of one package-level variable
// initialiser) in source order, so edits elsewhere do not move a site.

import (
	"bytes"
	"encoding/json"
	"fmt"
	"go/ast"
	"go/constant"
	"go/parser"
	"go/token"
	"go/types"
	"io"
	"os"
	"os/exec"
	"path/filepath"
	"sort"
	"strings"
)

type listPkg struct {
	ImportPath string
	Dir        string
	GoFiles    []string
	ImportMap  map[string]string
	Standard   bool
	Module     *struct {
		Path string
		Main bool
	}
}

type Site struct {
	Pkg  string // import path relative to the module ("." for the root package)
	Fn   string // "Name", "(*T).Name", "(T).Name", "var:Name"
	Ord  int
	Kind string // range | MapRange | MapKeys | sync.Map.Range
	Key  string // key type (package-qualified by package name), "?" for reflection
	File string // informational (comment only)
	Line int    // informational (comment only)
	Expr string // informational (comment only)
}

var roots = []string{".", "./sdk", "./tool/trimmer"}

type mapImporter struct {
	pkgs map[string]*types.Package
	imap map[string]string
}

func (m *mapImporter) Import(path string) (*types.Package, error) {
	if path == "unsafe" {
		return types.Unsafe, nil
	}
	if r, ok := m.imap[path]; ok {
		path = r
	}
	if p, ok := m.pkgs[path]; ok {
		return p, nil
	}
	return nil, fmt.Errorf("package %q not loaded", path)
}

func goEnv() []string {
	env := os.Environ()
	return append(env, "GOFLAGS=-mod=mod", "GOPROXY=off", "GOSUMDB=off", "GOTOOLCHAIN=local", "CGO_ENABLED=0")
}

// Probes: expressions the sort-then-emit sites order by, read from the source (element written `e`).
type Probes struct {
	ThrowsDedupKey string      // index expression of `fm[...] = e` in ServiceThrows
	ThrowsLess     [3]string   // left operand, operator, right operand of the sort.Slice comparator in ServiceThrows
	TypeNameString string      // what (TypeName).String returns
	FieldsLess     [3]string   // comparator of fastgo getSortedFields
	RenderLoops    [][3]string // (package, function, what the loop that renders one IDL per iteration ranges over)
}

var probes Probes

func inventory(repo string) ([]Site, []string, [][2]string, error) {
	cmd := exec.Command("go", append([]string{"list", "-deps", "-json=ImportPath,Dir,GoFiles,ImportMap,Standard,Module"}, roots...)...)
	cmd.Dir = repo
	cmd.Env = goEnv()
	var stderr bytes.Buffer
	cmd.Stderr = &stderr
	out, err := cmd.Output()
	if err != nil {
		return nil, nil, nil, fmt.Errorf("go list: %v: %s", err, stderr.String())
	}
	dec := json.NewDecoder(bytes.NewReader(out))
	fset := token.NewFileSet()
	loaded := map[string]*types.Package{}
	var sites []Site
	var pkgsOfModule []string
	var std [][2]string
	stdFound := false
	for {
		var lp listPkg
		if err := dec.Decode(&lp); err == io.EOF {
			break
		} else if err != nil {
			return nil, nil, nil, err
		}
		if lp.ImportPath == "unsafe" {
			continue
		}
		own := lp.Module != nil && lp.Module.Main
		var files []*ast.File
		for _, f := range lp.GoFiles {
			af, err := parser.ParseFile(fset, filepath.Join(lp.Dir, f), nil, parser.SkipObjectResolution)
			if err != nil {
				return nil, nil, nil, err
			}
			files = append(files, af)
		}
		info := &types.Info{}
		if own {
			info.Types = map[ast.Expr]types.TypeAndValue{}
			info.Selections = map[*ast.SelectorExpr]*types.Selection{}
			info.Uses = map[*ast.Ident]types.Object{}
		}
		var terrs []string
		conf := types.Config{
			Importer:         &mapImporter{loaded, lp.ImportMap},
			IgnoreFuncBodies: !own,
			FakeImportC:      true,
			Sizes:            types.SizesFor("gc", "amd64"),
			Error: func(err error) {
				if own {
					terrs = append(terrs, err.Error())
				}
			},
		}
		tp, _ := conf.Check(lp.ImportPath, fset, files, info)
		if own && len(terrs) > 0 {
			return nil, nil, nil, fmt.Errorf("type errors in %s: %s", lp.ImportPath, strings.Join(terrs, "; "))
		}
		loaded[lp.ImportPath] = tp
		if !own {
			continue
		}
		rel := strings.TrimPrefix(strings.TrimPrefix(lp.ImportPath, lp.Module.Path), "/")
		if rel == "" {
			rel = "."
		}
		pkgsOfModule = append(pkgsOfModule, rel)
		for _, af := range files {
			probeRenderLoops(af, info, rel)
			sites = append(sites, sitesOfFile(fset, af, info, tp, rel)...)
			if rel == "generator/golang" {
				if t, ok := stdTable(af, info); ok {
					std, stdFound = t, true
				}
				probeGolang(af)
			}
			if rel == "generator/fastgo" {
				probeFastgo(af)
			}
		}
	}
	if !stdFound {
		return nil, nil, nil, fmt.Errorf("generator/golang: (*importManager).init no longer builds its table from a map literal `std` with constant entries")
	}
	sort.Slice(sites, func(i, j int) bool {
		a, b := sites[i], sites[j]
		if a.Pkg != b.Pkg {
			return a.Pkg < b.Pkg
		}
		if a.Fn != b.Fn {
			return a.Fn < b.Fn
		}
		return a.Ord < b.Ord
	})
	sort.Strings(pkgsOfModule)
	return sites, pkgsOfModule, std, nil
}

// probeRenderLoops: in the two backends, the loop whose body renders one IDL (calls renderOneFile /
// GenerateOne) — what kind of thing does it range over? The output names are given first come first
// served by FileManager.Feed, so that order must be a sequence (today: the DepthFirstSearch channel).
func probeRenderLoops(af *ast.File, info *types.Info, rel string) {
	want := map[string]string{"generator/golang": "renderOneFile", "generator/fastgo": "GenerateOne"}[rel]
	if want == "" {
		return
	}
	for _, d := range af.Decls {
		fd, ok := d.(*ast.FuncDecl)
		if !ok || fd.Body == nil {
			continue
		}
		ast.Inspect(fd.Body, func(n ast.Node) bool {
			rs, ok := n.(*ast.RangeStmt)
			if !ok {
				return true
			}
			calls := false
			ast.Inspect(rs.Body, func(m ast.Node) bool {
				if c, ok := m.(*ast.CallExpr); ok {
					if sel, ok := c.Fun.(*ast.SelectorExpr); ok && sel.Sel.Name == want {
						calls = true
					}
				}
				return true
			})
			if calls {
				kind := "?"
				if tv, ok := info.Types[rs.X]; ok && tv.Type != nil {
					switch tv.Type.Underlying().(type) {
					case *types.Chan:
						kind = "chan"
					case *types.Map:
						kind = "map"
					case *types.Slice, *types.Array:
						kind = "slice"
					}
				}
				probes.RenderLoops = append(probes.RenderLoops, [3]string{rel, recvName(fd), kind})
			}
			return true
		})
	}
}

// lessOf reads `sort.Slice(xs, func(i, j int) bool { return L op R })` and renames xs[i], xs[j] to e.
func lessOf(call *ast.CallExpr) [3]string {
	bad := [3]string{"?", "?", "?"}
	if len(call.Args) != 2 {
		return bad
	}
	fl, ok := call.Args[1].(*ast.FuncLit)
	if !ok || len(fl.Body.List) != 1 || fl.Type.Params == nil {
		return bad
	}
	ret, ok := fl.Body.List[0].(*ast.ReturnStmt)
	if !ok || len(ret.Results) != 1 {
		return bad
	}
	be, ok := ret.Results[0].(*ast.BinaryExpr)
	if !ok {
		return [3]string{types.ExprString(ret.Results[0]), "?", "?"}
	}
	var ps []string
	for _, f := range fl.Type.Params.List {
		for _, n := range f.Names {
			ps = append(ps, n.Name)
		}
	}
	xs := types.ExprString(call.Args[0])
	ren := func(e ast.Expr, p string) string {
		return strings.ReplaceAll(types.ExprString(e), xs+"["+p+"]", "e")
	}
	if len(ps) != 2 {
		return bad
	}
	return [3]string{ren(be.X, ps[0]), be.Op.String(), ren(be.Y, ps[1])}
}

func isSortSlice(call *ast.CallExpr) bool {
	sel, ok := call.Fun.(*ast.SelectorExpr)
	if !ok {
		return false
	}
	id, ok := sel.X.(*ast.Ident)
	return ok && id.Name == "sort" && (sel.Sel.Name == "Slice" || sel.Sel.Name == "SliceStable")
}

func probeGolang(af *ast.File) {
	for _, d := range af.Decls {
		fd, ok := d.(*ast.FuncDecl)
		if !ok || fd.Body == nil {
			continue
		}
		switch recvName(fd) {
		case "(TypeName).String":
			if len(fd.Body.List) == 1 {
				if r, ok := fd.Body.List[0].(*ast.ReturnStmt); ok && len(r.Results) == 1 {
					probes.TypeNameString = types.ExprString(r.Results[0])
				}
			}
		case "(*CodeUtils).BuildFuncMap":
			ast.Inspect(fd.Body, func(n ast.Node) bool {
				kv, ok := n.(*ast.KeyValueExpr)
				if !ok {
					return true
				}
				k, ok := kv.Key.(*ast.BasicLit)
				if !ok || k.Value != `"ServiceThrows"` {
					return true
				}
				probes.ThrowsDedupKey, probes.ThrowsLess = "?", [3]string{"?", "?", "?"}
				ast.Inspect(kv.Value, func(m ast.Node) bool {
					switch x := m.(type) {
					case *ast.AssignStmt:
						if len(x.Lhs) == 1 && len(x.Rhs) == 1 {
							if ix, ok := x.Lhs[0].(*ast.IndexExpr); ok {
								if id, ok := ix.X.(*ast.Ident); ok && id.Name == "fm" {
									probes.ThrowsDedupKey = strings.ReplaceAll(types.ExprString(ix.Index), types.ExprString(x.Rhs[0]), "e")
								}
							}
						}
					case *ast.CallExpr:
						if isSortSlice(x) {
							probes.ThrowsLess = lessOf(x)
						}
					}
					return true
				})
				return false
			})
		}
	}
}

func probeFastgo(af *ast.File) {
	for _, d := range af.Decls {
		fd, ok := d.(*ast.FuncDecl)
		if !ok || fd.Body == nil || recvName(fd) != "getSortedFields" {
			continue
		}
		probes.FieldsLess = [3]string{"?", "?", "?"}
		ast.Inspect(fd.Body, func(n ast.Node) bool {
			if c, ok := n.(*ast.CallExpr); ok && isSortSlice(c) {
				probes.FieldsLess = lessOf(c)
			}
			return true
		})
	}
}

// stdTable reads the composite literal assigned to `std` in (*importManager).init.
func stdTable(af *ast.File, info *types.Info) ([][2]string, bool) {
	for _, d := range af.Decls {
		fd, ok := d.(*ast.FuncDecl)
		if !ok || fd.Body == nil || recvName(fd) != "(*importManager).init" {
			continue
		}
		var out [][2]string
		found, bad := false, false
		ast.Inspect(fd.Body, func(n ast.Node) bool {
			as, ok := n.(*ast.AssignStmt)
			if !ok || len(as.Lhs) != 1 || len(as.Rhs) != 1 {
				return true
			}
			id, ok := as.Lhs[0].(*ast.Ident)
			if !ok || id.Name != "std" {
				return true
			}
			cl, ok := as.Rhs[0].(*ast.CompositeLit)
			if !ok {
				return true
			}
			found = true
			for _, e := range cl.Elts {
				kv, ok := e.(*ast.KeyValueExpr)
				if !ok {
					bad = true
					continue
				}
				k, v := info.Types[kv.Key], info.Types[kv.Value]
				if k.Value == nil || v.Value == nil || k.Value.Kind() != constant.String || v.Value.Kind() != constant.String {
					bad = true
					continue
				}
				out = append(out, [2]string{constant.StringVal(k.Value), constant.StringVal(v.Value)})
			}
			return false
		})
		return out, found && !bad
	}
	return nil, false
}

func recvName(fd *ast.FuncDecl) string {
	if fd.Recv == nil || len(fd.Recv.List) == 0 {
		return fd.Name.Name
	}
	t := fd.Recv.List[0].Type
	star := ""
	if s, ok := t.(*ast.StarExpr); ok {
		star = "*"
		t = s.X
	}
	switch x := t.(type) {
	case *ast.IndexExpr:
		t = x.X
	case *ast.IndexListExpr:
		t = x.X
	}
	n := "?"
	if id, ok := t.(*ast.Ident); ok {
		n = id.Name
	}
	return "(" + star + n + ")." + fd.Name.Name
}

func sitesOfFile(fset *token.FileSet, af *ast.File, info *types.Info, self *types.Package, rel string) []Site {
	var out []Site
	qual := func(p *types.Package) string {
		if p == self {
			return ""
		}
		return p.Name()
	}
	scan := func(fn string, root ast.Node) {
		ord := 0
		add := func(kind, key string, n ast.Node, x ast.Expr) {
			pos := fset.Position(n.Pos())
			var eb bytes.Buffer
			if x != nil {
				eb.WriteString(types.ExprString(x))
			}
			out = append(out, Site{rel, fn, ord, kind, key, filepath.Base(pos.Filename), pos.Line, eb.String()})
			ord++
		}
		ast.Inspect(root, func(n ast.Node) bool {
			switch x := n.(type) {
			case *ast.RangeStmt:
				if tv, ok := info.Types[x.X]; ok && tv.Type != nil {
					t := tv.Type
					if p, ok := t.Underlying().(*types.Pointer); ok { // range over *array only; keep for safety
						t = p.Elem()
					}
					if m, ok := t.Underlying().(*types.Map); ok {
						add("range", types.TypeString(m.Key(), qual), x, x.X)
					}
				}
			case *ast.CallExpr:
				sel, ok := x.Fun.(*ast.SelectorExpr)
				if !ok {
					return true
				}
				s := info.Selections[sel]
				if s == nil || s.Kind() != types.MethodVal {
					return true
				}
				f, ok := s.Obj().(*types.Func)
				if !ok || f.Pkg() == nil {
					return true
				}
				switch {
				case f.Pkg().Path() == "reflect" && (f.Name() == "MapRange" || f.Name() == "MapKeys"):
					add(f.Name(), "?", x, sel.X)
				case f.Pkg().Path() == "sync" && f.Name() == "Range":
					add("sync.Map.Range", "?", x, sel.X)
				}
			}
			return true
		})
	}
	for _, d := range af.Decls {
		switch x := d.(type) {
		case *ast.FuncDecl:
			if x.Body != nil {
				scan(recvName(x), x.Body)
			}
		case *ast.GenDecl:
			if x.Tok != token.VAR {
				continue
			}
			for _, sp := range x.Specs {
				vs := sp.(*ast.ValueSpec)
				for i, v := range vs.Values {
					name := "_"
					if i < len(vs.Names) {
						name = vs.Names[i].Name
					} else if len(vs.Names) > 0 {
						name = vs.Names[0].Name
					}
					scan("var:"+name, v)
				}
			}
		}
	}
	return out
}

func leanStr(s string) string {
	var sb strings.Builder
	sb.WriteByte('"')
	for _, r := range s {
		switch {
		case r == '"' || r == '\\':
			sb.WriteByte('\\')
			sb.WriteRune(r)
		case r < 0x20 || r > 0x7e:
			fmt.Fprintf(&sb, "\\u{%x}", r)
		default:
			sb.WriteRune(r)
		}
	}
	sb.WriteByte('"')
	return sb.String()
}

func renderLean(sites []Site, pkgs []string, std [][2]string) string {
	var sb strings.Builder
	sb.WriteString("/- GENERATED by harness/cmd/c07 extract from the repository under test — do not edit.\n")
	sb.WriteString("   Inventory of map-iteration sites (go/types) in the packages reachable from the thriftgo\n")
	sb.WriteString("   command, sdk and tool/trimmer; and the table of standard imports of importManager.init. -/\n")
	sb.WriteString("namespace Generated.C07\n\n")
	sb.WriteString("structure Site where\n  pkg : String\n  fn : String\n  ord : Nat\n  kind : String\n  key : String\nderiving DecidableEq, Repr\n\n")
	sb.WriteString("def packages : List String := [")
	for i, p := range pkgs {
		if i > 0 {
			sb.WriteString(", ")
		}
		sb.WriteString(leanStr(p))
	}
	sb.WriteString("]\n\n")
	sb.WriteString("def sites : List Site := [\n")
	for i, s := range sites {
		c := ","
		if i == len(sites)-1 {
			c = ""
		}
		fmt.Fprintf(&sb, "  ⟨%s, %s, %d, %s, %s⟩%s -- %s:%d %s\n", leanStr(s.Pkg), leanStr(s.Fn), s.Ord, leanStr(s.Kind), leanStr(s.Key), c,
			s.File, s.Line, strings.ReplaceAll(s.Expr, "\n", " "))
	}
	sb.WriteString("]\n\n")
	sb.WriteString("/-- `std` of (*importManager).init: (package name, import path), in source order. -/\n")
	sb.WriteString("def stdImports : List (String × String) := [\n")
	for i, kv := range std {
		c := ","
		if i == len(std)-1 {
			c = ""
		}
		fmt.Fprintf(&sb, "  (%s, %s)%s\n", leanStr(kv[0]), leanStr(kv[1]), c)
	}
	sb.WriteString("]\n\n")
	sb.WriteString("/-- ServiceThrows (BuildFuncMap): the key its map `fm` deduplicates the exceptions by, and the two operands\n")
	sb.WriteString("and the operator of the comparator its `sort.Slice` uses, with the element written `e`. -/\n")
	fmt.Fprintf(&sb, "def serviceThrowsDedupKey : String := %s\n", leanStr(probes.ThrowsDedupKey))
	fmt.Fprintf(&sb, "def serviceThrowsLess : String × String × String := (%s, %s, %s)\n", leanStr(probes.ThrowsLess[0]), leanStr(probes.ThrowsLess[1]), leanStr(probes.ThrowsLess[2]))
	sb.WriteString("/-- what `(TypeName).String` returns -/\n")
	fmt.Fprintf(&sb, "def typeNameString : String := %s\n", leanStr(probes.TypeNameString))
	sb.WriteString("/-- fastgo getSortedFields: the comparator of its `sort.Slice` -/\n")
	fmt.Fprintf(&sb, "def sortedFieldsLess : String × String × String := (%s, %s, %s)\n", leanStr(probes.FieldsLess[0]), leanStr(probes.FieldsLess[1]), leanStr(probes.FieldsLess[2]))
	sb.WriteString("/-- the loops that render one IDL per iteration (they call renderOneFile / GenerateOne): what they range over -/\n")
	sb.WriteString("def renderLoops : List (String × String × String) := [")
	sort.Slice(probes.RenderLoops, func(i, j int) bool {
		return probes.RenderLoops[i][0]+probes.RenderLoops[i][1] < probes.RenderLoops[j][0]+probes.RenderLoops[j][1]
	})
	for i, l := range probes.RenderLoops {
		if i > 0 {
			sb.WriteString(", ")
		}
		fmt.Fprintf(&sb, "(%s, %s, %s)", leanStr(l[0]), leanStr(l[1]), leanStr(l[2]))
	}
	sb.WriteString("]\n")
	sb.WriteString("\nend Generated.C07\n")
	return sb.String()
}
