package main

import (
	"encoding/json"
	"fmt"
	"os"
	"path/filepath"
	"sort"
	"strings"
	"time"

	"verifharness/internal/vl"
)

type ReplayInput struct {
	IDL     map[string]string `json:"idl"`
	Main    string            `json:"main"`
	OptSet  OptSet            `json:"optset"`
	Cmdline string            `json:"cmdline"`
	Runs    int               `json:"runs"`
	Stale   bool              `json:"into_used_directory"` // the difference shows when the output directory holds a previous run's files
}

func progOf(in ReplayInput) Prog {
	var p Prog
	names := []string{in.Main}
	for n := range in.IDL {
		if n != in.Main {
			names = append(names, n)
		}
	}
	sort.Strings(names[1:])
	for _, n := range names {
		p.Files = append(p.Files, IDLFile{n, strings.Split(strings.TrimSuffix(in.IDL[n], "\n"), "\n")})
	}
	return p
}

func mkFail(p Prog, o OptSet, d *Diff, runs int) vl.OracleFail {
	what := map[string]string{
		"descriptor-bytes": "the embedded file descriptor (…_rawDesc) differs between runs of one command line",
		"import-order":     "the import block differs between runs of one command line",
		"map-order":        "the request bytes sent to a plugin differ between runs of one command line (same decoded request)",
	}[d.Attr]
	if what == "" {
		what = "output differs between runs of one command line (" + d.Kind + ")"
	}
	return vl.OracleFail{
		Key:  failKey(o, d),
		What: what,
		Input: ReplayInput{IDL: p.Text(), Main: p.Files[0].Name, OptSet: o,
			Cmdline: strings.ReplaceAll(o.Symbolic(), "<main>.thrift", p.Files[0].Name), Runs: runs},
		Expected: "every run produces the same file set with byte-identical contents, and sends the same bytes to the plugin",
		Observed: d,
	}
}

type dynStats struct {
	Executions       int                      `json:"executions"`
	Combos           int                      `json:"combos"`
	CombosAccepted   int                      `json:"combos_accepted"`
	CombosRejected   []string                 `json:"combos_rejected"`
	CombosDiffering  int                      `json:"combos_differing"`
	FilesCompared    int                      `json:"files_compared"`
	PluginRequests   int                      `json:"plugin_requests_compared"`
	ShrinkTests      int                      `json:"shrink_tests"`
	PerOptSet        map[string]int           `json:"per_optset"`
	DifferingByKey   map[string]int           `json:"differing_by_signature"`
	ProgShape        map[string]int           `json:"program_shape_totals"`
	Samples          []map[string]interface{} `json:"samples"`
	RunsPerCombo     int                      `json:"runs_per_combo"`
	Regression       int                      `json:"regression_items"`
	RegressionFailed []string                 `json:"regression_items_failed"`
	DistinctAccepted int                      `json:"distinct_accepted_combos"`
}

func runDynamic(t Tools, dir string, seed uint64, tier string, out *vl.Out) dynStats {
	r := vl.NewRng(seed ^ 0xC07D)
	// quick: 7 x 4 x (3+1) = 112 executions + 138 of the regression corpus (3x32 + 24 + 3x6) + 84 of the aimed programs (2x12 + 6x8 + 12) + 4 used-directory probes = 338
	nProg, nOpt, nRuns, budget, limit := 7, 4, 3, 80, 25*time.Second
	if tier == "thorough" {
		nProg, nOpt, nRuns, budget, limit = 40, 10, 20, 250, 90*time.Second
	}
	t00 := time.Now()
	st := dynStats{PerOptSet: map[string]int{}, DifferingByKey: map[string]int{}, ProgShape: map[string]int{}, RunsPerCombo: nRuns + 1}
	type combo struct {
		p   Prog
		pi  int
		o   OptSet
		idl string
		dir string
		res []RunResult
	}
	var combos []*combo
	rot := int(seed % uint64(len(optSets)))
	for pi := 0; pi < nProg; pi++ {
		p := genProg(r, pi, st.ProgShape)
		pdir := filepath.Join(dir, "dyn", fmt.Sprintf("p%d", pi))
		idl, err := writeProg(filepath.Join(pdir, "idl"), p)
		if err != nil {
			panic(err)
		}
		for j := 0; j < nOpt; j++ {
			o := optSets[(rot+pi*nOpt+j)%len(optSets)]
			combos = append(combos, &combo{p: p, pi: pi, o: o, idl: idl, dir: filepath.Join(pdir, o.Name), res: make([]RunResult, nRuns+1)})
			st.PerOptSet[o.Name]++
		}
	}
	st.Combos = len(combos)
	st.Executions = len(combos) * (nRuns + 1)
	type found struct {
		o OptSet
		d *Diff
	}
	var minimal []found
	covered := func(o OptSet, d *Diff) bool {
		for _, f := range minimal {
			if f.d.Kind != d.Kind || f.d.Attr != d.Attr || f.d.Pattern != d.Pattern || f.o.Backend != o.Backend {
				continue
			}
			sub := true
			for _, x := range f.o.Opts {
				has := false
				for _, y := range o.Opts {
					has = has || x == y
				}
				sub = sub && has
			}
			if sub && (len(f.o.Pre) == 0 || len(o.Pre) > 0) && (!f.o.Plugin || o.Plugin) {
				return true
			}
		}
		return false
	}
	seenCombo := map[string]bool{}
	staleReported := false
	shrinks, shrinkStart := 0, time.Duration(0)
	maxShrinks, shrinkTotal := 4, 75*time.Second
	if tier == "thorough" {
		maxShrinks, shrinkTotal = 8, 240*time.Second
	}
	// a used output directory: one run into a fresh directory, one into a directory holding that output
	// with a line appended to every file, on a two-line program, per backend
	for _, be := range []string{"go", "fastgo"} {
		tiny := Prog{Files: []IDLFile{{Name: "main0.thrift", Lines: []string{"namespace go p0.main", "struct A { 1: string a }"}}}}
		to := OptSet{Name: "default", Backend: be}
		st.Executions += 2
		if td := differsStale(t, tiny, to, filepath.Join(dir, "stale")); td != nil && !staleReported {
			staleReported = true
			f := mkFail(tiny, to, td, 2)
			f.Key = "nondeterministic:into-used-directory:" + be
			f.What = "output written into a directory that holds files of a previous run differs from output written into a fresh directory"
			in := f.Input.(ReplayInput)
			in.Stale = true
			f.Input = in
			out.Fail(f)
		}
	}
	// regression corpus first: the minimal witnesses of the three defects this check found (iteration
	// order of a Go map reaching output bytes); each must give ONE hash over its runs. A Go 1.23 map of
	// <= 8 entries is iterated from a random slot of its single bucket: two entries swap in 1 run of 8
	// only, so the 2-entry witnesses get 32 runs (miss 1.4%, backed by the 8-entry variants).
	for ri, w := range regressionCorpus(tier) {
		d, ok := differs(t, w.p, w.o, filepath.Join(dir, "regress", fmt.Sprint(ri)), w.runs)
		st.Executions += w.runs
		st.Regression++
		if !ok {
			st.CombosRejected = append(st.CombosRejected, "regression/"+w.name+": rejected by thriftgo")
			continue
		}
		if d != nil {
			st.RegressionFailed = append(st.RegressionFailed, w.name)
			if !covered(w.o, d) {
				minimal = append(minimal, found{w.o, d})
				out.Fail(mkFail(w.p, w.o, d, 40))
			}
		}
	}
	os.RemoveAll(filepath.Join(dir, "regress"))
	// batches of 8 programs keep the disk footprint small: run, compare, delete
	all := combos
	for base := 0; base < len(all); base += 8 * nOpt {
		combos := all[base:min(base+8*nOpt, len(all))]
		// wave 1: nRuns runs per combo, all in parallel
		pool(len(combos)*nRuns, func(k int) {
			c, i := combos[k/nRuns], k%nRuns
			cwd := filepath.Join(c.dir, fmt.Sprintf("r%d", i))
			outArg := "out"
			if i%2 == 1 && !c.o.Plugin { // an absolute output directory with its own name
				outArg = filepath.Join(cwd, fmt.Sprintf("abs-out-%d", i))
			}
			c.res[i] = runOne(t, c.o, c.idl, cwd, outArg, gmp[i%len(gmp)])
		})
		// wave 2: once more, into a directory that already holds the output of a previous run (a copy of
		// run 0's, so that run 0's own files stay available for attribution)
		pool(len(combos), func(k int) {
			c := combos[k]
			cwd := filepath.Join(c.dir, "again")
			copyTree(filepath.Join(c.dir, "r0", "out"), filepath.Join(cwd, "out"))
			c.res[nRuns] = runOne(t, c.o, c.idl, cwd, "out", gmp[3])
		})
		for bi, c := range combos {
			ci := base + bi
			ref := c.res[0]
			if ref.Exit != 0 {
				allFail := true
				for _, x := range c.res {
					allFail = allFail && x.Exit != 0
				}
				if allFail {
					st.CombosRejected = append(st.CombosRejected, fmt.Sprintf("p%d/%s: %s", c.pi, c.o.Name, clip(strings.TrimSpace(ref.Stderr), 200)))
					os.RemoveAll(c.dir)
					continue
				}
			}
			st.CombosAccepted++
			st.FilesCompared += len(ref.Files) * (len(c.res) - 1)
			st.PluginRequests += len(ref.Rec) * (len(c.res) - 1)
			if len(ref.Files) > 0 || len(ref.Rec) > 0 {
				h := fmt.Sprint(c.pi, "/", c.o.Name)
				if !seenCombo[h] {
					seenCombo[h] = true
					st.DistinctAccepted++
				}
			}
			var first *Diff
			for _, x := range c.res[1:nRuns] {
				if d := compare(ref, x); d != nil {
					first = d
					break
				}
			}
			if first == nil {
				// only the run into a directory holding (altered) files of a previous run differs: one
				// finding for the whole run, reproduced on a two-line program, nothing to shrink
				if d := compare(ref, c.res[nRuns]); d != nil {
					if staleReported {
						st.CombosDiffering++
						st.DifferingByKey[c.o.Backend+":stale-output"]++
						os.RemoveAll(c.dir)
						continue
					}
					first = d // a used directory is not the cause (probed above): an ordinary difference that showed late
				}
			}
			if len(st.Samples) < 4 && ci%5 == 0 {
				st.Samples = append(st.Samples, map[string]interface{}{"suite": "dynamic", "cmdline": c.o.Symbolic(), "idl_files": len(c.p.Files),
					"idl_lines": c.p.NLines(), "output_files": len(ref.Files), "runs": len(c.res), "differs": first != nil,
					"main_idl_head": c.p.Files[0].Lines[:min(6, len(c.p.Files[0].Lines))]})
			}
			if first != nil {
				st.CombosDiffering++
				sig := c.o.Backend + ":" + first.Kind + ":" + first.Pattern + ":" + first.Attr
				st.DifferingByKey[sig]++
				if !covered(c.o, first) {
					t0 := time.Now()
					lim := limit
					if shrinks >= maxShrinks || shrinkStart >= shrinkTotal {
						lim = 0 // only the option list (the key depends on it); the program stays as generated
					} else if shrinkTotal-shrinkStart < lim {
						lim = shrinkTotal - shrinkStart
					}
					shrinks++
					p2, o2, d2, tests := shrink(t, c.p, c.o, first, filepath.Join(dir, "shrink", fmt.Sprint(ci)), 12, budget, lim)
					shrinkStart += time.Since(t0)
					fmt.Fprintf(os.Stderr, "c07: shrunk %s (%s %s %s) to %d lines, %s in %d tests, %.1fs\n", c.o.Name, first.Kind, first.Pattern, first.Attr,
						p2.NLines(), o2.gArg(), tests, time.Since(t0).Seconds())
					st.ShrinkTests += tests
					minimal = append(minimal, found{o2, d2})
					out.Fail(mkFail(p2, o2, d2, 40))
				}
			}
			os.RemoveAll(c.dir)
		}
	}
	fmt.Fprintf(os.Stderr, "c07: %d executions of thriftgo and comparisons in %.1fs\n", st.Executions, time.Since(t00).Seconds())
	os.RemoveAll(filepath.Join(dir, "dyn"))
	os.RemoveAll(filepath.Join(dir, "shrink"))
	return st
}

func cmdRun(dir string, seed uint64, tier string, t Tools) {
	out := vl.NewOut(dir)
	r := vl.NewRng(seed)
	nR, nD, nN, nV, nT := 400, 120, 250, 150, 12
	if tier == "thorough" {
		nR, nD, nN, nV, nT = 4000, 1000, 2500, 1500, 100
	}
	corrReplacer(r, out, nR)
	corrDescriptor(r, out, nD)
	corrConstMap(r, out, nV)
	corrServiceThrows(r, out, dir, nT)
	corrNamespace(r, out, nN)
	var st dynStats
	if t.Thriftgo != "" {
		st = runDynamic(t, dir, seed, tier, out)
	}
	b, _ := json.MarshalIndent(st, "", " ")
	if err := os.WriteFile(filepath.Join(dir, "dyn.json"), b, 0o644); err != nil {
		panic(err)
	}
	out.Close()
}

func cmdReplay(file, dir string, t Tools) {
	b, err := os.ReadFile(file)
	if err != nil {
		fmt.Fprintln(os.Stderr, "c07 replay:", err)
		os.Exit(2)
	}
	var doc struct {
		Key   string          `json:"key"`
		Input json.RawMessage `json:"input"`
	}
	if err := json.Unmarshal(b, &doc); err != nil {
		fmt.Fprintln(os.Stderr, "c07 replay:", err)
		os.Exit(2)
	}
	var in ReplayInput
	fails := []vl.OracleFail{}
	if len(doc.Input) > 0 && string(doc.Input) != "null" && json.Unmarshal(doc.Input, &in) == nil && in.Main != "" {
		p := progOf(in)
		runs := in.Runs
		if runs < 40 {
			runs = 40
		}
		if in.Stale {
			if d := differsStale(t, p, in.OptSet, filepath.Join(dir, "replay")); d != nil {
				f := mkFail(p, in.OptSet, d, 2)
				f.Key, in.Runs = "nondeterministic:into-used-directory:"+in.OptSet.Backend, 2
				f.Input = in
				fails = append(fails, f)
			}
		} else if d, ok := differs(t, p, in.OptSet, filepath.Join(dir, "replay"), runs); ok && d != nil {
			fails = append(fails, mkFail(p, in.OptSet, d, runs))
		}
	}
	var inR struct {
		Content *string `json:"content"`
		Patches []patch `json:"patches"`
	}
	if len(doc.Input) > 0 && json.Unmarshal(doc.Input, &inR) == nil && inR.Content != nil {
		if obs := observeR(*inR.Content, inR.Patches, 200); len(obs) > 1 {
			fails = append(fails, failR(*inR.Content, inR.Patches, obs))
		}
	}
	var inN struct {
		Style  *int        `json:"style"`
		OrderA [][2]string `json:"order_a"`
		OrderB [][2]string `json:"order_b"`
	}
	if len(doc.Input) > 0 && json.Unmarshal(doc.Input, &inN) == nil && inN.Style != nil {
		a, _ := nsRun(*inN.Style, inN.OrderA)
		b, _ := nsRun(*inN.Style, inN.OrderB)
		fa, fb := strings.Fields(a), strings.Fields(b)
		if len(fa) < 2 || len(fb) < 2 || fa[1] != fb[1] {
			fails = append(fails, vl.OracleFail{Key: "nondeterministic:in-process:namespace.Add", What: "Add of distinct names with distinct ids depends on the order",
				Input: map[string]interface{}{"style": *inN.Style, "order_a": inN.OrderA, "order_b": inN.OrderB}, Expected: a, Observed: b})
		}
	}
	js, _ := json.Marshal(fails)
	fmt.Println(string(js))
}

func copyTree(src, dst string) {
	filepath.Walk(src, func(p string, info os.FileInfo, err error) error {
		if err != nil {
			return nil
		}
		rel, _ := filepath.Rel(src, p)
		if info.IsDir() {
			os.MkdirAll(filepath.Join(dst, rel), 0o755)
			return nil
		}
		if b, err := os.ReadFile(p); err == nil {
			os.WriteFile(filepath.Join(dst, rel), append(b, []byte("\n// stale content of a previous run\n")...), 0o644)
		}
		return nil
	})
}

type witness struct {
	name string
	p    Prog
	o    OptSet
	runs int
}

// regressionCorpus: inputs on which thriftgo's output used to differ from run to run: the three
// minimal witnesses and wider variants (maps of 8 entries).
func regressionCorpus(tier string) []witness {
	wideRuns := 6 // 8-entry maps: 8 equiprobable rotations, a miss in 6 runs has probability 8^-5
	if tier == "thorough" {
		wideRuns = 16
	}
	one := func(lines ...string) Prog { return Prog{Files: []IDLFile{{Name: "main0.thrift", Lines: lines}}} }
	refl := OptSet{Name: "with_reflection", Backend: "go", Opts: []string{"with_reflection"}}
	nofmt := OptSet{Name: "fastgo-no_fmt", Backend: "fastgo", Opts: []string{"no_fmt"}}
	plug := OptSet{Name: "plugin", Backend: "go", Plugin: true}
	wide := Prog{Files: []IDLFile{{Name: "main0.thrift"}}}
	var anns, ents, names []string
	for i := 0; i < 8; i++ {
		base := fmt.Sprintf("inc0_%d", i)
		wide.Files[0].Lines = append(wide.Files[0].Lines, fmt.Sprintf(`include "%s.thrift"`, base))
		wide.Files = append(wide.Files, IDLFile{Name: base + ".thrift", Lines: []string{fmt.Sprintf("namespace go p0.inc%d", i), "struct A { 1: bool x }", "struct B {}"}})
		anns = append(anns, fmt.Sprintf(`x.k%d="v"`, i))
		ents = append(ents, fmt.Sprintf(`"k%d": "v%d"`, i, i))
		names = append(names, fmt.Sprintf("%d: %s.A a%d", i+1, base, i))
	}
	for i, l := range []string{"go", "java", "py", "rs", "cpp", "js", "php", "rb"} {
		wide.Files[0].Lines = append(wide.Files[0].Lines, fmt.Sprintf("namespace %s p0.main%d", l, i%2))
	}
	wide.Files[0].Lines = append(wide.Files[0].Lines,
		fmt.Sprintf("const map<string,string> C = {%s}", strings.Join(ents, ", ")),
		fmt.Sprintf("struct S { %s } (%s)", strings.Join(names, ", "), strings.Join(anns, ", ")),
		fmt.Sprintf("struct T { 1: map<string,string> m = {%s} (%s) }", strings.Join(ents, ", "), strings.Join(anns, ", ")),
		"struct U1 {}", "struct U2 {}", "enum E { A = 1 }", "exception X { 1: string m }", "service Svc { void f() throws (1: X x) }")
	// keys of equal content with different values, placed so that every rotation of the 8 slots of the
	// map's bucket exchanges one pair (i, i+4): 7 runs of 8 show a key-only order
	var dupEnts []string
	for i := 0; i < 8; i++ {
		dupEnts = append(dupEnts, fmt.Sprintf(`{"name": "k%d", "id": %d}: "v%d"`, i%4, i%4, i))
	}
	dupKeys := one("namespace go p0.main", "struct K { 1: string name, 2: i32 id }",
		fmt.Sprintf("const map<K,string> M = {%s}", strings.Join(dupEnts, ", ")),
		`struct S { 1: map<K,string> m = {{"name": "k", "id": 1}: "first", {"name": "k", "id": 1}: "second"} }`)
	same := sameNameProg(vl.NewRng(7), 0, 4)
	patchProg := one("namespace go p0.main", "struct A { 1: string a }", "service S { A get(1: string k) }")
	collide := func(n int) Prog {
		cf, inc, rf := collidingFiles(0, n)
		var fs []string
		for i, t := range rf {
			fs = append(fs, fmt.Sprintf("%d: %s l%d", i+1, t, i))
		}
		m := IDLFile{Name: "main0.thrift", Lines: append(inc, "namespace go p0.main", fmt.Sprintf("struct Main { %s }", strings.Join(fs, ", ")), "service S { Main get(1: string k) }")}
		return Prog{Files: append([]IDLFile{m}, cf...)}
	}
	sameRuns := 8
	aimed := []witness{
		{"3 IDLs in different directories map to one output file: -r go", collide(3), OptSet{Name: "recurse", Pre: []string{"-r"}, Backend: "go"}, 12},
		{"2 IDLs in different directories map to one output file: -r fastgo", collide(2), OptSet{Name: "recurse-fastgo", Pre: []string{"-r"}, Backend: "fastgo"}, 12},
		{"same names in 4 includes: -r default template", same, OptSet{Name: "recurse", Pre: []string{"-r"}, Backend: "go"}, sameRuns},
		{"same names in 4 includes: -r slim (ServiceThrows)", same, OptSet{Name: "recurse-slim", Pre: []string{"-r"}, Backend: "go", Opts: []string{"template=slim"}}, sameRuns},
		{"same names in 4 includes: -r raw_struct, type meta", same, OptSet{Name: "recurse-raw_struct", Pre: []string{"-r"}, Backend: "go", Opts: []string{"template=raw_struct", "gen_type_meta"}}, sameRuns},
		{"same names in 4 includes: slim with nested structs, setters, deep equal, reflection", same, OptSet{Name: "slim-helpers", Backend: "go",
			Opts: []string{"template=slim", "enable_nested_struct", "gen_setter", "gen_deep_equal", "keep_unknown_fields", "with_reflection"}}, sameRuns},
		{"same names in 4 includes: -r reflection and field masks", same, OptSet{Name: "recurse-field_mask", Pre: []string{"-r"}, Backend: "go", Opts: []string{"with_reflection", "with_field_mask"}}, sameRuns},
		{"same names in 4 includes: -r fastgo no_fmt", same, OptSet{Name: "recurse-fastgo-no_fmt", Pre: []string{"-r"}, Backend: "fastgo", Opts: []string{"no_fmt"}}, sameRuns},
		{"plugin patches with nested insertion points", patchProg, OptSet{Name: "plugin-patch", Backend: "go", Plugin: true, Patch: "p0/main/main0.go"}, 12},
	}
	return append([]witness{
		{"descriptor: two namespaces (minimal)", one("namespace go p0.main", "namespace rs p0.main"), refl, 32},
		{"fastgo imports: fmt and unsafe (minimal)", one("struct S { 1: bool a }"), nofmt, 32},
		{"plugin request: two names (minimal)", one("struct A {}", "struct B {}"), plug, 32},
		{"descriptor: map constant and default whose struct keys have equal content and different values", dupKeys, refl, 24},
		{"descriptor: 8 includes, 8 namespaces, 8 annotations, 8 map entries", wide, refl, wideRuns},
		{"fastgo imports: 8 included packages", wide, nofmt, wideRuns},
		{"plugin request: 8 names, 8 includes", wide, plug, wideRuns},
	}, aimed...)
}

// differsStale: one run into a fresh directory, one into a directory holding that output with a
// line appended to every file; the two trees must be equal.
func differsStale(t Tools, p Prog, o OptSet, dir string) *Diff {
	defer os.RemoveAll(dir)
	idl, err := writeProg(filepath.Join(dir, "idl"), p)
	if err != nil {
		panic(err)
	}
	a := runOne(t, o, idl, filepath.Join(dir, "r0"), "out", gmp[1])
	copyTree(filepath.Join(dir, "r0", "out"), filepath.Join(dir, "again", "out"))
	b := runOne(t, o, idl, filepath.Join(dir, "again"), "out", gmp[2])
	return compare(a, b)
}
