package main

// The determinism oracle of C07, on the implementation alone: the thriftgo binary built from the
// repository under test is run several times with one command line — GOMAXPROCS 1, 2, 7, 16,
// different working/output directories, once more into a directory that already holds a previous
// run's output — and the sha256 of every output file (path relative to the output directory) and of
// the bytes a recording plugin received on stdin are compared across the runs.

import (
	"bytes"
	"crypto/sha256"
	"encoding/hex"
	"fmt"
	"os"
	"os/exec"
	"path/filepath"
	"regexp"
	"runtime"
	"sort"
	"strings"
	"sync"
	"time"
)

type OptSet struct {
	Name    string   `json:"name"`
	Pre     []string `json:"pre"`     // flags before -g, e.g. -r
	Backend string   `json:"backend"` // go | fastgo
	Opts    []string `json:"opts"`    // backend options
	Plugin  bool     `json:"plugin"`  // add -p rec=<recording plugin>
	Patch   string   `json:"patch"`   // the plugin also patches this generated file (path below the output directory)
}

func (o OptSet) gArg() string {
	if len(o.Opts) == 0 {
		return o.Backend
	}
	return o.Backend + ":" + strings.Join(o.Opts, ",")
}

// Cmdline with placeholders kept symbolic (for keys, samples and replays).
func (o OptSet) Symbolic() string {
	s := append([]string{"thriftgo"}, o.Pre...)
	s = append(s, "-o", "<out>", "-g", o.gArg())
	if o.Patch != "" {
		s = append([]string{"C07_PATCH_FILE=" + o.Patch}, s...)
	}
	if o.Plugin {
		s = append(s, "--plugin-time-limit", "0", "-p", "rec=<c07plugin>")
	}
	return strings.Join(append(s, "<idl>/<main>.thrift"), " ")
}

var optSets = []OptSet{
	{Name: "default", Backend: "go"},
	{Name: "with_reflection", Backend: "go", Opts: []string{"with_reflection"}},
	{Name: "gen_type_meta", Backend: "go", Opts: []string{"gen_type_meta"}},
	{Name: "trim_idl", Backend: "go", Opts: []string{"trim_idl"}},
	{Name: "fastgo", Backend: "fastgo"},
	{Name: "recurse", Pre: []string{"-r"}, Backend: "go"},
	{Name: "plugin", Backend: "go", Plugin: true},
	{Name: "fastgo-no_fmt", Backend: "fastgo", Opts: []string{"no_fmt"}},
	{Name: "go-no_fmt-many", Backend: "go", Opts: []string{"no_fmt", "gen_setter", "gen_deep_equal", "frugal_tag", "keep_unknown_fields", "get_enum_annotation"}},
	{Name: "slim", Backend: "go", Opts: []string{"template=slim"}},
	{Name: "field_mask", Backend: "go", Opts: []string{"with_reflection", "with_field_mask"}},
	{Name: "recurse-reflection-comments", Pre: []string{"-r"}, Backend: "go", Opts: []string{"with_reflection", "reserve_comments"}},
	{Name: "recurse-fastgo", Pre: []string{"-r"}, Backend: "fastgo", Opts: []string{"keep_unknown_fields"}},
	{Name: "use_option", Backend: "go", Opts: []string{"use_option"}},
	{Name: "streaming-golint", Backend: "go", Opts: []string{"thrift_streaming", "naming_style=golint", "json_enum_as_text", "package_prefix=example.com/gen"}},
	{Name: "skip_empty-no_processor", Backend: "go", Opts: []string{"skip_empty", "no_processor", "nil_safe", "enum_as_int_32"}},
	{Name: "plugin-recurse-skip_go_gen", Pre: []string{"-r"}, Backend: "go", Opts: []string{"skip_go_gen"}, Plugin: true},
	{Name: "raw_struct-meta", Backend: "go", Opts: []string{"template=raw_struct", "gen_type_meta"}},
	{Name: "trim-reflection", Backend: "go", Opts: []string{"trim_idl", "with_reflection"}},
	{Name: "apache_adaptor", Backend: "go", Opts: []string{"apache_adaptor", "reorder_fields"}},
	{Name: "recurse-slim", Pre: []string{"-r"}, Backend: "go", Opts: []string{"template=slim"}},
	{Name: "recurse-raw_struct", Pre: []string{"-r"}, Backend: "go", Opts: []string{"template=raw_struct", "gen_type_meta"}},
	{Name: "slim-helpers", Backend: "go", Opts: []string{"template=slim", "enable_nested_struct", "gen_setter", "gen_deep_equal", "keep_unknown_fields", "with_reflection"}},
	{Name: "streamx", Backend: "go", Opts: []string{"thrift_streaming", "streamx", "typed_enum_string", "compatible_names"}},
	{Name: "apache_warning", Backend: "go", Opts: []string{"apache_warning", "gen_db_tag", "snake_style_json_tag"}},
}

var gmp = []int{1, 2, 7, 16}

type RunResult struct {
	Exit   int
	Stderr string
	Files  map[string]string // relative path -> sha256
	Rec    []string          // lines the recording plugin wrote: "<sha> <len> <canonical sha>"
	Gmp    int
	OutDir string
}

type Tools struct {
	Thriftgo string
	Plugin   string
}

func hashTree(dir string) map[string]string {
	m := map[string]string{}
	filepath.Walk(dir, func(p string, info os.FileInfo, err error) error {
		if err != nil || info.IsDir() {
			return nil
		}
		b, err := os.ReadFile(p)
		if err != nil {
			return nil
		}
		rel, _ := filepath.Rel(dir, p)
		h := sha256.Sum256(b)
		m[rel] = hex.EncodeToString(h[:])
		return nil
	})
	return m
}

// writeProg writes the program once; every run of one comparison reads the same IDL files.
func writeProg(dir string, p Prog) (string, error) {
	if err := os.MkdirAll(dir, 0o755); err != nil {
		return "", err
	}
	for n, t := range p.Text() {
		if err := os.MkdirAll(filepath.Dir(filepath.Join(dir, n)), 0o755); err != nil {
			return "", err
		}
		if err := os.WriteFile(filepath.Join(dir, n), []byte(t), 0o644); err != nil {
			return "", err
		}
	}
	return filepath.Join(dir, p.Files[0].Name), nil
}

// runOne executes thriftgo once. cwd is private to the run; out is "-o"'s argument (relative to cwd
// or absolute); hashes are taken of the directory out resolves to.
func runOne(t Tools, o OptSet, idl, cwd, out string, g int) RunResult {
	os.MkdirAll(cwd, 0o755)
	args := append([]string{}, o.Pre...)
	args = append(args, "-o", out, "-g", o.gArg())
	rec := ""
	if o.Plugin {
		args = append(args, "--plugin-time-limit", "0", "-p", "rec="+t.Plugin) // no time limit: a loaded machine must not look like a difference
		rec = filepath.Join(cwd, "plugin-record.txt")
		os.Remove(rec)
	}
	args = append(args, idl)
	var eb bytes.Buffer
	var err error
	for attempt := 0; attempt < 4; attempt++ {
		cmd := exec.Command(t.Thriftgo, args...)
		cmd.Dir = cwd
		cmd.Env = append(os.Environ(), fmt.Sprintf("GOMAXPROCS=%d", g), "C07_RECORD="+rec, "C07_PATCH_FILE="+o.Patch)
		eb.Reset()
		cmd.Stderr = &eb
		cmd.Stdout = &eb
		err = cmd.Run()
		if _, isExit := err.(*exec.ExitError); err == nil || isExit {
			break
		}
		time.Sleep(500 * time.Millisecond) // the process could not be started (machine out of resources): not a verdict
	}
	res := RunResult{Gmp: g, Stderr: eb.String()}
	if err != nil {
		res.Exit = 1
		if ee, ok := err.(*exec.ExitError); ok {
			res.Exit = ee.ExitCode()
		} else {
			panic(fmt.Sprintf("cannot execute %s: %v", t.Thriftgo, err))
		}
	}
	od := out
	if !filepath.IsAbs(out) {
		od = filepath.Join(cwd, out)
	}
	res.OutDir = od
	res.Files = hashTree(od)
	if rec != "" {
		if b, err := os.ReadFile(rec); err == nil {
			res.Rec = strings.Split(strings.TrimSpace(string(b)), "\n")
		}
	}
	return res
}

// Diff describes the first difference between two runs of one command line.
type Diff struct {
	Kind    string `json:"kind"`    // file-content | file-set | plugin-request | exit-status
	File    string `json:"file"`    // relative path (file-content / file-set)
	Pattern string `json:"pattern"` // file name with the IDL's base name replaced by *
	Attr    string `json:"attr"`    // descriptor-bytes | import-order | map-order | content | unattributed
	A       string `json:"a"`
	B       string `json:"b"`
	GmpA    int    `json:"gomaxprocs_a"`
	GmpB    int    `json:"gomaxprocs_b"`
	Excerpt string `json:"excerpt"`
}

var idlBase = regexp.MustCompile(`(main|inc)[0-9_]*`)

func pattern(rel string) string {
	return idlBase.ReplaceAllString(filepath.Base(rel), "*")
}

func linesOf(path string) []string {
	b, _ := os.ReadFile(path)
	return strings.Split(string(b), "\n")
}

// attribute looks at where two versions of one generated file differ: only inside the byte literal
// of the embedded descriptor, only in the order of the lines of import blocks, or elsewhere.
func attribute(pa, pb string) (attr, excerpt string) {
	split := func(ls []string) (rest, desc, imps []string) {
		cur := ""
		for _, l := range ls {
			t := strings.TrimSpace(l)
			if cur == "" {
				switch {
				case strings.Contains(l, "_rawDesc = []byte{"):
					cur = "d"
				case strings.HasPrefix(t, "import ("):
					cur = "i"
				}
				rest = append(rest, l)
				continue
			}
			if (cur == "d" && t == "}") || (cur == "i" && t == ")") {
				cur = ""
				rest = append(rest, l)
				continue
			}
			if cur == "d" {
				desc = append(desc, l)
			} else {
				imps = append(imps, l)
			}
		}
		return
	}
	a, b := linesOf(pa), linesOf(pb)
	for i := 0; i < len(a) && i < len(b); i++ {
		if a[i] != b[i] {
			excerpt = fmt.Sprintf("line %d: %q vs %q", i+1, clip(a[i], 100), clip(b[i], 100))
			break
		}
	}
	ra, da, ia := split(a)
	rb, db, ib := split(b)
	eq := func(x, y []string) bool { return strings.Join(x, "\n") == strings.Join(y, "\n") }
	if !eq(ra, rb) {
		return "unattributed", excerpt
	}
	sa, sb := append([]string(nil), ia...), append([]string(nil), ib...)
	sort.Strings(sa)
	sort.Strings(sb)
	switch {
	case !eq(da, db) && eq(ia, ib):
		return "descriptor-bytes", excerpt
	case eq(da, db) && !eq(ia, ib) && eq(sa, sb):
		return "import-order", excerpt
	}
	return "unattributed", excerpt
}

func clip(s string, n int) string {
	if len(s) > n {
		return s[:n] + "…"
	}
	return s
}

// compare returns the first difference between a reference run and another run, or nil.
func compare(ref, x RunResult) *Diff {
	d := &Diff{GmpA: ref.Gmp, GmpB: x.Gmp}
	if ref.Exit != x.Exit {
		d.Kind, d.Attr, d.A, d.B = "exit-status", "exit-status", fmt.Sprint(ref.Exit), fmt.Sprint(x.Exit)
		d.Excerpt = clip(ref.Stderr+" | "+x.Stderr, 300)
		return d
	}
	var names []string
	for n := range ref.Files {
		names = append(names, n)
	}
	for n := range x.Files {
		if _, ok := ref.Files[n]; !ok {
			names = append(names, n)
		}
	}
	sort.Strings(names)
	for _, n := range names {
		ha, oka := ref.Files[n]
		hb, okb := x.Files[n]
		if !oka || !okb {
			d.Kind, d.File, d.Pattern, d.Attr, d.A, d.B = "file-set", n, pattern(n), "file-set", fmt.Sprint(oka), fmt.Sprint(okb)
			return d
		}
		if ha != hb {
			d.Kind, d.File, d.Pattern, d.A, d.B = "file-content", n, pattern(n), ha, hb
			d.Attr, d.Excerpt = attribute(filepath.Join(ref.OutDir, n), filepath.Join(x.OutDir, n))
			return d
		}
	}
	if len(ref.Rec) != len(x.Rec) {
		d.Kind, d.Attr, d.A, d.B = "plugin-request", "content", fmt.Sprint(len(ref.Rec), " requests"), fmt.Sprint(len(x.Rec), " requests")
		return d
	}
	for i := range ref.Rec {
		if ref.Rec[i] != x.Rec[i] {
			fa, fb := strings.Fields(ref.Rec[i]), strings.Fields(x.Rec[i])
			d.Kind, d.A, d.B = "plugin-request", ref.Rec[i], x.Rec[i]
			d.Attr = "content"
			if len(fa) == 3 && len(fb) == 3 && fa[1] == fb[1] && fa[2] == fb[2] && fa[2] != "-" {
				d.Attr = "map-order" // same decoded request, same length, different bytes
			}
			d.Pattern = "stdin"
			return d
		}
	}
	return nil
}

// relevantOpts: which option names stay in a failure key (decided by shrinking the option list).
func failKey(o OptSet, d *Diff) string {
	opts := append([]string(nil), o.Opts...)
	sort.Strings(opts)
	cfg := o.Backend
	if len(opts) > 0 {
		cfg += ":" + strings.Join(opts, ",")
	}
	if len(o.Pre) > 0 {
		cfg = strings.Join(o.Pre, " ") + " " + cfg
	}
	switch d.Kind {
	case "plugin-request":
		return "nondeterministic:plugin-request:" + cfg + ":" + d.Attr
	case "exit-status":
		return "nondeterministic:exit-status:" + cfg
	}
	return "nondeterministic:" + cfg + ":" + d.Pattern + ":" + d.Attr
}

// pool runs jobs on all cores.
func pool(n int, job func(i int)) {
	w := runtime.NumCPU()
	if w > n {
		w = n
	}
	var wg sync.WaitGroup
	ch := make(chan int)
	for k := 0; k < w; k++ {
		wg.Add(1)
		go func() {
			defer wg.Done()
			for i := range ch {
				job(i)
			}
		}()
	}
	for i := 0; i < n; i++ {
		ch <- i
	}
	close(ch)
	wg.Wait()
}

// differs runs one command line up to `runs` times (in parallel waves) in fresh directories under
// dir and reports the first difference; ok=false when thriftgo rejects the input in every run.
func differs(t Tools, p Prog, o OptSet, dir string, runs int) (d *Diff, ok bool) {
	defer os.RemoveAll(dir)
	idl, err := writeProg(filepath.Join(dir, "idl"), p)
	if err != nil {
		panic(err)
	}
	var ref *RunResult
	for done, wave := 0, 4; done < runs; done, wave = done+wave, 8 {
		n := wave
		if done+n > runs {
			n = runs - done
		}
		res := make([]RunResult, n)
		pool(n, func(i int) {
			res[i] = runOne(t, o, idl, filepath.Join(dir, fmt.Sprintf("r%d", done+i)), "out", gmp[(done+i)%len(gmp)])
		})
		for i := range res {
			if ref == nil {
				ref = &res[i]
				continue
			}
			if d := compare(*ref, res[i]); d != nil {
				return d, true
			}
		}
		if ref.Exit != 0 {
			return nil, false
		}
	}
	return nil, true
}

var annGroup = regexp.MustCompile(`\s*\([a-z0-9.]+="[^"]*"(, [a-z0-9.]+="[^"]*")*\)`)

// shrink minimises option list and IDL while the same kind of difference still shows within `runs` runs.
func shrink(t Tools, p Prog, o OptSet, want *Diff, dir string, runs int, budget int, limit time.Duration) (Prog, OptSet, *Diff, int) {
	tests := 0
	deadline := time.Now().Add(24 * time.Hour) // the option list is always minimised: the failure key depends on it
	same := func(d *Diff) bool {
		return d != nil && d.Kind == want.Kind && d.Attr == want.Attr && d.Pattern == want.Pattern
	}
	try := func(q Prog, oo OptSet) *Diff {
		if tests >= budget || time.Now().After(deadline) {
			return nil
		}
		tests++
		d, ok := differs(t, q, oo, filepath.Join(dir, fmt.Sprintf("s%d", tests)), runs)
		if ok && same(d) {
			return d
		}
		return nil
	}
	best := want
	// options
	for i := 0; i < len(o.Opts); {
		oo := o
		oo.Opts = append(append([]string(nil), o.Opts[:i]...), o.Opts[i+1:]...)
		if d := try(p, oo); d != nil {
			o, best = oo, d
		} else {
			i++
		}
	}
	if len(o.Pre) > 0 {
		oo := o
		oo.Pre = nil
		if d := try(p, oo); d != nil {
			o, best = oo, d
		}
	}
	deadline = time.Now().Add(limit)
	// whole include files (with their include line), then lines in halving chunks, then single lines
	for fi := len(p.Files) - 1; fi >= 1; fi-- {
		q := p.Clone()
		name := q.Files[fi].Name
		q.Files = append(q.Files[:fi], q.Files[fi+1:]...)
		var keep []string
		for _, l := range q.Files[0].Lines {
			if l != fmt.Sprintf(`include "%s"`, name) {
				keep = append(keep, l)
			}
		}
		q.Files[0].Lines = keep
		if d := try(q, o); d != nil {
			p, best = q, d
		}
	}
	// ddmin over the lines of each file: subsets first, then complements, then finer granularity
	for fi := 0; fi < len(p.Files); fi++ {
		lines := p.Files[fi].Lines
		with := func(ls []string) Prog {
			q := p.Clone()
			q.Files[fi].Lines = ls
			return q
		}
		n := 2
		for len(lines) >= 2 && tests < budget && time.Now().Before(deadline) {
			size := (len(lines) + n - 1) / n
			reduced := false
			for at := 0; at < len(lines) && !reduced; at += size {
				end := at + size
				if end > len(lines) {
					end = len(lines)
				}
				sub := append([]string(nil), lines[at:end]...)
				if d := try(with(sub), o); d != nil {
					lines, best, n, reduced = sub, d, 2, true
				}
			}
			for at := 0; at < len(lines) && !reduced && n > 2; at += size {
				end := at + size
				if end > len(lines) {
					end = len(lines)
				}
				comp := append(append([]string(nil), lines[:at]...), lines[end:]...)
				if d := try(with(comp), o); d != nil {
					lines, best, reduced = comp, d, true
					if n > 2 {
						n--
					}
				}
			}
			if !reduced {
				if n >= len(lines) {
					break
				}
				n *= 2
				if n > len(lines) {
					n = len(lines)
				}
			}
		}
		p = with(lines)
	}
	// include files no line refers to any more are not read by thriftgo: drop them without a test
	for fi := len(p.Files) - 1; fi >= 1; fi-- {
		used := false
		for _, g := range p.Files {
			for _, l := range g.Lines { // include paths are relative to the including file
				if strings.HasPrefix(l, `include "`) && strings.HasSuffix(l, `"`) {
					q := l[len(`include "`) : len(l)-1]
					used = used || filepath.Join(filepath.Dir(g.Name), q) == p.Files[fi].Name
				}
			}
		}
		if !used {
			p.Files = append(p.Files[:fi:fi], p.Files[fi+1:]...)
		}
	}
	// annotation groups, one at a time
	for fi := 0; fi < len(p.Files); fi++ {
		for li := 0; li < len(p.Files[fi].Lines); li++ {
			for {
				l := p.Files[fi].Lines[li]
				locs := annGroup.FindAllStringIndex(l, -1)
				changed := false
				for k := len(locs) - 1; k >= 0; k-- {
					q := p.Clone()
					q.Files[fi].Lines[li] = l[:locs[k][0]] + l[locs[k][1]:]
					if d := try(q, o); d != nil {
						p, best, changed = q, d, true
						break
					}
				}
				if !changed {
					break
				}
			}
		}
	}
	// members of struct-likes, enums and services, one at a time
	for fi := 0; fi < len(p.Files); fi++ {
		for li := 0; li < len(p.Files[fi].Lines); li++ {
			for {
				l := p.Files[fi].Lines[li]
				open, close, elems := members(l)
				changed := false
				for k := len(elems) - 1; k >= 0 && len(elems) > 1; k-- {
					rest := append(append([]string(nil), elems[:k]...), elems[k+1:]...)
					q := p.Clone()
					q.Files[fi].Lines[li] = l[:open+1] + " " + strings.Join(rest, ", ") + " " + l[close:]
					if d := try(q, o); d != nil {
						p, best, changed = q, d, true
						break
					}
				}
				if !changed {
					break
				}
			}
		}
	}
	return p, o, best, tests
}

// members splits the body of the first top-level { … } of a definition line at top-level commas.
func members(l string) (open, close int, elems []string) {
	open = strings.Index(l, "{")
	if open < 0 || strings.HasPrefix(l, "const ") {
		return 0, 0, nil
	}
	depth, inStr, start := 0, false, open+1
	for i := open; i < len(l); i++ {
		c := l[i]
		if inStr {
			if c == '"' {
				inStr = false
			}
			continue
		}
		switch c {
		case '"':
			inStr = true
		case '{', '(', '[', '<':
			depth++
		case '}', ')', ']', '>':
			depth--
			if depth == 0 {
				if e := strings.TrimSpace(l[start:i]); e != "" {
					elems = append(elems, e)
				}
				return open, i, elems
			}
		case ',':
			if depth == 1 {
				elems = append(elems, strings.TrimSpace(l[start:i]))
				start = i + 1
			}
		}
	}
	return 0, 0, nil
}
