// c07: translator (extract), determinism oracle / correspondence (run) and replay for property C07
// (code generation is deterministic).
package main

import (
	"flag"
	"fmt"
	"os"
)

func main() {
	if len(os.Args) < 2 {
		fmt.Fprintln(os.Stderr, "usage: c07 extract|run|replay [flags]")
		os.Exit(2)
	}
	fs := flag.NewFlagSet(os.Args[1], flag.ExitOnError)
	repo := fs.String("repo", "", "repository under test")
	dir := fs.String("dir", "", "work directory")
	seed := fs.Uint64("seed", 1, "seed")
	tier := fs.String("tier", "quick", "quick|thorough")
	file := fs.String("file", "", "replay file")
	thriftgo := fs.String("thriftgo", "", "path of the thriftgo binary built from -repo")
	plug := fs.String("plugin", "", "path of the recording plugin binary")
	fs.Parse(os.Args[2:])
	tools := Tools{Thriftgo: *thriftgo, Plugin: *plug}
	switch os.Args[1] {
	case "extract":
		sites, pkgs, std, err := inventory(*repo)
		if err != nil {
			fmt.Fprintln(os.Stderr, "c07 extract:", err)
			os.Exit(1)
		}
		fmt.Print(renderLean(sites, pkgs, std))
	case "run":
		cmdRun(*dir, *seed, *tier, tools)
	case "replay":
		cmdReplay(*file, *dir, tools)
	default:
		fmt.Fprintln(os.Stderr, "unknown subcommand", os.Args[1])
		os.Exit(2)
	}
}
