package main

// In-process correspondence for C07: the repository's own code is run on generated inputs and the
// compiled Lean model (tv_c07) is run on the same lines.
//
//   R  generator.FileManager.BuildResponse (newInsertionPointReplacer, Add, Replace → strings.NewReplacer)
//   D  thrift_reflection.GetFileDescriptor + meta.Marshal: 8 calls; every distinct byte string is a case, the
//      model sorts the entries as the code does (so a second byte string for one descriptor disagrees with it)
//   V  meta.Marshal of a ConstValueDescriptor map (pointer keys, equal contents allowed): (key, value) order
//   T  golang.(*CodeUtils).BuildFuncMap()["ServiceThrows"] on scopes built from same-named exceptions of several packages
//   N  pkg/namespace: Add in a given order, then Iterate / Get
//
// Map iteration order is re-randomised at every `range`, so repeating a call inside one process
// samples different orders; every repetition must equal the model (one result for all orders).

import (
	"encoding/binary"
	"fmt"
	"os"
	"path/filepath"
	"sort"
	"strings"

	"github.com/cloudwego/thriftgo/generator"
	"github.com/cloudwego/thriftgo/generator/backend"
	"github.com/cloudwego/thriftgo/generator/golang"
	"github.com/cloudwego/thriftgo/generator/golang/extension/meta"
	"github.com/cloudwego/thriftgo/parser"
	"github.com/cloudwego/thriftgo/pkg/namespace"
	"github.com/cloudwego/thriftgo/plugin"
	"github.com/cloudwego/thriftgo/semantic"
	"github.com/cloudwego/thriftgo/thrift_reflection"

	"verifharness/internal/vl"
)

const ipPrefix = "@@thriftgo_insertion_point("

var pointNames = []string{"imports", "a", "ab", "a.b", "a$", "", "A_1", "Svc.m", "x.y.z", "0"}

func randText(r *vl.Rng, n int) string {
	const al = "abc XYZ_019.$()@\n\t{}\"/"
	var sb strings.Builder
	for i := 0; i < n; i++ {
		sb.WriteByte(al[r.Intn(len(al))])
	}
	return sb.String()
}

func genContent(r *vl.Rng) string {
	var sb strings.Builder
	for i, n := 0, r.Intn(9); i < n; i++ {
		switch r.Intn(8) {
		case 0, 1, 2:
			sb.WriteString(ipPrefix + r.Pick(pointNames) + ")")
		case 3:
			sb.WriteString(ipPrefix + r.Pick(pointNames)) // never closed
		case 4:
			sb.WriteString(ipPrefix + "a b)") // blank is outside the key alphabet
		case 5:
			sb.WriteString(ipPrefix[:1+r.Intn(len(ipPrefix)-1)])
		default:
			sb.WriteString(randText(r, r.Intn(12)))
		}
		if r.Chance(50) {
			sb.WriteString(randText(r, r.Intn(6)))
		}
	}
	return sb.String()
}

type patch struct{ Name, Text string }

func buildResponse(content string, ps []patch) (out string, pan bool) {
	defer func() {
		if e := recover(); e != nil {
			out, pan = "panic", true
		}
	}()
	fm := generator.NewFileManager(backend.DummyLogFunc())
	name := "f.go"
	files := []*plugin.Generated{{Name: &name, Content: content}}
	for i := range ps {
		files = append(files, &plugin.Generated{InsertionPoint: &ps[i].Name, Content: ps[i].Text})
	}
	if err := fm.Feed("c07", files); err != nil {
		return "err", false
	}
	res := fm.BuildResponse()
	if len(res.Contents) != 1 {
		return "err", false
	}
	return vl.Hex(res.Contents[0].Content), false
}

func corrReplacer(r *vl.Rng, out *vl.Out, n int) {
	for c := 0; c < n; c++ {
		content := genContent(r)
		var ps []patch
		for i, k := 0, r.Intn(6); i < k; i++ {
			name := r.Pick(pointNames)
			if r.Chance(10) {
				name = "zz" + fmt.Sprint(r.Intn(3)) // a point the file does not have
			}
			text := randText(r, r.Intn(10))
			if r.Chance(15) {
				text = ""
			}
			if r.Chance(10) {
				text += ipPrefix + r.Pick(pointNames) + ")" // replaced text is not rescanned
			}
			ps = append(ps, patch{name, text})
		}
		op := []string{"R", vl.Hex(content), fmt.Sprint(len(ps))}
		for _, p := range ps {
			op = append(op, vl.Hex(p.Name), vl.Hex(p.Text))
		}
		first, _ := buildResponse(content, ps)
		distinct := map[string]bool{first: true}
		for k := 0; k < 5; k++ {
			x, _ := buildResponse(content, ps)
			distinct[x] = true
		}
		keys := strings.Count(content, ipPrefix)
		out.Case(strings.Join(op, " "), first, keys >= 1 && len(ps) >= 1)
		out.Count(fmt.Sprintf("R:points=%d,patches=%d", min(keys, 4), min(len(ps), 4)))
		if len(distinct) > 1 {
			content, ps = shrinkR(content, ps)
			out.Fail(failR(content, ps, observeR(content, ps, 40)))
		}
		if c < 2 {
			out.Sample(map[string]interface{}{"suite": "R", "content": content, "patches": ps})
		}
	}
}

// observeR repeats BuildResponse and returns the distinct results.
func observeR(content string, ps []patch, n int) []string {
	seen := map[string]bool{}
	for k := 0; k < n; k++ {
		x, _ := buildResponse(content, ps)
		seen[x] = true
	}
	var obs []string
	for k := range seen {
		obs = append(obs, k)
	}
	sort.Strings(obs)
	return obs
}

func failR(content string, ps []patch, obs []string) vl.OracleFail {
	return vl.OracleFail{Key: "nondeterministic:in-process:BuildResponse",
		What:  "FileManager.BuildResponse gives different contents for one Feed history (points named inside the insertion-point alphabet)",
		Input: map[string]interface{}{"content": content, "patches": ps}, Expected: "one content", Observed: obs}
}

// shrinkR drops patches and cuts the content while BuildResponse still gives >= 2 results in 40 tries.
func shrinkR(content string, ps []patch) (string, []patch) {
	bad := func(c string, q []patch) bool { return len(observeR(c, q, 40)) > 1 }
	for i := 0; i < len(ps); {
		q := append(append([]patch(nil), ps[:i]...), ps[i+1:]...)
		if bad(content, q) {
			ps = q
		} else {
			i++
		}
	}
	for step := len(content) / 2; step >= 1; step /= 2 {
		for at := 0; at+step <= len(content); {
			c := content[:at] + content[at+step:]
			if bad(c, ps) {
				content = c
			} else {
				at += step
			}
		}
	}
	for i := range ps {
		for step := len(ps[i].Text) / 2; step >= 1; step /= 2 {
			for at := 0; at+step <= len(ps[i].Text); {
				q := append([]patch(nil), ps...)
				q[i].Text = ps[i].Text[:at] + ps[i].Text[at+step:]
				if bad(content, q) {
					ps = q
				} else {
					at += step
				}
			}
		}
	}
	return content, ps
}

// readMapField parses `0d 00 <fid> 0b 0b <n> (len k len v)*` at b[off:].
func readMapField(b []byte, off int) (es [][2]string, next int, ok bool) {
	if off+9 > len(b) || b[off] != 13 || b[off+3] != 11 || b[off+4] != 11 {
		return nil, 0, false
	}
	n := int(binary.BigEndian.Uint32(b[off+5:]))
	off += 9
	str := func() (string, bool) {
		if off+4 > len(b) {
			return "", false
		}
		l := int(binary.BigEndian.Uint32(b[off:]))
		if off+4+l > len(b) {
			return "", false
		}
		s := string(b[off+4 : off+4+l])
		off += 4 + l
		return s, true
	}
	for i := 0; i < n; i++ {
		k, ok1 := str()
		v, ok2 := str()
		if !ok1 || !ok2 {
			return nil, 0, false
		}
		es = append(es, [2]string{k, v})
	}
	return es, off, true
}

func corrDescriptor(r *vl.Rng, out *vl.Out, n int) {
	multi, multiSeen := 0, 0
	for c := 0; c < n; c++ {
		path := fmt.Sprintf("idl/d%d.thrift", r.Intn(100))
		ast := &parser.Thrift{Filename: path}
		ni, nn := r.Intn(5), r.Intn(7)
		for i := 0; i < ni; i++ {
			p := fmt.Sprintf("dir%d/inc%d.thrift", r.Intn(2), r.Intn(6)) // equal base names collapse in the map
			ast.Includes = append(ast.Includes, &parser.Include{Path: p, Reference: &parser.Thrift{Filename: p}})
		}
		for i := 0; i < nn; i++ {
			ast.Namespaces = append(ast.Namespaces, &parser.Namespace{Language: r.Pick(langs) + strings.Repeat("x", r.Intn(2)), Name: fmt.Sprintf("a.b%d", r.Intn(9))})
		}
		fd := thrift_reflection.GetFileDescriptor(ast)
		seen := map[string]bool{}
		for k := 0; k < 8; k++ {
			bs, err := meta.Marshal(fd)
			if err != nil {
				out.Case("D "+vl.Hex(path)+" 0 0", "err", false)
				continue
			}
			if seen[string(bs)] {
				continue
			}
			seen[string(bs)] = true
			// field 1: 0b 00 01 len path
			off := 3 + 4 + len(path)
			inc, off2, ok1 := readMapField(bs, off)
			ns, _, ok2 := readMapField(bs, off2)
			if !ok1 || !ok2 {
				out.Case("D "+vl.Hex(path)+" 0 0", "unparsable:"+vl.Hex(string(bs)), true)
				continue
			}
			op := []string{"D", vl.Hex(path), fmt.Sprint(len(inc))}
			for _, e := range inc {
				op = append(op, vl.Hex(e[0]), vl.Hex(e[1]))
			}
			op = append(op, fmt.Sprint(len(ns)))
			for _, e := range ns {
				op = append(op, vl.Hex(e[0]), vl.Hex(e[1]))
			}
			out.Case(strings.Join(op, " "), vl.Hex(string(bs)), len(inc) >= 2 || len(ns) >= 2)
		}
		big := len(fd.Includes) >= 2 || len(fd.Namespaces) >= 2
		if big {
			multi++
			if len(seen) >= 2 {
				multiSeen++
			}
		}
		out.Count(fmt.Sprintf("D:includes=%d,namespaces=%d", min(len(fd.Includes), 3), min(len(fd.Namespaces), 4)))
		if c < 2 {
			out.Sample(map[string]interface{}{"suite": "D", "includes": fd.Includes, "namespaces": fd.Namespaces, "distinct_marshal_outputs_in_8_calls": len(seen)})
		}
	}
	out.Stats["D:descriptors_with_a_map_of_2+_entries"] = multi
	out.Stats["D:of_those_marshalled_in_2+_orders_within_8_calls"] = multiSeen
}

// corrConstMap: meta.Marshal of a map constant of the descriptor (keys are pointers: equal contents may
// repeat). 8 calls per value; every distinct byte string is a case; the model sorts by (key, value) encoding.
func corrConstMap(r *vl.Rng, out *vl.Out, n int) {
	dupCases, dupMulti := 0, 0
	for c := 0; c < n; c++ {
		k := r.Intn(9)
		cv := &thrift_reflection.ConstValueDescriptor{Type: thrift_reflection.ConstValueType_MAP,
			ValueMap: map[*thrift_reflection.ConstValueDescriptor]*thrift_reflection.ConstValueDescriptor{}}
		var es [][2]string
		seenK, dup := map[string]bool{}, false
		for i := 0; i < k; i++ {
			key, val := fmt.Sprintf("k%d", r.Intn(4)), fmt.Sprintf("v%d", r.Intn(6))
			if r.Chance(20) {
				key += strings.Repeat("x", r.Intn(3))
			}
			dup = dup || seenK[key]
			seenK[key] = true
			es = append(es, [2]string{key, val})
			cv.ValueMap[&thrift_reflection.ConstValueDescriptor{Type: thrift_reflection.ConstValueType_STRING, ValueString: key}] =
				&thrift_reflection.ConstValueDescriptor{Type: thrift_reflection.ConstValueType_STRING, ValueString: val}
		}
		op := []string{"V", fmt.Sprint(len(es))}
		for _, e := range es {
			op = append(op, vl.Hex(e[0]), vl.Hex(e[1]))
		}
		seen := map[string]bool{}
		for t := 0; t < 8; t++ {
			bs, err := meta.Marshal(cv)
			res := "err"
			if err == nil {
				res = vl.Hex(string(bs))
			}
			if !seen[res] {
				seen[res] = true
				out.Case(strings.Join(op, " "), res, len(es) >= 2)
			}
		}
		if dup {
			dupCases++
			if len(seen) > 1 {
				dupMulti++
			}
		}
		out.Count(fmt.Sprintf("V:entries=%d,equal_keys=%v", min(len(es), 4), dup))
		if c < 1 {
			out.Sample(map[string]interface{}{"suite": "V", "entries": es})
		}
	}
	out.Stats["V:maps_with_keys_of_equal_content"] = dupCases
	out.Stats["V:of_those_marshalled_to_2+_byte_strings_within_8_calls"] = dupMulti
}

// sameNameProg: nInc include files that all define the same names (exceptions Rejected/Timeout, struct
// Shared, enum Kind, typedef Alias, consts, service Common) in different Go packages — pairs of them even
// in packages with the same last path element — and a main file that uses them side by side.
func sameNameProg(r *vl.Rng, idx, nInc int) Prog {
	var p Prog
	main := IDLFile{Name: fmt.Sprintf("main%d.thrift", idx)}
	var throwsAll, fields, names []string
	for i := 0; i < nInc; i++ {
		base := fmt.Sprintf("inc%d_%d", idx, i)
		p.Files = append(p.Files, IDLFile{Name: base + ".thrift", Lines: []string{
			fmt.Sprintf("namespace go p%d.g%d.shared%d", idx, i/2, i%2),
			"enum Kind { A = 1, B = 2 }",
			"struct Shared { 1: string a, 2: Kind k }",
			"exception Rejected { 1: string msg }",
			"exception Timeout { 1: i32 ms }",
			"typedef map<string,Shared> Alias",
			fmt.Sprintf(`const string NAME = "n%d"`, i),
			`const map<string,i32> LIMITS = {"a": 1, "b": 2}`,
			"service Common { Shared get(1: string k) throws (1: Rejected r, 2: Timeout t) }",
		}})
		main.Lines = append(main.Lines, fmt.Sprintf(`include "%s.thrift"`, base))
		throwsAll = append(throwsAll, base+".Rejected", base+".Timeout") // interleaved: every rotation of the bucket shows
		fields = append(fields, fmt.Sprintf("%d: %s.Shared s%d, %d: %s.Kind k%d, %d: %s.Alias a%d", 3*i+1, base, i, 3*i+2, base, i, 3*i+3, base, i))
		names = append(names, base+".NAME")
	}
	main.Lines = append(main.Lines, fmt.Sprintf("namespace go p%d.main", idx), "exception Rejected { 1: string why }",
		fmt.Sprintf("struct Shared { %s }", strings.Join(fields, ", ")),
		fmt.Sprintf("const list<string> NAMES = [%s]", strings.Join(names, ", ")))
	thr := func(ts []string) string {
		var parts []string
		for i, t := range ts {
			parts = append(parts, fmt.Sprintf("%d: %s e%d", i+1, t, i+1))
		}
		return strings.Join(parts, ", ")
	}
	rot := r.Intn(len(throwsAll))
	sub := append(append([]string(nil), throwsAll[rot:]...), throwsAll[:rot]...)
	main.Lines = append(main.Lines,
		fmt.Sprintf("service Orders extends inc%d_0.Common { Shared place(1: inc%d_%d.Shared s) throws (%s), void cancel(1: i64 id) throws (%s) }",
			idx, idx, nInc-1, thr(throwsAll), thr([]string{"Rejected", fmt.Sprintf("inc%d_%d.Rejected", idx, nInc-1)})),
		fmt.Sprintf("service Audit extends inc%d_%d.Common { inc%d_0.Shared last() throws (%s) }", idx, nInc-1, idx, thr(sub[:2+r.Intn(len(sub)-1)])))
	p.Files = append([]IDLFile{main}, p.Files...)
	return p
}

// corrServiceThrows: the template function ServiceThrows of the real BuildFuncMap on services that throw
// same-named exceptions of different packages; 16 calls per service, every distinct result is a case,
// the model sorts the Go type names.
func corrServiceThrows(r *vl.Rng, out *vl.Out, dir string, n int) {
	for c := 0; c < n; c++ {
		p := sameNameProg(r, c, 2+r.Intn(3))
		idl, err := writeProg(filepath.Join(dir, fmt.Sprintf("st%d", c)), p)
		if err != nil {
			panic(err)
		}
		func() {
			defer func() {
				if e := recover(); e != nil {
					out.Case("T", fmt.Sprintf("panic:%v", e), true)
				}
			}()
			ast, err := parser.ParseFile(idl, nil, true)
			if err == nil {
				_, err = semantic.NewChecker(semantic.Options{FixWarnings: true}).CheckAll(ast)
			}
			if err == nil {
				err = semantic.ResolveSymbols(ast)
			}
			if err != nil {
				out.Case("T", "err:front", true)
				return
			}
			cu := golang.NewCodeUtils(backend.DummyLogFunc())
			scope, err := golang.BuildScope(cu, ast)
			if err != nil {
				out.Case("T", "err:scope", true)
				return
			}
			cu.SetRootScope(scope)
			fn, ok := cu.BuildFuncMap()["ServiceThrows"].(func(*golang.Service) []*golang.Field)
			if !ok {
				out.Case("T", "err:signature", true)
				return
			}
			for _, svc := range scope.Services() {
				seen := map[string]bool{}
				var op string
				for t := 0; t < 16; t++ {
					var names []string
					for _, f := range fn(svc) {
						names = append(names, vl.Hex(f.GoTypeName().String()))
					}
					res := strings.Join(append([]string{"ok"}, names...), " ")
					if op == "" {
						op = strings.Join(append([]string{"T"}, names...), " ")
					}
					if !seen[res] {
						seen[res] = true
						out.Case(op, res, len(names) >= 2)
					}
				}
				out.Count(fmt.Sprintf("T:throws=%d", min(len(strings.Fields(op))-1, 9)))
				if len(seen) > 1 {
					var obs []string
					for k := range seen {
						obs = append(obs, k)
					}
					sort.Strings(obs)
					out.Fail(vl.OracleFail{Key: "nondeterministic:in-process:ServiceThrows", What: "the template function ServiceThrows returns the exceptions of one service in different orders",
						Input: map[string]interface{}{"idl": p.Text(), "main": p.Files[0].Name, "service": string(svc.GoName())}, Expected: "one order", Observed: obs})
				}
			}
			if c < 1 {
				out.Sample(map[string]interface{}{"suite": "T", "main": p.Files[0].Lines})
			}
		}()
		os.RemoveAll(filepath.Join(dir, fmt.Sprintf("st%d", c)))
	}
}

func nsRun(style int, es [][2]string) (string, bool) {
	var ns namespace.Namespace
	if style == 0 {
		ns = namespace.NewNamespace(func(name string, cnt int) string { return fmt.Sprintf("%s%d", name, cnt-1) })
	} else {
		ns = namespace.NewNamespace(namespace.UnderscoreSuffix)
	}
	pan := false
	func() {
		defer func() {
			if recover() != nil {
				pan = true
			}
		}()
		for _, e := range es {
			ns.Add(e[0], e[1])
		}
	}()
	if pan {
		return "panic", true
	}
	var kv []string
	ns.Iterate(func(name, id string) bool {
		kv = append(kv, name+"\x00"+id)
		return true
	})
	sort.Strings(kv)
	var ps []string
	for _, s := range kv {
		p := strings.SplitN(s, "\x00", 2)
		ps = append(ps, vl.Hex(p[0])+"="+vl.Hex(p[1]))
	}
	sorted := "none"
	if len(ps) > 0 {
		sorted = strings.Join(ps, ",")
	}
	var gets []string
	for _, e := range es {
		gets = append(gets, vl.Hex(ns.Get(e[1])))
	}
	return strings.TrimRight("ok "+sorted+" "+strings.Join(gets, " "), " "), false
}

func corrNamespace(r *vl.Rng, out *vl.Out, n int) {
	names := []string{"fmt", "context", "thrift", "thrift0", "thrift1", "a", "a_", "a__", "base", "base0"}
	for c := 0; c < n; c++ {
		style := r.Intn(2)
		k := r.Intn(8)
		distinct := r.Chance(50)
		var es [][2]string
		usedN, usedI := map[string]bool{}, map[string]bool{}
		for i := 0; i < k; i++ {
			nm, id := r.Pick(names), fmt.Sprintf("path/%d", r.Intn(6))
			if distinct && (usedN[nm] || usedI[id]) {
				continue
			}
			usedN[nm], usedI[id] = true, true
			es = append(es, [2]string{nm, id})
		}
		line := func(es [][2]string) string {
			op := []string{"N", fmt.Sprint(style), fmt.Sprint(len(es))}
			for _, e := range es {
				op = append(op, vl.Hex(e[0]), vl.Hex(e[1]))
			}
			return strings.Join(op, " ")
		}
		res, _ := nsRun(style, es)
		out.Case(line(es), res, len(es) >= 2)
		out.Count(fmt.Sprintf("N:entries=%d,distinct=%v", min(len(es), 4), distinct))
		if distinct && len(es) >= 2 {
			// model ⊑ implementation for the theorem's domain: every order gives the same maps
			want := strings.Fields(res)[1]
			for t := 0; t < 3; t++ {
				perm := append([][2]string(nil), es...)
				for i := len(perm) - 1; i > 0; i-- {
					j := r.Intn(i + 1)
					perm[i], perm[j] = perm[j], perm[i]
				}
				res2, _ := nsRun(style, perm)
				out.Case(line(perm), res2, true)
				if f := strings.Fields(res2); len(f) < 2 || f[1] != want {
					out.Fail(vl.OracleFail{Key: "nondeterministic:in-process:namespace.Add", What: "Add of distinct names with distinct ids depends on the order",
						Input: map[string]interface{}{"style": style, "order_a": es, "order_b": perm}, Expected: res, Observed: res2})
				}
			}
		}
		if c < 2 {
			out.Sample(map[string]interface{}{"suite": "N", "style": style, "entries": es})
		}
	}
}

func min(a, b int) int {
	if a < b {
		return a
	}
	return b
}
