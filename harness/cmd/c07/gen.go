package main

// Seeded generator of IDL programs for the determinism oracle. Programs are built to make the Go
// maps on the generation path large: several annotations per node, map-valued constants and
// defaults, several namespaces and includes, many services and exceptions.
// One definition per line, so that shrinking can work on lines.

import (
	"fmt"
	"strings"

	"verifharness/internal/vl"
)

type IDLFile struct {
	Name  string   `json:"name"`
	Lines []string `json:"lines"`
}

type Prog struct {
	Files []IDLFile `json:"files"` // Files[0] is the main file
}

func (p Prog) Text() map[string]string {
	m := map[string]string{}
	for _, f := range p.Files {
		m[f.Name] = strings.Join(f.Lines, "\n") + "\n"
	}
	return m
}

func (p Prog) Clone() Prog {
	q := Prog{}
	for _, f := range p.Files {
		q.Files = append(q.Files, IDLFile{f.Name, append([]string(nil), f.Lines...)})
	}
	return q
}

func (p Prog) NLines() int {
	n := 0
	for _, f := range p.Files {
		n += len(f.Lines)
	}
	return n
}

var langs = []string{"java", "py", "rs", "cpp", "js", "php", "swift", "rb"}

type gen struct {
	r     *vl.Rng
	stats map[string]int
}

func (g *gen) anns(min, max int) string {
	n := min + g.r.Intn(max-min+1)
	if n == 0 {
		return ""
	}
	var parts []string
	for i := 0; i < n; i++ {
		k := fmt.Sprintf("x%d.k%d", g.r.Intn(3), i)
		if g.r.Chance(15) && i > 0 {
			k = fmt.Sprintf("x%d.k%d", g.r.Intn(3), g.r.Intn(i)) // sometimes a repeated key (multi-valued annotation)
		}
		parts = append(parts, fmt.Sprintf(`%s="v%d"`, k, g.r.Intn(50)))
	}
	g.stats["annotations"] += n
	return " (" + strings.Join(parts, ", ") + ")"
}

func (g *gen) namespaces(pkg string) []string {
	out := []string{"namespace go " + pkg}
	n := 1 + g.r.Intn(5)
	start := g.r.Intn(len(langs))
	for i := 0; i < n; i++ {
		out = append(out, fmt.Sprintf("namespace %s %s", langs[(start+i)%len(langs)], pkg))
	}
	g.stats["namespaces"] += n + 1
	return out
}

func (g *gen) strMap(n int, val func(i int) string) string {
	var parts []string
	for i := 0; i < n; i++ {
		parts = append(parts, fmt.Sprintf(`"k%d": %s`, i, val(i)))
	}
	g.stats["map_literal_entries"] += n
	return "{" + strings.Join(parts, ", ") + "}"
}

var baseTypes = []string{"bool", "byte", "i16", "i32", "i64", "double", "string", "binary"}

// fieldType returns a type and, when it has one, a default value literal.
func (g *gen) fieldType(refs []string, enums []string, depth int) (typ, def string) {
	switch k := g.r.Intn(10); {
	case k < 4 || depth >= 2:
		t := g.r.Pick(baseTypes)
		switch t {
		case "bool":
			def = g.r.Pick([]string{"true", "false"})
		case "byte", "i16", "i32", "i64":
			def = fmt.Sprint(g.r.Intn(100))
		case "double":
			def = fmt.Sprintf("%d.5", g.r.Intn(9))
		case "string":
			def = fmt.Sprintf(`"s%d"`, g.r.Intn(9))
		}
		return t, def
	case k == 4:
		return "map<string,string>", g.strMap(2+g.r.Intn(4), func(i int) string { return fmt.Sprintf(`"v%d"`, i) })
	case k == 5:
		return "map<string,i32>", g.strMap(2+g.r.Intn(4), func(i int) string { return fmt.Sprint(i) })
	case k == 6:
		t, _ := g.fieldType(refs, enums, depth+1)
		return "list<" + t + ">", ""
	case k == 7:
		t, _ := g.fieldType(refs, enums, depth+1)
		return "map<" + g.r.Pick([]string{"string", "i32", "i64"}) + "," + t + ">", ""
	case k == 8 && len(enums) > 0:
		return g.r.Pick(enums), ""
	case len(refs) > 0:
		return g.r.Pick(refs), ""
	}
	return "set<" + g.r.Pick([]string{"string", "i32", "i64"}) + ">", ""
}

func (g *gen) structLine(kind, name string, refs, enums []string, nf int) string {
	var fs []string
	for i := 1; i <= nf; i++ {
		t, def := g.fieldType(refs, enums, 0)
		req := g.r.Pick([]string{"", "optional ", "required ", ""})
		if kind == "union" {
			req, def = "", ""
		}
		f := fmt.Sprintf("%d: %s%s f%d", i, req, t, i)
		if def != "" && g.r.Chance(60) {
			f += " = " + def
		}
		f += g.anns(0, 4)
		fs = append(fs, f)
	}
	g.stats[kind+"s"]++
	return fmt.Sprintf("%s %s { %s }%s", kind, name, strings.Join(fs, ", "), g.anns(0, 5))
}

func (g *gen) enumLine(name string) string {
	n := 2 + g.r.Intn(4)
	var vs []string
	for i := 0; i < n; i++ {
		vs = append(vs, fmt.Sprintf("V%d = %d%s", i, i+1, g.anns(0, 3)))
	}
	g.stats["enums"]++
	return fmt.Sprintf("enum %s { %s }%s", name, strings.Join(vs, ", "), g.anns(0, 4))
}

func (g *gen) constLines(prefix string, n int) []string {
	var out []string
	for i := 0; i < n; i++ {
		name := fmt.Sprintf("%sC%d", prefix, i)
		switch g.r.Intn(6) {
		case 0:
			out = append(out, fmt.Sprintf("const map<string,string> %s = %s", name, g.strMap(2+g.r.Intn(6), func(i int) string { return fmt.Sprintf(`"v%d"`, i) })))
		case 1:
			out = append(out, fmt.Sprintf("const map<string,list<i32>> %s = %s", name, g.strMap(2+g.r.Intn(4), func(i int) string { return fmt.Sprintf("[%d, %d]", i, i+1) })))
		case 2:
			out = append(out, fmt.Sprintf("const map<string,map<string,i32>> %s = %s", name, g.strMap(2+g.r.Intn(3), func(i int) string {
				return g.strMap(2, func(j int) string { return fmt.Sprint(i*10 + j) })
			})))
		case 3:
			var parts []string
			m := 2 + g.r.Intn(5)
			for j := 0; j < m; j++ {
				parts = append(parts, fmt.Sprintf(`%d: "n%d"`, j*3, j))
			}
			g.stats["map_literal_entries"] += m
			out = append(out, fmt.Sprintf("const map<i32,string> %s = {%s}%s", name, strings.Join(parts, ", "), g.anns(0, 3)))
		case 4:
			out = append(out, fmt.Sprintf("const list<map<string,string>> %s = [%s, %s]", name,
				g.strMap(2, func(i int) string { return fmt.Sprintf(`"a%d"`, i) }), g.strMap(3, func(i int) string { return fmt.Sprintf(`"b%d"`, i) })))
		default:
			out = append(out, fmt.Sprintf(`const string %s = "c%d"%s`, name, i, g.anns(0, 3)))
		}
		g.stats["consts"]++
	}
	return out
}

// collidingFiles: n directories d0..d(n-1), each with a `common.thrift` in the SAME go namespace (so all of them
// map to the output file <ns>/common.go and the file manager has to rename all but the first) and a link file
// that includes it; the caller includes the link files, so each common.thrift is reached by its own chain.
func collidingFiles(idx, n int) (files []IDLFile, includes, refs []string) {
	for k := 0; k < n; k++ {
		d := fmt.Sprintf("d%d", k)
		files = append(files,
			IDLFile{Name: d + "/common.thrift", Lines: []string{
				fmt.Sprintf("namespace go p%d.collide", idx),
				fmt.Sprintf("struct Common%d { 1: string a, 2: i32 n%d }", k, k),
				fmt.Sprintf("enum CKind%d { X = 1, Y = %d }", k, k+2),
				fmt.Sprintf(`const map<string,i32> CLIM%d = {"a": 1, "b": %d}`, k, k+2)}},
			IDLFile{Name: fmt.Sprintf("%s/link%d_%d.thrift", d, idx, k), Lines: []string{
				`include "common.thrift"`,
				fmt.Sprintf("namespace go p%d.link%d", idx, k),
				fmt.Sprintf("struct Link%d { 1: common.Common%d c, 2: common.CKind%d k }", k, k, k)}})
		includes = append(includes, fmt.Sprintf(`include "%s/link%d_%d.thrift"`, d, idx, k))
		refs = append(refs, fmt.Sprintf("link%d_%d.Link%d", idx, k, k))
	}
	return
}

// genProg builds one program: 0..3 include files and a main file.
func genProg(r *vl.Rng, idx int, stats map[string]int) Prog {
	g := &gen{r: r, stats: stats}
	var p Prog
	nInc := r.Intn(4)
	if idx%2 == 0 && nInc < 2 {
		nInc = 2 + r.Intn(2)
	}
	stats["includes"] += nInc
	shared := nInc >= 2 && r.Chance(60)
	if shared {
		stats["programs_with_same_named_definitions_in_includes"]++
	}
	main := IDLFile{Name: fmt.Sprintf("main%d.thrift", idx)}
	var refs, enums, excs, svcs []string
	var incs []IDLFile
	for i := 0; i < nInc; i++ {
		base := fmt.Sprintf("inc%d_%d", idx, i)
		f := IDLFile{Name: base + ".thrift"}
		pkg := fmt.Sprintf("p%d.inc%d", idx, i)
		if shared {
			pkg = fmt.Sprintf("p%d.g%d.shared%d", idx, i/2, i%2) // pairs of packages with the same last element
		}
		f.Lines = append(f.Lines, g.namespaces(pkg)...)
		if shared { // the same names in every include, used side by side by the main file
			f.Lines = append(f.Lines, "enum Kind { A = 1, B = 2 }", "struct Shared { 1: string a, 2: Kind k }"+g.anns(0, 2),
				"exception Rejected { 1: string msg }", "exception Timeout { 1: i32 ms }",
				fmt.Sprintf(`const string NAME = "n%d"`, i), "typedef map<string,Shared> Alias")
			refs = append(refs, base+".Shared", base+".Alias")
			enums = append(enums, base+".Kind")
			excs = append(excs, base+".Rejected", base+".Timeout")
		}
		en := fmt.Sprintf("IE%d", i)
		f.Lines = append(f.Lines, g.enumLine(en))
		f.Lines = append(f.Lines, g.structLine("struct", fmt.Sprintf("IS%d", i), nil, []string{en}, 2+r.Intn(4)))
		f.Lines = append(f.Lines, g.structLine("exception", fmt.Sprintf("IX%d", i), nil, nil, 1+r.Intn(2)))
		f.Lines = append(f.Lines, g.constLines("I", 1+r.Intn(2))...)
		f.Lines = append(f.Lines, fmt.Sprintf("typedef list<IS%d> IL%d%s", i, i, g.anns(0, 3)))
		if r.Chance(50) {
			f.Lines = append(f.Lines, fmt.Sprintf("service ISvc%d { IS%d get(1: string k) throws (1: IX%d e)%s }%s", i, i, i, g.anns(0, 3), g.anns(0, 3)))
			svcs = append(svcs, fmt.Sprintf("%s.ISvc%d", base, i))
			stats["services"]++
		}
		incs = append(incs, f)
		main.Lines = append(main.Lines, fmt.Sprintf(`include "%s.thrift"`, base))
		refs = append(refs, fmt.Sprintf("%s.IS%d", base, i))
		enums = append(enums, fmt.Sprintf("%s.IE%d", base, i))
		excs = append(excs, fmt.Sprintf("%s.IX%d", base, i))
	}
	if r.Chance(45) { // IDLs in different directories that map to one output file
		n := 2 + r.Intn(2)
		cf, inc, rf := collidingFiles(idx, n)
		incs = append(incs, cf...)
		main.Lines = append(main.Lines, inc...)
		refs = append(refs, rf...)
		stats["programs_with_colliding_output_paths"]++
		stats["colliding_files"] += n
	}
	main.Lines = append(main.Lines, g.namespaces(fmt.Sprintf("p%d.main", idx))...)
	main.Lines = append(main.Lines, g.constLines("M", 2+r.Intn(5))...)
	if r.Chance(60) { // a map constant keyed by structs, some keys of equal content with different values
		var es []string
		for i, n := 0, 3+r.Intn(6); i < n; i++ {
			es = append(es, fmt.Sprintf(`{"name": "k%d", "id": %d}: "v%d"`, i%3, i%3, i))
		}
		main.Lines = append(main.Lines, "struct MK { 1: string name, 2: i32 id }",
			fmt.Sprintf("const map<MK,string> MDup = {%s}", strings.Join(es, ", ")))
		stats["struct_key_map_consts"]++
		stats["map_literal_entries"] += len(es)
	}
	for i, n := 0, 1+r.Intn(3); i < n; i++ {
		en := fmt.Sprintf("E%d", i)
		main.Lines = append(main.Lines, g.enumLine(en))
		enums = append(enums, en)
	}
	main.Lines = append(main.Lines, fmt.Sprintf("typedef map<string,i64> TM%s", g.anns(0, 4)))
	for i, n := 0, 2+r.Intn(5); i < n; i++ {
		sn := fmt.Sprintf("S%d", i)
		main.Lines = append(main.Lines, g.structLine("struct", sn, refs, enums, 1+r.Intn(7)))
		refs = append(refs, sn)
	}
	for i, n := 0, r.Intn(3); i < n; i++ {
		main.Lines = append(main.Lines, g.structLine("union", fmt.Sprintf("U%d", i), refs, enums, 2+r.Intn(3)))
	}
	for i, n := 0, 2+r.Intn(7); i < n; i++ {
		xn := fmt.Sprintf("X%d", i)
		main.Lines = append(main.Lines, g.structLine("exception", xn, nil, nil, 1+r.Intn(2)))
		excs = append(excs, xn)
	}
	for i, n := 0, 1+r.Intn(5); i < n; i++ {
		sv := fmt.Sprintf("Svc%d", i)
		var ms []string
		for j, m := 0, 1+r.Intn(6); j < m; j++ {
			var args []string
			for a, na := 1, r.Intn(4); a <= na; a++ {
				t, _ := g.fieldType(refs, enums, 1)
				args = append(args, fmt.Sprintf("%d: %s a%d%s", a, t, a, g.anns(0, 2)))
			}
			if r.Chance(12) {
				ms = append(ms, fmt.Sprintf("oneway void m%d(%s)%s", j, strings.Join(args, ", "), g.anns(0, 3)))
				continue
			}
			ret := "void"
			if r.Chance(70) {
				ret, _ = g.fieldType(refs, enums, 1)
			}
			var th []string
			perm := r.Intn(len(excs) + 1)
			for t, nt := 0, r.Intn(6); t < nt && t < len(excs); t++ {
				th = append(th, fmt.Sprintf("%d: %s e%d", t+1, excs[(perm+t*5)%len(excs)], t+1))
			}
			stats["throws"] += len(th)
			thr := ""
			if len(th) > 0 {
				thr = " throws (" + strings.Join(th, ", ") + ")"
			}
			ms = append(ms, fmt.Sprintf("%s m%d(%s)%s%s", ret, j, strings.Join(args, ", "), thr, g.anns(0, 3)))
		}
		ext := ""
		if len(svcs) > 0 && r.Chance(40) {
			ext = " extends " + r.Pick(svcs)
		}
		main.Lines = append(main.Lines, fmt.Sprintf("service %s%s { %s }%s", sv, ext, strings.Join(ms, ", "), g.anns(0, 4)))
		svcs = append(svcs, sv)
		stats["services"]++
	}
	p.Files = append([]IDLFile{main}, incs...)
	return p
}
